import SkoolVerif.Model.ZxTile
import SkoolVerif.Spec.ZxPixel
/-! Helper lemmas about masks, flips and rotations of single tiles (C15). -/
set_option linter.unusedSimpArgs false
namespace ZxTile
open ZxSpec

theorem and_one_ne_zero (b : Nat) : (b &&& 1 ≠ 0) ↔ b.testBit 0 = true := by
  rw [Nat.and_one_is_mod, Nat.testBit_zero]
  constructor
  · intro h; simp; omega
  · intro h; simp at h; omega

theorem testBit_half (b k : Nat) : (b / 2).testBit k = b.testBit (k + 1) := by
  rw [Nat.testBit_succ]

theorem lt_pow_half {b n : Nat} (h : b < 2 ^ (n + 1)) : b / 2 < 2 ^ n := by
  rw [Nat.pow_succ] at h; omega

/-- Invariant of the `NoMask.apply` loop. -/
theorem noMaskLoop_get {α : Type} (ink : α) (n b : Nat) (px : List α) (hb : b < 2 ^ n)
    (hn : n ≤ px.length) (j : Nat) :
    (noMaskLoop ink n b px)[j]? = if j < n ∧ b.testBit (n - 1 - j) = true then some ink else px[j]? := by
  induction n generalizing b px with
  | zero => simp [noMaskLoop]
  | succ n ih =>
    unfold noMaskLoop
    by_cases h0 : b = 0
    · simp [h0]
    · simp only [h0, if_false, and_one_ne_zero]
      have hlen : n ≤ (if b.testBit 0 = true then px.set n ink else px).length := by
        split
        · simp; omega
        · omega
      rw [ih (b / 2) _ (lt_pow_half hb) hlen]
      by_cases hj : j < n
      · have e1 : n - 1 - j + 1 = n + 1 - 1 - j := by omega
        have hj' : j < n + 1 := by omega
        have hne : n ≠ j := by omega
        simp only [hj, hj', true_and, testBit_half, e1]
        by_cases hb0 : b.testBit 0 = true <;> simp [hb0, List.getElem?_set, hne]
      · by_cases hjn : j = n
        · subst hjn
          have e : j + 1 - 1 - j = 0 := by omega
          have hl : j < px.length := by omega
          simp only [Nat.lt_irrefl, false_and, if_false, Nat.lt_succ_self, true_and, e]
          by_cases hb0 : b.testBit 0 = true <;> simp [hb0, List.getElem?_set, hl]
        · have hj' : ¬ j < n + 1 := by omega
          have hne : n ≠ j := by omega
          simp only [hj, hj', false_and, if_false]
          by_cases hb0 : b.testBit 0 = true <;> simp [hb0, List.getElem?_set, hne]

/-- Invariant of the `OrAndMask.apply` loop. -/
theorem orAndLoop_get {α : Type} (ink trans : α) (n u m : Nat) (px : List α) (hm : m < 2 ^ n)
    (hn : n ≤ px.length) (j : Nat) :
    (orAndLoop ink trans n u m px)[j]? =
      if j < n ∧ m.testBit (n - 1 - j) = true then
        (if u.testBit (n - 1 - j) = true then some ink else some trans)
      else px[j]? := by
  induction n generalizing u m px with
  | zero => simp [orAndLoop]
  | succ n ih =>
    unfold orAndLoop
    by_cases h0 : m = 0
    · simp [h0]
    · simp only [h0, if_false, and_one_ne_zero]
      have hlen : n ≤ (if m.testBit 0 = true then
          (if u.testBit 0 = true then px.set n ink else px.set n trans) else px).length := by
        split
        · split <;> (simp; omega)
        · omega
      rw [ih (u / 2) (m / 2) _ (lt_pow_half hm) hlen]
      by_cases hj : j < n
      · have e1 : n - 1 - j + 1 = n + 1 - 1 - j := by omega
        have hj' : j < n + 1 := by omega
        have hne : n ≠ j := by omega
        simp only [hj, hj', true_and, testBit_half, e1]
        by_cases hm0 : m.testBit 0 = true <;> by_cases hu0 : u.testBit 0 = true <;>
          simp [hm0, hu0, List.getElem?_set, hne]
      · by_cases hjn : j = n
        · subst hjn
          have e : j + 1 - 1 - j = 0 := by omega
          have hl : j < px.length := by omega
          simp only [Nat.lt_irrefl, false_and, if_false, Nat.lt_succ_self, true_and, e]
          by_cases hm0 : m.testBit 0 = true <;> by_cases hu0 : u.testBit 0 = true <;>
            simp [hm0, hu0, List.getElem?_set, hl]
        · have hj' : ¬ j < n + 1 := by omega
          have hne : n ≠ j := by omega
          simp only [hj, hj', false_and, if_false]
          by_cases hm0 : m.testBit 0 = true <;> by_cases hu0 : u.testBit 0 = true <;>
            simp [hm0, hu0, List.getElem?_set, hne]

/-- Invariant of the `AndOrMask.apply` loop. -/
theorem andOrLoop_get {α : Type} (ink trans : α) (n u m : Nat) (px : List α) (hu : u < 2 ^ n)
    (hm : m < 2 ^ n) (hn : n ≤ px.length) (j : Nat) :
    (andOrLoop ink trans n u m px)[j]? =
      if j < n ∧ u.testBit (n - 1 - j) = true then some ink
      else if j < n ∧ m.testBit (n - 1 - j) = true then some trans
      else px[j]? := by
  induction n generalizing u m px with
  | zero => simp [andOrLoop]
  | succ n ih =>
    unfold andOrLoop
    by_cases h0 : u = 0 ∧ m = 0
    · simp [h0.1, h0.2]
    · simp only [h0, if_false, and_one_ne_zero]
      have hlen : n ≤ (if u.testBit 0 = true then px.set n ink
          else if m.testBit 0 = true then px.set n trans else px).length := by
        split
        · simp; omega
        · split
          · simp; omega
          · omega
      rw [ih (u / 2) (m / 2) _ (lt_pow_half hu) (lt_pow_half hm) hlen]
      by_cases hj : j < n
      · have e1 : n - 1 - j + 1 = n + 1 - 1 - j := by omega
        have hj' : j < n + 1 := by omega
        have hne : n ≠ j := by omega
        simp only [hj, hj', true_and, testBit_half, e1]
        by_cases hm0 : m.testBit 0 = true <;> by_cases hu0 : u.testBit 0 = true <;>
          simp [hm0, hu0, List.getElem?_set, hne]
      · by_cases hjn : j = n
        · subst hjn
          have e : j + 1 - 1 - j = 0 := by omega
          have hl : j < px.length := by omega
          simp only [Nat.lt_irrefl, false_and, if_false, Nat.lt_succ_self, true_and, e]
          by_cases hm0 : m.testBit 0 = true <;> by_cases hu0 : u.testBit 0 = true <;>
            simp [hm0, hu0, List.getElem?_set, hl]
        · have hj' : ¬ j < n + 1 := by omega
          have hne : n ≠ j := by omega
          simp only [hj, hj', false_and, if_false]
          by_cases hm0 : m.testBit 0 = true <;> by_cases hu0 : u.testBit 0 = true <;>
            simp [hm0, hu0, List.getElem?_set, hne]

/-- The documented number of a mask kind. -/
def MaskKind.toNat : MaskKind → Nat
  | .noMask => 0
  | .orAnd => 1
  | .andOr => 2

/-- The mask byte the masked classes use: the tile's mask row, or (no mask
data) the graphic byte itself. -/
def maskByteOf (u : Udg) (row : Nat) : Nat :=
  match u.maskRows with
  | some m => m.getD row 0
  | none => u.data.getD row 0

theorem getElem?_replicate8 {α : Type} (a : α) (j : Nat) :
    (List.replicate 8 a)[j]? = if j < 8 then some a else none := by
  rw [List.getElem?_replicate]

/-- `mask.apply` computes the documented truth table, column by column. -/
theorem applyMask_eq_rule {α : Type} (k : MaskKind) (u : Udg) (row : Nat) (paper ink trans : α)
    (hu : u.data.getD row 0 < 256) (hm : maskByteOf u row < 256) :
    applyMask k u row paper ink trans =
      (List.range 8).map (fun c =>
        (rule k.toNat (colBit (u.data.getD row 0) c) (colBit (maskByteOf u row) c)).pick paper ink trans) := by
  have e0 : applyMask .noMask u row paper ink trans =
      noMaskLoop ink 8 (u.data.getD row 0) (List.replicate 8 paper) := rfl
  have e1 : applyMask .orAnd u row paper ink trans =
      orAndLoop ink trans 8 (u.data.getD row 0) (maskByteOf u row) (List.replicate 8 paper) := rfl
  have e2 : applyMask .andOr u row paper ink trans =
      andOrLoop ink trans 8 (u.data.getD row 0) (maskByteOf u row) (List.replicate 8 paper) := rfl
  generalize u.data.getD row 0 = ub at *
  generalize maskByteOf u row = mb at *
  apply List.ext_getElem?
  intro j
  have h8 : (8 : Nat) ≤ (List.replicate 8 paper).length := by simp
  have hR : ((List.range 8).map (fun c =>
        (rule k.toNat (colBit ub c) (colBit mb c)).pick paper ink trans))[j]? =
      if j < 8 then some ((rule k.toNat (colBit ub j) (colBit mb j)).pick paper ink trans)
      else none := by
    by_cases hj : j < 8
    · simp [hj, List.getElem?_range]
    · simp [hj]
  rw [hR]
  cases k with
  | noMask =>
    rw [e0, noMaskLoop_get ink 8 _ _ (by simpa using hu) h8, getElem?_replicate8]
    by_cases hj : j < 8
    · simp only [hj, true_and, if_true, MaskKind.toNat, rule, colBit, show 8 - 1 - j = 7 - j by omega]
      by_cases ha : ub.testBit (7 - j) = true <;> simp [ha, Pix.pick]
    · simp [hj]
  | orAnd =>
    rw [e1, orAndLoop_get ink trans 8 _ _ _ (by simpa using hm) h8, getElem?_replicate8]
    by_cases hj : j < 8
    · simp only [hj, true_and, if_true, MaskKind.toNat, rule, colBit, show 8 - 1 - j = 7 - j by omega]
      by_cases ha : ub.testBit (7 - j) = true <;>
        by_cases hb : mb.testBit (7 - j) = true <;> simp [ha, hb, Pix.pick]
    · simp [hj]
  | andOr =>
    rw [e2, andOrLoop_get ink trans 8 _ _ _ (by simpa using hu) (by simpa using hm) h8, getElem?_replicate8]
    by_cases hj : j < 8
    · simp only [hj, true_and, if_true, MaskKind.toNat, rule, colBit, show 8 - 1 - j = 7 - j by omega]
      by_cases ha : ub.testBit (7 - j) = true <;>
        by_cases hb : mb.testBit (7 - j) = true <;> simp [ha, hb, Pix.pick]
    · simp [hj]

theorem applyMask_length {α : Type} (k : MaskKind) (u : Udg) (row : Nat) (paper ink trans : α)
    (hu : u.data.getD row 0 < 256) (hm : maskByteOf u row < 256) :
    (applyMask k u row paper ink trans).length = 8 := by
  rw [applyMask_eq_rule k u row paper ink trans hu hm]; simp

/-! ### Tiles as 8x8 bit matrices -/

/-- Bit in row `r`, column `c` (0 = leftmost) of an 8-byte tile. -/
def tileBit (t : List Nat) (r c : Nat) : Bool := colBit (t.getD r 0) c

/-- A tile: eight bytes. -/
def WfTile (t : List Nat) : Prop := t.length = 8 ∧ ∀ b ∈ t, b < 256

theorem byte_ext {a b : Nat} (ha : a < 256) (hb : b < 256)
    (h : ∀ c, c < 8 → colBit a c = colBit b c) : a = b := by
  apply Nat.eq_of_testBit_eq
  intro i
  by_cases hi : i < 8
  · have := h (7 - i) (by omega)
    simp only [colBit, show 7 - (7 - i) = i by omega] at this
    exact this
  · have p : (256 : Nat) ≤ 2 ^ i := by
      have : (2 : Nat) ^ 8 ≤ 2 ^ i := Nat.pow_le_pow_right (by decide) (by omega)
      simpa using this
    rw [Nat.testBit_lt_two_pow (by omega), Nat.testBit_lt_two_pow (by omega)]

theorem list8 {α : Type} (t : List α) (h : t.length = 8) :
    ∃ a0 a1 a2 a3 a4 a5 a6 a7, t = [a0, a1, a2, a3, a4, a5, a6, a7] := by
  match t, h with
  | [a0, a1, a2, a3, a4, a5, a6, a7], _ => exact ⟨a0, a1, a2, a3, a4, a5, a6, a7, rfl⟩

theorem tile_ext {s t : List Nat} (hs : WfTile s) (ht : WfTile t)
    (h : ∀ r c, r < 8 → c < 8 → tileBit s r c = tileBit t r c) : s = t := by
  apply List.ext_getElem (by rw [hs.1, ht.1])
  intro r h1 h2
  have hr : r < 8 := by rw [hs.1] at h1; exact h1
  apply byte_ext (hs.2 _ (List.getElem_mem h1)) (ht.2 _ (List.getElem_mem h2))
  intro c hc
  have := h r c hr hc
  simpa [tileBit, List.getD_eq_getElem?_getD, List.getElem?_eq_getElem h1, List.getElem?_eq_getElem h2] using this

/-! ### The FLIP table -/

def flipCheck : Bool :=
  (List.range 256).all (fun b =>
    decide (flipByte b < 256) && (List.range 8).all (fun i => (flipByte b).testBit i == b.testBit (7 - i)))

theorem flipCheck_ok : flipCheck = true := by decide +kernel

/-- `FLIP[b]` is `b` with its eight bits reversed. -/
theorem flipByte_spec (b : Nat) (hb : b < 256) :
    flipByte b < 256 ∧ ∀ c, c < 8 → colBit (flipByte b) c = colBit b (7 - c) := by
  have h := flipCheck_ok
  simp only [flipCheck, List.all_eq_true, List.mem_range, Bool.and_eq_true, decide_eq_true_eq, beq_iff_eq] at h
  obtain ⟨h1, h2⟩ := h b hb
  refine ⟨h1, fun c hc => ?_⟩
  have := h2 (7 - c) (by omega)
  simpa [colBit] using this

/-! ### Flips -/

theorem wf_map_flipByte {t : List Nat} (ht : WfTile t) : WfTile (t.map flipByte) := by
  refine ⟨by simpa using ht.1, ?_⟩
  intro b hb
  simp only [List.mem_map] at hb
  obtain ⟨a, ha, rfl⟩ := hb
  exact (flipByte_spec a (ht.2 a ha)).1

theorem wf_reverse {t : List Nat} (ht : WfTile t) : WfTile t.reverse :=
  ⟨by simpa using ht.1, fun b hb => ht.2 b (by simpa using hb)⟩

theorem wf_flipTile (f : Nat) {t : List Nat} (ht : WfTile t) : WfTile (flipTile f t) := by
  unfold flipTile
  split <;> split <;> first | exact wf_reverse (wf_map_flipByte ht) | exact wf_map_flipByte ht | exact wf_reverse ht | exact ht

theorem tileBit_map_flipByte {t : List Nat} (ht : WfTile t) (r c : Nat) (hr : r < 8) (hc : c < 8) :
    tileBit (t.map flipByte) r c = tileBit t r (7 - c) := by
  have hl : r < t.length := by rw [ht.1]; exact hr
  simp only [tileBit, List.getD_eq_getElem?_getD, List.getElem?_map, List.getElem?_eq_getElem hl, Option.map_some,
    Option.getD_some]
  exact (flipByte_spec _ (ht.2 _ (List.getElem_mem hl))).2 c hc

theorem tileBit_reverse {t : List Nat} (ht : WfTile t) (r c : Nat) (hr : r < 8) :
    tileBit t.reverse r c = tileBit t (7 - r) c := by
  have hl : r < t.length := by rw [ht.1]; exact hr
  simp only [tileBit, List.getD_eq_getElem?_getD]
  rw [List.getElem?_reverse hl, ht.1]

/-- Pixel map of `Udg.flip`: bit 0 of `flip` mirrors columns, bit 1 mirrors rows. -/
theorem tileBit_flipTile (f : Nat) {t : List Nat} (ht : WfTile t) (r c : Nat) (hr : r < 8) (hc : c < 8) :
    tileBit (flipTile f t) r c =
      tileBit t (if f &&& 2 ≠ 0 then 7 - r else r) (if f &&& 1 ≠ 0 then 7 - c else c) := by
  unfold flipTile
  by_cases h1 : f &&& 1 = 0 <;> by_cases h2 : f &&& 2 = 0 <;>
    simp only [h1, h2, ne_eq, not_true_eq_false, not_false_eq_true, if_true, if_false]
  · rw [tileBit_reverse ht r c hr]
  · rw [tileBit_map_flipByte ht r c hr hc]
  · rw [tileBit_reverse (wf_map_flipByte ht) r c hr, tileBit_map_flipByte ht _ c (by omega) hc]

/-! ### Rotations -/

theorem and_pow_ne_zero (x k : Nat) : (x &&& 2 ^ k ≠ 0) ↔ x.testBit k = true := by
  constructor
  · intro h
    by_cases hk : x.testBit k = true
    · exact hk
    · exfalso; apply h
      apply Nat.eq_of_testBit_eq; intro i
      simp only [Nat.testBit_and, Nat.testBit_two_pow, Nat.zero_testBit]
      by_cases hi : k = i
      · subst hi; simp [hk]
      · simp [hi]
  · intro h h0
    have : (x &&& 2 ^ k).testBit k = true := by
      simp [Nat.testBit_and, Nat.testBit_two_pow, h]
    rw [h0] at this; simp at this

theorem decide_and_pow (x k : Nat) : decide (x &&& 2 ^ k ≠ 0) = x.testBit k := by
  have h := and_pow_ne_zero x k
  cases hb : x.testBit k
  · have : ¬ (x &&& 2 ^ k ≠ 0) := by rw [h, hb]; simp
    exact decide_eq_false this
  · exact decide_eq_true (h.2 hb)

/-- `c0 + 2 c1 + ... + 128 c7`. -/
def bsum (c0 c1 c2 c3 c4 c5 c6 c7 : Nat) : Nat :=
  c0 + 2 * c1 + 4 * c2 + 8 * c3 + 16 * c4 + 32 * c5 + 64 * c6 + 128 * c7

theorem bsum_lt (c0 c1 c2 c3 c4 c5 c6 c7 : Nat) (h0 : c0 ≤ 1) (h1 : c1 ≤ 1) (h2 : c2 ≤ 1) (h3 : c3 ≤ 1)
    (h4 : c4 ≤ 1) (h5 : c5 ≤ 1) (h6 : c6 ≤ 1) (h7 : c7 ≤ 1) : bsum c0 c1 c2 c3 c4 c5 c6 c7 < 256 := by
  unfold bsum; omega

theorem bsum_testBit (c0 c1 c2 c3 c4 c5 c6 c7 : Nat) (h0 : c0 ≤ 1) (h1 : c1 ≤ 1) (h2 : c2 ≤ 1) (h3 : c3 ≤ 1)
    (h4 : c4 ≤ 1) (h5 : c5 ≤ 1) (h6 : c6 ≤ 1) (h7 : c7 ≤ 1) (k : Nat) (hk : k < 8) :
    (bsum c0 c1 c2 c3 c4 c5 c6 c7).testBit k = decide ([c0, c1, c2, c3, c4, c5, c6, c7].getD k 0 = 1) := by
  rw [Nat.testBit_eq_decide_div_mod_eq]
  unfold bsum
  match k, hk with
  | 0, _ => simp; omega
  | 1, _ => simp; omega
  | 2, _ => simp; omega
  | 3, _ => simp; omega
  | 4, _ => simp; omega
  | 5, _ => simp; omega
  | 6, _ => simp; omega
  | 7, _ => simp; omega

theorem ite128 (p : Prop) [Decidable p] : (if p then 128 else 0) = 128 * (decide p).toNat := by
  by_cases h : p <;> simp [h]

theorem ite1 (p : Prop) [Decidable p] : (if p then 1 else 0) = (decide p).toNat := by
  by_cases h : p <;> simp [h]

theorem rotByteFwd_eq (b a0 a1 a2 a3 a4 a5 a6 a7 : Nat) :
    rotByteFwd b [a0, a1, a2, a3, a4, a5, a6, a7] =
      bsum (decide (a0 &&& b ≠ 0)).toNat (decide (a1 &&& b ≠ 0)).toNat (decide (a2 &&& b ≠ 0)).toNat
        (decide (a3 &&& b ≠ 0)).toNat (decide (a4 &&& b ≠ 0)).toNat (decide (a5 &&& b ≠ 0)).toNat
        (decide (a6 &&& b ≠ 0)).toNat (decide (a7 &&& b ≠ 0)).toNat := by
  simp only [rotByteFwd, List.foldl_cons, List.foldl_nil, ite128, bsum]
  have := Bool.toNat_le (decide (a0 &&& b ≠ 0))
  have := Bool.toNat_le (decide (a1 &&& b ≠ 0))
  have := Bool.toNat_le (decide (a2 &&& b ≠ 0))
  have := Bool.toNat_le (decide (a3 &&& b ≠ 0))
  have := Bool.toNat_le (decide (a4 &&& b ≠ 0))
  have := Bool.toNat_le (decide (a5 &&& b ≠ 0))
  have := Bool.toNat_le (decide (a6 &&& b ≠ 0))
  have := Bool.toNat_le (decide (a7 &&& b ≠ 0))
  omega

theorem rotByteBwd_eq (b a0 a1 a2 a3 a4 a5 a6 a7 : Nat) :
    rotByteBwd b [a0, a1, a2, a3, a4, a5, a6, a7] =
      bsum (decide (a7 &&& b ≠ 0)).toNat (decide (a6 &&& b ≠ 0)).toNat (decide (a5 &&& b ≠ 0)).toNat
        (decide (a4 &&& b ≠ 0)).toNat (decide (a3 &&& b ≠ 0)).toNat (decide (a2 &&& b ≠ 0)).toNat
        (decide (a1 &&& b ≠ 0)).toNat (decide (a0 &&& b ≠ 0)).toNat := by
  simp only [rotByteBwd, List.foldl_cons, List.foldl_nil, ite1, bsum]
  omega

theorem toNat_eq_one (p : Bool) : decide (p.toNat = 1) = p := by cases p <;> rfl

theorem rotByteFwd_testBit (b : Nat) (t : List Nat) (ht : t.length = 8) (k : Nat) (hk : k < 8) :
    (rotByteFwd b t).testBit k = decide (t.getD k 0 &&& b ≠ 0) := by
  obtain ⟨a0, a1, a2, a3, a4, a5, a6, a7, rfl⟩ := list8 t ht
  rw [rotByteFwd_eq, bsum_testBit _ _ _ _ _ _ _ _ (Bool.toNat_le _) (Bool.toNat_le _) (Bool.toNat_le _)
    (Bool.toNat_le _) (Bool.toNat_le _) (Bool.toNat_le _) (Bool.toNat_le _) (Bool.toNat_le _) k hk]
  match k, hk with
  | 0, _ => simp only [List.getD_cons_zero, toNat_eq_one]
  | 1, _ => simp only [List.getD_cons_succ, List.getD_cons_zero, toNat_eq_one]
  | 2, _ => simp only [List.getD_cons_succ, List.getD_cons_zero, toNat_eq_one]
  | 3, _ => simp only [List.getD_cons_succ, List.getD_cons_zero, toNat_eq_one]
  | 4, _ => simp only [List.getD_cons_succ, List.getD_cons_zero, toNat_eq_one]
  | 5, _ => simp only [List.getD_cons_succ, List.getD_cons_zero, toNat_eq_one]
  | 6, _ => simp only [List.getD_cons_succ, List.getD_cons_zero, toNat_eq_one]
  | 7, _ => simp only [List.getD_cons_succ, List.getD_cons_zero, toNat_eq_one]

theorem rotByteBwd_testBit (b : Nat) (t : List Nat) (ht : t.length = 8) (k : Nat) (hk : k < 8) :
    (rotByteBwd b t).testBit k = decide (t.getD (7 - k) 0 &&& b ≠ 0) := by
  obtain ⟨a0, a1, a2, a3, a4, a5, a6, a7, rfl⟩ := list8 t ht
  rw [rotByteBwd_eq, bsum_testBit _ _ _ _ _ _ _ _ (Bool.toNat_le _) (Bool.toNat_le _) (Bool.toNat_le _)
    (Bool.toNat_le _) (Bool.toNat_le _) (Bool.toNat_le _) (Bool.toNat_le _) (Bool.toNat_le _) k hk]
  match k, hk with
  | 0, _ => simp only [List.getD_cons_succ, List.getD_cons_zero, toNat_eq_one]
  | 1, _ => simp only [List.getD_cons_succ, List.getD_cons_zero, toNat_eq_one]
  | 2, _ => simp only [List.getD_cons_succ, List.getD_cons_zero, toNat_eq_one]
  | 3, _ => simp only [List.getD_cons_succ, List.getD_cons_zero, toNat_eq_one]
  | 4, _ => simp only [List.getD_cons_succ, List.getD_cons_zero, toNat_eq_one]
  | 5, _ => simp only [List.getD_cons_succ, List.getD_cons_zero, toNat_eq_one]
  | 6, _ => simp only [List.getD_cons_succ, List.getD_cons_zero, toNat_eq_one]
  | 7, _ => simp only [List.getD_cons_succ, List.getD_cons_zero, toNat_eq_one, Nat.sub_self]

theorem rotByteFwd_lt (b : Nat) (t : List Nat) (ht : t.length = 8) : rotByteFwd b t < 256 := by
  obtain ⟨a0, a1, a2, a3, a4, a5, a6, a7, rfl⟩ := list8 t ht
  rw [rotByteFwd_eq]
  exact bsum_lt _ _ _ _ _ _ _ _ (Bool.toNat_le _) (Bool.toNat_le _) (Bool.toNat_le _)
    (Bool.toNat_le _) (Bool.toNat_le _) (Bool.toNat_le _) (Bool.toNat_le _) (Bool.toNat_le _)

theorem rotByteBwd_lt (b : Nat) (t : List Nat) (ht : t.length = 8) : rotByteBwd b t < 256 := by
  obtain ⟨a0, a1, a2, a3, a4, a5, a6, a7, rfl⟩ := list8 t ht
  rw [rotByteBwd_eq]
  exact bsum_lt _ _ _ _ _ _ _ _ (Bool.toNat_le _) (Bool.toNat_le _) (Bool.toNat_le _)
    (Bool.toNat_le _) (Bool.toNat_le _) (Bool.toNat_le _) (Bool.toNat_le _) (Bool.toNat_le _)

theorem rotateTileRaw_fwd (t : List Nat) : rotateTileRaw t false =
    [rotByteFwd 128 t, rotByteFwd 64 t, rotByteFwd 32 t, rotByteFwd 16 t, rotByteFwd 8 t, rotByteFwd 4 t,
      rotByteFwd 2 t, rotByteFwd 1 t] := rfl

theorem rotateTileRaw_bwd (t : List Nat) : rotateTileRaw t true =
    [rotByteBwd 1 t, rotByteBwd 2 t, rotByteBwd 4 t, rotByteBwd 8 t, rotByteBwd 16 t, rotByteBwd 32 t,
      rotByteBwd 64 t, rotByteBwd 128 t] := rfl

theorem wf_rotateTileRaw {t : List Nat} (ht : WfTile t) (bw : Bool) : WfTile (rotateTileRaw t bw) := by
  cases bw
  · rw [rotateTileRaw_fwd]
    refine ⟨rfl, ?_⟩
    intro b hb
    simp only [List.mem_cons, List.not_mem_nil, or_false] at hb
    rcases hb with rfl | rfl | rfl | rfl | rfl | rfl | rfl | rfl <;> exact rotByteFwd_lt _ t ht.1
  · rw [rotateTileRaw_bwd]
    refine ⟨rfl, ?_⟩
    intro b hb
    simp only [List.mem_cons, List.not_mem_nil, or_false] at hb
    rcases hb with rfl | rfl | rfl | rfl | rfl | rfl | rfl | rfl <;> exact rotByteBwd_lt _ t ht.1

/-- Pixel map of `_rotate_tile(tile, 0)`: 90 degrees clockwise. -/
theorem tileBit_rotate_fwd {t : List Nat} (ht : WfTile t) (r c : Nat) (hr : r < 8) (hc : c < 8) :
    tileBit (rotateTileRaw t false) r c = tileBit t (7 - c) r := by
  have hrow : (rotateTileRaw t false).getD r 0 = rotByteFwd (2 ^ (7 - r)) t := by
    rw [rotateTileRaw_fwd]
    match r, hr with
    | 0, _ => rfl | 1, _ => rfl | 2, _ => rfl | 3, _ => rfl | 4, _ => rfl | 5, _ => rfl | 6, _ => rfl | 7, _ => rfl
  simp only [tileBit, colBit, hrow]
  rw [rotByteFwd_testBit _ t ht.1 _ (by omega)]
  exact decide_and_pow _ _

/-- Pixel map of `_rotate_tile(tile, 2)`: 90 degrees anticlockwise. -/
theorem tileBit_rotate_bwd {t : List Nat} (ht : WfTile t) (r c : Nat) (hr : r < 8) (hc : c < 8) :
    tileBit (rotateTileRaw t true) r c = tileBit t c (7 - r) := by
  have hrow : (rotateTileRaw t true).getD r 0 = rotByteBwd (2 ^ r) t := by
    rw [rotateTileRaw_bwd]
    match r, hr with
    | 0, _ => rfl | 1, _ => rfl | 2, _ => rfl | 3, _ => rfl | 4, _ => rfl | 5, _ => rfl | 6, _ => rfl | 7, _ => rfl
  simp only [tileBit, colBit, hrow]
  rw [rotByteBwd_testBit _ t ht.1 _ (by omega)]
  have e : 7 - (7 - c) = c := by omega
  have e2 : 7 - (7 - r) = r := by omega
  rw [e, e2]
  exact decide_and_pow _ _

/-- Source position of pixel `(r, c)` after `n` quarter turns clockwise. -/
def rotIdx (n r c : Nat) : Nat × Nat :=
  if n % 4 = 0 then (r, c) else if n % 4 = 1 then (7 - c, r) else if n % 4 = 2 then (7 - r, 7 - c) else (c, 7 - r)

theorem and_two_ne_zero (n : Nat) : (n &&& 2 ≠ 0) ↔ n / 2 % 2 = 1 := by
  have := and_pow_ne_zero n 1
  simp only [Nat.pow_one] at this
  rw [this, Nat.testBit_eq_decide_div_mod_eq]
  simp

theorem and_one_ne_zero' (n : Nat) : (n &&& 1 ≠ 0) ↔ n % 2 = 1 := by
  rw [Nat.and_one_is_mod]; omega

theorem wf_rotateTile (n : Nat) {t : List Nat} (ht : WfTile t) : WfTile (rotateTile n t) := by
  unfold rotateTile
  split
  · exact wf_rotateTileRaw ht _
  · split
    · exact wf_flipTile 3 ht
    · exact ht

/-- Pixel map of `Udg.rotate(n)` on one tile: `n` quarter turns clockwise. -/
theorem tileBit_rotateTile (n : Nat) {t : List Nat} (ht : WfTile t) (r c : Nat) (hr : r < 8) (hc : c < 8) :
    tileBit (rotateTile n t) r c = tileBit t (rotIdx n r c).1 (rotIdx n r c).2 := by
  unfold rotateTile rotIdx
  have h1 := and_one_ne_zero' n
  have h2 := and_two_ne_zero n
  by_cases a : n % 2 = 1 <;> by_cases b : n / 2 % 2 = 1
  · have m : n % 4 = 3 := by omega
    have d : decide (n &&& 2 ≠ 0) = true := decide_eq_true (h2.2 b)
    rw [if_pos (h1.2 a), d, tileBit_rotate_bwd ht r c hr hc]
    simp [m]
  · have m : n % 4 = 1 := by omega
    have d : decide (n &&& 2 ≠ 0) = false := decide_eq_false (fun h => b (h2.1 h))
    rw [if_pos (h1.2 a), d, tileBit_rotate_fwd ht r c hr hc]
    simp [m]
  · have m : n % 4 = 2 := by omega
    rw [if_neg (fun h => a (h1.1 h)), if_pos (h2.2 b), tileBit_flipTile 3 ht r c hr hc]
    simp [m]
  · have m : n % 4 = 0 := by omega
    rw [if_neg (fun h => a (h1.1 h)), if_neg (fun h => b (h2.1 h))]
    simp [m]

theorem rotIdx_lt (n r c : Nat) (hr : r < 8) (hc : c < 8) : (rotIdx n r c).1 < 8 ∧ (rotIdx n r c).2 < 8 := by
  unfold rotIdx
  split
  · exact ⟨hr, hc⟩
  · split
    · exact ⟨by omega, hr⟩
    · split
      · exact ⟨by omega, by omega⟩
      · exact ⟨hc, by omega⟩

theorem rotIdx_comp (a b r c : Nat) (hr : r < 8) (hc : c < 8) :
    rotIdx b (rotIdx a r c).1 (rotIdx a r c).2 = rotIdx (a + b) r c := by
  have ha : a % 4 = 0 ∨ a % 4 = 1 ∨ a % 4 = 2 ∨ a % 4 = 3 := by omega
  have hb : b % 4 = 0 ∨ b % 4 = 1 ∨ b % 4 = 2 ∨ b % 4 = 3 := by omega
  rcases ha with ha | ha | ha | ha <;> rcases hb with hb | hb | hb | hb <;>
    (have hab : (a + b) % 4 = (a % 4 + b % 4) % 4 := by omega
     simp only [rotIdx, ha, hb, hab]
     simp
     try omega)

/-- Rotations compose: `rotate(a)` after `rotate(b)` is `rotate(a + b)`. -/
theorem rotateTile_rotateTile (a b : Nat) {t : List Nat} (ht : WfTile t) :
    rotateTile a (rotateTile b t) = rotateTile (a + b) t := by
  apply tile_ext (wf_rotateTile a (wf_rotateTile b ht)) (wf_rotateTile (a + b) ht)
  intro r c hr hc
  have hi := rotIdx_lt a r c hr hc
  rw [tileBit_rotateTile a (wf_rotateTile b ht) r c hr hc, tileBit_rotateTile b ht _ _ hi.1 hi.2,
    tileBit_rotateTile (a + b) ht r c hr hc, rotIdx_comp a b r c hr hc]

theorem rotateTile_four {t : List Nat} (n : Nat) (hn : n % 4 = 0) (ht : WfTile t) : rotateTile n t = t := by
  apply tile_ext (wf_rotateTile n ht) ht
  intro r c hr hc
  rw [tileBit_rotateTile n ht r c hr hc]
  simp [rotIdx, hn]

/-- Flipping twice with the same argument is the identity. -/
theorem flipTile_flipTile (f : Nat) {t : List Nat} (ht : WfTile t) : flipTile f (flipTile f t) = t := by
  apply tile_ext (wf_flipTile f (wf_flipTile f ht)) ht
  intro r c hr hc
  rw [tileBit_flipTile f (wf_flipTile f ht) r c hr hc]
  rw [tileBit_flipTile f ht _ _ (by split <;> omega) (by split <;> omega)]
  congr 1
  · split <;> omega
  · split <;> omega

end ZxTile
