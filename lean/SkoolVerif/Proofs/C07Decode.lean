import SkoolVerif.Proofs.C07Slots
/-!
`opcodes.decode` by slot: if the tables give every slot the size `L` (with the DEFB fallbacks for absent
keys), then for every memory and every address the decoded size is `min L (65536 - a)`.
-/
namespace InstrDec
set_option linter.unusedSimpArgs false

/-- the size the tables of `opcodes.py` give a slot: the entry, or the DEFB fallback of `_after_ed` (2),
`_after_dd` (1), `_after_ddcb` (4) for an absent key; `none` = KeyError (unguarded `OPCODES[...]`, `AFTER_CB[...]`) -/
def decRaw (T : CTables) (s : Slot) : Option Nat :=
  match s.tbl with
  | 0 => cGet T.main s.idx
  | 1 => cGet T.cb s.idx
  | 2 => some ((cGet T.ed s.idx).getD 2)
  | 3 => some ((cGet T.dd s.idx).getD 1)
  | 4 => some ((cGet T.fd s.idx).getD 1)
  | 5 => some ((cGet T.ddcb s.idx).getD 4)
  | 6 => some ((cGet T.fdcb s.idx).getD 4)
  | _ => none

/-- every slot has raw size `L`, and the sizes are such that the boundary code of `decode` is exact:
CB entries at most 2 bytes, DDCB/FDCB at least 3 -/
def decOk (T : CTables) (L : Slot → Nat) : Bool :=
  allSlots (fun s => decRaw T s == some (L s) && decide (1 ≤ L s) && (s.tbl != 1 || decide (L s ≤ 2)) &&
    (!(s.tbl == 5 || s.tbl == 6) || decide (3 ≤ L s)))

macro "fin_dec" : tactic => `(tactic| ((repeat' split) <;> (try simp only [Option.map, Option.some.injEq, reduceCtorEq] at *) <;> (try omega)))

theorem some_min {x y : Nat} (h : x = y) : some x = some y := by rw [h]

theorem decodeStep_size {T : CTables} {L : Slot → Nat} (h : decOk T L = true) (mem : Mem) (hm : ∀ x, mem x < 256)
    (a : Nat) (ha : a < 65536) :
    (decodeStep T mem a).map (·.size) =
      some (min (L (slotOf (mem a) (mem ((a + 1) % 65536)) (mem ((a + 3) % 65536)))) (65536 - a)) := by
  have hs := allSlots_slotOf h (hm a) (hm ((a + 1) % 65536)) (hm ((a + 3) % 65536))
  have hS : ∀ t i, slotOf (mem a) (mem ((a + 1) % 65536)) (mem ((a + 3) % 65536)) = ⟨t, i⟩ →
      decRaw T ⟨t, i⟩ = some (L ⟨t, i⟩) ∧ 1 ≤ L ⟨t, i⟩ ∧ (t = 1 → L ⟨t, i⟩ ≤ 2) ∧ (t = 5 ∨ t = 6 → 3 ≤ L ⟨t, i⟩) := by
    intro t i e
    rw [e] at hs
    simp only [Bool.and_eq_true, Bool.or_eq_true, beq_iff_eq, decide_eq_true_eq, bne_iff_ne, ne_eq, Bool.not_eq_true',
      Bool.or_eq_false_iff, beq_eq_false_iff_ne] at hs
    obtain ⟨⟨⟨hraw, hL1⟩, hcb⟩, hddcb⟩ := hs
    refine ⟨hraw, hL1, fun h1 => hcb.resolve_left (by simp [h1]), fun h56 => hddcb.resolve_left ?_⟩
    rcases h56 with h5 | h6
    · simp [h5]
    · simp [h6]
  generalize hsl : slotOf (mem a) (mem ((a + 1) % 65536)) (mem ((a + 3) % 65536)) = sl at hS ⊢
  clear hs
  unfold decodeStep
  by_cases c1 : mem a = 0xCB
  · have e : sl = ⟨1, mem ((a + 1) % 65536)⟩ := by rw [← hsl]; simp [slotOf, c1]
    obtain ⟨hraw, hL1, hcb, -⟩ := hS _ _ e
    have hcb := hcb rfl
    simp only [c1, if_true, e]
    by_cases hb : a + 1 < 65536
    · rw [Nat.mod_eq_of_lt hb] at hraw hL1 hcb ⊢
      simp only [decRaw] at hraw
      simp only [hb, if_true, hraw]
      fin_dec
    · simp only [hb, if_false]
      fin_dec
  by_cases c2 : mem a = 0xED
  · have e : sl = ⟨2, mem ((a + 1) % 65536)⟩ := by rw [← hsl]; simp [slotOf, c2]
    obtain ⟨hraw, hL1, -, -⟩ := hS _ _ e
    simp only [c1, c2, if_true, if_false, e]
    by_cases hb : a + 1 < 65536
    · rw [Nat.mod_eq_of_lt hb] at hraw hL1 ⊢
      simp only [decRaw, Option.some.injEq] at hraw
      simp only [hb, if_true]
      cases hq : cGet T.ed (mem (a + 1)) with
      | none =>
        simp only [hq, Option.getD_none] at hraw
        fin_dec
      | some n =>
        simp only [hq, Option.getD_some] at hraw
        simp only
        fin_dec
    · simp only [hb, if_false]
      fin_dec
  by_cases c3 : mem a = 0xDD ∨ mem a = 0xFD
  · simp only [c1, c2, c3, if_true, if_false]
    by_cases hb : a + 1 < 65536
    · simp only [hb, if_true]
      rw [Nat.mod_eq_of_lt hb] at hsl
      by_cases c4 : mem (a + 1) = 0xCB
      · simp only [c4, if_true]
        have e : sl = ⟨if mem a = 0xDD then 5 else 6, mem ((a + 3) % 65536)⟩ := by
          rw [← hsl]; rcases c3 with c | c <;> simp [slotOf, c, c4]
        obtain ⟨hraw, hL1, -, h3⟩ := hS _ _ e
        have h3 := h3 (by split <;> simp)
        rw [e]
        unfold afterDdcb
        by_cases hc : a + 2 < 65535
        · rw [Nat.mod_eq_of_lt (by omega)] at hraw hL1 h3 ⊢
          simp only [hc, if_true]
          have hr : ((cGet (if mem a = 0xDD then T.ddcb else T.fdcb) (mem (a + 3))).getD 4) =
              L ⟨if mem a = 0xDD then 5 else 6, mem (a + 3)⟩ := by
            rcases c3 with c | c
            · simpa [c, decRaw] using hraw
            · have : mem a ≠ 0xDD := by omega
              simpa [this, decRaw] using hraw
          clear hraw
          generalize (if mem a = 0xDD then 5 else 6) = k at *
          generalize (if mem a = 0xDD then T.ddcb else T.fdcb) = tb at *
          cases hq : cGet tb (mem (a + 3)) with
          | none =>
            simp only [hq, Option.getD_none] at hr
            simp only
            fin_dec
          | some n =>
            simp only [hq, Option.getD_some] at hr
            simp only
            fin_dec
        · simp only [hc, if_false]
          clear hraw
          generalize (if mem a = 0xDD then 5 else 6) = k at *
          fin_dec
      · simp only [c4, if_false]
        have e : sl = ⟨if mem a = 0xDD then 3 else 4, mem (a + 1)⟩ := by
          rw [← hsl]; rcases c3 with c | c <;> simp [slotOf, c, c4]
        obtain ⟨hraw, hL1, -, -⟩ := hS _ _ e
        rw [e]
        have hr : ((cGet (if mem a = 0xDD then T.dd else T.fd) (mem (a + 1))).getD 1) =
            L ⟨if mem a = 0xDD then 3 else 4, mem (a + 1)⟩ := by
          rcases c3 with c | c
          · simpa [c, decRaw] using hraw
          · have : mem a ≠ 0xDD := by omega
            simpa [this, decRaw] using hraw
        clear hraw
        generalize (if mem a = 0xDD then 3 else 4) = k at *
        generalize (if mem a = 0xDD then T.dd else T.fd) = tb at *
        cases hq : cGet tb (mem (a + 1)) with
        | none =>
          simp only [hq, Option.getD_none] at hr
          fin_dec
        | some n =>
          simp only [hq, Option.getD_some] at hr
          simp only [Option.map_some]
          fin_dec
    · simp only [hb, if_false]
      have hL1 : 1 ≤ L sl := by
        obtain ⟨t, i⟩ := sl
        exact (hS t i rfl).2.1
      simp only [Option.map, Option.some.injEq]
      omega
  · simp only [c1, c2, c3, if_false]
    have c3' : mem a ≠ 0xDD ∧ mem a ≠ 0xFD := by omega
    have e : sl = ⟨0, mem a⟩ := by rw [← hsl]; simp [slotOf, c1, c2, c3'.1, c3'.2]
    obtain ⟨hraw, hL1, -, -⟩ := hS _ _ e
    simp only [decRaw] at hraw
    simp only [hraw, e]
    fin_dec

end InstrDec
