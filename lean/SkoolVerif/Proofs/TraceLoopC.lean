import SkoolVerif.Gen.CLoops.trace
import SkoolVerif.Gen.CCmioLoops.trace
import SkoolVerif.Proofs.RunLoopC
/-!
`CSimulator_trace` (c/csimulator.c, translated by `translate/cloop2lean.py`: `Gen/CLoops/trace.lean`, `Gen/CCmioLoops/trace.lean`), with
no `draw` callback: one pass is the pass of the run loop (`RunLoop.iter`: fetch through the expanded `GET_OPCODE_FUNC`, handler,
`accept_interrupt` iff `interrupts && REG(IFF) && TIME % frame_duration < int_active`), then `operations += 1` and the three stop
conditions in source order; the `disassemble` / `trace` / `exec_map` callbacks only append to the log.
-/
open Z80

namespace RunLoop
variable {μ : Type} [MemLike μ] [CellMem μ]

/-! ### plain build -/

/-- the C representation of "no stop address": 0x10000 -/
def stopVal (o : Option Int) : Int := o.getD 65536

omit [MemLike μ] [CellMem μ] in
/-- `REG(PC) == stop` for a PC in range: Python's `pc == stop` -/
theorem stop_test_iff (stopO : Option Int) (hsv : ∀ v, stopO = some v → 0 ≤ v ∧ v < 65536) {pc : Int} (hpc : Word pc) :
    pc = stopVal stopO ↔ some pc = stopO := by
  unfold Word at hpc
  cases stopO with
  | none => simp only [stopVal, Option.getD_none, reduceCtorEq, iff_false]; omega
  | some v => simp only [stopVal, Option.getD_some, Option.some.injEq]

/-- the callbacks one pass of `CSimulator_trace` makes (most recent first): `disassemble(pc)` before the instruction,
`exec_map.add(pc)` and `trace(pc, i, t0)` after it -/
def traceLog (dis : Int) (exec_map : PyObj) (pc t0 : Int) (log : List (List Int)) : List (List Int) :=
  let log1 := if dis ≠ 0 then [0, pc] :: log else log
  let log2 := if exec_map ≠ PyObj.none then [2, pc] :: log1 else log1
  if dis ≠ 0 then [1, pc, t0] :: log2 else log2

/-- how a pass of the trace loop ends: `max_operations`, then `max_time`, then `stop` -/
def traceExit (l : CSimH.Loop.TraceLocals) (ops : Int) (s' : St μ) : LoopExit (Int × Int) :=
  if l.max_operations > 0 ∧ ops ≥ l.max_operations then .return_ (1, CInt.i64 ops)
  else if l.max_time > 0 ∧ s'.t ≥ l.max_time then .return_ (2, CInt.i64 ops)
  else if CInt.u32 s'.pc = l.stop then .return_ (3, CInt.i64 ops)
  else .continue_

syntax "fetch_case2" "[" term,* "]" : tactic
macro_rules
  | `(tactic| fetch_case2 [$hs,*]) => `(tactic|
    (simp (maxSteps := 4000000) only [cloop_def, Id.run, pure, CInt.land_65535, CInt.u32_mod_65536, $[$hs:term],*, if_true, if_false, ne_eq, not_true_eq_false]
     grind))

theorem c_trace_body (cfg : Cfg) (so po kb dis tr em : PyObj) (s : St μ) (l : CSimH.Loop.TraceLocals) (h : RInv s) :
    CSimH.Loop.trace_loop1_body cfg so po PyObj.none em kb dis tr s l =
      ((cIter cfg l.interrupts l.frame_duration l.int_active s,
        { l with operations := CInt.u64 (l.operations + 1), cblog := traceLog l.disassembling em s.pc s.t l.cblog }),
        traceExit l (CInt.u64 (l.operations + 1)) (cIter cfg l.interrupts l.frame_duration l.int_active s)) := by
  have hpc := h.pc
  unfold Word at hpc
  have e1 : CInt.u32 s.pc = s.pc := CInt.u32_of_range _ hpc.1 (by omega)
  unfold cIter CSimH.step CSimH.leafOf traceExit traceLog
  by_cases h1 : CSimH.isNull (CSimH.tget CSim.tbl_MAIN (mget s.mem s.pc)) = true
  · by_cases h2 : mget s.mem s.pc = 203
    · fetch_case2 [e1, eq_true h1, eq_true h2]
    · by_cases h3 : mget s.mem s.pc = 237
      · fetch_case2 [e1, eq_true h1, eq_false h2, eq_true h3]
      · by_cases h4 : mget s.mem s.pc = 221
        · fetch_case2 [e1, eq_true h1, eq_false h2, eq_false h3, eq_true h4]
        · by_cases h5 : mget s.mem s.pc = 253
          · fetch_case2 [e1, eq_true h1, eq_false h2, eq_false h3, eq_false h4, eq_true h5]
          · fetch_case2 [e1, eq_true h1, eq_false h2, eq_false h3, eq_false h4, eq_false h5]
  · fetch_case2 [e1, eq_false h1]

theorem traceLocals_eta (l : CSimH.Loop.TraceLocals) (ops : Int) (log : List (List Int)) :
    ({ l with operations := ops, cblog := log } : CSimH.Loop.TraceLocals).max_operations = l.max_operations := rfl

/-- the translated C trace loop (no `draw` callback): `RunLoop.traceLoop` of the Python machine; the callbacks only fill the log -/
theorem c_trace_loop (cfg : Cfg) (hcfg : CSimH.CfgRep cfg) (hout : CSimH.OutOkAll μ cfg) (so po kb dis tr em : PyObj)
    (l : CSimH.Loop.TraceLocals) (hfd : l.frame_duration = cfg.frame_duration) (hia : l.int_active = cfg.int_active)
    (stopO : Option Int) (hst : l.stop = stopVal stopO) (hsv : ∀ v, stopO = some v → 0 ≤ v ∧ v < 65536)
    (fuel : Nat) (s : St μ) (h : RInv s) (ht : s.t + fuel * (Tshift.maxDur + 19) < 9223372036854775808)
    (ho : 0 ≤ l.operations ∧ l.operations + fuel < 9223372036854775808) :
    ∃ log, CSimH.Loop.trace_loop1 cfg so po PyObj.none em kb dis tr fuel s l =
      (((traceLoop simM (decide (l.interrupts ≠ 0)) cfg l.max_operations l.max_time stopO fuel l.operations s).1.1,
        { l with operations := (traceLoop simM (decide (l.interrupts ≠ 0)) cfg l.max_operations l.max_time stopO fuel l.operations s).1.2,
                 cblog := log }),
        match (traceLoop simM (decide (l.interrupts ≠ 0)) cfg l.max_operations l.max_time stopO fuel l.operations s).2 with
        | none => .continue_
        | some c => .return_ (c, (traceLoop simM (decide (l.interrupts ≠ 0)) cfg l.max_operations l.max_time stopO fuel l.operations s).1.2)) := by
  unfold CSimH.Loop.trace_loop1
  induction fuel generalizing s l with
  | zero => exact ⟨l.cblog, by simp only [iterate_zero, traceLoop]⟩
  | succ n ih =>
    have hm : (0 : Int) ≤ (n : Int) * (Tshift.maxDur + 19) := Int.mul_nonneg (Int.natCast_nonneg n) (by decide)
    rw [nat_succ_mul] at ht
    have hmd : Tshift.maxDur = 23 := rfl
    have hn : ((n + 1 : Nat) : Int) = (n : Int) + 1 := by omega
    rw [hn] at ho
    have hb := c_trace_body cfg so po kb dis tr em s l h
    have hp := c_pass cfg hcfg hout s h (by omega) l.interrupts
    rw [← hfd, ← hia] at hp
    rw [hp] at hb
    have hr := iter_rinv_sim cfg (decide (l.interrupts ≠ 0)) s h
    have hts := iter_t_sim cfg (decide (l.interrupts ≠ 0)) s
    have hu := pc_u32 hr
    have e64 : CInt.u64 (l.operations + 1) = l.operations + 1 := CInt.u64_of_range _ (by omega) (by omega)
    have ei64 : CInt.i64 (l.operations + 1) = l.operations + 1 := CInt.i64_of_range _ (by omega) (by omega)
    rw [e64] at hb
    unfold traceExit at hb
    rw [hu, ei64] at hb
    simp only [traceLoop]
    by_cases c1 : l.max_operations > 0 ∧ l.operations + 1 ≥ l.max_operations
    · rw [if_pos c1] at hb
      refine ⟨traceLog l.disassembling em s.pc s.t l.cblog, ?_⟩
      rw [iterate_exit _ n (s, l) (by simp only [hb]; exact fun e => nomatch e), hb, if_pos c1]
    · rw [if_neg c1] at hb
      by_cases c2 : l.max_time > 0 ∧ (iter simM (decide (l.interrupts ≠ 0)) cfg s).t ≥ l.max_time
      · rw [if_pos c2] at hb
        refine ⟨traceLog l.disassembling em s.pc s.t l.cblog, ?_⟩
        rw [iterate_exit _ n (s, l) (by simp only [hb]; exact fun e => nomatch e), hb, if_neg c1, if_pos c2]
      · rw [if_neg c2] at hb
        have hiff := stop_test_iff stopO hsv hr.pc
        rw [← hst] at hiff
        by_cases c3' : some (iter simM (decide (l.interrupts ≠ 0)) cfg s).pc = stopO
        · have c3 := hiff.mpr c3'
          rw [if_pos c3] at hb
          refine ⟨traceLog l.disassembling em s.pc s.t l.cblog, ?_⟩
          rw [iterate_exit _ n (s, l) (by simp only [hb]; exact fun e => nomatch e), hb, if_neg c1, if_neg c2, if_pos c3']
        · have c3 : ¬ (iter simM (decide (l.interrupts ≠ 0)) cfg s).pc = l.stop := fun e => c3' (hiff.mp e)
          rw [if_neg c3] at hb
          obtain ⟨log, ih'⟩ := ih { l with operations := l.operations + 1, cblog := traceLog l.disassembling em s.pc s.t l.cblog } hfd hia hst
            (iter simM (decide (l.interrupts ≠ 0)) cfg s) hr (by omega) ⟨by show 0 ≤ l.operations + 1; omega, by show l.operations + 1 + n < _; omega⟩
          refine ⟨log, ?_⟩
          rw [iterate_continue _ n (s, l) (by simp only [hb]), if_neg c1, if_neg c2, if_neg c3']
          simp only [hb]
          exact ih'

/-- `PyLong_Check(x) ? PyLong_AsLong(x) : 0x10000` converted to `unsigned` -/
def argObj (x : PyObj) : Int := CInt.u32 (if PyObj.isInt x = true then CInt.i64 (PyObj.intVal x) else 65536)

omit [MemLike μ] [CellMem μ] in
theorem argObj_int (v : Int) (h : 0 ≤ v ∧ v < 65536) : argObj (.int v) = v := by
  unfold argObj
  simp only [PyObj.isInt, PyObj.intVal, if_true]
  rw [CInt.i64_of_range _ (by omega) (by omega), CInt.u32_of_range _ h.1 (by omega)]

omit [MemLike μ] [CellMem μ] in
theorem argObj_other (x : PyObj) (h : PyObj.isInt x = false) : argObj x = 65536 := by
  unfold argObj; simp only [h, Bool.false_eq_true, if_false]; rfl

omit [CellMem μ] in
theorem c_trace_unfold (cfg : Cfg) (fuel : Nat) (so po : PyObj) (mo mt : Int) (ints : Bool) (dr em kb dis tr : PyObj)
    (log0 : List (List Int)) (draws0 : List Int) (s : St μ) :
    CSimH.Loop.trace cfg fuel so po mo mt ints dr em kb dis tr log0 draws0 s =
      (((CSimH.Loop.trace_loop1 cfg so po dr em kb dis tr fuel (if argObj so < 65536 then { s with pc := argObj so } else s)
          ⟨CInt.u64 mo, CInt.u64 mt, if ints = true then 1 else 0, argObj so, argObj po, PyInt.p2i (dis ≠ PyObj.none ∧ tr ≠ PyObj.none),
            cfg.frame_duration, cfg.int_active, 0, log0, draws0⟩).1.1,
        match (CSimH.Loop.trace_loop1 cfg so po dr em kb dis tr fuel (if argObj so < 65536 then { s with pc := argObj so } else s)
          ⟨CInt.u64 mo, CInt.u64 mt, if ints = true then 1 else 0, argObj so, argObj po, PyInt.p2i (dis ≠ PyObj.none ∧ tr ≠ PyObj.none),
            cfg.frame_duration, cfg.int_active, 0, log0, draws0⟩).2 with
        | .return_ v => v
        | _ => (0, 0)),
       match (CSimH.Loop.trace_loop1 cfg so po dr em kb dis tr fuel (if argObj so < 65536 then { s with pc := argObj so } else s)
          ⟨CInt.u64 mo, CInt.u64 mt, if ints = true then 1 else 0, argObj so, argObj po, PyInt.p2i (dis ≠ PyObj.none ∧ tr ≠ PyObj.none),
            cfg.frame_duration, cfg.int_active, 0, log0, draws0⟩).2 with
        | .continue_ => false
        | _ => true) := by
  by_cases hlt : argObj so < 65536
  · unfold argObj at hlt ⊢
    simp only [CSimH.Loop.trace, Id.run, pure, hlt, if_true, ne_eq]
    split <;> simp_all
  · unfold argObj at hlt ⊢
    simp only [CSimH.Loop.trace, Id.run, pure, hlt, if_false, ne_eq]
    split <;> simp_all

/-- the stop address a `stop` argument denotes -/
def objStop (x : PyObj) : Option Int := match x with
  | .int v => some v
  | _ => none
/-- the start state: `start`, when an integer, is loaded into PC -/
def objStart (x : PyObj) (s : St μ) : St μ := match x with
  | .int v => { s with pc := v }
  | _ => s

/-- what `trace.py` reads off the return value: (stop condition, operations) -/
def traceRet (r : (St μ × Int) × Option Int) : (St μ × (Int × Int)) × Bool :=
  ((r.1.1, match r.2 with | some c => (c, r.1.2) | none => (0, 0)), r.2.isSome)

/-- **`CSimulator_trace`, translated, without a `draw` callback, is `RunLoop.traceLoop` of the Python machine** from the start state;
the `disassemble` / `trace` / `exec_map` callbacks have no influence on the machine state or on the return value -/
theorem c_trace (cfg : Cfg) (hcfg : CSimH.CfgRep cfg) (hout : CSimH.OutOkAll μ cfg) (fuel : Nat) (so po : PyObj) (mo mt : Int) (ints : Bool)
    (em kb dis tr : PyObj) (log0 : List (List Int)) (draws0 : List Int) (s : St μ) (h : RInv s)
    (hso : ∀ v, so = .int v → 0 ≤ v ∧ v < 65536) (hpo : ∀ v, po = .int v → 0 ≤ v ∧ v < 65536)
    (hmo : 0 ≤ mo ∧ mo < 9223372036854775808) (hmt : 0 ≤ mt ∧ mt < 9223372036854775808)
    (ht : s.t + fuel * (Tshift.maxDur + 19) < 9223372036854775808) :
    CSimH.Loop.trace cfg fuel so po mo mt ints PyObj.none em kb dis tr log0 draws0 s =
      traceRet (traceLoop simM ints cfg mo mt (objStop po) fuel 0 (objStart so s)) := by
  rw [c_trace_unfold]
  have e1 : CInt.u64 mo = mo := CInt.u64_of_range _ hmo.1 (by omega)
  have e2 : CInt.u64 mt = mt := CInt.u64_of_range _ hmt.1 (by omega)
  have e3 : argObj po = stopVal (objStop po) := by
    cases po with
    | int v => exact argObj_int v (hpo v rfl)
    | none => exact argObj_other _ rfl
    | other => exact argObj_other _ rfl
  have hsv : ∀ v, objStop po = some v → 0 ≤ v ∧ v < 65536 := by
    intro v hv
    cases po with
    | int w => simp only [objStop, Option.some.injEq] at hv; subst hv; exact hpo w rfl
    | none => exact nomatch hv
    | other => exact nomatch hv
  have ei : decide ((if ints = true then (1 : Int) else 0) ≠ 0) = ints := by cases ints <;> rfl
  have hfu : (0 : Int) + fuel < 9223372036854775808 := by
    have h0 := h.t
    have hmd : Tshift.maxDur = 23 := rfl
    have : (0 : Int) ≤ (fuel : Int) * (Tshift.maxDur + 19) := Int.mul_nonneg (Int.natCast_nonneg _) (by decide)
    rw [hmd] at ht
    omega
  have key : ∀ (s0 : St μ) (st : Int), RInv s0 → s0.t = s.t →
      ((CSimH.Loop.trace_loop1 cfg so po PyObj.none em kb dis tr fuel s0
          ⟨mo, mt, if ints = true then 1 else 0, st, argObj po, PyInt.p2i (dis ≠ PyObj.none ∧ tr ≠ PyObj.none),
            cfg.frame_duration, cfg.int_active, 0, log0, draws0⟩).1.1,
        match (CSimH.Loop.trace_loop1 cfg so po PyObj.none em kb dis tr fuel s0
          ⟨mo, mt, if ints = true then 1 else 0, st, argObj po, PyInt.p2i (dis ≠ PyObj.none ∧ tr ≠ PyObj.none),
            cfg.frame_duration, cfg.int_active, 0, log0, draws0⟩).2 with
        | .return_ v => v
        | _ => (0, 0)) = (traceRet (traceLoop simM ints cfg mo mt (objStop po) fuel 0 s0)).1 ∧
      (match (CSimH.Loop.trace_loop1 cfg so po PyObj.none em kb dis tr fuel s0
          ⟨mo, mt, if ints = true then 1 else 0, st, argObj po, PyInt.p2i (dis ≠ PyObj.none ∧ tr ≠ PyObj.none),
            cfg.frame_duration, cfg.int_active, 0, log0, draws0⟩).2 with
        | .continue_ => false
        | _ => true) = (traceRet (traceLoop simM ints cfg mo mt (objStop po) fuel 0 s0)).2 := by
    intro s0 st h0 ht0
    obtain ⟨log, hl⟩ := c_trace_loop cfg hcfg hout so po kb dis tr em
      ⟨mo, mt, if ints = true then 1 else 0, st, argObj po, PyInt.p2i (dis ≠ PyObj.none ∧ tr ≠ PyObj.none),
        cfg.frame_duration, cfg.int_active, 0, log0, draws0⟩ rfl rfl (objStop po) e3 hsv fuel s0 h0 (by rw [ht0]; exact ht) ⟨Int.le_refl 0, hfu⟩
    rw [hl]
    simp only [ei, traceRet]
    rcases traceLoop simM ints cfg mo mt (objStop po) fuel 0 s0 with ⟨⟨r1, r2⟩, r3⟩
    cases r3 <;> simp
  rw [e1, e2]
  cases so with
  | int v =>
    have hv := hso v rfl
    rw [argObj_int v hv]
    simp only [hv.2, if_true]
    have k := key { s with pc := v } v ⟨h.regs, h.mem, (⟨hv.1, hv.2⟩ : Word v), h.t, h.iff, h.im, h.halt, h.memptr, h.ins⟩ rfl
    exact Prod.ext k.1 k.2
  | none =>
    have e : ¬ argObj PyObj.none < 65536 := by decide
    simp only [e, if_false]
    have k := key s (argObj PyObj.none) h rfl
    exact Prod.ext k.1 k.2
  | other =>
    have e : ¬ argObj PyObj.other < 65536 := by decide
    simp only [e, if_false]
    have k := key s (argObj PyObj.other) h rfl
    exact Prod.ext k.1 k.2

/-! ### `-DCONTENTION` build -/

section contended
variable [PageStable μ]

/-- how a pass of the trace loop ends: `max_operations`, then `max_time`, then `stop` -/
def traceExitCmio (l : CCmioH.Loop.TraceLocals) (ops : Int) (s' : St μ) : LoopExit (Int × Int) :=
  if l.max_operations > 0 ∧ ops ≥ l.max_operations then .return_ (1, CInt.i64 ops)
  else if l.max_time > 0 ∧ s'.t ≥ l.max_time then .return_ (2, CInt.i64 ops)
  else if CInt.u32 s'.pc = l.stop then .return_ (3, CInt.i64 ops)
  else .continue_

theorem c_cmio_trace_body (cfg : Cfg) (so po kb dis tr em : PyObj) (s : St μ) (l : CCmioH.Loop.TraceLocals) (h : RInv s) :
    CCmioH.Loop.trace_loop1_body cfg so po PyObj.none em kb dis tr s l =
      ((cIterCmio cfg l.interrupts l.frame_duration l.int_active s,
        { l with operations := CInt.u64 (l.operations + 1), cblog := traceLog l.disassembling em s.pc s.t l.cblog }),
        traceExitCmio l (CInt.u64 (l.operations + 1)) (cIterCmio cfg l.interrupts l.frame_duration l.int_active s)) := by
  have hpc := h.pc
  unfold Word at hpc
  have e1 : CInt.u32 s.pc = s.pc := CInt.u32_of_range _ hpc.1 (by omega)
  unfold cIterCmio CCmioH.step CSimH.leafOf traceExitCmio traceLog
  by_cases h1 : CSimH.isNull (CSimH.tget CSim.tbl_MAIN (mget s.mem s.pc)) = true
  · by_cases h2 : mget s.mem s.pc = 203
    · fetch_case2 [e1, eq_true h1, eq_true h2]
    · by_cases h3 : mget s.mem s.pc = 237
      · fetch_case2 [e1, eq_true h1, eq_false h2, eq_true h3]
      · by_cases h4 : mget s.mem s.pc = 221
        · fetch_case2 [e1, eq_true h1, eq_false h2, eq_false h3, eq_true h4]
        · by_cases h5 : mget s.mem s.pc = 253
          · fetch_case2 [e1, eq_true h1, eq_false h2, eq_false h3, eq_false h4, eq_true h5]
          · fetch_case2 [e1, eq_true h1, eq_false h2, eq_false h3, eq_false h4, eq_false h5]
  · fetch_case2 [e1, eq_false h1]

theorem traceLocalsCmio_eta (l : CCmioH.Loop.TraceLocals) (ops : Int) (log : List (List Int)) :
    ({ l with operations := ops, cblog := log } : CCmioH.Loop.TraceLocals).max_operations = l.max_operations := rfl

/-- the translated C trace loop (no `draw` callback): `RunLoop.traceLoop` of the Python machine; the callbacks only fill the log -/
theorem c_cmio_trace_loop (cfg : Cfg) (hcfg : CSimH.CfgRep cfg) (hout : CSimH.OutOkAll μ cfg) (so po kb dis tr em : PyObj)
    (l : CCmioH.Loop.TraceLocals) (hfd : l.frame_duration = cfg.frame_duration) (hia : l.int_active = cfg.int_active)
    (stopO : Option Int) (hst : l.stop = stopVal stopO) (hsv : ∀ v, stopO = some v → 0 ≤ v ∧ v < 65536)
    (fuel : Nat) (s : St μ) (h : RInv s) (ht : s.t + fuel * (Tshift.maxDurCmio + 19) < 9223372036854775808)
    (ho : 0 ≤ l.operations ∧ l.operations + fuel < 9223372036854775808) :
    ∃ log, CCmioH.Loop.trace_loop1 cfg so po PyObj.none em kb dis tr fuel s l =
      (((traceLoop cmioM (decide (l.interrupts ≠ 0)) cfg l.max_operations l.max_time stopO fuel l.operations s).1.1,
        { l with operations := (traceLoop cmioM (decide (l.interrupts ≠ 0)) cfg l.max_operations l.max_time stopO fuel l.operations s).1.2,
                 cblog := log }),
        match (traceLoop cmioM (decide (l.interrupts ≠ 0)) cfg l.max_operations l.max_time stopO fuel l.operations s).2 with
        | none => .continue_
        | some c => .return_ (c, (traceLoop cmioM (decide (l.interrupts ≠ 0)) cfg l.max_operations l.max_time stopO fuel l.operations s).1.2)) := by
  unfold CCmioH.Loop.trace_loop1
  induction fuel generalizing s l with
  | zero => exact ⟨l.cblog, by simp only [iterate_zero, traceLoop]⟩
  | succ n ih =>
    have hm : (0 : Int) ≤ (n : Int) * (Tshift.maxDurCmio + 19) := Int.mul_nonneg (Int.natCast_nonneg n) (by decide)
    rw [nat_succ_mul] at ht
    have hmd : Tshift.maxDurCmio = 143 := rfl
    have hn : ((n + 1 : Nat) : Int) = (n : Int) + 1 := by omega
    rw [hn] at ho
    have hb := c_cmio_trace_body cfg so po kb dis tr em s l h
    have hp := c_cmio_pass cfg hcfg hout s h (by omega) l.interrupts
    rw [← hfd, ← hia] at hp
    rw [hp] at hb
    have hr := iter_rinv_cmio cfg (decide (l.interrupts ≠ 0)) s h
    have hts := iter_t_cmio cfg (decide (l.interrupts ≠ 0)) s
    have hu := pc_u32 hr
    have e64 : CInt.u64 (l.operations + 1) = l.operations + 1 := CInt.u64_of_range _ (by omega) (by omega)
    have ei64 : CInt.i64 (l.operations + 1) = l.operations + 1 := CInt.i64_of_range _ (by omega) (by omega)
    rw [e64] at hb
    unfold traceExitCmio at hb
    rw [hu, ei64] at hb
    simp only [traceLoop]
    by_cases c1 : l.max_operations > 0 ∧ l.operations + 1 ≥ l.max_operations
    · rw [if_pos c1] at hb
      refine ⟨traceLog l.disassembling em s.pc s.t l.cblog, ?_⟩
      rw [iterate_exit _ n (s, l) (by simp only [hb]; exact fun e => nomatch e), hb, if_pos c1]
    · rw [if_neg c1] at hb
      by_cases c2 : l.max_time > 0 ∧ (iter cmioM (decide (l.interrupts ≠ 0)) cfg s).t ≥ l.max_time
      · rw [if_pos c2] at hb
        refine ⟨traceLog l.disassembling em s.pc s.t l.cblog, ?_⟩
        rw [iterate_exit _ n (s, l) (by simp only [hb]; exact fun e => nomatch e), hb, if_neg c1, if_pos c2]
      · rw [if_neg c2] at hb
        have hiff := stop_test_iff stopO hsv hr.pc
        rw [← hst] at hiff
        by_cases c3' : some (iter cmioM (decide (l.interrupts ≠ 0)) cfg s).pc = stopO
        · have c3 := hiff.mpr c3'
          rw [if_pos c3] at hb
          refine ⟨traceLog l.disassembling em s.pc s.t l.cblog, ?_⟩
          rw [iterate_exit _ n (s, l) (by simp only [hb]; exact fun e => nomatch e), hb, if_neg c1, if_neg c2, if_pos c3']
        · have c3 : ¬ (iter cmioM (decide (l.interrupts ≠ 0)) cfg s).pc = l.stop := fun e => c3' (hiff.mp e)
          rw [if_neg c3] at hb
          obtain ⟨log, ih'⟩ := ih { l with operations := l.operations + 1, cblog := traceLog l.disassembling em s.pc s.t l.cblog } hfd hia hst
            (iter cmioM (decide (l.interrupts ≠ 0)) cfg s) hr (by omega) ⟨by show 0 ≤ l.operations + 1; omega, by show l.operations + 1 + n < _; omega⟩
          refine ⟨log, ?_⟩
          rw [iterate_continue _ n (s, l) (by simp only [hb]), if_neg c1, if_neg c2, if_neg c3']
          simp only [hb]
          exact ih'

omit [CellMem μ] [PageStable μ] in
theorem c_cmio_trace_unfold (cfg : Cfg) (fuel : Nat) (so po : PyObj) (mo mt : Int) (ints : Bool) (dr em kb dis tr : PyObj)
    (log0 : List (List Int)) (draws0 : List Int) (s : St μ) :
    CCmioH.Loop.trace cfg fuel so po mo mt ints dr em kb dis tr log0 draws0 s =
      (((CCmioH.Loop.trace_loop1 cfg so po dr em kb dis tr fuel (if argObj so < 65536 then { s with pc := argObj so } else s)
          ⟨CInt.u64 mo, CInt.u64 mt, if ints = true then 1 else 0, argObj so, argObj po, PyInt.p2i (dis ≠ PyObj.none ∧ tr ≠ PyObj.none),
            cfg.frame_duration, cfg.int_active, 0, log0, draws0⟩).1.1,
        match (CCmioH.Loop.trace_loop1 cfg so po dr em kb dis tr fuel (if argObj so < 65536 then { s with pc := argObj so } else s)
          ⟨CInt.u64 mo, CInt.u64 mt, if ints = true then 1 else 0, argObj so, argObj po, PyInt.p2i (dis ≠ PyObj.none ∧ tr ≠ PyObj.none),
            cfg.frame_duration, cfg.int_active, 0, log0, draws0⟩).2 with
        | .return_ v => v
        | _ => (0, 0)),
       match (CCmioH.Loop.trace_loop1 cfg so po dr em kb dis tr fuel (if argObj so < 65536 then { s with pc := argObj so } else s)
          ⟨CInt.u64 mo, CInt.u64 mt, if ints = true then 1 else 0, argObj so, argObj po, PyInt.p2i (dis ≠ PyObj.none ∧ tr ≠ PyObj.none),
            cfg.frame_duration, cfg.int_active, 0, log0, draws0⟩).2 with
        | .continue_ => false
        | _ => true) := by
  by_cases hlt : argObj so < 65536
  · unfold argObj at hlt ⊢
    simp only [CCmioH.Loop.trace, Id.run, pure, hlt, if_true, ne_eq]
    split <;> simp_all
  · unfold argObj at hlt ⊢
    simp only [CCmioH.Loop.trace, Id.run, pure, hlt, if_false, ne_eq]
    split <;> simp_all

/-- **`CSimulator_trace` of the `-DCONTENTION` build, translated, without a `draw` callback, is `RunLoop.traceLoop` of the Python machine** from the start state;
the `disassemble` / `trace` / `exec_map` callbacks have no influence on the machine state or on the return value -/
theorem c_cmio_trace (cfg : Cfg) (hcfg : CSimH.CfgRep cfg) (hout : CSimH.OutOkAll μ cfg) (fuel : Nat) (so po : PyObj) (mo mt : Int) (ints : Bool)
    (em kb dis tr : PyObj) (log0 : List (List Int)) (draws0 : List Int) (s : St μ) (h : RInv s)
    (hso : ∀ v, so = .int v → 0 ≤ v ∧ v < 65536) (hpo : ∀ v, po = .int v → 0 ≤ v ∧ v < 65536)
    (hmo : 0 ≤ mo ∧ mo < 9223372036854775808) (hmt : 0 ≤ mt ∧ mt < 9223372036854775808)
    (ht : s.t + fuel * (Tshift.maxDurCmio + 19) < 9223372036854775808) :
    CCmioH.Loop.trace cfg fuel so po mo mt ints PyObj.none em kb dis tr log0 draws0 s =
      traceRet (traceLoop cmioM ints cfg mo mt (objStop po) fuel 0 (objStart so s)) := by
  rw [c_cmio_trace_unfold]
  have e1 : CInt.u64 mo = mo := CInt.u64_of_range _ hmo.1 (by omega)
  have e2 : CInt.u64 mt = mt := CInt.u64_of_range _ hmt.1 (by omega)
  have e3 : argObj po = stopVal (objStop po) := by
    cases po with
    | int v => exact argObj_int v (hpo v rfl)
    | none => exact argObj_other _ rfl
    | other => exact argObj_other _ rfl
  have hsv : ∀ v, objStop po = some v → 0 ≤ v ∧ v < 65536 := by
    intro v hv
    cases po with
    | int w => simp only [objStop, Option.some.injEq] at hv; subst hv; exact hpo w rfl
    | none => exact nomatch hv
    | other => exact nomatch hv
  have ei : decide ((if ints = true then (1 : Int) else 0) ≠ 0) = ints := by cases ints <;> rfl
  have hfu : (0 : Int) + fuel < 9223372036854775808 := by
    have h0 := h.t
    have hmd : Tshift.maxDurCmio = 143 := rfl
    have : (0 : Int) ≤ (fuel : Int) * (Tshift.maxDurCmio + 19) := Int.mul_nonneg (Int.natCast_nonneg _) (by decide)
    rw [hmd] at ht
    omega
  have key : ∀ (s0 : St μ) (st : Int), RInv s0 → s0.t = s.t →
      ((CCmioH.Loop.trace_loop1 cfg so po PyObj.none em kb dis tr fuel s0
          ⟨mo, mt, if ints = true then 1 else 0, st, argObj po, PyInt.p2i (dis ≠ PyObj.none ∧ tr ≠ PyObj.none),
            cfg.frame_duration, cfg.int_active, 0, log0, draws0⟩).1.1,
        match (CCmioH.Loop.trace_loop1 cfg so po PyObj.none em kb dis tr fuel s0
          ⟨mo, mt, if ints = true then 1 else 0, st, argObj po, PyInt.p2i (dis ≠ PyObj.none ∧ tr ≠ PyObj.none),
            cfg.frame_duration, cfg.int_active, 0, log0, draws0⟩).2 with
        | .return_ v => v
        | _ => (0, 0)) = (traceRet (traceLoop cmioM ints cfg mo mt (objStop po) fuel 0 s0)).1 ∧
      (match (CCmioH.Loop.trace_loop1 cfg so po PyObj.none em kb dis tr fuel s0
          ⟨mo, mt, if ints = true then 1 else 0, st, argObj po, PyInt.p2i (dis ≠ PyObj.none ∧ tr ≠ PyObj.none),
            cfg.frame_duration, cfg.int_active, 0, log0, draws0⟩).2 with
        | .continue_ => false
        | _ => true) = (traceRet (traceLoop cmioM ints cfg mo mt (objStop po) fuel 0 s0)).2 := by
    intro s0 st h0 ht0
    obtain ⟨log, hl⟩ := c_cmio_trace_loop cfg hcfg hout so po kb dis tr em
      ⟨mo, mt, if ints = true then 1 else 0, st, argObj po, PyInt.p2i (dis ≠ PyObj.none ∧ tr ≠ PyObj.none),
        cfg.frame_duration, cfg.int_active, 0, log0, draws0⟩ rfl rfl (objStop po) e3 hsv fuel s0 h0 (by rw [ht0]; exact ht) ⟨Int.le_refl 0, hfu⟩
    rw [hl]
    simp only [ei, traceRet]
    rcases traceLoop cmioM ints cfg mo mt (objStop po) fuel 0 s0 with ⟨⟨r1, r2⟩, r3⟩
    cases r3 <;> simp
  rw [e1, e2]
  cases so with
  | int v =>
    have hv := hso v rfl
    rw [argObj_int v hv]
    simp only [hv.2, if_true]
    have k := key { s with pc := v } v ⟨h.regs, h.mem, (⟨hv.1, hv.2⟩ : Word v), h.t, h.iff, h.im, h.halt, h.memptr, h.ins⟩ rfl
    exact Prod.ext k.1 k.2
  | none =>
    have e : ¬ argObj PyObj.none < 65536 := by decide
    simp only [e, if_false]
    have k := key s (argObj PyObj.none) h rfl
    exact Prod.ext k.1 k.2
  | other =>
    have e : ¬ argObj PyObj.other < 65536 := by decide
    simp only [e, if_false]
    have k := key s (argObj PyObj.other) h rfl
    exact Prod.ext k.1 k.2

end contended

/-! ### `-m n`: exactly `n` passes -/

theorem passN_rinv_sim (cfg : Cfg) (ints : Bool) (k : Nat) (s : St μ) (h : RInv s) : RInv (passN simM ints cfg k s) := by
  induction k generalizing s with
  | zero => exact h
  | succ k ih => simp only [passN]; exact ih _ (iter_rinv_sim cfg ints s h)

theorem passN_rinv_cmio [PageStable μ] (cfg : Cfg) (ints : Bool) (k : Nat) (s : St μ) (h : RInv s) : RInv (passN cmioM ints cfg k s) := by
  induction k generalizing s with
  | zero => exact h
  | succ k ih => simp only [passN]; exact ih _ (iter_rinv_cmio cfg ints s h)

omit [CellMem μ] in
theorem objStart_rinv [CellMem μ] (x : PyObj) (s : St μ) (h : RInv s) (hx : ∀ v, x = .int v → 0 ≤ v ∧ v < 65536) : RInv (objStart x s) := by
  cases x with
  | int v => exact ⟨h.regs, h.mem, (⟨(hx v rfl).1, (hx v rfl).2⟩ : Word v), h.t, h.iff, h.im, h.halt, h.memptr, h.ins⟩
  | none => exact h
  | other => exact h

/-- `trace -m n` (no time limit, no stop address, no screen): the translated C trace loop makes exactly `n` passes of
`RunLoop.iter` from the start state and reports (1, n) -/
theorem c_trace_max_operations (cfg : Cfg) (hcfg : CSimH.CfgRep cfg) (hout : CSimH.OutOkAll μ cfg) (n fuel : Nat) (hn : 0 < n) (hnf : n ≤ fuel)
    (so : PyObj) (ints : Bool) (em kb dis tr : PyObj) (log0 : List (List Int)) (draws0 : List Int) (s : St μ) (h : RInv s)
    (hso : ∀ v, so = .int v → 0 ≤ v ∧ v < 65536) (hn63 : (n : Int) < 9223372036854775808)
    (ht : s.t + fuel * (Tshift.maxDur + 19) < 9223372036854775808) :
    CSimH.Loop.trace cfg fuel so PyObj.none n 0 ints PyObj.none em kb dis tr log0 draws0 s =
      ((passN simM ints cfg n (objStart so s), (1, (n : Int))), true) := by
  rw [c_trace cfg hcfg hout fuel so PyObj.none n 0 ints em kb dis tr log0 draws0 s h hso (fun _ e => nomatch e)
    ⟨Int.natCast_nonneg n, hn63⟩ ⟨Int.le_refl 0, by decide⟩ ht]
  rw [show objStop PyObj.none = none from rfl, traceLoop_max_operations simM ints cfg n fuel (objStart so s) hn hnf]
  rfl

/-! ### the hand model of C10 (`TraceLoop.cIter`) is the same pass -/

/-- the machine whose "instruction" is the hand model's `tstep`: the instruction with the tracer's port glue (`Tracer.read_port`,
`PagingTracer.write_port`: hand-modelled, tied by C10's correspondence) for a tracer in state `tr` -/
def glued (mode : TraceLoop.Mode μ) (tr : TraceLoop.Tr) : Machine μ :=
  ⟨fun cfg s => (TraceLoop.tstep mode.step cfg ⟨s, tr⟩).s, mode.cmio⟩

omit [CellMem μ] in
/-- One pass of C10's hand model of the trace loop IS the pass of the translated loops (`RunLoop.iter`: the common value of the
translated `Simulator.run`, `CSimulator_run` and `CSimulator_trace` bodies) over the glued machine: what remains hand-modelled in
`TraceLoop.cIter` is the port glue `tstep`, not the loop. -/
theorem cIter_eq_iter (mode : TraceLoop.Mode μ) (cfg : Cfg) (ts : TraceLoop.TS μ) :
    TraceLoop.cIter mode cfg ts =
      ⟨iter (glued mode ts.tr) mode.interrupts cfg ts.s, (TraceLoop.tstep mode.step cfg ts).tr⟩ := by
  unfold TraceLoop.cIter iter glued
  simp only []
  by_cases hc : mode.interrupts = true ∧ (TraceLoop.tstep mode.step cfg ts).s.iff ≠ 0 ∧
      (TraceLoop.tstep mode.step cfg ts).s.t % cfg.frame_duration < cfg.int_active
  · rw [if_pos hc, if_pos hc]
  · rw [if_neg hc, if_neg hc]

end RunLoop
