import SkoolVerif.Proofs.C07Chk.Defs
namespace C07Chk
open InstrDec C07Gen
theorem simSize_ok : overSimAll simSizeP = true := by decide +kernel
end C07Chk
