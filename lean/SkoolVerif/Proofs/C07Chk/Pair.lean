import SkoolVerif.Proofs.C07Chk.Defs
namespace C07Chk
open InstrDec C07Gen
theorem pair_ok : overSimAll pairP = true := by decide +kernel
theorem overlays_ok : overlaysOk disTables = true := by decide +kernel
end C07Chk
