import SkoolVerif.Proofs.C07Chk.Defs
namespace C07Chk
open InstrDec C07Gen
theorem trShape_ok : trShape trTables = true := by decide +kernel
theorem trOk_ok : trOk trTables = true := by decide +kernel
theorem disShape_ok : disShape disTables = true := by decide +kernel
theorem simShape_ok : Sim.simShape = true := by decide +kernel
theorem defb_ok : (startsDef disTables.defb && startsDef (lowerCs disTables.defb)) = true := by decide +kernel
end C07Chk
