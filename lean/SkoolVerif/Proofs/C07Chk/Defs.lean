import SkoolVerif.Gen.C07Tables
import SkoolVerif.Proofs.C07Lift
import SkoolVerif.Proofs.C07Sim
/-! Shared definitions of the kernel-evaluated checks over the dumped tables (C07). -/
namespace C07Chk
open InstrDec C07Gen

/-- the architectural length of the opcode sequences of a slot (what `traceutils.disassemble` returns) -/
def L (s : Slot) : Nat := trLen trTables s

/-- the simulator's T-state increments for a slot -/
def TS (s : Slot) : List Int := Sim.instrTstates (Sim.simAt s)

/-- one pass over a dispatch table of the simulator, entry `k` paired with slot `⟨t, k⟩` -/
def overSim (t : Nat) (p : Slot → Sim.Instr → Bool) : Bool :=
  Sim.allFrom (Sim.tblOf t).arr.toList 0 (fun k i => !(Slot.valid ⟨t, k⟩) || p ⟨t, k⟩ i)

def overSimAll (p : Slot → Sim.Instr → Bool) : Bool :=
  overSim 0 p && overSim 1 p && overSim 2 p && overSim 3 p && overSim 4 p && overSim 5 p && overSim 6 p

theorem arr_size (t : Sim.OpTbl) : (t.arr.all Sim.instrWf && t.arr.size == 256) = true := by
  cases t
  · exact Sim.wf_MAIN
  · exact Sim.wf_CB
  · exact Sim.wf_ED
  · exact Sim.wf_DD
  · exact Sim.wf_FD
  · exact Sim.wf_DDCB
  · exact Sim.wf_FDCB

theorem overSim_spec {t : Nat} {p : Slot → Sim.Instr → Bool} (h : overSim t p = true) (k : Nat) (hk : k < 256)
    (hv : Slot.valid ⟨t, k⟩ = true) : p ⟨t, k⟩ (Sim.simAt ⟨t, k⟩) = true := by
  have := Sim.tbl_fact (arr_size (Sim.tblOf t)) h k hk (.prefix_ .MAIN)
  simp only [hv, Bool.not_true, Bool.false_or] at this
  simpa [Sim.simAt, Sim.OpTbl.get] using this

/-- the lifting step for checks that pair every slot with its simulator closure -/
theorem overSimAll_spec {p : Slot → Sim.Instr → Bool} (h : overSimAll p = true) (s : Slot) (hv : s.valid = true) :
    p s (Sim.simAt s) = true := by
  simp only [overSimAll, Bool.and_eq_true] at h
  obtain ⟨⟨⟨⟨⟨⟨h0, h1⟩, h2⟩, h3⟩, h4⟩, h5⟩, h6⟩ := h
  obtain ⟨t, k⟩ := s
  have hv' := hv
  simp only [Slot.valid, Bool.and_eq_true, decide_eq_true_eq] at hv'
  have ht : t < 7 := hv'.1.1.1
  have hk : k < 256 := hv'.1.1.2
  have : t = 0 ∨ t = 1 ∨ t = 2 ∨ t = 3 ∨ t = 4 ∨ t = 5 ∨ t = 6 := by omega
  rcases this with rfl | rfl | rfl | rfl | rfl | rfl | rfl
  · exact overSim_spec h0 k hk hv
  · exact overSim_spec h1 k hk hv
  · exact overSim_spec h2 k hk hv
  · exact overSim_spec h3 k hk hv
  · exact overSim_spec h4 k hk hv
  · exact overSim_spec h5 k hk hv
  · exact overSim_spec h6 k hk hv

/-- where the simulator defines a fall-through size for a slot, it is the slot's length -/
def simSizeP (s : Slot) (i : Sim.Instr) : Bool :=
  match Sim.instrSize i with
  | none => true
  | some n => n == (L s : Int)

/-- `get_timing` agrees with the simulator's T-state set, for every entry an option set can put at the slot -/
def timingChk (s : Slot) (i : Sim.Instr) : Bool :=
  (candsAt disTables s).all (fun cand =>
    timingP tmTables L s (Sim.instrTstates i) (disAtC disTables false s cand) &&
    timingP tmTables L s (Sim.instrTstates i) (disAtC disTables true s cand))

/-- for a slot whose timing is a pair `(t1, t2)`: one member is what the closure's fall-through paths take (and
only they), the other what its jump / repeat paths take, and the closure's fall-through size is the slot's length -/
def pairP (s : Slot) (i : Sim.Instr) : Bool :=
  match tmAt tmTables s with
  | .timing (.two t1 t2) =>
    ((Sim.instrFallT i == [t2] && (Sim.instrSameT i ++ Sim.instrJumpT i) == [t1]) ||
     (Sim.instrFallT i == [t1] && (Sim.instrSameT i ++ Sim.instrJumpT i) == [t2])) && t1 != t2 &&
    Sim.instrSize i == some (L s : Int)
  | _ => true

/-- no two additional-opcode options assign the same key of the same table, and options are numbered 0..7 -/
def overlaysOk (T : DTables) : Bool :=
  (T.overlays.map (fun o => (o.tbl, o.key))).Nodup && T.overlays.all (fun o => decide (o.opt < 8))

end C07Chk
