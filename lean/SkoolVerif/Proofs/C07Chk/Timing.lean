import SkoolVerif.Proofs.C07Chk.Defs
namespace C07Chk
open InstrDec C07Gen
theorem timing_ok : overSimAll timingChk = true := by decide +kernel
end C07Chk
