import SkoolVerif.Proofs.C07Chk.Defs
import SkoolVerif.Proofs.C07Text
namespace C07Chk
open InstrDec C07Gen
theorem textAny_ok : allDisU disTables (textAnyP disTables trTables) = true := by decide +kernel
end C07Chk
