import SkoolVerif.Proofs.C07Chk.Defs
namespace C07Chk
open InstrDec C07Gen
theorem decOk_ok : decOk decTables L = true := by decide +kernel
end C07Chk
