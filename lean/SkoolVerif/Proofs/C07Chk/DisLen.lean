import SkoolVerif.Proofs.C07Chk.Defs
namespace C07Chk
open InstrDec C07Gen
theorem disLen_ok : allDis disTables (disLenP L) = true := by decide +kernel
end C07Chk
