import SkoolVerif.Gen.CmioBusThms
import SkoolVerif.Proofs.CmioVsSimStep
/-!
From the per-closure theorems (`Gen/CmioBusThms.lean`) to one `step`: whatever bytes are at PC, the
contended simulator's extra T-states are `Z80Bus.busDelay` of the instruction the independent
fetch + decode finds there.  Also: well-formedness of the specification itself (its cycles add up to
the documented T-states of every opcode), the relation between the two readings of OTIR/OTDR's
repeat cycles, and the consequences the property states (no contended address ⇒ no delay; nothing
outside the contended window).
-/
namespace C19Bus
open Z80 Sim Spec Z80Isa Z80Decode C05 Z80Bus Contend
variable {μ : Type} [MemLike μ] [CellMem μ]

/-! ### one step -/

theorem fetch_byte (s : St μ) (hi : RInv s) : (Spec.fetch s).2.toNat < 256 := by
  have hb0 := hi.mem.byte s.pc
  have hb1 := hi.mem.byte ((s.pc + 1) % 65536)
  have hb3 := hi.mem.byte ((s.pc + 3) % 65536)
  unfold Byte at hb0 hb1 hb3
  unfold Spec.fetch Spec.rd
  simp only
  repeat' split
  all_goals simp only; omega

theorem fetch_decodable (s : St μ) (hi : RInv s) : Decodable (decode (Spec.fetch s).1 (Spec.fetch s).2.toNat) :=
  ⟨_, _, fetch_byte s hi, rfl⟩

/-- inside the contended window: T of the contended step = T of the plain step + the delay the bus
specification assigns to the instruction at PC (SkoolKit's reading of OTIR/OTDR's repeat cycles) -/
theorem bus_step (cfg : Cfg) (s : St μ) (hi : RInv s)
    (hw : cfg.t0 < s.t % cfg.frame_duration ∧ s.t % cfg.frame_duration < cfg.t1) :
    (Cmio.step cfg s).t = (Sim.step cfg s).t +
      busDelay .skoolkit cfg s (decode (Spec.fetch s).1 (Spec.fetch s).2.toNat) := by
  obtain ⟨d, hz, hc⟩ := leaf_spec s hi
  rw [Sim.step_eq, Cmio.step_eq, CmioVsSim.leafOf_map]
  exact bus_execLeaf cfg _ s d _ hz hc (fetch_decodable s hi) hi hw

/-! ### the two readings of OTIR/OTDR -/

/-- the instruction is a repeating block output instruction that does repeat in `s` -/
def otirRepeats (s : St μ) (i : ZInstr) : Bool :=
  match i with
  | .block .OUT _ true => branch s i
  | _ => false

theorem shape_variant (i : ZInstr) (b : Bool) (h : (match i with | .block .OUT _ _ => b | _ => false) = false) :
    shape .documented i b = shape .skoolkit i b := by
  cases i
  case ret cc => cases cc <;> rfl
  case block k dec rep =>
    cases k <;> try rfl
    simp only at h
    subst h
    rfl
  all_goals rfl

/-- the two readings give the same cycles except for an OTIR/OTDR that repeats -/
theorem busCycles_variant (s : St μ) (i : ZInstr) (h : otirRepeats s i = false) :
    busCycles .documented s i = busCycles .skoolkit s i := by
  unfold busCycles
  apply shape_variant
  cases i
  case block k dec rep =>
    cases k <;> try rfl
    cases rep
    · simp [branch]
    · simpa [otirRepeats] using h
  all_goals rfl

theorem busDelay_variant (cfg : Cfg) (s : St μ) (i : ZInstr) (h : otirRepeats s i = false) :
    busDelay .documented cfg s i = busDelay .skoolkit cfg s i := by
  unfold busDelay; rw [busCycles_variant s i h]

/-- … and even then the same delay when BC before and after the decrement of B are in the same
contention class -/
theorem busDelay_variant_same_class (cfg : Cfg) (s : St μ) (i : ZInstr)
    (h : contended s.mem (addrVal s .bcOut) = contended s.mem (addrVal s (.rp .BC))) :
    busDelay .documented cfg s i = busDelay .skoolkit cfg s i := by
  cases hr : otirRepeats s i
  · exact busDelay_variant cfg s i hr
  · cases i <;> try (simp [otirRepeats] at hr; done)
    rename_i k dec rep
    cases k <;> try (simp [otirRepeats] at hr; done)
    cases rep <;> try (simp [otirRepeats] at hr; done)
    simp only [otirRepeats] at hr
    unfold busDelay busCycles
    simp only [shape, hr, if_true, fetches, prefixed, ZInstr.indexed, ZInstr.cbGroup, ZInstr.edGroup, Bool.or_true,
      List.cons_append, List.nil_append, x5, pieces, h, List.append_assoc]

/-! ### the specification's cycles add up to the documented T-states -/

def timeOk (v : Variant) (i : ZInstr) : Bool :=
  [true, false].all (fun b =>
    !branchPossible i b || decide (cyclesLen (shape v i b) = ((if b then i.time.2 else i.time.1 : Nat) : Int)))

theorem timeOk_all_documented : allDecoded (timeOk .documented) = true := by decide +kernel
theorem timeOk_all_skoolkit : allDecoded (timeOk .skoolkit) = true := by decide +kernel

theorem branch_possible (s : St μ) (i : ZInstr) : branchPossible i (branch s i) = true := by
  cases i
  case jp cc => cases cc <;> simp [branchPossible, branch, ccHolds]
  case jr cc => cases cc <;> simp [branchPossible, branch, ccHolds]
  case call cc => cases cc <;> simp [branchPossible, branch, ccHolds]
  case ret cc => cases cc <;> simp [branchPossible, branch, ccHolds]
  case block k dec rep => cases rep <;> simp [branchPossible, branch]
  all_goals simp [branchPossible, branch]

/-- For every opcode of every prefix page, in every state: the cycles the specification lists take
exactly the T-states the Z80 manual gives for the instruction (the not-taken / taken total that
applies in that state). -/
theorem cycles_total (v : Variant) (s : St μ) (i : ZInstr) (hd : Decodable i) :
    cyclesLen (busCycles v s i) = ((if branch s i then i.time.2 else i.time.1 : Nat) : Int) := by
  have h := allDecoded_spec (timeOk v) (by cases v; exact timeOk_all_documented; exact timeOk_all_skoolkit) i hd
  have hp := branch_possible s i
  unfold busCycles
  simp only [timeOk, List.all_cons, List.all_nil, Bool.and_true, Bool.and_eq_true, Bool.or_eq_true, Bool.not_eq_true',
    decide_eq_true_eq] at h
  cases hb : branch s i
  · rw [hb] at hp
    rcases h.2 with h2 | h2
    · rw [hp] at h2; exact absurd h2 (by simp)
    · simpa using h2
  · rw [hb] at hp
    rcases h.1 with h1 | h1
    · rw [hp] at h1; exact absurd h1 (by simp)
    · simpa using h1

/-! ### consequences -/

/-- no address or port the instruction puts on the bus is contended ⇒ no delay -/
theorem busDelay_zero_of_uncontended (v : Variant) (cfg : Cfg) (s : St μ) (i : ZInstr)
    (h : anyContended v s i = false) : busDelay v cfg s i = 0 :=
  delayFrom_zero_of_uncontended _ _ _ h

theorem busDelay_nonneg (v : Variant) (cfg : Cfg) (s : St μ) (i : ZInstr) : 0 ≤ busDelay v cfg s i :=
  delayFrom_nonneg _ _ _

/-! ### outside the contended window -/

/-- the simulator's frame constants are those of the machine whose memory it runs on (what
`CMIOSimulator.__init__` / `simutils.from_memory` set up: `Contend.cfgFor`) -/
def CfgMatches (cfg : Cfg) (m : μ) : Prop :=
  cfg.frame_duration = (cfgFor (MemLike.is128 m)).frame_duration ∧ cfg.t0 = (cfgFor (MemLike.is128 m)).t0 ∧
    cfg.t1 = (cfgFor (MemLike.is128 m)).t1

omit [CellMem μ] in
theorem delayFrom_zero_after (m : μ) (t : Int) (l : List (Bool × Int)) (hz : ∀ t', t ≤ t' → wait m t' = 0)
    (hl : ∀ p ∈ l, 0 ≤ p.2) : delayFrom m t l = 0 := by
  induction l generalizing t with
  | nil => rfl
  | cons x l ih =>
    obtain ⟨c, n⟩ := x
    have hn : 0 ≤ n := hl (c, n) (by simp)
    simp only [delayFrom, hz t (Int.le_refl t), ite_self, Int.add_zero, Int.zero_add]
    exact ih _ (fun t' ht' => hz t' (by omega)) (fun p hp => hl p (by simp [hp]))

omit [CellMem μ] in
theorem delayFrom_zero_before (m : μ) (bound t : Int) (l : List (Bool × Int)) (hz : ∀ t', t' ≤ bound → wait m t' = 0)
    (hl : ∀ p ∈ l, 1 ≤ p.2) (hs : t + (l.map Prod.snd).sum ≤ bound + 1) : delayFrom m t l = 0 := by
  induction l generalizing t with
  | nil => rfl
  | cons x l ih =>
    obtain ⟨c, n⟩ := x
    have hn : 1 ≤ n := hl (c, n) (by simp)
    have hsum : 0 ≤ (l.map Prod.snd).sum := by
      have : ∀ (l : List (Bool × Int)), (∀ p ∈ l, 1 ≤ p.2) → 0 ≤ (l.map Prod.snd).sum := by
        intro l; induction l with
        | nil => intro _; simp
        | cons y l ih2 =>
          intro h; simp only [List.map_cons, List.sum_cons]
          have := h y (by simp); have := ih2 (fun p hp => h p (by simp [hp])); omega
      exact this l (fun p hp => hl p (by simp [hp]))
    simp only [List.map_cons, List.sum_cons] at hs
    simp only [delayFrom, hz t (by omega), ite_self, Int.add_zero, Int.zero_add]
    exact ih _ (fun p hp => hl p (by simp [hp])) (by omega)

/-- every cycle lasts at least one T-state, no instruction more than 23 -/
def lensOk (v : Variant) (i : ZInstr) : Bool :=
  [true, false].all (fun b => (shape v i b).all (fun c => match c with | .m _ n => decide (1 ≤ n) | .io _ => true)) &&
    decide (i.time.1 ≤ 23) && decide (i.time.2 ≤ 23)

theorem lensOk_all_documented : allDecoded (lensOk .documented) = true := by decide +kernel
theorem lensOk_all_skoolkit : allDecoded (lensOk .skoolkit) = true := by decide +kernel

omit [CellMem μ] in
theorem ioPieces_pos (a b : Bool) : ∀ p ∈ ioPieces a b, 1 ≤ p.2 := by
  cases a <;> cases b <;> simp [ioPieces]

omit [CellMem μ] in
theorem pieces_pos (s : St μ) (l : List Cycle)
    (h : l.all (fun c => match c with | .m _ n => decide (1 ≤ n) | .io _ => true) = true) :
    ∀ p ∈ pieces s l, 1 ≤ p.2 := by
  induction l with
  | nil => intro p hp; simp [pieces] at hp
  | cons c l ih =>
    simp only [List.all_cons, Bool.and_eq_true] at h
    cases c with
    | m a n =>
      intro p hp
      simp only [pieces, List.mem_cons] at hp
      rcases hp with rfl | hp
      · simpa using h.1
      · exact ih h.2 p hp
    | io q =>
      intro p hp
      simp only [pieces, List.mem_append] at hp
      rcases hp with hp | hp
      · exact ioPieces_pos _ _ p hp
      · exact ih h.2 p hp

omit [CellMem μ] in
theorem pieces_sum (s : St μ) (l : List Cycle) : ((pieces s l).map Prod.snd).sum = cyclesLen l := by
  induction l with
  | nil => rfl
  | cons c l ih =>
    cases c with
    | m a n => simp only [pieces, List.map_cons, List.sum_cons, cyclesLen, ih]
    | io q => simp only [pieces, List.map_append, List.sum_append, ioPieces_sum, cyclesLen, ih]

/-- Outside the contended window the specification, too, assigns no delay: an instruction that starts
at or after `t1` meets no wait for the rest of the frame, and one that starts at or before
`t0 = first contended T-state − 23` has begun its last cycle before the first contended T-state
(no instruction is longer than 23 T-states). -/
theorem busDelay_zero_outside (v : Variant) (cfg : Cfg) (s : St μ) (i : ZInstr) (hd : Decodable i)
    (hm : CfgMatches cfg s.mem)
    (hout : ¬ (cfg.t0 < s.t % cfg.frame_duration ∧ s.t % cfg.frame_duration < cfg.t1)) :
    busDelay v cfg s i = 0 := by
  have hl := allDecoded_spec (lensOk v) (by cases v; exact lensOk_all_documented; exact lensOk_all_skoolkit) i hd
  simp only [lensOk, List.all_cons, List.all_nil, Bool.and_true, Bool.and_eq_true, decide_eq_true_eq] at hl
  obtain ⟨⟨⟨hl1, hl2⟩, ht1⟩, ht2⟩ := hl
  have hpos : ∀ p ∈ pieces s (busCycles v s i), 1 ≤ p.2 := by
    apply pieces_pos
    unfold busCycles
    cases branch s i
    · exact hl2
    · exact hl1
  have htot := cycles_total v s i hd
  unfold busDelay
  obtain ⟨hf, h0, h1⟩ := hm
  by_cases hlo : s.t % cfg.frame_duration ≤ cfg.t0
  · apply delayFrom_zero_before s.mem (cfg.t0 + 22)
    · intro t' ht'
      rw [wait_eq]
      cases h128 : MemLike.is128 s.mem
      · simp only [Bool.false_eq_true, if_false]
        rw [h128] at h0
        exact window_sound_48k_before t' (by rw [← h0]; exact ht')
      · simp only [if_true]
        rw [h128] at h0
        exact window_sound_128k_before t' (by rw [← h0]; exact ht')
    · exact hpos
    · rw [pieces_sum, htot]
      have : ((if branch s i = true then i.time.2 else i.time.1 : Nat) : Int) ≤ 23 := by split <;> omega
      omega
  · have hhi : cfg.t1 ≤ s.t % cfg.frame_duration := by
      apply Classical.byContradiction; intro hh; exact hout ⟨by omega, by omega⟩
    apply delayFrom_zero_after
    · intro t' ht'
      rw [wait_eq]
      cases h128 : MemLike.is128 s.mem
      · simp only [Bool.false_eq_true, if_false]
        rw [h128] at h1
        exact window_sound_48k_after t' (by rw [← h1]; omega)
      · simp only [if_true]
        rw [h128] at h1
        exact window_sound_128k_after t' (by rw [← h1]; omega)
    · intro p hp; have := hpos p hp; omega

/-- every frame position: T of the contended step = T of the plain step + the specification's delay -/
theorem bus_step_everywhere (cfg : Cfg) (s : St μ) (hi : RInv s) (hm : CfgMatches cfg s.mem) :
    (Cmio.step cfg s).t = (Sim.step cfg s).t +
      busDelay .skoolkit cfg s (decode (Spec.fetch s).1 (Spec.fetch s).2.toNat) := by
  by_cases hw : cfg.t0 < s.t % cfg.frame_duration ∧ s.t % cfg.frame_duration < cfg.t1
  · exact bus_step cfg s hi hw
  · rw [busDelay_zero_outside _ cfg s _ (fetch_decodable s hi) hm hw, Int.add_zero]
    rw [Sim.step_eq, Cmio.step_eq, CmioVsSim.leafOf_map]
    exact CmioVsSim.sameT_execLeaf cfg _ s hw

end C19Bus
