import SkoolVerif.Proofs.ScanLoopLemmas
/-! `buildAny` (model of `_build_image_data_bd_any`): every output pixel is the display-rule
pixel of the source tile (C15). -/
set_option linter.unusedSimpArgs false
set_option linter.unusedVariables false
namespace PngScan
open ZxTile ZxSpec

theorem div8 (y0 s : Nat) : y0 / s = 8 * (y0 / (8 * s)) + y0 % (8 * s) / s := by
  have h1 : y0 / s / 8 = y0 / (8 * s) := by rw [Nat.div_div_eq_div_mul, Nat.mul_comm]
  have h2 : y0 / s % 8 = y0 % (8 * s) / s := by rw [Nat.mul_comm 8 s, Nat.mod_mul_right_div_self]
  have := Nat.div_add_mod (y0 / s) 8
  omega

/-- The start state of the loop in natural numbers. -/
theorem buildAny_ok (c : Ctx) (udgs : List (List Udg)) (hs : 0 < c.scale) (hh : 0 < c.height)
    (hattr : ∀ row ∈ visited c udgs, ∀ u ∈ row, (c.attrs u.attr).isSome) :
    buildAny c udgs = .ok (anyRows c (visited c udgs)
      ((c.y0 % (8 * c.scale) / c.scale : Nat) : Int)
      ((k1Of c (c.y0 / (8 * c.scale)) : Nat) : Int)
      ((c.scale * (8 * (c.y0 / (8 * c.scale)) + c.y0 % (8 * c.scale) / c.scale) : Nat) : Int)
      (min (((c.scale * (8 * (c.y0 / (8 * c.scale)) + c.y0 % (8 * c.scale) / c.scale) : Nat) : Int) + c.scale)
          ((c.y0 : Int) + c.height)
        - max ((c.scale * (8 * (c.y0 / (8 * c.scale)) + c.y0 % (8 * c.scale) / c.scale) : Nat) : Int) c.y0)) := by
  unfold buildAny
  have hany : (visited c udgs).any (fun row => row.any (fun u => (c.attrs u.attr).isNone)) = false := by
    rw [List.any_eq_false]
    intro row hrow
    rw [Bool.not_eq_true, List.any_eq_false]
    intro u hu
    have := hattr row hrow u hu
    cases h : c.attrs u.attr with
    | none => rw [h] at this; simp at this
    | some v => simp
  simp only [hany, Bool.false_eq_true, if_false]
  congr 1
  have hdiv := div8 c.y0 c.scale
  obtain ⟨a1, a2, a3⟩ := div_mod_facts c.y0 c.scale hs
  obtain ⟨b1, b2, b3⟩ := div_mod_facts c.y0 (8 * c.scale) (by omega)
  have hy : (c.scale : Int) * ((c.y0 : Int) / (c.scale : Int))
      = ((c.scale * (8 * (c.y0 / (8 * c.scale)) + c.y0 % (8 * c.scale) / c.scale) : Nat) : Int) := by
    rw [← hdiv]; push_cast; rfl
  have hk0 : ((c.y0 : Int) % (8 * (c.scale : Int))) / (c.scale : Int)
      = ((c.y0 % (8 * c.scale) / c.scale : Nat) : Int) := by push_cast; rfl
  have hr0 : (8 * (c.scale : Int)) * ((c.y0 : Int) / (8 * (c.scale : Int)))
      = ((8 * c.scale * (c.y0 / (8 * c.scale)) : Nat) : Int) := by push_cast; rfl
  have hk1 := k1_next c (c.y0 / (8 * c.scale)) hs (by
    have : 8 * c.scale * (c.y0 / (8 * c.scale)) = c.y0 / (8 * c.scale) * (8 * c.scale) := Nat.mul_comm _ _
    omega)
  rw [hy, hk0, hr0, hk1]
  congr 1
  have : c.scale * (c.y0 / c.scale) ≤ c.y0 := by rw [Nat.mul_comm]; exact a1
  rw [← hdiv]
  omega

/-- `row[c0:c1]` -/
def sliceRow (c : Ctx) (row : List Udg) : List Udg :=
  (row.drop (c.x0 / (8 * c.scale))).take ((c.x0 + c.width) / (8 * c.scale) + 1 - c.x0 / (8 * c.scale))

theorem visited_eq (c : Ctx) (udgs : List (List Udg)) :
    visited c udgs = ((udgs.drop (c.y0 / (8 * c.scale))).take
      ((c.y0 + c.height) / (8 * c.scale) + 1 - c.y0 / (8 * c.scale))).map (sliceRow c) := rfl

theorem visited_length (c : Ctx) (udgs : List (List Udg)) :
    (visited c udgs).length
      = min ((c.y0 + c.height) / (8 * c.scale) + 1 - c.y0 / (8 * c.scale)) (udgs.length - c.y0 / (8 * c.scale)) := by
  rw [visited_eq]; simp

theorem visited_getD (c : Ctx) (udgs : List (List Udg)) (j : Nat) (hj : j < (visited c udgs).length) :
    (visited c udgs).getD j [] = sliceRow c (udgs.getD (c.y0 / (8 * c.scale) + j) []) := by
  rw [visited_length] at hj
  have h1 : j < (c.y0 + c.height) / (8 * c.scale) + 1 - c.y0 / (8 * c.scale) := by omega
  have h2 : c.y0 / (8 * c.scale) + j < udgs.length := by omega
  rw [visited_eq]
  simp only [List.getD_eq_getElem?_getD, List.getElem?_map, List.getElem?_take, h1, if_true, List.getElem?_drop,
    List.getElem?_eq_getElem h2, Option.map_some, Option.getD_some]

theorem visited_mem (c : Ctx) (udgs : List (List Udg)) (j : Nat) (hj : j < (visited c udgs).length) :
    sliceRow c (udgs.getD (c.y0 / (8 * c.scale) + j) []) ∈ visited c udgs := by
  rw [← visited_getD c udgs j hj]
  exact getD_mem_or_default _ _ _ hj

/-- The scanlines of the generic builder, one per output row: output row `y` is the line of
source row `(y0 + y) / scale`. -/
theorem buildAny_lines (c : Ctx) (udgs : List (List Udg)) (hs : 0 < c.scale) (hh : 0 < c.height)
    (hfit : c.y0 + c.height ≤ 8 * c.scale * udgs.length)
    (hattr : ∀ row ∈ visited c udgs, ∀ u ∈ row, (c.attrs u.attr).isSome) :
    buildAny c udgs = .ok ((List.range' c.y0 c.height).map (lineAt c (visited c udgs) (c.y0 / (8 * c.scale)))) := by
  rw [buildAny_ok c udgs hs hh hattr]
  congr 1
  have hdiv := div8 c.y0 c.scale
  obtain ⟨a1, a2, a3⟩ := div_mod_facts c.y0 c.scale hs
  obtain ⟨b1, b2, b3⟩ := div_mod_facts c.y0 (8 * c.scale) (by omega)
  obtain ⟨e1, e2, e3⟩ := div_mod_facts (c.y0 + c.height) (8 * c.scale) (by omega)
  have hsy : c.scale * (c.y0 / c.scale) = c.y0 / c.scale * c.scale := Nat.mul_comm _ _
  have hK0 : c.y0 % (8 * c.scale) / c.scale < 8 := by
    rw [Nat.div_lt_iff_lt_mul hs]; exact Nat.mod_lt _ (by omega)
  have hlen := visited_length c udgs
  generalize hR0 : c.y0 / (8 * c.scale) = r0 at *
  generalize hR1 : (c.y0 + c.height) / (8 * c.scale) = q1 at *
  have hr01 : r0 ≤ q1 := by rw [← hR0, ← hR1]; exact Nat.div_le_div_right (by omega)
  have hr0H : r0 < udgs.length := by
    have : r0 * (8 * c.scale) < udgs.length * (8 * c.scale) := by
      rw [Nat.mul_comm udgs.length]; omega
    exact Nat.lt_of_mul_lt_mul_right this
  rw [anyRows_spec c hs (visited c udgs) r0 (c.y0 % (8 * c.scale) / c.scale) hK0
    (by rw [← hdiv]; omega) (Or.inr (by rw [← hdiv]; omega))
    (by
      rw [hlen]
      have hle : r0 + min (q1 + 1 - r0) (udgs.length - r0) ≤ q1 + 1 := by omega
      have := Nat.mul_le_mul_left (8 * c.scale) hle
      rw [Nat.mul_succ] at this
      rw [Nat.mul_comm q1] at e1
      omega) _ rfl]
  rw [← hdiv]
  have hmax : max c.y0 (c.scale * (c.y0 / c.scale)) = c.y0 := Nat.max_eq_left (by omega)
  have hmin : min (c.y0 + c.height) (8 * c.scale * (r0 + (visited c udgs).length)) = c.y0 + c.height := by
    apply Nat.min_eq_left
    rw [hlen]
    by_cases hc : q1 + 1 - r0 ≤ udgs.length - r0
    · rw [Nat.min_eq_left hc, show r0 + (q1 + 1 - r0) = q1 + 1 by omega, Nat.mul_succ, Nat.mul_comm _ q1]
      omega
    · rw [Nat.min_eq_right (by omega), show r0 + (udgs.length - r0) = udgs.length by omega]
      exact hfit
  rw [hmax, hmin, Nat.add_sub_cancel_left]

theorem visited_covers (c : Ctx) (udgs : List (List Udg)) (hs : 0 < c.scale)
    (hfit : c.y0 + c.height ≤ 8 * c.scale * udgs.length) (hh : 0 < c.height) :
    c.y0 + c.height ≤ 8 * c.scale * (c.y0 / (8 * c.scale) + (visited c udgs).length) := by
  obtain ⟨b1, b2, b3⟩ := div_mod_facts c.y0 (8 * c.scale) (by omega)
  obtain ⟨e1, e2, e3⟩ := div_mod_facts (c.y0 + c.height) (8 * c.scale) (by omega)
  have hlen := visited_length c udgs
  generalize hR0 : c.y0 / (8 * c.scale) = r0 at *
  generalize hR1 : (c.y0 + c.height) / (8 * c.scale) = q1 at *
  have hr01 : r0 ≤ q1 := by rw [← hR0, ← hR1]; exact Nat.div_le_div_right (by omega)
  have hr0H : r0 < udgs.length := by
    have : r0 * (8 * c.scale) < udgs.length * (8 * c.scale) := by
      rw [Nat.mul_comm udgs.length]; omega
    exact Nat.lt_of_mul_lt_mul_right this
  rw [hlen]
  by_cases hc : q1 + 1 - r0 ≤ udgs.length - r0
  · rw [Nat.min_eq_left hc, show r0 + (q1 + 1 - r0) = q1 + 1 by omega, Nat.mul_succ, Nat.mul_comm _ q1]
    omega
  · rw [Nat.min_eq_right (by omega), show r0 + (udgs.length - r0) = udgs.length by omega]
    exact hfit

/-- Palette index the display rules give source pixel `(X, Y)` (unscaled) of the tile array,
with the frame's mask kind and attribute map. -/
def srcIndex (c : Ctx) (udgs : List (List Udg)) (X Y : Nat) : Nat :=
  rowSrc c (udgs.getD (Y / 8) []) (Y % 8) X

/-- **Pixel theorem for the generic builder.**  For every crop rectangle inside the picture, every
scale and every bit depth: the builder succeeds, emits `height` scanlines of filter type 0 and
`ceil(width * depth / 8)` bytes, and unpacking pixel `x` of scanline `y` gives the palette index of
source pixel `((x0 + x) / scale, (y0 + y) / scale)`. -/
theorem buildAny_pixels (c : Ctx) (udgs : List (List Udg)) (W : Nat)
    (hs : 0 < c.scale) (hh : 0 < c.height) (hw : 0 < c.width)
    (hbd : c.bitDepth = 1 ∨ c.bitDepth = 2 ∨ c.bitDepth = 4)
    (hrowlen : ∀ row ∈ udgs, row.length = W)
    (hwf : ∀ row ∈ udgs, ∀ u ∈ row, WfUdg u)
    (hfitx : c.x0 + c.width ≤ 8 * c.scale * W)
    (hfity : c.y0 + c.height ≤ 8 * c.scale * udgs.length)
    (hattr : ∀ row ∈ visited c udgs, ∀ u ∈ row,
      ∃ p i, c.attrs u.attr = some (p, i) ∧ p < 2 ^ c.bitDepth ∧ i < 2 ^ c.bitDepth) :
    ∃ lines, buildAny c udgs = .ok lines ∧ lines.length = c.height ∧
      ∀ y, y < c.height → ∃ body, lines[y]? = some (0 :: body) ∧
        body.length = (c.width * c.bitDepth + 7) / 8 ∧
        ∀ x, x < c.width →
          unpackPixel c.bitDepth body x = srcIndex c udgs ((c.x0 + x) / c.scale) ((c.y0 + y) / c.scale) := by
  have hsome : ∀ row ∈ visited c udgs, ∀ u ∈ row, (c.attrs u.attr).isSome := by
    intro row hrow u hu
    obtain ⟨p, i, h, -, -⟩ := hattr row hrow u hu
    simp [h]
  refine ⟨_, buildAny_lines c udgs hs hh hfity hsome, by simp, ?_⟩
  intro y hy
  have hcov := visited_covers c udgs hs hfity hh
  have hinc : 0 < 8 * c.scale := by omega
  have hR0 : c.y0 / (8 * c.scale) ≤ (c.y0 + y) / (8 * c.scale) := Nat.div_le_div_right (by omega)
  have hR1 : (c.y0 + y) / (8 * c.scale) < c.y0 / (8 * c.scale) + (visited c udgs).length := by
    rw [Nat.div_lt_iff_lt_mul hinc, Nat.mul_comm]; omega
  have hj : (c.y0 + y) / (8 * c.scale) - c.y0 / (8 * c.scale) < (visited c udgs).length := by omega
  have hRlen : (c.y0 + y) / (8 * c.scale) < udgs.length := by
    have := visited_length c udgs; omega
  have hRR : (c.y0 + y) / c.scale / 8 = (c.y0 + y) / (8 * c.scale) := by
    rw [Nat.div_div_eq_div_mul, Nat.mul_comm]
  have hrowmem : udgs.getD ((c.y0 + y) / (8 * c.scale)) [] ∈ udgs := getD_mem_or_default _ _ _ hRlen
  generalize hrow : udgs.getD ((c.y0 + y) / (8 * c.scale)) [] = row at hrowmem
  have hvis : (visited c udgs).getD ((c.y0 + y) / (8 * c.scale) - c.y0 / (8 * c.scale)) [] = sliceRow c row := by
    rw [visited_getD c udgs _ hj, show c.y0 / (8 * c.scale) + ((c.y0 + y) / (8 * c.scale) - c.y0 / (8 * c.scale))
      = (c.y0 + y) / (8 * c.scale) by omega, hrow]
  have hvmem : sliceRow c row ∈ visited c udgs := by
    have := visited_mem c udgs _ hj
    rwa [show c.y0 / (8 * c.scale) + ((c.y0 + y) / (8 * c.scale) - c.y0 / (8 * c.scale))
      = (c.y0 + y) / (8 * c.scale) by omega, hrow] at this
  have hswf : ∀ u ∈ sliceRow c row, WfUdg u := fun u hu =>
    hwf row hrowmem u (List.mem_of_mem_drop (List.mem_of_mem_take hu))
  obtain ⟨hc1, hc2⟩ : c.x0 % (8 * c.scale) + c.width
        ≤ (rowPixels c (sliceRow c row) ((c.y0 + y) / c.scale % 8)).length ∧
      ∀ x, x < c.width → (cropRow c (rowPixels c (sliceRow c row) ((c.y0 + y) / c.scale % 8))).getD x 0
        = rowSrc c row ((c.y0 + y) / c.scale % 8) ((c.x0 + x) / c.scale) :=
    crop_sliced c row ((c.y0 + y) / c.scale % 8) hs (hwf row hrowmem)
      (by rw [hrowlen row hrowmem, Nat.mul_comm]; exact hfitx)
  refine ⟨packLine c (rowPixels c (sliceRow c row) ((c.y0 + y) / c.scale % 8)), ?_, ?_, ?_⟩
  · rw [List.getElem?_map, List.getElem?_range' (by omega)]
    simp only [Option.map_some, Nat.one_mul, lineAt, hvis, lineOf]
  · exact packLine_length c _ hbd hc1
  · intro x hx
    rw [packLine_pixel c _ hbd hc1 (rowPixels_lt c _ _ hswf (hattr _ hvmem)) x hx, hc2 x hx]
    simp only [srcIndex, hRR, hrow]

end PngScan
