import SkoolVerif.Proofs.ZinstrOf
import SkoolVerif.Spec.AluCheck
/-!
Kernel-checked: every one of the 7 × 256 dispatch-table slots of `simulator.py` holds the closure
call (closure, tables, register slots, length, T-states, R increment) that the independent decoder
of `Spec/Z80Decode.lean` + the documented lengths/timings of `Spec/Z80Isa.lean` demand for that
opcode, up to the semantic equivalence classes of `C05.canon`.
-/
namespace C05
open AluCheck

theorem slots_MAIN : allLt 256 (slotOk .MAIN) = true := by decide +kernel
theorem slots_CB : allLt 256 (slotOk .CB) = true := by decide +kernel
theorem slots_ED : allLt 256 (slotOk .ED) = true := by decide +kernel
theorem slots_DD : allLt 256 (slotOk .DD) = true := by decide +kernel
theorem slots_FD : allLt 256 (slotOk .FD) = true := by decide +kernel
theorem slots_DDCB : allLt 256 (slotOk .DDCB) = true := by decide +kernel
theorem slots_FDCB : allLt 256 (slotOk .FDCB) = true := by decide +kernel

theorem slot_ok (t : Sim.OpTbl) (op : Nat) (h : op < 256) : slotOk t op = true := by
  cases t
  · exact allLt_spec slots_MAIN op h
  · exact allLt_spec slots_CB op h
  · exact allLt_spec slots_ED op h
  · exact allLt_spec slots_DD op h
  · exact allLt_spec slots_FD op h
  · exact allLt_spec slots_DDCB op h
  · exact allLt_spec slots_FDCB op h

end C05
