import SkoolVerif.Proofs.PathAlgLemmas
import SkoolVerif.Model.HtmlSite
/-! Helper lemmas for the abstract HTML site (C16). -/

namespace PathAlg
variable {α : Type}

/-! ### `dirname` of relative paths -/

theorem stripTrailingEmpty_cons (x : Seg α) (t : List (Seg α)) :
    stripTrailingEmpty (x :: t) =
      if stripTrailingEmpty t = [] ∧ x.isEmpty = true then [] else x :: stripTrailingEmpty t := by
  unfold stripTrailingEmpty
  rw [List.reverse_cons, List.dropWhile_append]
  by_cases h : (List.dropWhile Seg.isEmpty t.reverse).isEmpty = true
  · have h' : List.dropWhile Seg.isEmpty t.reverse = [] := by simpa using h
    simp only [h', List.reverse_nil, true_and]
    simp only [List.isEmpty_nil, if_true]
    cases hx : x.isEmpty <;> simp [List.dropWhile, hx]
  · have h' : List.dropWhile Seg.isEmpty t.reverse ≠ [] := by simpa using h
    simp [h, h']

theorem isRel_of_head {x : Seg α} {t : List (Seg α)} (hx : x.isEmpty = false) : IsRel (x :: t) := by
  refine ⟨by simp, ?_⟩
  rw [isAbs_false_iff]
  cases t with
  | nil => simp
  | cons y ys => simp [hx]

theorem isRel_dirname (p : Path α) (hp : IsRel p) : IsRel (dirname p) := by
  have h2 := (isAbs_false_iff p).mp hp.2
  unfold dirname
  simp only
  split
  · next hall =>
    -- every component of the head is '' and there is no leading '': the head is empty
    have : p.dropLast = [] := by
      cases hd : p.dropLast with
      | nil => rfl
      | cons x t =>
        rw [hd] at h2 hall
        simp only [List.all_cons, Bool.and_eq_true] at hall
        simp [List.takeWhile, hall.1] at h2
    rw [this]
    exact ⟨by simp, by simp [isAbs, leadSlashes]⟩
  · next hall =>
    cases hd : p.dropLast with
    | nil => rw [hd] at hall; simp at hall
    | cons x t =>
      rw [hd] at h2
      have hx : x.isEmpty = false := by
        cases hx : x.isEmpty
        · rfl
        · simp [List.takeWhile, hx] at h2
      rw [stripTrailingEmpty_cons, if_neg (by simp [hx])]
      exact isRel_of_head hx

theorem absComps_stripTrailingEmpty (base : List α) (d : List (Seg α)) :
    absComps base (stripTrailingEmpty d) = absComps base d := by
  simp [absComps, normComps, List.foldl_append, foldl_stripTrailingEmpty]

theorem absComps_all_empty (base : List α) (d : List (Seg α)) (h : ∀ s ∈ d, s.isEmpty = true) :
    absComps base d = base.map Seg.name := by
  simp [absComps, normComps, List.foldl_append, foldl_all_empty true d h,
    foldl_names true _ (allNames_map_name base)]

/-- `join([d, [name f]])`: the file `f` in directory `d`. -/
theorem join_dir_file (d : Path α) (f : α) :
    join [d, [Seg.name f]] = if d.any (fun s => !s.isEmpty) then d ++ [Seg.name f] else [Seg.name f] := by
  unfold join
  have h2 : ([Seg.name f] : Path α).any (fun s => !s.isEmpty) = true := rfl
  by_cases h : d.any (fun s => !s.isEmpty) = true
  · simp only [List.filter_cons, h, h2, if_true, List.filter_nil]
    simp
  · simp only [List.filter_cons, h, h2, if_true, List.filter_nil]
    simp

theorem normpath_single_name (f : α) : normpath [Seg.name f] = [Seg.name f] := by
  simp [normpath, initialSlashes, leadSlashes, normComps, normStep]

/-- A file in a relative directory: the path is relative, and its directory
normalises like the directory it was joined from. -/
theorem dir_file_props (base : List α) (d : Path α) (hd : IsRel d) (f : α) :
    IsRel (join [d, [Seg.name f]]) ∧ isEmptyStr (join [d, [Seg.name f]]) = false ∧
      absComps base (dirname (join [d, [Seg.name f]])) = absComps base d ∧
      absComps base (join [d, [Seg.name f]]) = absComps base d ++ [Seg.name f] := by
  rw [join_dir_file]
  have h2 := (isAbs_false_iff d).mp hd.2
  by_cases h : d.any (fun s => !s.isEmpty) = true
  · simp only [h, if_true]
    -- the first component of d is not ''
    obtain ⟨x, t, rfl⟩ : ∃ x t, d = x :: t := by
      cases d with
      | nil => exact absurd rfl hd.1
      | cons x t => exact ⟨x, t, rfl⟩
    have hx : x.isEmpty = false := by
      cases t with
      | nil => simpa using h
      | cons y ys =>
        cases hx : x.isEmpty
        · rfl
        · simp [hx] at h2
    refine ⟨isRel_of_head hx, ?_, ?_, ?_⟩
    · cases t <;> cases x <;> simp_all [isEmptyStr, Seg.isEmpty]
    · unfold dirname
      have hnall : ((x :: t) ++ [Seg.name f]).dropLast.all Seg.isEmpty = false := by
        rw [List.dropLast_concat]; simp [hx]
      simp only [hnall]
      rw [List.dropLast_concat]
      simp only [Bool.false_eq_true, if_false]
      exact absComps_stripTrailingEmpty base (x :: t)
    · rw [absComps_append]
      simp [normStep]
  · simp only [h, if_false, Bool.false_eq_true]
    have hall : ∀ s ∈ d, s.isEmpty = true := by
      intro s hs
      have := h
      simp only [List.any_eq_true, not_exists, not_and, Bool.not_eq_true] at this
      have := this s hs
      simpa using this
    refine ⟨isRel_of_head rfl, rfl, ?_, ?_⟩
    · simp only [dirname, List.dropLast_singleton, List.all_nil, if_true, List.nil_append]
      rw [absComps_all_empty base d hall]
      exact absComps_all_empty base [Seg.empty] (by simp [Seg.isEmpty])
    · rw [absComps_all_empty base d hall]
      simp [absComps, normComps, List.foldl_append, normStep, foldl_names true _ (allNames_map_name base)]

variable [DecidableEq α]

/-- **The link from a page to a file resolves**, whatever spelling the page's
directory `cwd` has, as long as it denotes the page's real directory. -/
theorem link_resolves_core (base : List α) (pp cwd tp : Path α) (hpp : IsRel pp) (hcwd : IsRel cwd)
    (hdir : absComps base cwd = absComps base (dirname pp)) (htp : IsRel tp)
    (hne : isEmptyStr tp = false) :
    ∃ r, relpath base tp cwd = .ok r ∧ isEmptyStr r = false ∧
      absComps base (posixJoin (dirname pp) r) = absComps base tp := by
  refine ⟨_, relpath_rel base tp cwd hcwd htp hne, ?_, ?_⟩
  · have hne' := noEmpty_relOut (absComps base cwd) (absComps base tp) (absComps_allNames base tp)
    have hnn := relOut_ne_nil (absComps base cwd) (absComps base tp)
    cases hr : relOut (absComps base cwd) (absComps base tp) with
    | nil => exact absurd hr hnn
    | cons x t =>
      rw [hr] at hne'
      have := hne' x (List.mem_cons_self)
      cases t <;> cases x <;> simp_all [isEmptyStr, Seg.isEmpty]
  · rw [hdir]
    obtain ⟨s', hj, _, hfold⟩ :=
      posixJoin_rel (dirname pp) (relOut (absComps base (dirname pp)) (absComps base tp))
        (isRel_dirname pp hpp) (relOut_ne_nil _ _) (noEmpty_relOut _ _ (absComps_allNames base tp))
    rw [hj]
    exact absComps_join_relOut base s' (dirname pp) tp hfold

end PathAlg

set_option linter.unusedSectionVars false

namespace HtmlSite
open PathAlg
variable {ι α β : Type} [DecidableEq ι] [DecidableEq α]

/-! ### Well-formed sites -/

/-- What the generator of the end-to-end check guarantees and the theorems assume. -/
structure WF (s : Site ι α β) : Prop where
  /-- `[Paths]` values are relative, file paths are not the empty string -/
  relCode : ∀ c ∈ s.codes, IsRel c.codePath
  relSingle : ∀ c ∈ s.codes, IsRel c.singlePath ∧ isEmptyStr c.singlePath = false
  relMap : ∀ c ∈ s.codes, IsRel c.mapPath ∧ isEmptyStr c.mapPath = false
  /-- the main writer's code id is 'main'; ids differ even ignoring case -/
  mainId : s.main.id = s.mainId
  idsDistinct : s.codes.Pairwise (fun a b => s.lower a.id ≠ s.lower b.id)
  /-- the address of an entry is the address of its first instruction; no two instructions share an address -/
  entryHead : ∀ c ∈ s.codes, ∀ e ∈ c.entries, e.addr ∈ e.addrs
  instrsNodup : ∀ c ∈ s.codes, (c.entries.flatMap Entry.addrs).Nodup
  /-- `@remote` directives tell the truth about the other disassembly -/
  remotesTrue : ∀ c ∈ s.codes, ∀ r ∈ c.remotes, ∃ d ∈ s.codes, d.id = r.asmId ∧
      ∃ e ∈ d.mm, e.addr = r.addr ∧ ∀ a ∈ r.addrs, a ∈ e.addrs
  relMaps : ∀ c ∈ s.codes, ∀ m ∈ c.maps, IsRel m.path
  /-- the page the 'Up' links point at is written and lists every entry -/
  upMap : ∀ c ∈ s.codes, ∃ m ∈ c.maps, m.path = c.mapPath ∧ shouldWrite c m = true ∧
      ∀ e ∈ c.mm, inMap m e = true

theorem wf_of_check (s : Site ι α β) (h : wfCheck s = true) : WF s := by
  simp only [wfCheck, Bool.and_eq_true, decide_eq_true_eq] at h
  obtain ⟨⟨⟨⟨⟨⟨⟨⟨⟨h1, h2⟩, h3⟩, h4⟩, h5⟩, h6⟩, h7⟩, h8⟩, h9⟩, h10⟩ := h
  exact ⟨h1, h2, h3, h4, h5, h6, h7, h8, h9, h10⟩

/-- The link directory `cwd` of page `pp` denotes the page's real directory. -/
def Good (s : Site ι α β) (pp cwd : Path α) : Prop :=
  IsRel pp ∧ IsRel cwd ∧ absComps s.base cwd = absComps s.base (dirname pp)

/-- The reference `h` found in page `pp` names a written file that defines its fragment. -/
def Resolves (s : Site ι α β) (pp : Path α) (h : Href α β) : Prop :=
  ∃ pg ∈ pages s, absComps s.base (targetOf pp h) = absComps s.base pg.path ∧
    ∀ b, h.frag = some (.fmt b) → b ∈ pg.anchors

/-! ### Generic list lemmas -/

theorem find?_unique {X : Type} (l : List X) (p : X → Bool) (d : X) (hd : d ∈ l) (hp : p d = true)
    (huniq : ∀ x ∈ l, p x = true → x = d) : l.find? p = some d := by
  induction l with
  | nil => cases hd
  | cons x xs ih =>
    by_cases hx : p x = true
    · have := huniq x (List.mem_cons_self) hx
      subst this
      simp [List.find?, hx]
    · have hne : d ≠ x := fun e => hx (e ▸ hp)
      have hd' : d ∈ xs := by
        cases hd with
        | head => exact absurd rfl hne
        | tail _ h => exact h
      simp only [List.find?, hx]
      exact ih hd' (fun y hy => huniq y (List.mem_cons_of_mem _ hy))

theorem pairwise_unique {X Y : Type} (l : List X) (f : X → Y)
    (h : l.Pairwise (fun a b => f a ≠ f b)) (x d : X) (hx : x ∈ l) (hd : d ∈ l) (e : f x = f d) : x = d := by
  induction h with
  | nil => cases hx
  | cons hhead _ ih =>
    cases hx with
    | head =>
      cases hd with
      | head => rfl
      | tail _ hd => exact absurd e (hhead d hd)
    | tail _ hx =>
      cases hd with
      | head => exact absurd e.symm (hhead x hx)
      | tail _ hd => exact ih hx hd

theorem entry_unique (es : List Entry) (h : (es.flatMap Entry.addrs).Nodup) (e₁ e₂ : Entry)
    (h₁ : e₁ ∈ es) (h₂ : e₂ ∈ es) (a : Nat) (ha₁ : a ∈ e₁.addrs) (ha₂ : a ∈ e₂.addrs) : e₁ = e₂ := by
  induction es with
  | nil => cases h₁
  | cons e es ih =>
    rw [List.flatMap_cons, List.nodup_append] at h
    obtain ⟨_, htail, hdis⟩ := h
    have inTail : ∀ e' ∈ es, a ∈ e'.addrs → a ∈ es.flatMap Entry.addrs :=
      fun e' he' ha => List.mem_flatMap.mpr ⟨e', he', ha⟩
    cases h₁ with
    | head =>
      cases h₂ with
      | head => rfl
      | tail _ h₂ => exact absurd rfl (hdis a ha₁ a (inTail _ h₂ ha₂))
    | tail _ h₁ =>
      cases h₂ with
      | head => exact absurd rfl (hdis a ha₂ a (inTail _ h₁ ha₁))
      | tail _ h₂ => exact ih htail h₁ h₂

/-! ### Look-ups on a well-formed site -/

theorem mem_mm {c : Code ι α} {e : Entry} : e ∈ c.mm ↔ e ∈ c.entries ∧ e.ctl ≠ ctlI := by
  simp [Code.mm]

theorem main_mem (s : Site ι α β) : s.main ∈ s.codes := List.mem_cons_self

theorem asmFname_eq (s : Site ι α β) (a : Nat) : asmFname s a = [Seg.name (s.fileOf a)] := by
  unfold asmFname
  rw [join_dir_file]
  simp [Seg.isEmpty, normpath_single_name]

theorem codes_unique {s : Site ι α β} (hwf : WF s) (x d : Code ι α) (hx : x ∈ s.codes) (hd : d ∈ s.codes)
    (e : s.lower x.id = s.lower d.id) : x = d :=
  pairwise_unique s.codes (fun c => s.lower c.id) hwf.idsDistinct x d hx hd e

/-- `get_code_path` finds the disassembly whatever the case of the id. -/
theorem codePathOf_eq {s : Site ι α β} (hwf : WF s) (d : Code ι α) (hd : d ∈ s.codes) (i : ι)
    (hi : s.lower i = s.lower d.id) : codePathOf s i = .ok d.codePath := by
  unfold codePathOf
  by_cases hm : s.lower i = s.lower s.mainId
  · have : s.main = d := codes_unique hwf s.main d (main_mem s) hd (by rw [hwf.mainId, ← hm, hi])
    simp [hm, this]
  · have hdo : d ∈ s.others := by
      cases hd with
      | head => exact absurd (hwf.mainId ▸ hi) hm
      | tail _ h => exact h
    have hfind : s.others.find? (fun c => decide (s.lower c.id = s.lower i)) = some d := by
      apply find?_unique _ _ d hdo (by simp [hi])
      intro x hx hpx
      exact codes_unique hwf x d (List.mem_cons_of_mem _ hx) hd (by simpa [hi] using hpx)
    simp [hm, hfind]

/-- In single-page mode the page id is built from the id as typed. -/
theorem singlePathOf_eq {s : Site ι α β} (hwf : WF s) (d : Code ι α) (hd : d ∈ s.codes) :
    singlePathOf s d.id = .ok d.singlePath := by
  unfold singlePathOf
  by_cases hm : d.id = s.mainId
  · have : s.main = d := codes_unique hwf s.main d (main_mem s) hd (by rw [hwf.mainId, hm])
    simp [hm, this]
  · have hdo : d ∈ s.others := by
      cases hd with
      | head => exact absurd hwf.mainId hm
      | tail _ h => exact h
    have hfind : s.others.find? (fun c => decide (c.id = d.id)) = some d := by
      apply find?_unique _ _ d hdo (by simp)
      intro x hx hpx
      exact codes_unique hwf x d (List.mem_cons_of_mem _ hx) hd (by simp at hpx; rw [hpx])
    simp [hm, hfind]

theorem localContainer_eq {s : Site ι α β} (hwf : WF s) (c : Code ι α) (hc : c ∈ s.codes) (e : Entry)
    (he : e ∈ c.entries) (a : Nat) (ha : a ∈ e.addrs) : localContainer c a = some e := by
  unfold localContainer
  apply find?_unique _ _ e he (by simpa using ha)
  intro x hx hpx
  exact entry_unique c.entries (hwf.instrsNodup c hc) x e hx he a (by simpa using hpx) ha

theorem lastLocal_eq {s : Site ι α β} (hwf : WF s) (c : Code ι α) (hc : c ∈ s.codes) (e : Entry)
    (he : e ∈ c.entries) (a : Nat) (ha : a ∈ e.addrs) :
    c.entries.reverse.find? (fun e => e.addrs.contains a) = some e := by
  apply find?_unique _ _ e (List.mem_reverse.mpr he) (by simpa using ha)
  intro x hx hpx
  exact entry_unique c.entries (hwf.instrsNodup c hc) x e (List.mem_reverse.mp hx) he a (by simpa using hpx) ha

/-! ### The pages that are written -/

theorem codePages_mem (s : Site ι α β) (c : Code ι α) (hc : c ∈ s.codes) (pg : Page α β)
    (h : pg ∈ codePages s c) : pg ∈ pages s :=
  List.mem_flatMap.mpr ⟨c, hc, h⟩

/-- Multi-page mode: the page of every non-ignored entry is written and defines the anchor of
each of its instructions. -/
theorem entry_page_mem (s : Site ι α β) (hs : s.single = false) (c : Code ι α) (hc : c ∈ s.codes)
    (e : Entry) (he : e ∈ c.mm) :
    (⟨entryPath s c.codePath e.addr, e.addrs.map s.anchorOf⟩ : Page α β) ∈ pages s := by
  apply codePages_mem s c hc
  unfold codePages asmPages
  simp only [hs, Bool.false_eq_true, if_false]
  exact List.mem_append_left _ (List.mem_map.mpr ⟨e, he, rfl⟩)

/-- Single-page mode: the page is written and defines the anchor of every instruction of every
non-ignored entry. -/
theorem single_page_mem (s : Site ι α β) (hs : s.single = true) (c : Code ι α) (hc : c ∈ s.codes) :
    ∃ pg ∈ pages s, pg.path = c.singlePath ∧
      ∀ e ∈ c.mm, ∀ a ∈ e.addrs, s.anchorOf a ∈ pg.anchors := by
  refine ⟨⟨c.singlePath, c.mm.flatMap (fun e => s.anchorOf e.addr :: e.addrs.map s.anchorOf)⟩, ?_, rfl, ?_⟩
  · apply codePages_mem s c hc
    unfold codePages asmPages
    simp [hs]
  · intro e he a ha
    exact List.mem_flatMap.mpr ⟨e, he, List.mem_cons_of_mem _ (List.mem_map.mpr ⟨a, ha, rfl⟩)⟩

/-- The 'Up' map page is written and has an anchor for every non-ignored entry. -/
theorem up_map_mem {s : Site ι α β} (hwf : WF s) (c : Code ι α) (hc : c ∈ s.codes) :
    ∃ pg ∈ pages s, pg.path = c.mapPath ∧ ∀ e ∈ c.mm, s.anchorOf e.addr ∈ pg.anchors := by
  obtain ⟨m, hm, hpath, hw, hall⟩ := hwf.upMap c hc
  refine ⟨⟨m.path, (c.mm.filter (inMap m)).map (fun e => s.anchorOf e.addr)⟩, ?_, hpath, ?_⟩
  · apply codePages_mem s c hc
    unfold codePages mapPages
    exact List.mem_append_right _ (List.mem_map.mpr ⟨m, List.mem_filter.mpr ⟨hm, hw⟩, rfl⟩)
  · intro e he
    exact List.mem_map.mpr ⟨e, List.mem_filter.mpr ⟨he, hall e he⟩, rfl⟩


/-! ### Links to disassembly pages -/

theorem entryPath_props {s : Site ι α β} (hwf : WF s) (d : Code ι α) (hd : d ∈ s.codes) (a : Nat) :
    IsRel (entryPath s d.codePath a) ∧ isEmptyStr (entryPath s d.codePath a) = false ∧
      absComps s.base (dirname (entryPath s d.codePath a)) = absComps s.base d.codePath := by
  unfold entryPath
  rw [asmFname_eq]
  have := dir_file_props s.base d.codePath (hwf.relCode d hd) (s.fileOf a)
  exact ⟨this.1, this.2.1, this.2.2.1⟩

/-- `rel` on a good page/cwd pair: the reference is not a same-page reference and resolves. -/
theorem rel_resolves (s : Site ι α β) (pp cwd tp : Path α) (hg : Good s pp cwd) (htp : IsRel tp)
    (hne : isEmptyStr tp = false) :
    ∃ r, rel s cwd tp = .ok r ∧ ∀ fr : Option (Frag β),
      absComps s.base (targetOf pp ⟨r, fr⟩) = absComps s.base tp := by
  obtain ⟨r, hr, hre, habs⟩ := link_resolves_core s.base pp cwd tp hg.1 hg.2.1 hg.2.2 htp hne
  refine ⟨r, by simp [rel, hr], fun fr => ?_⟩
  simp [targetOf, hre, habs]

/-- Multi-page mode: `_asm_relpath(cwd, entry address, code id)` names the page of the entry;
any of the entry's instruction anchors may be appended. -/
theorem asm_link_multi {s : Site ι α β} (hwf : WF s) (hs : s.single = false)
    (c d : Code ι α) (hd : d ∈ s.codes) (e : Entry) (he : e ∈ d.mm)
    (cid : Option ι) (hcid : s.lower (cid.getD c.id) = s.lower d.id)
    (pp cwd : Path α) (hg : Good s pp cwd) :
    ∃ h, asmRelpath s c cwd e.addr cid = .ok h ∧ h.frag = none ∧
      ∀ fr : Option (Frag β), (∀ b, fr = some (.fmt b) → ∃ a ∈ e.addrs, b = s.anchorOf a) →
        Resolves s pp ⟨h.path, fr⟩ := by
  obtain ⟨hrel, hne, hdir⟩ := entryPath_props hwf d hd e.addr
  obtain ⟨r, hr, hres⟩ := rel_resolves (β := β) s pp cwd _ hg hrel hne
  refine ⟨⟨r, none⟩, ?_, rfl, ?_⟩
  · unfold asmRelpath
    simp [hs, codePathOf_eq hwf d hd _ hcid, hr]
  · intro fr hfr
    refine ⟨_, entry_page_mem s hs d hd e he, hres fr, ?_⟩
    intro b hb
    obtain ⟨a, ha, rfl⟩ := hfr b hb
    exact List.mem_map.mpr ⟨a, ha, rfl⟩

/-- Single-page mode: `_asm_relpath(cwd, address, code id)` names the single page of the
disassembly, with the anchor of the address. -/
theorem asm_link_single {s : Site ι α β} (hwf : WF s) (hs : s.single = true)
    (c d : Code ι α) (hd : d ∈ s.codes) (e : Entry) (he : e ∈ d.mm) (a : Nat) (ha : a ∈ e.addrs)
    (cid : Option ι) (hcid : cid.getD c.id = d.id)
    (pp cwd : Path α) (hg : Good s pp cwd) :
    ∃ h, asmRelpath s c cwd a cid = .ok h ∧ Resolves s pp h := by
  obtain ⟨hrel, hne⟩ := hwf.relSingle d hd
  obtain ⟨r, hr, hres⟩ := rel_resolves (β := β) s pp cwd _ hg hrel hne
  obtain ⟨pg, hpg, hpath, hanch⟩ := single_page_mem s hs d hd
  refine ⟨⟨r, some (.fmt (s.anchorOf a))⟩, ?_, pg, hpg, ?_, ?_⟩
  · unfold asmRelpath
    simp [hs, hcid, singlePathOf_eq hwf d hd, hr]
  · rw [hpath]; exact hres _
  · intro b hb
    simp only [Option.some.injEq, Frag.fmt.injEq] at hb
    subst hb
    exact hanch e he a ha

/-- The working directory used for the links of an asm page denotes the page's directory. -/
theorem good_asm_multi {s : Site ι α β} (hwf : WF s) (c : Code ι α) (hc : c ∈ s.codes) (a : Nat) :
    Good s (entryPath s c.codePath a) c.codePath := by
  obtain ⟨h1, _, h3⟩ := entryPath_props hwf c hc a
  exact ⟨h1, hwf.relCode c hc, h3.symm⟩

theorem good_dirname (s : Site ι α β) (pp : Path α) (h : IsRel pp) : Good s pp (dirname pp) :=
  ⟨h, isRel_dirname pp h, rfl⟩


/-! ### Anchors and paths -/

theorem nodup_flatMap_filter (es : List Entry) (p : Entry → Bool)
    (h : (es.flatMap Entry.addrs).Nodup) : ((es.filter p).flatMap Entry.addrs).Nodup := by
  induction es with
  | nil => simp
  | cons e es ih =>
    rw [List.flatMap_cons, List.nodup_append] at h
    obtain ⟨h1, h2, h3⟩ := h
    by_cases hp : p e = true
    · rw [List.filter_cons_of_pos hp, List.flatMap_cons, List.nodup_append]
      refine ⟨h1, ih h2, ?_⟩
      intro a ha b hb
      apply h3 a ha b
      obtain ⟨e', he', hb'⟩ := List.mem_flatMap.mp hb
      exact List.mem_flatMap.mpr ⟨e', (List.mem_filter.mp he').1, hb'⟩
    · rw [List.filter_cons_of_neg hp]
      exact ih h2

theorem entries_addr_pairwise (es : List Entry) (hh : ∀ e ∈ es, e.addr ∈ e.addrs)
    (h : (es.flatMap Entry.addrs).Nodup) : es.Pairwise (fun a b => a.addr ≠ b.addr) := by
  induction es with
  | nil => exact List.Pairwise.nil
  | cons e es ih =>
    rw [List.flatMap_cons, List.nodup_append] at h
    obtain ⟨_, h2, h3⟩ := h
    refine List.Pairwise.cons ?_ (ih (fun e' he' => hh e' (List.mem_cons_of_mem _ he')) h2)
    intro e' he' heq
    have h1 : e.addr ∈ e.addrs := hh e (List.mem_cons_self)
    have h2' : e'.addr ∈ es.flatMap Entry.addrs :=
      List.mem_flatMap.mpr ⟨e', he', hh e' (List.mem_cons_of_mem _ he')⟩
    exact h3 _ h1 _ h2' heq

/-- Normalised absolute path of an entry page: the code directory followed by the file name. -/
theorem absComps_entryPath {s : Site ι α β} (hwf : WF s) (d : Code ι α) (hd : d ∈ s.codes) (a : Nat) :
    absComps s.base (entryPath s d.codePath a) = absComps s.base d.codePath ++ [Seg.name (s.fileOf a)] := by
  unfold entryPath
  rw [asmFname_eq]
  exact (dir_file_props s.base d.codePath (hwf.relCode d hd) (s.fileOf a)).2.2.2


/-! ### Remote entries and operand references -/

/-- The container `expand_r` finds for an address of another disassembly is the true entry
address, provided the address is an entry address or is declared by a (truthful) `@remote`. -/
theorem remoteContainer_addr {s : Site ι α β} (hwf : WF s) (c d : Code ι α) (hc : c ∈ s.codes)
    (hd : d ∈ s.codes) (i : ι) (hi : s.lower i = s.lower d.id) (e : Entry) (he : e ∈ d.mm)
    (a : Nat) (ha : a ∈ e.addrs)
    (hdecl : a = e.addr ∨ ∃ r ∈ c.remotes, s.lower r.asmId = s.lower i ∧ a ∈ r.addrs) :
    ((remoteContainer s c a i).map (·.addr)).getD a = e.addr := by
  cases h : remoteContainer s c a i with
  | none =>
    rcases hdecl with rfl | ⟨r, hr, hri, hra⟩
    · rfl
    · unfold remoteContainer at h
      have := List.find?_eq_none.mp h r hr
      simp [hri, hra] at this
  | some r =>
    unfold remoteContainer at h
    have hmem := List.mem_of_find?_eq_some h
    have hp := List.find?_some h
    simp only [Bool.and_eq_true, decide_eq_true_eq, List.contains_eq_mem] at hp
    obtain ⟨d', hd', hid, e', he', haddr, hall⟩ := hwf.remotesTrue c hc r hmem
    have hdd : d' = d := codes_unique hwf d' d hd' hd (by rw [hid, hp.1, hi])
    subst hdd
    have hee : e' = e := entry_unique d'.entries (hwf.instrsNodup d' hd) e' e (mem_mm.mp he').1
      (mem_mm.mp he).1 a (hall a hp.2) ha
    subst hee
    simp [haddr]

/-- What `calculate_references` can return on a well-formed site: a non-ignored entry of this
disassembly, or the true entry of another disassembly. -/
theorem resolveRef_spec {s : Site ι α β} (hwf : WF s) (c : Code ι α) (hc : c ∈ s.codes)
    (op : OpKind) (t : Nat) (ref : Ref ι) (h : resolveRef c op t = some ref) :
    ref.addr = t ∧
      ((ref.asmId = none ∧ ∃ e' ∈ c.mm, e'.addr = ref.entryAddr ∧ t ∈ e'.addrs) ∨
       (∃ i, ref.asmId = some i ∧ ∃ d ∈ s.codes, d.id = i ∧ ∃ e' ∈ d.mm, e'.addr = ref.entryAddr ∧ t ∈ e'.addrs)) := by
  unfold resolveRef at h
  split at h
  · next e' hfind =>
    have hmem := List.mem_reverse.mp (List.mem_of_find?_eq_some hfind)
    have hp := List.find?_some hfind
    simp only [List.contains_eq_mem, decide_eq_true_eq] at hp
    split at h
    · next hcond =>
      simp only [Option.some.injEq] at h
      subst h
      refine ⟨rfl, Or.inl ⟨rfl, e', mem_mm.mpr ⟨hmem, ?_⟩, rfl, hp⟩⟩
      simp only [Bool.and_eq_true, bne_iff_ne, ne_eq] at hcond
      exact hcond.1
    · cases h
  · split at h
    · next r hfind =>
      have hmem := List.mem_reverse.mp (List.mem_of_find?_eq_some hfind)
      have hp := List.find?_some hfind
      simp only [List.contains_eq_mem, decide_eq_true_eq] at hp
      simp only [Option.some.injEq] at h
      subst h
      obtain ⟨d, hd, hid, e', he', haddr, hall⟩ := hwf.remotesTrue c hc r hmem
      exact ⟨rfl, Or.inr ⟨r.asmId, rfl, d, hd, hid, e', he', haddr, hall t hp⟩⟩
    · cases h


/-! ### Error branches -/

theorem codePathOf_err (s : Site ι α β) (i : ι) (e : HrefErr) (h : codePathOf s i = .error e) : e = .noCode := by
  unfold codePathOf at h
  split at h
  · cases h
  · split at h <;> cases h
    rfl

theorem singlePathOf_err (s : Site ι α β) (i : ι) (e : HrefErr) (h : singlePathOf s i = .error e) : e = .keyError := by
  unfold singlePathOf at h
  split at h
  · cases h
  · split at h <;> cases h
    rfl

theorem rel_err (s : Site ι α β) (cwd t : Path α) (e : HrefErr) (h : rel s cwd t = .error e) : e = .relErr := by
  unfold rel at h
  split at h <;> cases h
  rfl

theorem asmRelpath_ne_notFound (s : Site ι α β) (c : Code ι α) (cwd : Path α) (a : Nat) (cid : Option ι) :
    asmRelpath s c cwd a cid ≠ .error .notFound := by
  unfold asmRelpath
  intro h
  simp only at h
  split at h
  · split at h
    · next e he => cases h; cases singlePathOf_err _ _ _ he
    · split at h
      · next e he => cases h; cases rel_err _ _ _ _ he
      · cases h
  · split at h
    · next e he => cases h; cases codePathOf_err _ _ _ he
    · split at h
      · next e he => cases h; cases rel_err _ _ _ _ he
      · cases h

theorem rTail_ne_notFound (s : Site ι α β) (c : Code ι α) (cwd : Path α) (a ca : Nat) (cid : Option ι)
    (frag : Option (Frag β)) :
    (if s.single = true then asmRelpath s c cwd a cid
     else match asmRelpath s c cwd ca cid with
       | .error e => .error e
       | .ok h => .ok ⟨h.path, frag⟩) ≠ .error .notFound := by
  intro h
  split at h
  · exact asmRelpath_ne_notFound _ _ _ _ _ h
  · split at h
    · next e he => cases h; exact asmRelpath_ne_notFound _ _ _ _ _ he
    · cases h

/-! ### Enumerating the structural links -/

theorem withNeighbours_spec (p0 : Option Entry) (l : List Entry) :
    ∀ t ∈ withNeighbours p0 l, t.2.1 ∈ l ∧ (∀ x, t.1 = some x → p0 = some x ∨ x ∈ l) ∧
      (∀ x, t.2.2 = some x → x ∈ l) := by
  induction l generalizing p0 with
  | nil => intro t ht; cases ht
  | cons e rest ih =>
    intro t ht
    simp only [withNeighbours, List.mem_cons] at ht
    rcases ht with rfl | ht
    · refine ⟨List.mem_cons_self, fun x hx => Or.inl hx, fun x hx => ?_⟩
      simp only at hx
      exact List.mem_cons_of_mem _ (List.mem_of_mem_head? hx)
    · obtain ⟨h1, h2, h3⟩ := ih (some e) t ht
      refine ⟨List.mem_cons_of_mem _ h1, fun x hx => ?_, fun x hx => List.mem_cons_of_mem _ (h3 x hx)⟩
      rcases h2 x hx with h | h
      · right; simp only [Option.some.injEq] at h; rw [h]; exact List.mem_cons_self
      · right; exact List.mem_cons_of_mem _ h

theorem operandLinks_spec (s : Site ι α β) (c : Code ι α) (pp cwd : Path α) (e : Entry) (l : Link α β)
    (hl : l ∈ operandLinks s c pp cwd e) :
    l.page = pp ∧ ∃ ia op t, operandHref s c cwd e ia op t = some l.href := by
  unfold operandLinks at hl
  obtain ⟨i, _, hi⟩ := List.mem_filterMap.mp hl
  cases hop : i.operand with
  | none => rw [hop] at hi; cases hi
  | some ot =>
    obtain ⟨op, t⟩ := ot
    rw [hop] at hi
    simp only [Option.map_eq_some_iff] at hi
    obtain ⟨r, hr, rfl⟩ := hi
    exact ⟨rfl, i.addr, op, t, hr⟩

/-! ### A concrete two-disassembly site (used by the `example`s of Props/C16.lean)

Names are numbers: directories 1 = 'asm', 2 = 'maps', 3 = 'other'; files 10 = 'asm.html',
11 = 'all.html', 12 = 'other.html'; the page of the entry at `a` is named `a`, the anchor of `a`
is `a + 100000` (so that anchors and addresses cannot be confused). -/

instance {ε γ : Type} [DecidableEq ε] [DecidableEq γ] : DecidableEq (Except ε γ)
  | .ok a, .ok b => if h : a = b then isTrue (by rw [h]) else isFalse (by intro e; cases e; exact h rfl)
  | .error a, .error b => if h : a = b then isTrue (by rw [h]) else isFalse (by intro e; cases e; exact h rfl)
  | .ok _, .error _ => isFalse (by intro e; cases e)
  | .error _, .ok _ => isFalse (by intro e; cases e)

def demoE1 : Entry := ⟨32768, ctlC, [⟨32768, some (.call, 40003)⟩, ⟨32771, some (.jr, 32768)⟩]⟩
def demoE2 : Entry := ⟨32773, 98, [⟨32773, some (.defw, 40000)⟩]⟩
def demoE3 : Entry := ⟨32775, ctlI, [⟨32775, none⟩]⟩
def demoO1 : Entry := ⟨40000, ctlC, [⟨40000, none⟩, ⟨40003, some (.jp, 32771)⟩]⟩

def demoMain : Code Nat Nat :=
  { id := 0, codePath := [.name 1], singlePath := [.name 10], mapPath := [.name 2, .name 11],
    entries := [demoE1, demoE2, demoE3],
    remotes := [⟨1, 40000, [40000, 40003]⟩],
    labels := [32768],
    maps := [⟨[.name 2, .name 11], [98, 99, 103, 115, 116, 117, 119], [], true, false⟩] }

def demoOther : Code Nat Nat :=
  { id := 1, codePath := [.cur, .name 3, .empty], singlePath := [.name 3, .name 10],
    mapPath := [.name 3, .name 12],
    entries := [demoO1],
    remotes := [⟨0, 32768, [32768, 32771]⟩],
    labels := [],
    maps := [⟨[.name 3, .name 12], [98, 99, 103, 115, 116, 117, 119], [], true, true⟩] }

def demo (single : Bool) : Site Nat Nat Nat :=
  { base := [7, 8], single := single, mainId := 0, lower := id, fileOf := id,
    anchorOf := fun a => a + 100000, linkOps := [.call, .defw, .djnz, .jp, .jr],
    linkInternal := false, lioMin := 0, main := demoMain, others := [demoOther] }

theorem demo_wf (single : Bool) : WF (demo single) := by
  apply wf_of_check
  cases single <;> decide

end HtmlSite
