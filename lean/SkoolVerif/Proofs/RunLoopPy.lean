import SkoolVerif.Gen.PyLoops
import SkoolVerif.Proofs.TraceLoopLemmas
import SkoolVerif.Proofs.SimResume
import SkoolVerif.Proofs.CmioResume
import SkoolVerif.Proofs.RunLoopDefs
/-!
`Simulator.run` / `CMIOSimulator.run` and the two `accept_interrupt` methods (translated by `translate/pyloop2lean.py`:
`Gen/PyLoops.lean`) compute `RunLoop.run`: the `next_int` variable of the Python loop is a function of the clock
(invariant `TraceLoop.Sched`, as for `Tracer.run` in C10), so one pass is `RunLoop.iter` — the stateless test
`T % frame_duration < int_active` of the C loop.
-/
open Z80 TraceLoop

namespace RunLoop
variable {μ : Type} [MemLike μ]

theorem locals_pc_sim (a b c : Int) : (⟨a, b, c⟩ : PyLoop.Sim.RunLocals).pc = a := rfl
theorem locals_pc_cmio (a b c : Int) : (⟨a, b, c⟩ : PyLoop.Cmio.RunLocals).pc = a := rfl

/-- `Simulator.run` initialises `next_int` from the clock: the invariant holds at loop entry -/
theorem sched_run_start (cfg : Cfg) {D : Int} (hf : FrameOk cfg D) (t : Int) :
    Sched cfg (if t < t / cfg.frame_duration * cfg.frame_duration + cfg.int_active then t / cfg.frame_duration * cfg.frame_duration
      else t / cfg.frame_duration * cfg.frame_duration + cfg.frame_duration) t := by
  have hfd : 0 < cfg.frame_duration := by have := hf.fits; have := hf.ia_pos; have := hf.d_nonneg; omega
  have hfit := hf.fits
  have hia := hf.ia_pos
  have hD := hf.d_nonneg
  have h1 := Int.emod_add_mul_ediv t cfg.frame_duration
  have h2 := Int.emod_nonneg t (Int.ne_of_gt hfd)
  have h3 := Int.emod_lt_of_pos t hfd
  have h4 : t / cfg.frame_duration * cfg.frame_duration = cfg.frame_duration * (t / cfg.frame_duration) := Int.mul_comm _ _
  unfold Sched
  split
  · exact ⟨⟨_, rfl⟩, by omega, by omega⟩
  · refine ⟨⟨t / cfg.frame_duration + 1, by rw [Int.add_mul]; omega⟩, by omega, by omega⟩

/-! ### `Simulator` -/

/-- the translated `Simulator.accept_interrupt` is the hand model C10 and C20 reason about -/
theorem py_accept_eq (cfg : Cfg) (p : Int) (s : St μ) :
    PyLoop.Sim.accept_interrupt cfg p s = TraceLoop.acceptInterrupt false s p := by
  simp only [loop_def, TraceLoop.acceptInterrupt, TraceLoop.intBlocked, TraceLoop.intAccepted, Id.run, pure]
  by_cases hb : mget s.mem p = 251 ∨ (mget s.mem p = 221 ∨ mget s.mem p = 253) ∧ p = (s.pc - 1) % 65536
  · simp only [hb, if_true]
  · simp only [hb, if_false]
    split <;> split <;> split <;> simp_all

/-- one pass of the loop with interrupts: `RunLoop.iter`, and `next_int` stays a function of the clock (`Sched`) -/
theorem py_body1 (cfg : Cfg) (hf : FrameOk cfg Tshift.maxDur) (start stop : Option Int) (ints : Bool) (s : St μ)
    (l : PyLoop.Sim.RunLocals) (hl : l.pc = s.pc) (hs : Sched cfg l.next_int s.t) :
    ∃ N', PyLoop.Sim.run_loop1_body cfg start stop ints s l =
        ((iter simM true cfg s, ⟨(iter simM true cfg s).pc, l.frame_start, N'⟩),
          if some (iter simM true cfg s).pc = stop then .break_ else .continue_) ∧
      Sched cfg N' (iter simM true cfg s).t := by
  obtain ⟨⟨q, hq⟩, hlo, hhi⟩ := hs
  have hia := hf.ia_pos
  have hfit := hf.fits
  have hD := hf.d_nonneg
  have hmd : Tshift.maxDur = 23 := rfl
  have ht1 := Sim.tmono_step cfg s
  have ht2 := Sim.dur_step cfg s
  have hstep : Sim.exec cfg (Sim.OpTbl.get .MAIN (mget s.mem l.pc)) s = Sim.step cfg s := by rw [hl]; unfold Sim.step; rfl
  simp only [PyLoop.Sim.run_loop1_body, Id.run, pure, hstep, py_accept_eq]
  unfold iter simM
  simp only [true_and]
  generalize Sim.step cfg s = s1 at ht1 ht2 ⊢
  have hacc := accept_t false s1 s.pc
  rw [hl]
  by_cases h1 : s1.t ≥ l.next_int
  · by_cases h2 : s1.t < l.next_int + cfg.int_active
    · have hm : s1.t % cfg.frame_duration = s1.t - q * cfg.frame_duration :=
        emod_of_window _ q _ (by omega) (by omega)
      have hlt : s1.t % cfg.frame_duration < cfg.int_active := by omega
      by_cases h3 : s1.iff ≠ 0
      · have hc : s1.iff ≠ 0 ∧ s1.t % cfg.frame_duration < cfg.int_active := ⟨h3, hlt⟩
        refine ⟨l.next_int, ?_, ⟨q, hq⟩, by rw [if_pos hc]; omega, by rw [if_pos hc]; omega⟩
        simp only [h1, h2, h3, hlt, if_true, and_self, ne_eq, not_false_eq_true]
        split <;> rfl
      · refine ⟨l.next_int, ?_, ⟨q, hq⟩, by simp only [h3, false_and, if_false]; omega, by simp only [h3, false_and, if_false]; omega⟩
        simp only [h1, h2, h3, hlt, if_true, if_false, false_and]
        split <;> rfl
    · have hm : s1.t % cfg.frame_duration = s1.t - q * cfg.frame_duration :=
        emod_of_window _ q _ (by omega) (by omega)
      have h3' : ¬ (s1.iff ≠ 0 ∧ s1.t % cfg.frame_duration < cfg.int_active) := fun h => by have := h.2; omega
      refine ⟨l.next_int + cfg.frame_duration, ?_, ⟨q + 1, by rw [hq, Int.add_mul]; omega⟩,
        by simp only [h3', if_false]; omega, by simp only [h3', if_false]; omega⟩
      simp only [h1, h2, h3', if_true, if_false]
      split <;> rfl
  · have hm : s1.t % cfg.frame_duration = s1.t - (q - 1) * cfg.frame_duration := by
      apply emod_of_window
      · rw [Int.sub_mul]; omega
      · rw [Int.sub_mul]; omega
    have h3' : ¬ (s1.iff ≠ 0 ∧ s1.t % cfg.frame_duration < cfg.int_active) :=
      fun h => by have := h.2; rw [hm, Int.sub_mul] at this; omega
    refine ⟨l.next_int, ?_, ⟨q, hq⟩, by simp only [h3', if_false]; omega, by simp only [h3', if_false]; omega⟩
    simp only [h1, h3', if_false]
    split <;> rfl

/-- one pass of the loop without interrupts: one instruction -/
theorem py_body2 (cfg : Cfg) (start stop : Option Int) (ints : Bool) (s : St μ) (l : PyLoop.Sim.RunLocals) (hl : l.pc = s.pc) :
    PyLoop.Sim.run_loop2_body cfg start stop ints s l =
      ((iter simM false cfg s, ⟨(iter simM false cfg s).pc, l.frame_start, l.next_int⟩),
        if some (iter simM false cfg s).pc = stop then .break_ else .continue_) := by
  have hstep : Sim.exec cfg (Sim.OpTbl.get .MAIN (mget s.mem l.pc)) s = Sim.step cfg s := by rw [hl]; unfold Sim.step; rfl
  simp only [PyLoop.Sim.run_loop2_body, Id.run, pure, hstep]
  unfold iter simM
  simp only [Bool.false_eq_true, false_and, if_false]
  split <;> rfl

/-- the loops do not look at `start` -/
theorem py_loop1_start (cfg : Cfg) (start start' stop : Option Int) (ints : Bool) :
    PyLoop.Sim.run_loop1 (μ := μ) cfg start stop ints = PyLoop.Sim.run_loop1 cfg start' stop ints := by
  funext fuel s l; unfold PyLoop.Sim.run_loop1; simp only [PyLoop.Sim.run_loop1_body]
theorem py_loop2_start (cfg : Cfg) (start start' stop : Option Int) (ints : Bool) :
    PyLoop.Sim.run_loop2 (μ := μ) cfg start stop ints = PyLoop.Sim.run_loop2 cfg start' stop ints := by
  funext fuel s l; unfold PyLoop.Sim.run_loop2; simp only [PyLoop.Sim.run_loop2_body]

/-- the loop with interrupts is `RunLoop.loop`, and whenever it stops `next_int` is the function `Sched` of the clock -/
theorem py_loop1 (cfg : Cfg) (hf : FrameOk cfg Tshift.maxDur) (start : Option Int) (stop : Int) (ints : Bool) (fuel : Nat)
    (s : St μ) (l : PyLoop.Sim.RunLocals) (hl : l.pc = s.pc) (hs : Sched cfg l.next_int s.t) :
    ∃ l', PyLoop.Sim.run_loop1 cfg start (some stop) ints fuel s l =
      (((loop simM true cfg stop fuel s).1, l'), if (loop simM true cfg stop fuel s).2 = true then .break_ else .continue_) ∧
      Sched cfg l'.next_int (loop simM true cfg stop fuel s).1.t := by
  unfold PyLoop.Sim.run_loop1
  induction fuel generalizing s l with
  | zero => exact ⟨l, by simp only [iterate_zero, loop, Bool.false_eq_true, if_false], hs⟩
  | succ n ih =>
    obtain ⟨N', hb, hs'⟩ := py_body1 cfg hf start (some stop) ints s l hl hs
    simp only [Option.some.injEq] at hb
    by_cases hp : (iter simM true cfg s).pc = stop
    · rw [if_pos hp] at hb
      refine ⟨⟨(iter simM true cfg s).pc, l.frame_start, N'⟩, ?_, ?_⟩
      · rw [iterate_exit _ n (s, l) (by simp only [hb]; exact fun e => nomatch e), hb, loop_stop _ _ _ _ _ _ hp]
        simp only [if_true]
      · rw [loop_stop _ _ _ _ _ _ hp]; exact hs'
    · rw [if_neg hp] at hb
      obtain ⟨l', ih', hs''⟩ := ih (iter simM true cfg s) ⟨(iter simM true cfg s).pc, l.frame_start, N'⟩ (locals_pc_sim _ _ _) hs'
      refine ⟨l', ?_, ?_⟩
      · rw [iterate_continue _ n (s, l) (by simp only [hb]), loop_go _ _ _ _ _ _ hp]
        simp only [hb]
        exact ih'
      · rw [loop_go _ _ _ _ _ _ hp]; exact hs''

/-- the loop without interrupts is `RunLoop.loop` -/
theorem py_loop2 (cfg : Cfg) (start : Option Int) (stop : Int) (ints : Bool) (fuel : Nat)
    (s : St μ) (l : PyLoop.Sim.RunLocals) (hl : l.pc = s.pc) :
    ∃ l', PyLoop.Sim.run_loop2 cfg start (some stop) ints fuel s l =
      (((loop simM false cfg stop fuel s).1, l'), if (loop simM false cfg stop fuel s).2 = true then .break_ else .continue_) := by
  unfold PyLoop.Sim.run_loop2
  induction fuel generalizing s l with
  | zero => exact ⟨l, by simp only [iterate_zero, loop, Bool.false_eq_true, if_false]⟩
  | succ n ih =>
    have hb := py_body2 cfg start (some stop) ints s l hl
    simp only [Option.some.injEq] at hb
    by_cases hp : (iter simM false cfg s).pc = stop
    · rw [if_pos hp] at hb
      refine ⟨⟨(iter simM false cfg s).pc, l.frame_start, l.next_int⟩, ?_⟩
      rw [iterate_exit _ n (s, l) (by simp only [hb]; exact fun e => nomatch e), hb, loop_stop _ _ _ _ _ _ hp]
      simp only [if_true]
    · rw [if_neg hp] at hb
      obtain ⟨l', ih'⟩ := ih (iter simM false cfg s) ⟨(iter simM false cfg s).pc, l.frame_start, l.next_int⟩ (locals_pc_sim _ _ _)
      refine ⟨l', ?_⟩
      rw [iterate_continue _ n (s, l) (by simp only [hb]), loop_go _ _ _ _ _ _ hp]
      simp only [hb]
      exact ih'

/-- **`Simulator.run(start, stop, interrupts)`, translated, is `RunLoop.run`** — for every argument triple, every state, every
fuel; `FrameOk`: an instruction, an interrupt response and the INT pulse fit into one frame (what the `next_int` bookkeeping
silently assumes; both machine configurations satisfy it). -/
theorem py_run (cfg : Cfg) (hf : FrameOk cfg Tshift.maxDur) (fuel : Nat) (start stop : Option Int) (ints : Bool) (s : St μ) :
    PyLoop.Sim.run cfg fuel start stop ints s = run simM cfg fuel start stop ints s := by
  have hfd : 0 < cfg.frame_duration := by have := hf.fits; have := hf.ia_pos; have := hf.d_nonneg; omega
  have key : ∀ s0 : St μ, PyLoop.Sim.run cfg fuel none stop ints s0 = runFrom simM cfg fuel stop ints s0 := by
    intro s0
    cases stop with
    | none =>
      simp only [PyLoop.Sim.run, Id.run, pure, if_true, simM_step, runFrom_none]
      unfold Sim.step; rfl
    | some v =>
      rw [runFrom_some]
      cases ints with
      | true =>
        obtain ⟨l', hl', -⟩ := py_loop1 cfg hf none v true fuel s0
          ⟨s0.pc, s0.t / cfg.frame_duration * cfg.frame_duration,
            if s0.t < s0.t / cfg.frame_duration * cfg.frame_duration + cfg.int_active then s0.t / cfg.frame_duration * cfg.frame_duration
            else s0.t / cfg.frame_duration * cfg.frame_duration + cfg.frame_duration⟩ rfl (sched_run_start cfg hf s0.t)
        simp only [PyLoop.Sim.run, Id.run, pure, reduceCtorEq, if_false, if_true]
        by_cases hw : s0.t < s0.t / cfg.frame_duration * cfg.frame_duration + cfg.int_active
        · simp only [hw, if_true] at hl' ⊢
          rw [hl']
          rcases loop simM true cfg v fuel s0 with ⟨r1, r2⟩
          cases r2 <;> simp
        · simp only [hw, if_false] at hl' ⊢
          rw [hl']
          rcases loop simM true cfg v fuel s0 with ⟨r1, r2⟩
          cases r2 <;> simp
      | false =>
        obtain ⟨l', hl'⟩ := py_loop2 cfg none v false fuel s0 ⟨s0.pc, 0, 0⟩ rfl
        simp only [PyLoop.Sim.run, Id.run, pure, reduceCtorEq, if_false, Bool.false_eq_true]
        rw [hl']
        rcases loop simM false cfg v fuel s0 with ⟨r1, r2⟩
        cases r2 <;> simp
  cases start with
  | none => rw [key s, run_start_none]
  | some v =>
    have e : PyLoop.Sim.run cfg fuel (some v) stop ints s = PyLoop.Sim.run cfg fuel none stop ints { s with pc := v } := by
      simp only [PyLoop.Sim.run, Id.run, pure, py_loop1_start cfg (some v) none, py_loop2_start cfg (some v) none]
    rw [e, key, run_start_some]

/-! ### `CMIOSimulator` (the same proofs over the contended closures) -/

/-- the translated `CMIOSimulator.accept_interrupt` (`super()` call + MEMPTR) is the hand model with `cmio = true` -/
theorem py_cmio_accept_eq (cfg : Cfg) (p : Int) (s : St μ) :
    PyLoop.Cmio.accept_interrupt cfg p s = TraceLoop.acceptInterrupt true s p := by
  simp only [PyLoop.Cmio.accept_interrupt, py_accept_eq, Id.run, pure]
  simp only [TraceLoop.acceptInterrupt, TraceLoop.intBlocked, TraceLoop.intAccepted]
  by_cases hb : mget s.mem p = 251 ∨ (mget s.mem p = 221 ∨ mget s.mem p = 253) ∧ p = (s.pc - 1) % 65536
  · simp [hb]
  · simp [hb]

/-- one pass of the loop with interrupts: `RunLoop.iter`, and `next_int` stays a function of the clock (`Sched`) -/
theorem py_cmio_body1 (cfg : Cfg) (hf : FrameOk cfg Tshift.maxDurCmio) (start stop : Option Int) (ints : Bool) (s : St μ)
    (l : PyLoop.Cmio.RunLocals) (hl : l.pc = s.pc) (hs : Sched cfg l.next_int s.t) :
    ∃ N', PyLoop.Cmio.run_loop1_body cfg start stop ints s l =
        ((iter cmioM true cfg s, ⟨(iter cmioM true cfg s).pc, l.frame_start, N'⟩),
          if some (iter cmioM true cfg s).pc = stop then .break_ else .continue_) ∧
      Sched cfg N' (iter cmioM true cfg s).t := by
  obtain ⟨⟨q, hq⟩, hlo, hhi⟩ := hs
  have hia := hf.ia_pos
  have hfit := hf.fits
  have hD := hf.d_nonneg
  have hmd : Tshift.maxDurCmio = 143 := rfl
  have ht1 := Cmio.tmono_step cfg s
  have ht2 := Cmio.dur_step cfg s
  have hstep : Cmio.exec cfg (Cmio.OpTbl.get .MAIN (mget s.mem l.pc)) s = Cmio.step cfg s := by rw [hl]; unfold Cmio.step; rfl
  simp only [PyLoop.Cmio.run_loop1_body, Id.run, pure, hstep, py_cmio_accept_eq]
  unfold iter cmioM
  simp only [true_and]
  generalize Cmio.step cfg s = s1 at ht1 ht2 ⊢
  have hacc := accept_t true s1 s.pc
  rw [hl]
  by_cases h1 : s1.t ≥ l.next_int
  · by_cases h2 : s1.t < l.next_int + cfg.int_active
    · have hm : s1.t % cfg.frame_duration = s1.t - q * cfg.frame_duration :=
        emod_of_window _ q _ (by omega) (by omega)
      have hlt : s1.t % cfg.frame_duration < cfg.int_active := by omega
      by_cases h3 : s1.iff ≠ 0
      · have hc : s1.iff ≠ 0 ∧ s1.t % cfg.frame_duration < cfg.int_active := ⟨h3, hlt⟩
        refine ⟨l.next_int, ?_, ⟨q, hq⟩, by rw [if_pos hc]; omega, by rw [if_pos hc]; omega⟩
        simp only [h1, h2, h3, hlt, if_true, and_self, ne_eq, not_false_eq_true]
        split <;> rfl
      · refine ⟨l.next_int, ?_, ⟨q, hq⟩, by simp only [h3, false_and, if_false]; omega, by simp only [h3, false_and, if_false]; omega⟩
        simp only [h1, h2, h3, hlt, if_true, if_false, false_and]
        split <;> rfl
    · have hm : s1.t % cfg.frame_duration = s1.t - q * cfg.frame_duration :=
        emod_of_window _ q _ (by omega) (by omega)
      have h3' : ¬ (s1.iff ≠ 0 ∧ s1.t % cfg.frame_duration < cfg.int_active) := fun h => by have := h.2; omega
      refine ⟨l.next_int + cfg.frame_duration, ?_, ⟨q + 1, by rw [hq, Int.add_mul]; omega⟩,
        by simp only [h3', if_false]; omega, by simp only [h3', if_false]; omega⟩
      simp only [h1, h2, h3', if_true, if_false]
      split <;> rfl
  · have hm : s1.t % cfg.frame_duration = s1.t - (q - 1) * cfg.frame_duration := by
      apply emod_of_window
      · rw [Int.sub_mul]; omega
      · rw [Int.sub_mul]; omega
    have h3' : ¬ (s1.iff ≠ 0 ∧ s1.t % cfg.frame_duration < cfg.int_active) :=
      fun h => by have := h.2; rw [hm, Int.sub_mul] at this; omega
    refine ⟨l.next_int, ?_, ⟨q, hq⟩, by simp only [h3', if_false]; omega, by simp only [h3', if_false]; omega⟩
    simp only [h1, h3', if_false]
    split <;> rfl

/-- one pass of the loop without interrupts: one instruction -/
theorem py_cmio_body2 (cfg : Cfg) (start stop : Option Int) (ints : Bool) (s : St μ) (l : PyLoop.Cmio.RunLocals) (hl : l.pc = s.pc) :
    PyLoop.Cmio.run_loop2_body cfg start stop ints s l =
      ((iter cmioM false cfg s, ⟨(iter cmioM false cfg s).pc, l.frame_start, l.next_int⟩),
        if some (iter cmioM false cfg s).pc = stop then .break_ else .continue_) := by
  have hstep : Cmio.exec cfg (Cmio.OpTbl.get .MAIN (mget s.mem l.pc)) s = Cmio.step cfg s := by rw [hl]; unfold Cmio.step; rfl
  simp only [PyLoop.Cmio.run_loop2_body, Id.run, pure, hstep]
  unfold iter cmioM
  simp only [Bool.false_eq_true, false_and, if_false]
  split <;> rfl

/-- the loops do not look at `start` -/
theorem py_cmio_loop1_start (cfg : Cfg) (start start' stop : Option Int) (ints : Bool) :
    PyLoop.Cmio.run_loop1 (μ := μ) cfg start stop ints = PyLoop.Cmio.run_loop1 cfg start' stop ints := by
  funext fuel s l; unfold PyLoop.Cmio.run_loop1; simp only [PyLoop.Cmio.run_loop1_body]
theorem py_cmio_loop2_start (cfg : Cfg) (start start' stop : Option Int) (ints : Bool) :
    PyLoop.Cmio.run_loop2 (μ := μ) cfg start stop ints = PyLoop.Cmio.run_loop2 cfg start' stop ints := by
  funext fuel s l; unfold PyLoop.Cmio.run_loop2; simp only [PyLoop.Cmio.run_loop2_body]

/-- the loop with interrupts is `RunLoop.loop`, and whenever it stops `next_int` is the function `Sched` of the clock -/
theorem py_cmio_loop1 (cfg : Cfg) (hf : FrameOk cfg Tshift.maxDurCmio) (start : Option Int) (stop : Int) (ints : Bool) (fuel : Nat)
    (s : St μ) (l : PyLoop.Cmio.RunLocals) (hl : l.pc = s.pc) (hs : Sched cfg l.next_int s.t) :
    ∃ l', PyLoop.Cmio.run_loop1 cfg start (some stop) ints fuel s l =
      (((loop cmioM true cfg stop fuel s).1, l'), if (loop cmioM true cfg stop fuel s).2 = true then .break_ else .continue_) ∧
      Sched cfg l'.next_int (loop cmioM true cfg stop fuel s).1.t := by
  unfold PyLoop.Cmio.run_loop1
  induction fuel generalizing s l with
  | zero => exact ⟨l, by simp only [iterate_zero, loop, Bool.false_eq_true, if_false], hs⟩
  | succ n ih =>
    obtain ⟨N', hb, hs'⟩ := py_cmio_body1 cfg hf start (some stop) ints s l hl hs
    simp only [Option.some.injEq] at hb
    by_cases hp : (iter cmioM true cfg s).pc = stop
    · rw [if_pos hp] at hb
      refine ⟨⟨(iter cmioM true cfg s).pc, l.frame_start, N'⟩, ?_, ?_⟩
      · rw [iterate_exit _ n (s, l) (by simp only [hb]; exact fun e => nomatch e), hb, loop_stop _ _ _ _ _ _ hp]
        simp only [if_true]
      · rw [loop_stop _ _ _ _ _ _ hp]; exact hs'
    · rw [if_neg hp] at hb
      obtain ⟨l', ih', hs''⟩ := ih (iter cmioM true cfg s) ⟨(iter cmioM true cfg s).pc, l.frame_start, N'⟩ (locals_pc_cmio _ _ _) hs'
      refine ⟨l', ?_, ?_⟩
      · rw [iterate_continue _ n (s, l) (by simp only [hb]), loop_go _ _ _ _ _ _ hp]
        simp only [hb]
        exact ih'
      · rw [loop_go _ _ _ _ _ _ hp]; exact hs''

/-- the loop without interrupts is `RunLoop.loop` -/
theorem py_cmio_loop2 (cfg : Cfg) (start : Option Int) (stop : Int) (ints : Bool) (fuel : Nat)
    (s : St μ) (l : PyLoop.Cmio.RunLocals) (hl : l.pc = s.pc) :
    ∃ l', PyLoop.Cmio.run_loop2 cfg start (some stop) ints fuel s l =
      (((loop cmioM false cfg stop fuel s).1, l'), if (loop cmioM false cfg stop fuel s).2 = true then .break_ else .continue_) := by
  unfold PyLoop.Cmio.run_loop2
  induction fuel generalizing s l with
  | zero => exact ⟨l, by simp only [iterate_zero, loop, Bool.false_eq_true, if_false]⟩
  | succ n ih =>
    have hb := py_cmio_body2 cfg start (some stop) ints s l hl
    simp only [Option.some.injEq] at hb
    by_cases hp : (iter cmioM false cfg s).pc = stop
    · rw [if_pos hp] at hb
      refine ⟨⟨(iter cmioM false cfg s).pc, l.frame_start, l.next_int⟩, ?_⟩
      rw [iterate_exit _ n (s, l) (by simp only [hb]; exact fun e => nomatch e), hb, loop_stop _ _ _ _ _ _ hp]
      simp only [if_true]
    · rw [if_neg hp] at hb
      obtain ⟨l', ih'⟩ := ih (iter cmioM false cfg s) ⟨(iter cmioM false cfg s).pc, l.frame_start, l.next_int⟩ (locals_pc_cmio _ _ _)
      refine ⟨l', ?_⟩
      rw [iterate_continue _ n (s, l) (by simp only [hb]), loop_go _ _ _ _ _ _ hp]
      simp only [hb]
      exact ih'

/-- **`CMIOSimulator.run(start, stop, interrupts)`, translated, is `RunLoop.run`** — for every argument triple, every state, every
fuel; `FrameOk`: an instruction, an interrupt response and the INT pulse fit into one frame (what the `next_int` bookkeeping
silently assumes; both machine configurations satisfy it). -/
theorem py_cmio_run (cfg : Cfg) (hf : FrameOk cfg Tshift.maxDurCmio) (fuel : Nat) (start stop : Option Int) (ints : Bool) (s : St μ) :
    PyLoop.Cmio.run cfg fuel start stop ints s = run cmioM cfg fuel start stop ints s := by
  have hfd : 0 < cfg.frame_duration := by have := hf.fits; have := hf.ia_pos; have := hf.d_nonneg; omega
  have key : ∀ s0 : St μ, PyLoop.Cmio.run cfg fuel none stop ints s0 = runFrom cmioM cfg fuel stop ints s0 := by
    intro s0
    cases stop with
    | none =>
      simp only [PyLoop.Cmio.run, Id.run, pure, if_true, cmioM_step, runFrom_none]
      unfold Cmio.step; rfl
    | some v =>
      rw [runFrom_some]
      cases ints with
      | true =>
        obtain ⟨l', hl', -⟩ := py_cmio_loop1 cfg hf none v true fuel s0
          ⟨s0.pc, s0.t / cfg.frame_duration * cfg.frame_duration,
            if s0.t < s0.t / cfg.frame_duration * cfg.frame_duration + cfg.int_active then s0.t / cfg.frame_duration * cfg.frame_duration
            else s0.t / cfg.frame_duration * cfg.frame_duration + cfg.frame_duration⟩ rfl (sched_run_start cfg hf s0.t)
        simp only [PyLoop.Cmio.run, Id.run, pure, reduceCtorEq, if_false, if_true]
        by_cases hw : s0.t < s0.t / cfg.frame_duration * cfg.frame_duration + cfg.int_active
        · simp only [hw, if_true] at hl' ⊢
          rw [hl']
          rcases loop cmioM true cfg v fuel s0 with ⟨r1, r2⟩
          cases r2 <;> simp
        · simp only [hw, if_false] at hl' ⊢
          rw [hl']
          rcases loop cmioM true cfg v fuel s0 with ⟨r1, r2⟩
          cases r2 <;> simp
      | false =>
        obtain ⟨l', hl'⟩ := py_cmio_loop2 cfg none v false fuel s0 ⟨s0.pc, 0, 0⟩ rfl
        simp only [PyLoop.Cmio.run, Id.run, pure, reduceCtorEq, if_false, Bool.false_eq_true]
        rw [hl']
        rcases loop cmioM false cfg v fuel s0 with ⟨r1, r2⟩
        cases r2 <;> simp
  cases start with
  | none => rw [key s, run_start_none]
  | some v =>
    have e : PyLoop.Cmio.run cfg fuel (some v) stop ints s = PyLoop.Cmio.run cfg fuel none stop ints { s with pc := v } := by
      simp only [PyLoop.Cmio.run, Id.run, pure, py_cmio_loop1_start cfg (some v) none, py_cmio_loop2_start cfg (some v) none]
    rw [e, key, run_start_some]

end RunLoop
