import SkoolVerif.Model.SnapEdit
/-! Lemmas about the Python list primitives and loops of `Model/SnapEdit.lean` (C09). -/
namespace SnapEdit

/-! ### slices -/

theorem pySlice_length (l : List Nat) (i j : Nat) :
    (pySlice l i j).length = min j l.length - i := by
  simp [pySlice]

theorem pySlice_getElem? (l : List Nat) (i j k : Nat) :
    (pySlice l i j)[k]? = if i + k < j then l[i + k]? else none := by
  simp [pySlice, List.getElem?_drop, List.getElem?_take]

theorem pySliceSet_length (l : List Nat) (i j : Nat) (v : List Nat) :
    (pySliceSet l i j v).length = min i l.length + v.length + (l.length - max i j) := by
  simp [pySliceSet]; omega

theorem pySliceSet_getElem? (l : List Nat) (i j : Nat) (v : List Nat) (k : Nat) :
    (pySliceSet l i j v)[k]? =
      if k < min i l.length then l[k]?
      else if k - min i l.length < v.length then v[k - min i l.length]?
      else l[max i j + (k - min i l.length - v.length)]? := by
  simp only [pySliceSet, List.getElem?_append, List.length_append, List.length_take, List.getElem?_take,
    List.getElem?_drop]
  by_cases h1 : k < min i l.length
  · have : k < i := by omega
    have : k < min i l.length + v.length := by omega
    simp [*]
  · by_cases h2 : k - min i l.length < v.length
    · have : k < min i l.length + v.length := by omega
      simp [*]
    · have : ¬ k < min i l.length + v.length := by omega
      simp only [*, if_false]
      congr 1
      omega

/-- A slice assignment whose target lies inside the list and whose value has the length of the
target: exactly the target cells change. -/
theorem pySliceSet_inRange (l : List Nat) (i n : Nat) (v : List Nat) (hv : v.length = n)
    (hin : i + n ≤ l.length) :
    (pySliceSet l i (i + n) v).length = l.length ∧
    ∀ k, (pySliceSet l i (i + n) v)[k]? = if i ≤ k ∧ k < i + n then v[k - i]? else l[k]? := by
  refine ⟨by rw [pySliceSet_length]; omega, fun k => ?_⟩
  rw [pySliceSet_getElem?]
  have hmin : min i l.length = i := by omega
  rw [hmin]
  by_cases h1 : k < i
  · have : ¬ (i ≤ k ∧ k < i + n) := by omega
    simp [h1, this]
  · by_cases h2 : k - i < v.length
    · have : i ≤ k ∧ k < i + n := by omega
      simp [h1, h2, this]
    · have : ¬ (i ≤ k ∧ k < i + n) := by omega
      simp only [h1, h2, this, if_false]
      congr 1
      omega

/-! ### ranges -/

theorem mem_upto {a b x : Nat} : x ∈ upto a b ↔ a ≤ x ∧ x < b := by
  simp only [upto, List.mem_map, List.mem_range]
  constructor
  · rintro ⟨k, hk, rfl⟩; omega
  · intro h; exact ⟨x - a, by omega, by omega⟩

theorem upto_length (a b : Nat) : (upto a b).length = b - a := by simp [upto]

theorem upto_getElem? (a b k : Nat) : (upto a b)[k]? = if k < b - a then some (a + k) else none := by
  simp only [upto, List.getElem?_map]
  by_cases h : k < b - a
  · simp [h]
  · simp [h]

theorem pyRange_count_lt {n step k : Nat} (hs : 0 < step) :
    k < (n + step - 1) / step ↔ k * step < n := by
  rw [Nat.lt_iff_add_one_le, Nat.le_div_iff_mul_le hs, Nat.add_mul]
  omega

theorem mem_pyRange {a b step x : Nat} (hs : 0 < step) :
    x ∈ pyRange a b step ↔ a ≤ x ∧ x < b ∧ (x - a) % step = 0 := by
  simp only [pyRange, List.mem_map, List.mem_range]
  constructor
  · rintro ⟨k, hk, rfl⟩
    rw [pyRange_count_lt hs] at hk
    refine ⟨by omega, by omega, ?_⟩
    rw [Nat.add_sub_cancel_left]; exact Nat.mul_mod_left k step
  · rintro ⟨h1, h2, h3⟩
    refine ⟨(x - a) / step, ?_, ?_⟩
    · rw [pyRange_count_lt hs]
      have := Nat.div_mul_le_self (x - a) step
      omega
    · have := Nat.div_add_mod (x - a) step
      rw [h3, Nat.add_zero, Nat.mul_comm] at this
      omega

theorem pyRange_nodup (a b step : Nat) (hs : 0 < step) : (pyRange a b step).Nodup := by
  unfold pyRange
  refine List.Pairwise.map _ (fun x y hxy h => hxy ?_) List.nodup_range
  have : x * step = y * step := by omega
  exact Nat.eq_of_mul_eq_mul_right hs this

/-! ### `iter` -/

theorem iter_succ' (f : Nat → Nat) (n x : Nat) : iter f (n + 1) x = iter f n (f x) := rfl

/-! ### the poke loop on one list -/

theorem pokeList_ok {f : Nat → Nat} : ∀ (idxs l l' : List Nat), pokeList f idxs l = .ok l' →
    l'.length = l.length ∧ (∀ i ∈ idxs, i < l.length) ∧
    ∀ j, l'[j]? = (l[j]?).map (iter f (idxs.count j))
  | [], l, l', h => by
    simp only [pokeList, Except.ok.injEq] at h
    subst h
    simp [iter]
  | i :: is, l, l', h => by
    simp only [pokeList] at h
    split at h
    · rename_i hi
      obtain ⟨h1, h2, h3⟩ := pokeList_ok is _ l' h
      rw [List.length_set] at h1 h2
      refine ⟨h1, ?_, fun j => ?_⟩
      · intro x hx
        rcases List.mem_cons.1 hx with rfl | hx
        · exact hi
        · exact h2 x hx
      · rw [h3 j, List.getElem?_set, List.count_cons]
        by_cases hij : i = j
        · subst hij
          simp [hi, iter]
        · have : ¬ (i == j) = true := by simpa using hij
          simp [hij, this]
    · cases h

theorem pokeList_error {f : Nat → Nat} : ∀ (idxs l : List Nat),
    (∃ e, pokeList f idxs l = .error e) ↔ ∃ i ∈ idxs, l.length ≤ i
  | [], l => by simp [pokeList]
  | i :: is, l => by
    simp only [pokeList]
    split
    · rename_i hi
      rw [pokeList_error is, List.length_set]
      constructor
      · rintro ⟨x, hx, h⟩; exact ⟨x, List.mem_cons_of_mem _ hx, h⟩
      · rintro ⟨x, hx, h⟩
        rcases List.mem_cons.1 hx with rfl | hx
        · omega
        · exact ⟨x, hx, h⟩
    · rename_i hi
      exact ⟨fun _ => ⟨i, List.mem_cons_self, by omega⟩, fun _ => ⟨_, rfl⟩⟩

theorem pokeList_error_kind {f : Nat → Nat} : ∀ (idxs l : List Nat) (e : Err),
    pokeList f idxs l = .error e → e = .index
  | [], l, e, h => by simp [pokeList] at h
  | i :: is, l, e, h => by
    simp only [pokeList] at h
    split at h
    · exact pokeList_error_kind is _ e h
    · cases h; rfl

/-- Every index at most once: each named cell is poked exactly once. -/
theorem pokeList_nodup {f : Nat → Nat} (idxs l l' : List Nat) (hn : idxs.Nodup)
    (h : pokeList f idxs l = .ok l') :
    l'.length = l.length ∧ ∀ j, l'[j]? = if j ∈ idxs then (l[j]?).map f else l[j]? := by
  obtain ⟨h1, _, h3⟩ := pokeList_ok idxs l l' h
  refine ⟨h1, fun j => ?_⟩
  rw [h3 j, hn.count]
  by_cases hj : j ∈ idxs
  · simp only [hj, if_true]; cases l[j]? <;> simp [iter]
  · simp only [hj, if_false]; cases l[j]? <;> simp [iter]

end SnapEdit
