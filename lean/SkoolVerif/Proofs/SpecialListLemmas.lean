import SkoolVerif.Proofs.ScanBuildLemmas
/-! List lemmas for "specialised builder = generic builder" on full-size frames (C15). -/
set_option linter.unusedSimpArgs false
set_option linter.unusedVariables false
namespace PngScan
open ZxTile

theorem chunksOf_fuel {α : Type} (n : Nat) (hn : 0 < n) (f1 f2 : Nat) (l : List α) (h1 : l.length ≤ f1)
    (h2 : l.length ≤ f2) : chunksOf n f1 l = chunksOf n f2 l := by
  induction f1 generalizing f2 l with
  | zero =>
    have : l = [] := by simpa using h1
    subst this
    rw [chunksOf_nil, chunksOf_nil]
  | succ f1 ih =>
    cases l with
    | nil => rw [chunksOf_nil, chunksOf_nil]
    | cons a t =>
      cases f2 with
      | zero => simp at h2
      | succ f2 =>
        simp only [chunksOf, List.isEmpty_cons, Bool.false_eq_true, if_false]
        congr 1
        apply ih
        · simp only [List.length_drop, List.length_cons] at h1 ⊢; omega
        · simp only [List.length_drop, List.length_cons] at h2 ⊢; omega

/-- Chunking a concatenation whose first part is a whole number of chunks. -/
theorem chunksOf_append {α : Type} (n : Nat) (hn : 0 < n) (k : Nat) (A B : List α) (hA : A.length = k * n) :
    chunksOf n (A ++ B).length (A ++ B) = chunksOf n A.length A ++ chunksOf n B.length B := by
  induction k generalizing A with
  | zero =>
    have : A = [] := by simpa using hA
    subst this
    simp [chunksOf_nil]
  | succ k ih =>
    have hlen : n ≤ A.length := by rw [hA, Nat.add_mul]; omega
    cases hA' : A with
    | nil => rw [hA'] at hlen; simp at hlen; omega
    | cons a t =>
      rw [← hA']
      have e1 : chunksOf n (A ++ B).length (A ++ B)
          = (A ++ B).take n :: chunksOf n ((A ++ B).length - 1) ((A ++ B).drop n) := by
        rw [hA']; simp [chunksOf]
      have e2 : chunksOf n A.length A = A.take n :: chunksOf n (A.length - 1) (A.drop n) := by
        rw [hA']; simp [chunksOf]
      rw [e1, e2, List.cons_append]
      have t1 : (A ++ B).take n = A.take n := List.take_append_of_le_length hlen
      have d1 : (A ++ B).drop n = A.drop n ++ B := List.drop_append_of_le_length hlen
      rw [t1, d1]
      congr 1
      have hdl : (A.drop n).length = k * n := by
        rw [List.length_drop, hA, Nat.add_mul]; omega
      rw [chunksOf_fuel n hn _ (A.drop n ++ B).length _ (by simp; omega) (Nat.le_refl _),
        ih (A.drop n) hdl,
        chunksOf_fuel n hn (A.length - 1) (A.drop n).length _ (by simp; omega) (Nat.le_refl _)]

/-- Packing a row made of per-tile blocks, each a whole number of chunks, tile by tile. -/
theorem chunks_flatMap {α β γ : Type} (n : Nat) (hn : 0 < n) (g : List β → γ) (f : α → List β) (L : Nat)
    (row : List α) (hL : ∀ u ∈ row, (f u).length = L * n) :
    (chunksOf n (row.flatMap f).length (row.flatMap f)).map g
      = row.flatMap (fun u => (chunksOf n (f u).length (f u)).map g) := by
  induction row with
  | nil => simp [chunksOf_nil]
  | cons a t ih =>
    simp only [List.flatMap_cons]
    rw [chunksOf_append n hn L (f a) _ (hL a (by simp)), List.map_append, ih (fun u hu => hL u (by simp [hu]))]

/-- `_scan_frame`'s nesting (tile rows, 8 pixel rows, `scale` copies) as one line per output row. -/
theorem scan_as_map {β : Type} (F : List Udg → Nat → β) (s : Nat) (hs : 0 < s) (udgs : List (List Udg)) :
    udgs.flatMap (fun row => (List.range 8).flatMap (fun k => List.replicate s (F row k)))
      = (List.range' 0 (8 * s * udgs.length)).map (fun yy => F (udgs.getD (yy / (8 * s)) []) (yy / s % 8)) := by
  induction udgs with
  | nil => simp
  | cons row rest ih =>
    have e : 8 * s * (row :: rest).length = s * 8 + 8 * s * rest.length := by
      simp only [List.length_cons, Nat.mul_succ]; omega
    rw [e, range'_split, List.map_append, List.flatMap_cons, ih]
    congr 1
    · -- the first tile row
      have h1 : (List.range' 0 (s * 8)).map (fun yy => F ((row :: rest).getD (yy / (8 * s)) []) (yy / s % 8))
          = (List.range' (s * 0) (s * 8)).map (fun yy => (fun Y => F row (Y % 8)) (yy / s)) := by
        rw [Nat.mul_zero]
        apply List.map_congr_left
        intro yy hyy
        simp only [List.mem_range'_1] at hyy
        have : yy / (8 * s) = 0 := Nat.div_eq_of_lt (by omega)
        simp [this]
      rw [h1, full_blocks (fun Y => F row (Y % 8)) s 0 8 hs, List.range_eq_range']
      apply flatMap_congr'
      intro k hk
      simp only [List.mem_range'_1] at hk
      rw [Nat.mod_eq_of_lt (by omega)]
    · -- the remaining tile rows, shifted by one tile row
      rw [Nat.zero_add]
      have : List.range' (s * 8) (8 * s * rest.length)
          = (List.range' 0 (8 * s * rest.length)).map (fun x => s * 8 + x) := by
        rw [List.map_add_range']; simp
      rw [this, List.map_map]
      apply List.map_congr_left
      intro yy _
      have d1 : (s * 8 + yy) / (8 * s) = yy / (8 * s) + 1 := by
        rw [Nat.add_comm, Nat.mul_comm s 8, Nat.add_div_right _ (by omega)]
      have d2 : (s * 8 + yy) / s = yy / s + 8 := by
        rw [Nat.add_comm, Nat.add_mul_div_left _ _ hs]
      simp only [Function.comp, d1, d2, List.getD_cons_succ, Nat.add_mod_right]

/-- A frame that is not cropped: origin (0,0), the size of the whole tile array. -/
def FullSize (c : Ctx) (udgs : List (List Udg)) (W : Nat) : Prop :=
  c.x0 = 0 ∧ c.y0 = 0 ∧ c.width = 8 * c.scale * W ∧ c.height = 8 * c.scale * udgs.length ∧
    (∀ row ∈ udgs, row.length = W) ∧ 0 < W ∧ 0 < udgs.length

theorem visited_full (c : Ctx) (udgs : List (List Udg)) (W : Nat) (hs : 0 < c.scale) (hf : FullSize c udgs W) :
    visited c udgs = udgs := by
  obtain ⟨hx, hy, hw, hh, hrow, hW, hH⟩ := hf
  rw [visited_eq, hy, hh]
  have e1 : (0 + 8 * c.scale * udgs.length) / (8 * c.scale) = udgs.length := by
    rw [Nat.zero_add, Nat.mul_div_cancel_left _ (by omega)]
  rw [e1, Nat.zero_div, List.drop_zero, List.take_of_length_le (by omega)]
  have : ∀ row ∈ udgs, sliceRow c row = row := by
    intro row hr
    unfold sliceRow
    rw [hx, hw, Nat.zero_add, Nat.mul_div_cancel_left _ (by omega), Nat.zero_div, List.drop_zero,
      List.take_of_length_le (by rw [hrow row hr]; omega)]
  rw [List.map_congr_left this, List.map_id']

/-- On a full-size frame the generic builder is `_scan_frame` over its own per-row lines. -/
theorem buildAny_full (c : Ctx) (udgs : List (List Udg)) (W : Nat) (hs : 0 < c.scale) (hf : FullSize c udgs W)
    (hattr : ∀ row ∈ udgs, ∀ u ∈ row, (c.attrs u.attr).isSome) :
    buildAny c udgs = .ok (udgs.flatMap (fun row =>
      (List.range 8).flatMap (fun k => List.replicate c.scale (lineOf c row k)))) := by
  have hv := visited_full c udgs W hs hf
  obtain ⟨hx, hy, hw, hh, hrow, hW, hH⟩ := hf
  have hpos : 0 < c.height := by rw [hh]; exact Nat.mul_pos (by omega) hH
  rw [buildAny_lines c udgs hs hpos (by rw [hy, hh]; omega) (by rw [hv]; exact hattr), hv,
    scan_as_map (lineOf c) c.scale hs udgs, hy, hh]
  congr 1
  apply List.map_congr_left
  intro yy _
  simp [lineAt]

/-- The scaled pixels one tile contributes to pixel row `k`. -/
def udgPixels (c : Ctx) (u : Udg) (k : Nat) : List Nat :=
  expand c.scale (applyMask c.mask u k ((c.attrs u.attr).getD (0, 0)).1 ((c.attrs u.attr).getD (0, 0)).2 0)

/-- The bytes one tile contributes to a scanline of a full-size frame in the generic builder. -/
def udgBlock (c : Ctx) (u : Udg) (k : Nat) : List Nat :=
  if c.bitDepth = 4 then
    (chunksOf 2 (udgPixels c u k).length (udgPixels c u k)).map (fun g => g.getD 0 0 * 16 + g.getD 1 0)
  else
    (chunksOf (8 / c.bitDepth) (udgPixels c u k).length (udgPixels c u k)).map (fromBase (2 ^ c.bitDepth))

theorem rowPixels_eq (c : Ctx) (row : List Udg) (k : Nat) : rowPixels c row k = row.flatMap (udgPixels c · k) := rfl

/-- On a full-size frame a scanline is the concatenation of per-tile blocks. -/
theorem lineOf_full (c : Ctx) (udgs : List (List Udg)) (W : Nat) (hs : 0 < c.scale) (hf : FullSize c udgs W)
    (hbd : c.bitDepth = 1 ∨ c.bitDepth = 2 ∨ c.bitDepth = 4)
    (row : List Udg) (hrow : row ∈ udgs) (hwf : ∀ u ∈ row, WfUdg u) (k : Nat) :
    lineOf c row k = 0 :: row.flatMap (udgBlock c · k) := by
  obtain ⟨hx, hy, hw, hh, hrl, hW, hH⟩ := hf
  have hlen : (rowPixels c row k).length = c.width := by
    rw [rowPixels_length c row k hwf, hrl row hrow, hw, Nat.mul_comm]
  have hul : ∀ u ∈ row, (udgPixels c u k).length = 8 * c.scale := fun u hu => udgPixels_length c k u (hwf u hu)
  unfold lineOf packLine
  congr 1
  have hcrop : ((rowPixels c row k).drop (c.x0 % (8 * c.scale))).take c.width = rowPixels c row k := by
    rw [hx, Nat.zero_mod, List.drop_zero, ← hlen, List.take_length]
  simp only [hcrop]
  have hw8 : c.width = c.scale * W * 8 := by rw [hw]; rw [Nat.mul_comm 8, Nat.mul_assoc, Nat.mul_comm 8, ← Nat.mul_assoc]
  rcases hbd with h | h | h
  · have hpad : (8 / c.bitDepth - c.width % (8 / c.bitDepth)) % (8 / c.bitDepth) = 0 := by
      rw [h, hw8]; simp
    simp only [h, show (1 : Nat) ≠ 4 by decide, if_false, udgBlock] at hpad ⊢
    rw [hpad, List.replicate_zero, List.append_nil, rowPixels_eq]
    exact chunks_flatMap (8 / 1) (by decide) _ _ c.scale row (fun u hu => by rw [hul u hu]; omega)
  · have hpad : (8 / c.bitDepth - c.width % (8 / c.bitDepth)) % (8 / c.bitDepth) = 0 := by
      rw [h, hw8]
      have : c.scale * W * 8 % (8 / 2) = 0 := by
        have : c.scale * W * 8 = (c.scale * W * 2) * 4 := by omega
        rw [this]; simp
      rw [this]
    simp only [h, show (2 : Nat) ≠ 4 by decide, if_false, udgBlock] at hpad ⊢
    rw [hpad, List.replicate_zero, List.append_nil, rowPixels_eq]
    exact chunks_flatMap (8 / 2) (by decide) _ _ (2 * c.scale) row (fun u hu => by rw [hul u hu]; omega)
  · have hpad : c.width &&& 1 = 0 := by
      rw [Nat.and_one_is_mod, hw8]; omega
    simp only [h, if_true, udgBlock] at ⊢
    rw [hpad, List.replicate_zero, List.append_nil, rowPixels_eq]
    exact chunks_flatMap 2 (by decide) _ _ (4 * c.scale) row (fun u hu => by rw [hul u hu]; omega)

end PngScan
