import SkoolVerif.Spec.AsmLayout
/-! The ASM route (skoolparser `Mode.apply_asm_directives` → `AsmWriter.write` → sequential
assembly; model `asmLayout`) refines the reference layout (C04). -/
namespace AsmLayout
open Spec

variable {Op : Type} (size : Op → Nat)

/-! ### `Mode.compose_instructions` -/

def keepOp (s : SubDir Op) : Option (Bool × Option Op) :=
  if s.op.isSome then some (s.flags.overwrite, s.op) else none

theorem composeAux_nonempty (current : Bool) (subs : List (SubDir Op)) :
    ∀ acc : List (Bool × Option Op), acc ≠ [] →
    composeAux current acc subs = acc ++ subs.filterMap keepOp := by
  induction subs with
  | nil => intro acc _; simp [composeAux]
  | cons s subs ih =>
    intro acc hne
    have he : acc.isEmpty = false := by cases acc <;> simp_all
    simp only [composeAux, he, Bool.and_false, Bool.or_false, Bool.false_eq_true, if_false]
    by_cases ho : s.op.isSome
    · simp only [ho, if_true]
      rw [ih _ (by simp)]
      simp [keepOp, ho]
    · simp only [ho, Bool.false_eq_true, if_false]
      rw [ih _ hne]
      simp [keepOp, ho]

/-- `compose_instructions(subs, current=True)` for a non-empty directive list. -/
theorem compose_after (s : SubDir Op) (r : List (SubDir Op)) :
    compose (s :: r) true =
      (if s.flags.append then (false, none) :: (if s.op.isSome then [(s.flags.overwrite, s.op)] else [])
       else [(s.flags.overwrite, s.op)]) ++ r.filterMap keepOp := by
  unfold compose
  by_cases ha : s.flags.append <;> by_cases ho : s.op.isSome
  · have : composeAux true [] (s :: r) = composeAux true [(false, none), (s.flags.overwrite, s.op)] r := by
      simp [composeAux, ha, ho]
    rw [this, composeAux_nonempty _ _ _ (by simp)]
    simp [ha, ho]
  · have : composeAux true [] (s :: r) = composeAux true [(false, none)] r := by
      simp [composeAux, ha, ho]
    rw [this, composeAux_nonempty _ _ _ (by simp)]
    simp [ha, ho]
  · have : composeAux true [] (s :: r) = composeAux true [(s.flags.overwrite, s.op)] r := by
      simp [composeAux, ha, ho]
    rw [this, composeAux_nonempty _ _ _ (by simp)]
    simp [ha]
  · have : composeAux true [] (s :: r) = composeAux true [(s.flags.overwrite, s.op)] r := by
      simp [composeAux, ha, ho]
    rw [this, composeAux_nonempty _ _ _ (by simp)]
    simp [ha]

/-- The operations of `compose_instructions(subs, current=False)`. -/
theorem composeAux_before_ops (subs : List (SubDir Op)) : ∀ acc : List (Bool × Option Op),
    (composeAux false acc subs).filterMap (·.2) = acc.filterMap (·.2) ++ subs.filterMap (·.op) := by
  induction subs with
  | nil => intro acc; simp [composeAux]
  | cons s subs ih =>
    intro acc
    simp only [composeAux, Bool.false_and, Bool.or_false]
    rw [ih]
    by_cases ha : (s.flags.append && acc.isEmpty) <;> cases ho : s.op <;>
      simp [ha, ho, List.filterMap_append]

theorem compose_before_ops (subs : List (SubDir Op)) :
    (compose subs false).filterMap (·.2) = subs.filterMap (·.op) := by
  simp [compose, composeAux_before_ops]

/-! ### `SkoolEntry.add_instruction(insert=True)` -/

theorem insertBeforeLast_append {α : Type} (pre : List α) (x y : α) :
    insertBeforeLast (pre ++ [x]) y = pre ++ [y, x] := by
  induction pre with
  | nil => rfl
  | cons h t ih =>
    cases t with
    | nil => simp [insertBeforeLast]
    | cons h2 t2 =>
      simp only [List.cons_append] at ih ⊢
      simp only [insertBeforeLast, ih]

/-- The instructions inserted before the current one (`firstOrg`: the `org` the first one inherits). -/
def mkBefore (firstOrg : Option (Option Nat)) : List (Bool × Option Op) → List (PIns Op)
  | [] => []
  | (_, op) :: r => { addr := none, op := op, org := firstOrg } :: mkBefore none r

theorem parBefore_append (bl : List (Bool × Option Op)) : ∀ (pre : List (PIns Op)) (x : PIns Op),
    parBefore (pre ++ [x]) bl = .ok (pre ++ mkBefore (if pre.isEmpty then x.org else none) bl ++ [x]) := by
  induction bl with
  | nil => intro pre x; simp [parBefore, mkBefore]
  | cons b bl ih =>
    intro pre x
    obtain ⟨ow, op⟩ := b
    cases pre with
    | nil =>
      simp only [List.nil_append, parBefore, List.isEmpty_nil, if_true, insertBeforeLast]
      have := ih [{ addr := none, op := op, org := x.org }] x
      simp only [List.cons_append, List.nil_append, List.isEmpty_cons, Bool.false_eq_true, if_false] at this
      simp [this, mkBefore]
    | cons h t =>
      simp only [List.cons_append, parBefore]
      have hemp : (t ++ [x]).isEmpty = false := by cases t <;> simp
      simp only [hemp, Bool.false_eq_true, if_false]
      rw [← List.cons_append, insertBeforeLast_append]
      have := ih (h :: t ++ [{ addr := none, op := op, org := none }]) x
      simp only [List.cons_append, List.append_assoc, List.isEmpty_cons, Bool.false_eq_true, if_false] at this
      simp only [List.cons_append, List.append_assoc, List.isEmpty_cons, Bool.false_eq_true, if_false, mkBefore]
      simpa using this

theorem mkBefore_ops (o : Option (Option Nat)) (bl : List (Bool × Option Op)) :
    (mkBefore o bl).map (·.op) = bl.map (·.2) := by
  induction bl generalizing o with
  | nil => rfl
  | cons b bl ih => obtain ⟨_, op⟩ := b; simp [mkBefore, ih]

/-! ### sequential assembly -/

theorem seqBody_append (xs : List (PIns Op)) : ∀ (pc : Option Nat) (out : List (Nat × Op)) (ys : List (PIns Op)),
    seqBody size pc out (xs ++ ys) =
      match seqBody size pc out xs with
      | .error e => .error e
      | .ok (pc', out') => seqBody size pc' out' ys := by
  induction xs with
  | nil => intro pc out ys; simp [seqBody]
  | cons x xs ih =>
    intro pc out ys
    simp only [List.cons_append, seqBody]
    cases x.op with
    | none => exact ih pc out ys
    | some o =>
      cases pc with
      | none => rfl
      | some p =>
        by_cases hz : size o = 0
        · simp [hz]
        · simp only [hz, if_false]; exact ih _ _ ys

/-- Only the operations matter for the placement. -/
theorem seqBody_ops (xs : List (PIns Op)) : ∀ (ys : List (PIns Op)) (pc : Option Nat) (out : List (Nat × Op)),
    xs.map (·.op) = ys.map (·.op) → seqBody size pc out xs = seqBody size pc out ys := by
  induction xs with
  | nil => intro ys pc out h; cases ys <;> simp_all
  | cons x xs ih =>
    intro ys pc out h
    cases ys with
    | nil => simp at h
    | cons y ys =>
      simp only [List.map_cons, List.cons.injEq] at h
      simp only [seqBody, h.1]
      cases y.op with
      | none => exact ih ys pc out h.2
      | some o =>
        cases pc with
        | none => rfl
        | some p =>
          by_cases hz : size o = 0
          · simp [hz]
          · simp only [hz, if_false]; exact ih ys _ _ h.2

/-- Instructions without an operation place nothing. -/
theorem seqBody_filter (xs : List (PIns Op)) : ∀ (pc : Option Nat) (out : List (Nat × Op)),
    seqBody size pc out xs = seqBody size pc out (xs.filter (fun i => i.op.isSome)) := by
  induction xs with
  | nil => intro pc out; rfl
  | cons x xs ih =>
    intro pc out
    cases hx : x.op with
    | none => simp [seqBody, hx, ih]
    | some o =>
      simp only [List.filter_cons, hx, Option.isSome_some, if_true, seqBody]
      cases pc with
      | none => rfl
      | some p =>
        by_cases hz : size o = 0
        · simp [hz]
        · simp only [hz, if_false]; exact ih _ _

/-- A chain the reference places is placed identically by the sequential assembler. -/
theorem seqBody_specChain (chain : List (Bool × Op)) : ∀ (xs : List (PIns Op)) (pc : Nat) (cur : Option Nat)
    (first : Bool) (removed : List Nat) (out : List (Nat × Op)) pc' removed' out',
    xs.map (·.op) = chain.map (fun p => some p.2) →
    specChain size pc cur first removed out chain = some (pc', removed', out') →
    seqBody size (some pc) out xs = .ok (some pc', out') := by
  induction chain with
  | nil =>
    intro xs pc cur first removed out pc' removed' out' hx h
    simp only [specChain, Option.some.injEq, Prod.mk.injEq] at h
    obtain ⟨rfl, _, rfl⟩ := h
    cases xs with
    | nil => rfl
    | cons _ _ => simp at hx
  | cons p chain ih =>
    obtain ⟨ow, op⟩ := p
    intro xs pc cur first removed out pc' removed' out' hx h
    cases xs with
    | nil => simp at hx
    | cons x xs =>
      simp only [List.map_cons, List.cons.injEq] at hx
      simp only [specChain] at h
      by_cases hz : size op = 0
      · simp [hz] at h
      · simp only [hz, if_false] at h
        simp only [seqBody, hx.1, hz, if_false]
        cases ow with
        | false =>
          simp only [Bool.false_eq_true, if_false] at h
          exact ih xs _ _ _ _ _ _ _ _ hx.2 h
        | true =>
          simp only [if_true] at h
          cases cur with
          | none => simp at h
          | some c =>
            simp only at h
            split at h
            · simp at h
            · exact ih xs _ _ _ _ _ _ _ _ hx.2 h

/-! ### the `after` loop of `apply_asm_directives` -/

theorem parRest_spec (chain : List (Bool × Op)) : ∀ (pc : Nat) (cur : Option Nat) (removed : List Nat)
    (out : List (Nat × Op)) (entry : List (PIns Op)) pc' removed' out',
    specChain size pc cur false removed out chain = some (pc', removed', out') →
    ∃ ri, parRest size (chain.map (fun p => (p.1, some p.2))) cur removed entry = .ok (entry ++ ri, removed') ∧
      ri.map (·.op) = chain.map (fun p => some p.2) := by
  induction chain with
  | nil =>
    intro pc cur removed out entry pc' removed' out' h
    simp only [specChain, Option.some.injEq, Prod.mk.injEq] at h
    obtain ⟨_, rfl, _⟩ := h
    exact ⟨[], by simp [parRest], rfl⟩
  | cons p chain ih =>
    obtain ⟨ow, op⟩ := p
    intro pc cur removed out entry pc' removed' out' h
    simp only [specChain] at h
    by_cases hz : size op = 0
    · simp [hz] at h
    · simp only [hz, if_false] at h
      cases ow with
      | false =>
        simp only [Bool.false_eq_true, if_false] at h
        obtain ⟨ri, h1, h2⟩ := ih _ _ _ _ (entry ++ [{ addr := none, op := some op, org := some none }]) _ _ _ h
        refine ⟨{ addr := none, op := some op, org := some none } :: ri, ?_, by simp [h2]⟩
        simp only [List.map_cons, parRest, Bool.false_eq_true, if_false, h1]
        simp
      | true =>
        simp only [if_true] at h
        cases cur with
        | none => simp at h
        | some c =>
          by_cases hc : removed.contains c
          · simp only [hc, Bool.not_false, Bool.and_self, if_true] at h
            simp at h
          · simp only [hc, Bool.not_false, Bool.and_false, Bool.false_eq_true, if_false] at h
            obtain ⟨ri, h1, h2⟩ := ih _ _ _ _ (entry ++ [{ addr := some c, op := some op, org := some (some c) }]) _ _ _ h
            refine ⟨{ addr := some c, op := some op, org := some (some c) } :: ri, ?_, by simp [h2]⟩
            simp only [List.map_cons, parRest, if_true, hc, Bool.false_eq_true, if_false, procIns, hz, h1]
            simp

theorem filterMap_keepOp (subs : List (SubDir Op)) :
    subs.filterMap keepOp =
      (subs.filterMap (fun s => s.op.map (fun o => (s.flags.overwrite, o)))).map (fun p => (p.1, some p.2)) := by
  induction subs with
  | nil => rfl
  | cons s subs ih =>
    cases ho : s.op with
    | none => simp [keepOp, ho, ih]
    | some o => simp [keepOp, ho, ih]

/-- Shape of `compose_instructions(others, current=True)` in the reference's terms. -/
theorem compose_after_shape (orig : Option Op) (s : SubDir Op) (r : List (SubDir Op)) :
    ∃ hd : Bool × Option Op,
      compose (s :: r) true = hd :: (restOf (s :: r)).map (fun p => (p.1, some p.2)) ∧
      hd.1 = (curOf orig (s :: r)).1 ∧ hd.2.or orig = (curOf orig (s :: r)).2 := by
  rw [compose_after, filterMap_keepOp]
  by_cases ha : s.flags.append
  · refine ⟨(false, none), ?_, by simp [curOf, ha], by simp [curOf, ha]⟩
    cases ho : s.op with
    | none => simp [ha, ho, restOf]
    | some o => simp [ha, ho, restOf]
  · refine ⟨(s.flags.overwrite, s.op), by simp [ha, restOf], by simp [curOf, ha], ?_⟩
    cases ho : s.op <;> simp [curOf, ha, ho]

/-- A chain the reference places is placed identically by the sequential assembler (instructions
with an empty operation may be interspersed). -/
theorem seqBody_specChain' (xs : List (PIns Op)) : ∀ (chain : List (Bool × Op)) (pc : Nat) (cur : Option Nat)
    (first : Bool) (removed : List Nat) (out : List (Nat × Op)) pc' removed' out',
    xs.filterMap (·.op) = chain.map (·.2) →
    specChain size pc cur first removed out chain = some (pc', removed', out') →
    seqBody size (some pc) out xs = .ok (some pc', out') := by
  intro chain pc cur first removed out pc' removed' out' hx h
  rw [seqBody_filter]
  apply seqBody_specChain size chain _ pc cur first removed out pc' removed' out' _ h
  clear h
  induction xs generalizing chain with
  | nil => cases chain <;> simp_all
  | cons x xs ih =>
    cases hxo : x.op with
    | none =>
      simp only [List.filterMap_cons, hxo] at hx
      simp only [List.filter_cons, hxo, Option.isSome_none, Bool.false_eq_true, if_false]
      exact ih chain hx
    | some o =>
      simp only [List.filterMap_cons, hxo] at hx
      cases chain with
      | nil => simp at hx
      | cons p chain =>
        simp only [List.map_cons, List.cons.injEq] at hx
        simp only [List.filter_cons, hxo, Option.isSome_some, if_true, List.map_cons, hx.1]
        rw [ih chain hx.2]

theorem seqEntry_append (e : List (PIns Op)) (he : e ≠ []) (ys : List (PIns Op)) (pc : Option Nat)
    (out : List (Nat × Op)) :
    seqEntry size pc out (e ++ ys) =
      match seqEntry size pc out e with
      | .error err => .error err
      | .ok (pc', out') => seqBody size pc' out' ys := by
  cases e with
  | nil => exact absurd rfl he
  | cons h t =>
    simp only [List.cons_append, seqEntry]
    cases h.org with
    | none => rw [← List.cons_append, seqBody_append]
    | some o =>
      cases o with
      | none => rfl
      | some a => simp only; rw [← List.cons_append, seqBody_append]

/-- Simulation relation between the parser state (within one block that started in assembler state
`(pc0, out0)`) and the reference state. -/
structure ParRel (pc0 : Option Nat) (out0 : List (Nat × Op)) (p : ParSt Op) (s : St Op) : Prop where
  removed : p.removed = s.removed
  org : p.org = s.porg
  started : s.started = !p.entry.isEmpty
  porg : s.started = true → s.porg = .unset
  seq : seqEntry size pc0 out0 p.entry = .ok (s.pc, s.out)

/-- Sequencing the instructions a line contributes, from the reference's start address. -/
theorem seq_line (p : ParSt Op) (s : St Op) (pc0 : Option Nat) (out0 : List (Nat × Op)) (l : Line Op)
    (hr : ParRel size pc0 out0 p s) (a : Nat) (ha : startPc s.porg s.pc l.sa = some a)
    (x : PIns Op) (hx : x.org = insOrg p.org l.sa)
    (bl : List (Bool × Option Op)) (tl : List (PIns Op)) (res : Option Nat × List (Nat × Op))
    (hseq : seqBody size (some a) s.out (mkBefore (if p.entry.isEmpty then x.org else none) bl ++ [x] ++ tl) = .ok res) :
    seqEntry size pc0 out0 (p.entry ++ mkBefore (if p.entry.isEmpty then x.org else none) bl ++ [x] ++ tl) = .ok res := by
  obtain ⟨_, horg, hst, hporg, hs⟩ := hr
  cases he : p.entry with
  | nil =>
    simp only [he, seqEntry, List.isEmpty_nil, if_true, List.nil_append] at hs hseq ⊢
    simp only [Except.ok.injEq, Prod.mk.injEq] at hs
    obtain ⟨hpc, hout⟩ := hs
    have hhead : ∀ (rest : List (PIns Op)) (y : PIns Op), y.org = x.org →
        seqBody size (some a) s.out (y :: rest) = .ok res → seqEntry size pc0 out0 (y :: rest) = .ok res := by
      intro rest y hy hq
      simp only [seqEntry, hy, hx, horg]
      cases hp : s.porg with
      | unset =>
        simp only [hp, startPc] at ha
        simp only [insOrg, hpc, ha, hout]; exact hq
      | bare =>
        simp only [hp, startPc] at ha
        simp only [insOrg, ha, hout]; exact hq
      | val v =>
        simp only [hp, startPc, Option.some.injEq] at ha
        simp only [insOrg, ha, hout]; exact hq
    cases bl with
    | nil => simp only [mkBefore, List.nil_append, List.singleton_append] at hseq ⊢; exact hhead _ _ rfl hseq
    | cons b bl =>
      obtain ⟨ow, op⟩ := b
      simp only [mkBefore, List.cons_append] at hseq ⊢
      exact hhead _ { addr := none, op := op, org := x.org } rfl hseq
  | cons h t =>
    have hst' : s.started = true := by simp [hst, he]
    have hu := hporg hst'
    simp only [hu, startPc] at ha
    simp only [he, List.isEmpty_cons, Bool.false_eq_true, if_false] at hseq ⊢
    rw [List.append_assoc, List.append_assoc, seqEntry_append size (h :: t) (by simp)]
    rw [he] at hs
    simp only [hs, ha]
    rw [← List.append_assoc]
    exact hseq

theorem mkBefore_filterMap (o : Option (Option Nat)) (bl : List (Bool × Option Op)) :
    (mkBefore o bl).filterMap (·.op) = bl.filterMap (·.2) := by
  induction bl generalizing o with
  | nil => rfl
  | cons b bl ih => obtain ⟨_, op⟩ := b; cases op <;> simp [mkBefore, ih]

theorem specChain_noow (chain : List Op) : ∀ (pc : Nat) (cur : Option Nat) (first : Bool) (removed : List Nat)
    (out : List (Nat × Op)) pc' removed' out',
    specChain size pc cur first removed out (chain.map (fun o => (false, o))) = some (pc', removed', out') →
    removed' = removed := by
  induction chain with
  | nil => intro pc cur first removed out pc' removed' out' h; simp [specChain] at h; exact h.2.1.symm
  | cons o chain ih =>
    intro pc cur first removed out pc' removed' out' h
    simp only [List.map_cons, specChain] at h
    by_cases hz : size o = 0
    · simp [hz] at h
    · simp only [hz, if_false, Bool.false_eq_true] at h
      exact ih _ _ _ _ _ _ _ _ h

theorem filterMap_of_map_some {α β : Type} (f : α → Option β) (xs : List α) : ∀ (ys : List β),
    xs.map f = ys.map some → xs.filterMap f = ys := by
  induction xs with
  | nil => intro ys h; cases ys <;> simp_all
  | cons x xs ih =>
    intro ys h
    cases ys with
    | nil => simp at h
    | cons y ys =>
      simp only [List.map_cons, List.cons.injEq] at h
      simp [h.1, ih ys h.2]

theorem procIns_none (removed : List Nat) (sa : Option Nat) (ow : Bool) :
    procIns size removed sa (none : Option Op) ow = .ok (none, removed) := by
  cases ow <;> rfl

/-- One instruction line that is not removed: the parser follows the reference. -/
theorem parLine_spec (pc0 : Option Nat) (out0 : List (Nat × Op)) (p : ParSt Op) (s : St Op) (l : Line Op)
    (hr : ParRel size pc0 out0 p s) (hg : isRemoved s.removed l.sa = false) (a : Nat)
    (ha : startPc s.porg s.pc l.sa = some a) (pc' : Nat) (removed' : List Nat) (out' : List (Nat × Op)) (a1 : Nat)
    (hl : specLine size a s.removed s.out l = some (pc', removed', out', a1)) :
    ∃ p', parLine size p l = .ok p' ∧
      ParRel size pc0 out0 p' (St.mk (some pc') out' (setdefault s.amap l.sa a1) removed' true .unset) ∧
      -- shape of the entry, for the label locations
      (∃ (cop : Option Op) (ri : List (PIns Op)) (o1 : List (Nat × Op)),
        p'.entry = p.entry ++ mkBefore (if p.entry.isEmpty then insOrg p.org l.sa else none)
            (compose (l.subs.filter (fun s => s.flags.prepend)) false) ++ [PIns.mk l.sa cop (insOrg p.org l.sa)] ++ ri ∧
        ∀ o, seqBody size (some a) s.out (mkBefore o (compose (l.subs.filter (fun s => s.flags.prepend)) false)) =
          .ok (some a1, o1)) := by
  have hrem := hr.removed
  unfold specLine at hl
  simp only at hl
  split at hl
  · simp at hl
  · rename_i pc1 removed1 out1 hb
    have hrem1 := specChain_noow size _ _ _ _ _ _ _ _ _ hb
    subst hrem1
    split at hl
    · simp at hl
    · rename_i pc2 removed2 out2 hr2
      simp only [Option.some.injEq, Prod.mk.injEq] at hl
      obtain ⟨rfl, rfl, rfl, rfl⟩ := hl
      -- the instructions inserted before
      have hbefore : ∀ o, seqBody size (some a) s.out
          (mkBefore o (compose (l.subs.filter (fun s => s.flags.prepend)) false)) = .ok (some pc1, out1) := by
        intro o
        apply seqBody_specChain' size _ _ a none false s.removed s.out pc1 s.removed out1 _ hb
        rw [mkBefore_filterMap, compose_before_ops, List.map_map]; simp [Function.comp_def]
      unfold parLine
      simp only [hrem, hg, Bool.false_eq_true, if_false, parBefore_append]
      cases hoth : l.subs.filter (fun s => !s.flags.prepend) with
      | nil =>
        simp only [hoth, curOf, restOf, List.filterMap_nil] at hr2
        have hc : compose ([] : List (SubDir Op)) true = [] := rfl
        simp only [hc, List.head?_nil, Option.bind_none, Option.none_or]
        refine ⟨_, rfl, ⟨?_, rfl, by simp, by simp, ?_⟩, ⟨l.op, [], out1, by simp, hbefore⟩⟩
        · cases hop : l.op with
          | none => simp only [hop, specChain, Option.some.injEq, Prod.mk.injEq] at hr2; exact hr2.2.1
          | some o =>
            simp only [hop] at hr2
            exact (specChain_noow size [o] _ _ _ _ _ _ _ _ hr2).symm
        · have := seq_line size p s pc0 out0 l hr a ha { addr := l.sa, op := l.op, org := insOrg p.org l.sa } rfl
            (compose (l.subs.filter (fun s => s.flags.prepend)) false) [] (some pc2, out2)
          simp only [List.append_nil] at this
          apply this
          rw [seqBody_append, hbefore]
          simp only
          cases hop : l.op with
          | none =>
            simp only [hop, specChain, Option.some.injEq, Prod.mk.injEq] at hr2
            obtain ⟨rfl, _, rfl⟩ := hr2
            simp [seqBody]
          | some o =>
            simp only [hop] at hr2
            exact seqBody_specChain' size [_] [(false, o)] _ _ _ _ _ _ _ _ (by simp) hr2
      | cons s0 r0 =>
        rw [hoth] at hr2
        obtain ⟨hd, hcomp, hd1, hd2⟩ := compose_after_shape l.op s0 r0
        simp only [hcomp, List.head?_cons, Option.bind_some, hd2]
        -- the parser's bookkeeping for the line's own instruction and the rest
        have hpar : ∃ ri, (match procIns size s.removed l.sa (curOf l.op (s0 :: r0)).2 hd.1 with
              | .error e => (.error e : Except Err (List (PIns Op) × List Nat))
              | .ok (address, removed1) =>
                parRest size ((restOf (s0 :: r0)).map (fun (p : Bool × Op) => (p.1, some p.2))) address removed1
                  (p.entry ++ mkBefore (if p.entry.isEmpty then insOrg p.org l.sa else none)
                      (compose (l.subs.filter (fun s => s.flags.prepend)) false) ++
                    [PIns.mk l.sa (curOf l.op (s0 :: r0)).2 (insOrg p.org l.sa)])) =
              .ok (p.entry ++ mkBefore (if p.entry.isEmpty then insOrg p.org l.sa else none)
                      (compose (l.subs.filter (fun s => s.flags.prepend)) false) ++
                    [PIns.mk l.sa (curOf l.op (s0 :: r0)).2 (insOrg p.org l.sa)] ++ ri, removed2) ∧
              ri.map (fun (i : PIns Op) => i.op) = (restOf (s0 :: r0)).map (fun (p : Bool × Op) => some p.2) := by
          rw [hd1]
          cases hc2 : (curOf l.op (s0 :: r0)).2 with
          | none =>
            simp only [hc2] at hr2
            simp only [procIns_none]
            exact parRest_spec size _ _ _ _ _ _ _ _ _ hr2
          | some o =>
            simp only [hc2, specChain] at hr2
            by_cases hz : size o = 0
            · simp [hz] at hr2
            · simp only [hz, if_false] at hr2
              cases hc1 : (curOf l.op (s0 :: r0)).1 with
              | false =>
                simp only [hc1, Bool.false_eq_true, if_false] at hr2
                simp only [procIns, Bool.false_eq_true, if_false]
                exact parRest_spec size _ _ _ _ _ _ _ _ _ hr2
              | true =>
                simp only [hc1, if_true] at hr2
                cases hsa : l.sa with
                | none => simp [hsa] at hr2
                | some c =>
                  simp only [hsa, Bool.not_true, Bool.false_and, Bool.false_eq_true, if_false] at hr2
                  simp only [procIns, if_true, hz, if_false]
                  exact parRest_spec size _ _ _ _ _ _ _ _ _ hr2
        obtain ⟨ri, hri, hops⟩ := hpar
        revert hri
        cases procIns size s.removed l.sa (curOf l.op (s0 :: r0)).2 hd.1 with
        | error e => intro hri; simp at hri
        | ok r =>
          obtain ⟨address, removedA⟩ := r
          intro hri
          simp only at hri
          simp only [hri]
          refine ⟨_, rfl, ⟨rfl, rfl, by simp, by simp, ?_⟩, ⟨_, ri, out1, rfl, hbefore⟩⟩
          have := seq_line size p s pc0 out0 l hr a ha
            { addr := l.sa, op := (curOf l.op (s0 :: r0)).2, org := insOrg p.org l.sa } rfl
            (compose (l.subs.filter (fun s => s.flags.prepend)) false) ri (some pc2, out2)
          apply this
          rw [List.append_assoc, seqBody_append, hbefore]
          simp only
          have hf : ri.filterMap (fun (i : PIns Op) => i.op) = (restOf (s0 :: r0)).map (·.2) :=
            filterMap_of_map_some _ _ _ (by simpa [List.map_map, Function.comp_def] using hops)
          cases hc2 : (curOf l.op (s0 :: r0)).2 with
          | none =>
            simp only [hc2] at hr2
            exact seqBody_specChain' size _ _ _ _ _ _ _ _ _ _ (by simp [hf]) hr2
          | some o =>
            simp only [hc2] at hr2
            exact seqBody_specChain' size _ _ _ _ _ _ _ _ _ _ (by simp [hf]) hr2

theorem parItem_spec (pc0 : Option Nat) (out0 : List (Nat × Op)) (p : ParSt Op) (s s' : St Op) (i : Item Op)
    (hr : ParRel size pc0 out0 p s) (h : specItem size s i = some s') :
    ∃ p', parItem size p i = .ok p' ∧ ParRel size pc0 out0 p' s' := by
  cases i with
  | org v =>
    obtain ⟨h1, h2, h3, h4, h5⟩ := hr
    simp only [specItem] at h
    cases hst : s.started with
    | true => simp [hst] at h
    | false =>
      simp only [hst, Bool.false_eq_true, if_false, Option.some.injEq] at h
      subst h
      cases v with
      | none => exact ⟨_, rfl, ⟨h1, rfl, by simpa [hst] using h3, by simp, h5⟩⟩
      | some x => exact ⟨_, rfl, ⟨h1, rfl, by simpa [hst] using h3, by simp, h5⟩⟩
  | remove lo hi =>
    obtain ⟨h1, h2, h3, h4, h5⟩ := hr
    simp only [specItem, Option.some.injEq] at h
    subst h
    exact ⟨_, rfl, ⟨by simp [h1], h2, h3, h4, h5⟩⟩
  | line l =>
    simp only [specItem] at h
    cases hg : isRemoved s.removed l.sa with
    | true =>
      simp only [hg, if_true] at h
      split at h
      · rename_i hc
        simp only [Option.some.injEq] at h
        subst h
        simp only [Bool.and_eq_true, beq_iff_eq, List.isEmpty_iff] at hc
        obtain ⟨⟨hsubs, hporg⟩, _⟩ := hc
        obtain ⟨h1, h2, h3, h4, h5⟩ := hr
        refine ⟨{ removed := p.removed, entry := p.entry, org := .unset }, ?_, ⟨h1, hporg.symm, h3, h4, h5⟩⟩
        have hc : compose ([] : List (SubDir Op)) true = [] := rfl
        have hc' : compose ([] : List (SubDir Op)) false = [] := rfl
        simp [parItem, parLine, hsubs, h1, hg, hc, hc', parBefore]
      · simp at h
    | false =>
      simp only [hg, Bool.false_eq_true, if_false] at h
      split at h
      · simp at h
      · rename_i a ha
        split at h
        · simp at h
        · rename_i pc' removed' out' a1 hl
          simp only [Option.some.injEq] at h
          subst h
          obtain ⟨p', h1, h2, _⟩ := parLine_spec size pc0 out0 p s l hr hg a ha pc' removed' out' a1 hl
          exact ⟨p', h1, h2⟩

theorem parItems_spec (pc0 : Option Nat) (out0 : List (Nat × Op)) (is : List (Item Op)) :
    ∀ (p : ParSt Op) (s s' : St Op), ParRel size pc0 out0 p s → specItems size s is = some s' →
    ∃ p', parItems size p is = .ok p' ∧ ParRel size pc0 out0 p' s' := by
  induction is with
  | nil =>
    intro p s s' hr h
    simp only [specItems, Option.some.injEq] at h
    subst h
    exact ⟨p, rfl, hr⟩
  | cons i is ih =>
    intro p s s' hr h
    simp only [specItems] at h
    split at h
    · simp at h
    · rename_i s1 h1
      obtain ⟨p1, hp1, hr1⟩ := parItem_spec size pc0 out0 p s s1 i hr h1
      obtain ⟨p', hp', hr'⟩ := ih p1 s1 s' hr1 h
      exact ⟨p', by simp [parItems, hp1, hp'], hr'⟩

/-- All blocks: the entries the parser builds, written by `AsmWriter` and assembled sequentially,
end in the reference state. -/
theorem asmBlocks_spec (bs : List (Block Op)) : ∀ (s s' : St Op),
    specBlocks size s bs = some s' →
    ∃ es, parBlocks size s.porg bs = .ok es ∧ asmWrite size s.pc s.out es = .ok (s'.pc, s'.out) := by
  induction bs with
  | nil =>
    intro s s' h
    simp only [specBlocks, Option.some.injEq] at h
    subst h
    exact ⟨[], rfl, rfl⟩
  | cons b bs ih =>
    intro s s' h
    simp only [specBlocks] at h
    split at h
    · simp at h
    · rename_i s1 h1
      have hr0 : ParRel size s.pc s.out { removed := [], entry := [], org := s.porg }
          { s with removed := [], started := false } := ⟨rfl, rfl, rfl, by simp, rfl⟩
      obtain ⟨p1, hp1, hr1⟩ := parItems_spec size s.pc s.out b _ _ s1 hr0 h1
      obtain ⟨es, hes, hw⟩ := ih s1 s' h
      rw [← hr1.org] at hes
      refine ⟨p1.entry :: es, by simp [parBlocks, hp1, hes], ?_⟩
      simp only [asmWrite, hr1.seq, hw]

end AsmLayout
