import SkoolVerif.Proofs.SnaCtlMap
/-!
The internal directive letter `U` ("unknown") never reaches the output of the code-map generator:
step (6) rewrites every `U` block, and nothing afterwards writes a `U`.
-/
namespace SnaCtl

theorem dget_dset_U {d : Dict} {k k' : Nat} {v : Ctl} (hv : v ≠ .U) (h : dget (dset d k' v) k = some .U) :
    k ≠ k' ∧ dget d k = some .U := by
  by_cases hk : k = k'
  · subst hk; rw [dget_dset_eq] at h; simp at h; exact absurd h hv
  · rw [dget_dset_ne _ _ hk] at h; exact ⟨hk, h⟩

theorem applyText_U {bEnd : Nat} {d : Dict} {tb : Nat × Nat} {k : Nat}
    (h : dget (applyText bEnd d tb) k = some .U) : dget d k = some .U := by
  unfold applyText at h
  simp only at h
  split at h
  · exact (dget_dset_U (by simp) (dget_dset_U (by simp) h).2).2
  · exact (dget_dset_U (by simp) h).2

theorem foldl_applyText_U {bEnd : Nat} : ∀ (l : List (Nat × Nat)) (d : Dict) (k : Nat),
    dget (l.foldl (applyText bEnd) d) k = some .U → dget d k = some .U := by
  intro l
  induction l with
  | nil => intro d k h; exact h
  | cons x r ih => intro d k h; exact applyText_U (ih _ k h)

theorem textBlockMap_U {cfg : Cfg} {mem : Mem} {d : Dict} {b : Ctl × Nat × Nat} {k : Nat}
    (h : dget (textBlockMap cfg mem d b) k = some .U) :
    dget d k = some .U ∧ ¬ (b.1 = .U ∧ b.2.1 = k) := by
  unfold textBlockMap at h
  split at h
  · rename_i hU
    have := dget_dset_U (by simp) (foldl_applyText_U _ _ k h)
    exact ⟨this.2, fun hc => this.1 hc.2.symm⟩
  · rename_i hU
    exact ⟨h, fun hc => hU hc.1⟩

theorem foldl_textBlockMap_U {cfg : Cfg} {mem : Mem} : ∀ (bl : List (Ctl × Nat × Nat)) (d : Dict) (k : Nat),
    dget (bl.foldl (textBlockMap cfg mem) d) k = some .U →
    dget d k = some .U ∧ ∀ b ∈ bl, ¬ (b.1 = .U ∧ b.2.1 = k) := by
  intro bl
  induction bl with
  | nil => intro d k h; exact ⟨h, by simp⟩
  | cons x r ih =>
    intro d k h
    have h1 := ih _ k h
    have h2 := textBlockMap_U h1.1
    refine ⟨h2.1, ?_⟩
    intro b hb
    simp at hb
    rcases hb with rfl | hb
    · exact h2.2
    · exact h1.2 b hb

theorem foldl_zeroBlockMap_U {mem : Mem} : ∀ (bl : List (Ctl × Nat × Nat)) (d : Dict) (k : Nat),
    dget (bl.foldl (zeroBlockMap mem) d) k = some .U → dget d k = some .U := by
  intro bl
  induction bl with
  | nil => intro d k h; exact h
  | cons x r ih =>
    intro d k h
    have h1 := ih _ k h
    unfold zeroBlockMap at h1
    split at h1
    · exact (dget_dset_U (by simp) h1).2
    · exact h1

/-- every directive is the start of a block of `_get_blocks`, or the last one -/
theorem getBlocks_or_last : ∀ (d : Dict) (k : Nat) (v : Ctl), Sorted d → dget d k = some v →
    (∃ e, (v, k, e) ∈ getBlocks d) ∨ d.getLast? = some (k, v) := by
  intro d
  induction d with
  | nil => intro k v _ h; simp [dget] at h
  | cons x r ih =>
    obtain ⟨k0, v0⟩ := x
    cases r with
    | nil =>
      intro k v _ h
      simp [dget] at h
      right; simp; exact ⟨h.1.symm, h.2⟩
    | cons y r' =>
      obtain ⟨k1, v1⟩ := y
      intro k v hs h
      rw [sorted_cons] at hs
      rw [dget] at h
      split at h
      · simp at h; subst_vars
        left; exact ⟨k1, by simp [getBlocks]⟩
      · rcases ih k v hs.2 h with ⟨e, he⟩ | hl
        · left; exact ⟨e, by simp [getBlocks]; right; exact he⟩
        · right; rw [List.getLast?_cons_cons]; exact hl

theorem genMap_no_U {dec0 dec : Dec} {dis : Dis} (mem : Mem) (cfg : Cfg) {start end_ : Nat} (hse : start ≤ end_)
    (addrs : List Nat) (ha : ∀ a ∈ addrs, start ≤ a ∧ a < end_) {d : Dict}
    (hr : genMap dec0 dec dis mem cfg start end_ addrs = .ok d) : ∀ k, dget d k ≠ some .U := by
  unfold genMap at hr
  simp only [bind, Except.bind, pure, Except.pure] at hr
  have h1 := initMap_inv hse _ (codeBlocks_in dec0 addrs ha)
  split at hr
  · simp at hr
  · rename_i d2 h2e
    have h2 := step2_inv _ _ d2 h1 h2e
    split at hr
    · simp at hr
    · rename_i d3 h3e
      have h3 := step3_inv _ _ d3 h2 h3e
      split at hr
      · simp at hr
      · rename_i d4 h4e
        have h4 := step4_inv _ _ d4 (getBlocks_in h3) h3 h4e
        split at hr
        · simp at hr
        · rename_i d5 h5e
          have h5 := step5_inv _ _ d5 h4 h5e
          simp at hr
          intro k hk
          rw [← hr] at hk
          have hk6 := foldl_zeroBlockMap_U _ _ k hk
          have hk5 := foldl_textBlockMap_U _ _ k hk6
          rcases getBlocks_or_last d5 k .U h5.sorted hk5.1 with ⟨e, he⟩ | hl
          · exact hk5.2 _ he ⟨rfl, rfl⟩
          · rw [inv_last h5] at hl; simp at hl

end SnaCtl
