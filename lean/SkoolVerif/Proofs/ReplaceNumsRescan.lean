import SkoolVerif.Proofs.ReplaceNumsLemmas
/-! Re-tokenising the output of `_replace_nums` gives the converted token list again (C04). -/
namespace ReplaceNums

/-! ### numerals scan to themselves -/

/-- What follows a completed numeral. -/
def afterNum : List Char → List Tok
  | [] => []
  | c :: r => scanFrom (.txt [c] (isDelim c)) r

theorem scanFrom_dec (s : List Char) : ∀ ds : List Char,
    scanFrom (.dec ds) s = .dec (ds ++ s.takeWhile isDec) :: afterNum (s.dropWhile isDec) := by
  induction s with
  | nil => intro ds; simp [scanFrom, St.flush, afterNum]
  | cons c cs ih =>
    intro ds
    by_cases hc : isDec c
    · simp [scanFrom, step, hc, ih]
    · simp [scanFrom, step, hc, afterNum]

theorem scanFrom_hex (s : List Char) : ∀ ds : List Char,
    scanFrom (.hex ds) s = .hex (ds ++ s.takeWhile isHex) :: afterNum (s.dropWhile isHex) := by
  induction s with
  | nil => intro ds; simp [scanFrom, St.flush, afterNum]
  | cons c cs ih =>
    intro ds
    by_cases hc : isHex c
    · simp [scanFrom, step, hc, ih]
    · simp [scanFrom, step, hc, afterNum]

theorem takeWhile_all {p : Char → Bool} (ds rest : List Char) (hall : ∀ d ∈ ds, p d = true)
    (hrest : ∀ c r, rest = c :: r → p c = false) :
    (ds ++ rest).takeWhile p = ds ∧ (ds ++ rest).dropWhile p = rest := by
  induction ds with
  | nil =>
    cases rest with
    | nil => simp
    | cons c r => simp [hrest c r rfl]
  | cons d ds ih =>
    have hd := hall d (by simp)
    have := ih (fun x hx => hall x (by simp [hx]))
    simp [hd, this]

/-- A decimal numeral after a delimiter, followed by a non-digit, is one token. -/
theorem scan_dec_numeral (acc : List Char) (d : Char) (ds rest : List Char) (hd : isDec d = true)
    (hall : ∀ x ∈ ds, isDec x = true) (hrest : ∀ c r, rest = c :: r → isDec c = false) :
    scanFrom (.txt acc true) (d :: ds ++ rest) = .text acc.reverse :: .dec (d :: ds) :: afterNum rest := by
  obtain ⟨h1, h2⟩ := takeWhile_all (p := isDec) ds rest hall hrest
  simp [scanFrom, step, hd, scanFrom_dec, h1, h2]

/-- A hexadecimal numeral after a delimiter, followed by a non-hex character, is one token. -/
theorem scan_hex_numeral (acc : List Char) (d : Char) (ds rest : List Char) (hd : isHex d = true)
    (hall : ∀ x ∈ ds, isHex x = true) (hrest : ∀ c r, rest = c :: r → isHex c = false) :
    scanFrom (.txt acc true) ('$' :: d :: ds ++ rest) = .text acc.reverse :: .hex (d :: ds) :: afterNum rest := by
  obtain ⟨h1, h2⟩ := takeWhile_all (p := isHex) ds rest hall hrest
  have hnd : isDec '$' = false := by decide
  simp [scanFrom, step, hd, hnd, scanFrom_hex, h1, h2]

/-! ### structure of scanner output -/

/-- From a text state the first token is a text that extends the pending characters. -/
theorem scanFrom_txt_head (s : List Char) : ∀ (acc : List Char) (pd : Bool),
    (∃ t rest, scanFrom (.txt acc pd) s = .text (acc.reverse ++ t) :: rest) ∧
    (∃ t rest, scanFrom (.dollar acc) s = .text (acc.reverse ++ t) :: rest) := by
  induction s with
  | nil => intro acc pd; exact ⟨⟨[], [], by simp [scanFrom, St.flush]⟩, ⟨['$'], [], by simp [scanFrom, St.flush]⟩⟩
  | cons c cs ih =>
    intro acc pd
    constructor
    · simp only [scanFrom, step]
      split
      · exact ⟨[], scanFrom (.dec [c]) cs, by simp⟩
      · split
        · obtain ⟨t, rest, h⟩ := (ih acc pd).2
          exact ⟨t, rest, by simpa using h⟩
        · obtain ⟨t, rest, h⟩ := (ih (c :: acc) (isDelim c)).1
          exact ⟨c :: t, rest, by simpa using h⟩
    · simp only [scanFrom, step]
      split
      · exact ⟨[], scanFrom (.hex [c]) cs, by simp⟩
      · obtain ⟨t, rest, h⟩ := (ih (c :: '$' :: acc) (isDelim c)).1
        exact ⟨'$' :: c :: t, rest, by simpa using h⟩

theorem afterNum_head (c : Char) (r : List Char) : ∃ t rest, afterNum (c :: r) = .text (c :: t) :: rest := by
  obtain ⟨t, rest, h⟩ := (scanFrom_txt_head r [c] (isDelim c)).1
  exact ⟨t, rest, by simpa [afterNum] using h⟩

theorem convAll_text (fmt : Option HexFmt) (k : Nat) (prev cs : List Char) (ts : List Tok) :
    convAll fmt k prev (.text cs :: ts) = .text cs :: convAll fmt k cs ts := by
  simp [convAll]

/-- A decimal numeral is left alone or becomes a formatted hexadecimal numeral. -/
theorem convAll_dec (fmt : Option HexFmt) (k : Nat) (prev D : List Char) (ts : List Tok) :
    ∃ X k', convAll fmt k prev (.dec D :: ts) = X :: convAll fmt k' [] ts ∧
      (X = .dec D ∨ ∃ f, X = .hex (fmtHex f (parseDec D))) := by
  cases k with
  | succ k' => exact ⟨.dec D, k', by simp [convAll], Or.inl rfl⟩
  | zero =>
    by_cases he : eligible prev
    · cases fmt with
      | none => exact ⟨.dec D, 0, by simp [convAll, he, conv], Or.inl rfl⟩
      | some f => exact ⟨.hex (fmtHex f (parseDec D)), 0, by simp [convAll, he, conv], Or.inr ⟨f, rfl⟩⟩
    · exact ⟨.dec D, 0, by simp [convAll, he], Or.inl rfl⟩

/-- A hexadecimal numeral is left alone or becomes a decimal numeral. -/
theorem convAll_hex (fmt : Option HexFmt) (k : Nat) (prev H : List Char) (ts : List Tok) :
    ∃ X k', convAll fmt k prev (.hex H :: ts) = X :: convAll fmt k' [] ts ∧
      (X = .hex H ∨ X = .dec (fmtDec (parseHex H))) := by
  cases k with
  | succ k' => exact ⟨.hex H, k', by simp [convAll], Or.inl rfl⟩
  | zero =>
    by_cases he : eligible prev
    · cases fmt with
      | none => exact ⟨.dec (fmtDec (parseHex H)), 0, by simp [convAll, he, conv], Or.inr rfl⟩
      | some f => exact ⟨.hex H, 0, by simp [convAll, he, conv], Or.inl rfl⟩
    · exact ⟨.hex H, 0, by simp [convAll, he], Or.inl rfl⟩

/-! ### digit characters -/

theorem isDec_digitChar : ∀ d, d < 10 → isDec (digitChar false d) = true := by decide
theorem isHex_digitChar (l : Bool) : ∀ d, d < 16 → isHex (digitChar l d) = true := by cases l <;> decide
theorem isHex_zero : isHex '0' = true := by decide
theorem isHex_of_isDec (c : Char) (h : isDec c = true) : isHex c = true := by simp [isHex, h]

theorem digitsAux_ne_nil (b fuel n : Nat) (acc : List Nat) (h : n < fuel) : digitsAux b fuel n acc ≠ [] := by
  induction fuel generalizing n acc with
  | zero => omega
  | succ fuel ih =>
    unfold digitsAux
    by_cases hn : n < b
    · simp [hn]
    · simp only [hn, if_false]
      by_cases hb : b ≤ 1
      · -- degenerate bases never occur; the fuel still runs out on a non-empty accumulator
        have : ∀ (fuel n : Nat) (acc : List Nat), acc ≠ [] → digitsAux b fuel n acc ≠ [] := by
          intro fuel
          induction fuel with
          | zero => intro n acc h; simpa [digitsAux] using h
          | succ fuel ih2 =>
            intro n acc h
            unfold digitsAux
            split
            · simp
            · exact ih2 _ _ (by simp)
        exact this _ _ _ (by simp)
      · have hpos : 0 < n := by omega
        have : n / b < n := Nat.div_lt_self hpos (by omega)
        exact ih (n / b) _ (by omega)

theorem fmtDec_spec (n : Nat) : ∃ d ds, fmtDec n = d :: ds ∧ isDec d = true ∧ ∀ x ∈ ds, isDec x = true := by
  have hne : digits 10 n ≠ [] := digitsAux_ne_nil 10 (n + 1) n [] (by omega)
  have hall : ∀ x ∈ fmtDec n, isDec x = true := by
    intro x hx
    simp only [fmtDec, List.mem_map] at hx
    obtain ⟨d, hd, rfl⟩ := hx
    exact isDec_digitChar d (digits_lt 10 (by omega) n d hd)
  cases h : fmtDec n with
  | nil => simp [fmtDec] at h; exact absurd h hne
  | cons d ds => exact ⟨d, ds, rfl, hall d (by simp [h]), fun x hx => hall x (by simp [h, hx])⟩

theorem fmtHex_spec (f : HexFmt) (n : Nat) : ∃ d ds, fmtHex f n = d :: ds ∧ isHex d = true ∧ ∀ x ∈ ds, isHex x = true := by
  have hne : digits 16 n ≠ [] := digitsAux_ne_nil 16 (n + 1) n [] (by omega)
  have hall : ∀ x ∈ fmtHex f n, isHex x = true := by
    intro x hx
    simp only [fmtHex, List.mem_append, List.mem_replicate, List.mem_map] at hx
    rcases hx with ⟨_, rfl⟩ | ⟨d, hd, rfl⟩
    · exact isHex_zero
    · exact isHex_digitChar f.lower d (digits_lt 16 (by omega) n d hd)
  cases h : fmtHex f n with
  | nil =>
    simp only [fmtHex, List.append_eq_nil_iff, List.map_eq_nil_iff] at h
    exact absurd h.2 hne
  | cons d ds => exact ⟨d, ds, rfl, hall d (by simp [h]), fun x hx => hall x (by simp [h, hx])⟩

theorem dropWhile_head {p : Char → Bool} (l : List Char) (c : Char) (r : List Char)
    (h : l.dropWhile p = c :: r) : p c = false := by
  induction l with
  | nil => simp at h
  | cons x xs ih =>
    simp only [List.dropWhile_cons] at h
    split at h
    · exact ih h
    · rename_i hx
      simp only [List.cons.injEq] at h
      rw [← h.1]; simpa using hx

/-! ### re-scanning the converted text -/

/-- Side condition: a decimal numeral is not directly followed by a hexadecimal letter (`12AB`
would read as `$0CAB` after conversion to hexadecimal). -/
def followOk : Tok → List Tok → Bool
  | .dec _, .text (c :: _) :: _ => !isHex c
  | _, _ => true

def wfToks : List Tok → Bool
  | [] => true
  | t :: ts => followOk t ts && wfToks ts

theorem drop_rev_append (acc rest : List Char) : (acc.reverse ++ rest).drop acc.length = rest := by
  have : acc.length = acc.reverse.length := by simp
  rw [this, List.drop_left]

theorem join_cons (t : Tok) (ts : List Tok) : join (t :: ts) = t.render ++ join ts := by
  simp [join]

/-- After a numeral: the rest re-scans by the induction hypothesis. -/
theorem numeral_tail (fmt : Option HexFmt) (acc : List Char) (X : Tok) (p : Char → Bool) (k' : Nat)
    (dw : List Char)
    (hscan : ∀ rest, (∀ c r, rest = c :: r → p c = false) →
      scanFrom (.txt acc true) (X.render ++ rest) = .text acc.reverse :: X :: afterNum rest)
    (hdw : ∀ c r, dw = c :: r → p c = false)
    (ih : ∀ c r, dw = c :: r →
      scanFrom (.txt [c] (isDelim c)) ((join (convAll fmt k' [] (scanFrom (.txt [c] (isDelim c)) r))).drop 1) =
        convAll fmt k' [] (scanFrom (.txt [c] (isDelim c)) r)) :
    scanFrom (.txt acc true) (X.render ++ join (convAll fmt k' [] (afterNum dw))) =
      .text acc.reverse :: X :: convAll fmt k' [] (afterNum dw) := by
  generalize X.render = rX at hscan ⊢
  cases dw with
  | nil =>
    simp only [afterNum, convAll, join, List.flatMap_nil]
    rw [hscan [] (by intro c r h; cases h)]
    rfl
  | cons c r =>
    obtain ⟨t, rest, ht⟩ := afterNum_head c r
    have ih' := ih c r rfl
    simp only [afterNum] at ht ⊢
    rw [ht, convAll_text, join_cons] at ih' ⊢
    simp only [Tok.render, List.cons_append, List.drop_succ_cons, List.drop_zero] at ih' ⊢
    rw [hscan (c :: (t ++ join (convAll fmt k' (c :: t) rest))) (by
      intro c' r' h; simp only [List.cons.injEq] at h; rw [← h.1]; exact hdw c r rfl)]
    simp only [afterNum, ih']

theorem followOk_dec (D : List Char) (c : Char) (t : List Char) (rest : List Tok)
    (h : followOk (.dec D) (.text (c :: t) :: rest) = true) : isHex c = false := by
  simpa [followOk] using h

theorem length_dropWhile_le' (p : Char → Bool) (l : List Char) : (l.dropWhile p).length ≤ l.length := by
  induction l with
  | nil => simp
  | cons x xs ih =>
    simp only [List.dropWhile_cons]
    split
    · simp only [List.length_cons]; omega
    · simp

theorem mem_takeWhile_imp' (p : Char → Bool) (l : List Char) (x : Char) (h : x ∈ l.takeWhile p) : p x = true := by
  induction l with
  | nil => simp at h
  | cons y ys ih =>
    simp only [List.takeWhile_cons] at h
    split at h
    · rename_i hy
      simp only [List.mem_cons] at h
      rcases h with rfl | h
      · exact hy
      · exact ih h
    · simp at h

theorem drop_rev_nil (acc : List Char) : acc.reverse.drop acc.length = [] := by
  have := drop_rev_append acc []
  simp at this ⊢

theorem wfToks_tail (t : Tok) (ts : List Tok) (h : wfToks (t :: ts) = true) : wfToks ts = true := by
  simp only [wfToks, Bool.and_eq_true] at h; exact h.2

/-- The tokens after a decimal numeral start with a non-hex character. -/
theorem dec_follow (D : List Char) (dw : List Char) (h : followOk (.dec D) (afterNum dw) = true) :
    ∀ c r, dw = c :: r → isHex c = false := by
  intro c r hdw
  subst hdw
  obtain ⟨t, rest, ht⟩ := afterNum_head c r
  rw [ht] at h
  exact followOk_dec D c t rest h

/-- Main induction: from a text state (or before a pending `$`) the converted text re-scans to the
converted token list. -/
theorem rescan_aux (fmt : Option HexFmt) : ∀ (n : Nat) (s : List Char), s.length ≤ n →
    (∀ (acc : List Char) (pd : Bool) (k : Nat), wfToks (scanFrom (.txt acc pd) s) = true →
      scanFrom (.txt acc pd) ((join (convAll fmt k [] (scanFrom (.txt acc pd) s))).drop acc.length) =
        convAll fmt k [] (scanFrom (.txt acc pd) s)) ∧
    (∀ (acc : List Char) (k : Nat), wfToks (scanFrom (.dollar acc) s) = true →
      scanFrom (.txt acc true) ((join (convAll fmt k [] (scanFrom (.dollar acc) s))).drop acc.length) =
        convAll fmt k [] (scanFrom (.dollar acc) s)) := by
  intro n
  induction n with
  | zero =>
    intro s hs
    have : s = [] := List.length_eq_zero_iff.mp (by omega)
    subst this
    constructor
    · intro acc pd k _
      simp [scanFrom, St.flush, convAll, join, Tok.render, drop_rev_nil]
    · intro acc k _
      have hd : isDec '$' = false := by decide
      simp [scanFrom, St.flush, convAll, join, Tok.render, step, hd]
  | succ n ih =>
    intro s hs
    cases s with
    | nil => exact ih [] (by simp)
    | cons c cs =>
      have hcs : cs.length ≤ n := by simp only [List.length_cons] at hs; omega
      have ihcs := ih cs hcs
      constructor
      · -- from a text state
        intro acc pd k hwf
        by_cases h1 : (pd && isDec c) = true
        · -- a decimal numeral starts here
          simp only [Bool.and_eq_true] at h1
          obtain ⟨hpd, hdc⟩ := h1
          subst hpd
          have hscan0 : scanFrom (.txt acc true) (c :: cs) =
              .text acc.reverse :: .dec (c :: cs.takeWhile isDec) :: afterNum (cs.dropWhile isDec) := by
            simp [scanFrom, step, hdc, scanFrom_dec]
          rw [hscan0] at hwf ⊢
          obtain ⟨X, k', hX, hkind⟩ := convAll_dec fmt k acc.reverse (c :: cs.takeWhile isDec) (afterNum (cs.dropWhile isDec))
          rw [convAll_text, hX, join_cons, join_cons]
          simp only [Tok.render, drop_rev_append]
          have hwf1 := wfToks_tail _ _ hwf
          have hfol : followOk (.dec (c :: cs.takeWhile isDec)) (afterNum (cs.dropWhile isDec)) = true := by
            simp only [wfToks, Bool.and_eq_true] at hwf1; exact hwf1.1
          have hihr : ∀ c' r, cs.dropWhile isDec = c' :: r →
              scanFrom (.txt [c'] (isDelim c')) ((join (convAll fmt k' [] (scanFrom (.txt [c'] (isDelim c')) r))).drop 1) =
                convAll fmt k' [] (scanFrom (.txt [c'] (isDelim c')) r) := by
            intro c' r hr
            have hlen : r.length ≤ n := by
              have := length_dropWhile_le' isDec cs
              rw [hr] at this; simp only [List.length_cons] at this; omega
            have hw : wfToks (scanFrom (.txt [c'] (isDelim c')) r) = true := by
              have := wfToks_tail _ _ hwf1
              rw [hr] at this; simpa [afterNum] using this
            exact (ih r hlen).1 [c'] (isDelim c') k' hw
          rcases hkind with rfl | ⟨f, rfl⟩
          · have := numeral_tail fmt acc (.dec (c :: cs.takeWhile isDec)) isDec k' _
              (fun rest hrest => by
                simpa [Tok.render] using scan_dec_numeral acc c (cs.takeWhile isDec) rest hdc
                  (fun x hx => mem_takeWhile_imp' _ _ x hx) hrest)
              (fun c' r hr => dropWhile_head cs c' r hr) hihr
            simpa [Tok.render] using this
          · obtain ⟨d, ds, hfh, hd, hds⟩ := fmtHex_spec f (parseDec (c :: cs.takeWhile isDec))
            have := numeral_tail fmt acc (.hex (fmtHex f (parseDec (c :: cs.takeWhile isDec)))) isHex k' _
              (fun rest hrest => by
                rw [hfh]
                simpa [Tok.render] using scan_hex_numeral acc d ds rest hd hds hrest)
              (dec_follow _ _ hfol) hihr
            simpa [Tok.render] using this
        · by_cases h2 : (pd && c == '$') = true
          · -- a `$` that may start a numeral
            have hstep : scanFrom (.txt acc pd) (c :: cs) = scanFrom (.dollar acc) cs := by
              simp [scanFrom, step, h1, h2]
            simp only [Bool.and_eq_true] at h2
            rw [hstep] at hwf ⊢
            have := ihcs.2 acc k hwf
            rw [h2.1]
            exact this
          · -- an ordinary character
            have hstep : scanFrom (.txt acc pd) (c :: cs) = scanFrom (.txt (c :: acc) (isDelim c)) cs := by
              simp [scanFrom, step, h1, h2]
            rw [hstep] at hwf ⊢
            have hI := ihcs.1 (c :: acc) (isDelim c) k hwf
            obtain ⟨t, rest, ht⟩ := (scanFrom_txt_head cs (c :: acc) (isDelim c)).1
            rw [ht, convAll_text, join_cons] at hI ⊢
            simp only [Tok.render, List.reverse_cons, List.append_assoc, List.length_cons] at hI ⊢
            have e1 : (acc.reverse ++ ([c] ++ (t ++ join (convAll fmt k (acc.reverse ++ ([c] ++ t)) rest)))).drop acc.length =
                c :: (t ++ join (convAll fmt k (acc.reverse ++ ([c] ++ t)) rest)) := by
              rw [drop_rev_append]; rfl
            have e2 : (acc.reverse ++ ([c] ++ (t ++ join (convAll fmt k (acc.reverse ++ ([c] ++ t)) rest)))).drop (acc.length + 1) =
                t ++ join (convAll fmt k (acc.reverse ++ ([c] ++ t)) rest) := by
              rw [← List.drop_drop, drop_rev_append]; rfl
            rw [e1]
            rw [e2] at hI
            simp only [scanFrom, step, h1, h2, Bool.false_eq_true, if_false]
            exact hI
      · -- before a pending `$`
        intro acc k hwf
        have hdd : isDec '$' = false := by decide
        by_cases h1 : isHex c = true
        · -- a hexadecimal numeral
          have hscan0 : scanFrom (.dollar acc) (c :: cs) =
              .text acc.reverse :: .hex (c :: cs.takeWhile isHex) :: afterNum (cs.dropWhile isHex) := by
            simp [scanFrom, step, h1, scanFrom_hex]
          rw [hscan0] at hwf ⊢
          obtain ⟨X, k', hX, hkind⟩ := convAll_hex fmt k acc.reverse (c :: cs.takeWhile isHex) (afterNum (cs.dropWhile isHex))
          rw [convAll_text, hX, join_cons, join_cons]
          simp only [Tok.render, drop_rev_append]
          have hwf1 := wfToks_tail _ _ hwf
          have hihr : ∀ c' r, cs.dropWhile isHex = c' :: r →
              scanFrom (.txt [c'] (isDelim c')) ((join (convAll fmt k' [] (scanFrom (.txt [c'] (isDelim c')) r))).drop 1) =
                convAll fmt k' [] (scanFrom (.txt [c'] (isDelim c')) r) := by
            intro c' r hr
            have hlen : r.length ≤ n := by
              have := length_dropWhile_le' isHex cs
              rw [hr] at this; simp only [List.length_cons] at this; omega
            have hw : wfToks (scanFrom (.txt [c'] (isDelim c')) r) = true := by
              have := wfToks_tail _ _ hwf1
              rw [hr] at this; simpa [afterNum] using this
            exact (ih r hlen).1 [c'] (isDelim c') k' hw
          rcases hkind with rfl | rfl
          · have := numeral_tail fmt acc (.hex (c :: cs.takeWhile isHex)) isHex k' _
              (fun rest hrest => by
                simpa [Tok.render] using scan_hex_numeral acc c (cs.takeWhile isHex) rest h1
                  (fun x hx => mem_takeWhile_imp' _ _ x hx) hrest)
              (fun c' r hr => dropWhile_head cs c' r hr) hihr
            simpa [Tok.render] using this
          · obtain ⟨d, ds, hfd, hd, hds⟩ := fmtDec_spec (parseHex (c :: cs.takeWhile isHex))
            have := numeral_tail fmt acc (.dec (fmtDec (parseHex (c :: cs.takeWhile isHex)))) isDec k' _
              (fun rest hrest => by
                rw [hfd]
                simpa [Tok.render] using scan_dec_numeral acc d ds rest hd hds hrest)
              (fun c' r hr => by
                have := dropWhile_head cs c' r hr
                cases hc : isDec c' with
                | false => rfl
                | true => rw [isHex_of_isDec c' hc] at this; exact absurd this (by simp))
              hihr
            simpa [Tok.render] using this
        · -- the `$` was plain text
          have hstep : scanFrom (.dollar acc) (c :: cs) = scanFrom (.txt (c :: '$' :: acc) (isDelim c)) cs := by
            simp [scanFrom, step, h1]
          rw [hstep] at hwf ⊢
          have hI := ihcs.1 (c :: '$' :: acc) (isDelim c) k hwf
          obtain ⟨t, rest, ht⟩ := (scanFrom_txt_head cs (c :: '$' :: acc) (isDelim c)).1
          rw [ht, convAll_text, join_cons] at hI ⊢
          simp only [Tok.render, List.reverse_cons, List.append_assoc, List.length_cons] at hI ⊢
          have e1 : (acc.reverse ++ (['$'] ++ ([c] ++ (t ++ join (convAll fmt k (acc.reverse ++ (['$'] ++ ([c] ++ t))) rest))))).drop acc.length =
              '$' :: c :: (t ++ join (convAll fmt k (acc.reverse ++ (['$'] ++ ([c] ++ t))) rest)) := by
            rw [drop_rev_append]; rfl
          have e2 : (acc.reverse ++ (['$'] ++ ([c] ++ (t ++ join (convAll fmt k (acc.reverse ++ (['$'] ++ ([c] ++ t))) rest))))).drop (acc.length + 1 + 1) =
              t ++ join (convAll fmt k (acc.reverse ++ (['$'] ++ ([c] ++ t))) rest) := by
            rw [show acc.length + 1 + 1 = acc.length + 2 by omega, ← List.drop_drop, drop_rev_append]; rfl
          rw [e1]
          rw [e2] at hI
          simp only [scanFrom, step, hdd, Bool.and_false, Bool.false_eq_true, if_false, Bool.true_and, beq_self_eq_true,
            if_true, h1]
          exact hI

/-- Re-tokenising the output of `_replace_nums` yields exactly the converted token list. -/
theorem rescan_stable (fmt : Option HexFmt) (skipBit : Bool) (pre : Option Char) (s : List Char)
    (hwf : wfToks (scan (pre.getD '(') s) = true) :
    scan (pre.getD '(') (replaceNums fmt skipBit pre s) =
      convAll fmt (if skipBit then 1 else 0) [] (scan (pre.getD '(') s) := by
  have := (rescan_aux fmt s.length s (Nat.le_refl _)).1 [pre.getD '('] (isDelim (pre.getD '('))
    (if skipBit then 1 else 0) hwf
  simpa [scan, replaceNums] using this

end ReplaceNums
