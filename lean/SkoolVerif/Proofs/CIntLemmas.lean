import SkoolVerif.Prelude.CInt
import SkoolVerif.Proofs.RangeManual
import SkoolVerif.Proofs.ContendLemmas
/-!
Lemmas about the C integer wraps of `Prelude/CInt.lean` and the generic tactic `ceq_tac` that proves
a handler translated from `c/csimulator.c` equal to the closure translated from `simulator.py` /
`cmiosimulator.py` (`Gen/CVsPyThms.lean`, `Gen/CCmioVsPyThms.lean`).

The tactic never mentions a handler's internals:
1. unfold both definitions (`csim_handler`, `sim_handler`);
2. `simp` with the conditional rewrites `0 ≤ x → x < 2^32 → CInt.u32 x = x` (and `u8/u64/i32`); the side
   goals are discharged by `range_facts` (range lemmas for every register/memory/table subterm of the
   side goal, `Proofs/RangeManual.lean`) followed by `omega`; masks `& 0xFFFF`, `& 0xFF`, `& 0x7F` become
   `% 65536`, `% 256`, `% 128` on both sides;
3. wraps that genuinely wrap (`sp - 2`, `bc - 1`, `d - 256`, …) are unfolded to `%`;
4. `grind` closes the remaining goal (same if-structure on both sides, linear arithmetic with literal
   moduli under `mget`/`rset`).
-/
namespace CInt
open Z80

/-! ### wraps vanish on in-range values -/

theorem u8_of_range (x : Int) (h0 : 0 ≤ x) (h1 : x < 256) : u8 x = x := by unfold u8; omega
theorem u32_of_range (x : Int) (h0 : 0 ≤ x) (h1 : x < 4294967296) : u32 x = x := by unfold u32; omega
theorem u64_of_range (x : Int) (h0 : 0 ≤ x) (h1 : x < 18446744073709551616) : u64 x = x := by unfold u64; omega
theorem i32_of_range (x : Int) (h0 : -2147483648 ≤ x) (h1 : x < 2147483648) : i32 x = x := by unfold i32; omega
theorem i64_of_range (x : Int) (h0 : -9223372036854775808 ≤ x) (h1 : x < 9223372036854775808) : i64 x = x := by
  unfold i64; omega

/-- the same with one side condition (one discharger call per wrap) -/
theorem u8_of_range' (x : Int) (h : 0 ≤ x ∧ x < 256) : u8 x = x := u8_of_range x h.1 h.2
theorem u32_of_range' (x : Int) (h : 0 ≤ x ∧ x < 4294967296) : u32 x = x := u32_of_range x h.1 h.2
theorem u64_of_range' (x : Int) (h : 0 ≤ x ∧ x < 18446744073709551616) : u64 x = x := u64_of_range x h.1 h.2
theorem i32_of_range' (x : Int) (h : -2147483648 ≤ x ∧ x < 2147483648) : i32 x = x := i32_of_range x h.1 h.2

theorem u8_range (x : Int) : 0 ≤ u8 x ∧ u8 x < 256 := by unfold u8; omega
theorem u32_range (x : Int) : 0 ≤ u32 x ∧ u32 x < 4294967296 := by unfold u32; omega
theorem u64_range (x : Int) : 0 ≤ u64 x ∧ u64 x < 18446744073709551616 := by unfold u64; omega
theorem i32_range (x : Int) : -2147483648 ≤ i32 x ∧ i32 x < 2147483648 := by unfold i32; omega

/-! ### 2^32 (2^64) is a multiple of every modulus the handlers use: a wrap under a smaller modulus is invisible
(for all `Int`, negative included) -/

theorem u32_mod_65536 (x : Int) : u32 x % 65536 = x % 65536 := by unfold u32; omega
theorem u32_mod_256 (x : Int) : u32 x % 256 = x % 256 := by unfold u32; omega
theorem u32_mod_128 (x : Int) : u32 x % 128 = x % 128 := by unfold u32; omega
theorem u32_mod_16 (x : Int) : u32 x % 16 = x % 16 := by unfold u32; omega
theorem u32_mod_8 (x : Int) : u32 x % 8 = x % 8 := by unfold u32; omega
theorem u32_mod_2 (x : Int) : u32 x % 2 = x % 2 := by unfold u32; omega
theorem u32_mod_4096 (x : Int) : u32 x % 4096 = x % 4096 := by unfold u32; omega
theorem i32_mod_65536 (x : Int) : i32 x % 65536 = x % 65536 := by unfold i32; omega
theorem i32_mod_256 (x : Int) : i32 x % 256 = x % 256 := by unfold i32; omega
theorem u64_mod_65536 (x : Int) : u64 x % 65536 = x % 65536 := by unfold u64; omega
theorem u8_mod_256 (x : Int) : u8 x = x % 256 := rfl

/-! ### wraps of wraps, and wraps inside sums (2^32 arithmetic is a ring homomorphism) -/

theorem i32_u32 (x : Int) : i32 (u32 x) = i32 x := by unfold i32 u32; omega
theorem u32_i32 (x : Int) : u32 (i32 x) = u32 x := by unfold i32 u32; omega
theorem u32_u32 (x : Int) : u32 (u32 x) = u32 x := by unfold u32; omega
theorem u8_u32 (x : Int) : u8 (u32 x) = u8 x := by unfold u8 u32; omega
theorem u8_i32 (x : Int) : u8 (i32 x) = u8 x := by unfold u8 i32; omega
theorem u32_add_u32_l (a b : Int) : u32 (u32 a + b) = u32 (a + b) := by unfold u32; omega
theorem u32_add_u32_r (a b : Int) : u32 (a + u32 b) = u32 (a + b) := by unfold u32; omega
theorem u32_sub_u32_l (a b : Int) : u32 (u32 a - b) = u32 (a - b) := by unfold u32; omega
theorem u32_sub_u32_r (a b : Int) : u32 (a - u32 b) = u32 (a - b) := by unfold u32; omega

/-! ### under `% 65536` / `% 256` a 2^32 wrap of a summand is invisible (address and byte arithmetic) -/

theorem add_u32_mod_65536 (a b : Int) : (a + u32 b) % 65536 = (a + b) % 65536 := by unfold u32; omega
theorem u32_add_mod_65536 (a b : Int) : (u32 a + b) % 65536 = (a + b) % 65536 := by unfold u32; omega
theorem sub_u32_mod_65536 (a b : Int) : (a - u32 b) % 65536 = (a - b) % 65536 := by unfold u32; omega
theorem u32_sub_mod_65536 (a b : Int) : (u32 a - b) % 65536 = (a - b) % 65536 := by unfold u32; omega
theorem add_u32_mod_256 (a b : Int) : (a + u32 b) % 256 = (a + b) % 256 := by unfold u32; omega
theorem u32_add_mod_256 (a b : Int) : (u32 a + b) % 256 = (a + b) % 256 := by unfold u32; omega
theorem add_ite_u32_mod_65536 (a x y : Int) (c : Prop) [Decidable c] :
    (a + (if c then x else u32 y)) % 65536 = (a + (if c then x else y)) % 65536 := by
  split <;> simp only [add_u32_mod_65536]
theorem add_u32_ite_mod_65536 (a x y : Int) (c : Prop) [Decidable c] :
    (a + u32 (if c then x else y)) % 65536 = (a + (if c then x else y)) % 65536 := add_u32_mod_65536 _ _

/-! ### masks `2^k - 1` are `% 2^k` (two's complement, all of `Int`) -/

theorem land_mask (x : Int) (k : Nat) : PyInt.land x ((2 ^ k - 1 : Nat) : Int) = x % ((2 ^ k : Nat) : Int) := by
  have hp : 0 < 2 ^ k := Nat.pos_of_ne_zero (by simp)
  cases x with
  | ofNat n =>
    show Int.ofNat (n &&& (2 ^ k - 1)) = _
    rw [Nat.and_two_pow_sub_one_eq_mod]
    simp
  | negSucc m =>
    show Int.ofNat ((2 ^ k - 1) - ((2 ^ k - 1) &&& m)) = _
    rw [Nat.and_comm, Nat.and_two_pow_sub_one_eq_mod]
    have hlt : m % 2 ^ k < 2 ^ k := Nat.mod_lt _ hp
    rw [Int.negSucc_emod m (by exact_mod_cast hp)]
    simp only [Int.ofNat_eq_natCast]
    omega

theorem land_1 (x : Int) : PyInt.land x 1 = x % 2 := by simpa using land_mask x 1
theorem land_3 (x : Int) : PyInt.land x 3 = x % 4 := by simpa using land_mask x 2
theorem land_7 (x : Int) : PyInt.land x 7 = x % 8 := by simpa using land_mask x 3
theorem land_15 (x : Int) : PyInt.land x 15 = x % 16 := by simpa using land_mask x 4
theorem land_127 (x : Int) : PyInt.land x 127 = x % 128 := by simpa using land_mask x 7
theorem land_255 (x : Int) : PyInt.land x 255 = x % 256 := by simpa using land_mask x 8
theorem land_4095 (x : Int) : PyInt.land x 4095 = x % 4096 := by simpa using land_mask x 12
theorem land_65535 (x : Int) : PyInt.land x 65535 = x % 65536 := by simpa using land_mask x 16

theorem shr_8 (x : Int) : PyInt.shr x 8 = x / 256 := by simp [PyInt.shr]

/-- `&`, `|`, `^` of two values of a C type is a value of that type: the translator emits no wrap after them.
(non-negative operands; for `int` operands the handlers only use `&` with a non-negative mask, see `land_bounds`) -/
theorem land_u32_closed (a b : Int) (ha : 0 ≤ a ∧ a < 4294967296) (_hb : 0 ≤ b) :
    0 ≤ PyInt.land b a ∧ PyInt.land b a < 4294967296 := by
  have := land_bounds b a ha.1; omega

theorem tmod_of_nonneg (a b : Int) (ha : 0 ≤ a) : Int.tmod a b = a % b := Int.tmod_eq_emod_of_nonneg ha
theorem tdiv_of_nonneg (a b : Int) (ha : 0 ≤ a) : Int.tdiv a b = a / b := Int.tdiv_eq_ediv_of_nonneg ha


/-! ### contention patterns: total T-states, and an upper bound of the delay (6 per pattern entry) -/
open Contend

theorem foldl_patT (l : List (Int × Int)) (a : Int) :
    l.foldl (fun acc p => acc + p.2) a = a + l.foldl (fun acc p => acc + p.2) 0 := by
  induction l generalizing a with
  | nil => simp
  | cons x l ih => simp only [List.foldl_cons]; rw [ih (a + x.2), ih (0 + x.2)]; omega

theorem patT_nil : patT [] = 0 := rfl
theorem patT_cons (a : Int × Int) (l : List (Int × Int)) : patT (a :: l) = a.2 + patT l := by
  unfold patT; simp only [List.foldl_cons]; rw [foldl_patT]; omega
theorem patT_append (l1 l2 : List (Int × Int)) : patT (l1 ++ l2) = patT l1 + patT l2 := by
  unfold patT; rw [List.foldl_append, foldl_patT]
theorem patT_io {μ} [MemLike μ] (cfg : Cfg) (m : μ) (port : Int) : patT (io_contention cfg m port) = 4 := by
  unfold io_contention; split <;> split <;> rfl

/-- number of entries of a pattern, as an `Int` -/
def patLen (l : List (Int × Int)) : Int := l.length
theorem patLen_nil : patLen [] = 0 := rfl
theorem patLen_cons (a : Int × Int) (l : List (Int × Int)) : patLen (a :: l) = 1 + patLen l := by
  unfold patLen; simp only [List.length_cons]; omega
theorem patLen_append (l1 l2 : List (Int × Int)) : patLen (l1 ++ l2) = patLen l1 + patLen l2 := by
  unfold patLen; simp only [List.length_append]; omega
theorem patLen_io {μ} [MemLike μ] (cfg : Cfg) (m : μ) (port : Int) :
    0 ≤ patLen (io_contention cfg m port) ∧ patLen (io_contention cfg m port) ≤ 4 := by
  unfold io_contention patLen; split <;> split <;> simp

theorem foldl_delay_le (f : Int × Int → Int × Int → Int × Int)
    (hf : ∀ acc x, (f acc x).1 ≤ acc.1 + 6) (l : List (Int × Int)) (acc : Int × Int) :
    (l.foldl f acc).1 ≤ acc.1 + 6 * patLen l := by
  induction l generalizing acc with
  | nil => simp [patLen]
  | cons x l ih =>
    simp only [List.foldl_cons, patLen_cons]
    have h1 := ih (f acc x)
    have h2 := hf acc x
    omega

theorem contend_le {μ} [MemLike μ] (cfg : Cfg) (m : μ) (t : Int) (l : List (Int × Int)) :
    contend cfg m t l ≤ 6 * patLen l := by
  unfold contend; split
  · unfold contend128
    simp only
    have := foldl_delay_le (fun (acc : Int × Int) (at_ : Int × Int) =>
        if (0x4000 ≤ at_.1 ∧ at_.1 < 0x8000) ∨ (MemLike.o7ffd m % 2 ≠ 0 ∧ at_.1 ≥ 0xC000) then
          (acc.1 + delays128 acc.2, acc.2 + delays128 acc.2 + at_.2)
        else (acc.1, acc.2 + at_.2)) (by
          intro acc x; split
          · have := (delays128_range acc.2).2; omega
          · omega) l (0, t)
    simpa using this
  · unfold contend48
    have := foldl_delay_le (fun (acc : Int × Int) (at_ : Int × Int) =>
        if 0x4000 ≤ at_.1 ∧ at_.1 < 0x8000 then
          (acc.1 + delays48 acc.2, acc.2 + delays48 acc.2 + at_.2)
        else (acc.1, acc.2 + at_.2)) (by
          intro acc x; split
          · have := (delays48_range acc.2).2; omega
          · omega) l (0, t)
    simpa using this

end CInt
