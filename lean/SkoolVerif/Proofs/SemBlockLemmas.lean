import SkoolVerif.Proofs.Sem16Lemmas
/-!
Flag arithmetic of the block instructions (`ldi`, `cpi`, `ini`, `outi` closures) against
`Spec/Z80Alu16.lean`: mask idioms on small (possibly negative) integers and the parity-table
identities, by kernel enumeration over their (≤ 2048-element) domains.
-/
namespace C05
open Z80 Sim Spec Z80Isa Z80Spec TableRanges AluCheck

/-- masks of an integer in −512..511 (A + (HL) up to 510; A − (HL) − H down to −256), in terms of the
bits of its low byte -/
theorem small_masks_all : allLt 1024 (fun k =>
    let n : Int := (k : Int) - 512
    let b : Nat := (n % 256).toNat
    PyInt.land n 128 == ((fl (bit b 7) 128 : Nat) : Int) &&
    PyInt.land n 2 * 16 == ((fl (bit b 1) 32 : Nat) : Int) &&
    PyInt.land n 8 == ((fl (bit b 3) 8 : Nat) : Int)) = true := by decide +kernel

theorem small_masks (n : Int) (hn : -512 ≤ n ∧ n < 512) :
    PyInt.land n 128 = ((fl (bit (n % 256).toNat 7) 128 : Nat) : Int) ∧
    PyInt.land n 2 * 16 = ((fl (bit (n % 256).toNat 1) 32 : Nat) : Int) ∧
    PyInt.land n 8 = ((fl (bit (n % 256).toNat 3) 8 : Nat) : Int) := by
  have := allLt_spec small_masks_all (n + 512).toNat (by omega)
  have e : (((n + 512).toNat : Nat) : Int) - 512 = n := by omega
  simp only [e, Bool.and_eq_true, beq_iff_eq] at this
  exact ⟨this.1.1, this.1.2, this.2⟩

/-- bits 1 and 3 of a sum only depend on its low byte -/
theorem bit_low (n k : Nat) (hk : k < 8) : bit (n % 256) k = bit n k := by
  unfold bit
  have : (256 : Nat) = 2 ^ 8 := rfl
  rw [this, Nat.testBit_mod_two_pow]
  simp [hk]

theorem p2i4 (p : Prop) [Decidable p] : PyInt.p2i p * 4 = if p then 4 else 0 := by
  unfold PyInt.p2i; split <;> simp

/-- LDI/LDD flags as `ldi` computes them -/
theorem ldi_flags (f a v k : Int) (hf : Byte f) (ha : Byte a) (hv : Byte v) (nz : Bool) (hk : k = if nz then 4 else 0) :
    PyInt.land f 193 + PyInt.land (a + v) 2 * 16 + PyInt.land (a + v) 8 + k =
      ((ldiFlags f.toNat a.toNat v.toNat nz : Nat) : Int) := by
  unfold Byte at ha hv
  obtain ⟨-, h2, h8⟩ := small_masks (a + v) (by omega)
  have e : ((a + v) % 256).toNat = (a.toNat + v.toNat) % 256 := by omega
  rw [(byte_masks f hf).2.2.1, h2, h8, e, bit_low _ 1 (by omega), bit_low _ 3 (by omega), hk]
  simp only [ldiFlags, mkF_sum, fl_false]
  cases nz <;> simp [fl] <;> omega

theorem byte_hi (pc : Int) (hpc : Word pc) : Byte (pc / 256) := by unfold Word at hpc; unfold Byte; omega

/-- LDIR/LDDR-repeating flags -/
theorem ldir_flags (f pc : Int) (hf : Byte f) (hpc : Word pc) :
    PyInt.land f 193 + PyInt.land (pc / 256) 40 + 4 = ((ldirRepFlags f.toNat (pc / 256).toNat : Nat) : Int) := by
  rw [(byte_masks f hf).2.2.1, hi53 _ (byte_hi pc hpc)]
  simp only [ldirRepFlags, mkF_sum, fl_false, fl_true]
  omega

theorem p2i_true (p : Prop) [Decidable p] (h : p) : PyInt.p2i p = 1 := by simp [PyInt.p2i, h]
theorem p2i_false (p : Prop) [Decidable p] (h : ¬ p) : PyInt.p2i p = 0 := by simp [PyInt.p2i, h]

/-- CPI/CPD flags as `cpi` computes them (non-repeating exit) -/
theorem cpi_flags (f a v k : Int) (hf : Byte f) (ha : Byte a) (hv : Byte v) (nz : Bool) (hk : k = if nz then 4 else 0) :
    PyInt.land (a - v) 128 + PyInt.p2i (a % 16 < v % 16) * 16 + 2 + f % 2 + PyInt.p2i (a - v = 0) * 64
      + PyInt.land (a - v - PyInt.p2i (a % 16 < v % 16)) 2 * 16 + PyInt.land (a - v - PyInt.p2i (a % 16 < v % 16)) 8 + k =
      ((cpiFlags f.toNat a.toNat v.toNat nz : Nat) : Int) := by
  unfold Byte at ha hv
  obtain ⟨h128, -, -⟩ := small_masks (a - v) (by omega)
  have e1 : ((a - v) % 256).toNat = (a.toNat + 256 - v.toNat) % 256 := by omega
  have tH : (a.toNat % 16 < v.toNat % 16) = (a % 16 < v % 16) := propext (by omega)
  have hz : (PyInt.p2i (a - v = 0) * 64 : Int) = ((fl ((a.toNat + 256 - v.toNat) % 256 == 0) 64 : Nat) : Int) := by
    by_cases h0 : a - v = 0
    · have h2 : (a.toNat + 256 - v.toNat) % 256 = 0 := by omega
      simp [PyInt.p2i, h0, fl, h2]
    · have h2 : (a.toNat + 256 - v.toNat) % 256 ≠ 0 := by omega
      simp [PyInt.p2i, h0, fl, h2]
  rw [hz, h128, e1, (byte_masks f hf).2.2.2.2.1, hk]
  simp only [cpiFlags, mkF_sum, fl_true, tH]
  by_cases hh : a % 16 < v % 16
  · obtain ⟨-, h2, h8⟩ := small_masks (a - v - 1) (by omega)
    have e2 : ((a - v - 1) % 256).toNat = ((a.toNat + 256 - v.toNat) % 256 + 256 - 1) % 256 := by omega
    rw [p2i_true _ hh, h2, h8, e2]
    simp only [hh, decide_true, if_true, fl_true]
    cases nz <;> simp [fl] <;> omega
  · obtain ⟨-, h2, h8⟩ := small_masks (a - v - 0) (by omega)
    have e2 : ((a - v - 0) % 256).toNat = ((a.toNat + 256 - v.toNat) % 256 + 256 - 0) % 256 := by omega
    rw [p2i_false _ hh, h2, h8, e2]
    simp only [hh, decide_false, if_false, Bool.false_eq_true, fl_false]
    cases nz <;> simp [fl] <;> omega

/-- CPIR/CPDR-repeating flags -/
theorem cpir_flags (f a v pc : Int) (hf : Byte f) (ha : Byte a) (hv : Byte v) (hpc : Word pc) :
    PyInt.land (a - v) 128 + PyInt.p2i (a % 16 < v % 16) * 16 + 2 + f % 2 + PyInt.land (pc / 256) 40 + 4 =
      ((cpirRepFlags f.toNat a.toNat v.toNat (pc / 256).toNat : Nat) : Int) := by
  unfold Byte at ha hv
  obtain ⟨h128, -, -⟩ := small_masks (a - v) (by omega)
  have e1 : ((a - v) % 256).toNat = (a.toNat + 256 - v.toNat) % 256 := by omega
  have tH : (a.toNat % 16 < v.toNat % 16) = (a % 16 < v % 16) := propext (by omega)
  rw [h128, e1, (byte_masks f hf).2.2.2.2.1, hi53 _ (byte_hi pc hpc)]
  simp only [cpirRepFlags, mkF_sum, fl_true, fl_false, tH]
  by_cases hh : a % 16 < v % 16 <;> simp [PyInt.p2i, hh, fl] <;> omega

end C05

namespace C05
open Z80 Sim Spec Z80Isa Z80Spec TableRanges AluCheck

/-! ### block I/O: parity-table identities -/

theorem par2_all : allLt 8 (fun j => allLt 256 (fun b =>
    Tbl.PARITY (PyInt.xor (j : Int) (b : Int)) == ((fl (parityEven (j ^^^ b)) 4 : Nat) : Int))) = true := by
  decide +kernel

theorem par3_all : allLt 8 (fun j => allLt 256 (fun b => allLt 8 (fun y =>
    Tbl.PARITY (PyInt.xor (PyInt.xor (j : Int) (b : Int)) (y : Int)) ==
      ((fl (parityEven (j ^^^ b) == parityEven y) 4 : Nat) : Int)))) = true := by
  decide +kernel

theorem par2 (j b : Int) (hj : 0 ≤ j ∧ j < 8) (hb : Byte b) :
    Tbl.PARITY (PyInt.xor j b) = ((fl (parityEven (j.toNat ^^^ b.toNat)) 4 : Nat) : Int) := by
  unfold Byte at hb
  have := allLt_spec (allLt_spec par2_all j.toNat (by omega)) b.toNat (by omega)
  have ej : ((j.toNat : Nat) : Int) = j := by omega
  have eb : ((b.toNat : Nat) : Int) = b := by omega
  simpa only [beq_iff_eq, ej, eb] using this

theorem par3 (j b y : Int) (hj : 0 ≤ j ∧ j < 8) (hb : Byte b) (hy : 0 ≤ y ∧ y < 8) :
    Tbl.PARITY (PyInt.xor (PyInt.xor j b) y) =
      ((fl (parityEven (j.toNat ^^^ b.toNat) == parityEven y.toNat) 4 : Nat) : Int) := by
  unfold Byte at hb
  have := allLt_spec (allLt_spec (allLt_spec par3_all j.toNat (by omega)) b.toNat (by omega)) y.toNat (by omega)
  have ej : ((j.toNat : Nat) : Int) = j := by omega
  have eb : ((b.toNat : Nat) : Int) = b := by omega
  have ey : ((y.toNat : Nat) : Int) = y := by omega
  simpa only [beq_iff_eq, ej, eb, ey] using this

theorem nflag_all : allLt 256 (fun v => PyInt.land (v : Int) 128 / 64 == ((fl (bit v 7) 2 : Nat) : Int)) = true := by
  decide +kernel

theorem nflag (v : Int) (hv : Byte v) : PyInt.land v 128 / 64 = ((fl (bit v.toNat 7) 2 : Nat) : Int) := by
  unfold Byte at hv
  have := allLt_spec nflag_all v.toNat (by omega)
  have e : ((v.toNat : Nat) : Int) = v := by omega
  simpa only [beq_iff_eq, e] using this

end C05
