import SkoolVerif.Gen.C07SimFacts
/-!
Which T-state increment the conditional closures of the generated simulator model make, and where PC goes,
as explicit functions of the flags / B register (hand-stated, proved by unfolding the generated closure; a
rewrite of these five closures in `simulator.py` may require these proofs to be adapted).
`F` is register 1, `B` register 2, `SP` register 12.
-/
open Z80
namespace Sim
variable {μ : Type} [MemLike μ]

/-- JR cc: taken iff `F & c_and == c_val` — 12 T-states to the target, else 7 T-states and PC + 2 -/
theorem jr_branches (cfg : Cfg) (c_and c_val : Int) (s : St μ) :
    (PyInt.land (rget s.reg 1) c_and = c_val →
      (Sim.jr cfg c_and c_val s).t = s.t + 12 ∧
      (Sim.jr cfg c_and c_val s).pc = (s.pc + Tbl.JR_OFFSETS (mget s.mem ((s.pc + 1) % 65536))) % 65536) ∧
    (PyInt.land (rget s.reg 1) c_and ≠ c_val →
      (Sim.jr cfg c_and c_val s).t = s.t + 7 ∧ (Sim.jr cfg c_and c_val s).pc = (s.pc + 2) % 65536) := by
  simp only [sim_handler, Id.run, pure]
  constructor <;> intro h <;> simp [h]

/-- JP cc: taken iff `F & c_and == c_val`; 10 T-states either way; not taken: PC + 3 -/
theorem jp_branches (cfg : Cfg) (c_and c_val : Int) (s : St μ) :
    (Sim.jp cfg c_and c_val s).t = s.t + 10 ∧
    (PyInt.land (rget s.reg 1) c_and = c_val →
      (Sim.jp cfg c_and c_val s).pc = mget s.mem ((s.pc + 1) % 65536) + 256 * mget s.mem ((s.pc + 2) % 65536)) ∧
    (PyInt.land (rget s.reg 1) c_and ≠ c_val → (Sim.jp cfg c_and c_val s).pc = (s.pc + 3) % 65536) := by
  simp only [sim_handler, Id.run, pure]
  refine ⟨by split <;> rfl, ?_, ?_⟩ <;> intro h <;> simp [h]

/-- CALL cc: NOT taken iff `c_and ≠ 0` and `F & c_and == c_val` (the table passes the inverted condition) —
10 T-states and PC + 3; taken: 17 T-states to the operand address -/
theorem call_branches (cfg : Cfg) (c_and c_val : Int) (s : St μ) :
    (c_and ≠ 0 ∧ PyInt.land (rget s.reg 1) c_and = c_val →
      (Sim.call cfg c_and c_val s).t = s.t + 10 ∧ (Sim.call cfg c_and c_val s).pc = (s.pc + 3) % 65536) ∧
    (¬ (c_and ≠ 0 ∧ PyInt.land (rget s.reg 1) c_and = c_val) →
      (Sim.call cfg c_and c_val s).t = s.t + 17 ∧
      (Sim.call cfg c_and c_val s).pc = mget s.mem ((s.pc + 1) % 65536) + 256 * mget s.mem ((s.pc + 2) % 65536)) := by
  simp only [sim_handler, Id.run, pure]
  constructor
  · rintro ⟨h1, h2⟩; simp [h1, h2, PyInt.p2i]
  · intro h
    by_cases h1 : c_and = 0
    · simp [h1]
      constructor <;> (repeat' split) <;> rfl
    · have h2 : PyInt.land (rget s.reg 1) c_and ≠ c_val := fun e => h ⟨h1, e⟩
      simp [h1, h2, PyInt.p2i]
      constructor <;> (repeat' split) <;> rfl

/-- RET cc: NOT taken iff `F & c_and == c_val` (inverted condition in the table) — 5 T-states and PC + 1;
taken: 11 T-states; unconditional RET (`c_and = 0`): 10 T-states -/
theorem ret_branches (cfg : Cfg) (c_and c_val : Int) (s : St μ) :
    (c_and ≠ 0 → PyInt.land (rget s.reg 1) c_and = c_val →
      (Sim.ret cfg c_and c_val s).t = s.t + 5 ∧ (Sim.ret cfg c_and c_val s).pc = (s.pc + 1) % 65536) ∧
    (c_and ≠ 0 → PyInt.land (rget s.reg 1) c_and ≠ c_val →
      (Sim.ret cfg c_and c_val s).t = s.t + 11 ∧
      (Sim.ret cfg c_and c_val s).pc = mget s.mem (rget s.reg 12) + 256 * mget s.mem ((rget s.reg 12 + 1) % 65536)) ∧
    (c_and = 0 →
      (Sim.ret cfg c_and c_val s).t = s.t + 10 ∧
      (Sim.ret cfg c_and c_val s).pc = mget s.mem (rget s.reg 12) + 256 * mget s.mem ((rget s.reg 12 + 1) % 65536)) := by
  simp only [sim_handler, Id.run, pure]
  refine ⟨fun h1 h2 => by simp [h1, h2], fun h1 h2 => by simp [h1, h2], fun h1 => by simp [h1]⟩

/-- DJNZ: taken iff `(B - 1) % 256 ≠ 0` — 13 T-states to the target, else 8 T-states and PC + 2 -/
theorem djnz_branches (cfg : Cfg) (s : St μ) :
    ((rget s.reg 2 - 1) % 256 ≠ 0 →
      (Sim.djnz cfg s).t = s.t + 13 ∧
      (Sim.djnz cfg s).pc = (s.pc + Tbl.JR_OFFSETS (mget s.mem ((s.pc + 1) % 65536))) % 65536) ∧
    ((rget s.reg 2 - 1) % 256 = 0 → (Sim.djnz cfg s).t = s.t + 8 ∧ (Sim.djnz cfg s).pc = (s.pc + 2) % 65536) := by
  simp only [sim_handler, Id.run, pure]
  constructor <;> intro h <;> simp [h]

end Sim
