import SkoolVerif.Proofs.C07Lift
/-!
Mnemonic and operand agreement of the two disassemblers.  Both decoders' results are brought to the same
symbolic form — a list of `SPiece`s (literal text and deferred operand reads) with adjacent literals merged
(`flat`) — which the kernel compares slot by slot; the lemmas here show that equal symbolic forms give the
same text for every memory, address and operand formatter.
-/
namespace InstrDec
set_option linter.unusedSimpArgs false

theorem render_append (fb fw : Nat → List Nat) (l1 l2 : List Piece) :
    render fb fw (l1 ++ l2) = render fb fw l1 ++ render fb fw l2 := by
  induction l1 with
  | nil => rfl
  | cons p r ih => cases p <;> simp [render, ih]

theorem evalPieces_cons (mem : Mem) (a : Nat) (p : SPiece) (r : List SPiece) :
    evalPieces mem a (p :: r) = evalPiece mem a p ++ evalPieces mem a r := by
  simp [evalPieces]

/-- merge adjacent literals, drop empty ones -/
def flat : List SPiece → List SPiece
  | [] => []
  | .lit a :: r =>
    match flat r with
    | .lit b :: r' => .lit (a ++ b) :: r'
    | r' => if a = [] then r' else .lit a :: r'
  | p :: r => p :: flat r

theorem render_flat (fb fw : Nat → List Nat) (mem : Mem) (a : Nat) (ps : List SPiece) :
    render fb fw (evalPieces mem a (flat ps)) = render fb fw (evalPieces mem a ps) := by
  induction ps with
  | nil => rfl
  | cons p r ih =>
    cases p with
    | lit cs =>
      simp only [flat, evalPieces_cons, render_append, evalPiece, render, List.append_nil]
      rw [← ih]
      split
      · rename_i b r' heq
        rw [heq]
        simp [evalPieces_cons, render_append, evalPiece, render]
      · split
        · rename_i hcs; subst hcs; simp
        · simp [evalPieces_cons, render_append, evalPiece, render]
    | _ => simp only [flat, evalPieces_cons, render_append, ih]

/-! ### the skool disassembler's operation in symbolic form -/

def commaSym (k n : Nat) : List SPiece := (List.range n).flatMap (fun i => [.lit [44], .byteAt (k + i)])

/-- the operation of a decoder result as deferred reads (valid where nothing is cut off at 65536 and the
relative-jump target is in range) -/
def disPieces (d : List Nat) (so : SOut) : List SPiece :=
  match so.op with
  | .tmpl ps _ => ps
  | .defb _ 0 => [.lit d]
  | .defb _ (n + 1) => .lit d :: .byteAt 0 :: commaSym 1 n
  | .jr pre post hole _ => if hole then [.lit pre, .relAt 0, .lit post] else [.lit pre]

theorem evalPieces_commaSym (mem : Mem) (a k n : Nat) :
    evalPieces mem a (commaSym k n) = (bytesAt mem (a + k) n).flatMap (fun x => [Piece.lit [44], Piece.byte x]) := by
  simp only [evalPieces, commaSym, bytesAt, List.flatMap_assoc, List.flatMap_map]
  congr 1
  funext i
  simp [evalPiece, Nat.add_assoc]

/-- for a relative jump: the target is within 0..65535, so the instruction (not a DEFB) is printed -/
def jrOk (mem : Mem) (a : Nat) (so : SOut) : Prop :=
  match so.op with
  | .jr _ _ _ _ => jrInRange mem a
  | _ => True

theorem evalOp_pieces (d : List Nat) (mem : Mem) (a : Nat) (so : SOut) (hwf : wfOp so = true) (_ha : a < 65536)
    (hfit : a + so.nominal ≤ 65536) (hj : jrOk mem a so) :
    (evalOp d mem a so.op).1 = evalPieces mem a (disPieces d so) := by
  obtain ⟨op, add, fixed, flags⟩ := so
  cases op with
  | tmpl ps len => rfl
  | defb off n =>
    simp only [wfOp, Bool.and_eq_true, beq_iff_eq, Option.isNone_iff_eq_none] at hwf
    obtain ⟨⟨rfl, rfl⟩, rfl⟩ := hwf
    simp only [SOut.nominal, Nat.add_zero] at hfit
    simp only [evalOp, Nat.add_zero, slice_eq_bytesAt mem a n hfit, disPieces]
    cases n with
    | zero => simp [bytesAt, defbPieces, evalPieces, evalPiece]
    | succ m =>
      rw [bytesAt_succ]
      simp only [defbPieces, evalPieces_cons, evalPiece, evalPieces_commaSym, Nat.add_zero, List.cons_append,
        List.nil_append]
  | jr pre post hole off =>
    simp only [wfOp, Bool.and_eq_true, beq_iff_eq, Option.isNone_iff_eq_none] at hwf
    obtain ⟨⟨rfl, rfl⟩, rfl⟩ := hwf
    simp only [jrOk, jrInRange] at hj
    simp only [evalOp, Nat.add_zero, if_pos hj, disPieces]
    cases hole
    · simp [evalPieces, evalPiece]
    · rcases hj with ⟨h1, h2⟩ | ⟨h1, h2, h3⟩
      · simp [evalPieces, evalPiece, h1, Nat.mod_eq_of_lt h2]
      · have h4 : ¬ mem ((a + 1) % 65536) < 128 := by omega
        have h5 : (a + 65282 + mem ((a + 1) % 65536)) % 65536 = a + mem ((a + 1) % 65536) - 254 := by omega
        simp [evalPieces, evalPiece, h4, h5]

/-- when the instruction fits below 65536 the instruction object carries the decoder's operation -/
theorem finish_op_fit (T : DTables) (c : DCfg) (mem : Mem) (a : Nat) (so : SOut) (hwf : wfOp so = true)
    (hfit : a + so.nominal ≤ 65536) : (finish T c mem a so).op = (evalOp (directiveOf T c) mem a so.op).1 := by
  obtain ⟨op, add, fixed, flags⟩ := so
  cases op with
  | tmpl ps len =>
    simp only [SOut.nominal] at hfit
    simp only [finish, evalOp]
    cases fixed <;> simp only at hfit ⊢ <;> simp [hfit]
  | defb off n =>
    simp only [wfOp, Bool.and_eq_true, beq_iff_eq, Option.isNone_iff_eq_none] at hwf
    obtain ⟨⟨rfl, rfl⟩, rfl⟩ := hwf
    simp only [finish, evalOp, Nat.add_zero, slice_length]
    have : a + (min (a + n) 65536 - a) ≤ 65536 := by omega
    simp [this]
  | jr pre post hole off =>
    simp only [wfOp, Bool.and_eq_true, beq_iff_eq, Option.isNone_iff_eq_none] at hwf
    obtain ⟨⟨rfl, rfl⟩, rfl⟩ := hwf
    simp only [SOut.nominal, Nat.add_zero] at hfit
    simp only [finish, evalOp, Nat.add_zero]
    split
    · simp [hfit]
    · simp only [slice_length]
      have : a + (min (a + 2) 65536 - a) ≤ 65536 := by omega
      simp [this]

/-! ### the trace disassembler's operation in symbolic form -/

/-- a traceutils template as deferred reads: `{p}{n:{b}}` is a byte operand, `{p}{n:{w}}` a word operand,
`{s}{p}{d:{b}}` an index offset; `none` for any other arrangement of fields (no operand formatter of the
skool disassembler could print that) or a field the function does not supply -/
def tConv (k : TKind) (size b0 : Nat) : List TPiece → Option (List SPiece)
  | [] => some []
  | .lit cs :: r => (tConv k size b0 r).map (.lit cs :: ·)
  | .P :: r =>
    match r with
    | .NB :: r' =>
      match k with
      | .byte => if 1 ≤ size then (tConv k size b0 r').map (.byteAt (size - 1) :: ·) else none
      | .offset_byte => (tConv k size b0 r').map (.byteAt 3 :: ·)
      | .rst => (tConv k size b0 r').map (.const (b0 - 0xC7) :: ·)
      | _ => none
    | .NW :: r' =>
      match k with
      | .word => if 2 ≤ size then (tConv k size b0 r').map (.wordAt (size - 2) :: ·) else none
      | .jump_offset => (tConv k size b0 r').map (.relAt 0 :: ·)
      | _ => none
    | _ => none
  | .S :: r =>
    match r with
    | .P :: .DB :: r' =>
      match k with
      | .offset => (tConv k size b0 r').map (.idxAt 2 :: ·)
      | .offset_byte => (tConv k size b0 r').map (.idxAt 2 :: ·)
      | _ => none
    | _ => none
  | _ => none

def litsOf : List TPiece → List SPiece
  | [] => []
  | .lit cs :: r => .lit cs :: litsOf r
  | _ :: r => litsOf r

/-- the operation `func` returns for an entry, as deferred reads (`b0` = the byte at the instruction address) -/
def trSym (b0 : Nat) (e : TEntry) : Option (List SPiece) :=
  match e.kind with
  | none => none
  | some .operation => some (litsOf e.tmpl)
  | some .defb =>
    some (if e.size = 1 then [.lit [68, 69, 70, 66, 32], .byteAt 0]
          else [.lit [68, 69, 70, 66, 32], .byteAt 0, .lit [44], .byteAt 1])
  | some k => tConv k e.size b0 e.tmpl

theorem renderT_append (p : List Nat) (fb fw : Nat → List Nat) (l1 l2 : List TOut) :
    renderT p fb fw (l1 ++ l2) = renderT p fb fw l1 ++ renderT p fb fw l2 := by
  induction l1 with
  | nil => rfl
  | cons x r ih => cases x <;> simp [renderT, ih]

theorem tConv_render (p : List Nat) (fb fw : Nat → List Nat) (k : TKind) (size b0 : Nat) (mem : Mem) (a : Nat)
    (hb0 : mem a = b0) (tmpl : List TPiece) (sp : List SPiece) (h : tConv k size b0 tmpl = some sp) :
    tmpl.all (tSupplies k) = true ∧
    renderT p fb fw (tmpl.flatMap (tEvalPiece k size mem a)) =
      render (fun v => p ++ fb v) (fun v => p ++ fw v) (evalPieces mem a sp) := by
  fun_induction tConv k size b0 tmpl generalizing sp
  all_goals try (simp at h; done)
  all_goals try subst_vars
  · simp only [Option.some.injEq] at h
    subst h
    simp [evalPieces, render, renderT]
  all_goals
    obtain ⟨sp', hq, rfl⟩ := Option.map_eq_some_iff.1 h
    rename_i ih
    obtain ⟨h1, h2⟩ := ih sp' hq
    have e1 : 1 ≤ size → a + size - 1 = a + (size - 1) := fun _ => by omega
    have e2 : 2 ≤ size → a + size - 2 = a + (size - 2) := fun _ => by omega
    have e3 : 2 ≤ size → a + (size - 2) + 1 = a + size - 1 := fun _ => by omega
    refine ⟨by simp [tSupplies, h1], ?_⟩
    simp [List.flatMap_cons, renderT_append, tEvalPiece, renderT, evalPieces_cons, evalPiece, render_append, render, h2,
      e1, e2, e3, *]
    try (by_cases hd : mem ((a + 2) % 65536) < 128 <;> simp [hd, renderT, render])

theorem litsOf_render (p : List Nat) (fb fw : Nat → List Nat) (mem : Mem) (a : Nat) (tmpl : List TPiece) :
    renderT p fb fw (tmpl.flatMap (fun q => match q with | .lit cs => [TOut.lit cs] | _ => [])) =
      render (fun v => p ++ fb v) (fun v => p ++ fw v) (evalPieces mem a (litsOf tmpl)) := by
  induction tmpl with
  | nil => rfl
  | cons q r ih =>
    cases q <;> simp_all [litsOf, List.flatMap_cons, renderT_append, renderT, evalPieces_cons, evalPiece, render_append, render]

/-- the text `func` returns is the rendering of the entry's symbolic form, under every prefix and value
formatters -/
theorem traceCall_render (p : List Nat) (fb fw : Nat → List Nat) (e : TEntry) (mem : Mem) (a : Nat) (ha : a < 65536)
    (sp : List SPiece) (h : trSym (mem a) e = some sp) (out : List TOut) (n : Nat) (hc : traceCall e mem a = .ok (out, n)) :
    renderT p fb fw out = render (fun v => p ++ fb v) (fun v => p ++ fw v) (evalPieces mem a sp) := by
  obtain ⟨kind, tmpl, size⟩ := e
  cases kind with
  | none => simp [trSym] at h
  | some k =>
    cases k
    case operation =>
      simp only [trSym, Option.some.injEq] at h
      simp only [traceCall, Except.ok.injEq, Prod.mk.injEq] at hc
      rw [← h, ← hc.1]
      exact litsOf_render p fb fw mem a tmpl
    case defb =>
      simp only [trSym, Option.some.injEq] at h
      simp only [traceCall] at hc
      by_cases h1 : size = 1
      · simp only [h1, if_true, Except.ok.injEq, Prod.mk.injEq] at hc h
        rw [← h, ← hc.1]
        simp [renderT, evalPieces, evalPiece, render, Nat.mod_eq_of_lt ha]
      · simp only [h1, if_false, Except.ok.injEq, Prod.mk.injEq] at hc h
        rw [← h, ← hc.1]
        simp [renderT, evalPieces, evalPiece, render, Nat.mod_eq_of_lt ha]
    all_goals
      simp only [trSym] at h
      obtain ⟨h1, h2⟩ := tConv_render p fb fw _ size (mem a) mem a rfl tmpl sp h
      simp only [traceCall, h1, if_true, Except.ok.injEq, Prod.mk.injEq] at hc
      rw [← hc.1]
      exact h2


/-! ### the per-slot comparison and its lifting -/

/-- the first byte of the opcode sequences of a slot -/
def b0Of (s : Slot) : Nat :=
  match s.tbl with
  | 0 => s.idx
  | 1 => 0xCB
  | 2 => 0xED
  | 3 => 0xDD
  | 5 => 0xDD
  | _ => 0xFD

theorem b0Of_slotOf (b0 b1 b3 : Nat) : b0Of (slotOf b0 b1 b3) = b0 := by
  unfold slotOf
  split
  · simp_all [b0Of]
  split
  · simp_all [b0Of]
  split
  · split <;> simp_all [b0Of]
  split
  · split <;> simp_all [b0Of]
  · simp [b0Of]

/-- under `Opcodes=ALL`, upper case: the skool disassembler's operation for the slot and the trace
disassembler's have the same symbolic form -/
def textP (T : DTables) (TT : TTables) (s : Slot) : Bool :=
  match disAtC T false s (candAll T s), trAt TT s with
  | .ok so, some e =>
    (match trSym (b0Of s) e with
      | some sp => flat (disPieces T.defb so) == flat sp
      | none => false)
  | _, _ => false

/-- for any additional-opcode set, upper case: unless the skool disassembler's result is a DEFB statement,
its operation and the trace disassembler's have the same symbolic form -/
def textAnyP (T : DTables) (TT : TTables) (s : Slot) (r : Except DErr SOut) : Bool :=
  match r, trAt TT s with
  | .ok so, some e =>
    (match so.op with
      | .defb _ _ => true
      | _ =>
        (match trSym (b0Of s) e with
          | some sp => flat (disPieces T.defb so) == flat sp
          | none => false))
  | _, _ => false

/-- equal symbolic forms give equal text -/
theorem text_core (T : DTables) (c : DCfg) (hlow : c.lower = false) (mem : Mem) (a : Nat) (ha : a < 65536) (so : SOut)
    (hwf : wfOp so = true) (hfit : a + so.nominal ≤ 65536) (hjr : jrOk mem a so)
    (e : TEntry) (sp : List SPiece) (hq : trSym (mem a) e = some sp) (hflat : flat (disPieces T.defb so) = flat sp)
    (out : List TOut) (n : Nat) (hcall : traceCall e mem a = .ok (out, n)) (p : List Nat) (fb fw : Nat → List Nat) :
    render (fun v => p ++ fb v) (fun v => p ++ fw v) (finish T c mem a so).op = renderT p fb fw out := by
  have hdir : directiveOf T c = T.defb := by simp [directiveOf, hlow]
  rw [finish_op_fit T c mem a so hwf hfit, evalOp_pieces _ mem a so hwf ha hfit hjr, hdir, ← render_flat, hflat,
    render_flat]
  exact (traceCall_render p fb fw e mem a ha sp hq out n hcall).symm

/-- a relative jump that is printed as an instruction has its target in range -/
theorem jrOk_of_not_def (T : DTables) (c : DCfg) (hlow : c.lower = false) (hdef : startsDef T.defb = true)
    (mem : Mem) (a : Nat) (so : SOut) (hwf : wfOp so = true) (hfit : a + so.nominal ≤ 65536)
    (hj : jrInRange mem a ∨ startsWithDef (finish T c mem a so).op = false) : jrOk mem a so := by
  have hdir : directiveOf T c = T.defb := by simp [directiveOf, hlow]
  have hop := finish_op_fit T c mem a so hwf hfit
  unfold jrOk
  split
  · rename_i pre post hole off hopj
    rcases hj with hj | hj
    · exact hj
    · rw [hop, evalOp_isDef] at hj
      simp only [symIsDef, hopj] at hj
      have hwf' := hwf
      simp only [wfOp, hopj, Bool.and_eq_true, beq_iff_eq] at hwf'
      have hoff : off = 0 := hwf'.1.1
      subst hoff
      by_cases hin : jrInRange mem a
      · exact hin
      · have hin' := hin
        simp only [jrInRange] at hin'
        simp only [Nat.add_zero, if_neg hin', hdir, hdef] at hj
        cases hj
  · trivial

/-- Whatever the additional-opcode set: when the skool disassembler prints an instruction (not a DEFB
statement) for the bytes at `a`, the trace disassembler prints the same text under matching formatters. -/
theorem text_lift_any {T : DTables} {TT : TTables} {L : Slot → Nat} (hs : disShape T = true)
    (hl : allDis T (disLenP L) = true) (hts : trShape TT = true) (hx : allDisU T (textAnyP T TT) = true)
    (hdef : startsDef T.defb = true) (c : DCfg) (hlow : c.lower = false)
    (mem : Mem) (hm : ∀ x, mem x < 256) (a : Nat)
    (hfit : a + L (slotOf (mem a) (mem ((a + 1) % 65536)) (mem ((a + 3) % 65536))) ≤ 65536) (ha : a < 65536)
    (r : DOut) (hr : disasm T c mem a = .ok r) (out : List TOut) (n : Nat) (ht : traceDis TT mem a = .ok (out, n))
    (hnd : startsWithDef r.op = false) (p : List Nat) (fb fw : Nat → List Nat) :
    render (fun v => p ++ fb v) (fun v => p ++ fw v) r.op = renderT p fb fw out := by
  have h0 := hm a
  have h1 := hm ((a + 1) % 65536)
  have h3 := hm ((a + 3) % 65536)
  obtain ⟨so, hsym, hwf, hnom, hn4⟩ := disSym_ok hs hl c mem hm a
  have hrr : r = finish T c mem a so := by
    simp only [disasm, hsym] at hr
    exact (Except.ok.inj hr).symm
  subst hrr
  have hxs := disSym_forall_upper hs hx c hlow h0 h1 h3
  obtain ⟨e, he, hte⟩ := traceEntry_eq hts h0 h1 h3
  have hfit' : a + so.nominal ≤ 65536 := by rw [hnom]; exact hfit
  have hdir : directiveOf T c = T.defb := by simp [directiveOf, hlow]
  have hcall : traceCall e mem a = .ok (out, n) := by
    simpa [traceDis, hte, bind, Except.bind] using ht
  have hjr := jrOk_of_not_def T c hlow hdef mem a so hwf hfit' (Or.inr hnd)
  have hb0 := b0Of_slotOf (mem a) (mem ((a + 1) % 65536)) (mem ((a + 3) % 65536))
  simp only [textAnyP, hsym, he, hb0] at hxs
  have hnotdefb : ∀ off k, so.op ≠ .defb off k := by
    intro off k hop
    have h1 := finish_op_fit T c mem a so hwf hfit'
    rw [h1, evalOp_isDef] at hnd
    simp [symIsDef, hop, hdir, hdef] at hnd
  cases hop : so.op with
  | defb off k => exact absurd hop (hnotdefb off k)
  | tmpl ps len =>
    simp only [hop] at hxs
    cases hq : trSym (mem a) e with
    | none => simp [hq] at hxs
    | some sp =>
      simp only [hq, beq_iff_eq] at hxs
      exact text_core T c hlow mem a ha so hwf hfit' hjr e sp hq hxs out n hcall p fb fw
  | jr pre post hole off =>
    simp only [hop] at hxs
    cases hq : trSym (mem a) e with
    | none => simp [hq] at hxs
    | some sp =>
      simp only [hq, beq_iff_eq] at hxs
      exact text_core T c hlow mem a ha so hwf hfit' hjr e sp hq hxs out n hcall p fb fw

/-- Both disassemblers print the same text for the instruction at `a`, character for character, whenever
the skool disassembler formats a byte operand `v` as `prefix ++ byte_fmt v` and a word operand as
`prefix ++ word_fmt v` — for every memory, every address at which the instruction fits below 65536, and all
formatter functions. -/
theorem text_lift {T : DTables} {TT : TTables} {L : Slot → Nat} (hs : disShape T = true)
    (hl : allDis T (disLenP L) = true) (hts : trShape TT = true) (hx : allSlots (textP T TT) = true)
    (hdef : startsDef T.defb = true)
    (c : DCfg) (hc : ∀ o ∈ T.overlays, optOn c o.opt = true) (hlow : c.lower = false)
    (mem : Mem) (hm : ∀ x, mem x < 256) (a : Nat)
    (hfit : a + L (slotOf (mem a) (mem ((a + 1) % 65536)) (mem ((a + 3) % 65536))) ≤ 65536) (ha : a < 65536)
    (r : DOut) (hr : disasm T c mem a = .ok r) (out : List TOut) (n : Nat) (ht : traceDis TT mem a = .ok (out, n))
    (hj : jrInRange mem a ∨ startsWithDef r.op = false) (p : List Nat) (fb fw : Nat → List Nat) :
    render (fun v => p ++ fb v) (fun v => p ++ fw v) r.op = renderT p fb fw out := by
  have h0 := hm a
  have h1 := hm ((a + 1) % 65536)
  have h3 := hm ((a + 3) % 65536)
  obtain ⟨so, hsym, hwf, hnom, hn4⟩ := disSym_ok hs hl c mem hm a
  have hrr : r = finish T c mem a so := by
    simp only [disasm, hsym] at hr
    exact (Except.ok.inj hr).symm
  subst hrr
  generalize hsl : slotOf (mem a) (mem ((a + 1) % 65536)) (mem ((a + 3) % 65536)) = sl at *
  have hv : sl.valid = true := by rw [← hsl]; exact slotOf_valid h0 h1 h3
  have hi : sl.idx < 256 := by
    simp only [Slot.valid, Bool.and_eq_true, decide_eq_true_eq] at hv; exact hv.1.1.2
  have hd1 : disSym T c (mem a) (mem ((a + 1) % 65536)) (mem ((a + 3) % 65536)) = disAtC T false sl (candAll T sl) := by
    rw [disSym_eq hs c h0 h1 h3, hsl, disAt_all T c sl hi hc, hlow]
  have hxs := allSlots_spec hx sl hv
  obtain ⟨e, he, hte⟩ := traceEntry_eq hts h0 h1 h3
  rw [hsl] at he
  simp only [textP, ← hd1, hsym, he] at hxs
  cases hq : trSym (b0Of sl) e with
  | none => simp [hq] at hxs
  | some sp =>
    simp only [hq, beq_iff_eq] at hxs
    have hb0 : b0Of sl = mem a := by rw [← hsl]; exact b0Of_slotOf _ _ _
    rw [hb0] at hq
    have hcall : traceCall e mem a = .ok (out, n) := by
      simpa [traceDis, hte, bind, Except.bind] using ht
    have hfit' : a + so.nominal ≤ 65536 := by rw [hnom]; exact hfit
    have hjr := jrOk_of_not_def T c hlow hdef mem a so hwf hfit' hj
    exact text_core T c hlow mem a ha so hwf hfit' hjr e sp hq hxs out n hcall p fb fw

end InstrDec
