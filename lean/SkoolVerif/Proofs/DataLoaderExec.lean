import SkoolVerif.Proofs.LoaderSteps
import SkoolVerif.Model.Bin2Tap
/-!
Symbolic execution of the machine-code loader emitted by `bin2tap._get_data_loader` in the
generated simulator model: eight `Sim.step`s from 23296, for all ORG/LENGTH/START/STACK.
-/
open Z80 Sim LoaderSteps Bin2Tap

namespace DataLoaderExec

variable {μ : Type} [MemLike μ]

/-- What the loader leaves in the register file `r'` (initially `r`) on reaching LD-BYTES. -/
def LoaderRegs (r r' : Array Int) (org length start stack : Nat) : Prop :=
  r'.size = 24 ∧
  rget r' 9 = (org : Int) % 256 ∧ rget r' 8 = (org : Int) / 256 ∧          -- IX = ORG
  rget r' 5 = (length : Int) % 256 ∧ rget r' 4 = (length : Int) / 256 ∧    -- DE = LENGTH
  rget r' 0 = 255 ∧ rget r' 1 = 187 ∧                                      -- A = 0xFF, F = S.5H3.NC
  rget r' 12 = (stack : Int) - 2 ∧                                         -- SP = STACK - 2
  rget r' 3 = (start : Int) % 256 ∧ rget r' 2 = (start : Int) / 256 ∧      -- BC = START
  (∀ i : Int, (i = 6 ∨ i = 7 ∨ i = 10 ∨ i = 11 ∨ i = 13 ∨ i = 14 ∨ 16 ≤ i) → rget r' i = rget r i)

theorem data_loader_exec [RamMem μ] (cfg : Cfg) (s : St μ) (org length start stack : Nat)
    (hcode : CodeAt s.mem 23296 (dataLoaderCode org length start stack))
    (hpc : s.pc = 23296) (hs : s.reg.size = 24) (hok : RamMem.ok s.mem)
    (hstack : 16386 ≤ stack) (hstack' : stack < 65536)
    (hclob : stack < 23313 ∨ 23316 < stack) :
    ∃ reg' : Array Int,
      runN cfg 8 s = { s with
        reg := reg',
        mem := mset (mset s.mem ((stack : Int) - 2) ((start : Int) % 256)) ((stack : Int) - 1) ((start : Int) / 256),
        pc := 0x0556, t := s.t + 73 } ∧
      LoaderRegs s.reg reg' org length start stack := by
  have hc : ∀ k : Nat, k < 19 → mget s.mem (23296 + k) = (((dataLoaderCode org length start stack).getD k 0 : Nat) : Int) :=
    fun k hk => hcode k (by simpa [dataLoaderCode, getWord] using hk)
  have c0 := hc 0 (by omega); have c1 := hc 1 (by omega); have c2 := hc 2 (by omega)
  have c3 := hc 3 (by omega); have c4 := hc 4 (by omega); have c5 := hc 5 (by omega)
  have c6 := hc 6 (by omega); have c7 := hc 7 (by omega); have c8 := hc 8 (by omega)
  have c9 := hc 9 (by omega); have c10 := hc 10 (by omega); have c11 := hc 11 (by omega)
  have c12 := hc 12 (by omega); have c13 := hc 13 (by omega); have c14 := hc 14 (by omega)
  have c15 := hc 15 (by omega); have c16 := hc 16 (by omega); have c17 := hc 17 (by omega)
  have c18 := hc 18 (by omega)
  simp [dataLoaderCode, getWord] at c0 c1 c2 c3 c4 c5 c6 c7 c8 c9 c10 c11 c12 c13 c14 c15 c16 c17 c18
  -- LD IX,org
  rw [runN, step_ld_ix_nn cfg s (by rw [hpc]; exact c0) (by simpa [hpc] using c1)]
  simp only [hpc, Int.reduceAdd, Int.reduceMod, c2, c3]
  -- LD DE,length
  rw [runN, step_ld_de_nn cfg _ c4]
  simp only [Int.reduceAdd, Int.reduceMod, c5, c6]
  -- SCF
  rw [runN, step_scf cfg _ c7]
  simp [rget_rset, rset_size, hs, r1, r2]
  -- SBC A,A
  rw [runN, step_sbc_a_a cfg _ c8]
  simp [rget_rset, rset_size, hs, r1, scf_carry, sbc_a_a_carry]
  -- LD SP,stack
  rw [runN, step_ld_sp_nn cfg _ c9]
  simp only [Int.reduceAdd, Int.reduceMod, c10, c11]
  -- LD BC,start
  rw [runN, step_ld_bc_nn cfg _ c12]
  simp only [Int.reduceAdd, Int.reduceMod, c13, c14]
  have hsp : (stack : Int) % 256 + 256 * ((stack : Int) / 256) = stack := by omega
  simp [rget_rset, rset_size, hs, r1, hsp]
  -- PUSH BC
  rw [runN, step_push cfg _ 0xC5 2 3 mC5 c15 (by decide) (by decide)
    (by simp [rget_rset, rset_size, hs]; omega) (by simp [rget_rset, rset_size, hs]; omega)]
  simp [rget_rset, rset_size, hs, r1]
  -- JP 0x0556: its three bytes must have survived the PUSH
  have m16 : mget (mset (mset s.mem ((stack : Int) - 2) ((start : Int) % 256)) ((stack : Int) - 1) ((start : Int) / 256)) 23312 = 195 := by
    rw [mget_mset2 _ hok _ _ _ _ _ (by omega) (by omega) (by omega), if_neg (by omega), if_neg (by omega)]; exact c16
  have m17 : mget (mset (mset s.mem ((stack : Int) - 2) ((start : Int) % 256)) ((stack : Int) - 1) ((start : Int) / 256)) 23313 = 86 := by
    rw [mget_mset2 _ hok _ _ _ _ _ (by omega) (by omega) (by omega), if_neg (by omega), if_neg (by omega)]; exact c17
  have m18 : mget (mset (mset s.mem ((stack : Int) - 2) ((start : Int) % 256)) ((stack : Int) - 1) ((start : Int) / 256)) 23314 = 5 := by
    rw [mget_mset2 _ hok _ _ _ _ _ (by omega) (by omega) (by omega), if_neg (by omega), if_neg (by omega)]; exact c18
  rw [runN, step_jp cfg _ m16]
  simp only [Int.reduceAdd, Int.reduceMod, m17, m18, runN, r1]
  have ht : s.t + 14 + 10 + 4 + 4 + 10 + 10 + 11 + 10 = s.t + 73 := by omega
  rw [ht]
  simp only [Int.reduceMul, Int.reduceAdd]
  refine ⟨_, rfl, ?_⟩
  unfold LoaderRegs
  refine ⟨by simp [rset_size, hs], ?_, ?_, ?_, ?_, ?_, ?_, ?_, ?_, ?_, ?_⟩
  · simp [rget_rset_ne, rget_rset_eq, rset_size, hs]
  · simp [rget_rset_ne, rget_rset_eq, rset_size, hs]
  · simp [rget_rset_ne, rget_rset_eq, rset_size, hs]
  · simp [rget_rset_ne, rget_rset_eq, rset_size, hs]
  · simp [rget_rset_ne, rget_rset_eq, rset_size, hs]
  · simp [rget_rset_ne, rget_rset_eq, rset_size, hs]
  · simp [rget_rset_ne, rget_rset_eq, rset_size, hs]
  · simp [rget_rset_ne, rget_rset_eq, rset_size, hs]
  · simp [rget_rset_ne, rget_rset_eq, rset_size, hs]
  · intro i hi
    repeat rw [rget_rset_ne _ _ _ _ (by omega)]

end DataLoaderExec
