import SkoolVerif.Model.Contend
/-! Basic facts about the contention model: delays are in 0..6, `contend` is non-negative and is
zero when no address in the pattern is contended. -/
namespace Contend
open Z80

theorem pattern_range (k : Int) : 0 ≤ pattern k ∧ pattern k ≤ 6 := by
  unfold pattern; repeat' split
  all_goals omega

theorem delays48_range (t : Int) : 0 ≤ delays48 t ∧ delays48 t ≤ 6 := by
  unfold delays48; simp only; split
  · exact pattern_range _
  · omega

theorem delays128_range (t : Int) : 0 ≤ delays128 t ∧ delays128 t ≤ 6 := by
  unfold delays128; simp only; split
  · exact pattern_range _
  · omega

/-- generic fold lemma: the accumulated delay never decreases -/
theorem foldl_delay_nonneg (f : Int × Int → Int × Int → Int × Int)
    (hf : ∀ acc x, acc.1 ≤ (f acc x).1) (l : List (Int × Int)) (acc : Int × Int) :
    acc.1 ≤ (l.foldl f acc).1 := by
  induction l generalizing acc with
  | nil => simp
  | cons x l ih => simp only [List.foldl_cons]; exact Int.le_trans (hf acc x) (ih _)

theorem contend48_nonneg (t : Int) (l : List (Int × Int)) : 0 ≤ contend48 t l := by
  unfold contend48
  apply foldl_delay_nonneg (acc := (0, t))
  intro acc x
  obtain ⟨d, t'⟩ := acc; obtain ⟨a, n⟩ := x
  simp only
  split
  · have := (delays48_range t').1; simp; omega
  · simp

theorem contend128_nonneg (o t : Int) (l : List (Int × Int)) : 0 ≤ contend128 o t l := by
  unfold contend128
  simp only
  apply foldl_delay_nonneg (acc := (0, t))
  intro acc x
  obtain ⟨d, t'⟩ := acc; obtain ⟨a, n⟩ := x
  simp only
  split
  · have := (delays128_range t').1; simp; omega
  · simp

theorem contend_nonneg {μ} [MemLike μ] (cfg : Cfg) (m : μ) (t : Int) (l : List (Int × Int)) :
    0 ≤ contend cfg m t l := by
  unfold contend; split
  · exact contend128_nonneg ..
  · exact contend48_nonneg ..

end Contend
