import SkoolVerif.Model.Contend
/-! Basic facts about the contention model: delays are in 0..6, `contend` is non-negative and is
zero when no address in the pattern is contended. -/
namespace Contend
open Z80

theorem pattern_range (k : Int) : 0 ≤ pattern k ∧ pattern k ≤ 6 := by
  unfold pattern; repeat' split
  all_goals omega

theorem delays48_range (t : Int) : 0 ≤ delays48 t ∧ delays48 t ≤ 6 := by
  unfold delays48; simp only; split
  · exact pattern_range _
  · omega

theorem delays128_range (t : Int) : 0 ≤ delays128 t ∧ delays128 t ≤ 6 := by
  unfold delays128; simp only; split
  · exact pattern_range _
  · omega

/-- generic fold lemma: the accumulated delay never decreases -/
theorem foldl_delay_nonneg (f : Int × Int → Int × Int → Int × Int)
    (hf : ∀ acc x, acc.1 ≤ (f acc x).1) (l : List (Int × Int)) (acc : Int × Int) :
    acc.1 ≤ (l.foldl f acc).1 := by
  induction l generalizing acc with
  | nil => simp
  | cons x l ih => simp only [List.foldl_cons]; exact Int.le_trans (hf acc x) (ih _)

theorem contend48_nonneg (t : Int) (l : List (Int × Int)) : 0 ≤ contend48 t l := by
  unfold contend48
  apply foldl_delay_nonneg (acc := (0, t))
  intro acc x
  obtain ⟨d, t'⟩ := acc; obtain ⟨a, n⟩ := x
  simp only
  split
  · have := (delays48_range t').1; simp; omega
  · simp

theorem contend128_nonneg (o t : Int) (l : List (Int × Int)) : 0 ≤ contend128 o t l := by
  unfold contend128
  simp only
  apply foldl_delay_nonneg (acc := (0, t))
  intro acc x
  obtain ⟨d, t'⟩ := acc; obtain ⟨a, n⟩ := x
  simp only
  split
  · have := (delays128_range t').1; simp; omega
  · simp

theorem contend_nonneg {μ} [MemLike μ] (cfg : Cfg) (m : μ) (t : Int) (l : List (Int × Int)) :
    0 ≤ contend cfg m t l := by
  unfold contend; split
  · exact contend128_nonneg ..
  · exact contend48_nonneg ..


/-- no delay at all when none of the addresses of the pattern is contended (48K) -/
theorem contend48_zero_of_uncontended (t : Int) (l : List (Int × Int))
    (h : ∀ x ∈ l, ¬ (0x4000 ≤ x.1 ∧ x.1 < 0x8000)) : contend48 t l = 0 := by
  unfold contend48
  suffices ∀ (acc : Int × Int), acc.1 = 0 → (l.foldl _ acc).1 = 0 from this (0, t) rfl
  induction l with
  | nil => intro acc h0; simpa using h0
  | cons x l ih =>
    intro acc h0
    simp only [List.foldl_cons]
    apply ih (fun y hy => h y (by simp [hy]))
    obtain ⟨d, t'⟩ := acc; obtain ⟨a, n⟩ := x
    have hx := h (a, n) (by simp)
    simp only at hx h0 ⊢
    simp [hx, h0]

/-- no delay when none of the addresses is contended (128K: 0x4000-0x7FFF, and 0xC000+ with an odd bank) -/
theorem contend128_zero_of_uncontended (o t : Int) (l : List (Int × Int))
    (h : ∀ x ∈ l, ¬ ((0x4000 ≤ x.1 ∧ x.1 < 0x8000) ∨ (o % 2 ≠ 0 ∧ x.1 ≥ 0xC000))) : contend128 o t l = 0 := by
  unfold contend128
  simp only
  suffices ∀ (acc : Int × Int), acc.1 = 0 → (l.foldl _ acc).1 = 0 from this (0, t) rfl
  induction l with
  | nil => intro acc h0; simpa using h0
  | cons x l ih =>
    intro acc h0
    simp only [List.foldl_cons]
    apply ih (fun y hy => h y (by simp [hy]))
    obtain ⟨d, t'⟩ := acc; obtain ⟨a, n⟩ := x
    have hx := h (a, n) (by simp)
    simp only at hx h0 ⊢
    simp [hx, h0]

/-- the documented 6,5,4,3,2,1,0,0 pattern: on display line `row` (0..191), `col` T-states into the
128 T-states of the line during which the ULA fetches, the wait is `[6,5,4,3,2,1,0,0][col % 8]` -/
theorem delays48_pattern (row col : Int) (hr : 0 ≤ row ∧ row < 192) (hc : 0 ≤ col ∧ col < 128) :
    delays48 (14335 + 224 * row + col) = pattern (col % 8) := by
  unfold delays48
  simp only
  have h1 : (14335 + 224 * row + col - (64 * 224 - 1)) = 224 * row + col := by omega
  rw [h1]
  have h2 : (224 * row + col) / 224 = row := by omega
  have h3 : (224 * row + col) % 224 = col := by omega
  have h4 : (224 * row + col) % 8 = col % 8 := by omega
  rw [h2, h3, h4]
  have : 0 ≤ 224 * row + col ∧ row < 192 ∧ col < 128 ∧ 14335 + 224 * row + col < 69888 := by omega
  simp [this]

/-- outside the fetch part of the display lines there is no delay (48K) -/
theorem delays48_zero_border (row col : Int) (hr : 0 ≤ row ∧ row < 192) (hc : 128 ≤ col ∧ col < 224) :
    delays48 (14335 + 224 * row + col) = 0 := by
  unfold delays48
  simp only
  have h1 : (14335 + 224 * row + col - (64 * 224 - 1)) = 224 * row + col := by omega
  rw [h1]
  have h3 : (224 * row + col) % 224 = col := by omega
  rw [h3]
  have : ¬ col < 128 := by omega
  simp [this]

theorem delays48_zero_before (t : Int) (h : t < 14335) : delays48 t = 0 := by
  unfold delays48; simp only
  split
  · exfalso; omega
  · rfl

theorem delays48_zero_after (t : Int) (h : 14335 + 224 * 192 ≤ t) : delays48 t = 0 := by
  unfold delays48; simp only
  split
  · exfalso; omega
  · rfl

theorem delays128_pattern (row col : Int) (hr : 0 ≤ row ∧ row < 192) (hc : 0 ≤ col ∧ col < 128) :
    delays128 (14361 + 228 * row + col) = pattern (col % 8) := by
  unfold delays128
  simp only
  have h1 : (14361 + 228 * row + col - (63 * 228 - 3)) = 228 * row + col := by omega
  rw [h1]
  have h2 : (228 * row + col) / 228 = row := by omega
  have h3 : (228 * row + col) % 228 = col := by omega
  rw [h2, h3]
  have : 0 ≤ 228 * row + col ∧ row < 192 ∧ col < 128 ∧ 14361 + 228 * row + col < 70908 := by omega
  simp [this]

theorem cfg48_vals : (cfgFor false).t0 = 14312 ∧ (cfgFor false).t1 = 57245 ∧ (cfgFor false).frame_duration = 69888 ∧ (cfgFor false).int_active = 32 := by decide
theorem cfg128_vals : (cfgFor true).t0 = 14338 ∧ (cfgFor true).t1 = 58035 ∧ (cfgFor true).frame_duration = 70908 ∧ (cfgFor true).int_active = 36 := by decide

/-- The guard `t0 < T mod frame < t1` is sound (48K): an instruction that starts at or after `t1`
meets no delay at any later T-state of the frame, and one that starts at or before `t0` meets none
during its first 23 T-states. -/
theorem window_sound_48k_after (t : Int) (h : (cfgFor false).t1 ≤ t) : delays48 t = 0 := by
  rw [cfg48_vals.2.1] at h
  unfold delays48; simp only
  split
  · rename_i hh
    have : (t - 14335) % 8 = 6 ∨ (t - 14335) % 8 = 7 := by omega
    rcases this with h8 | h8 <;> simp [h8, pattern]
  · rfl

theorem window_sound_48k_before (t : Int) (h : t ≤ (cfgFor false).t0 + 22) : delays48 t = 0 := by
  rw [cfg48_vals.1] at h
  unfold delays48; simp only
  split
  · exfalso; omega
  · rfl

theorem window_sound_128k_after (t : Int) (h : (cfgFor true).t1 ≤ t) : delays128 t = 0 := by
  rw [cfg128_vals.2.1] at h
  unfold delays128; simp only
  split
  · rename_i hh
    have : ((t - 14361) % 228) % 8 = 6 ∨ ((t - 14361) % 228) % 8 = 7 := by omega
    rcases this with h8 | h8 <;> simp [h8, pattern]
  · rfl

theorem window_sound_128k_before (t : Int) (h : t ≤ (cfgFor true).t0 + 22) : delays128 t = 0 := by
  rw [cfg128_vals.1] at h
  unfold delays128; simp only
  split
  · exfalso; omega
  · rfl

/-- the window is not wider than necessary: the T-state just before `t1` is still contended -/
theorem window_tight_48k : delays48 ((cfgFor false).t1 - 1) = 1 ∧ delays48 ((cfgFor false).t0 + 23) = 6 := by decide
theorem window_tight_128k : delays128 ((cfgFor true).t1 - 1) = 1 ∧ delays128 ((cfgFor true).t0 + 23) = 6 := by decide

/-- every I/O contention pattern accounts for exactly the 4 T-states of the I/O cycle -/
theorem io_contention_sum {μ} [MemLike μ] (cfg : Cfg) (m : μ) (port : Int) :
    ((io_contention cfg m port).map Prod.snd).sum = 4 := by
  unfold io_contention; split <;> split <;> rfl

end Contend
