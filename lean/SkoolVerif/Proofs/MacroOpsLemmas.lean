import SkoolVerif.Model.MacroOps
/-! Helper lemmas for C17: Python integer division, digit rendering, ranges,
the `#FOR`/`#FOREACH` joins, `#MAP` lookup and the snapshot stack. -/
namespace MacroOpsLemmas
open MacroText MacroExpr MacroArgs MacroOps

/-! ### Floor division / modulo -/

theorem pyDiv_mod (a b : Int) : b * pyDiv a b + pyMod a b = a := by
  have := Int.fmod_add_fdiv_mul a b
  simp only [pyDiv, pyMod]
  rw [Int.mul_comm]; omega

theorem pyMod_pos (a b : Int) (hb : 0 < b) : 0 ≤ pyMod a b ∧ pyMod a b < b :=
  ⟨Int.fmod_nonneg_of_pos a hb, Int.fmod_lt_of_pos a hb⟩

theorem pyMod_neg (a b : Int) (hb : b < 0) : b < pyMod a b ∧ pyMod a b ≤ 0 := by
  have h := pyMod_pos (-a) (-b) (by omega)
  simp only [pyMod, Int.neg_fmod_neg] at h
  simp only [pyMod]
  omega

/-! ### Digits -/

theorem hexVal_digitChar : ∀ d, d < 16 → ∀ lc, hexVal (digitChar d lc) = d := by
  decide

theorem digitsVal_append (b : Nat) (s t : Text) :
    digitsVal b (s ++ t) = t.foldl (fun acc c => acc * b + hexVal c) (digitsVal b s) := by
  simp [digitsVal, List.foldl_append]

theorem digitsVal_snoc (b : Nat) (s : Text) (c : Char) :
    digitsVal b (s ++ [c]) = digitsVal b s * b + hexVal c := by
  simp [digitsVal_append]

theorem natDigitsAux_acc (b : Nat) (lc : Bool) : ∀ fuel n acc,
    natDigitsAux b lc fuel n acc = natDigitsAux b lc fuel n [] ++ acc := by
  intro fuel
  induction fuel with
  | zero => intro n acc; simp [natDigitsAux]
  | succ k ih =>
    intro n acc
    unfold natDigitsAux
    split
    · simp
    · rw [ih (n / b) (digitChar (n % b) lc :: acc), ih (n / b) [digitChar (n % b) lc]]
      simp

theorem digitsVal_natDigitsAux (b : Nat) (lc : Bool) (hb : 2 ≤ b) (hb16 : b ≤ 16) : ∀ fuel n, n < fuel →
    digitsVal b (natDigitsAux b lc fuel n []) = n := by
  intro fuel
  induction fuel with
  | zero => intro n h; omega
  | succ k ih =>
    intro n h
    unfold natDigitsAux
    split
    · rename_i hlt
      simp [digitsVal, hexVal_digitChar n (by omega) lc]
    · rename_i hge
      have hdiv : n / b < n := Nat.div_lt_self (by omega) (by omega)
      rw [natDigitsAux_acc, digitsVal_snoc, ih (n / b) (by omega),
        hexVal_digitChar (n % b) (by have := Nat.mod_lt n (show b > 0 by omega); omega) lc]
      exact Nat.div_add_mod' n b

theorem digitsVal_natDigits (b : Nat) (lc : Bool) (hb : 2 ≤ b) (hb16 : b ≤ 16) (n : Nat) :
    digitsVal b (natDigits b lc n) = n :=
  digitsVal_natDigitsAux b lc hb hb16 (n + 1) n (by omega)

theorem digitsVal_zeros (b : Nat) (k : Nat) (s : Text) :
    digitsVal b (List.replicate k '0' ++ s) = digitsVal b s := by
  induction k with
  | zero => simp
  | succ k ih =>
    have h0 : hexVal '0' = 0 := by decide
    simp only [List.replicate_succ, List.cons_append]
    simp only [digitsVal, List.foldl_cons, h0] at ih ⊢
    simpa using ih

theorem natDigitsAux_ne_nil (b : Nat) (lc : Bool) : ∀ fuel n acc, 0 < fuel →
    natDigitsAux b lc fuel n acc ≠ [] := by
  intro fuel
  induction fuel with
  | zero => intro n acc h; omega
  | succ k ih =>
    intro n acc _
    unfold natDigitsAux
    split
    · simp
    · rw [natDigitsAux_acc]; simp

/-! ### `range` -/

theorem rangeFrom_eq_map (step : Int) : ∀ k cur,
    rangeFrom cur step k = (List.range k).map (fun (i : Nat) => cur + (i : Int) * step) := by
  intro k
  induction k with
  | zero => intro cur; simp [rangeFrom]
  | succ k ih =>
    intro cur
    rw [rangeFrom, ih, List.range_succ_eq_map]
    simp only [List.map_cons, List.map_map]
    congr 1
    · simp
    · apply List.map_congr_left
      intro i _
      simp only [Function.comp]
      have : ((Nat.succ i : Nat) : Int) * step = (i : Int) * step + step := by
        rw [Int.natCast_succ, Int.add_mul]; omega
      omega

theorem mem_rangeFrom (cur step : Int) (k : Nat) (n : Int) :
    n ∈ rangeFrom cur step k ↔ ∃ i : Nat, i < k ∧ n = cur + (i : Int) * step := by
  rw [rangeFrom_eq_map]
  simp only [List.mem_map, List.mem_range]
  constructor
  · rintro ⟨i, hi, rfl⟩; exact ⟨i, hi, rfl⟩
  · rintro ⟨i, hi, rfl⟩; exact ⟨i, hi, rfl⟩

/-- `i < len(range(start, stop, step))` iff the `i`-th element is before `stop`. -/
theorem lt_rangeLen_pos (start stop step : Int) (hs : 0 < step) (i : Nat) :
    i < rangeLen start stop step ↔ start + (i : Int) * step < stop := by
  unfold rangeLen
  simp only [hs, ↓reduceIte]
  have hmul : 0 ≤ (i : Int) * step := Int.mul_nonneg (by omega) (by omega)
  split
  · rename_i hlt
    have hq : 0 ≤ (stop - start + step - 1) / step := Int.ediv_nonneg (by omega) (by omega)
    have key : ((i : Int) + 1 ≤ (stop - start + step - 1) / step) ↔ ((i : Int) + 1) * step ≤ stop - start + step - 1 :=
      Int.le_ediv_iff_mul_le hs
    have e : ((i : Int) + 1) * step = (i : Int) * step + step := by rw [Int.add_mul]; omega
    rw [e] at key
    constructor
    · intro h
      have : (i : Int) + 1 ≤ (stop - start + step - 1) / step := by omega
      have := key.mp this
      omega
    · intro h
      have : (i : Int) + 1 ≤ (stop - start + step - 1) / step := key.mpr (by omega)
      omega
  · constructor
    · intro h; omega
    · intro h; omega

theorem lt_rangeLen_neg (start stop step : Int) (hs : step < 0) (i : Nat) :
    i < rangeLen start stop step ↔ stop < start + (i : Int) * step := by
  unfold rangeLen
  have hn : ¬ (0 < step) := by omega
  simp only [gt_iff_lt, hn, ↓reduceIte, hs]
  have hmul : 0 ≤ (i : Int) * (-step) := Int.mul_nonneg (by omega) (by omega)
  have hneg : (i : Int) * (-step) = -((i : Int) * step) := by rw [Int.mul_neg]
  split
  · rename_i hlt
    have hq : 0 ≤ (start - stop + -step - 1) / -step := Int.ediv_nonneg (by omega) (by omega)
    have key : ((i : Int) + 1 ≤ (start - stop + -step - 1) / -step) ↔ ((i : Int) + 1) * -step ≤ start - stop + -step - 1 :=
      Int.le_ediv_iff_mul_le (by omega)
    have e : ((i : Int) + 1) * -step = (i : Int) * (-step) + -step := by rw [Int.add_mul]; omega
    rw [e] at key
    constructor
    · intro h
      have : (i : Int) + 1 ≤ (start - stop + -step - 1) / -step := by omega
      have := key.mp this
      omega
    · intro h
      have : (i : Int) + 1 ≤ (start - stop + -step - 1) / -step := key.mpr (by omega)
      omega
  · constructor
    · intro h; omega
    · intro h; omega

theorem sign_pos (step : Int) (hs : 0 < step) : pyDiv step (Int.ofNat step.natAbs) = 1 := by
  have h : (Int.ofNat step.natAbs) = step := by simp; omega
  rw [h, pyDiv, Int.fdiv_eq_ediv_of_nonneg _ (by omega), Int.ediv_self (by omega)]

theorem sign_neg (step : Int) (hs : step < 0) : pyDiv step (Int.ofNat step.natAbs) = -1 := by
  have h : (Int.ofNat step.natAbs) = -step := by simp; omega
  rw [h, pyDiv, Int.fdiv_eq_ediv_of_nonneg _ (by omega), Int.ediv_neg, Int.ediv_self (by omega)]

/-! ### Joins -/

theorem join_cons_cons (sep p q : Text) (ps : List Text) :
    join sep (p :: q :: ps) = p ++ sep ++ join sep (q :: ps) := rfl

/-- `elements` of `parse_for` before `pop()`. -/
def elems (items : List (Text × Text)) : List Text := items.flatMap (fun p => [p.1, p.2])

theorem elems_cons (e s : Text) (r : List (Text × Text)) : elems ((e, s) :: r) = e :: s :: elems r := by
  simp [elems]

theorem elems_length (items : List (Text × Text)) : (elems items).length = 2 * items.length := by
  induction items with
  | nil => rfl
  | cons p r ih => obtain ⟨e, s⟩ := p; rw [elems_cons]; simp [ih]; omega

theorem elems_ne_nil (p : Text × Text) (r : List (Text × Text)) : elems (p :: r) ≠ [] := by
  obtain ⟨e, s⟩ := p; rw [elems_cons]; simp

theorem dropLast_elems_cons (e s : Text) (p : Text × Text) (r : List (Text × Text)) :
    (elems ((e, s) :: p :: r)).dropLast = e :: s :: (elems (p :: r)).dropLast := by
  rw [elems_cons]
  have h := elems_ne_nil p r
  cases hx : elems (p :: r) with
  | nil => exact absurd hx h
  | cons x xs => simp

theorem forJoin_none (items : List (Text × Text)) : forJoin items none = joinSpec none items := by
  unfold forJoin
  show (elems items).dropLast.flatten = _
  induction items with
  | nil => rfl
  | cons p r ih =>
    obtain ⟨e, s⟩ := p
    cases r with
    | nil => simp [elems, joinSpec]
    | cons q r' =>
      rw [dropLast_elems_cons]
      cases r' with
      | nil =>
        obtain ⟨e2, s2⟩ := q
        simp [elems, joinSpec]
      | cons q' r'' =>
        simp only [List.flatten_cons, ih, joinSpec]
        simp

theorem setPenult_cons_cons (e s : Text) (R : List Text) (f : Text) (h : 2 ≤ R.length) :
    setPenult (e :: s :: R) f = e :: s :: setPenult R f := by
  unfold setPenult
  have : (e :: s :: R).length - 2 = (R.length - 2) + 1 + 1 := by simp; omega
  rw [this, List.set_cons_succ, List.set_cons_succ]

theorem forJoin_some_aux (f : Text) : ∀ items : List (Text × Text), 2 ≤ items.length →
    (setPenult (elems items).dropLast f).flatten = joinSpec (some f) items := by
  intro items
  induction items with
  | nil => intro h; simp at h
  | cons p r ih =>
    intro h
    obtain ⟨e, s⟩ := p
    cases r with
    | nil => simp at h
    | cons q r' =>
      rw [dropLast_elems_cons]
      cases r' with
      | nil =>
        obtain ⟨e2, s2⟩ := q
        simp [elems, setPenult, joinSpec]
      | cons q' r'' =>
        have hlen : 2 ≤ ((elems (q :: q' :: r'')).dropLast).length := by
          simp [elems_length]; omega
        rw [setPenult_cons_cons _ _ _ _ hlen]
        simp only [List.flatten_cons]
        rw [ih (by simp)]
        simp [joinSpec]

theorem forJoin_eq_spec (items : List (Text × Text)) (fsep : Option Text) :
    forJoin items fsep = joinSpec fsep items := by
  cases fsep with
  | none => exact forJoin_none items
  | some f =>
    by_cases h : 2 ≤ items.length
    · have hl : ((elems items).dropLast).length > 2 := by simp [elems_length]; omega
      have := forJoin_some_aux f items h
      unfold forJoin
      show (if ((elems items).dropLast).length > 2 then setPenult (elems items).dropLast f else (elems items).dropLast).flatten = _
      rw [if_pos hl]; exact this
    · have hl : ¬ ((elems items).dropLast).length > 2 := by simp [elems_length]; omega
      have h0 := forJoin_none items
      unfold forJoin at h0 ⊢
      show (if ((elems items).dropLast).length > 2 then setPenult (elems items).dropLast f else (elems items).dropLast).flatten = _
      rw [if_neg hl]
      have h0' : (elems items).dropLast.flatten = joinSpec none items := h0
      rw [h0']
      match items, h with
      | [], _ => rfl
      | [(e, s)], _ => rfl
      | _ :: _ :: _, h => simp at h

theorem foreachJoin_eq_spec (elemsL : List Text) (sep : Text) (fsep : Option Text) :
    foreachJoin elemsL sep fsep = joinSpec (some (fsep.getD sep)) (elemsL.map (fun e => (e, sep))) := by
  unfold foreachJoin
  match elemsL with
  | [] => rfl
  | [e] => rfl
  | e1 :: e2 :: rest =>
    simp only
    induction rest generalizing e1 e2 with
    | nil => simp [join, joinSpec]
    | cons e3 rest ih =>
      have ih' := ih e2 e3
      simp only [List.map_cons] at ih' ⊢
      have hd : (e1 :: e2 :: e3 :: rest).dropLast = e1 :: (e2 :: e3 :: rest).dropLast := by simp
      have hl : (e1 :: e2 :: e3 :: rest).getLast? = (e2 :: e3 :: rest).getLast? := by simp
      rw [hd, hl]
      have hne : (e2 :: e3 :: rest).dropLast = e2 :: (e3 :: rest).dropLast := by simp
      rw [hne] at ih' ⊢
      rw [show joinSpec (some (fsep.getD sep)) ((e1, sep) :: (e2, sep) :: (e3, sep) :: List.map (fun e => (e, sep)) rest)
            = e1 ++ sep ++ joinSpec (some (fsep.getD sep)) ((e2, sep) :: (e3, sep) :: List.map (fun e => (e, sep)) rest) from rfl]
      rw [← ih']
      simp [join]

/-! ### `#MAP` -/

theorem mapLookup_nil (d : Text) (k : Int) : mapLookup d [] k = d := rfl

theorem mapLookup_snoc_same (d : Text) (ps : List (Int × Text)) (k : Int) (v : Text) :
    mapLookup d (ps ++ [(k, v)]) k = v := by
  simp [mapLookup]

theorem mapLookup_snoc_other (d : Text) (ps : List (Int × Text)) (k k' : Int) (v : Text) (h : k' ≠ k) :
    mapLookup d (ps ++ [(k', v)]) k = mapLookup d ps k := by
  simp [mapLookup, h]

theorem mapLookup_absent (d : Text) (ps : List (Int × Text)) (k : Int) (h : ∀ p ∈ ps, p.1 ≠ k) :
    mapLookup d ps k = d := by
  unfold mapLookup
  have : ps.reverse.find? (fun p => decide (p.1 = k)) = none := by
    rw [List.find?_eq_none]
    intro p hp
    simp at hp
    simpa using h p hp
  rw [this]

/-! ### Snapshot stack -/

theorem pokeFrom_spec (byte step : Int) : ∀ (k : Nat) (m : Mem) (cur : Int) (c : Nat),
    pokeFrom m byte step cur k c = if ∃ i : Nat, i < k ∧ cell (cur + (i : Int) * step) = c then byte else m c := by
  intro k
  induction k with
  | zero => intro m cur c; simp [pokeFrom]
  | succ k ih =>
    intro m cur c
    rw [pokeFrom, ih]
    by_cases h : ∃ i : Nat, i < k ∧ cell (cur + step + (i : Int) * step) = c
    · rw [if_pos h]
      obtain ⟨i, hi, hc⟩ := h
      rw [if_pos]
      refine ⟨i + 1, by omega, ?_⟩
      rw [← hc]; congr 1
      rw [Int.natCast_succ, Int.add_mul]; omega
    · rw [if_neg h]
      by_cases h0 : cell cur = c
      · rw [if_pos ⟨0, by omega, by simpa using h0⟩]
        simp [write, h0]
      · have : ¬ ∃ i : Nat, i < k + 1 ∧ cell (cur + (i : Int) * step) = c := by
          rintro ⟨i, hi, hc⟩
          cases i with
          | zero => simp at hc; exact h0 hc
          | succ j =>
            apply h
            refine ⟨j, by omega, ?_⟩
            rw [← hc]; congr 1
            rw [Int.natCast_succ, Int.add_mul]; omega
        rw [if_neg this]
        simp [write]
        intro hc; exact absurd hc.symm h0

theorem run_append (s : Snap) (xs ys : List SnapOp) :
    s.run (xs ++ ys) = (s.run xs).bind (fun s' => s'.run ys) := by
  induction xs generalizing s with
  | nil => simp [Snap.run]
  | cons o os ih =>
    simp only [List.cons_append, Snap.run]
    cases s.step o with
    | none => simp
    | some s' => simpa using ih s'


/-! ### More on digits: no sign character, width -/

theorem digitChar_ne_minus : ∀ d, d < 16 → ∀ lc, digitChar d lc ≠ '-' := by decide

theorem natDigitsAux_no_minus (b : Nat) (lc : Bool) (hb : 2 ≤ b) (hb16 : b ≤ 16) : ∀ fuel n acc,
    (∀ c ∈ acc, c ≠ '-') → ∀ c ∈ natDigitsAux b lc fuel n acc, c ≠ '-' := by
  intro fuel
  induction fuel with
  | zero => intro n acc h; simpa [natDigitsAux] using h
  | succ k ih =>
    intro n acc h
    unfold natDigitsAux
    split
    · rename_i hlt
      intro c hc
      simp only [List.mem_cons] at hc
      rcases hc with rfl | hc
      · exact digitChar_ne_minus n (by omega) lc
      · exact h c hc
    · apply ih
      intro c hc
      simp only [List.mem_cons] at hc
      rcases hc with rfl | hc
      · exact digitChar_ne_minus (n % b) (by have := Nat.mod_lt n (show b > 0 by omega); omega) lc
      · exact h c hc

theorem fmtNat_no_minus (b : Nat) (lc : Bool) (hb : 2 ≤ b) (hb16 : b ≤ 16) (w n : Nat) :
    ∀ c ∈ fmtNat b lc w n, c ≠ '-' := by
  intro c hc
  simp only [fmtNat, List.mem_append, List.mem_replicate] at hc
  rcases hc with ⟨_, rfl⟩ | hc
  · decide
  · exact natDigitsAux_no_minus b lc hb hb16 _ _ [] (by simp) c hc

theorem parseSigned_fmtNat (b : Nat) (lc : Bool) (hb : 2 ≤ b) (hb16 : b ≤ 16) (w n : Nat) :
    parseSigned b (fmtNat b lc w n) = (n : Int) := by
  have hv : digitsVal b (fmtNat b lc w n) = n := by
    simp only [fmtNat]; rw [digitsVal_zeros, digitsVal_natDigits b lc hb hb16]
  have hm := fmtNat_no_minus b lc hb hb16 w n
  cases hf : fmtNat b lc w n with
  | nil => rw [hf] at hv; simp [parseSigned, ← hv]
  | cons c t =>
    have hc : c ≠ '-' := hm c (by rw [hf]; simp)
    rw [hf] at hv
    unfold parseSigned
    split
    · rename_i heq; simp only [List.cons.injEq] at heq; exact absurd heq.1 hc
    · simp [hv]

theorem parseSigned_fmtInt (b : Nat) (lc : Bool) (hb : 2 ≤ b) (hb16 : b ≤ 16) (w : Nat) (v : Int) :
    parseSigned b (fmtInt b lc w v) = v := by
  unfold fmtInt
  split
  · rename_i hneg
    have hv : digitsVal b (fmtNat b lc (w - 1) v.natAbs) = v.natAbs := by
      simp only [fmtNat]; rw [digitsVal_zeros, digitsVal_natDigits b lc hb hb16]
    simp only [parseSigned, hv]
    omega
  · rw [parseSigned_fmtNat b lc hb hb16]; omega

theorem fmtNat_length (b : Nat) (lc : Bool) (w n : Nat) :
    (fmtNat b lc w n).length = max w (natDigits b lc n).length := by
  simp [fmtNat]; omega

/-! ### `#FOR` vs `#FOREACH` -/

theorem joinSpec_const_sep (fsep : Option Text) (sep : Text) : ∀ l : List Text,
    joinSpec fsep (l.map (fun e => (e, sep))) = joinSpec (some (fsep.getD sep)) (l.map (fun e => (e, sep))) := by
  intro l
  induction l with
  | nil => rfl
  | cons e r ih =>
    cases r with
    | nil => rfl
    | cons e2 r2 =>
      cases r2 with
      | nil => cases fsep <;> rfl
      | cons e3 r3 =>
        simp only [List.map_cons] at ih ⊢
        simp only [joinSpec]
        rw [ih]

/-! ### Replacement fields / `#LET` -/

theorem get_set_same (f : Fields) (k : Text) (v : Val) : (f.set k v).get k = some v := by
  simp [Fields.set, Fields.get]

theorem get_set_other (f : Fields) (k k' : Text) (v : Val) (h : k' ≠ k) : (f.set k v).get k' = f.get k' := by
  simp [Fields.set, Fields.get, h.symm]

theorem get_foldl_set (binds : List (Text × Val)) : ∀ (f : Fields) (k : Text),
    (binds.foldl (fun g p => g.set p.1 p.2) f).get k =
      match binds.reverse.find? (fun p => p.1 = k) with
      | some p => some p.2
      | none => f.get k := by
  induction binds with
  | nil => intro f k; rfl
  | cons b bs ih =>
    intro f k
    simp only [List.foldl_cons, List.reverse_cons]
    rw [ih, List.find?_append]
    cases hfind : List.find? (fun p => decide (p.1 = k)) bs.reverse with
    | some p => simp
    | none =>
      simp only [Option.none_or, List.find?_cons]
      by_cases hk : b.1 = k
      · simp [hk, get_set_same]
      · simp [hk, get_set_other _ _ _ _ (Ne.symm hk)]

theorem fieldName_closing : ∀ (name rest : Text), '}' ∉ name → fieldName (name ++ '}' :: rest) = some (name, rest) := by
  intro name
  induction name with
  | nil => intro rest _; simp [fieldName]
  | cons c t ih =>
    intro rest h
    simp only [List.mem_cons, not_or] at h
    have hc : c ≠ '}' := fun e => h.1 e.symm
    simp [fieldName, hc, ih rest h.2]

end MacroOpsLemmas
