import SkoolVerif.Proofs.NoClearLoad
import SkoolVerif.Proofs.FMem
import SkoolVerif.Proofs.PMem
/-! Concrete machines meeting the hypotheses of the C12 theorems (used by the `example`s in
`Props/C12.lean`). -/
open Z80 Sim Bin2Tap LoaderSteps

namespace C12Examples

/-- a 48K machine (functional memory) with the ROM epilogue, and the loader for a 3-byte program
at 40000 whose stack (40002) lies inside the block -/
def exMem : FMem :=
  ((FMem.zero.load 0x053F RomReturn.saLdRet).load 0x05E2 [0xC9]).load 23296 (dataLoaderCode 40000 3 40001 40002)

def exState : St FMem :=
  { reg := Array.replicate 24 0, mem := exMem, pc := 23296, t := 0, iff := 1, im := 1, halt := 0, memptr := 0,
    ins := [], outs := [], inLog := [] }

def exCfg : Cfg := { out_tracer := true, in_a_n_tracer := true }

theorem exMem_loader : CodeAt exMem 23296 (dataLoaderCode 40000 3 40001 40002) := FMem.codeAt_load _ _ _

theorem exMem_rom : RomReturn.RomEpilogue exMem := by
  refine ⟨?_, ?_⟩
  · show mget exMem 0x05E2 = 0xC9
    unfold exMem
    rw [FMem.get_load_other _ _ _ _ (by simp [dataLoaderCode, getWord])]
    exact (FMem.codeAt_load _ 0x05E2 [0xC9]) 0 (by simp)
  · unfold exMem
    apply FMem.codeAt_load_other _ _ _ _ _ _ (by simp [dataLoaderCode, getWord, RomReturn.saLdRet])
    apply FMem.codeAt_load_other _ _ _ _ _ _ (by simp [RomReturn.saLdRet])
    exact FMem.codeAt_load _ _ _

/-- a 128K machine with the bank loader for banks 1 and 0 (7FFD = 3 at the end) at 30000 -/
def exBankMem : PMem := PMem.zero.load 30000 (bankLoaderCode 30000 32768 ++ bankTable [1, 0] 3)

/-- at LOOP, HL at the first table entry (30038), SP = 29990 -/
def exBankState : St PMem :=
  { reg := ((Array.replicate 24 (0 : Int)).set! 7 86 |>.set! 6 117 |>.set! 12 29990), mem := exBankMem, pc := 30003,
    t := 0, iff := 1, im := 1, halt := 0, memptr := 0, ins := [], outs := [], inLog := [] }

theorem exBank_code : CodeAt exBankMem 30000 (bankLoaderCode 30000 32768) := by
  have h := PMem.codeAt_load PMem.zero 30000 (bankLoaderCode 30000 32768 ++ bankTable [1, 0] 3) (by decide)
  intro k hk
  have hk' : k < (bankLoaderCode 30000 32768 ++ bankTable [1, 0] 3).length := by simp; omega
  have := h k hk'
  rw [show exBankMem = PMem.zero.load 30000 (bankLoaderCode 30000 32768 ++ bankTable [1, 0] 3) from rfl, this]
  simp [List.getD_eq_getElem?_getD, List.getElem?_append_left hk]

theorem exBank_entry : mget exBankMem 30038 = 16 := by
  rw [show exBankMem = PMem.zero.load 30000 (bankLoaderCode 30000 32768 ++ bankTable [1, 0] 3) from rfl,
    PMem.get_load _ _ _ _ (by decide) (by decide)]
  decide

end C12Examples
