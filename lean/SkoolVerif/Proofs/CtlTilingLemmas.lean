import SkoolVerif.Spec.Tiling
/-! Lemmas about the dict model, `sortedItems`, `get_blocks` and loop unrolling (C01). -/
namespace CtlTiling
open C01Spec

/-! ### dicts -/

def keys {V : Type} (d : Dict V) : List Nat := d.map (·.1)

theorem dget_dset {V : Type} (d : Dict V) (k : Nat) (v : V) (k' : Nat) :
    dget (dset d k v) k' = if k = k' then some v else dget d k' := by
  induction d with
  | nil => simp [dset, dget]
  | cons p r ih =>
    obtain ⟨a, w⟩ := p
    simp only [dset]
    by_cases h : a = k
    · subst h; simp only [if_true, dget]
      by_cases h2 : a = k' <;> simp [h2]
    · simp only [h, if_false, dget, ih]
      by_cases h2 : a = k'
      · subst h2; simp [Ne.symm h]
      · simp [h2]

theorem keys_dset {V : Type} (d : Dict V) (k : Nat) (v : V) (x : Nat) :
    x ∈ keys (dset d k v) ↔ x = k ∨ x ∈ keys d := by
  induction d with
  | nil => simp [dset, keys]
  | cons p r ih =>
    obtain ⟨a, w⟩ := p
    simp only [dset]
    by_cases h : a = k
    · subst h; simp [keys]
    · simp only [h, if_false]
      simp only [keys, List.map_cons, List.mem_cons] at ih ⊢
      rw [ih]
      constructor
      · rintro (h1 | h1 | h1) <;> simp [h1]
      · rintro (h1 | h1 | h1) <;> simp [h1]

theorem dget_isSome_iff {V : Type} (d : Dict V) (k : Nat) : (dget d k).isSome ↔ k ∈ keys d := by
  induction d with
  | nil => simp [dget, keys]
  | cons p r ih =>
    obtain ⟨a, w⟩ := p
    simp only [dget, keys, List.map_cons, List.mem_cons]
    by_cases h : a = k
    · simp [h]
    · simp only [h, if_false]
      simp only [keys] at ih
      rw [ih]
      constructor
      · intro h1; exact Or.inr h1
      · rintro (h1 | h1)
        · exact absurd h1.symm h
        · exact h1

theorem keys_dsetDefault {V : Type} (d : Dict V) (k : Nat) (v : V) (x : Nat) :
    x ∈ keys (dsetDefault d k v) ↔ x = k ∨ x ∈ keys d := by
  unfold dsetDefault
  cases h : dget d k with
  | some w =>
    have : k ∈ keys d := (dget_isSome_iff d k).1 (by simp [h])
    constructor
    · intro h1; exact Or.inr h1
    · rintro (h1 | h1)
      · subst h1; exact this
      · exact h1
  | none => exact keys_dset d k v x

theorem nodup_dset {V : Type} (d : Dict V) (k : Nat) (v : V) (h : (keys d).Nodup) :
    (keys (dset d k v)).Nodup := by
  induction d with
  | nil => simp [dset, keys]
  | cons p r ih =>
    obtain ⟨a, w⟩ := p
    simp only [keys, List.map_cons, List.nodup_cons] at h
    simp only [dset]
    by_cases h1 : a = k
    · subst h1; simp only [if_true, keys, List.map_cons, List.nodup_cons]; exact h
    · simp only [h1, if_false, keys, List.map_cons, List.nodup_cons]
      refine ⟨?_, ih h.2⟩
      intro hm
      have := (keys_dset r k v a).1 hm
      rcases this with h2 | h2
      · exact h1 h2
      · exact h.1 h2

/-! ### `sortedItems` -/

def SortedK {V : Type} (l : List (Nat × V)) : Prop := l.Pairwise (fun p q => p.1 < q.1)

theorem mem_insertSorted {V : Type} (k : Nat) (v : V) (l : List (Nat × V)) (x : Nat) :
    x ∈ (insertSorted k v l).map (·.1) ↔ x = k ∨ x ∈ l.map (·.1) := by
  induction l with
  | nil => simp [insertSorted]
  | cons p r ih =>
    obtain ⟨a, w⟩ := p
    simp only [insertSorted]
    split
    · simp
    · split
      · rename_i h1 h2; subst h2; simp
      · simp only [List.map_cons, List.mem_cons, ih]
        constructor
        · rintro (h1 | h1 | h1) <;> simp [h1]
        · rintro (h1 | h1 | h1) <;> simp [h1]

theorem insertSorted_sorted {V : Type} (k : Nat) (v : V) (l : List (Nat × V)) (h : SortedK l) :
    SortedK (insertSorted k v l) := by
  induction l with
  | nil => simp [insertSorted, SortedK]
  | cons p r ih =>
    obtain ⟨a, w⟩ := p
    unfold SortedK at h ⊢
    rw [List.pairwise_cons] at h
    simp only [insertSorted]
    split
    · rename_i h1
      rw [List.pairwise_cons]
      refine ⟨?_, List.pairwise_cons.2 h⟩
      intro q hq
      rcases List.mem_cons.1 hq with h2 | h2
      · subst h2; exact h1
      · exact Nat.lt_trans h1 (h.1 q h2)
    · split
      · exact List.pairwise_cons.2 h
      · rename_i h1 h2
        rw [List.pairwise_cons]
        refine ⟨?_, ih h.2⟩
        intro q hq
        have hq' : q.1 ∈ (insertSorted k v r).map (·.1) := List.mem_map_of_mem hq
        rcases (mem_insertSorted k v r q.1).1 hq' with h3 | h3
        · omega
        · obtain ⟨q', hq'm, hq'e⟩ := List.mem_map.1 h3
          have := h.1 q' hq'm
          omega

theorem sortedItems_sorted {V : Type} (d : Dict V) : SortedK (sortedItems d) := by
  induction d with
  | nil => simp [sortedItems, SortedK]
  | cons p r ih => exact insertSorted_sorted _ _ _ ih

theorem mem_sortedKeys {V : Type} (d : Dict V) (x : Nat) : x ∈ sortedKeys d ↔ x ∈ keys d := by
  induction d with
  | nil => simp [sortedKeys, sortedItems, keys]
  | cons p r ih =>
    simp only [sortedKeys, sortedItems, List.foldr_cons] at ih ⊢
    rw [mem_insertSorted]
    simp only [keys, List.map_cons, List.mem_cons]
    simp only [keys] at ih
    rw [ih]

/-- the last element of a strictly sorted list is its maximum -/
theorem sorted_getLast {V : Type} (l : List (Nat × V)) (h : SortedK l) (m : Nat)
    (hm : m ∈ l.map (·.1)) (hmax : ∀ x ∈ l.map (·.1), x ≤ m) : (l.map (·.1)).getLast? = some m := by
  induction l with
  | nil => simp at hm
  | cons p r ih =>
    unfold SortedK at h
    rw [List.pairwise_cons] at h
    cases r with
    | nil =>
      simp only [List.map_cons, List.map_nil, List.mem_singleton] at hm
      simp [hm]
    | cons q r' =>
      have hq : q.1 ≤ m := hmax q.1 (by simp)
      have hpq : p.1 < q.1 := h.1 q (by simp)
      have hm' : m ∈ (q :: r').map (·.1) := by
        simp only [List.map_cons, List.mem_cons] at hm ⊢
        rcases hm with h1 | h1
        · omega
        · exact h1
      have := ih h.2 hm' (fun x hx => hmax x (by simp only [List.map_cons, List.mem_cons] at hx ⊢; exact Or.inr hx))
      simp only [List.map_cons] at this ⊢
      rw [List.getLast?_cons_cons]
      exact this

/-- the first element of a strictly sorted list is its minimum -/
theorem sorted_head {V : Type} (l : List (Nat × V)) (h : SortedK l) (m : Nat)
    (hm : m ∈ l.map (·.1)) (hmin : ∀ x ∈ l.map (·.1), m ≤ x) : (l.map (·.1)).head? = some m := by
  cases l with
  | nil => simp at hm
  | cons p r =>
    unfold SortedK at h
    rw [List.pairwise_cons] at h
    simp only [List.map_cons, List.mem_cons] at hm
    simp only [List.map_cons, List.head?_cons, Option.some.injEq]
    rcases hm with h1 | h1
    · exact h1.symm
    · obtain ⟨q, hq, hqe⟩ := List.mem_map.1 h1
      have := h.1 q hq
      have := hmin p.1 (by simp)
      omega

/-! ### `Tiles` -/

theorem Tiles_append {l1 l2 : List Sub} {a b c : Nat} (h1 : Tiles l1 a b) (h2 : Tiles l2 b c) :
    Tiles (l1 ++ l2) a c := by
  induction l1 generalizing a with
  | nil => simp only [Tiles] at h1; subst h1; simpa using h2
  | cons s r ih =>
    simp only [Tiles] at h1
    simp only [List.cons_append, Tiles]
    exact ⟨h1.1, h1.2.1, ih h1.2.2⟩

theorem Tiles_le {l : List Sub} {a b : Nat} (h : Tiles l a b) : a ≤ b := by
  induction l generalizing a with
  | nil => simp only [Tiles] at h; omega
  | cons s r ih =>
    simp only [Tiles] at h
    have := ih h.2.2
    omega

/-! ### `get_blocks` -/

/-- invariant of a block while sub-blocks are being added -/
structure SubsInv (b : Block) : Prop where
  lt : b.start < b.end_
  head : (b.subs.head?).map (·.start) = some b.start
  sorted : b.subs.Pairwise (fun s t => s.start < t.start)
  range : ∀ s ∈ b.subs, b.start ≤ s.start ∧ s.start < b.end_

theorem mkBlocks_spec (items : List (Nat × Char)) (h : SortedK items) (lo hi : Nat)
    (hlo : (items.map (·.1)).head? = some lo) (hhi : (items.map (·.1)).getLast? = some hi) :
    BlocksTile (mkBlocks items) lo hi ∧ ∀ b ∈ mkBlocks items, SubsInv b := by
  induction items generalizing lo with
  | nil => simp at hlo
  | cons p r ih =>
    obtain ⟨a, c⟩ := p
    cases r with
    | nil =>
      simp only [List.map_cons, List.map_nil, List.head?_cons, Option.some.injEq,
        List.getLast?_singleton] at hlo hhi
      subst hlo; subst hhi
      simp [mkBlocks, BlocksTile]
    | cons q r' =>
      obtain ⟨b, c'⟩ := q
      unfold SortedK at h
      rw [List.pairwise_cons] at h
      have hab : a < b := h.1 (b, c') (by simp)
      simp only [List.map_cons, List.head?_cons, Option.some.injEq] at hlo
      subst hlo
      have hhi' : (((b, c') :: r').map (·.1)).getLast? = some hi := by
        simp only [List.map_cons] at hhi ⊢
        rw [List.getLast?_cons_cons] at hhi
        exact hhi
      have := ih h.2 b (by simp) hhi'
      simp only [mkBlocks, BlocksTile, List.mem_cons]
      refine ⟨⟨by first | rfl | trivial, hab, this.1⟩, ?_⟩
      rintro blk (h1 | h1)
      · subst h1
        exact ⟨hab, by simp, by simp, by simp; omega⟩
      · exact this.2 blk h1

theorem addBlock_fields (b : Block) (c : Char) (a : Nat) :
    (addBlock b c a).start = b.start ∧ (addBlock b c a).end_ = b.end_ ∧ (addBlock b c a).ctl = b.ctl := by
  unfold addBlock
  split
  · split <;> simp
  · simp

/-- adding a sub-block at an address above all earlier sub-block addresses keeps the invariant -/
theorem addBlock_inv (b : Block) (c : Char) (a : Nat) (h : SubsInv b)
    (hr : b.start ≤ a ∧ a < b.end_) (hnew : ∀ s ∈ b.subs, s.start = b.start ∨ s.start < a) :
    SubsInv (addBlock b c a) := by
  unfold addBlock
  split
  · rename_i heq
    split
    · rename_i s r hs
      have hh := h.head; have hso := h.sorted; have hra := h.range
      rw [hs] at hh hso hra
      refine ⟨h.lt, ?_, ?_, ?_⟩
      · simpa using hh
      · rw [List.pairwise_cons] at hso ⊢
        exact hso
      · intro t ht
        rcases List.mem_cons.1 ht with h1 | h1
        · subst h1; exact hra s (by simp)
        · exact hra t (List.mem_cons_of_mem _ h1)
    · exact h
  · rename_i hne
    refine ⟨h.lt, ?_, ?_, ?_⟩
    · have hh := h.head
      cases hs : b.subs with
      | nil => rw [hs] at hh; simp at hh
      | cons s r => rw [hs] at hh; simpa using hh
    · simp only
      rw [List.pairwise_append]
      refine ⟨h.sorted, by simp, ?_⟩
      intro s hs t ht
      simp only [List.mem_singleton] at ht
      subst ht
      rcases hnew s hs with h1 | h1
      · simp only; omega
      · exact h1
    · intro s hs
      simp only [List.mem_append, List.mem_singleton] at hs
      rcases hs with h1 | h1
      · exact h.range s h1
      · subst h1; exact hr

theorem addSub_spec (bs : List Block) (sc : Option Char) (a : Nat) (lo hi : Nat)
    (ht : BlocksTile bs lo hi) (hinv : ∀ b ∈ bs, SubsInv b)
    (hnew : ∀ b ∈ bs, ∀ s ∈ b.subs, s.start = b.start ∨ s.start < a) :
    BlocksTile (addSub bs sc a) lo hi ∧ (∀ b ∈ addSub bs sc a, SubsInv b) ∧
    (∀ b ∈ addSub bs sc a, ∀ s ∈ b.subs, s.start = b.start ∨ s.start ≤ a) := by
  induction bs generalizing lo with
  | nil => simp [addSub, BlocksTile] at ht ⊢; exact ht
  | cons b r ih =>
    simp only [BlocksTile] at ht
    simp only [addSub]
    split
    · rename_i hr
      have hf := addBlock_fields b (sc.getD b.ctl) a
      refine ⟨?_, ?_, ?_⟩
      · simp only [BlocksTile, hf.1, hf.2.1]; exact ht
      · intro blk hb
        rcases List.mem_cons.1 hb with h1 | h1
        · subst h1
          exact addBlock_inv b _ a (hinv b (by simp)) hr (hnew b (by simp))
        · exact hinv blk (List.mem_cons_of_mem _ h1)
      · intro blk hb s hs
        rcases List.mem_cons.1 hb with h1 | h1
        · subst h1
          rw [hf.1]
          unfold addBlock at hs
          split at hs
          · split at hs
            · rename_i heq s0 r0 hs0
              simp only [List.mem_cons] at hs
              have hh := (hinv b (by simp)).head
              rw [hs0] at hh
              simp only [List.head?_cons, Option.map_some, Option.some.injEq] at hh
              rcases hs with h2 | h2
              · subst h2; left; exact hh
              · rcases hnew b (by simp) s (by rw [hs0]; exact List.mem_cons_of_mem _ h2) with h3 | h3
                · exact Or.inl h3
                · right; omega
            · rcases hnew b (by simp) s hs with h3 | h3
              · exact Or.inl h3
              · right; omega
          · simp only [List.mem_append, List.mem_singleton] at hs
            rcases hs with h2 | h2
            · rcases hnew b (by simp) s h2 with h3 | h3
              · exact Or.inl h3
              · right; omega
            · subst h2; right; simp
        · rcases hnew blk (List.mem_cons_of_mem _ h1) s hs with h3 | h3
          · exact Or.inl h3
          · right; omega
    · have := ih b.end_ ht.2.2 (fun blk hb => hinv blk (List.mem_cons_of_mem _ hb))
        (fun blk hb => hnew blk (List.mem_cons_of_mem _ hb))
      refine ⟨?_, ?_, ?_⟩
      · simp only [BlocksTile]; exact ⟨ht.1, ht.2.1, this.1⟩
      · intro blk hb
        rcases List.mem_cons.1 hb with h1 | h1
        · subst h1; exact hinv blk (by simp)
        · exact this.2.1 blk h1
      · intro blk hb s hs
        rcases List.mem_cons.1 hb with h1 | h1
        · subst h1
          rcases hnew blk (by simp) s hs with h3 | h3
          · exact Or.inl h3
          · right; omega
        · exact this.2.2 blk h1 s hs

theorem addSubs_spec (items : List (Nat × Option Char)) (hs : SortedK items) (bs : List Block) (lo hi : Nat)
    (ht : BlocksTile bs lo hi) (hinv : ∀ b ∈ bs, SubsInv b)
    (hnew : ∀ b ∈ bs, ∀ s ∈ b.subs, s.start = b.start ∨ ∀ p ∈ items, s.start < p.1) :
    BlocksTile (items.foldl (fun bs p => addSub bs p.2 p.1) bs) lo hi ∧
    ∀ b ∈ items.foldl (fun bs p => addSub bs p.2 p.1) bs, SubsInv b := by
  induction items generalizing bs with
  | nil => exact ⟨ht, hinv⟩
  | cons p r ih =>
    unfold SortedK at hs
    rw [List.pairwise_cons] at hs
    simp only [List.foldl_cons]
    have h1 := addSub_spec bs p.2 p.1 lo hi ht hinv (by
      intro b hb s hsm
      rcases hnew b hb s hsm with h2 | h2
      · exact Or.inl h2
      · exact Or.inr (h2 p (by simp)))
    apply ih hs.2 _ h1.1 h1.2.1
    intro b hb s hsm
    rcases h1.2.2 b hb s hsm with h2 | h2
    · exact Or.inl h2
    · right
      intro q hq
      have := hs.1 q hq
      omega

theorem setSubEnds_tiles (subs : List Sub) (e lo : Nat)
    (hh : (subs.head?).map (·.start) = some lo)
    (hs : subs.Pairwise (fun s t => s.start < t.start))
    (hr : ∀ s ∈ subs, s.start < e) : Tiles (setSubEnds subs e) lo e := by
  induction subs generalizing lo with
  | nil => simp at hh
  | cons s r ih =>
    simp only [List.head?_cons, Option.map_some, Option.some.injEq] at hh
    cases r with
    | nil =>
      simp only [setSubEnds, Tiles]
      exact ⟨hh, by have := hr s (by simp); omega, trivial⟩
    | cons t r' =>
      rw [List.pairwise_cons] at hs
      simp only [setSubEnds, Tiles]
      refine ⟨hh, ?_, ?_⟩
      · have := hs.1 t (by simp); omega
      · exact ih t.start (by simp) hs.2 (fun x hx => hr x (List.mem_cons_of_mem _ hx))

theorem Tiles_map_setAttrs (lengths : Dict Sublens) (l : List Sub) (a b : Nat) (h : Tiles l a b) :
    Tiles (l.map (setAttrs lengths)) a b := by
  induction l generalizing a with
  | nil => exact h
  | cons s r ih =>
    simp only [Tiles] at h
    simp only [List.map_cons, Tiles, setAttrs]
    exact ⟨h.1, h.2.1, ih _ h.2.2⟩

theorem flatSubs_tiles (bs : List Block) (lo hi : Nat) (ht : BlocksTile bs lo hi)
    (h : ∀ b ∈ bs, Tiles b.subs b.start b.end_) : Tiles (flatSubs bs) lo hi := by
  induction bs generalizing lo with
  | nil => simpa [flatSubs, BlocksTile, Tiles] using ht
  | cons b r ih =>
    simp only [BlocksTile] at ht
    simp only [flatSubs, List.flatMap_cons]
    have h1 := h b (by simp)
    rw [ht.1] at h1
    exact Tiles_append h1 (ih _ ht.2.2 (fun x hx => h x (List.mem_cons_of_mem _ hx)))

theorem BlocksTile_map (f : Block → Block) (hf : ∀ b, (f b).start = b.start ∧ (f b).end_ = b.end_)
    (bs : List Block) (lo hi : Nat) (h : BlocksTile bs lo hi) : BlocksTile (bs.map f) lo hi := by
  induction bs generalizing lo with
  | nil => exact h
  | cons b r ih =>
    simp only [BlocksTile] at h
    simp only [List.map_cons, BlocksTile, (hf b).1, (hf b).2]
    exact ⟨h.1, h.2.1, ih _ h.2.2⟩

/-- `get_blocks` on any state whose entry map has smallest key `lo` and largest key `hi` -/
theorem getBlocks_tile (st : PState) (lo hi : Nat)
    (hlo : (sortedKeys st.ctls).head? = some lo) (hhi : (sortedKeys st.ctls).getLast? = some hi) :
    BlocksTile (getBlocks st) lo hi ∧ ∀ b ∈ getBlocks st, Tiles b.subs b.start b.end_ := by
  have h0 := mkBlocks_spec (sortedItems st.ctls) (sortedItems_sorted _) lo hi hlo hhi
  have h1 := addSubs_spec (sortedItems st.subctls) (sortedItems_sorted _) (mkBlocks (sortedItems st.ctls)) lo hi
    h0.1 h0.2 (by
      intro b hb s hs
      left
      have := (h0.2 b hb)
      -- every initial block has exactly its own first sub-block
      have key : ∀ items : List (Nat × Char), ∀ b ∈ mkBlocks items, ∀ s ∈ b.subs, s.start = b.start := by
        intro items
        induction items with
        | nil => simp [mkBlocks]
        | cons p r ih =>
          cases r with
          | nil => simp [mkBlocks]
          | cons q r' =>
            intro b hb s hs
            simp only [mkBlocks, List.mem_cons] at hb
            rcases hb with h1 | h1
            · subst h1; simp at hs; subst hs; rfl
            · exact ih b h1 s hs
      exact key _ b hb s hs)
  simp only [getBlocks]
  refine ⟨?_, ?_⟩
  · apply BlocksTile_map
    · intro b; exact ⟨rfl, rfl⟩
    · exact h1.1
  intro b hb
  obtain ⟨b0, hb0, rfl⟩ := List.mem_map.1 hb
  have inv := h1.2 b0 hb0
  simp only
  apply Tiles_map_setAttrs
  exact setSubEnds_tiles b0.subs b0.end_ b0.start inv.head inv.sorted (fun s hs => (inv.range s hs).2)

end CtlTiling

namespace CtlTiling
open C01Spec

/-! ### loop unrolling: `_repeat_directives` as a list of assignments -/

/-- the assignments `directives[address] = value` executed by `_repeat_directives`, in order -/
def assignments {V : Type} (d : Dict V) (start end_ count maxA : Nat) : List (Nat × V) :=
  (d.filter (fun p => start ≤ p.1 ∧ p.1 < end_)).flatMap (fun p =>
    (List.range' 1 (count - 1)).filterMap (fun i =>
      if p.1 + i * (end_ - start) < maxA then some (p.1 + i * (end_ - start), p.2) else none))

theorem foldl_filterMap_dset {V : Type} (f : Nat → Option (Nat × V)) (g : Nat → Nat) (v : V) (M : Nat)
    (hf : ∀ i, f i = if g i < M then some (g i, v) else none) (l : List Nat) (acc : Dict V) :
    l.foldl (fun acc i => if g i < M then dset acc (g i) v else acc) acc =
      (l.filterMap f).foldl (fun acc t => dset acc t.1 t.2) acc := by
  induction l generalizing acc with
  | nil => rfl
  | cons i r ih =>
    simp only [List.foldl_cons, List.filterMap_cons, hf i]
    split
    · simp only [List.foldl_cons]; exact ih _
    · exact ih _

theorem repeatDirectives_eq {V : Type} (d : Dict V) (s e c M : Nat) :
    repeatDirectives d s e c M = (assignments d s e c M).foldl (fun acc t => dset acc t.1 t.2) d := by
  unfold repeatDirectives assignments
  generalize d.filter (fun p => s ≤ p.1 ∧ p.1 < e) = R
  generalize hd : d = acc
  clear hd
  induction R generalizing acc with
  | nil => rfl
  | cons p r ih =>
    simp only [List.foldl_cons, List.flatMap_cons, List.foldl_append]
    rw [← ih]
    congr 1
    exact foldl_filterMap_dset _ (fun i => p.1 + i * (e - s)) p.2 M (fun i => rfl) _ _

/-- `dget` after a sequence of assignments: unchanged when the key is never assigned -/
theorem dget_foldl_not_mem {V : Type} (T : List (Nat × V)) (d : Dict V) (a : Nat)
    (h : ∀ t ∈ T, t.1 ≠ a) : dget (T.foldl (fun acc t => dset acc t.1 t.2) d) a = dget d a := by
  induction T generalizing d with
  | nil => rfl
  | cons t r ih =>
    simp only [List.foldl_cons]
    rw [ih _ (fun x hx => h x (List.mem_cons_of_mem _ hx)), dget_dset]
    simp [h t (by simp)]

/-- `dget` after a sequence of assignments all of which give the key the same value -/
theorem dget_foldl_mem {V : Type} (T : List (Nat × V)) (d : Dict V) (a : Nat) (v : V)
    (hex : ∃ t ∈ T, t.1 = a) (hall : ∀ t ∈ T, t.1 = a → t.2 = v) :
    dget (T.foldl (fun acc t => dset acc t.1 t.2) d) a = some v := by
  induction T generalizing d with
  | nil => simp at hex
  | cons t r ih =>
    simp only [List.foldl_cons]
    by_cases hr : ∃ t' ∈ r, t'.1 = a
    · exact ih _ hr (fun x hx => hall x (List.mem_cons_of_mem _ hx))
    · have hr' : ∀ t' ∈ r, t'.1 ≠ a := fun t' ht' h => hr ⟨t', ht', h⟩
      rw [dget_foldl_not_mem r _ a hr', dget_dset]
      obtain ⟨t0, ht0, ht0a⟩ := hex
      rcases List.mem_cons.1 ht0 with h1 | h1
      · subst h1
        simp [ht0a, hall t0 (by simp) ht0a]
      · exact absurd ht0a (hr' t0 h1)

theorem mem_assignments {V : Type} (d : Dict V) (s e c M : Nat) (t : Nat × V) :
    t ∈ assignments d s e c M ↔
      ∃ k i, (k, t.2) ∈ d ∧ s ≤ k ∧ k < e ∧ 1 ≤ i ∧ i < c ∧ t.1 = k + i * (e - s) ∧ t.1 < M := by
  unfold assignments
  simp only [List.mem_flatMap, List.mem_filter, List.mem_filterMap, List.mem_range'_1,
    decide_eq_true_eq]
  constructor
  · rintro ⟨p, ⟨hp, hps, hpe⟩, i, ⟨hi1, hi2⟩, hif⟩
    split at hif
    · rename_i hlt
      simp only [Option.some.injEq] at hif
      subst hif
      exact ⟨p.1, i, hp, hps, hpe, hi1, by omega, rfl, hlt⟩
    · simp at hif
  · rintro ⟨k, i, hk, hs, he, hi1, hi2, ht1, htM⟩
    refine ⟨(k, t.2), ⟨hk, hs, he⟩, i, ⟨hi1, by omega⟩, ?_⟩
    simp only
    rw [← ht1]
    simp [htM]

theorem dget_of_mem_nodup {V : Type} (d : Dict V) (h : (keys d).Nodup) (k : Nat) (v : V)
    (hm : (k, v) ∈ d) : dget d k = some v := by
  induction d with
  | nil => simp at hm
  | cons p r ih =>
    obtain ⟨a, w⟩ := p
    simp only [keys, List.map_cons, List.nodup_cons] at h
    simp only [dget]
    rcases List.mem_cons.1 hm with h1 | h1
    · simp only [Prod.mk.injEq] at h1
      simp [h1.1, h1.2]
    · have hk : k ∈ r.map (·.1) := List.mem_map.2 ⟨(k, v), h1, rfl⟩
      have : a ≠ k := fun heq => h.1 (heq ▸ hk)
      simp only [this, if_false]
      exact ih h.2 h1

theorem mem_of_dget {V : Type} (d : Dict V) (k : Nat) (v : V) (h : dget d k = some v) : (k, v) ∈ d := by
  induction d with
  | nil => simp [dget] at h
  | cons p r ih =>
    obtain ⟨a, w⟩ := p
    simp only [dget] at h
    split at h
    · rename_i heq
      simp only [Option.some.injEq] at h
      subst heq; subst h; simp
    · exact List.mem_cons_of_mem _ (ih h)

/-- two sources in `[s, e)` shifted by multiples of `e - s` coincide only if they are equal -/
theorem shift_unique (s e k k' i i' : Nat) (hk : s ≤ k ∧ k < e) (hk' : s ≤ k' ∧ k' < e)
    (h : k + i * (e - s) = k' + i' * (e - s)) : k = k' ∧ i = i' := by
  have hI : 0 < e - s := by omega
  rcases Nat.lt_trichotomy i i' with hlt | heq | hgt
  · exfalso
    have : (i + 1) * (e - s) ≤ i' * (e - s) := Nat.mul_le_mul_right _ hlt
    rw [Nat.add_mul] at this
    omega
  · subst heq; exact ⟨by omega, rfl⟩
  · exfalso
    have : (i' + 1) * (e - s) ≤ i * (e - s) := Nat.mul_le_mul_right _ hgt
    rw [Nat.add_mul] at this
    omega

end CtlTiling

namespace CtlTiling
open C01Spec

theorem mem_keys_of_mem {V : Type} (d : Dict V) (k : Nat) (v : V) (h : (k, v) ∈ d) : k ∈ keys d :=
  List.mem_map.2 ⟨(k, v), h, rfl⟩

/-- every source directive in `[s, e)` reappears `i` periods later (below `max_address`) -/
theorem repeat_copies {V : Type} (d : Dict V) (hn : (keys d).Nodup) (s e c M k i : Nat) (v : V)
    (hv : dget d k = some v) (hs : s ≤ k) (he : k < e) (hi1 : 1 ≤ i) (hi2 : i < c)
    (hM : k + i * (e - s) < M) :
    dget (repeatDirectives d s e c M) (k + i * (e - s)) = some v := by
  rw [repeatDirectives_eq]
  apply dget_foldl_mem
  · exact ⟨(k + i * (e - s), v), (mem_assignments d s e c M _).2
      ⟨k, i, mem_of_dget d k v hv, hs, he, hi1, hi2, rfl, hM⟩, rfl⟩
  · intro t ht hta
    obtain ⟨k', i', hk', hs', he', _, _, ht1, _⟩ := (mem_assignments d s e c M t).1 ht
    have := shift_unique s e k k' i i' ⟨hs, he⟩ ⟨hs', he'⟩ (by omega)
    have h2 := dget_of_mem_nodup d hn k' t.2 hk'
    rw [← this.1, hv] at h2
    exact (Option.some.inj h2).symm

/-- addresses that are not a shifted copy of a source directive keep their directive -/
theorem repeat_frame {V : Type} (d : Dict V) (s e c M a : Nat)
    (h : ¬ ∃ k i, k ∈ keys d ∧ s ≤ k ∧ k < e ∧ 1 ≤ i ∧ i < c ∧ a = k + i * (e - s) ∧ a < M) :
    dget (repeatDirectives d s e c M) a = dget d a := by
  rw [repeatDirectives_eq]
  apply dget_foldl_not_mem
  intro t ht hta
  obtain ⟨k, i, hk, hs, he, hi1, hi2, ht1, htM⟩ := (mem_assignments d s e c M t).1 ht
  exact h ⟨k, i, mem_keys_of_mem d k t.2 hk, hs, he, hi1, hi2, by omega, by omega⟩

theorem keys_foldl_dset {V : Type} (T : List (Nat × V)) (d : Dict V) (x : Nat) :
    x ∈ keys (T.foldl (fun acc t => dset acc t.1 t.2) d) ↔ x ∈ keys d ∨ ∃ t ∈ T, t.1 = x := by
  induction T generalizing d with
  | nil => simp
  | cons t r ih =>
    simp only [List.foldl_cons, ih, keys_dset, List.mem_cons, exists_eq_or_imp]
    constructor
    · rintro ((h | h) | h)
      · exact Or.inr (Or.inl h.symm)
      · exact Or.inl h
      · exact Or.inr (Or.inr h)
    · rintro (h | h | h)
      · exact Or.inl (Or.inr h)
      · exact Or.inl (Or.inl h.symm)
      · exact Or.inr h

theorem nodup_foldl_dset {V : Type} (T : List (Nat × V)) (d : Dict V) (h : (keys d).Nodup) :
    (keys (T.foldl (fun acc t => dset acc t.1 t.2) d)).Nodup := by
  induction T generalizing d with
  | nil => exact h
  | cons t r ih => exact ih _ (nodup_dset d t.1 t.2 h)

/-- keys after `_repeat_directives`: the old ones, plus keys below `max_address` above an old key -/
theorem keys_repeat {V : Type} (d : Dict V) (s e c M x : Nat) :
    (x ∈ keys d → x ∈ keys (repeatDirectives d s e c M)) ∧
    (x ∈ keys (repeatDirectives d s e c M) → x ∈ keys d ∨ (x < M ∧ ∃ k ∈ keys d, k ≤ x)) := by
  rw [repeatDirectives_eq, keys_foldl_dset]
  refine ⟨Or.inl, ?_⟩
  rintro (h | ⟨t, ht, rfl⟩)
  · exact Or.inl h
  · obtain ⟨k, i, hk, _, _, _, _, ht1, htM⟩ := (mem_assignments d s e c M t).1 ht
    exact Or.inr ⟨htM, k, mem_keys_of_mem d k t.2 hk, by omega⟩

/-! ### `parse_ctls`: the entry map -/

theorem assignLengths_ctls (sc : Option Char) (st : PState) (a : Nat) (l : List (Nat × Sublens)) :
    (assignLengths sc st a l).1.ctls = st.ctls := by
  induction l generalizing st a with
  | nil => rfl
  | cons p r ih => obtain ⟨n, sl⟩ := p; simp only [assignLengths]; rw [ih]

theorem applyDirective_ctls (minA maxA : Nat) (st : PState) (d : Directive) :
    (applyDirective minA maxA st d).ctls = st.ctls := by
  unfold applyDirective
  split
  · rfl
  · cases d with
    | entry c s => rfl
    | other s => rfl
    | boundary s e => rfl
    | loop s e c f => simp only; split <;> rfl
    | sub c s e l =>
      simp only
      cases l with
      | nil => rfl
      | cons p r => obtain ⟨n, sl⟩ := p; simp only; rw [assignLengths_ctls]

theorem foldl_applyDirective_ctls (minA maxA : Nat) (ds : List Directive) (st : PState) :
    (ds.foldl (applyDirective minA maxA) st).ctls = st.ctls := by
  induction ds generalizing st with
  | nil => rfl
  | cons d r ih => simp only [List.foldl_cons]; rw [ih, applyDirective_ctls]

/-- bounds on the entry addresses: invariant of `_unroll_loops` -/
def CtlsIn (lo M : Nat) (c : Dict Char) : Prop := ∀ x ∈ keys c, lo ≤ x ∧ x < M

theorem unrollLoop_ctls (M lo m : Nat) (st : PState) (l : Nat × Nat × Nat × Nat)
    (h : CtlsIn lo M st.ctls) (hm : m ∈ keys st.ctls) :
    CtlsIn lo M (unrollLoop M st l).ctls ∧ m ∈ keys (unrollLoop M st l).ctls := by
  obtain ⟨s, e, c, f⟩ := l
  simp only [unrollLoop]
  split
  · simp only
    refine ⟨?_, (keys_repeat st.ctls s e c M m).1 hm⟩
    intro x hx
    rcases (keys_repeat st.ctls s e c M x).2 hx with h1 | ⟨h1, k, hk, hkx⟩
    · exact h x h1
    · exact ⟨by have := (h k hk).1; omega, h1⟩
  · exact ⟨h, hm⟩

theorem unrollLoops_ctls (M lo m : Nat) (ls : List (Nat × Nat × Nat × Nat)) (st : PState)
    (h : CtlsIn lo M st.ctls) (hm : m ∈ keys st.ctls) :
    CtlsIn lo M (ls.foldl (unrollLoop M) st).ctls ∧ m ∈ keys (ls.foldl (unrollLoop M) st).ctls := by
  induction ls generalizing st with
  | nil => exact ⟨h, hm⟩
  | cons l r ih =>
    simp only [List.foldl_cons]
    have := unrollLoop_ctls M lo m st l h hm
    exact ih _ this.1 this.2

theorem keys_pre (pre : List (Nat × Char)) (x : Nat) :
    x ∈ keys (pre.foldl (fun c p => dset c p.1 p.2) ([] : Dict Char)) ↔ x ∈ pre.map (·.1) := by
  have := keys_foldl_dset pre ([] : Dict Char) x
  rw [this]
  simp [keys]

/-- After `parse_ctls` the entry map has smallest key `lo` (the lowest entry found by the
pre-pass) and largest key `max_address`. -/
theorem parseCtls_keys (minA maxA lo : Nat) (pre : List (Nat × Char)) (ds : List Directive)
    (hpre : ∀ p ∈ pre, lo ≤ p.1 ∧ p.1 < maxA) (hlo : lo ∈ pre.map (·.1)) :
    (sortedKeys (parseCtls minA maxA pre ds).ctls).head? = some lo ∧
    (sortedKeys (parseCtls minA maxA pre ds).ctls).getLast? = some maxA := by
  have hlt : lo < maxA := by
    obtain ⟨p, hp, rfl⟩ := List.mem_map.1 hlo
    exact (hpre p hp).2
  have key : ∀ st1 : PState, CtlsIn lo maxA st1.ctls → lo ∈ keys st1.ctls →
      (sortedKeys (dset (st1.loops.foldl (unrollLoop maxA) st1).ctls maxA 'i')).head? = some lo ∧
      (sortedKeys (dset (st1.loops.foldl (unrollLoop maxA) st1).ctls maxA 'i')).getLast? = some maxA := by
    intro st1 hin hm
    have h2 := unrollLoops_ctls maxA lo lo st1.loops st1 hin hm
    constructor
    · apply sorted_head _ (sortedItems_sorted _)
      · exact (mem_sortedKeys _ lo).2 ((keys_dset _ _ _ _).2 (Or.inr h2.2))
      · intro x hx
        rcases (keys_dset _ _ _ _).1 ((mem_sortedKeys _ x).1 hx) with h3 | h3
        · omega
        · exact (h2.1 x h3).1
    · apply sorted_getLast _ (sortedItems_sorted _)
      · exact (mem_sortedKeys _ maxA).2 ((keys_dset _ _ _ _).2 (Or.inl rfl))
      · intro x hx
        rcases (keys_dset _ _ _ _).1 ((mem_sortedKeys _ x).1 hx) with h3 | h3
        · omega
        · have := (h2.1 x h3).2; omega
  simp only [parseCtls]
  apply key
  · rw [foldl_applyDirective_ctls]
    intro x hx
    obtain ⟨p, hp, rfl⟩ := List.mem_map.1 ((keys_pre pre x).1 hx)
    exact hpre p hp
  · rw [foldl_applyDirective_ctls]
    exact (keys_pre pre lo).2 hlo

/-! ### multipliers -/

theorem expandParams_sum (c : Char) (ps : List Param) :
    ((expandParams c ps).map (·.1)).sum = (ps.map (fun p => p.mult * (sublengthsOf c p.parts).1)).sum := by
  induction ps with
  | nil => rfl
  | cons p r ih =>
    simp only [expandParams, List.flatMap_cons, List.map_append, List.sum_append, List.map_cons,
      List.sum_cons] at ih ⊢
    rw [ih]
    congr 1
    simp [List.map_replicate, List.sum_replicate_nat]

theorem expandParams_length (c : Char) (ps : List Param) :
    (expandParams c ps).length = (ps.map (·.mult)).sum := by
  induction ps with
  | nil => rfl
  | cons p r ih =>
    simp only [expandParams, List.flatMap_cons, List.length_append, List.length_replicate,
      List.map_cons, List.sum_cons] at ih ⊢
    rw [ih]

theorem assignLengths_address (sc : Option Char) (st : PState) (a : Nat) (l : List (Nat × Sublens)) :
    (assignLengths sc st a l).2 = a + (l.map (·.1)).sum := by
  induction l generalizing st a with
  | nil => simp [assignLengths]
  | cons p r ih =>
    obtain ⟨n, sl⟩ := p
    simp only [assignLengths, List.map_cons, List.sum_cons]
    rw [ih]; omega

/-! ### merged sub-block groups -/

theorem mergeFrom_flatten {α : Type} (mlEnd : Sub → Option Nat) (act : Option Nat) (cur : List α)
    (l : List (Sub × List α)) :
    (mergeFrom mlEnd act cur l).flatten = cur ++ (l.map (·.2)).flatten := by
  induction l generalizing act cur with
  | nil => simp [mergeFrom]
  | cons p r ih =>
    obtain ⟨s, ins⟩ := p
    simp only [mergeFrom, List.map_cons, List.flatten_cons]
    cases act with
    | none => simp [ih]
    | some e => by_cases h : s.start < e <;> simp [h, ih]

theorem mergeGroups_flatten {α : Type} (mlEnd : Sub → Option Nat) (l : List (Sub × List α)) :
    (mergeGroups mlEnd l).flatten = (l.map (·.2)).flatten := by
  cases l with
  | nil => rfl
  | cons p r =>
    obtain ⟨s, ins⟩ := p
    simp only [mergeGroups, mergeFrom_flatten, List.map_cons, List.flatten_cons]

end CtlTiling

namespace CtlTiling

theorem repeatDirectives_nil {V : Type} (s e c M : Nat) : repeatDirectives ([] : Dict V) s e c M = [] := by
  simp [repeatDirectives]

/-- without any entry line in range the entry map holds only the terminator -/
theorem parseCtls_keys_empty (minA maxA : Nat) (ds : List Directive) :
    sortedItems (parseCtls minA maxA [] ds).ctls = [(maxA, 'i')] := by
  simp only [parseCtls, List.foldl_nil]
  have h1 : ∀ st1 : PState, st1.ctls = [] → (st1.loops.foldl (unrollLoop maxA) st1).ctls = [] := by
    intro st1
    generalize st1.loops = ls
    induction ls generalizing st1 with
    | nil => intro h; exact h
    | cons l r ih =>
      intro h
      simp only [List.foldl_cons]
      apply ih
      obtain ⟨s, e, c, f⟩ := l
      simp only [unrollLoop]
      split
      · simp only; rw [h]; exact repeatDirectives_nil s e c maxA
      · exact h
  rw [h1 _ (by rw [foldl_applyDirective_ctls])]
  rfl

end CtlTiling
