import SkoolVerif.Proofs.LoaderSteps
/-!
A functional 64K memory (`Int → Int`), the simplest lawful instance of `RamMem`; used to exhibit
concrete states that satisfy the hypotheses of the C12 theorems (non-vacuity).
-/
open Z80 LoaderSteps

structure FMem where
  f : Int → Int

namespace FMem

instance : MemLike FMem where
  get m a := m.f a
  set m a v := ⟨fun b => if b = a then v else m.f b⟩
  portOut m _ _ := m
  o7ffd _ := 0
  is128 _ := false

instance : RamMem FMem where
  ok _ := True
  ok_set := fun _ _ _ _ => trivial
  ok_portOut := fun _ _ _ _ => trivial
  get_set := by intro m a v b _ _ _ _ _; rfl
  get_portOut := by intro m p v b; rfl

def zero : FMem := ⟨fun _ => 0⟩

/-- overlay `code` at address `e` -/
def load (m : FMem) (e : Int) (code : List Nat) : FMem :=
  ⟨fun a => if e ≤ a ∧ a < e + code.length then ((code.getD (a - e).toNat 0 : Nat) : Int) else m.f a⟩

theorem codeAt_load (m : FMem) (e : Int) (code : List Nat) : CodeAt (m.load e code) e code := by
  intro k hk
  show (if e ≤ e + k ∧ e + k < e + code.length then _ else _) = _
  rw [if_pos (by omega)]
  have : (e + (k : Int) - e).toNat = k := by omega
  rw [this]

theorem codeAt_load_other (m : FMem) (e e' : Int) (code code' : List Nat) (h : CodeAt m e code)
    (hd : e + code.length ≤ e' ∨ e' + code'.length ≤ e) : CodeAt (m.load e' code') e code := by
  intro k hk
  show (if e' ≤ e + k ∧ e + k < e' + code'.length then _ else m.f (e + k)) = _
  rw [if_neg (by omega)]
  exact h k hk

theorem get_load_other (m : FMem) (e : Int) (code : List Nat) (a : Int) (h : a < e ∨ e + code.length ≤ a) :
    mget (m.load e code) a = mget m a := by
  show (if e ≤ a ∧ a < e + code.length then _ else m.f a) = _
  rw [if_neg (by omega)]; rfl

end FMem
