import SkoolVerif.Model.PathAlg
/-! Helper lemmas for the path algebra (C16). -/
namespace PathAlg
variable {α : Type}

/-- Every component is an ordinary name. -/
def AllNames (l : List (Seg α)) : Prop := ∀ s ∈ l, s.isName = true

theorem AllNames.nil : AllNames ([] : List (Seg α)) := by intro s h; cases h

theorem AllNames.cons {s : Seg α} {l} (hs : s.isName = true) (hl : AllNames l) : AllNames (s :: l) := by
  intro t ht
  cases ht with
  | head => exact hs
  | tail _ h => exact hl t h

theorem AllNames.tail {s : Seg α} {l} (h : AllNames (s :: l)) : AllNames l :=
  fun t ht => h t (List.mem_cons_of_mem _ ht)

theorem AllNames.head {s : Seg α} {l} (h : AllNames (s :: l)) : s.isName = true :=
  h s (List.mem_cons_self)

theorem AllNames.append {a b : List (Seg α)} (ha : AllNames a) (hb : AllNames b) : AllNames (a ++ b) := by
  intro s hs
  rcases List.mem_append.mp hs with h | h
  · exact ha s h
  · exact hb s h

theorem AllNames.reverse {a : List (Seg α)} (ha : AllNames a) : AllNames a.reverse :=
  fun s hs => ha s (List.mem_reverse.mp hs)

theorem AllNames.drop {a : List (Seg α)} (ha : AllNames a) (n : Nat) : AllNames (a.drop n) :=
  fun s hs => ha s (List.mem_of_mem_drop hs)

theorem AllNames.take {a : List (Seg α)} (ha : AllNames a) (n : Nat) : AllNames (a.take n) :=
  fun s hs => ha s (List.mem_of_mem_take hs)

theorem allNames_map_name (l : List α) : AllNames (l.map Seg.name) := by
  intro s hs
  rcases List.mem_map.mp hs with ⟨a, _, rfl⟩
  rfl

theorem AllNames.filter_nonempty {l : List (Seg α)} (h : AllNames l) :
    l.filter (fun s => !s.isEmpty) = l := by
  apply List.filter_eq_self.mpr
  intro s hs
  have := h s hs
  cases s <;> simp_all [Seg.isName, Seg.isEmpty]

/-- In absolute mode the stack only ever holds names. -/
theorem foldl_abs_allNames (p : List (Seg α)) (acc : List (Seg α)) (h : AllNames acc) :
    AllNames (p.foldl (normStep true) acc) := by
  induction p generalizing acc with
  | nil => simpa using h
  | cons c p ih =>
    simp only [List.foldl_cons]
    apply ih
    cases c with
    | empty => simpa [normStep] using h
    | cur => simpa [normStep] using h
    | name a => exact AllNames.cons rfl h
    | up =>
      cases acc with
      | nil => simpa [normStep] using AllNames.nil
      | cons x rest =>
        have hx := h.head
        cases x <;> simp_all [normStep, Seg.isName]
        exact h.tail

/-- Pushing names. -/
theorem foldl_names (abs : Bool) (ns : List (Seg α)) (hn : AllNames ns) (acc : List (Seg α)) :
    ns.foldl (normStep abs) acc = ns.reverse ++ acc := by
  induction ns generalizing acc with
  | nil => simp
  | cons c ns ih =>
    have hc := hn.head
    cases c <;> simp_all [Seg.isName]
    rw [ih hn.tail]
    simp [normStep]

/-- `n` times '..' on a stack of names pops `n` of them (and stops at the root). -/
theorem foldl_ups_abs (n : Nat) (acc : List (Seg α)) (h : AllNames acc) :
    (List.replicate n Seg.up).foldl (normStep true) acc = acc.drop n := by
  induction n generalizing acc with
  | zero => simp
  | succ n ih =>
    simp only [List.replicate_succ, List.foldl_cons]
    cases acc with
    | nil => simpa [normStep] using ih [] AllNames.nil
    | cons x rest =>
      have hx := h.head
      cases x <;> simp_all [normStep, Seg.isName]
      exact ih rest h.tail

/-- The same in relative mode, as long as the stack is deep enough. -/
theorem foldl_ups_rel (n : Nat) (acc : List (Seg α)) (h : AllNames acc) (hn : n ≤ acc.length) :
    (List.replicate n Seg.up).foldl (normStep false) acc = acc.drop n := by
  induction n generalizing acc with
  | zero => simp
  | succ n ih =>
    simp only [List.replicate_succ, List.foldl_cons]
    cases acc with
    | nil => simp at hn
    | cons x rest =>
      have hx := h.head
      cases x <;> simp_all [normStep, Seg.isName]
      exact ih rest h.tail (by omega)

section common
variable [DecidableEq α]

theorem commonLen_le_left (a b : List (Seg α)) : commonLen a b ≤ a.length := by
  induction a generalizing b with
  | nil => simp [commonLen]
  | cons x xs ih =>
    cases b with
    | nil => simp [commonLen]
    | cons y ys =>
      simp only [commonLen]
      split
      · simpa using ih ys
      · simp

theorem commonLen_le_right (a b : List (Seg α)) : commonLen a b ≤ b.length := by
  induction a generalizing b with
  | nil => simp [commonLen]
  | cons x xs ih =>
    cases b with
    | nil => simp [commonLen]
    | cons y ys =>
      simp only [commonLen]
      split
      · simpa using ih ys
      · simp

theorem commonLen_take (a b : List (Seg α)) : a.take (commonLen a b) = b.take (commonLen a b) := by
  induction a generalizing b with
  | nil => simp [commonLen]
  | cons x xs ih =>
    cases b with
    | nil => simp [commonLen]
    | cons y ys =>
      simp only [commonLen]
      split
      · next h => simp [h, ih ys]
      · simp

theorem commonLen_self (a : List (Seg α)) : commonLen a a = a.length := by
  induction a with
  | nil => simp [commonLen]
  | cons x xs ih => simp [commonLen, ih]

theorem commonLen_append (p a b : List (Seg α)) : commonLen (p ++ a) (p ++ b) = p.length + commonLen a b := by
  induction p with
  | nil => simp
  | cons x xs ih => simp [commonLen, ih]; omega

/-- The relative list computed by `relpath` from the two absolute component lists. -/
def relList (startList pathList : List (Seg α)) : List (Seg α) :=
  List.replicate (startList.length - commonLen startList pathList) Seg.up
    ++ pathList.drop (commonLen startList pathList)

/-- Core of `relpath_resolves`: walking the relative list from the start
directory's stack yields the target's stack (absolute mode). -/
theorem foldl_relList_abs (A T : List (Seg α)) (hA : AllNames A) (hT : AllNames T) :
    (relList A T).foldl (normStep true) A.reverse = T.reverse := by
  unfold relList
  rw [List.foldl_append, foldl_ups_abs _ _ hA.reverse, foldl_names _ _ (hT.drop _)]
  have hi := commonLen_le_left A T
  rw [List.drop_reverse]
  have : A.length - (A.length - commonLen A T) = commonLen A T := by omega
  rw [this, commonLen_take A T, ← List.reverse_append, List.take_append_drop]

/-- The same in relative mode (no '..' ever reaches an empty stack). -/
theorem foldl_relList_rel (A T : List (Seg α)) (hA : AllNames A) (hT : AllNames T) :
    (relList A T).foldl (normStep false) A.reverse = T.reverse := by
  unfold relList
  rw [List.foldl_append, foldl_ups_rel _ _ hA.reverse (by simp), foldl_names _ _ (hT.drop _)]
  have hi := commonLen_le_left A T
  rw [List.drop_reverse]
  have : A.length - (A.length - commonLen A T) = commonLen A T := by omega
  rw [this, commonLen_take A T, ← List.reverse_append, List.take_append_drop]

theorem relList_eq_nil (A T : List (Seg α)) (h : relList A T = []) : A = T := by
  unfold relList at h
  have h1 := commonLen_le_left A T
  have h2 := commonLen_le_right A T
  simp only [List.append_eq_nil_iff, List.replicate_eq_nil_iff, List.drop_eq_nil_iff] at h
  have e := commonLen_take A T
  have ha : A.take (commonLen A T) = A := List.take_of_length_le (by omega)
  have ht : T.take (commonLen A T) = T := List.take_of_length_le (by omega)
  rw [ha, ht] at e
  exact e

end common

/-- Stack of the absolute normalisation of `base/p`. -/
def absComps (base : List α) (p : List (Seg α)) : List (Seg α) :=
  normComps true (base.map Seg.name ++ p)

theorem absComps_allNames (base : List α) (p : List (Seg α)) : AllNames (absComps base p) := by
  unfold absComps normComps
  exact (foldl_abs_allNames _ _ AllNames.nil).reverse

theorem absComps_append (base : List α) (p q : List (Seg α)) :
    absComps base (p ++ q) = (q.foldl (normStep true) (absComps base p).reverse).reverse := by
  simp [absComps, normComps, List.foldl_append]

/-! ### String level: `abspath` / `relpath` on relative path strings -/

/-- No '' component (no leading, trailing or doubled slash). -/
def NoEmpty (l : List (Seg α)) : Prop := ∀ s ∈ l, s.isEmpty = false

theorem AllNames.noEmpty {l : List (Seg α)} (h : AllNames l) : NoEmpty l := by
  intro s hs
  have := h s hs
  cases s <;> simp_all [Seg.isName, Seg.isEmpty]

theorem isAbs_false_iff (p : Path α) : isAbs p = false ↔ p.dropLast.takeWhile Seg.isEmpty = [] := by
  simp [isAbs, leadSlashes]

theorem takeWhile_isEmpty_noEmpty {l : List (Seg α)} (h : NoEmpty l) : l.takeWhile Seg.isEmpty = [] := by
  cases l with
  | nil => rfl
  | cons x xs => simp [List.takeWhile, h x (List.mem_cons_self)]

theorem noEmpty_dropLast {l : List (Seg α)} (h : NoEmpty l) : NoEmpty l.dropLast :=
  fun s hs => h s (List.dropLast_subset l hs)

/-- Appending a non-empty, slash-free tail to a relative prefix gives a relative path. -/
theorem isRel_append (s r : List (Seg α)) (hr : r ≠ []) (hne : NoEmpty r)
    (hs : s = [] ∨ ∃ x rest, s = x :: rest ∧ x.isEmpty = false) : IsRel (s ++ r) := by
  refine ⟨by simp [hr], ?_⟩
  rw [isAbs_false_iff, List.dropLast_append_of_ne_nil hr]
  rcases hs with rfl | ⟨x, rest, rfl, hx⟩
  · simpa using takeWhile_isEmpty_noEmpty (noEmpty_dropLast hne)
  · simp [hx]

theorem getLast?_empty_cons_names (b : α) (bs : List α) :
    ((Seg.empty :: Seg.name b :: bs.map Seg.name).getLast?).any Seg.isEmpty = false := by
  rw [List.getLast?_cons_cons]
  have h : (Seg.name b :: bs.map Seg.name) = (b :: bs).map Seg.name := by simp
  rw [h, List.getLast?_map]
  cases (b :: bs).getLast? <;> simp [Seg.isEmpty]

theorem posixJoin_cwd (base : List α) (p : Path α) (hp : isAbs p = false) :
    posixJoin (cwdPath base) p = Seg.empty :: (base.map Seg.name ++ p) := by
  unfold posixJoin
  rw [if_neg (by simp [hp])]
  cases base with
  | nil => simp [cwdPath, isEmptyStr, Seg.isEmpty]
  | cons b bs =>
    have := getLast?_empty_cons_names b bs
    rw [List.getLast?_cons_cons] at this
    simp [cwdPath, isEmptyStr, this]

theorem initialSlashes_cwd (base : List α) (p : Path α) (hp : IsRel p) :
    initialSlashes (Seg.empty :: (base.map Seg.name ++ p)) = 1 := by
  have hne : base.map Seg.name ++ p ≠ [] := by simp [hp.1]
  have hk : leadSlashes (Seg.empty :: (base.map Seg.name ++ p)) = 1 := by
    unfold leadSlashes
    rw [List.dropLast_cons_of_ne_nil hne, List.dropLast_append_of_ne_nil hp.1]
    cases base with
    | nil =>
      have := (isAbs_false_iff p).mp hp.2
      simp [List.takeWhile, Seg.isEmpty, this]
    | cons b bs => simp [List.takeWhile, Seg.isEmpty]
  simp [initialSlashes, hk]

theorem normComps_empty_cons (abs : Bool) (p : List (Seg α)) :
    normComps abs (Seg.empty :: p) = normComps abs p := by
  simp [normComps, normStep]

/-- Shape of `abspath` on a relative path: '/' followed by the normalised components. -/
theorem abspath_rel (base : List α) (p : Path α) (hp : IsRel p) :
    abspath base p =
      Seg.empty :: (if (absComps base p).isEmpty then [Seg.empty] else absComps base p) := by
  unfold abspath
  rw [if_neg (by simp [hp.2]), posixJoin_cwd base p hp.2]
  unfold normpath
  simp only [initialSlashes_cwd base p hp, normComps_empty_cons]
  simp [absComps]

/-- `[x for x in abspath(p).split('/') if x]` is the normalised component list. -/
theorem absList_rel (base : List α) (p : Path α) (hp : IsRel p) :
    absList base p = absComps base p := by
  unfold absList
  rw [abspath_rel base p hp]
  have hn := absComps_allNames base p
  cases h : absComps base p with
  | nil => simp [Seg.isEmpty]
  | cons x xs =>
    rw [h] at hn
    have := hn.filter_nonempty
    simpa [Seg.isEmpty] using this

/-- `abspath` only depends on the normalised components. -/
theorem abspath_congr (base : List α) (p q : Path α) (hp : IsRel p) (hq : IsRel q)
    (h : absComps base p = absComps base q) : abspath base p = abspath base q := by
  rw [abspath_rel base p hp, abspath_rel base q hq, h]

/-- What `posixJoin start r` is, for a relative `start` and a slash-free relative `r`. -/
theorem posixJoin_rel (start r : Path α) (hs : IsRel start) (hr : r ≠ []) (hne : NoEmpty r) :
    ∃ s', posixJoin start r = s' ++ r ∧ IsRel (s' ++ r) ∧
      ∀ acc : List (Seg α), s'.foldl (normStep true) acc = start.foldl (normStep true) acc := by
  have hrabs : isAbs r = false := by
    rw [isAbs_false_iff]; exact takeWhile_isEmpty_noEmpty (noEmpty_dropLast hne)
  unfold posixJoin
  rw [if_neg (by simp [hrabs])]
  have hs2 := (isAbs_false_iff start).mp hs.2
  split
  · next hc =>
    -- `start` is '' or ends with '/': the last component is ''
    refine ⟨start.dropLast, rfl, ?_, ?_⟩
    · apply isRel_append _ _ hr hne
      cases hd : start.dropLast with
      | nil => left; rfl
      | cons x rest =>
        right
        refine ⟨x, rest, rfl, ?_⟩
        rw [hd] at hs2
        cases hx : x.isEmpty <;> simp_all [List.takeWhile]
    · intro acc
      have hlast : start.getLast? = some Seg.empty := by
        simp only [Bool.or_eq_true, Bool.and_eq_true, decide_eq_true_eq] at hc
        rcases hc with hc | ⟨_, hc⟩
        · cases start with
          | nil => simp [isEmptyStr] at hc
          | cons x xs =>
            cases xs with
            | nil => cases x <;> simp_all [isEmptyStr]
            | cons y ys => simp [isEmptyStr] at hc
        · cases hl : start.getLast? with
          | none => simp [hl] at hc
          | some x => cases x <;> simp_all [Seg.isEmpty]
      have hl2 : start.getLast hs.1 = Seg.empty := by
        have := List.getLast?_eq_some_getLast hs.1
        rw [hlast] at this
        exact (Option.some.inj this).symm
      have := List.dropLast_concat_getLast hs.1
      rw [hl2] at this
      conv => rhs; rw [← this]
      simp [List.foldl_append, normStep]
  · next hc =>
    refine ⟨start, rfl, ?_, fun _ => rfl⟩
    apply isRel_append _ _ hr hne
    right
    cases start with
    | nil => exact absurd rfl hs.1
    | cons x xs =>
      refine ⟨x, xs, rfl, ?_⟩
      cases xs with
      | nil => cases x <;> simp_all [isEmptyStr, Seg.isEmpty]
      | cons y ys =>
        cases hx : x.isEmpty <;> simp_all

section resolve
variable [DecidableEq α]

theorem noEmpty_relList (A T : List (Seg α)) (hT : AllNames T) : NoEmpty (relList A T) := by
  intro s hs
  unfold relList at hs
  rcases List.mem_append.mp hs with h | h
  · rw [List.mem_replicate] at h; rw [h.2]; rfl
  · exact (hT.drop _).noEmpty s h

/-- The list `relpath` returns: the relative list, or '.' when it is empty. -/
def relOut (A T : List (Seg α)) : List (Seg α) :=
  if (relList A T).isEmpty then [Seg.cur] else relList A T

theorem relOut_ne_nil (A T : List (Seg α)) : relOut A T ≠ [] := by
  unfold relOut
  split
  · simp
  · next h => intro e; rw [e] at h; simp at h

theorem noEmpty_relOut (A T : List (Seg α)) (hT : AllNames T) : NoEmpty (relOut A T) := by
  unfold relOut
  split
  · intro s hs; simp at hs; rw [hs]; rfl
  · exact noEmpty_relList A T hT

theorem foldl_relOut_abs (A T : List (Seg α)) (hA : AllNames A) (hT : AllNames T) :
    (relOut A T).foldl (normStep true) A.reverse = T.reverse := by
  unfold relOut
  split
  · next h =>
    have := relList_eq_nil A T (by simpa using h)
    simp [normStep, this]
  · exact foldl_relList_abs A T hA hT

theorem foldl_relOut_rel (A T : List (Seg α)) (hA : AllNames A) (hT : AllNames T) :
    (relOut A T).foldl (normStep false) A.reverse = T.reverse := by
  unfold relOut
  split
  · next h =>
    have := relList_eq_nil A T (by simpa using h)
    simp [normStep, this]
  · exact foldl_relList_rel A T hA hT

/-- `relpath` on relative path strings, in terms of the normalised component lists. -/
theorem relpath_rel (base : List α) (target start : Path α) (hs : IsRel start) (ht : IsRel target)
    (hne : isEmptyStr target = false) :
    relpath base target start = .ok (relOut (absComps base start) (absComps base target)) := by
  unfold relpath
  simp only [hne, absList_rel base start hs, absList_rel base target ht]
  simp only [relOut, relList]
  rfl

/-- Resolving `relOut` against the start directory (any spelling of it) gives the target. -/
theorem absComps_join_relOut (base : List α) (s' start target : List (Seg α))
    (hfold : ∀ acc : List (Seg α), s'.foldl (normStep true) acc = start.foldl (normStep true) acc) :
    absComps base (s' ++ relOut (absComps base start) (absComps base target)) = absComps base target := by
  have hs' : absComps base s' = absComps base start := by
    simp [absComps, normComps, List.foldl_append, hfold]
  rw [absComps_append, hs', foldl_relOut_abs _ _ (absComps_allNames _ _) (absComps_allNames _ _)]
  simp

omit [DecidableEq α] in
/-- On a stack of names and a slash-free reference, browser resolution and
POSIX absolute normalisation coincide. -/
theorem foldl_rfc_eq (r : List (Seg α)) (hr : NoEmpty r) (acc : List (Seg α)) (h : AllNames acc) :
    r.foldl rfcStep acc = r.foldl (normStep true) acc := by
  induction r generalizing acc with
  | nil => rfl
  | cons c r ih =>
    have hc := hr c (List.mem_cons_self)
    have hr' : NoEmpty r := fun s hs => hr s (List.mem_cons_of_mem _ hs)
    simp only [List.foldl_cons]
    have hstep : rfcStep acc c = normStep true acc c := by
      cases c with
      | empty => simp [Seg.isEmpty] at hc
      | cur => rfl
      | name a => rfl
      | up =>
        cases acc with
        | nil => rfl
        | cons x rest =>
          have hx := h.head
          cases x <;> simp_all [rfcStep, normStep, Seg.isName]
    rw [hstep]
    apply ih hr'
    have := foldl_abs_allNames [c] acc h
    simpa using this

end resolve


/-! ### Clean (normalised, dot-free) relative paths -/

/-- The string of a clean directory given by its names: '' for the top directory. -/
def dirStr (cwd : List α) : Path α := if cwd.isEmpty then [Seg.empty] else cwd.map Seg.name

theorem normComps_names (abs : Bool) (ns : List (Seg α)) (h : AllNames ns) : normComps abs ns = ns := by
  simp [normComps, foldl_names abs ns h]

theorem noEmpty_append {a b : List (Seg α)} (ha : NoEmpty a) (hb : NoEmpty b) : NoEmpty (a ++ b) := by
  intro s hs
  rcases List.mem_append.mp hs with h | h
  · exact ha s h
  · exact hb s h

theorem isAbs_noEmpty {p : List (Seg α)} (h : NoEmpty p) : isAbs p = false := by
  rw [isAbs_false_iff]; exact takeWhile_isEmpty_noEmpty (noEmpty_dropLast h)

theorem isRel_dirStr (cwd : List α) : IsRel (dirStr cwd) := by
  unfold dirStr
  split
  · exact ⟨by simp, by simp [isAbs, leadSlashes]⟩
  · next h =>
    refine ⟨by simpa using h, isAbs_noEmpty (allNames_map_name cwd).noEmpty⟩

theorem isRel_names (t : List α) (ht : t ≠ []) : IsRel (t.map Seg.name) :=
  ⟨by simpa using ht, isAbs_noEmpty (allNames_map_name t).noEmpty⟩

theorem isEmptyStr_names (t : List α) : isEmptyStr (t.map Seg.name) = false := by
  cases t with
  | nil => rfl
  | cons a t => cases t <;> rfl

theorem absComps_dirStr (base cwd : List α) :
    absComps base (dirStr cwd) = base.map Seg.name ++ cwd.map Seg.name := by
  unfold dirStr absComps
  split
  · next h =>
    have : cwd = [] := by simpa using h
    subst this
    simp [normComps, List.foldl_append, normStep, foldl_names true _ (allNames_map_name base)]
  · rw [normComps_names _ _ ((allNames_map_name base).append (allNames_map_name cwd))]

theorem absComps_names (base t : List α) :
    absComps base (t.map Seg.name) = base.map Seg.name ++ t.map Seg.name := by
  unfold absComps
  rw [normComps_names _ _ ((allNames_map_name base).append (allNames_map_name t))]

theorem relOut_append [DecidableEq α] (B C T : List (Seg α)) :
    relOut (B ++ C) (B ++ T) = relOut C T := by
  have : relList (B ++ C) (B ++ T) = relList C T := by
    unfold relList
    rw [commonLen_append]
    have h1 : (B ++ C).length - (B.length + commonLen C T) = C.length - commonLen C T := by
      simp; omega
    rw [h1, List.drop_append]
    simp
  simp [relOut, this]

theorem posixJoin_dirStr (cwd : List α) (r : Path α) (hr : isAbs r = false) :
    posixJoin (dirStr cwd) r = cwd.map Seg.name ++ r := by
  unfold posixJoin dirStr
  rw [if_neg (by simp [hr])]
  cases cwd with
  | nil => simp [isEmptyStr]
  | cons c cs =>
    have h1 : isEmptyStr (List.map Seg.name (c :: cs)) = false := isEmptyStr_names (c :: cs)
    have h2 : ((List.map Seg.name (c :: cs)).getLast?).any Seg.isEmpty = false := by
      rw [List.getLast?_map]
      cases (c :: cs).getLast? <;> simp [Seg.isEmpty]
    simp only [List.isEmpty_cons, Bool.false_eq_true, if_false, h1, h2, Bool.and_false, Bool.or_false]

/-- `normpath` of a slash-free relative string that normalises (in relative mode) to a non-empty
list of names is that list. -/
theorem normpath_noEmpty (p : List (Seg α)) (hp : NoEmpty p) (T : List (Seg α)) (hT : T ≠ [])
    (h : normComps false p = T) : normpath p = T := by
  have hk : initialSlashes p = 0 := by
    have := isAbs_noEmpty hp
    simp [isAbs] at this
    simp [initialSlashes, this]
  unfold normpath
  simp only [hk]
  simp [h, hT]

theorem foldl_all_empty (abs : Bool) (l : List (Seg α)) (h : ∀ s ∈ l, s.isEmpty = true) (acc : List (Seg α)) :
    l.foldl (normStep abs) acc = acc := by
  induction l generalizing acc with
  | nil => rfl
  | cons c l ih =>
    have hc := h c (List.mem_cons_self)
    cases c <;> simp [Seg.isEmpty] at hc
    simp only [List.foldl_cons, normStep]
    exact ih (fun s hs => h s (List.mem_cons_of_mem _ hs)) acc

/-- Trailing slashes do not matter to normalisation. -/
theorem foldl_stripTrailingEmpty (abs : Bool) (d : List (Seg α)) (acc : List (Seg α)) :
    (stripTrailingEmpty d).foldl (normStep abs) acc = d.foldl (normStep abs) acc := by
  have hsplit : d = stripTrailingEmpty d ++ (d.reverse.takeWhile Seg.isEmpty).reverse := by
    unfold stripTrailingEmpty
    rw [← List.reverse_append, List.takeWhile_append_dropWhile, List.reverse_reverse]
  conv => rhs; rw [hsplit]
  rw [List.foldl_append]
  symm
  apply foldl_all_empty
  intro s hs
  have hall := @List.all_takeWhile _ Seg.isEmpty d.reverse
  rw [List.all_eq_true] at hall
  exact hall s (List.mem_reverse.mp hs)


/-! ### `normpath` is idempotent -/

/-- Shape of the relative-mode stack (top first): names on top of '..'s. -/
def RelStack (st : List (Seg α)) : Prop := ∃ ns k, st = ns ++ List.replicate k Seg.up ∧ AllNames ns

theorem relStack_step (st : List (Seg α)) (h : RelStack st) (c : Seg α) : RelStack (normStep false st c) := by
  obtain ⟨ns, k, rfl, hn⟩ := h
  cases c with
  | empty => exact ⟨ns, k, rfl, hn⟩
  | cur => exact ⟨ns, k, rfl, hn⟩
  | name a => exact ⟨Seg.name a :: ns, k, rfl, AllNames.cons rfl hn⟩
  | up =>
    cases ns with
    | nil =>
      cases k with
      | zero => exact ⟨[], 1, rfl, AllNames.nil⟩
      | succ k => exact ⟨[], k + 2, by simp [normStep, List.replicate_succ], AllNames.nil⟩
    | cons x ns =>
      have hx := hn.head
      cases x <;> simp [Seg.isName] at hx
      exact ⟨ns, k, by simp [normStep], hn.tail⟩

theorem relStack_foldl (p : List (Seg α)) (st : List (Seg α)) (h : RelStack st) :
    RelStack (p.foldl (normStep false) st) := by
  induction p generalizing st with
  | nil => exact h
  | cons c p ih => exact ih _ (relStack_step st h c)

theorem foldl_ups_on_ups (k j : Nat) :
    (List.replicate k (Seg.up : Seg α)).foldl (normStep false) (List.replicate j Seg.up) = List.replicate (j + k) Seg.up := by
  induction k generalizing j with
  | zero => simp
  | succ k ih =>
    rw [List.replicate_succ, List.foldl_cons]
    have : normStep false (List.replicate j (Seg.up : Seg α)) Seg.up = List.replicate (j + 1) Seg.up := by
      cases j with
      | zero => simp [normStep]
      | succ j => simp [normStep, List.replicate_succ]
    rw [this, ih]
    congr 1
    omega

/-- The loop of `normpath` is idempotent (both modes). -/
theorem normComps_idem (abs : Bool) (p : List (Seg α)) : normComps abs (normComps abs p) = normComps abs p := by
  cases abs with
  | true =>
    exact normComps_names true _ ((foldl_abs_allNames p [] AllNames.nil).reverse)
  | false =>
    obtain ⟨ns, k, hst, hn⟩ := relStack_foldl p [] ⟨[], 0, rfl, AllNames.nil⟩
    have hout : normComps false p = List.replicate k Seg.up ++ ns.reverse := by
      simp [normComps, hst]
    rw [hout]
    unfold normComps
    rw [List.foldl_append]
    have := foldl_ups_on_ups (α := α) k 0
    simp only [List.replicate_zero, Nat.zero_add] at this
    rw [this, foldl_names false _ hn.reverse]
    simp

/-- Output of the loop in relative mode contains no '' component. -/
theorem noEmpty_normComps (abs : Bool) (p : List (Seg α)) : NoEmpty (normComps abs p) := by
  cases abs with
  | true => exact ((foldl_abs_allNames p [] AllNames.nil).reverse).noEmpty
  | false =>
    obtain ⟨ns, k, hst, hn⟩ := relStack_foldl p [] ⟨[], 0, rfl, AllNames.nil⟩
    intro s hs
    simp only [normComps, hst, List.reverse_append, List.reverse_replicate, List.mem_append,
      List.mem_replicate, List.mem_reverse] at hs
    rcases hs with ⟨_, rfl⟩ | h
    · rfl
    · exact hn.noEmpty s h

theorem leadSlashes_replicate_append (k : Nat) (cs : List (Seg α)) (hcs : cs ≠ []) (hne : NoEmpty cs) :
    leadSlashes (List.replicate k Seg.empty ++ cs) = k := by
  unfold leadSlashes
  rw [List.dropLast_append_of_ne_nil hcs, List.takeWhile_append_of_pos (by simp [Seg.isEmpty])]
  simp [takeWhile_isEmpty_noEmpty (noEmpty_dropLast hne)]

theorem takeWhile_replicate_empty (k : Nat) :
    List.takeWhile Seg.isEmpty (List.replicate k (Seg.empty : Seg α)) = List.replicate k Seg.empty := by
  induction k with
  | zero => rfl
  | succ k ih => simp [List.replicate_succ, List.takeWhile, Seg.isEmpty, ih]

theorem leadSlashes_replicate (k : Nat) : leadSlashes (List.replicate (k + 1) (Seg.empty : Seg α)) = k := by
  unfold leadSlashes
  have : (List.replicate (k + 1) (Seg.empty : Seg α)).dropLast = List.replicate k Seg.empty := by
    simp [List.dropLast_replicate]
  rw [this, takeWhile_replicate_empty]; simp

theorem normComps_replicate_empty (abs : Bool) (k : Nat) (cs : List (Seg α)) :
    normComps abs (List.replicate k Seg.empty ++ cs) = normComps abs cs := by
  unfold normComps
  rw [List.foldl_append, foldl_all_empty abs (List.replicate k Seg.empty)
    (by intro s hs; rw [List.mem_replicate] at hs; rw [hs.2]; rfl) []]

theorem initialSlashes_cases (p : Path α) : initialSlashes p = 0 ∨ initialSlashes p = 1 ∨ initialSlashes p = 2 := by
  unfold initialSlashes
  simp only
  split
  · left; rfl
  · split
    · right; right; rfl
    · right; left; rfl

theorem initialSlashes_of_lead {p : Path α} {k : Nat} (h : leadSlashes p = k) (hk : k = 0 ∨ k = 1 ∨ k = 2) :
    initialSlashes p = k := by
  unfold initialSlashes
  rcases hk with rfl | rfl | rfl <;> simp [h]

/-- Idempotence for an absolute result with `k` (1 or 2) leading slashes. -/
theorem normpath_abs_out (k : Nat) (hk : k = 1 ∨ k = 2) (cs : List (Seg α)) (hidem : normComps true cs = cs)
    (hne : NoEmpty cs) :
    normpath (List.replicate k Seg.empty ++ (if cs.isEmpty then [Seg.empty] else cs)) =
      List.replicate k Seg.empty ++ (if cs.isEmpty then [Seg.empty] else cs) := by
  have hk012 : k = 0 ∨ k = 1 ∨ k = 2 := Or.inr hk
  have hk0 : k ≠ 0 := by rcases hk with rfl | rfl <;> simp
  have hkb : (k != 0) = true := by simpa using hk0
  by_cases hcs : cs = []
  · subst hcs
    simp only [List.isEmpty_nil, if_true]
    have hl : leadSlashes (List.replicate k (Seg.empty : Seg α) ++ [Seg.empty]) = k := by
      have : List.replicate k (Seg.empty : Seg α) ++ [Seg.empty] = List.replicate (k + 1) Seg.empty := by
        rw [List.replicate_succ']
      rw [this]; exact leadSlashes_replicate k
    have hi := initialSlashes_of_lead hl hk012
    have hn : normComps true (List.replicate k (Seg.empty : Seg α) ++ [Seg.empty]) = [] := by
      rw [normComps_replicate_empty]; simp [normComps, normStep]
    unfold normpath
    simp only [hi, hk0, if_false, hkb, hn, List.isEmpty_nil, if_true]
  · have hce : cs.isEmpty = false := by simpa using hcs
    simp only [hce, Bool.false_eq_true, if_false]
    have hl := leadSlashes_replicate_append k cs hcs hne
    have hi := initialSlashes_of_lead hl hk012
    unfold normpath
    simp only [hi, hk0, if_false, hkb, normComps_replicate_empty, hidem, hce, Bool.false_eq_true]

/-- Idempotence for a relative result. -/
theorem normpath_rel_out (cs : List (Seg α)) (hidem : normComps false cs = cs) (hne : NoEmpty cs) :
    normpath (if cs.isEmpty then [Seg.cur] else cs) = (if cs.isEmpty then [Seg.cur] else cs) := by
  by_cases hcs : cs = []
  · subst hcs
    simp [normpath, initialSlashes, leadSlashes, normComps, normStep]
  · have hi : initialSlashes cs = 0 := by
      have := isAbs_noEmpty hne
      simp [isAbs] at this
      simp [initialSlashes, this]
    have hce : cs.isEmpty = false := by simpa using hcs
    simp only [hce, Bool.false_eq_true, if_false]
    unfold normpath
    simp only [hi, bne_self_eq_false, if_true, hidem, hce, Bool.false_eq_true, if_false]

/-- `normpath(normpath(p)) == normpath(p)` for every path string. -/
theorem normpath_idem (p : Path α) : normpath (normpath p) = normpath p := by
  have hk := initialSlashes_cases p
  rcases hk with hk | hk | hk
  · have hout : normpath p = (if (normComps false p).isEmpty then [Seg.cur] else normComps false p) := by
      unfold normpath; simp [hk]
    rw [hout]
    exact normpath_rel_out _ (normComps_idem false p) (noEmpty_normComps false p)
  · have hout : normpath p = List.replicate 1 Seg.empty ++
        (if (normComps true p).isEmpty then [Seg.empty] else normComps true p) := by
      unfold normpath; simp [hk]
    rw [hout]
    exact normpath_abs_out 1 (Or.inl rfl) _ (normComps_idem true p) (noEmpty_normComps true p)
  · have hout : normpath p = List.replicate 2 Seg.empty ++
        (if (normComps true p).isEmpty then [Seg.empty] else normComps true p) := by
      unfold normpath; simp [hk]
    rw [hout]
    exact normpath_abs_out 2 (Or.inr rfl) _ (normComps_idem true p) (noEmpty_normComps true p)


end PathAlg
