import SkoolVerif.Model.CtlCompose
/-! Helper lemmas for the DEFB/DEFM sublength fixpoint (C03). -/
namespace CtlCompose

/-! ### a list-consuming view of `defbGroups` -/

def groupsOn (cfg : Cfg) : List Nat → List (Nat × Base) → Option (List (List Tok))
  | _, [] => some []
  | d, (size, base) :: rest =>
    match renderGroup cfg base size (d.take size) with
    | none => none
    | some g =>
      match groupsOn cfg (d.drop size) rest with
      | none => none
      | some gs => some (g :: gs)

theorem defbGroups_eq (cfg : Cfg) (data : List Nat) (sl : List (Nat × Base)) (i : Nat)
    (hpos : ∀ s ∈ sl, 0 < s.1) :
    defbGroups cfg data i sl = groupsOn cfg (data.drop i) sl := by
  induction sl generalizing i with
  | nil => simp [defbGroups, groupsOn]
  | cons s r ih =>
    obtain ⟨size, base⟩ := s
    have h0 : size ≠ 0 := by have := hpos (size, base) (by simp); simp at this; omega
    have hr : ∀ s ∈ r, 0 < s.1 := fun s hs => hpos s (List.mem_cons_of_mem _ hs)
    simp only [defbGroups, groupsOn, h0, if_false]
    rw [ih (i + size) hr, List.drop_drop]
    cases renderGroup cfg base size (List.take size (List.drop i data)) with
    | none => rfl
    | some g => cases groupsOn cfg (List.drop (i + size) data) r <;> rfl

theorem groupsOn_append (cfg : Cfg) (d1 d2 : List Nat) (s1 s2 : List (Nat × Base))
    (hlen : (s1.map (·.1)).sum = d1.length) (g1 : List (List Tok))
    (h1 : groupsOn cfg d1 s1 = some g1) :
    groupsOn cfg (d1 ++ d2) (s1 ++ s2) = (groupsOn cfg d2 s2).map (g1 ++ ·) := by
  induction s1 generalizing d1 g1 with
  | nil =>
    simp at hlen
    have : d1 = [] := List.eq_nil_of_length_eq_zero hlen.symm
    subst this
    simp [groupsOn] at h1
    subst h1
    simp only [List.nil_append]
    cases h : groupsOn cfg d2 s2 <;> simp
  | cons s r ih =>
    obtain ⟨size, base⟩ := s
    simp only [List.map_cons, List.sum_cons] at hlen
    have hsz : size ≤ d1.length := by omega
    simp only [groupsOn, List.cons_append] at h1 ⊢
    rw [List.take_append_of_le_length hsz, List.drop_append_of_le_length hsz]
    cases hg : renderGroup cfg base size (List.take size d1) with
    | none => simp [hg] at h1
    | some g =>
      simp only [hg] at h1 ⊢
      cases hgs : groupsOn cfg (List.drop size d1) r with
      | none => simp [hgs] at h1
      | some gs =>
        simp only [hgs, Option.some.injEq] at h1
        subst h1
        rw [ih (List.drop size d1) (by simp; omega) gs hgs]
        cases h : groupsOn cfg d2 s2 <;> simp

/-! ### canonical operands -/

/-- An operand in the form `defb_items` writes it under configuration `cfg`. -/
def Canon (cfg : Cfg) : Tok → Prop
  | .blank => False
  | .bin _ => True
  | .dec _ => True
  | .hex _ => True
  | .neg hx v => hx = cfg.hex ∧ v ≤ 255
  | .str cs => cs ≠ [] ∧ ∀ c ∈ cs, isChar c = true
  | .chrHi c => isChar c = true

theorem isChar_lt {c : Nat} (h : isChar c = true) : c < 127 := by
  simp [isChar] at h; omega

theorem numStr_canon (cfg : Cfg) (base : Base) (v : Nat) (hv : v < 256) :
    Canon cfg (numStr cfg base v) ∧ tokBytes (numStr cfg base v) = [v] := by
  unfold numStr
  split
  · rename_i h
    obtain ⟨_, _, hc⟩ := h
    split
    · refine ⟨hc, ?_⟩; simp [tokBytes]; omega
    · refine ⟨⟨by simp, by simpa using hc⟩, ?_⟩
      simp [tokBytes]; omega
  · cases base with
    | m =>
      by_cases h0 : v = 0
      · simp [Canon, tokBytes, h0]
      · have h1 : ¬ (256 - v = 0) := by omega
        simp [Canon, tokBytes, h0, h1]; omega
    | b => simp [Canon, tokBytes]
    | d => simp [Canon, tokBytes]
    | h => simp [Canon, tokBytes]
    | n => cases cfg.hex <;> simp [Canon, tokBytes]
    | c => cases cfg.hex <;> simp [Canon, tokBytes]

theorem bytes_rev_cons (t : Tok) (acc : List Tok) :
    (t :: acc).reverse.flatMap tokBytes = acc.reverse.flatMap tokBytes ++ tokBytes t := by
  simp

/-- One step of the `get_message` loop keeps every item canonical and spells one more byte. -/
theorem gmStep_inv (cfg : Cfg) (acc : List Tok) (b : Nat) (hb : b < 256) (hacc : ∀ t ∈ acc, Canon cfg t) :
    (∀ t ∈ gmStep cfg acc b, Canon cfg t) ∧
    (gmStep cfg acc b).reverse.flatMap tokBytes = acc.reverse.flatMap tokBytes ++ [b] := by
  unfold gmStep
  split
  · rename_i hc
    split
    · rename_i cs r
      have hcs := hacc (.str cs) (by simp)
      refine ⟨?_, by simp [tokBytes]⟩
      intro t ht
      simp only [List.mem_cons] at ht
      rcases ht with rfl | ht
      · refine ⟨by simp, ?_⟩
        intro c hcm
        simp only [List.mem_append, List.mem_singleton] at hcm
        rcases hcm with hcm | rfl
        · exact hcs.2 c hcm
        · exact hc
      · exact hacc t (List.mem_cons_of_mem _ ht)
    · refine ⟨?_, by simp [tokBytes]⟩
      intro t ht
      simp only [List.mem_cons] at ht
      rcases ht with rfl | ht
      · exact ⟨by simp, by simpa using hc⟩
      · exact hacc t ht
  · have hn := numStr_canon cfg .n b hb
    refine ⟨?_, by simp [hn.2]⟩
    intro t ht
    simp only [List.mem_cons] at ht
    rcases ht with rfl | ht
    · exact hn.1
    · exact hacc t ht

/-- `get_message` on a run of printable characters is one string. -/
theorem foldl_chars (cfg : Cfg) (cs pre : List Nat) (r : List Tok) (h : ∀ c ∈ cs, isChar c = true) :
    cs.foldl (gmStep cfg) (.str pre :: r) = .str (pre ++ cs) :: r := by
  induction cs generalizing pre with
  | nil => simp
  | cons c t ih =>
    have hc : isChar c = true := h c (by simp)
    have e : gmStep cfg (.str pre :: r) c = .str (pre ++ [c]) :: r := by simp [gmStep, hc]
    rw [List.foldl_cons, e, ih _ (fun x hx => h x (List.mem_cons_of_mem _ hx))]
    simp

theorem getMessage_chars (cfg : Cfg) (cs : List Nat) (hne : cs ≠ []) (h : ∀ c ∈ cs, isChar c = true) :
    getMessage cfg cs = some [.str cs] := by
  cases cs with
  | nil => exact absurd rfl hne
  | cons c t =>
    have hc : isChar c = true := h c (by simp)
    have e : gmStep cfg [] c = [.str [c]] := by simp [gmStep, hc]
    simp only [getMessage, List.foldl_cons, e]
    rw [foldl_chars cfg t [c] [] (fun x hx => h x (List.mem_cons_of_mem _ hx))]
    simp

/-- Invariant of the `get_message` loop: every item so far is canonical and the items spell the bytes read. -/
theorem gm_inv (cfg : Cfg) (data : List Nat) (acc : List Tok) (hd : ∀ b ∈ data, b < 256)
    (hacc : ∀ t ∈ acc, Canon cfg t) :
    (∀ t ∈ data.foldl (gmStep cfg) acc, Canon cfg t) ∧
    ((data.foldl (gmStep cfg) acc).reverse.flatMap tokBytes = acc.reverse.flatMap tokBytes ++ data) := by
  induction data generalizing acc with
  | nil => exact ⟨by simpa using hacc, by simp⟩
  | cons b t ih =>
    have hb : b < 256 := hd b (by simp)
    have ht : ∀ x ∈ t, x < 256 := fun x hx => hd x (List.mem_cons_of_mem _ hx)
    have hs := gmStep_inv cfg acc b hb hacc
    have := ih (gmStep cfg acc b) ht hs.1
    rw [List.foldl_cons]
    refine ⟨this.1, ?_⟩
    rw [this.2, hs.2]; simp

theorem getMessage_canon (cfg : Cfg) (data : List Nat) (hd : ∀ b ∈ data, b < 256) (g : List Tok)
    (h : getMessage cfg data = some g) : (∀ t ∈ g, Canon cfg t) ∧ g.flatMap tokBytes = data := by
  unfold getMessage at h
  split at h
  · simp at h
  · simp only [Option.some.injEq] at h
    subst h
    have := gm_inv cfg data [] hd (by simp)
    exact ⟨fun t ht => this.1 t (by simpa using ht), by simpa using this.2⟩

/-! ### a recursive description of `compose` -/

def norm (b : Base) : Base := if b = .c then .d else b

def flushPend (kind : Kind) (pb : Bool) : Option (Base × Nat) → List Seg
  | none => []
  | some (p, k) => [(bytePrefix kind pb p, k)]

/-- The sublength elements `_get_defb_defm_length` emits for the remaining items, given the pending
run of numeric operands `(base, count)`. -/
def segs (kind : Kind) (pb : Bool) : Option (Base × Nat) → List Item → List Seg
  | pend, [] => flushPend kind pb pend
  | pend, .str n :: r =>
    flushPend kind pb pend ++ (if n ≠ 0 then [(textPrefix kind, n)] else []) ++ segs kind pb none r
  | none, .num b :: r => segs kind pb (some (norm b, 1)) r
  | some (p, k), .num b :: r =>
    if p = norm b then segs kind pb (some (p, k + 1)) r
    else (bytePrefix kind pb p, k) :: segs kind pb (some (norm b, 1)) r

def pendOf (st : CSt) : Option (Base × Nat) :=
  if st.length = 0 then none else some (st.prev.getD .d, st.length)

def Good (st : CSt) : Prop :=
  (st.length ≠ 0 → ∃ p, st.prev = some p) ∧ st.full = (st.lengths.map (·.2)).sum

theorem segs_snoc (kind : Kind) (pb : Bool) (items : List Item) (pend : Option (Base × Nat)) :
    segs kind pb pend (items ++ [.str 0]) = segs kind pb pend items := by
  induction items generalizing pend with
  | nil => cases pend <;> simp [segs, flushPend]
  | cons it r ih =>
    cases it with
    | str n => simp [segs, ih]
    | num b =>
      cases pend with
      | none => simp [segs, ih]
      | some pk => obtain ⟨p, k⟩ := pk; simp [segs, ih]

theorem cStep_spec (kind : Kind) (pb : Bool) (st : CSt) (it : Item) (r : List Item) (hg : Good st) :
    Good (cStep kind pb st it) ∧
    (cStep kind pb st it).lengths.reverse ++ segs kind pb (pendOf (cStep kind pb st it)) r =
      st.lengths.reverse ++ segs kind pb (pendOf st) (it :: r) := by
  obtain ⟨lengths, length, prev, full⟩ := st
  obtain ⟨hg1, hg2⟩ := hg
  simp only at hg1 hg2
  cases it with
  | str n =>
    by_cases hl : length = 0
    · subst hl
      by_cases hn : n = 0
      · subst hn; simp [cStep, pendOf, segs, flushPend, Good, hg2]
      · simp [cStep, pendOf, segs, flushPend, Good, hg2, hn]; omega
    · obtain ⟨p, hp⟩ := hg1 hl
      subst hp
      by_cases hn : n = 0
      · subst hn; simp [cStep, pendOf, segs, flushPend, flushSt, Good, hg2, hl]; omega
      · simp [cStep, pendOf, segs, flushPend, flushSt, Good, hg2, hl, hn]; omega
  | num b =>
    by_cases hl : length = 0
    · subst hl
      simp [cStep, pendOf, segs, Good, hg2, norm]
    · obtain ⟨p, hp⟩ := hg1 hl
      subst hp
      by_cases hpb : p = norm b
      · subst hpb
        simp [cStep, pendOf, segs, Good, hg2, hl, norm]
      · have hpb' : ¬ p = (if b = Base.c then Base.d else b) := by simpa [norm] using hpb
        have : ¬ (some p = some (if b = Base.c then Base.d else b)) := by
          simpa [norm] using hpb
        simp [cStep, pendOf, segs, flushSt, Good, hg2, hl, norm, this, hpb']
        omega

theorem foldl_spec (kind : Kind) (pb : Bool) (items : List Item) (st : CSt) (hg : Good st) :
    Good (items.foldl (cStep kind pb) st) ∧
    (items.foldl (cStep kind pb) st).lengths.reverse ++
        segs kind pb (pendOf (items.foldl (cStep kind pb) st)) [] =
      st.lengths.reverse ++ segs kind pb (pendOf st) items := by
  induction items generalizing st with
  | nil => exact ⟨hg, rfl⟩
  | cons it r ih =>
    have h1 := cStep_spec kind pb st it r hg
    have h2 := ih (cStep kind pb st it) h1.1
    exact ⟨h2.1, by rw [List.foldl_cons, h2.2, h1.2]⟩

theorem compose_eq_segs (kind : Kind) (pb : Bool) (items : List Item) :
    (compose kind pb items).2 = segs kind pb none items ∧
    (compose kind pb items).1 = ((compose kind pb items).2.map (·.2)).sum := by
  have hg0 : Good cInit := by simp [Good, cInit]
  have h := foldl_spec kind pb (items ++ [.str 0]) cInit hg0
  have hfold : (items ++ [Item.str 0]).foldl (cStep kind pb) cInit =
      cStep kind pb (items.foldl (cStep kind pb) cInit) (.str 0) := by simp [List.foldl_append]
  have hc : compose kind pb items = ((cStep kind pb (items.foldl (cStep kind pb) cInit) (.str 0)).full,
      (cStep kind pb (items.foldl (cStep kind pb) cInit) (.str 0)).lengths.reverse) := by
    simp only [compose, hfold]
  rw [hfold] at h
  rw [hc]
  generalize items.foldl (cStep kind pb) cInit = st at h
  -- after the sentinel the pending run is empty
  have hlen : (cStep kind pb st (.str 0)).length = 0 := by
    simp only [cStep]; split <;> simp
  have hp : pendOf (cStep kind pb st (.str 0)) = none := by simp [pendOf, hlen]
  rw [hp, segs_snoc] at h
  have hp0 : pendOf cInit = none := by simp [pendOf, cInit]
  have hl0 : cInit.lengths = [] := rfl
  rw [hp0, hl0] at h
  simp only [segs, flushPend, List.append_nil, List.reverse_nil, List.nil_append] at h
  refine ⟨h.2, ?_⟩
  simp only
  rw [h.1.2]; simp [List.sum_reverse]

/-! ### rendering what `compose` emitted -/

/-- `t` is a numeric operand whose (normalised) base letter is `p`. -/
def NumOf (p : Base) (t : Tok) : Prop := ∃ q, classify true t = .num q ∧ norm q = p

theorem norm_ne_c (q : Base) : norm q ≠ .c := by cases q <;> simp [norm]

theorem num_token (cfg : Cfg) (p : Base) (t : Tok) (hc : Canon cfg t) (hn : NumOf p t) :
    ∃ v, tokBytes t = [v] ∧ numStr cfg p v = t := by
  obtain ⟨q, hq, hp⟩ := hn
  cases t with
  | blank => exact absurd hc (by simp [Canon])
  | bin v => simp [classify] at hq; subst hq; subst hp; exact ⟨v, rfl, by simp [numStr, norm]⟩
  | dec v => simp [classify] at hq; subst hq; subst hp; exact ⟨v, rfl, by simp [numStr, norm]⟩
  | hex v => simp [classify] at hq; subst hq; subst hp; exact ⟨v, rfl, by simp [numStr, norm]⟩
  | neg hx k =>
    simp [classify] at hq; subst hq; subst hp
    obtain ⟨h1, h2⟩ := hc
    by_cases h0 : k = 0
    · subst h0; exact ⟨0, by simp [tokBytes], by simp [numStr, norm, h1]⟩
    · refine ⟨256 - k, by simp [tokBytes, h0], ?_⟩
      have h3 : 256 - (256 - k) = k := by omega
      have h4 : ¬ (256 - k = 0) := by omega
      simp [numStr, norm, h3, h4, h1]
  | str cs => simp [classify] at hq
  | chrHi c => simp [classify] at hq

theorem run_render (cfg : Cfg) (p : Base) (R : List Tok)
    (hR : ∀ t ∈ R, Canon cfg t ∧ NumOf p t) :
    (R.flatMap tokBytes).length = R.length ∧ (R.flatMap tokBytes).map (numStr cfg p) = R := by
  induction R with
  | nil => simp
  | cons t r ih =>
    obtain ⟨v, hv1, hv2⟩ := num_token cfg p t (hR t (by simp)).1 (hR t (by simp)).2
    have := ih (fun x hx => hR x (List.mem_cons_of_mem _ hx))
    simp [hv1, hv2, this.1, this.2]

theorem str_token (cfg : Cfg) (t : Tok) (n : Nat) (hc : Canon cfg t) (hs : classify true t = .str n) :
    n ≠ 0 ∧ (tokBytes t).length = n ∧ renderGroup cfg .c n (tokBytes t) = some [t] := by
  cases t with
  | blank => simp [classify] at hs
  | bin v => simp [classify] at hs
  | dec v => simp [classify] at hs
  | hex v => simp [classify] at hs
  | neg hx k => simp [classify] at hs
  | str cs =>
    simp only [classify, Item.str.injEq] at hs
    subst hs
    obtain ⟨hne, hch⟩ := hc
    have hpos : cs.length ≠ 0 := by simpa using hne
    refine ⟨hpos, rfl, ?_⟩
    by_cases h1 : cs.length > 1
    · simp only [renderGroup, tokBytes, h1, and_self, if_true]
      exact getMessage_chars cfg cs hne hch
    · have hl : cs.length = 1 := by omega
      obtain ⟨v, rfl⟩ : ∃ v, cs = [v] := by
        match cs, hl with
        | [v], _ => exact ⟨v, rfl⟩
      have hv := hch v (by simp)
      have hlt := isChar_lt hv
      have hm : v % 128 = v := by omega
      have hd : ¬ ((v / 128) % 2 = 1) := by omega
      simp [renderGroup, tokBytes, numStr, hm, hv, hd]; omega
  | chrHi c =>
    simp only [classify, Item.str.injEq] at hs
    subst hs
    have hlt := isChar_lt hc
    have hm : (c + 128) % 128 = c := by omega
    have hd : ((c + 128) / 128) % 2 = 1 := by omega
    have hc' : isChar c = true := hc
    refine ⟨by simp, rfl, ?_⟩
    have h256 : c + 128 < 256 := by omega
    have hd' : (c / 128 + 1) % 2 = 1 := by omega
    simp [renderGroup, tokBytes, numStr, hm, hc', h256, hd']

theorem parse_text (kind : Kind) (n : Nat) : parseLen kind (textPrefix kind, n) = (n, .c) := by
  cases kind <;> rfl

theorem parse_num (kind : Kind) (p : Base) (k : Nat) : parseLen kind (bytePrefix kind true p, k) = (k, p) := by
  simp [parseLen, bytePrefix]

theorem groupsOn_single (cfg : Cfg) (d : List Nat) (size : Nat) (base : Base) (g : List Tok)
    (hl : d.length = size) (hg : renderGroup cfg base size d = some g) :
    groupsOn cfg d [(size, base)] = some [g] := by
  have ht : d.take size = d := by rw [← hl]; exact List.take_length
  simp [groupsOn, ht, hg]

/-- Rendering the flush of a pending numeric run gives the run back. -/
theorem flush_render (cfg : Cfg) (kind : Kind) (p : Base) (R : List Tok) (hne : R ≠ [])
    (hR : ∀ t ∈ R, Canon cfg t ∧ NumOf p t) :
    groupsOn cfg (R.flatMap tokBytes) ((flushPend kind true (some (p, R.length))).map (parseLen kind)) = some [R] := by
  have hr := run_render cfg p R hR
  simp only [flushPend, List.map_cons, List.map_nil, parse_num]
  apply groupsOn_single _ _ _ _ _ hr.1
  have hpc : p ≠ .c := by
    obtain ⟨t, ht⟩ := List.exists_mem_of_ne_nil R hne
    obtain ⟨q, _, hq⟩ := (hR t ht).2
    rw [← hq]; exact norm_ne_c q
  have hb : R.flatMap tokBytes ≠ [] := by
    intro h; rw [h] at hr; simp at hr; exact hne (List.eq_nil_of_length_eq_zero hr.1.symm)
  simp [renderGroup, hpc, hb, hr.2]

def pendR (p : Base) (R : List Tok) : Option (Base × Nat) := if R = [] then none else some (p, R.length)

def segSum (l : List Seg) : Nat := (l.map (·.2)).sum

/-- Main lemma: for canonical operands, rendering the composed sublengths over the bytes the operands
stand for gives the operands back.  `R` is the pending run of numeric operands of base `p`. -/
theorem segs_render (cfg : Cfg) (kind : Kind) (T : List Tok) (hT : ∀ t ∈ T, Canon cfg t) :
    ∀ (R : List Tok) (p : Base), (∀ t ∈ R, Canon cfg t ∧ NumOf p t) →
    ∃ gs, groupsOn cfg ((R ++ T).flatMap tokBytes)
        ((segs kind true (pendR p R) (T.map (classify true))).map (parseLen kind)) = some gs ∧
      gs.flatten = R ++ T ∧
      segSum (segs kind true (pendR p R) (T.map (classify true))) = ((R ++ T).flatMap tokBytes).length := by
  induction T with
  | nil =>
    intro R p hR
    by_cases hne : R = []
    · subst hne; exact ⟨[], by simp [segs, pendR, flushPend, groupsOn], by simp, by simp [segs, pendR, flushPend, segSum]⟩
    · refine ⟨[R], ?_, by simp, ?_⟩
      · simpa [segs, pendR, hne] using flush_render cfg kind p R hne hR
      · simp [segs, pendR, hne, flushPend, segSum, (run_render cfg p R hR).1]
  | cons t T ih =>
    intro R p hR
    have hct : Canon cfg t := hT t (by simp)
    have hT' : ∀ x ∈ T, Canon cfg x := fun x hx => hT x (List.mem_cons_of_mem _ hx)
    cases hcl : classify true t with
    | str n =>
      obtain ⟨hn0, hlen, hrg⟩ := str_token cfg t n hct hcl
      obtain ⟨gs, h1, h2, h3⟩ := ih hT' [] .d (by simp)
      simp only [pendR, List.nil_append, if_true] at h1 h2 h3
      have hgt : groupsOn cfg (tokBytes t) [(n, .c)] = some [[t]] := groupsOn_single _ _ _ _ _ hlen hrg
      have hstep : groupsOn cfg (tokBytes t ++ T.flatMap tokBytes)
          (([(textPrefix kind, n)] ++ segs kind true none (T.map (classify true))).map (parseLen kind)) =
          some ([[t]] ++ gs) := by
        rw [List.map_append]
        simp only [List.map_cons, List.map_nil, parse_text]
        rw [groupsOn_append cfg _ _ [(n, .c)] _ (by simp [hlen]) [[t]] hgt, h1]; rfl
      by_cases hne : R = []
      · subst hne
        refine ⟨[[t]] ++ gs, ?_, by simp [h2], ?_⟩
        · simpa [segs, pendR, hcl, flushPend, hn0] using hstep
        · simp [segs, pendR, hcl, flushPend, hn0, segSum] at h3 ⊢; omega
      · have hfl := flush_render cfg kind p R hne hR
        refine ⟨[R] ++ ([[t]] ++ gs), ?_, by simp [h2], ?_⟩
        · have : groupsOn cfg (R.flatMap tokBytes ++ (tokBytes t ++ T.flatMap tokBytes))
              ((flushPend kind true (some (p, R.length))).map (parseLen kind) ++
                (([(textPrefix kind, n)] ++ segs kind true none (T.map (classify true))).map (parseLen kind))) =
              some ([R] ++ ([[t]] ++ gs)) := by
            rw [groupsOn_append cfg _ _ _ _ (by simp [flushPend, parse_num, (run_render cfg p R hR).1]) [R] hfl, hstep]; rfl
          simpa [segs, pendR, hne, hcl, hn0, List.map_append] using this
        · simp [segs, pendR, hne, hcl, flushPend, hn0, segSum, (run_render cfg p R hR).1] at h3 ⊢; omega
    | num q =>
      have hnum : NumOf (norm q) t := ⟨q, hcl, rfl⟩
      by_cases hne : R = []
      · subst hne
        obtain ⟨gs, h1, h2, h3⟩ := ih hT' [t] (norm q) (by
          intro x hx; simp at hx; subst hx; exact ⟨hct, hnum⟩)
        refine ⟨gs, ?_, by simpa using h2, ?_⟩
        · simpa [segs, pendR, hcl] using h1
        · simpa [segs, pendR, hcl] using h3
      · by_cases hpq : p = norm q
        · subst hpq
          obtain ⟨gs, h1, h2, h3⟩ := ih hT' (R ++ [t]) (norm q) (by
            intro x hx
            simp only [List.mem_append, List.mem_singleton] at hx
            rcases hx with hx | rfl
            · exact hR x hx
            · exact ⟨hct, hnum⟩)
          refine ⟨gs, ?_, by simpa using h2, ?_⟩
          · simpa [segs, pendR, hne, hcl] using h1
          · simpa [segs, pendR, hne, hcl] using h3
        · obtain ⟨gs, h1, h2, h3⟩ := ih hT' [t] (norm q) (by
            intro x hx; simp at hx; subst hx; exact ⟨hct, hnum⟩)
          have hfl := flush_render cfg kind p R hne hR
          refine ⟨[R] ++ gs, ?_, by simp [h2], ?_⟩
          · have : groupsOn cfg (R.flatMap tokBytes ++ ([t] ++ T).flatMap tokBytes)
                ((flushPend kind true (some (p, R.length))).map (parseLen kind) ++
                  (segs kind true (pendR (norm q) [t]) (T.map (classify true))).map (parseLen kind)) =
                some ([R] ++ gs) := by
              rw [groupsOn_append cfg _ _ _ _ (by simp [flushPend, parse_num, (run_render cfg p R hR).1]) [R] hfl, h1]; rfl
            simpa [segs, pendR, hne, hcl, hpq, flushPend, List.map_append] using this
          · simp [segs, pendR, hne, hcl, hpq, segSum, (run_render cfg p R hR).1] at h3 ⊢; omega

/-! ### what `defb_items` writes is canonical -/

theorem map_numStr_canon (cfg : Cfg) (base : Base) (l : List Nat) (hl : ∀ b ∈ l, b < 256) :
    (∀ t ∈ l.map (numStr cfg base), Canon cfg t) ∧ (l.map (numStr cfg base)).flatMap tokBytes = l := by
  induction l with
  | nil => simp
  | cons b r ih =>
    have hb := numStr_canon cfg base b (hl b (by simp))
    have hr := ih (fun x hx => hl x (List.mem_cons_of_mem _ hx))
    refine ⟨?_, by simp [hb.2, hr.2]⟩
    intro t ht
    simp only [List.map_cons, List.mem_cons] at ht
    rcases ht with rfl | ht
    · exact hb.1
    · exact hr.1 t ht

theorem renderGroup_canon (cfg : Cfg) (base : Base) (size : Nat) (slice : List Nat) (hne : slice ≠ [])
    (hs : ∀ b ∈ slice, b < 256) (g : List Tok) (h : renderGroup cfg base size slice = some g) :
    (∀ t ∈ g, Canon cfg t) ∧ g.flatMap tokBytes = slice := by
  unfold renderGroup at h
  split at h
  · exact getMessage_canon cfg slice hs g h
  · simp only [Option.some.injEq] at h
    subst h
    exact map_numStr_canon cfg base slice hs

theorem groupsOn_canon (cfg : Cfg) (sl : List (Nat × Base)) :
    ∀ (d : List Nat) (gs : List (List Tok)), (∀ s ∈ sl, 0 < s.1) → (sl.map (·.1)).sum = d.length →
      (∀ b ∈ d, b < 256) → groupsOn cfg d sl = some gs →
      (∀ t ∈ gs.flatten, Canon cfg t) ∧ gs.flatten.flatMap tokBytes = d := by
  induction sl with
  | nil =>
    intro d gs _ hsum _ h
    simp at hsum
    have : d = [] := List.eq_nil_of_length_eq_zero hsum.symm
    subst this
    simp [groupsOn] at h; subst h; simp
  | cons s r ih =>
    intro d gs hpos hsum hd h
    obtain ⟨size, base⟩ := s
    have hsz : 0 < size := hpos (size, base) (by simp)
    simp only [List.map_cons, List.sum_cons] at hsum
    simp only [groupsOn] at h
    cases hg : renderGroup cfg base size (List.take size d) with
    | none => simp [hg] at h
    | some g =>
      simp only [hg] at h
      cases hgs : groupsOn cfg (List.drop size d) r with
      | none => simp [hgs] at h
      | some gs' =>
        simp only [hgs, Option.some.injEq] at h
        subst h
        have htne : List.take size d ≠ [] := by
          intro e
          have := congrArg List.length e
          simp only [List.length_take, List.length_nil, Nat.min_def] at this
          split at this <;> omega
        have h1 := renderGroup_canon cfg base size (List.take size d) htne
          (fun b hb => hd b (List.mem_of_mem_take hb)) g hg
        have h2 := ih (List.drop size d) gs' (fun s hs => hpos s (List.mem_cons_of_mem _ hs))
          (by rw [List.length_drop]; omega) (fun b hb => hd b (List.mem_of_mem_drop hb)) hgs
        refine ⟨?_, ?_⟩
        · intro t ht
          simp only [List.flatten_cons, List.mem_append] at ht
          rcases ht with ht | ht
          · exact h1.1 t ht
          · exact h2.1 t ht
        · simp only [List.flatten_cons, List.flatMap_append, h1.2, h2.2, List.take_append_drop]

theorem segs_pos (kind : Kind) (pb : Bool) (items : List Item) :
    ∀ (pend : Option (Base × Nat)), (∀ x ∈ pend, 0 < x.2) → ∀ s ∈ segs kind pb pend items, 0 < s.2 := by
  induction items with
  | nil =>
    intro pend hp s hs
    cases pend with
    | none => simp [segs, flushPend] at hs
    | some pk =>
      obtain ⟨p, k⟩ := pk
      simp [segs, flushPend] at hs; subst hs
      simpa using hp (p, k) rfl
  | cons it r ih =>
    intro pend hp s hs
    cases it with
    | str n =>
      simp only [segs, List.mem_append] at hs
      rcases hs with (hs | hs) | hs
      · cases pend with
        | none => simp [flushPend] at hs
        | some pk =>
          obtain ⟨p, k⟩ := pk
          simp [flushPend] at hs; subst hs
          simpa using hp (p, k) rfl
      · by_cases hn : n = 0
        · simp [hn] at hs
        · simp [hn] at hs; subst hs; simp; omega
      · exact ih none (by simp) s hs
    | num b =>
      cases pend with
      | none => exact ih (some (norm b, 1)) (by simp) s (by simpa [segs] using hs)
      | some pk =>
        obtain ⟨p, k⟩ := pk
        have hk : 0 < k := by simpa using hp (p, k) rfl
        simp only [segs] at hs
        split at hs
        · exact ih (some (p, k + 1)) (by simp) s hs
        · simp only [List.mem_cons] at hs
          rcases hs with rfl | hs
          · exact hk
          · exact ih (some (norm b, 1)) (by simp) s hs

end CtlCompose
