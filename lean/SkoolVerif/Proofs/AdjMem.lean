import SkoolVerif.Proofs.MemLemmas
/-! A memory law needed by `EX (SP),rr` (which reads the second byte after writing the first): the two concrete memories satisfy it. -/
namespace Z80
/-- Writing one cell is not seen by a read of the next address (which, unlike an arbitrary other
address of a 128K machine, can never be the same physical cell). -/
class AdjMem (μ : Type) [MemLike μ] : Prop where
  get_set_next : ∀ (m : μ) (a v : Int), 0 ≤ a → a < 65536 →
    MemLike.get (MemLike.set m a v) ((a + 1) % 65536) = MemLike.get m ((a + 1) % 65536)

instance : AdjMem Mem48 where
  get_set_next := by
    intro m a v ha0 ha1
    simp only [MemLike.get, MemLike.set, ha0, if_true]
    have : a.toNat ≠ ((a + 1) % 65536).toNat := by omega
    simp [Array.getD_eq_getD_getElem?, this]

theorem getD_getD_set (aa : Array (Array Int)) (i j : Nat) (k l : Nat) (v : Int) (h : i ≠ j ∨ k ≠ l) :
    ((aa.setIfInBounds i ((aa.getD i #[]).setIfInBounds k v)).getD j #[]).getD l 0 = (aa.getD j #[]).getD l 0 := by
  by_cases hij : i = j
  · subst hij
    have hkl : k ≠ l := by rcases h with h | h; exact absurd rfl h; exact h
    by_cases hi : i < aa.size
    · simp [Array.getD_eq_getD_getElem?, hi, hkl]
    · simp [Array.getD_eq_getD_getElem?, Array.setIfInBounds, hi]
  · simp [Array.getD_eq_getD_getElem?, hij]

theorem Mem128.get_set_off (m : Mem128) (a v b : Int) (hoff : (a % 16384).toNat ≠ (b % 16384).toNat) :
    (m.set a v).get b = m.get b := by
  unfold Mem128.get Mem128.set
  rcases hsa : m.slot a with ⟨ra, ia⟩
  rcases hsb : m.slot b with ⟨rb, ib⟩
  simp only [Mem128.slot] at hsb
  cases ra <;> cases rb <;> simp only [Bool.false_eq_true, if_false, if_true, Mem128.slot] <;>
    rw [hsb] <;> simp only [Bool.false_eq_true, if_false, if_true]
  · exact getD_getD_set _ _ _ _ _ _ (Or.inr hoff)
  · exact getD_getD_set _ _ _ _ _ _ (Or.inr hoff)

instance : AdjMem Mem128 where
  get_set_next := by
    intro m a v ha0 ha1
    exact Mem128.get_set_off m a v _ (by omega)
end Z80
