import SkoolVerif.Model.RzxPlay
import SkoolVerif.Spec.RzxConvention
import SkoolVerif.Proofs.MachineLemmas
/-!
`process_block`'s end-of-frame code against the documented RZX convention (`Spec/RzxConvention.lean`).
The one thing the code does that the documentation does not mention - `accept_interrupt(registers,
memory, 0)` looks at the opcode at address 0 as if it had just been executed - is harmless as long as
that byte is not EI or a DD/FD prefix; every Spectrum ROM starts with DI (F3).
-/
namespace Rzx
open Z80
variable {μ : Type} [MemLike μ]

def Last.toSpec : Last → Spec.LastInstr
  | .halt => .halt
  | .ldair => .ldAIR
  | .ei => .ei
  | .other => .other

/-- the byte at address 0 does not make `accept_interrupt(…, prev_pc = 0)` refuse -/
def Rom0Ok (m : μ) : Prop := mget m 0 ≠ 0xFB ∧ mget m 0 ≠ 0xDD ∧ mget m 0 ≠ 0xFD

theorem sub2_add1' (x : Int) : ((x - 2) % 65536 + 1) % 65536 = (x - 1) % 65536 := by omega

theorem acceptInterrupt_eq_acknowledge (cmio : Bool) (s : St μ) (h0 : Rom0Ok s.mem) :
    acceptInterrupt cmio 0 s = Spec.acknowledge cmio s := by
  obtain ⟨a, b, c⟩ := h0
  unfold acceptInterrupt Spec.acknowledge r1
  have hno : ¬ (mget s.mem 0 = 0xFB ∨ ((mget s.mem 0 = 0xDD ∨ mget s.mem 0 = 0xFD) ∧ (0 : Int) = (s.pc - 1) % 65536)) := by
    rintro (h | ⟨h | h, _⟩) <;> contradiction
  simp only [hno, if_false, sub2_add1']
  have hr : rget (rset s.reg 12 ((rget s.reg 12 - 2) % 65536)) 15 = rget s.reg 15 := by
    rw [rget_rset]; simp
  rw [hr]

/-- **The end-of-frame code implements the documented convention.** -/
theorem boundaryK_eq_frameEnd (cmio : Bool) (flags : Int) (k : Last) (nextFc : Int) (s : St μ) (h0 : Rom0Ok s.mem) :
    boundaryK cmio flags k nextFc s =
      Spec.frameEnd cmio (decide (PyInt.land flags 1 ≠ 0)) (decide (PyInt.land flags 2 ≠ 0)) k.toSpec (decide (nextFc ≤ 2)) s := by
  unfold boundaryK Spec.frameEnd
  simp only []
  by_cases hiff : s.iff = 0
  · simp [hiff]
  · simp only [hiff, ne_eq, not_false_eq_true, if_true, if_false]
    cases k <;> simp only [Last.toSpec, reduceCtorEq, if_true, if_false, and_true, and_false, not_true_eq_false, not_false_eq_true,
      false_or, true_or]
    · exact acceptInterrupt_eq_acknowledge cmio _ h0
    · by_cases h1 : PyInt.land flags 1 = 0
      · simp only [h1, not_true_eq_false, decide_false, Bool.false_eq_true, if_false]
        by_cases h2 : PyInt.land flags 2 = 0
        · simp only [h2, not_true_eq_false, if_false]; exact acceptInterrupt_eq_acknowledge cmio _ h0
        · simp only [h2, not_false_eq_true, if_true]; exact acceptInterrupt_eq_acknowledge cmio _ h0
      · simp only [h1, not_false_eq_true, decide_true, if_true]; exact acceptInterrupt_eq_acknowledge cmio _ h0
    · by_cases h2 : PyInt.land flags 2 = 0
      · simp only [h2, not_true_eq_false, decide_false, if_false, Bool.false_and, Bool.false_eq_true]
        exact acceptInterrupt_eq_acknowledge cmio _ h0
      · simp only [h2, not_false_eq_true, decide_true, if_true, Bool.true_and]
        by_cases hn : nextFc > 2
        · have : ¬ nextFc ≤ 2 := by omega
          simp only [hn, this, if_true, decide_false, Bool.false_eq_true, if_false]
          exact acceptInterrupt_eq_acknowledge cmio _ h0
        · have : nextFc ≤ 2 := by omega
          simp only [hn, this, if_false, decide_true, if_true]
    · by_cases h2 : PyInt.land flags 2 = 0
      · simp only [h2, not_true_eq_false, if_false]; exact acceptInterrupt_eq_acknowledge cmio _ h0
      · simp only [h2, not_false_eq_true, if_true]; exact acceptInterrupt_eq_acknowledge cmio _ h0

end Rzx
