import SkoolVerif.Prelude.Machine
/-! Clock shifts by whole frames (C10): the state a run resumed from a snapshot starts in differs
from the saved one by `T ↦ T mod frame`, i.e. by a multiple of the frame duration. -/
namespace Tshift
open Z80

/-- advance the clock by `k` whole frames (k may be negative) -/
def addFrames {μ : Type} (cfg : Cfg) (s : St μ) (k : Int) : St μ :=
  { s with t := s.t + k * cfg.frame_duration }

@[simp] theorem addFrames_zero {μ : Type} (cfg : Cfg) (s : St μ) : addFrames cfg s 0 = s := by
  simp [addFrames]

theorem addFrames_add {μ : Type} (cfg : Cfg) (s : St μ) (j k : Int) :
    addFrames cfg (addFrames cfg s j) k = addFrames cfg s (j + k) := by
  simp only [addFrames, Int.add_mul, Int.add_assoc]

/-- replace the stream of values the tracer's `read_port` will return -/
def withIns {μ : Type} (s : St μ) (i : List Int) : St μ := { s with ins := i }

/-- no closure of the plain simulator takes more than 23 T-states -/
def maxDur : Int := 23
/-- contended: at most 6 more per entry of the access pattern (the longest pattern has 16 entries) -/
def maxDurCmio : Int := 23 + 6 * 20

/-- forget the two CPU fields the Z80 snapshot format cannot hold (HALT flag, MEMPTR) -/
def nzS {μ : Type} (s : St μ) : St μ := { s with halt := 0, memptr := 0 }
/-- forget MEMPTR only -/
def nzM {μ : Type} (s : St μ) : St μ := { s with memptr := 0 }

/-- the three shapes in which the closures take the clock modulo the frame -/
theorem shift_emod0 (a k fd : Int) : (a + k * fd) % fd = a % fd := Int.add_mul_emod_self_right a k fd
theorem shift_emod1 (a k fd d : Int) : (a + k * fd + d) % fd = (a + d) % fd := by
  have h : a + k * fd + d = a + d + k * fd := by omega
  rw [h]; exact Int.add_mul_emod_self_right _ k fd
theorem shift_emod2 (a k fd d e : Int) : (a + k * fd + d + e) % fd = (a + d + e) % fd := by
  have h : a + k * fd + d + e = a + d + e + k * fd := by omega
  rw [h]; exact Int.add_mul_emod_self_right _ k fd

end Tshift
