import SkoolVerif.Proofs.C02Parse
/-!
`eval_int` on the rendered forms that need the expression path:
`-$HH` and `"c"+128` / `"c"+$80`.
-/
namespace C02L
open OpText AsmEval

/-! ### `split_quoted` / `_convert_chars` -/

theorem splitQuotedAux_noquote : ∀ (t : Txt) (fuel : Nat) (cur : Txt), 34 ∉ t → t.length < fuel →
    splitQuotedAux fuel cur t = flush (cur ++ t) := by
  intro t
  induction t with
  | nil => intro fuel cur _ _; cases fuel <;> simp [splitQuotedAux]
  | cons c rest ih =>
    intro fuel cur h hl
    cases fuel with
    | zero => simp at hl
    | succ f =>
      have hc : c ≠ 34 := by intro e; subst e; simp at h
      have hr : 34 ∉ rest := by intro e; exact h (by simp [e])
      simp only [splitQuotedAux, hc, if_false]
      rw [ih f (cur ++ [c]) hr (by simpa using hl)]
      simp

theorem convertChars_noquote (t : Txt) (h : 34 ∉ t) : convertChars t = some t := by
  have := splitQuotedAux_noquote t (t.length + 1) [] h (by omega)
  simp only [convertChars, splitQuoted, this, List.nil_append]
  cases t with
  | nil => simp [flush]
  | cons c rest =>
    have hc : c ≠ 34 := by intro e; subst e; simp at h
    simp [flush, startsWith, hc, Ne.symm hc]

theorem scanQuoted_quote (rest : Txt) : scanQuoted (34 :: rest) = some ([34], rest) := by
  unfold scanQuoted; simp

theorem splitQuotedAux_quote_step (f : Nat) (cur rest body rest' : Txt)
    (h : scanQuoted rest = some (body, rest')) :
    splitQuotedAux (f + 1) cur (34 :: rest) = flush cur ++ [34 :: body] ++ splitQuotedAux f [] rest' := by
  simp [splitQuotedAux, h]

theorem splitQuoted_char (ch : Nat) (rest : Txt) (h34 : ch ≠ 34) (h92 : ch ≠ 92) (hr : 34 ∉ rest) :
    splitQuoted ([34, ch, 34] ++ rest) = [34, ch, 34] :: flush rest := by
  have hlen : ([34, ch, 34] ++ rest).length + 1 = (rest.length + 3) + 1 := by simp
  have hs : scanQuoted (ch :: 34 :: rest) = some ([ch, 34], rest) := by
    unfold scanQuoted; simp [h34, h92, scanQuoted_quote]
  rw [splitQuoted, hlen]
  show splitQuotedAux (rest.length + 3 + 1) [] (34 :: ch :: 34 :: rest) = _
  rw [splitQuotedAux_quote_step _ _ _ _ _ hs, splitQuotedAux_noquote rest (rest.length + 3) [] hr (by omega)]
  simp [flush]

theorem splitQuoted_esc (ch : Nat) (rest : Txt) (hch : ch ≠ 10) (hr : 34 ∉ rest) :
    splitQuoted ([34, 92, ch, 34] ++ rest) = [34, 92, ch, 34] :: flush rest := by
  have hlen : ([34, 92, ch, 34] ++ rest).length + 1 = (rest.length + 4) + 1 := by simp
  have hs : scanQuoted (92 :: ch :: 34 :: rest) = some ([92, ch, 34], rest) := by
    unfold scanQuoted; simp [hch, scanQuoted_quote]
  rw [splitQuoted, hlen]
  show splitQuotedAux (rest.length + 4 + 1) [] (34 :: 92 :: ch :: 34 :: rest) = _
  rw [splitQuotedAux_quote_step _ _ _ _ _ hs, splitQuotedAux_noquote rest (rest.length + 4) [] hr (by omega)]
  simp [flush]

/-- `_convert_chars('"c"' + rest)` for an unquoted non-empty `rest`. -/
theorem convertChars_char (ch : Nat) (rest : Txt) (h34 : ch ≠ 34) (h92 : ch ≠ 92) (hr : 34 ∉ rest)
    (hne : rest ≠ []) : convertChars ([34, ch, 34] ++ rest) = some (decStr ch ++ rest) := by
  rw [convertChars, splitQuoted_char ch rest h34 h92 hr]
  cases rest with
  | nil => exact absurd rfl hne
  | cons r rs =>
    have hr0 : r ≠ 34 := by intro e; subst e; simp at hr
    simp [flush, startsWith, endsWith, sliceToLast, ord?, hr0, Ne.symm hr0, Ne.symm h92]

theorem convertChars_esc (ch : Nat) (rest : Txt) (hch : ch ≠ 10) (hr : 34 ∉ rest)
    (hne : rest ≠ []) : convertChars ([34, 92, ch, 34] ++ rest) = some (decStr ch ++ rest) := by
  rw [convertChars, splitQuoted_esc ch rest hch hr]
  cases rest with
  | nil => exact absurd rfl hne
  | cons r rs =>
    have hr0 : r ≠ 34 := by intro e; subst e; simp at hr
    simp [flush, startsWith, endsWith, sliceToLast, ord?, hr0, Ne.symm hr0]

/-! ### `_convert_nums` -/

theorem filter_nospace (t : Txt) (h : ∀ c ∈ t, isSpace c = false) : t.filter (fun c => !isSpace c) = t := by
  rw [List.filter_eq_self]
  intro c hc; simp [h c hc]

theorem cna_nil (fuel : Nat) (first : Bool) (prev : Option Nat) : convNumsAux fuel first prev [] = [] := by
  cases fuel <;> simp [convNumsAux]

theorem cna_minus (f : Nat) (first : Bool) (prev : Option Nat) (rest : Txt) :
    convNumsAux (f + 1) first prev (45 :: rest) = 45 :: convNumsAux f first (some 45) rest := by
  simp [convNumsAux, isDigit]

theorem cna_plus (f : Nat) (first : Bool) (prev : Option Nat) (rest : Txt) :
    convNumsAux (f + 1) first prev (43 :: rest) = 43 :: convNumsAux f first (some 43) rest := by
  simp [convNumsAux, isDigit]

theorem isHex_of_hexch (c : Nat) (h : HexCh c) : isHex c = true := by
  unfold HexCh at h; simp [isHex, isDigit]; omega

theorem cna_hex (f : Nat) (first : Bool) (prev : Option Nat) (up : Bool) (w n : Nat) (rest : Txt)
    (hr : ∀ c, rest.head? = some c → isHex c = false) :
    convNumsAux (f + 1) first prev (36 :: (digs 16 up w n ++ rest)) =
      decStr n ++ convNumsAux f false none rest := by
  have hall : ∀ c ∈ digs 16 up w n, isHex c = true :=
    fun c hc => isHex_of_hexch c (digs_hexch 16 (by omega) (by omega) up w n c hc)
  have hsp := spanP_append isHex (digs 16 up w n) rest hall hr
  have hval : digitsVal 16 (digs 16 up w n) = n := by
    rw [digs, digitsVal_map 16 up _ (fun d hd => by have := padLeft_lt 16 w n (by omega) d hd; omega)]
    exact ofDigits_padLeft 16 w n (by omega)
  cases hd : digs 16 up w n with
  | nil => exact absurd hd (digs_ne_nil 16 up w n)
  | cons a as =>
    have ha : isHex a = true := hall a (by simp [hd])
    rw [hd] at hsp hval
    simp only [List.cons_append] at hsp ⊢
    simp [convNumsAux, ha, hsp, hval]

theorem isDigit_of_dec (c : Nat) (h : 48 ≤ c ∧ c ≤ 57) : isDigit c = true := by
  simp [isDigit]; omega

theorem digitsVal_decStr (n : Nat) : digitsVal 10 (decStr n) = n := by
  rw [decStr, digitsVal_map 10 true _ (fun d hd => by have := toDigits_lt 10 (by omega) n d hd; omega)]
  exact ofDigits_toDigits 10 (by omega) n

theorem decStr_all_digit (n : Nat) : ∀ c ∈ decStr n, isDigit c = true := by
  intro c hc
  rw [decStr_eq_digs] at hc
  exact isDigit_of_dec c (digs_dec_mem true 0 n c hc)

theorem decStr_ne_nil (n : Nat) : decStr n ≠ [] := by
  rw [decStr_eq_digs]; exact digs_ne_nil _ _ _ _

/-- A decimal literal token is left alone (a leading `0` is re-rendered, to the same text). -/
theorem cna_dec (f : Nat) (first : Bool) (prev : Option Nat) (n : Nat) (rest : Txt)
    (hr : ∀ c, rest.head? = some c → isDigit c = false) :
    convNumsAux (f + 1) first prev (decStr n ++ rest) = decStr n ++ convNumsAux f false none rest := by
  have hall := decStr_all_digit n
  have hsp := spanP_append isDigit (decStr n) rest hall hr
  cases hd : decStr n with
  | nil => exact absurd hd (decStr_ne_nil n)
  | cons a as =>
    have ha : isDigit a = true := hall a (by simp [hd])
    have ha36 : a ≠ 36 := by intro e; subst e; simp [isDigit] at ha
    have ha37 : a ≠ 37 := by intro e; subst e; simp [isDigit] at ha
    rw [hd] at hsp
    simp only [List.cons_append] at hsp ⊢
    simp only [convNumsAux, ha36, ha37, false_and, if_false, ha, if_true, hsp]
    split
    · rw [← hd, digitsVal_decStr, hd]; rfl
    · rfl

/-! ### tokenizer / parser on the two shapes -/

theorem decStr_zero_check (n : Nat) : ¬ ((decStr n).head? = some 48 ∧ (decStr n).any (· != 48) = true) := by
  rintro ⟨h0, hany⟩
  by_cases hn : n = 0
  · subst hn
    simp [decStr, toDigits_zero 10 (by omega), digitChar] at hany
  · have := toDigits_head_ne_zero 10 (by omega) n (by omega)
    apply this
    simp only [decStr, List.head?_map] at h0
    cases hd : (toDigits 10 n).head? with
    | none => simp [hd] at h0
    | some d =>
      have hdlt : d < 10 := toDigits_lt 10 (by omega) n d (head?_mem _ _ hd)
      simp [hd, digitChar_dec true d hdlt] at h0
      simp [h0]

theorem tok_num (f n : Nat) (rest : Txt) (hr : ∀ c, rest.head? = some c → isDigit c = false) :
    tokenize (f + 1) (decStr n ++ rest) = (tokenize f rest).bind fun ts => .ok (Tok.num n :: ts) := by
  have hall := decStr_all_digit n
  have hsp := spanP_append isDigit (decStr n) rest hall hr
  have hz := decStr_zero_check n
  cases hd : decStr n with
  | nil => exact absurd hd (decStr_ne_nil n)
  | cons a as =>
    have ha : isDigit a = true := hall a (by simp [hd])
    rw [hd] at hsp hz
    simp only [List.cons_append] at hsp ⊢
    simp only [tokenize, ha, if_true, hsp]
    have hz' : ¬ (a = 48 ∧ (a :: as).any (· != 48) = true) := by simpa using hz
    rw [if_neg hz', ← hd, digitsVal_decStr]

theorem tok_nil (f : Nat) : tokenize f [] = .ok [] := by cases f <;> simp [tokenize]

theorem evalArith_neg (n : Nat) : evalArith (45 :: decStr n) = .ok (-(n : Int)) := by
  have h1 : tokenize ((45 :: decStr n).length + 1) (45 :: decStr n) = .ok [Tok.minus, Tok.num n] := by
    have : (45 :: decStr n).length + 1 = (decStr n).length + 1 + 1 := by simp
    rw [this]
    have h2 := tok_num (decStr n).length n [] (by simp)
    simp only [List.append_nil] at h2
    simp [tokenize, isDigit, h2, tok_nil, R.bind]
  simp only [evalArith, h1, R.bind]
  simp [pSum, pSumRest, pTerm, pTermRest, pFactor, pAtom, pTrailers, evalEx, R.bind]

theorem evalArith_add (a b : Nat) : evalArith (decStr a ++ 43 :: decStr b) = .ok ((a : Int) + b) := by
  have hlen : ∃ k, (decStr a ++ 43 :: decStr b).length + 1 = k + 1 + 1 + 1 := by
    cases hd : decStr a with
    | nil => exact absurd hd (decStr_ne_nil a)
    | cons x xs => exact ⟨xs.length + (decStr b).length, by simp; omega⟩
  obtain ⟨k, hk⟩ := hlen
  have h1 : tokenize ((decStr a ++ 43 :: decStr b).length + 1) (decStr a ++ 43 :: decStr b) =
      .ok [Tok.num a, Tok.plus, Tok.num b] := by
    rw [hk, tok_num _ a (43 :: decStr b) (by simp [isDigit])]
    have h2 := tok_num k b [] (by simp)
    simp only [List.append_nil] at h2
    simp [tokenize, isDigit, h2, tok_nil, R.bind]
  simp only [evalArith, h1, R.bind]
  simp [pSum, pSumRest, pTerm, pTermRest, pFactor, pAtom, pTrailers, evalEx, R.bind, applyBin]

end C02L
