import SkoolVerif.Prelude.PyInt
/-! Helper lemma and tactics for the generated per-closure theorems of `Gen/C07SimFacts.lean` (core Lean only). -/
namespace PyInt

/-- `x & 0 == 0` in Python, for every integer `x` -/
theorem land_zero_right (x : Int) : land x 0 = 0 := by
  cases x with
  | ofNat m => show Int.ofNat (m &&& 0) = 0; simp
  | negSucc m => show Int.ofNat (0 - (0 &&& m)) = 0; simp

end PyInt

/-- closes `x - s.t ∈ [..] ++ ..` goals after the closure has been unfolded -/
macro "c07_tstates" : tactic => `(tactic|
  (repeat' split) <;> (try simp only [List.mem_append, List.mem_cons, List.mem_singleton, List.not_mem_nil, or_false, false_or,
    if_true, if_false, ite_true, ite_false, List.append_nil, List.nil_append, reduceIte, *]) <;>
  first | omega | grind [PyInt.land_zero_right])

/-- closes `pc' = (pc + k) % 65536` goals after the closure has been unfolded -/
macro "c07_pc" : tactic => `(tactic| (repeat' split) <;> first | rfl | omega | grind [PyInt.land_zero_right])

/-- closes the two "T-states determine the PC update" goals after the closure has been unfolded -/
macro "c07_pcByT" : tactic => `(tactic|
  (refine ⟨fun h1 h2 => ?_, fun h1 h2 => ?_⟩) <;> (repeat' split) <;>
  (try simp only [List.mem_append, List.mem_cons, List.mem_singleton, List.not_mem_nil, or_false, false_or,
    if_true, if_false, ite_true, ite_false, List.append_nil, List.nil_append, reduceIte, *] at h1 h2 ⊢) <;>
  first | rfl | omega | grind [PyInt.land_zero_right])
