import SkoolVerif.Proofs.C02Items
/-!
`Assembler.convert_case(operation, lower=False, trim=True)` (applied to every
instruction before it is assembled) maps a rendered operand to the same
operand rendered with `asm_lower = False`: digits and `$` prefixes are
upper-cased, quoted characters are untouched.
-/
namespace C02L
open OpText AsmEval OperandSpec

theorem ccAux_nil (lo tr : Bool) (f : Nat) (conv leave : Bool) : convertCaseAux lo tr f conv leave [] = [] := by
  cases f <;> simp [convertCaseAux]

/-- Outside quotes a run without quotes and white space is upper-cased character by character. -/
theorem ccAux_plain (t rest : Txt) (leave : Bool) (f : Nat) (h : ∀ c ∈ t, c ≠ 34 ∧ isSpace c = false) :
    convertCaseAux false true (f + t.length) true leave (t ++ rest) =
      t.map upperC ++ convertCaseAux false true f true leave rest := by
  induction t with
  | nil => simp
  | cons c cs ih =>
    have hc := h c (by simp)
    have e : f + (c :: cs).length = (f + cs.length) + 1 := by simp; omega
    rw [e, List.cons_append]
    conv => lhs; unfold convertCaseAux
    simp only [hc.1, hc.2, if_false, if_true, Bool.false_eq_true, and_false, List.map_cons, List.cons_append]
    rw [ih (fun x hx => h x (by simp [hx]))]
    simp

theorem upperC_digitChar (up : Bool) (d : Nat) (h : d < 16) : upperC (digitChar up d) = digitChar true d := by
  have : d = 0 ∨ d = 1 ∨ d = 2 ∨ d = 3 ∨ d = 4 ∨ d = 5 ∨ d = 6 ∨ d = 7 ∨ d = 8 ∨ d = 9 ∨ d = 10 ∨
      d = 11 ∨ d = 12 ∨ d = 13 ∨ d = 14 ∨ d = 15 := by omega
  rcases this with h | h | h | h | h | h | h | h | h | h | h | h | h | h | h | h <;> subst h <;>
    cases up <;> decide

theorem map_upper_fmtInt (b : Nat) (hb : 2 ≤ b) (hb16 : b ≤ 16) (w : Nat) (up : Bool) (v : Int) :
    (fmtInt b w up v).map upperC = fmtInt b w true v := by
  have hd : ∀ w', ((padLeft w' (toDigits b v.natAbs)).map (digitChar up)).map upperC =
      (padLeft w' (toDigits b v.natAbs)).map (digitChar true) := by
    intro w'
    rw [List.map_map]
    apply List.map_congr_left
    intro d hd
    have := padLeft_lt b w' v.natAbs hb d hd
    simp [upperC_digitChar up d (by omega)]
  unfold fmtInt
  split
  · simp only [List.map_cons, hd]; simp [upperC]
  · exact hd w

theorem map_upper_fmtNum (cfg : Cfg) (base : Base) (word : Bool) (v : Int) :
    (fmtNum cfg base word v).map upperC = fmtNum { cfg with lower := false } base word v := by
  have h2 := map_upper_fmtInt 2 (by omega) (by omega)
  have h10 := map_upper_fmtInt 10 (by omega) (by omega)
  have h16 := map_upper_fmtInt 16 (by omega) (by omega)
  cases base <;> cases hh : cfg.hex <;>
    simp [fmtNum, hexFmt, hh, h2, h10, h16, upperC]

theorem cc_plain (t : Txt) (h : Plain t) : convertCase false true t = t.map upperC := by
  have := ccAux_plain t [] true 1 (fun c hc => ⟨(h.2 c hc).2.1, (h.2 c hc).2.2⟩)
  simp only [List.append_nil, ccAux_nil] at this
  rw [convertCase, Nat.add_comm]
  exact this

theorem cc_numStrNC (cfg : Cfg) (v nbytes : Nat) (base : Base) :
    convertCase false true (numStrNC cfg v nbytes base) = numStrNC { cfg with lower := false } v nbytes base := by
  rw [cc_plain _ (numStrNC_plain cfg v nbytes base)]
  unfold numStrNC
  exact map_upper_fmtNum _ _ _ _

/-- **Tidying is harmless**: `convert_case(…, lower=False, trim=True)` of any
rendered number is the same number rendered in upper case. -/
theorem cc_numStr (cfg : Cfg) (v nbytes : Nat) (base : Base) :
    convertCase false true (numStr cfg v nbytes base) = numStr { cfg with lower := false } v nbytes base := by
  by_cases hch : base = .c ∧ v < 256 ∧ isChar (v % 128) = true
  · obtain ⟨rfl, hv256, hic⟩ := hch
    have hr := isChar_range _ hic
    -- the suffix is a plain run (or empty)
    have hsfx : ∀ (f : Nat) (leave : Bool),
        convertCaseAux false true (f + (if v ≥ 128 then 43 :: numStrNC cfg 128 1 .n else ([] : Txt)).length) true leave
          (if v ≥ 128 then 43 :: numStrNC cfg 128 1 .n else ([] : Txt)) =
        (if v ≥ 128 then 43 :: numStrNC { cfg with lower := false } 128 1 .n else ([] : Txt)) := by
      intro f leave
      by_cases h : v ≥ 128
      · simp only [h, if_true]
        have hp := numStrNC_plain cfg 128 1 .n
        have := ccAux_plain (43 :: numStrNC cfg 128 1 .n) [] leave f (by
          intro c hc
          simp only [List.mem_cons] at hc
          rcases hc with rfl | hc
          · exact ⟨by decide, by decide⟩
          · exact ⟨(hp.2 c hc).2.1, (hp.2 c hc).2.2⟩)
        simp only [List.append_nil, ccAux_nil] at this
        rw [this]
        have e := map_upper_fmtNum cfg .n (decide (((128 : Nat) : Int) > 255) || decide (1 > 1)) ((128 : Nat) : Int)
        simp only [List.map_cons, numStrNC] at e ⊢
        simp [upperC]
        simpa using e
      · simp only [h, if_false, List.length_nil, ccAux_nil]
    simp only [numStr, hv256, hic, and_self, if_true]
    generalize hS : (if v ≥ 128 then 43 :: numStrNC cfg 128 1 .n else ([] : Txt)) = sfx at hsfx
    generalize (if v ≥ 128 then 43 :: numStrNC { cfg with lower := false } 128 1 .n else ([] : Txt)) = sfx' at hsfx
    by_cases hq : v % 128 = 34 ∨ v % 128 = 92
    · simp only [hq, if_true]
      have e : ([34, 92, v % 128, 34] ++ sfx).length + 1 = (2 + sfx.length) + 1 + 1 + 1 := by simp; omega
      rw [convertCase, e]
      simp only [List.cons_append, List.nil_append, convertCaseAux]
      simp [isSpace, upperC, hsfx]
    · simp only [hq, if_false]
      have h34 : v % 128 ≠ 34 := fun e => hq (Or.inl e)
      have h92 : v % 128 ≠ 92 := fun e => hq (Or.inr e)
      have e : ([34, v % 128, 34] ++ sfx).length + 1 = (1 + sfx.length) + 1 + 1 + 1 := by simp; omega
      rw [convertCase, e]
      simp only [List.cons_append, List.nil_append, convertCaseAux]
      simp [isSpace, upperC, hsfx, h34, h92]
  · rw [numStr_nonchar cfg v nbytes base hch, numStr_nonchar _ v nbytes base hch]
    exact cc_numStrNC _ _ _ _

end C02L
