import SkoolVerif.Model.AsmModes
/-! Lemmas about the mode / weight tables (C04). -/
namespace AsmModes

theorem wlt_irrefl (a : Weight) : wlt a a = false := by
  simp [wlt]

theorem wlt_antisymm (a b : Weight) (h1 : wlt a b = false) (h2 : wlt b a = false) : a = b := by
  obtain ⟨a1, a2⟩ := a
  obtain ⟨b1, b2⟩ := b
  simp only [wlt, Bool.or_eq_false_iff, Bool.and_eq_false_iff, decide_eq_false_iff_not, beq_eq_false_iff_ne] at h1 h2
  have : a1 = b1 := by omega
  subst this
  simp only [Nat.lt_irrefl, not_false_eq_true, ne_eq, not_true_eq_false, false_or, true_and] at h1 h2
  have : a2 = b2 := by omega
  rw [this]

/-- The fold of `max` returns `M` when `M` occurs and nothing exceeds it. -/
theorem foldl_max (M : Weight) (l : List Weight) : ∀ acc : Weight,
    (∀ x ∈ l, wlt M x = false) → wlt M acc = false → (acc = M ∨ M ∈ l) →
    l.foldl (fun m w => if wlt m w then w else m) acc = M := by
  induction l with
  | nil => intro acc _ _ h; simpa using h
  | cons x l ih =>
    intro acc hall hacc hm
    simp only [List.foldl_cons]
    have hx : wlt M x = false := hall x (by simp)
    apply ih
    · intro y hy; exact hall y (by simp [hy])
    · split <;> assumption
    · rcases hm with rfl | hm
      · simp [hx]
      · simp only [List.mem_cons] at hm
        rcases hm with rfl | hm
        · by_cases h : wlt acc M
          · simp [h]
          · left
            simp only [h, Bool.false_eq_true, if_false]
            exact wlt_antisymm _ _ (by simpa using h) hacc
        · exact Or.inr hm

theorem maxW_eq (M : Weight) (l : List Weight) (hall : ∀ x ∈ l, wlt M x = false) (hm : M ∈ l)
    (hpos : wlt M (0, 0) = false) : maxW l = M :=
  foldl_max M l (0, 0) hall hpos (Or.inr hm)

theorem maxW_nil : maxW [] = (0, 0) := rfl

theorem mem_all (d : Dir) : d ∈ Dir.all := by cases d <;> simp [Dir.all]

/-- The tables only look at the modes through the thresholds 0, 1, 2. -/
theorem binWeight_clamp (a f : Nat) (d : Dir) : binWeight a f d = binWeight (min a 3) (min f 3) d := by
  have h0 : decide (a > 0) = decide (min a 3 > 0) := by simp; omega
  have h1 : decide (a > 1) = decide (min a 3 > 1) := by simp; omega
  have h2 : decide (a > 2) = decide (min a 3 > 2) := by simp; omega
  have g0 : decide (f > 0) = decide (min f 3 > 0) := by simp; omega
  have g1 : decide (f > 1) = decide (min f 3 > 1) := by simp; omega
  have g2 : decide (f > 2) = decide (min f 3 > 2) := by simp; omega
  cases d <;> simp only [binWeight, h0, h1, h2, g0, g1, g2]

theorem binSelects_clamp (a f : Nat) (d : Dir) : binSelects a f d = binSelects (min a 3) (min f 3) d := by
  simp only [binSelects, binWeight_clamp a f d]

/-- Bool checker for the finite part: distinct selected classes have distinct weights, ordered by rank. -/
def tableOk : Bool :=
  (List.range 4).all fun a => (List.range 4).all fun f => Dir.all.all fun d1 => Dir.all.all fun d2 =>
    (!(binSelects a f d1 && binSelects a f d2) ||
      ((binWeight a f d1 != binWeight a f d2 || d1 == d2) &&
       (!(rank d1 ≤ rank d2) || !wlt (binWeight a f d2) (binWeight a f d1))))

theorem tableOk_true : tableOk = true := by decide

theorem table_facts (a f : Nat) (d1 d2 : Dir) (h1 : binSelects a f d1 = true) (h2 : binSelects a f d2 = true) :
    (binWeight a f d1 = binWeight a f d2 → d1 = d2) ∧
    (rank d1 ≤ rank d2 → wlt (binWeight a f d2) (binWeight a f d1) = false) := by
  rw [binSelects_clamp] at h1 h2
  rw [binWeight_clamp a f d1, binWeight_clamp a f d2]
  have ha : min a 3 ∈ List.range 4 := by simp; omega
  have hf : min f 3 ∈ List.range 4 := by simp; omega
  have := tableOk_true
  simp only [tableOk, List.all_eq_true] at this
  have := this _ ha _ hf d1 (mem_all d1) d2 (mem_all d2)
  simp only [h1, h2, Bool.and_self, Bool.not_true, Bool.false_or, Bool.and_eq_true, Bool.or_eq_true,
    bne_iff_ne, ne_eq, beq_iff_eq, Bool.not_eq_true', decide_eq_false_iff_not] at this
  constructor
  · intro h; rcases this.1 with h' | h'
    · exact absurd h h'
    · exact h'
  · intro h; rcases this.2 with h' | h'
    · exact absurd h h'
    · exact h'

end AsmModes
