import SkoolVerif.Proofs.SnaCtlMap
/-!
Termination of the loops of `_generate_ctls_with_code_map`: the fuel the model gives each loop is
never exhausted (so the `FtErr.fuel` outcome is unreachable), via a decreasing measure per loop.
-/
namespace SnaCtl

/-! ### `_find_terminal_instruction`: the walk advances by ≥ 1 byte per iteration -/

theorem ftLoop_no_fuel {dec : Dec} (hs : SizesPos dec) (end_ : Nat) (ctl : Option Ctl) :
    ∀ (fuel : Nat) (d : Dict) (nc : Ctl) (address : Nat), end_ - address ≤ fuel →
      ∃ r, ftLoop dec end_ ctl fuel d nc address = .ok r := by
  cases ctl with
  | none =>
    intro fuel
    induction fuel with
    | zero =>
      intro d nc address h
      unfold ftLoop
      rw [if_neg (by omega)]
      exact ⟨_, rfl⟩
    | succ n ih =>
      intro d nc address h
      unfold ftLoop
      by_cases hlt : address < end_
      · rw [if_pos hlt]
        by_cases hst : address + (dec address).size > end_
        · rw [if_pos hst]; exact ⟨_, rfl⟩
        · rw [if_neg hst]
          simp only
          split
          · exact ⟨_, rfl⟩
          · split
            · split <;> exact ⟨_, rfl⟩
            · have := hs address
              exact ih _ _ _ (by omega)
      · rw [if_neg hlt]; exact ⟨_, rfl⟩
  | some c =>
    intro fuel
    induction fuel with
    | zero =>
      intro d nc address h
      unfold ftLoop
      rw [if_neg (by omega)]
      exact ⟨_, rfl⟩
    | succ n ih =>
      intro d nc address h
      unfold ftLoop
      by_cases hlt : address < end_
      · rw [if_pos hlt]
        by_cases hst : address + (dec address).size > end_
        · rw [if_pos hst]; exact ⟨_, rfl⟩
        · rw [if_neg hst]
          simp only
          split
          · exact ⟨_, rfl⟩
          · split
            · split <;> exact ⟨_, rfl⟩
            · have := hs address
              exact ih _ _ _ (by omega)
      · rw [if_neg hlt]; exact ⟨_, rfl⟩

theorem findTerminal_total {dec : Dec} (hs : SizesPos dec) (end_ : Nat) (ctl : Option Ctl) (d : Dict) (from_ : Nat) :
    ∃ r, findTerminal dec end_ ctl d from_ = .ok r :=
  ftLoop_no_fuel hs end_ ctl _ d .U from_ (Nat.le_refl _)

/-- a walk that starts before `end_` returns a strictly larger address, never beyond `end_` -/
theorem ftLoop_progress {dec : Dec} (hs : SizesPos dec) {end_ : Nat} {ctl : Option Ctl} :
    ∀ (fuel : Nat) (d : Dict) (nc : Ctl) (address : Nat) (d' : Dict) (a' : Nat), address ≤ end_ →
      ftLoop dec end_ ctl fuel d nc address = .ok (d', a') →
        (address < end_ → address < a') ∧ a' ≤ end_ ∧ address ≤ a' := by
  cases ctl with
  | none =>
    intro fuel
    induction fuel with
    | zero =>
      intro d nc address d' a' h hr
      unfold ftLoop at hr
      split at hr
      · simp at hr
      · simp at hr; omega
    | succ n ih =>
      intro d nc address d' a' h hr
      unfold ftLoop at hr
      have hsz := hs address
      by_cases hlt : address < end_
      · rw [if_pos hlt] at hr
        by_cases hst : address + (dec address).size > end_
        · rw [if_pos hst] at hr; simp at hr; omega
        · rw [if_neg hst] at hr
          simp only at hr
          split at hr
          · simp at hr; omega
          · split at hr
            · split at hr <;> (simp at hr; omega)
            · have := ih _ _ _ d' a' (by omega) hr
              omega
      · rw [if_neg hlt] at hr; simp at hr; omega
  | some c =>
    intro fuel
    induction fuel with
    | zero =>
      intro d nc address d' a' h hr
      unfold ftLoop at hr
      split at hr
      · simp at hr
      · simp at hr; omega
    | succ n ih =>
      intro d nc address d' a' h hr
      unfold ftLoop at hr
      have hsz := hs address
      by_cases hlt : address < end_
      · rw [if_pos hlt] at hr
        by_cases hst : address + (dec address).size > end_
        · rw [if_pos hst] at hr; simp at hr; omega
        · rw [if_neg hst] at hr
          simp only at hr
          split at hr
          · simp at hr; omega
          · split at hr
            · split at hr <;> (simp at hr; omega)
            · have := ih _ _ _ d' a' (by omega) hr
              omega
      · rw [if_neg hlt] at hr; simp at hr; omega

/-! ### step (4): the split loop -/

theorem step4Split_total {dec : Dec} (hs : SizesPos dec) (bEnd : Nat) :
    ∀ (fuel : Nat) (d : Dict) (a : Nat), bEnd - a < fuel → ∃ d', step4Split dec bEnd fuel d a = .ok d' := by
  intro fuel
  induction fuel with
  | zero => intro d a h; omega
  | succ n ih =>
    intro d a h
    unfold step4Split
    split
    · rename_i hlt
      obtain ⟨r, hr⟩ := findTerminal_total hs bEnd (some .c) d a
      obtain ⟨d1, a1⟩ := r
      rw [hr]
      simp only
      have := ftLoop_progress hs _ d .U a d1 a1 (by omega) hr
      exact ih d1 a1 (by have := this.1 hlt; omega)
    · exact ⟨_, rfl⟩

theorem step4_total {dec : Dec} (hs : SizesPos dec) :
    ∀ (bl : List (Ctl × Nat × Nat)) (d : Dict), ∃ d', step4 dec bl d = .ok d' := by
  intro bl
  induction bl with
  | nil => intro d; exact ⟨_, rfl⟩
  | cons b rest ih =>
    obtain ⟨ctl, bs, be⟩ := b
    intro d
    unfold step4
    split
    · obtain ⟨d1, h1⟩ := step4Split_total hs be (be - bs + 1) d bs (by omega)
      rw [h1]
      exact ih d1
    · exact ih d

/-! ### step (5): every productive pass removes a directive -/

theorem length_ddel_le (d : Dict) (k : Nat) : (ddel d k).length ≤ d.length := by
  induction d with
  | nil => simp [ddel]
  | cons x r ih =>
    unfold ddel
    split
    · simp
    · simp; exact ih

theorem length_ddel_mem {d : Dict} {k : Nat} (hk : k ∈ keys d) : (ddel d k).length + 1 = d.length := by
  induction d with
  | nil => simp at hk
  | cons x r ih =>
    obtain ⟨k0, v0⟩ := x
    unfold ddel
    split
    · simp
    · rename_i hne
      simp at hk
      rcases hk with rfl | hk
      · exact absurd rfl hne
      · simp; exact ih hk

/-- interior block ends are present keys, listed in increasing order -/
def EndsOK (d : Dict) : List (Ctl × Nat × Nat) → Prop
  | e :: e' :: rest => (e.2.2 ∈ keys d ∧ ∀ x ∈ e' :: rest, e.2.2 < x.2.2) ∧ EndsOK d (e' :: rest)
  | _ => True

theorem endsOK_ddel {d : Dict} (hs : Sorted d) {k : Nat} :
    ∀ (bl : List (Ctl × Nat × Nat)), (∀ x ∈ bl, k < x.2.2) → EndsOK d bl → EndsOK (ddel d k) bl := by
  intro bl
  induction bl with
  | nil => intro _ _; simp [EndsOK]
  | cons e rest ih =>
    cases rest with
    | nil => intro _ _; simp [EndsOK]
    | cons e' rest' =>
      intro hk h
      simp only [EndsOK] at h ⊢
      refine ⟨⟨?_, h.1.2⟩, ih (fun x hx => hk x (by simp [hx])) h.2⟩
      rw [mem_keys_ddel hs]
      exact ⟨by have := hk e (by simp); omega, h.1.1⟩

theorem getBlocks_ends_gt {d : Dict} (hs : Sorted d) {k : Nat} (hk : ∀ k' ∈ keys d, k ≤ k') :
    ∀ b ∈ getBlocks d, k < b.2.2 := by
  intro b hb
  have := getBlocks_mem hs b hb
  have := hk _ this.1
  omega

theorem getBlocks_endsOK : ∀ (d dfull : Dict), Sorted d → (∀ k ∈ keys d, k ∈ keys dfull) →
    EndsOK dfull (getBlocks d) := by
  intro d
  induction d with
  | nil => intro _ _ _; simp [getBlocks, EndsOK]
  | cons x r ih =>
    obtain ⟨k, v⟩ := x
    cases r with
    | nil => intro _ _ _; simp [getBlocks, EndsOK]
    | cons y r' =>
      obtain ⟨k', v'⟩ := y
      cases r' with
      | nil => intro _ _ _; simp [getBlocks, EndsOK]
      | cons z r'' =>
        obtain ⟨k'', v''⟩ := z
        intro dfull hs hsub
        have hs' := hs
        rw [sorted_cons] at hs'
        have ih' := ih dfull hs'.2 (fun k hk => hsub k (by simp [keys] at hk ⊢; exact Or.inr hk))
        have hgt := getBlocks_ends_gt hs'.2 (k := k') (by
          intro k1 hk1
          have hs2 := hs'.2
          rw [sorted_cons] at hs2
          simp at hk1
          rcases hk1 with rfl | hk1
          · exact Nat.le_refl _
          · have := hs2.1 k1 (by simpa using hk1); omega)
        simp only [getBlocks] at ih' hgt ⊢
        exact ⟨⟨hsub k' (by simp), hgt⟩, ih'⟩

theorem step5Pass_sorted {dis : Dis} :
    ∀ (bl : List (Ctl × Nat × Nat)) (d : Dict) (done : Bool), Sorted d → Sorted (step5Pass dis bl d done).1 := by
  intro bl
  induction bl with
  | nil => intro d done h; simpa [step5Pass] using h
  | cons e rest ih =>
    cases rest with
    | nil => intro d done h; simpa [step5Pass] using h
    | cons e' rest' =>
      intro d done h
      unfold step5Pass
      split
      · exact ih _ _ (sorted_ddel h _)
      · exact ih _ _ h

/-- a pass never adds directives, and if it reports "not done" it removed at least one -/
theorem step5Pass_length {dis : Dis} :
    ∀ (bl : List (Ctl × Nat × Nat)) (d : Dict) (done : Bool), Sorted d → EndsOK d bl →
      (step5Pass dis bl d done).1.length ≤ d.length ∧
      ((step5Pass dis bl d done).2 = false → done = false ∨ (step5Pass dis bl d done).1.length < d.length) := by
  intro bl
  induction bl with
  | nil => intro d done _ _; simp [step5Pass]
  | cons e rest ih =>
    cases rest with
    | nil => intro d done _ _; simp [step5Pass]
    | cons e' rest' =>
      intro d done hs he
      simp only [EndsOK] at he
      unfold step5Pass
      split
      · have hlen := length_ddel_mem he.1.1
        have := ih (ddel d e.2.2) false (sorted_ddel hs _) (endsOK_ddel hs _ he.1.2 he.2)
        exact ⟨by omega, fun _ => Or.inr (by omega)⟩
      · exact ih d done hs he.2

/-- Step (5) terminates: `length + 1` iterations always suffice (each productive pass deletes a
directive). -/
theorem step5_total {dis : Dis} : ∀ (fuel : Nat) (d : Dict), Sorted d → d.length < fuel →
    ∃ d', step5 dis fuel d = .ok d' := by
  intro fuel
  induction fuel with
  | zero => intro d _ h; omega
  | succ n ih =>
    intro d hs h
    unfold step5
    simp only
    split
    · exact ⟨_, rfl⟩
    · rename_i hnd
      have hl := step5Pass_length (dis := dis) (getBlocks d) d true hs (getBlocks_endsOK d d hs (fun _ h => h))
      have hlt := hl.2 (by simpa using hnd)
      simp at hlt
      exact ih _ (step5Pass_sorted _ _ _ hs) (by omega)

end SnaCtl
