import SkoolVerif.Proofs.RzxPlayLemmas
/-!
The block loop of `rzxplay.run` (`playFile`): playback flag 4 ("ignore snapshots after the first")
makes no difference when every later snapshot describes the state the playback has reached.
-/
namespace Rzx
open Z80
variable {μ : Type} [MemLike μ]

/-- flags 0..3 with bit 2 added select the same end-of-frame rule -/
theorem boundaryK_flag4 (cmio : Bool) (flags : Int) (hf : flags = 0 ∨ flags = 1 ∨ flags = 2 ∨ flags = 3)
    (k : Last) (n : Int) (s : St μ) : boundaryK cmio (flags + 4) k n s = boundaryK cmio flags k n s := by
  rcases hf with rfl | rfl | rfl | rfl <;> rfl

theorem playG_flag4 (impl : Impl) (cmio : Bool) (flags : Int) (hf : flags = 0 ∨ flags = 1 ∨ flags = 2 ∨ flags = 3)
    (step : St μ → St μ) (stop : Option Nat) (nxt : Int) (fs : List Frame) (cnt : Nat) (s : St μ) :
    playG impl cmio (flags + 4) step stop nxt fs cnt s = playG impl cmio flags step stop nxt fs cnt s := by
  induction fs generalizing cnt s with
  | nil => rfl
  | cons f rest ih =>
    simp only [playG, boundary, boundaryK_flag4 cmio flags hf, ih]

/-- every snapshot block after the first describes (up to `E`) the state playback has reached when it
comes up - followed along the run that *ignores* those snapshots -/
def Faithful (E : St μ → St μ → Prop) (impl : Impl) (cmio : Bool) (flags : Int) (step : St μ → St μ) (stop : Option Nat) :
    List (Block μ) → Ctx μ → Prop
  | [], _ => True
  | .snap s :: rest, c =>
    match c.snapshot with
    | none => Faithful E impl cmio flags step stop rest { c with snapshot := some s, sim := none }
    | some _ => (∃ cur, c.eff = some cur ∧ E cur s) ∧ Faithful E impl cmio flags step stop rest c
  | .input ts fs :: rest, c =>
    match c.start ts with
    | none => True
    | some s0 =>
      match playBlock impl cmio flags step stop fs c.count s0 with
      | .ok (.finished s n) => Faithful E impl cmio flags step stop rest { c with sim := some s, count := n }
      | _ => True

/-- two contexts that will start the next input block from `E`-related states -/
def RelCtx (E : St μ → St μ → Prop) (a b : Ctx μ) : Prop :=
  a.count = b.count ∧ (a.snapshot.isSome ↔ b.snapshot.isSome) ∧
    match a.eff, b.eff with
    | some x, some y => E x y
    | none, none => True
    | _, _ => False

def RelFile (E : St μ → St μ → Prop) : FileOutcome μ → FileOutcome μ → Prop
  | .finished a, .finished b => RelCtx E a b
  | .stopped s n r bl, .stopped s' n' r' bl' => E s s' ∧ n = n' ∧ r = r' ∧ bl.length = bl'.length
  | .missingSnapshot, .missingSnapshot => True
  | .error e, .error e' => e = e'
  | _, _ => False

/-- additional closure property of the relation: it ignores the clock -/
def IgnoresClock (E : St μ → St μ → Prop) : Prop :=
  ∀ s s' (x y : Int), E s s' → E { s with t := x } { s' with t := y }

theorem snapEq_ignoresClock : IgnoresClock (SnapEq (μ := μ)) := fun _ _ _ _ h => h
theorem clockEq_ignoresClock : IgnoresClock (ClockEq (μ := μ)) := fun _ _ _ _ h => h

variable (impl : Impl) (cmio : Bool) (flags : Int) (step : St μ → St μ) {E : St μ → St μ → Prop}

theorem start_rel (hT : IgnoresClock E) (a b : Ctx μ) (ts : Int) (hab : RelCtx E a b) :
    match a.start ts, b.start ts with
    | some x, some y => E x y
    | none, none => True
    | _, _ => False := by
  obtain ⟨_, _, heff⟩ := hab
  unfold Ctx.eff at heff
  unfold Ctx.start
  cases ha : a.sim with
  | some x =>
    cases hb : b.sim with
    | some y => simp only [ha, hb] at heff ⊢; exact heff
    | none =>
      cases hsb : b.snapshot with
      | none => simp only [ha, hb, hsb] at heff
      | some y => simp only [ha, hb, hsb, Option.map] at heff ⊢; exact hT x y x.t ts heff
  | none =>
    cases hsa : a.snapshot with
    | none =>
      cases hb : b.sim with
      | some y => simp only [ha, hb, hsa] at heff
      | none =>
        cases hsb : b.snapshot with
        | none => simp only [ha, hb, hsa, hsb, Option.map]
        | some y => simp only [ha, hb, hsa, hsb] at heff
    | some x =>
      cases hb : b.sim with
      | some y => simp only [ha, hb, hsa, Option.map] at heff ⊢; exact hT x y ts y.t heff
      | none =>
        cases hsb : b.snapshot with
        | none => simp only [ha, hb, hsa, hsb] at heff
        | some y => simp only [ha, hb, hsa, hsb, Option.map] at heff ⊢; exact hT x y ts ts heff

/-- **Playback flag 4.**  Ignoring the snapshots after the first one (`flags + 4`) and loading them
(`flags`) give the same playback - same errors, same stop, `E`-related states - provided each of those
snapshots describes, up to `E`, the state reached when it comes up. -/
theorem playFile_flag4 (hf : flags = 0 ∨ flags = 1 ∨ flags = 2 ∨ flags = 3)
    (hE : RelOk cmio flags E) (hR : ∀ s, E s s) (hT : IgnoresClock E) (hc : StepCongE E step) (stop : Option Nat)
    (blocks : List (Block μ)) (a b : Ctx μ) (hab : RelCtx E a b)
    (hfaith : Faithful E impl cmio flags step stop blocks a) :
    RelFile E (playFile impl cmio (flags + 4) step stop blocks a) (playFile impl cmio flags step stop blocks b) := by
  have h4 : PyInt.land (flags + 4) 4 ≠ 0 ∧ PyInt.land flags 4 = 0 := by
    rcases hf with rfl | rfl | rfl | rfl <;> decide
  induction blocks generalizing a b with
  | nil => exact hab
  | cons blk rest ih =>
    cases blk with
    | snap s =>
      simp only [playFile, h4.2, h4.1, or_true, or_false, if_true]
      obtain ⟨hcnt, hsn, heff⟩ := hab
      cases hsa : a.snapshot with
      | none =>
        simp only [Option.isNone_none, if_true]
        simp only [Faithful, hsa] at hfaith
        exact ih _ _ ⟨hcnt, by simp, by simp only [Ctx.eff]; exact hR s⟩ hfaith
      | some sa =>
        simp only [Option.isNone_some, Bool.false_eq_true, if_false]
        simp only [Faithful, hsa] at hfaith
        obtain ⟨⟨cur, hcur, hEs⟩, hrest⟩ := hfaith
        refine ih _ _ ⟨hcnt, by simp [hsa], ?_⟩ hrest
        rw [hcur]
        exact hEs
    | input ts fs =>
      have hst := start_rel hT a b ts hab
      simp only [playFile]
      simp only [Faithful] at hfaith
      cases hsa : a.start ts with
      | none =>
        cases hsb : b.start ts with
        | none => trivial
        | some y => rw [hsa, hsb] at hst; exact hst.elim
      | some x =>
        cases hsb : b.start ts with
        | none => rw [hsa, hsb] at hst; exact hst.elim
        | some y =>
          rw [hsa, hsb] at hst
          simp only [hsa] at hfaith
          simp only []
          have hcnt : a.count = b.count := hab.1
          have hrel := playG_congE impl cmio flags step hE hc stop (-1) fs a.count x y hst
          unfold playBlock
          rw [playG_flag4 impl cmio flags hf, ← hcnt]
          unfold playBlock at hfaith
          revert hrel hfaith
          cases playG impl cmio flags step stop (-1) fs a.count x <;>
            cases playG impl cmio flags step stop (-1) fs a.count y <;> simp only [RelRes] <;> intro hfaith hrel
          · exact hrel
          · exact hrel.elim
          · exact hrel.elim
          · rename_i oa ob
            cases oa <;> cases ob <;> simp only [RelOutE] at hrel
            · exact ih _ _ ⟨hrel.2, hab.2.1, by simp only [Ctx.eff]; exact hrel.1⟩ hfaith
            · exact ⟨hrel.1, hrel.2.1, hrel.2.2, rfl⟩

end Rzx
