import SkoolVerif.Proofs.MachineLemmas
/-! The two concrete memories (48K list, 128K `pagingtracer.Memory` + tracer) are lawful. -/
namespace Z80

def Byte (v : Int) : Prop := 0 ≤ v ∧ v < 256
def Word (v : Int) : Prop := 0 ≤ v ∧ v < 65536

/-- Cell-range law: `ok m` says every *physical* cell of the memory (all banks and ROMs, paged in or
not) is a byte; reads then return bytes, and byte writes and port writes preserve it. -/
class CellMem (μ : Type) [MemLike μ] where
  ok : μ → Prop
  ok_get : ∀ (m : μ) (a : Int), ok m → Byte (MemLike.get m a)
  ok_set : ∀ (m : μ) (a v : Int), ok m → Byte v → ok (MemLike.set m a v)
  ok_portOut : ∀ (m : μ) (p v : Int), ok m → ok (MemLike.portOut m p v)

/-! ### 48K -/

def Mem48.rom (m : Mem48) : Nat → Int := fun a => if a < 16384 then m.cells.getD a 0 else 0

instance : RomMem Mem48 (Nat → Int) where
  romView := Mem48.rom
  romView_set := by
    intro m a v h
    funext b
    simp only [Mem48.rom, MemLike.set]
    have h0 : (0 : Int) ≤ a := by omega
    simp only [h0, if_true]
    split
    · rename_i hb
      have : a.toNat ≠ b := by omega
      simp [Array.getD_eq_getD_getElem?, Array.getElem?_setIfInBounds, this]
    · rfl
  romView_portOut := by intro m p v; rfl

/-! ### 128K -/

instance : RomMem Mem128 (Array (Array Int)) where
  romView m := m.roms
  romView_set := by
    intro m a v h
    simp only [MemLike.set, Mem128.set, Mem128.slot]
    have hq : ¬ (a / 16384 = 0) := by omega
    simp only [hq, if_false]
    split <;> (try split) <;> simp_all
  romView_portOut := by
    intro m p v
    simp only [MemLike.portOut, Mem128.portOut]
    split <;> rfl


/-! ### cell ranges -/

theorem getD_byte (a : Array Int) (h : ∀ x ∈ a, Byte x) (i : Nat) : Byte (a.getD i 0) := by
  unfold Array.getD; split
  · exact h _ (Array.getElem_mem _)
  · unfold Byte; omega

theorem setIfInBounds_byte (a : Array Int) (h : ∀ x ∈ a, Byte x) (i : Nat) (v : Int) (hv : Byte v) :
    ∀ x ∈ a.setIfInBounds i v, Byte x := by
  intro x hx
  rcases Array.mem_or_eq_of_mem_setIfInBounds hx with h1 | h1
  · exact h x h1
  · exact h1 ▸ hv

instance : CellMem Mem48 where
  ok m := ∀ x ∈ m.cells, Byte x
  ok_get := by intro m a h; exact getD_byte _ h _
  ok_set := by
    intro m a v h hv
    simp only [MemLike.set]; split
    · exact setIfInBounds_byte _ h _ _ hv
    · exact h
  ok_portOut := by intro m p v h; exact h

def Mem128.physOk (m : Mem128) : Prop :=
  (∀ b ∈ m.banks, ∀ x ∈ b, Byte x) ∧ (∀ r ∈ m.roms, ∀ x ∈ r, Byte x)

theorem getD2_byte (aa : Array (Array Int)) (h : ∀ b ∈ aa, ∀ x ∈ b, Byte x) (i j : Nat) :
    Byte ((aa.getD i #[]).getD j 0) := by
  apply getD_byte
  unfold Array.getD; split
  · exact h _ (Array.getElem_mem _)
  · intro x hx; simp at hx

theorem set2_byte (aa : Array (Array Int)) (h : ∀ b ∈ aa, ∀ x ∈ b, Byte x) (i j : Nat) (v : Int) (hv : Byte v) :
    ∀ b ∈ aa.setIfInBounds i ((aa.getD i #[]).setIfInBounds j v), ∀ x ∈ b, Byte x := by
  intro b hb
  rcases Array.mem_or_eq_of_mem_setIfInBounds hb with h1 | h1
  · exact h b h1
  · subst h1
    apply setIfInBounds_byte _ _ _ _ hv
    unfold Array.getD; split
    · exact h _ (Array.getElem_mem _)
    · intro x hx; simp at hx

instance : CellMem Mem128 where
  ok := Mem128.physOk
  ok_get := by
    intro m a h
    simp only [MemLike.get, Mem128.get]
    split
    · exact getD2_byte _ h.2 _ _
    · exact getD2_byte _ h.1 _ _
  ok_set := by
    intro m a v h hv
    simp only [MemLike.set, Mem128.set]
    split
    · exact ⟨h.1, set2_byte _ h.2 _ _ _ hv⟩
    · exact ⟨set2_byte _ h.1 _ _ _ hv, h.2⟩
  ok_portOut := by
    intro m p v h
    simp only [MemLike.portOut, Mem128.portOut]
    split <;> exact h

end Z80
