import SkoolVerif.Proofs.MachineLemmas
/-! The two concrete memories (48K list, 128K `pagingtracer.Memory` + tracer) are lawful. -/
namespace Z80

/-- Cell-range law: after a write every cell is either the written value or an old cell. -/
class CellMem (μ : Type) [MemLike μ] where
  get_set_cases : ∀ (m : μ) (a v b : Int), MemLike.get (MemLike.set m a v) b = v ∨
      ∃ b', MemLike.get (MemLike.set m a v) b = MemLike.get m b'
  get_portOut_cases : ∀ (m : μ) (p v b : Int), ∃ b', MemLike.get (MemLike.portOut m p v) b = MemLike.get m b' ∨
      MemLike.get (MemLike.portOut m p v) b = 0

/-! ### 48K -/

def Mem48.rom (m : Mem48) : Nat → Int := fun a => if a < 16384 then m.cells.getD a 0 else 0

instance : RomMem Mem48 (Nat → Int) where
  romView := Mem48.rom
  romView_set := by
    intro m a v h
    funext b
    simp only [Mem48.rom, MemLike.set]
    have h0 : (0 : Int) ≤ a := by omega
    simp only [h0, if_true]
    split
    · rename_i hb
      have : a.toNat ≠ b := by omega
      simp [Array.getD_eq_getD_getElem?, Array.getElem?_setIfInBounds, this]
    · rfl
  romView_portOut := by intro m p v; rfl

/-! ### 128K -/

instance : RomMem Mem128 (Array (Array Int)) where
  romView m := m.roms
  romView_set := by
    intro m a v h
    simp only [MemLike.set, Mem128.set, Mem128.slot]
    have hq : ¬ (a / 16384 = 0) := by omega
    simp only [hq, if_false]
    split <;> (try split) <;> simp_all
  romView_portOut := by
    intro m p v
    simp only [MemLike.portOut, Mem128.portOut]
    split <;> rfl

end Z80
