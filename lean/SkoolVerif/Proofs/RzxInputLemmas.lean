import SkoolVerif.Model.RzxInput
/-!
Lemmas about the RZX input-recording frame stream (`Model/RzxInput.lean`): indexing into an
appended stream, the generalised round-trip invariants (arbitrary prefix `pre` already consumed,
arbitrary suffix `post` never touched), and the agreement of the two readers in the repository.
-/
namespace RzxInput

instance instDecEqExcept {ε α : Type} [DecidableEq ε] [DecidableEq α] : DecidableEq (Except ε α)
  | .ok a, .ok b => if h : a = b then isTrue (by rw [h]) else isFalse (fun e => h (by cases e; rfl))
  | .error a, .error b => if h : a = b then isTrue (by rw [h]) else isFalse (fun e => h (by cases e; rfl))
  | .ok _, .error _ => isFalse (fun e => by cases e)
  | .error _, .ok _ => isFalse (fun e => by cases e)

/-- Well-formed frame for the writer: both counters fit their two-byte fields and the IN counter
is not the marker value. -/
def Frame.Ok (f : Frame) : Prop := f.fetch < 65536 ∧ f.ins.length < 65535

def FramesOk (fs : List Frame) : Prop := ∀ f ∈ fs, f.Ok

theorem FramesOk.cons {f : Frame} {fs : List Frame} (h : FramesOk (f :: fs)) : f.Ok ∧ FramesOk fs :=
  ⟨h f (by simp), fun g hg => h g (by simp [hg])⟩

theorem getElem?_mid (pre x post : List Nat) (i : Nat) (hi : i < x.length) :
    (pre ++ (x ++ post))[pre.length + i]? = x[i]? := by
  rw [List.getElem?_append_right (by omega)]
  simp only [Nat.add_sub_cancel_left]
  rw [List.getElem?_append_left hi]

theorem getWord_mid (pre x post : List Nat) (i : Nat) (hi : i + 1 < x.length) :
    getWord (pre ++ (x ++ post)) (pre.length + i) = getWord x i := by
  unfold getWord
  rw [getElem?_mid pre x post i (by omega)]
  have : pre.length + i + 1 = pre.length + (i + 1) := by omega
  rw [this, getElem?_mid pre x post (i + 1) hi]

theorem getWord_head4 (a b c d : Nat) (rest : List Nat) :
    getWord (a :: b :: c :: d :: rest) 0 = some (a + 256 * b) ∧
    getWord (a :: b :: c :: d :: rest) 2 = some (c + 256 * d) := by
  simp [getWord]

theorem slice_mid (pre x post : List Nat) :
    slice (pre ++ (x ++ post)) pre.length (pre.length + x.length) = x := by
  unfold slice
  rw [List.drop_append_of_le_length (by omega)]
  simp

/-- words at the start of an explicit frame record -/
theorem getWord_writeFrame (pre post : List Nat) (f : Frame) :
    getWord (pre ++ (writeFrame f ++ post)) pre.length = some f.fetch ∧
    getWord (pre ++ (writeFrame f ++ post)) (pre.length + 2) = some f.ins.length := by
  have h0 := getWord_mid pre (writeFrame f) post 0 (by simp [writeFrame])
  have h2 := getWord_mid pre (writeFrame f) post 2 (by simp [writeFrame])
  simp only [Nat.add_zero] at h0
  rw [h0, h2]
  have := getWord_head4 (f.fetch % 256) (f.fetch / 256) (f.ins.length % 256) (f.ins.length / 256) f.ins
  simp only [writeFrame, List.cons_append, List.nil_append]
  rw [this.1, this.2]
  constructor <;> congr 1 <;> omega

theorem slice_writeFrame (pre post : List Nat) (f : Frame) :
    slice (pre ++ (writeFrame f ++ post)) (pre.length + 4) (pre.length + 4 + f.ins.length) = f.ins := by
  have h := slice_mid (pre ++ [f.fetch % 256, f.fetch / 256, f.ins.length % 256, f.ins.length / 256]) f.ins post
  simp only [List.length_append, List.length_cons, List.length_nil] at h
  simpa [writeFrame, List.append_assoc] using h

theorem writeFrame_length (f : Frame) : (writeFrame f).length = 4 + f.ins.length := by
  simp [writeFrame]; omega

/-- Generalised round trip of `write_rzx` → `parse_rzx`: with `pre` already consumed (`j = |pre|`),
whatever `start`/`end` currently are, and whatever follows. -/
theorem parseLoop_writeFrames (fs : List Frame) (hok : FramesOk fs) (pre post : List Nat) (st en : Nat) :
    ∃ ixs, parseLoop (pre ++ (writeFrames fs ++ post)) fs.length pre.length st en = .ok ixs ∧
      ixs.map (fun f => Frame.mk f.fetch (readings (pre ++ (writeFrames fs ++ post)) f)) = fs := by
  induction fs generalizing pre st en with
  | nil => exact ⟨[], by simp [parseLoop], rfl⟩
  | cons f rest ih =>
    obtain ⟨hf, hrest⟩ := hok.cons
    have hd : pre ++ (writeFrames (f :: rest) ++ post) = pre ++ (writeFrame f ++ (writeFrames rest ++ post)) := by
      simp [writeFrames, List.append_assoc]
    have hd2 : pre ++ (writeFrame f ++ (writeFrames rest ++ post)) = (pre ++ writeFrame f) ++ (writeFrames rest ++ post) := by
      simp [List.append_assoc]
    obtain ⟨w0, w2⟩ := getWord_writeFrame pre (writeFrames rest ++ post) f
    obtain ⟨ixs, hp, hm⟩ := ih hrest (pre ++ writeFrame f) (pre.length + 4) (pre.length + 4 + f.ins.length)
    have hlen : (pre ++ writeFrame f).length = pre.length + 4 + f.ins.length := by
      simp [writeFrame_length]; omega
    rw [hlen, ← hd2] at hp
    rw [← hd2] at hm
    refine ⟨⟨f.fetch, pre.length + 4, pre.length + 4 + f.ins.length⟩ :: ixs, ?_, ?_⟩
    · rw [hd]
      simp only [List.length_cons, parseLoop, w0, w2]
      have : f.ins.length ≠ 65535 := by have := hf.2; omega
      simp only [this, if_false, hp]
    · rw [hd, List.map_cons, hm]
      simp only [readings]
      rw [slice_writeFrame]

/-- The same for the recorder that uses the repeated-frame marker.  Invariant: the reader's
current `(start, end)` delimit the previous frame's readings `prev`. -/
theorem parseLoop_writeRep (fs : List Frame) (hok : FramesOk fs) (pre post prev : List Nat) (st en : Nat)
    (hprev : ∀ post', slice (pre ++ post') st en = prev) (hen : en ≤ pre.length) :
    ∃ ixs, parseLoop (pre ++ (writeRep prev fs ++ post)) fs.length pre.length st en = .ok ixs ∧
      ixs.map (fun f => Frame.mk f.fetch (readings (pre ++ (writeRep prev fs ++ post)) f)) = fs := by
  induction fs generalizing pre prev st en with
  | nil => exact ⟨[], by simp [parseLoop], rfl⟩
  | cons f rest ih =>
    obtain ⟨hf, hrest⟩ := hok.cons
    by_cases hrep : f.ins = prev
    · -- marker record
      have hd : pre ++ (writeRep prev (f :: rest) ++ post) =
          pre ++ ([f.fetch % 256, f.fetch / 256, 255, 255] ++ (writeRep prev rest ++ post)) := by
        simp [writeRep, hrep]
      have hd2 : pre ++ ([f.fetch % 256, f.fetch / 256, 255, 255] ++ (writeRep prev rest ++ post)) =
          (pre ++ [f.fetch % 256, f.fetch / 256, 255, 255]) ++ (writeRep prev rest ++ post) := by
        simp [List.append_assoc]
      have hw := getWord_head4 (f.fetch % 256) (f.fetch / 256) 255 255 []
      have w0 : getWord (pre ++ ([f.fetch % 256, f.fetch / 256, 255, 255] ++ (writeRep prev rest ++ post))) pre.length
          = some f.fetch := by
        have h := getWord_mid pre [f.fetch % 256, f.fetch / 256, 255, 255] (writeRep prev rest ++ post) 0 (by simp)
        simp only [Nat.add_zero] at h
        rw [h, hw.1]; congr 1; omega
      have w2 : getWord (pre ++ ([f.fetch % 256, f.fetch / 256, 255, 255] ++ (writeRep prev rest ++ post))) (pre.length + 2)
          = some 65535 := by
        rw [getWord_mid pre [f.fetch % 256, f.fetch / 256, 255, 255] (writeRep prev rest ++ post) 2 (by simp), hw.2]
      have hprev' : ∀ post', slice ((pre ++ [f.fetch % 256, f.fetch / 256, 255, 255]) ++ post') st en = prev := by
        intro post'; rw [List.append_assoc]; exact hprev _
      obtain ⟨ixs, hp, hm⟩ := ih hrest (pre ++ [f.fetch % 256, f.fetch / 256, 255, 255]) prev st en hprev'
        (by simp; omega)
      have hlen : (pre ++ [f.fetch % 256, f.fetch / 256, 255, 255]).length = pre.length + 4 := by simp
      rw [hlen, ← hd2] at hp
      rw [← hd2] at hm
      refine ⟨⟨f.fetch, st, en⟩ :: ixs, ?_, ?_⟩
      · rw [hd]
        simp only [List.length_cons, parseLoop, w0, w2, if_true, hp]
      · rw [hd, List.map_cons, hm]
        simp only [readings]
        rw [hprev, ← hrep]
    · -- explicit record
      have hd : pre ++ (writeRep prev (f :: rest) ++ post) = pre ++ (writeFrame f ++ (writeRep f.ins rest ++ post)) := by
        simp [writeRep, hrep, List.append_assoc]
      have hd2 : pre ++ (writeFrame f ++ (writeRep f.ins rest ++ post)) = (pre ++ writeFrame f) ++ (writeRep f.ins rest ++ post) := by
        simp [List.append_assoc]
      obtain ⟨w0, w2⟩ := getWord_writeFrame pre (writeRep f.ins rest ++ post) f
      have hlen : (pre ++ writeFrame f).length = pre.length + 4 + f.ins.length := by
        simp [writeFrame_length]; omega
      have hprev' : ∀ post', slice ((pre ++ writeFrame f) ++ post') (pre.length + 4) (pre.length + 4 + f.ins.length) = f.ins := by
        intro post'; rw [List.append_assoc]; exact slice_writeFrame pre post' f
      obtain ⟨ixs, hp, hm⟩ := ih hrest (pre ++ writeFrame f) f.ins (pre.length + 4) (pre.length + 4 + f.ins.length)
        hprev' (by omega)
      rw [hlen, ← hd2] at hp
      rw [← hd2] at hm
      refine ⟨⟨f.fetch, pre.length + 4, pre.length + 4 + f.ins.length⟩ :: ixs, ?_, ?_⟩
      · rw [hd]
        simp only [List.length_cons, parseLoop, w0, w2]
        have : f.ins.length ≠ 65535 := by have := hf.2; omega
        simp only [this, if_false, hp]
      · rw [hd, List.map_cons, hm]
        simp only [readings]
        rw [slice_writeFrame]

def InfoRow.view (r : InfoRow) : Nat × Nat × List Nat × Bool := (r.fetch, r.count, r.shown, r.more)

/-- what `rzxinfo` should show for a frame that `rzxplay` plays with readings `data[start:end]` -/
def FrameIx.view (d : List Nat) (f : FrameIx) : Nat × Nat × List Nat × Bool :=
  (f.fetch, (readings d f).length, (readings d f).take 10, decide ((readings d f).length > 10))

/-- `rzxinfo`'s loop and `rzxplay`'s loop walk the stream identically: invariant
`port_readings = data[start:end]`. -/
theorem infoLoop_eq_parseLoop (d : List Nat) (n j st en : Nat) (pr : List Nat) (hpr : pr = slice d st en) :
    match infoLoop d n j pr, parseLoop d n j st en with
    | .ok rs, .ok ixs => rs.map InfoRow.view = ixs.map (FrameIx.view d)
    | .error _, .error _ => True
    | _, _ => False := by
  induction n generalizing j st en pr with
  | zero => simp [infoLoop, parseLoop]
  | succ n ih =>
    simp only [infoLoop, parseLoop]
    cases h0 : getWord d j <;> cases h2 : getWord d (j + 2) <;> simp only []
    rename_i fc ic
    by_cases hic : ic = 65535
    · simp only [hic, if_true]
      have := ih (j + 4) st en pr hpr
      revert this
      cases infoLoop d n (j + 4) pr <;> cases parseLoop d n (j + 4) st en <;> simp only [] <;> intro this <;>
        first
        | exact this
        | (rw [List.map_cons, List.map_cons, this]; simp [InfoRow.view, FrameIx.view, infoRow, readings, hpr])
    · simp only [hic, if_false]
      have := ih (j + 4 + ic) (j + 4) (j + 4 + ic) (slice d (j + 4) (j + 4 + ic)) rfl
      revert this
      cases infoLoop d n (j + 4 + ic) (slice d (j + 4) (j + 4 + ic)) <;>
        cases parseLoop d n (j + 4 + ic) (j + 4) (j + 4 + ic) <;> simp only [] <;> intro this <;>
        first
        | exact this
        | (rw [List.map_cons, List.map_cons, this]; simp [InfoRow.view, FrameIx.view, infoRow, readings])

end RzxInput
