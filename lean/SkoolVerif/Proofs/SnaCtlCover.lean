import SkoolVerif.Proofs.SnaCtlNoMap
/-!
`read_map`: the code blocks it returns cover every executed address it was given.
-/
namespace SnaCtl

def InBlock (b : Nat × Nat) (a : Nat) : Prop := b.1 ≤ a ∧ a < b.1 + b.2

theorem codeBlockStep_cover {dec : Dec} (hs : SizesPos dec) (bs : List (Nat × Nat)) (a : Nat) (seen : List Nat)
    (hcov : ∀ p ∈ seen, ∃ b ∈ bs, InBlock b p) (hfst : ∀ b ∈ bs, b.1 ∈ seen) (hle : ∀ p ∈ seen, p ≤ a) :
    (∀ p ∈ a :: seen, ∃ b ∈ codeBlockStep dec bs a, InBlock b p) ∧
    (∀ b ∈ codeBlockStep dec bs a, b.1 ∈ a :: seen) := by
  unfold codeBlockStep
  split
  · rename_i ba bl r
    have hba : ba ≤ a := hle ba (hfst (ba, bl) (by simp))
    split
    · split
      · rename_i h1 h2
        have hsz := hs a
        constructor
        · intro p hp
          simp at hp
          rcases hp with rfl | hp
          · exact ⟨(ba, bl + (dec p).size), by simp, by simp [InBlock]; omega⟩
          · obtain ⟨b, hb, hin⟩ := hcov p hp
            simp at hb
            rcases hb with rfl | hb
            · exact ⟨(ba, bl + (dec a).size), by simp, by simp [InBlock] at hin ⊢; omega⟩
            · exact ⟨b, by simp [hb], hin⟩
        · intro b hb
          simp at hb
          rcases hb with rfl | hb
          · simp; right; exact hfst (ba, bl) (by simp)
          · simp; right; exact hfst b (by simp [hb])
      · rename_i h1 h2
        constructor
        · intro p hp
          simp at hp
          rcases hp with rfl | hp
          · exact ⟨(ba, bl), by simp, by simp [InBlock]; omega⟩
          · exact hcov p hp
        · intro b hb; simp; right; exact hfst b hb
    · constructor
      · intro p hp
        have hsz := hs a
        simp at hp
        rcases hp with rfl | hp
        · exact ⟨(p, (dec p).size), by simp, by simp [InBlock]; omega⟩
        · obtain ⟨b, hb, hin⟩ := hcov p hp
          exact ⟨b, by simp at hb ⊢; right; exact hb, hin⟩
      · intro b hb
        simp at hb
        rcases hb with rfl | hb
        · simp
        · simp; right; exact hfst b (by simpa using hb)
  · have hsz := hs a
    constructor
    · intro p hp
      simp at hp
      rcases hp with rfl | hp
      · exact ⟨(p, (dec p).size), by simp, by simp [InBlock]; omega⟩
      · obtain ⟨b, hb, _⟩ := hcov p hp; simp at hb
    · intro b hb; simp at hb; subst hb; simp

theorem codeBlocks_fold_cover {dec : Dec} (hs : SizesPos dec) :
    ∀ (addrs : List Nat) (bs : List (Nat × Nat)) (seen : List Nat),
      (∀ p ∈ seen, ∃ b ∈ bs, InBlock b p) → (∀ b ∈ bs, b.1 ∈ seen) →
      (∀ p ∈ seen, ∀ a ∈ addrs, p ≤ a) → addrs.Pairwise (· ≤ ·) →
      ∀ p, (p ∈ seen ∨ p ∈ addrs) → ∃ b ∈ addrs.foldl (codeBlockStep dec) bs, InBlock b p := by
  intro addrs
  induction addrs with
  | nil => intro bs seen hcov _ _ _ p hp; simp at hp; exact hcov p hp
  | cons a r ih =>
    intro bs seen hcov hfst hle hsort p hp
    rw [List.pairwise_cons] at hsort
    have hstep := codeBlockStep_cover hs bs a seen hcov hfst (fun q hq => hle q hq a (by simp))
    simp only [List.foldl_cons]
    apply ih (codeBlockStep dec bs a) (a :: seen) hstep.1 hstep.2 _ hsort.2
    · simp at hp ⊢
      rcases hp with hp | rfl | hp
      · exact Or.inl (Or.inr hp)
      · exact Or.inl (Or.inl rfl)
      · exact Or.inr hp
    · intro q hq x hx
      simp at hq
      rcases hq with rfl | hq
      · exact hsort.1 x hx
      · exact hle q hq x (by simp [hx])

/-- `read_map`: every executed address lies inside one of the returned `[address, length]` blocks. -/
theorem codeBlocks_cover {dec : Dec} (hs : SizesPos dec) (addrs : List Nat) (hsort : addrs.Pairwise (· ≤ ·)) :
    ∀ a ∈ addrs, ∃ b ∈ codeBlocks dec addrs, InBlock b a := by
  intro a ha
  obtain ⟨b, hb, hin⟩ := codeBlocks_fold_cover hs addrs [] [] (by simp) (by simp) (by simp) hsort a (Or.inr ha)
  exact ⟨b, by unfold codeBlocks; simpa using hb, hin⟩

end SnaCtl
