import SkoolVerif.Proofs.TableRanges
import SkoolVerif.Prelude.Machine
/-!
The range invariant `RInv` of the simulator state and the lemma set used by the generic
`rinv_tac` tactic that proves its preservation handler by handler (`Gen/SimRangeThms.lean`).
-/
namespace Z80
open TableRanges AluCheck

variable {μ : Type} [MemLike μ] [CellMem μ]

/-- Every 8-bit register in 0..255, SP/PC/MEMPTR in 0..65535, IFF ∈ {0,1}, IM ∈ {0,1,2},
HALT ∈ {0,1}, T ≥ 0, every memory cell a byte, every pending port reading a byte. -/
structure RInv (s : St μ) : Prop where
  regs : RegsOk s.reg
  mem : MemOk s.mem
  pc : Word s.pc
  t : 0 ≤ s.t
  iff : s.iff = 0 ∨ s.iff = 1
  im : 0 ≤ s.im ∧ s.im ≤ 2
  halt : s.halt = 0 ∨ s.halt = 1
  memptr : Word s.memptr
  ins : ∀ v ∈ s.ins, Byte v

theorem MemOk_mset {m : μ} (h : MemOk m) (a v : Int) (hv : Byte v) : MemOk (mset m a v) :=
  CellMem.ok_set m a v h hv

theorem MemOk.byte {m : μ} (h : MemOk m) (a : Int) : Byte (mget m a) := CellMem.ok_get m a h

theorem MemOk_portOut {m : μ} (h : MemOk m) (p v : Int) : MemOk (MemLike.portOut m p v) :=
  CellMem.ok_portOut m p v h

theorem readPort_byte (ins : List Int) (h : ∀ v ∈ ins, Byte v) :
    Byte (readPort ins).1 ∧ ∀ v ∈ (readPort ins).2, Byte v := by
  cases ins with
  | nil => simp [readPort, Byte]
  | cons a l => simp only [readPort]; exact ⟨h a (by simp), fun v hv => h v (by simp [hv])⟩

theorem land_bounds (x m : Int) (hm : 0 ≤ m) : 0 ≤ PyInt.land x m ∧ PyInt.land x m ≤ m := by
  cases x with
  | ofNat a =>
    cases m with
    | ofNat b =>
      simp only [PyInt.land, Int.ofNat_eq_natCast]
      have : a &&& b ≤ b := Nat.and_le_right
      omega
    | negSucc b => simp at hm
  | negSucc a =>
    cases m with
    | ofNat b =>
      simp only [PyInt.land, Int.ofNat_eq_natCast]
      have : b &&& a ≤ b := Nat.and_le_left
      omega
    | negSucc b => simp at hm

theorem lor_byte (a b : Int) (ha : Byte a) (hb : Byte b) : Byte (PyInt.lor a b) := by
  obtain ⟨a0, a1⟩ := ha; obtain ⟨b0, b1⟩ := hb
  cases a with
  | negSucc _ => simp at a0
  | ofNat x =>
    cases b with
    | negSucc _ => simp at b0
    | ofNat y =>
      simp only [PyInt.lor, Int.ofNat_eq_natCast] at *
      have : x ||| y < 2 ^ 8 := Nat.or_lt_two_pow (by omega) (by omega)
      unfold Byte; omega

theorem xor_byte (a b : Int) (ha : Byte a) (hb : Byte b) : Byte (PyInt.xor a b) := by
  obtain ⟨a0, a1⟩ := ha; obtain ⟨b0, b1⟩ := hb
  cases a with
  | negSucc _ => simp at a0
  | ofNat x =>
    cases b with
    | negSucc _ => simp at b0
    | ofNat y =>
      simp only [PyInt.xor, Int.ofNat_eq_natCast] at *
      have : x ^^^ y < 2 ^ 8 := Nat.xor_lt_two_pow (by omega) (by omega)
      unfold Byte; omega

theorem p2i_cases (p : Prop) [Decidable p] : PyInt.p2i p = 0 ∨ PyInt.p2i p = 1 := by
  unfold PyInt.p2i; split <;> simp

theorem R1_byte (x : Int) (hx : Byte x) : Byte (Tbl.R1 x) := (R1_spec x hx).2
theorem R2_byte (x : Int) (hx : Byte x) : Byte (Tbl.R2 x) := (R2_spec x hx).2

/-- `SZ53P` never has bit 0 set (so adding the carry flag stays a byte). -/
theorem SZ53P_even_all : allLt 256 (fun v => decide (Tbl.SZ53P (v : Int) % 2 = 0 ∧ Tbl.SZ53P (v : Int) ≤ 254)) = true := by
  decide +kernel
theorem SZ53P_even (x : Int) (hx : Byte x) : 0 ≤ Tbl.SZ53P x ∧ Tbl.SZ53P x ≤ 254 := by
  have := allLt_spec SZ53P_even_all x.toNat (by unfold Byte at hx; omega)
  have e : ((x.toNat : Nat) : Int) = x := by unfold Byte at hx; omega
  simp only [e, decide_eq_true_eq] at this
  have := (SZ53P_spec x hx).2
  unfold Byte at this; omega

/-- `PARITY` is 0 or 4. -/
theorem PARITY_le_all : allLt 256 (fun v => decide (Tbl.PARITY (v : Int) = 0 ∨ Tbl.PARITY (v : Int) = 4)) = true := by
  decide +kernel
theorem PARITY_le (x : Int) (hx : Byte x) : Tbl.PARITY x = 0 ∨ Tbl.PARITY x = 4 := by
  have := allLt_spec PARITY_le_all x.toNat (by unfold Byte at hx; omega)
  have e : ((x.toNat : Nat) : Int) = x := by unfold Byte at hx; omega
  simpa only [e, decide_eq_true_eq] using this

end Z80
