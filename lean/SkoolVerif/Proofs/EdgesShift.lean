import SkoolVerif.Proofs.EdgesLemmas
/-!
`first_edge` only translates the result of `get_edges` in time.
-/
namespace Edges
open EdgeSpec

def sh (k : Int) (e : List Int) : List Int := e.map (· + k)

/-- The loop state translated by `k` T-states. -/
def shiftSt (k : Int) (s : St) : St :=
  { s with edges := sh k s.edges, t := s.t + k, tail := s.tail + k }

theorem sh_length (k : Int) (e : List Int) : (sh k e).length = e.length := by simp [sh]

theorem sh_append (k : Int) (a b : List Int) : sh k (a ++ b) = sh k a ++ sh k b := by simp [sh]

theorem checkPolarity_sh (tp : Option Nat) (pol k : Int) (e : List Int) (t : Int) :
    checkPolarity tp pol (sh k e) (t + k) = sh k (checkPolarity tp pol e t) := by
  unfold checkPolarity
  cases tp with
  | none => rfl
  | some p =>
    simp only [sh_length]
    split
    · simp [sh]
    · rfl

theorem cumsum_sh (k t : Int) (ds : List Nat) : cumsum (t + k) ds = sh k (cumsum t ds) := by
  induction ds generalizing t with
  | nil => rfl
  | cons d ds ih =>
    simp only [cumsum, sh, List.map_cons]
    have : t + k + (d : Int) = t + d + k := by omega
    rw [this, ih]
    rfl

theorem emit_sh (k : Int) (ds : List Nat) (e : List Int) (t : Int) :
    emit ds (sh k e, t + k) = (sh k (emit ds (e, t)).1, (emit ds (e, t)).2 + k) := by
  rw [emit_eq, emit_eq, cumsum_sh, sh_append]
  simp only [Prod.mk.injEq, true_and]
  omega

theorem bumpLast_sh (k d : Int) (e : List Int) : bumpLast d (sh k e) = sh k (bumpLast d e) := by
  induction e with
  | nil => rfl
  | cons a r ih =>
    cases r with
    | nil => simp [sh, bumpLast]; omega
    | cons b r' =>
      simp only [sh, List.map_cons, bumpLast] at ih ⊢
      rw [ih]

def shiftM (k : Int) (s : MSt) : MSt := { s with edges := sh k s.edges, t := s.t + k }

theorem mergeStep_sh (k : Int) (s : MSt) (d : Nat) : mergeStep (shiftM k s) d = shiftM k (mergeStep s d) := by
  unfold mergeStep shiftM
  by_cases hd : d = 0
  · simp [hd]
  · by_cases hpq : s.p = s.q
    · simp [hd, hpq, sh]; omega
    · simp only [ne_eq, hd, not_false_eq_true, ↓reduceIte, hpq, bumpLast_sh]
      simp; omega

theorem mergeFold_sh (k : Int) (ds : List Nat) (s : MSt) :
    ds.foldl mergeStep (shiftM k s) = shiftM k (ds.foldl mergeStep s) := by
  induction ds generalizing s with
  | nil => rfl
  | cons d ds ih => simp only [List.foldl_cons, mergeStep_sh, ih]

theorem dataEdges_sh (k : Int) (tm : Timings) (data : List Nat) (e : List Int) (t : Int) :
    dataEdges tm data (sh k e, t + k) = (sh k (dataEdges tm data (e, t)).1, (dataEdges tm data (e, t)).2 + k) := by
  unfold dataEdges
  split
  · have := mergeFold_sh k (slowSeq tm.zero tm.one tm.usedBits data) ⟨e, t, 0, 0⟩
    simp only [shiftM] at this
    simp only [this]
  · exact emit_sh k _ e t

theorem pulsePhase_sh (k pol : Int) (b : Block) (s : St) :
    pulsePhase pol b (shiftSt k s) = shiftSt k (pulsePhase pol b s) := by
  unfold pulsePhase
  split
  · simp only [shiftSt, checkPolarity_sh, emit_sh]
  · rfl

theorem pausePhase_sh (k pol : Int) (l : Bool) (b : Block) (s : St) :
    pausePhase pol l b (shiftSt k s) = shiftSt k (pausePhase pol l b s) := by
  unfold pausePhase
  split
  · simp only [shiftSt, checkPolarity_sh]
    congr 1
    omega
  · rfl

theorem dataPhase_sh (k pol : Int) (l : Bool) (b : Block) (s : St) :
    dataPhase pol l b (shiftSt k s) = shiftSt k (dataPhase pol l b s) := by
  unfold dataPhase
  by_cases hd : b.data = []
  · simp only [hd, ne_eq, not_true_eq_false, ↓reduceIte]
    split
    · simp [shiftSt, sh_length]
    · rfl
  · simp only [ne_eq, hd, not_false_eq_true, ↓reduceIte, shiftSt, checkPolarity_sh, dataEdges_sh, sh_length]
    by_cases ht : b.timings.tail = 0
    · simp [ht, sh_length]
    · simp only [ht, ↓reduceIte, not_false_eq_true]
      simp only [sh_length, List.length_append, sh_append]
      simp [sh]
      omega

theorem stepBlock_sh (k pol : Int) (l : Bool) (b : Block) (s : St) :
    stepBlock pol l b (shiftSt k s) = shiftSt k (stepBlock pol l b s) := by
  unfold stepBlock
  have : setKeys b (shiftSt k s) = shiftSt k (setKeys b s) := rfl
  rw [this, pulsePhase_sh, dataPhase_sh, pausePhase_sh]

theorem runBlocks_sh (k pol : Int) (blocks : List Block) (s : St) :
    runBlocks pol blocks (shiftSt k s) = shiftSt k (runBlocks pol blocks s) := by
  induction blocks generalizing s with
  | nil => rfl
  | cons b rest ih =>
    cases rest with
    | nil => exact stepBlock_sh k pol true b s
    | cons b' rest' =>
      simp only [runBlocks]
      rw [stepBlock_sh, ih]

theorem initSt_sh (k fe pol : Int) : initSt (fe + k) pol = shiftSt k (initSt fe pol) := by
  unfold initSt shiftSt
  by_cases h : pol % 2 = 0
  · simp [h, sh]; omega
  · simp [h, sh]; omega

theorem finish_sh (k : Int) (s : St) : finish (shiftSt k s) = (sh k (finish s).1, (finish s).2) := by
  unfold finish shiftSt
  have h1 : (sh k s.edges).getLast? = some (s.tail + k) ↔ s.edges.getLast? = some s.tail := by
    simp only [sh, List.getLast?_map]
    cases s.edges.getLast? with
    | none => simp
    | some x => simp
  by_cases h : s.edges.getLast? = some s.tail
  · have h' := h1.2 h
    simp only [h', h, ↓reduceIte]
    simp [sh, List.map_dropLast]
  · have h' : ¬ (sh k s.edges).getLast? = some (s.tail + k) := fun hc => h (h1.1 hc)
    simp only [h', h, ↓reduceIte]

end Edges
