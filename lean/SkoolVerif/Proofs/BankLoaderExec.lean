import SkoolVerif.Proofs.LoaderSteps
import SkoolVerif.Model.Bin2Tap
import SkoolVerif.Spec.AluCheck
/-!
Symbolic execution of the 128K bank loader emitted by `bin2tap._get_bank_loader` in the generated
simulator model: one pass of its loop (page the bank named by the table entry, record it in BANKM,
set up LD-BYTES for 0xC000/0x4000, CALL 0x0556), the three instructions after the CALL returns,
and the final pass (end marker: page the requested 0x7FFD value and jump to START).
-/
open Z80 Sim LoaderSteps Bin2Tap AluCheck

namespace BankLoaderExec

variable {μ : Type} [MemLike μ]

/-- Laws of a 128K memory for a program that lives (code, stack, data it touches) below 0xC000
in RAM: stores and loads there behave like a list, a port write does not disturb them, and an
accepted write to port 0x7FFD is what `o7ffd` then reports.  (`pagingtracer.Memory` +
`PagingTracer.write_port` satisfy them: banks 5 and 2 are fixed at 0x4000/0x8000.) -/
class PagedMem (μ : Type) [MemLike μ] where
  ok : μ → Prop
  ok_set : ∀ (m : μ) (a v : Int), ok m → ok (mset m a v)
  ok_portOut : ∀ (m : μ) (p v : Int), ok m → ok (MemLike.portOut m p v)
  get_set : ∀ (m : μ) (a v b : Int), ok m → 16384 ≤ a → a < 49152 → 16384 ≤ b → b < 49152 →
    mget (mset m a v) b = if b = a then v else mget m b
  get_portOut : ∀ (m : μ) (p v b : Int), 16384 ≤ b → b < 49152 → mget (MemLike.portOut m p v) b = mget m b
  o7ffd_set : ∀ (m : μ) (a v : Int), MemLike.o7ffd (mset m a v) = MemLike.o7ffd m
  o7ffd_portOut : ∀ (m : μ) (v : Int), ok m → PyInt.land (MemLike.o7ffd m) 32 = 0 →
    MemLike.o7ffd (MemLike.portOut m 0x7FFD v) = v

variable [PagedMem μ]

theorem codeAt_mset (m : μ) (e : Int) (code : List Nat) (a v : Int) (hok : PagedMem.ok m)
    (h : CodeAt m e code) (he : 16384 ≤ e ∧ e + code.length ≤ 49152) (ha : 16384 ≤ a ∧ a < 49152)
    (hd : a < e ∨ e + code.length ≤ a) : CodeAt (mset m a v) e code := by
  intro k hk
  rw [PagedMem.get_set _ _ _ _ hok ha.1 ha.2 (by omega) (by omega), if_neg (by omega)]
  exact h k hk

theorem codeAt_portOut (m : μ) (e : Int) (code : List Nat) (p v : Int)
    (h : CodeAt m e code) (he : 16384 ≤ e ∧ e + code.length ≤ 49152) : CodeAt (MemLike.portOut m p v) e code := by
  intro k hk
  rw [PagedMem.get_portOut _ _ _ _ (by omega) (by omega)]
  exact h k hk

theorem pget_mset2 (m : μ) (hok : PagedMem.ok m) (a1 a2 v1 v2 b : Int)
    (h1 : 16384 ≤ a1 ∧ a1 < 49152) (h2 : 16384 ≤ a2 ∧ a2 < 49152) (hb : 16384 ≤ b ∧ b < 49152) :
    mget (mset (mset m a1 v1) a2 v2) b = if b = a2 then v2 else if b = a1 then v1 else mget m b := by
  rw [PagedMem.get_set _ _ _ _ (PagedMem.ok_set _ _ _ hok) h2.1 h2.2 hb.1 hb.2,
      PagedMem.get_set _ _ _ _ hok h1.1 h1.2 hb.1 hb.2]

/-- `BIT 7,r` sets Z exactly when bit 7 of the byte is clear, whatever the carry was. -/
theorem bit7_z_all : allLt 2 (fun c => allLt 256 (fun r =>
    decide (PyInt.land (Tbl.BIT (c : Int) 7 (r : Int)) 64 = 0) == decide (128 ≤ r))) = true := by
  decide +kernel

theorem bit7_z (c r : Int) (hc : 0 ≤ c ∧ c < 2) (hr : 0 ≤ r ∧ r < 256) :
    PyInt.land (Tbl.BIT c 7 r) 64 = 0 ↔ 128 ≤ r := by
  have h := allLt_spec (allLt_spec bit7_z_all c.toNat (by omega)) r.toNat (by omega)
  have ec : ((c.toNat : Nat) : Int) = c := by omega
  have er : ((r.toNat : Nat) : Int) = r := by omega
  simp only [ec, er, beq_iff_eq, decide_eq_decide] at h
  rw [h]; omega

/-- `AND 0x3F` on a byte -/
theorem and3f_all : allLt 256 (fun a => decide ((Tbl.AND (a : Int) 63).1 = ((a % 64 : Nat) : Int))) = true := by
  decide +kernel

theorem and3f (a : Int) (ha : 0 ≤ a ∧ a < 256) : (Tbl.AND a 63).1 = a % 64 := by
  have h := allLt_spec and3f_all a.toNat (by omega)
  have ea : ((a.toNat : Nat) : Int) = a := by omega
  simp only [ea, decide_eq_true_eq] at h
  rw [h]; omega

/-! ### no-wrap forms of the step lemmas (PC and operands well inside the 64K) -/

section
omit [PagedMem μ]

theorem m1 (p : Int) (h : 0 ≤ p ∧ p + 4 < 65536) : (p + 1) % 65536 = p + 1 := emod_small _ (by omega) (by omega)
theorem m2 (p : Int) (h : 0 ≤ p ∧ p + 4 < 65536) : (p + 2) % 65536 = p + 2 := emod_small _ (by omega) (by omega)
theorem m3 (p : Int) (h : 0 ≤ p ∧ p + 4 < 65536) : (p + 3) % 65536 = p + 3 := emod_small _ (by omega) (by omega)
theorem m4 (p : Int) (h : 0 ≤ p ∧ p + 4 < 65536) : (p + 4) % 65536 = p + 4 := emod_small _ (by omega) (by omega)

theorem ld_bc_nn' (cfg : Cfg) (s : St μ) (hp : 0 ≤ s.pc ∧ s.pc + 4 < 65536)
    (h : mget s.mem s.pc = 0x01) :
    step cfg s = { s with reg := r1 (rset (rset s.reg 3 (mget s.mem (s.pc + 1))) 2 (mget s.mem (s.pc + 2))),
                          pc := s.pc + 3, t := s.t + 10 } := by
  rw [step_ld_bc_nn cfg s h, m1 _ hp, m2 _ hp, m3 _ hp]

theorem ld_de_nn' (cfg : Cfg) (s : St μ) (hp : 0 ≤ s.pc ∧ s.pc + 4 < 65536)
    (h : mget s.mem s.pc = 0x11) :
    step cfg s = { s with reg := r1 (rset (rset s.reg 5 (mget s.mem (s.pc + 1))) 4 (mget s.mem (s.pc + 2))),
                          pc := s.pc + 3, t := s.t + 10 } := by
  rw [step_ld_de_nn cfg s h, m1 _ hp, m2 _ hp, m3 _ hp]

theorem ld_hl_nn' (cfg : Cfg) (s : St μ) (hp : 0 ≤ s.pc ∧ s.pc + 4 < 65536)
    (h : mget s.mem s.pc = 0x21) :
    step cfg s = { s with reg := r1 (rset (rset s.reg 7 (mget s.mem (s.pc + 1))) 6 (mget s.mem (s.pc + 2))),
                          pc := s.pc + 3, t := s.t + 10 } := by
  rw [step_ld_hl_nn cfg s h, m1 _ hp, m2 _ hp, m3 _ hp]

theorem ld_ix_nn' (cfg : Cfg) (s : St μ) (hp : 0 ≤ s.pc ∧ s.pc + 4 < 65536)
    (h : mget s.mem s.pc = 0xDD) (h1 : mget s.mem (s.pc + 1) = 0x21) :
    step cfg s = { s with reg := r2 (rset (rset s.reg 9 (mget s.mem (s.pc + 2))) 8 (mget s.mem (s.pc + 3))),
                          pc := s.pc + 4, t := s.t + 14 } := by
  rw [step_ld_ix_nn cfg s h (by rw [m1 _ hp]; exact h1), m2 _ hp, m3 _ hp, m4 _ hp]

theorem ld_a_hl' (cfg : Cfg) (s : St μ) (hp : 0 ≤ s.pc ∧ s.pc + 4 < 65536)
    (h : mget s.mem s.pc = 0x7E) :
    step cfg s = { s with reg := r1 (rset s.reg 0 (mget s.mem (rget s.reg 7 + 256 * rget s.reg 6))),
                          pc := s.pc + 1, t := s.t + 7 } := by
  rw [step_ld_a_hl cfg s h, m1 _ hp]

theorem and_n' (cfg : Cfg) (s : St μ) (hp : 0 ≤ s.pc ∧ s.pc + 4 < 65536)
    (h : mget s.mem s.pc = 0xE6) :
    step cfg s = { s with
      reg := r1 (rset (rset s.reg 0 (Tbl.AND (rget s.reg 0) (mget s.mem (s.pc + 1))).1) 1
                  (Tbl.AND (rget s.reg 0) (mget s.mem (s.pc + 1))).2),
      pc := s.pc + 2, t := s.t + 7 } := by
  rw [step_and_n cfg s h, m1 _ hp, m2 _ hp]

theorem di' (cfg : Cfg) (s : St μ) (hp : 0 ≤ s.pc ∧ s.pc + 4 < 65536)
    (h : mget s.mem s.pc = 0xF3) :
    step cfg s = { s with reg := r1 s.reg, iff := 0, pc := s.pc + 1, t := s.t + 4 } := by
  rw [step_di cfg s h, m1 _ hp]

theorem ei' (cfg : Cfg) (s : St μ) (hp : 0 ≤ s.pc ∧ s.pc + 4 < 65536)
    (h : mget s.mem s.pc = 0xFB) :
    step cfg s = { s with reg := r1 s.reg, iff := 1, pc := s.pc + 1, t := s.t + 4 } := by
  rw [step_ei cfg s h, m1 _ hp]

theorem out_c_a' (cfg : Cfg) (s : St μ) (hcfg : cfg.out_tracer = true)
    (hp : 0 ≤ s.pc ∧ s.pc + 4 < 65536) (h : mget s.mem s.pc = 0xED) (h1 : mget s.mem (s.pc + 1) = 0x79) :
    step cfg s = { s with
      reg := r2 s.reg,
      mem := MemLike.portOut s.mem (rget s.reg 3 + 256 * rget s.reg 2) (rget s.reg 0),
      outs := (rget s.reg 3 + 256 * rget s.reg 2, rget s.reg 0) :: s.outs,
      pc := s.pc + 2, t := s.t + 12 } := by
  rw [step_out_c_a cfg s hcfg h (by rw [m1 _ hp]; exact h1), m2 _ hp]

theorem ld_mm_a' (cfg : Cfg) (s : St μ) (hp : 0 ≤ s.pc ∧ s.pc + 4 < 65536)
    (h : mget s.mem s.pc = 0x32) (haddr : 16383 < mget s.mem (s.pc + 1) + 256 * mget s.mem (s.pc + 2)) :
    step cfg s = { s with
      reg := r1 s.reg,
      mem := mset s.mem (mget s.mem (s.pc + 1) + 256 * mget s.mem (s.pc + 2)) (rget s.reg 0),
      pc := s.pc + 3, t := s.t + 13 } := by
  rw [step_ld_mm_a cfg s h (by rw [m1 _ hp, m2 _ hp]; exact haddr), m1 _ hp, m2 _ hp, m3 _ hp]

theorem bit7_hl' (cfg : Cfg) (s : St μ) (hp : 0 ≤ s.pc ∧ s.pc + 4 < 65536)
    (h : mget s.mem s.pc = 0xCB) (h1 : mget s.mem (s.pc + 1) = 0x7E) :
    step cfg s = { s with
      reg := r2 (rset s.reg 1 (Tbl.BIT (rget s.reg 1 % 2) 7 (mget s.mem (rget s.reg 7 + 256 * rget s.reg 6)))),
      pc := s.pc + 2, t := s.t + 12 } := by
  rw [step_bit7_hl cfg s h (by rw [m1 _ hp]; exact h1), m2 _ hp]

theorem jp_nz' (cfg : Cfg) (s : St μ) (hp : 0 ≤ s.pc ∧ s.pc + 4 < 65536)
    (h : mget s.mem s.pc = 0xC2) :
    step cfg s = { s with
      reg := r1 s.reg,
      pc := if PyInt.land (rget s.reg 1) 64 = 0 then mget s.mem (s.pc + 1) + 256 * mget s.mem (s.pc + 2) else s.pc + 3,
      t := s.t + 10 } := by
  rw [step_jp_nz cfg s h, m1 _ hp, m2 _ hp, m3 _ hp]

theorem push_hl' (cfg : Cfg) (s : St μ) (hp : 0 ≤ s.pc ∧ s.pc + 4 < 65536)
    (h : mget s.mem s.pc = 0xE5) (hsp : 16386 ≤ rget s.reg 12) (hsp' : rget s.reg 12 < 65536) :
    step cfg s = { s with
      reg := r1 (rset s.reg 12 (rget s.reg 12 - 2)),
      mem := mset (mset s.mem (rget s.reg 12 - 2) (rget s.reg 7)) (rget s.reg 12 - 1) (rget s.reg 6),
      pc := s.pc + 1, t := s.t + 11 } := by
  rw [step_push cfg s 0xE5 6 7 mE5 h (by decide) (by decide) hsp hsp', m1 _ hp]

theorem scf' (cfg : Cfg) (s : St μ) (hp : 0 ≤ s.pc ∧ s.pc + 4 < 65536)
    (h : mget s.mem s.pc = 0x37) :
    step cfg s = { s with reg := r1 (rset s.reg 1 (Tbl.SCF (rget s.reg 1) (rget s.reg 0))),
                          pc := s.pc + 1, t := s.t + 4 } := by
  rw [step_scf cfg s h, m1 _ hp]

theorem sbc_a_a' (cfg : Cfg) (s : St μ) (hp : 0 ≤ s.pc ∧ s.pc + 4 < 65536)
    (h : mget s.mem s.pc = 0x9F) :
    step cfg s = { s with
      reg := r1 (rset (rset s.reg 0 (Tbl.SBC_A_A (rget s.reg 1 % 2) (rget s.reg 0)).1) 1
                  (Tbl.SBC_A_A (rget s.reg 1 % 2) (rget s.reg 0)).2),
      pc := s.pc + 1, t := s.t + 4 } := by
  rw [step_sbc_a_a cfg s h, m1 _ hp]

theorem call' (cfg : Cfg) (s : St μ) (hp : 0 ≤ s.pc ∧ s.pc + 4 < 65536)
    (h : mget s.mem s.pc = 0xCD) (hsp : 16386 ≤ rget s.reg 12) (hsp' : rget s.reg 12 < 65536) :
    step cfg s = { s with
      reg := r1 (rset s.reg 12 (rget s.reg 12 - 2)),
      mem := mset (mset s.mem (rget s.reg 12 - 2) ((s.pc + 3) % 256)) (rget s.reg 12 - 1) ((s.pc + 3) / 256),
      pc := mget s.mem (s.pc + 1) + 256 * mget s.mem (s.pc + 2), t := s.t + 17 } := by
  rw [step_call cfg s h hsp hsp', m1 _ hp, m2 _ hp, m3 _ hp]

theorem pop_hl' (cfg : Cfg) (s : St μ) (hp : 0 ≤ s.pc ∧ s.pc + 4 < 65536)
    (h : mget s.mem s.pc = 0xE1) :
    step cfg s = { s with
      reg := r1 (rset (rset (rset s.reg 12 ((rget s.reg 12 + 2) % 65536)) 7 (mget s.mem (rget s.reg 12)))
                  6 (mget s.mem ((rget s.reg 12 + 1) % 65536))),
      pc := s.pc + 1, t := s.t + 10 } := by
  rw [step_pop cfg s 0xE1 6 7 mE1 h, m1 _ hp]

theorem inc_hl' (cfg : Cfg) (s : St μ) (hp : 0 ≤ s.pc ∧ s.pc + 4 < 65536)
    (h : mget s.mem s.pc = 0x23) :
    step cfg s = { s with
      reg := r1 (rset (rset s.reg 6 (((rget s.reg 7 + 256 * rget s.reg 6 + 1) % 65536) / 256)) 7
                  (((rget s.reg 7 + 256 * rget s.reg 6 + 1) % 65536) % 256)),
      pc := s.pc + 1, t := s.t + 6 } := by
  rw [step_inc_hl cfg s h, m1 _ hp]

theorem jr' (cfg : Cfg) (s : St μ) (hp : 0 ≤ s.pc ∧ s.pc + 4 < 65536)
    (h : mget s.mem s.pc = 0x18) :
    step cfg s = { s with
      reg := r1 s.reg,
      pc := (s.pc + Tbl.JR_OFFSETS (mget s.mem (s.pc + 1))) % 65536, t := s.t + 12 } := by
  rw [step_jr cfg s h, m1 _ hp]

end

/-! ### one pass of the loop, for a table entry with bit 7 clear -/

/-- the state at `CALL 0x0556`'s target after one pass, relative to the state `s` at LOOP -/
def PassDone (s s' : St μ) (address : Nat) (e sp : Int) : Prop :=
  ∃ (reg' : Array Int) (mem' : μ),
    s' = { s with reg := reg', mem := mem', pc := 0x0556, iff := 1, t := s.t + 139,
                  outs := (0x7FFD, e % 64) :: s.outs } ∧
    reg'.size = 24 ∧
    rget reg' 9 = 0 ∧ rget reg' 8 = 0xC0 ∧ rget reg' 5 = 0 ∧ rget reg' 4 = 0x40 ∧
    rget reg' 0 = 255 ∧ rget reg' 1 = 187 ∧ rget reg' 12 = sp - 4 ∧
    rget reg' 7 = rget s.reg 7 ∧ rget reg' 6 = rget s.reg 6 ∧
    PagedMem.ok mem' ∧ MemLike.o7ffd mem' = e % 64 ∧ mget mem' 23388 = e % 64 ∧
    mget mem' (sp - 2) = rget s.reg 7 ∧ mget mem' (sp - 1) = rget s.reg 6 ∧
    mget mem' (sp - 4) = ((address : Int) + 34) % 256 ∧ mget mem' (sp - 3) = ((address : Int) + 34) / 256 ∧
    (∀ b : Int, 16384 ≤ b ∧ b < 49152 → b ≠ 23388 → (b < sp - 4 ∨ sp ≤ b) → mget mem' b = mget s.mem b)

theorem bank_loader_pass (cfg : Cfg) (s : St μ) (address startAddr : Nat) (tp e sp : Int)
    (hcfg : cfg.out_tracer = true)
    (hcode : CodeAt s.mem address (bankLoaderCode address startAddr))
    (haddr : 16384 ≤ address ∧ address + 38 ≤ 49152)
    (hpc : s.pc = (address : Int) + 3) (hs : s.reg.size = 24) (hok : PagedMem.ok s.mem)
    (hHL : rget s.reg 7 + 256 * rget s.reg 6 = tp) (htp : 16384 ≤ tp ∧ tp < 49152)
    (hentry : mget s.mem tp = e) (he : 0 ≤ e ∧ e < 128)
    (hsp : rget s.reg 12 = sp) (hsp0 : 16388 ≤ sp ∧ sp ≤ 49152)
    (hdisj : sp ≤ (address : Int) ∨ (address : Int) + 38 ≤ sp - 4)
    (hbankm : (23388 < address ∨ address + 38 ≤ 23388) ∧ tp ≠ 23388 ∧ (sp ≤ 23388 ∨ 23388 < sp - 4))
    (hlock : PyInt.land (MemLike.o7ffd s.mem) 32 = 0) :
    PassDone s (runN cfg 15 s) address e sp := by
  generalize ha : (address : Int) = a at *
  have ha0 : 16384 ≤ a ∧ a + 38 ≤ 49152 := by omega
  have hlen : (bankLoaderCode address startAddr).length = 38 := by simp [bankLoaderCode]
  -- code bytes in the initial memory
  have c : ∀ k : Nat, k < 38 → mget s.mem (a + k) = (((bankLoaderCode address startAddr).getD k 0 : Nat) : Int) :=
    fun k hk => hcode k (by omega)
  have c3 := c 3 (by omega); have c4 := c 4 (by omega); have c5 := c 5 (by omega)
  have c6 := c 6 (by omega); have c7 := c 7 (by omega); have c8 := c 8 (by omega)
  have c9 := c 9 (by omega); have c10 := c 10 (by omega); have c11 := c 11 (by omega)
  simp [bankLoaderCode] at c3 c4 c5 c6 c7 c8 c9 c10 c11
  have hp : ∀ k : Int, 0 ≤ k → k ≤ 34 → 0 ≤ a + k ∧ a + k + 4 < 65536 := fun k _ _ => by omega
  -- LD BC,0x7FFD
  rw [runN, ld_bc_nn' cfg s (by rw [hpc]; exact hp 3 (by omega) (by omega)) (by rw [hpc]; exact c3)]
  simp only [hpc]
  simp only [Int.add_assoc, Int.reduceAdd, c4, c5]
  -- LD A,(HL)
  rw [runN, ld_a_hl' cfg _ (hp 6 (by omega) (by omega)) c6]
  simp [rget_rset, rset_size, hs, r1, hHL, hentry, Int.add_assoc]
  -- AND 0x3F
  rw [runN, and_n' cfg _ (hp 7 (by omega) (by omega)) c7]
  simp [rget_rset, rset_size, hs, r1, Int.add_assoc, c8, and3f e (by omega)]
  generalize (Tbl.AND e 63).2 = f1
  -- DI
  rw [runN, di' cfg _ (hp 9 (by omega) (by omega)) c9]
  simp only [Int.add_assoc, Int.reduceAdd]
  -- OUT (C),A
  rw [runN, out_c_a' cfg _ hcfg (hp 10 (by omega) (by omega)) c10 (by rw [Int.add_assoc]; exact c11)]
  simp [rget_rset, rset_size, hs, r1, r2, Int.add_assoc]
  -- the memory after the port write
  have hokM1 : PagedMem.ok (MemLike.portOut s.mem 32765 (e % 64)) := PagedMem.ok_portOut _ _ _ hok
  have g1 : ∀ b : Int, 16384 ≤ b ∧ b < 49152 → mget (MemLike.portOut s.mem 32765 (e % 64)) b = mget s.mem b :=
    fun b hb => PagedMem.get_portOut _ _ _ _ hb.1 hb.2
  have o1 : MemLike.o7ffd (MemLike.portOut s.mem 32765 (e % 64)) = e % 64 := PagedMem.o7ffd_portOut _ _ hok hlock
  generalize MemLike.portOut s.mem 32765 (e % 64) = M1 at hokM1 g1 o1 ⊢
  have d : ∀ k : Nat, k < 38 → mget M1 (a + k) = (((bankLoaderCode address startAddr).getD k 0 : Nat) : Int) :=
    fun k hk => by rw [g1 _ (by omega)]; exact c k hk
  have d12 := d 12 (by omega); have d13 := d 13 (by omega); have d14 := d 14 (by omega)
  simp [bankLoaderCode] at d12 d13 d14
  -- LD (0x5B5C),A
  rw [runN, ld_mm_a' cfg _ (hp 12 (by omega) (by omega)) d12
    (by rw [Int.add_assoc, Int.add_assoc]; simp only [Int.reduceAdd]; rw [d13, d14]; decide)]
  simp [rget_rset, rset_size, hs, r1, r2, Int.add_assoc, d13, d14]
  have hokM2 : PagedMem.ok (mset M1 23388 (e % 64)) := PagedMem.ok_set _ _ _ hokM1
  have g2 : ∀ b : Int, 16384 ≤ b ∧ b < 49152 → mget (mset M1 23388 (e % 64)) b =
      if b = 23388 then e % 64 else mget s.mem b := by
    intro b hb
    rw [PagedMem.get_set _ _ _ _ hokM1 (by omega) (by omega) hb.1 hb.2]
    split
    · rfl
    · exact g1 b hb
  have o2 : MemLike.o7ffd (mset M1 23388 (e % 64)) = e % 64 := by rw [PagedMem.o7ffd_set]; exact o1
  generalize mset M1 23388 (e % 64) = M2 at hokM2 g2 o2 ⊢
  have f : ∀ k : Nat, k < 38 → mget M2 (a + k) = (((bankLoaderCode address startAddr).getD k 0 : Nat) : Int) :=
    fun k hk => by rw [g2 _ (by omega), if_neg (by omega)]; exact c k hk
  have f15 := f 15 (by omega); have f16 := f 16 (by omega); have f17 := f 17 (by omega)
  have f18 := f 18 (by omega); have f21 := f 21 (by omega); have f22 := f 22 (by omega)
  have f23 := f 23 (by omega); have f24 := f 24 (by omega); have f25 := f 25 (by omega)
  simp [bankLoaderCode] at f15 f16 f17 f18 f21 f22 f23 f24 f25
  have ftp : mget M2 tp = e := by rw [g2 _ htp, if_neg hbankm.2.1]; exact hentry
  -- EI
  rw [runN, ei' cfg _ (hp 15 (by omega) (by omega)) f15]
  simp only [Int.add_assoc, Int.reduceAdd]
  -- BIT 7,(HL)
  rw [runN, bit7_hl' cfg _ (hp 16 (by omega) (by omega)) f16 (by rw [Int.add_assoc]; exact f17)]
  simp [rget_rset, rset_size, hs, r1, r2, Int.add_assoc, hHL, ftp]
  -- JP NZ,START: not taken (bit 7 of the entry is clear)
  have hz : ¬ PyInt.land (Tbl.BIT (f1 % 2) 7 e) 64 = 0 := by
    rw [bit7_z _ _ (by omega) (by omega)]; omega
  rw [runN, jp_nz' cfg _ (hp 18 (by omega) (by omega)) f18]
  simp [rget_rset, rset_size, hs, r1, r2, Int.add_assoc, hz]
  generalize Tbl.BIT (f1 % 2) 7 e = f2
  -- PUSH HL
  rw [runN, push_hl' cfg _ (hp 21 (by omega) (by omega)) f21
    (by simp [rget_rset_ne, hsp]; omega) (by simp [rget_rset_ne, hsp]; omega)]
  simp [rget_rset, rset_size, hs, r1, r2, Int.add_assoc, hsp]
  -- the memory after PUSH HL
  have hokM3 : PagedMem.ok (mset (mset M2 (sp - 2) (rget s.reg 7)) (sp - 1) (rget s.reg 6)) :=
    PagedMem.ok_set _ _ _ (PagedMem.ok_set _ _ _ hokM2)
  have g3 : ∀ b : Int, 16384 ≤ b ∧ b < 49152 → mget (mset (mset M2 (sp - 2) (rget s.reg 7)) (sp - 1) (rget s.reg 6)) b =
      if b = sp - 1 then rget s.reg 6 else if b = sp - 2 then rget s.reg 7 else
      if b = 23388 then e % 64 else mget s.mem b := by
    intro b hb
    rw [pget_mset2 _ hokM2 _ _ _ _ _ (by omega) (by omega) hb, g2 b hb]
  have o3 : MemLike.o7ffd (mset (mset M2 (sp - 2) (rget s.reg 7)) (sp - 1) (rget s.reg 6)) = e % 64 := by
    rw [PagedMem.o7ffd_set, PagedMem.o7ffd_set]; exact o2
  generalize mset (mset M2 (sp - 2) (rget s.reg 7)) (sp - 1) (rget s.reg 6) = M3 at hokM3 g3 o3 ⊢
  have q : ∀ k : Nat, k < 38 → mget M3 (a + k) = (((bankLoaderCode address startAddr).getD k 0 : Nat) : Int) :=
    fun k hk => by rw [g3 _ (by omega), if_neg (by omega), if_neg (by omega), if_neg (by omega)]; exact c k hk
  have q22 := q 22 (by omega); have q23 := q 23 (by omega); have q24 := q 24 (by omega)
  have q25 := q 25 (by omega); have q26 := q 26 (by omega); have q27 := q 27 (by omega)
  have q28 := q 28 (by omega); have q29 := q 29 (by omega); have q30 := q 30 (by omega)
  have q31 := q 31 (by omega); have q32 := q 32 (by omega); have q33 := q 33 (by omega)
  simp [bankLoaderCode] at q22 q23 q24 q25 q26 q27 q28 q29 q30 q31 q32 q33
  -- LD IX,0xC000
  rw [runN, ld_ix_nn' cfg _ (hp 22 (by omega) (by omega)) q22 (by rw [Int.add_assoc]; exact q23)]
  simp [rget_rset, rset_size, hs, r1, r2, Int.add_assoc, q24, q25]
  -- LD DE,0x4000
  rw [runN, ld_de_nn' cfg _ (hp 26 (by omega) (by omega)) q26]
  simp [rget_rset, rset_size, hs, r1, r2, Int.add_assoc, q27, q28]
  -- SCF
  rw [runN, scf' cfg _ (hp 29 (by omega) (by omega)) q29]
  simp [rget_rset, rset_size, hs, r1, r2, Int.add_assoc]
  -- SBC A,A
  rw [runN, sbc_a_a' cfg _ (hp 30 (by omega) (by omega)) q30]
  simp [rget_rset, rset_size, hs, r1, r2, Int.add_assoc, scf_carry, sbc_a_a_carry]
  -- CALL 0x0556
  rw [runN, call' cfg _ (hp 31 (by omega) (by omega)) q31
    (by simp [rget_rset_ne, rget_rset_eq, rset_size, hs]; omega) (by simp [rget_rset_ne, rget_rset_eq, rset_size, hs]; omega)]
  simp [rget_rset, rset_size, hs, r1, r2, Int.add_assoc, q32, q33, runN]
  have e42 : sp - 2 - 2 = sp - 4 := by omega
  have e43 : sp - 2 - 1 = sp - 3 := by omega
  rw [e42, e43]
  have hokM4 : PagedMem.ok (mset (mset M3 (sp - 4) ((a + 34) % 256)) (sp - 3) ((a + 34) / 256)) :=
    PagedMem.ok_set _ _ _ (PagedMem.ok_set _ _ _ hokM3)
  have g4 : ∀ b : Int, 16384 ≤ b ∧ b < 49152 →
      mget (mset (mset M3 (sp - 4) ((a + 34) % 256)) (sp - 3) ((a + 34) / 256)) b =
      if b = sp - 3 then (a + 34) / 256 else if b = sp - 4 then (a + 34) % 256 else
      if b = sp - 1 then rget s.reg 6 else if b = sp - 2 then rget s.reg 7 else
      if b = 23388 then e % 64 else mget s.mem b := by
    intro b hb
    rw [pget_mset2 _ hokM3 _ _ _ _ _ (by omega) (by omega) hb, g3 b hb]
  have o4 : MemLike.o7ffd (mset (mset M3 (sp - 4) ((a + 34) % 256)) (sp - 3) ((a + 34) / 256)) = e % 64 := by
    rw [PagedMem.o7ffd_set, PagedMem.o7ffd_set]; exact o3
  generalize mset (mset M3 (sp - 4) ((a + 34) % 256)) (sp - 3) ((a + 34) / 256) = M4 at hokM4 g4 o4 ⊢
  unfold PassDone
  refine ⟨_, M4, rfl, by simp [rset_size, hs], ?_, ?_, ?_, ?_, ?_, ?_, ?_, ?_, ?_, hokM4, o4, ?_, ?_, ?_, ?_, ?_, ?_⟩
  · simp [rget_rset_ne, rget_rset_eq, rset_size, hs]
  · simp [rget_rset_ne, rget_rset_eq, rset_size, hs]
  · simp [rget_rset_ne, rget_rset_eq, rset_size, hs]
  · simp [rget_rset_ne, rget_rset_eq, rset_size, hs]
  · simp [rget_rset_ne, rget_rset_eq, rset_size, hs]
  · simp [rget_rset_ne, rget_rset_eq, rset_size, hs]
  · simp [rget_rset_ne, rget_rset_eq, rset_size, hs]
  · simp [rget_rset_ne, rget_rset_eq, rset_size, hs]
  · simp [rget_rset_ne, rget_rset_eq, rset_size, hs]
  · rw [g4 _ (by omega), if_neg (by omega), if_neg (by omega), if_neg (by omega), if_neg (by omega), if_pos rfl]
  · rw [g4 _ (by omega), if_neg (by omega), if_neg (by omega), if_neg (by omega), if_pos rfl]
  · rw [g4 _ (by omega), if_neg (by omega), if_neg (by omega), if_pos rfl]
  · rw [g4 _ (by omega), if_neg (by omega), if_pos rfl, ha]
  · rw [g4 _ (by omega), if_pos rfl, ha]
  · intro b hb hb1 hb2
    rw [g4 b hb, if_neg (by omega), if_neg (by omega), if_neg (by omega), if_neg (by omega), if_neg hb1]

/-! ### the final pass: the end marker (bit 7 set) pages the requested value and starts the program -/

def FinalDone (s s' : St μ) (startAddr : Nat) (e : Int) : Prop :=
  ∃ (reg' : Array Int) (mem' : μ),
    s' = { s with reg := reg', mem := mem', pc := (startAddr : Int) % 256 + 256 * ((startAddr : Int) / 256), iff := 1,
                  t := s.t + 79, outs := (0x7FFD, e % 64) :: s.outs } ∧
    reg'.size = 24 ∧ rget reg' 12 = rget s.reg 12 ∧
    PagedMem.ok mem' ∧ MemLike.o7ffd mem' = e % 64 ∧ mget mem' 23388 = e % 64 ∧
    (∀ b : Int, 16384 ≤ b ∧ b < 49152 → b ≠ 23388 → mget mem' b = mget s.mem b)

theorem bank_loader_final (cfg : Cfg) (s : St μ) (address startAddr : Nat) (tp e : Int)
    (hcfg : cfg.out_tracer = true)
    (hcode : CodeAt s.mem address (bankLoaderCode address startAddr))
    (haddr : 16384 ≤ address ∧ address + 38 ≤ 49152)
    (hpc : s.pc = (address : Int) + 3) (hs : s.reg.size = 24) (hok : PagedMem.ok s.mem)
    (hHL : rget s.reg 7 + 256 * rget s.reg 6 = tp) (htp : 16384 ≤ tp ∧ tp < 49152)
    (hentry : mget s.mem tp = e) (he : 128 ≤ e ∧ e < 256)
    (hbankm : (23388 < address ∨ address + 38 ≤ 23388) ∧ tp ≠ 23388)
    (hlock : PyInt.land (MemLike.o7ffd s.mem) 32 = 0) :
    FinalDone s (runN cfg 9 s) startAddr e := by
  generalize ha : (address : Int) = a at *
  have ha0 : 16384 ≤ a ∧ a + 38 ≤ 49152 := by omega
  have hlen : (bankLoaderCode address startAddr).length = 38 := by simp [bankLoaderCode]
  -- code bytes in the initial memory
  have c : ∀ k : Nat, k < 38 → mget s.mem (a + k) = (((bankLoaderCode address startAddr).getD k 0 : Nat) : Int) :=
    fun k hk => hcode k (by omega)
  have c3 := c 3 (by omega); have c4 := c 4 (by omega); have c5 := c 5 (by omega)
  have c6 := c 6 (by omega); have c7 := c 7 (by omega); have c8 := c 8 (by omega)
  have c9 := c 9 (by omega); have c10 := c 10 (by omega); have c11 := c 11 (by omega)
  simp [bankLoaderCode] at c3 c4 c5 c6 c7 c8 c9 c10 c11
  have hp : ∀ k : Int, 0 ≤ k → k ≤ 34 → 0 ≤ a + k ∧ a + k + 4 < 65536 := fun k _ _ => by omega
  -- LD BC,0x7FFD
  rw [runN, ld_bc_nn' cfg s (by rw [hpc]; exact hp 3 (by omega) (by omega)) (by rw [hpc]; exact c3)]
  simp only [hpc]
  simp only [Int.add_assoc, Int.reduceAdd, c4, c5]
  -- LD A,(HL)
  rw [runN, ld_a_hl' cfg _ (hp 6 (by omega) (by omega)) c6]
  simp [rget_rset, rset_size, hs, r1, hHL, hentry, Int.add_assoc]
  -- AND 0x3F
  rw [runN, and_n' cfg _ (hp 7 (by omega) (by omega)) c7]
  simp [rget_rset, rset_size, hs, r1, Int.add_assoc, c8, and3f e (by omega)]
  generalize (Tbl.AND e 63).2 = f1
  -- DI
  rw [runN, di' cfg _ (hp 9 (by omega) (by omega)) c9]
  simp only [Int.add_assoc, Int.reduceAdd]
  -- OUT (C),A
  rw [runN, out_c_a' cfg _ hcfg (hp 10 (by omega) (by omega)) c10 (by rw [Int.add_assoc]; exact c11)]
  simp [rget_rset, rset_size, hs, r1, r2, Int.add_assoc]
  -- the memory after the port write
  have hokM1 : PagedMem.ok (MemLike.portOut s.mem 32765 (e % 64)) := PagedMem.ok_portOut _ _ _ hok
  have g1 : ∀ b : Int, 16384 ≤ b ∧ b < 49152 → mget (MemLike.portOut s.mem 32765 (e % 64)) b = mget s.mem b :=
    fun b hb => PagedMem.get_portOut _ _ _ _ hb.1 hb.2
  have o1 : MemLike.o7ffd (MemLike.portOut s.mem 32765 (e % 64)) = e % 64 := PagedMem.o7ffd_portOut _ _ hok hlock
  generalize MemLike.portOut s.mem 32765 (e % 64) = M1 at hokM1 g1 o1 ⊢
  have d : ∀ k : Nat, k < 38 → mget M1 (a + k) = (((bankLoaderCode address startAddr).getD k 0 : Nat) : Int) :=
    fun k hk => by rw [g1 _ (by omega)]; exact c k hk
  have d12 := d 12 (by omega); have d13 := d 13 (by omega); have d14 := d 14 (by omega)
  simp [bankLoaderCode] at d12 d13 d14
  -- LD (0x5B5C),A
  rw [runN, ld_mm_a' cfg _ (hp 12 (by omega) (by omega)) d12
    (by rw [Int.add_assoc, Int.add_assoc]; simp only [Int.reduceAdd]; rw [d13, d14]; decide)]
  simp [rget_rset, rset_size, hs, r1, r2, Int.add_assoc, d13, d14]
  have hokM2 : PagedMem.ok (mset M1 23388 (e % 64)) := PagedMem.ok_set _ _ _ hokM1
  have g2 : ∀ b : Int, 16384 ≤ b ∧ b < 49152 → mget (mset M1 23388 (e % 64)) b =
      if b = 23388 then e % 64 else mget s.mem b := by
    intro b hb
    rw [PagedMem.get_set _ _ _ _ hokM1 (by omega) (by omega) hb.1 hb.2]
    split
    · rfl
    · exact g1 b hb
  have o2 : MemLike.o7ffd (mset M1 23388 (e % 64)) = e % 64 := by rw [PagedMem.o7ffd_set]; exact o1
  generalize mset M1 23388 (e % 64) = M2 at hokM2 g2 o2 ⊢
  have f : ∀ k : Nat, k < 38 → mget M2 (a + k) = (((bankLoaderCode address startAddr).getD k 0 : Nat) : Int) :=
    fun k hk => by rw [g2 _ (by omega), if_neg (by omega)]; exact c k hk
  have f15 := f 15 (by omega); have f16 := f 16 (by omega); have f17 := f 17 (by omega)
  have f18 := f 18 (by omega); have f21 := f 21 (by omega); have f22 := f 22 (by omega)
  have f23 := f 23 (by omega); have f24 := f 24 (by omega); have f25 := f 25 (by omega)
  simp [bankLoaderCode] at f15 f16 f17 f18 f21 f22 f23 f24 f25
  have ftp : mget M2 tp = e := by rw [g2 _ htp, if_neg hbankm.2]; exact hentry
  -- EI
  rw [runN, ei' cfg _ (hp 15 (by omega) (by omega)) f15]
  simp only [Int.add_assoc, Int.reduceAdd]
  -- BIT 7,(HL)
  rw [runN, bit7_hl' cfg _ (hp 16 (by omega) (by omega)) f16 (by rw [Int.add_assoc]; exact f17)]
  simp [rget_rset, rset_size, hs, r1, r2, Int.add_assoc, hHL, ftp]
  -- JP NZ,START: taken (bit 7 of the entry is set)
  have hz : PyInt.land (Tbl.BIT (f1 % 2) 7 e) 64 = 0 := by
    rw [bit7_z _ _ (by omega) (by omega)]; omega
  rw [runN, jp_nz' cfg _ (hp 18 (by omega) (by omega)) f18]
  have f19 := f 19 (by omega); have f20 := f 20 (by omega)
  simp [bankLoaderCode] at f19 f20
  simp [rget_rset, rset_size, hs, r1, r2, Int.add_assoc, hz, f19, f20, runN]
  unfold FinalDone
  refine ⟨_, M2, rfl, by simp [rset_size, hs], ?_, hokM2, o2, ?_, ?_⟩
  · simp [rget_rset_ne, rget_rset_eq, rset_size, hs]
  · rw [g2 _ (by omega), if_pos rfl]
  · intro b hb hb1
    rw [g2 b hb, if_neg hb1]

/-! ### after LD-BYTES returns: next table entry -/

def NextDone (s s' : St μ) (address : Nat) (sp : Int) : Prop :=
  ∃ (reg' : Array Int),
    s' = { s with reg := reg', pc := (address : Int) + 3, t := s.t + 28 } ∧
    reg'.size = 24 ∧ rget reg' 12 = sp + 2 ∧
    rget reg' 7 + 256 * rget reg' 6 = (mget s.mem sp + 256 * mget s.mem (sp + 1) + 1) % 65536 ∧
    (∀ i : Int, i ≠ 6 → i ≠ 7 → i ≠ 12 → i ≠ 15 → rget reg' i = rget s.reg i)

omit [PagedMem μ] in
theorem bank_loader_next (cfg : Cfg) (s : St μ) (address startAddr : Nat) (sp : Int)
    (hcode : CodeAt s.mem address (bankLoaderCode address startAddr))
    (haddr : 16384 ≤ address ∧ address + 38 ≤ 49152)
    (hpc : s.pc = (address : Int) + 34) (hs : s.reg.size = 24)
    (hsp : rget s.reg 12 = sp) (hsp0 : 0 ≤ sp ∧ sp + 2 < 65536)
    (hb : 0 ≤ mget s.mem sp ∧ mget s.mem sp < 256 ∧ 0 ≤ mget s.mem (sp + 1) ∧ mget s.mem (sp + 1) < 256) :
    NextDone s (runN cfg 3 s) address sp := by
  generalize ha : (address : Int) = a at *
  have ha0 : 16384 ≤ a ∧ a + 38 ≤ 49152 := by omega
  have hlen : (bankLoaderCode address startAddr).length = 38 := by simp [bankLoaderCode]
  have c : ∀ k : Nat, k < 38 → mget s.mem (a + k) = (((bankLoaderCode address startAddr).getD k 0 : Nat) : Int) :=
    fun k hk => hcode k (by omega)
  have c34 := c 34 (by omega); have c35 := c 35 (by omega); have c36 := c 36 (by omega); have c37 := c 37 (by omega)
  simp [bankLoaderCode] at c34 c35 c36 c37
  have hp : ∀ k : Int, 0 ≤ k → k ≤ 36 → 0 ≤ a + k ∧ a + k + 4 < 65536 := fun k _ _ => by omega
  have e1 : (sp + 1) % 65536 = sp + 1 := emod_small _ (by omega) (by omega)
  have e2 : (sp + 2) % 65536 = sp + 2 := emod_small _ (by omega) (by omega)
  -- POP HL
  rw [runN, pop_hl' cfg s (by rw [hpc]; exact hp 34 (by omega) (by omega)) (by rw [hpc]; exact c34)]
  simp only [hpc, hsp, e1, e2]
  simp only [Int.add_assoc, Int.reduceAdd]
  -- INC HL
  rw [runN, inc_hl' cfg _ (hp 35 (by omega) (by omega)) c35]
  simp [rget_rset, rset_size, hs, r1, Int.add_assoc]
  -- JR LOOP
  rw [runN, jr' cfg _ (hp 36 (by omega) (by omega)) c36]
  have hjo : Tbl.JR_OFFSETS 221 = -33 := by simp [Tbl.JR_OFFSETS]
  have hj : (a + 3) % 65536 = a + 3 := emod_small _ (by omega) (by omega)
  simp [rget_rset, rset_size, hs, r1, Int.add_assoc, c37, hjo, hj, runN]
  subst ha
  unfold NextDone
  refine ⟨_, rfl, by simp [rset_size, hs], ?_, ?_, ?_⟩
  · simp [rget_rset_ne, rget_rset_eq, rset_size, hs]
  · simp [rget_rset_ne, rget_rset_eq, rset_size, hs]; omega
  · intro i h6 h7 h12 h15
    have n6 : (6 : Int) ≠ i := fun h => h6 h.symm
    have n7 : (7 : Int) ≠ i := fun h => h7 h.symm
    have n12 : (12 : Int) ≠ i := fun h => h12 h.symm
    have n15 : (15 : Int) ≠ i := fun h => h15 h.symm
    simp [rget_rset_ne, n6, n7, n12, n15]

end BankLoaderExec
