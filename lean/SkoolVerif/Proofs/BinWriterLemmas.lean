import SkoolVerif.Proofs.EmitLemmas
/-! Lemmas about the skool2bin model (`Model/BinWriter.lean`) for C01. -/
namespace BinW
open Stmts CtlTiling C01Spec

/-- blank placeholder lines neither advance the address counter nor poke anything -/
theorem place_blanks (asm : Nat → List Nat) (bl : List Stmt) (h : ∀ s ∈ bl, s.op = .blank ∧ s.bytes = [])
    (addr : Option Nat) : place addr (itemsOf asm bl) = .ok [] := by
  induction bl generalizing addr with
  | nil => rfl
  | cons s r ih =>
    have hs := h s (by simp)
    simp only [itemsOf, List.map_cons, hs.1, place]
    simp only [beq_self_eq_true, if_true]
    exact ih (fun x hx => h x (List.mem_cons_of_mem _ hx)) _

/-- Consecutive statements are placed at their own addresses: the sequential address counter of
skool2bin coincides with the skool file addresses along a chain. -/
theorem place_chain (asm : Nat → List Nat) (mem : List Nat) (l : List Stmt) (a b : Nat)
    (hc : Chain mem l a b) (hasm : ∀ s ∈ l, AsmOk asm s) (hlt : ∀ s ∈ l, s.addr < 65537)
    (rest : List Item) (addr : Option Nat) (haddr : addr = none ∨ addr = some a) :
    place addr (itemsOf asm l ++ rest) =
      (place (if l.isEmpty then addr else some b) rest).map (fun r => l.map (fun s => (s.addr, s.bytes)) ++ r) := by
  induction l generalizing a addr with
  | nil =>
    simp only [itemsOf, List.map_nil, List.nil_append, List.isEmpty_nil, if_true]
    cases place addr rest <;> rfl
  | cons s r ih =>
    simp only [Chain] at hc
    obtain ⟨hsa, hne, _, hrest⟩ := hc
    have hs : s.op.assemble asm = s.bytes := hasm s (by simp)
    have hnb : (s.op == Op.blank) = false := by
      cases hop : s.op with
      | blank => rw [hop] at hs; simp only [Op.assemble] at hs; exact absurd hs.symm hne
      | _ => rfl
    have hget : addr.getD s.addr = a := by
      rcases haddr with h | h <;> simp [h, hsa]
    simp only [itemsOf, List.map_cons, List.cons_append, place, hnb, hs, hget]
    rw [if_neg (by simp), if_neg (by simpa using hne)]
    have := ih (a + s.bytes.length) hrest (fun x hx => hasm x (List.mem_cons_of_mem _ hx))
      (fun x hx => hlt x (List.mem_cons_of_mem _ hx)) (some (a + s.bytes.length)) (Or.inr rfl)
    simp only [itemsOf] at this
    rw [this]
    have hlta : a < 65537 := by have := hlt s (by simp); omega
    have hb : (if r.isEmpty then some (a + s.bytes.length) else some b) = some b := by
      cases r with
      | nil => simp only [Chain] at hrest; simp [hrest]
      | cons _ _ => simp
    rw [hb]
    simp only [List.isEmpty_cons, Bool.false_eq_true, if_false]
    cases place (some b) rest with
    | error e => rfl
    | ok v => simp [Except.map, bind, Except.bind, pure, Except.pure, hlta, hsa]

/-! ### pokes -/

/-- poking bytes that agree with the snapshot keeps every already-correct address correct and
makes the poked addresses correct -/
theorem poke_good (mem : List Nat) (d : List Nat) : ∀ (m : Mem) (a : Nat) (P : Nat → Prop),
    (∀ x, P x → some (m x) = mem[x]?) →
    (∀ k, k < d.length → d[k]? = mem[(a + k) % 65536]?) →
    ∀ x, (P x ∨ ∃ k, k < d.length ∧ x = (a + k) % 65536) → some (poke m a d x) = mem[x]? := by
  induction d with
  | nil =>
    intro m a P hP _ x hx
    simp only [poke]
    rcases hx with h | ⟨k, hk, _⟩
    · exact hP x h
    · simp at hk
  | cons b bs ih =>
    intro m a P hP hd x hx
    simp only [poke]
    apply ih (fun y => if y = a % 65536 then b else m y) (a + 1) (fun y => P y ∨ y = a % 65536)
    · intro y hy
      by_cases h : y = a % 65536
      · simp only [h, if_true]
        have := hd 0 (by simp)
        simpa using this
      · simp only [h, if_false]
        rcases hy with h1 | h1
        · exact hP y h1
        · exact absurd h1 h
    · intro k hk
      have := hd (k + 1) (by simp; omega)
      simp only [List.getElem?_cons_succ] at this
      rw [this]; congr 2; omega
    · rcases hx with h | ⟨k, hk, hxk⟩
      · exact Or.inl (Or.inl h)
      · cases k with
        | zero => exact Or.inl (Or.inr (by simpa using hxk))
        | succ k =>
          right
          exact ⟨k, by simp at hk; omega, by rw [hxk]; congr 1; omega⟩

theorem pokeAll_good (mem : List Nat) (placed : List (Nat × List Nat))
    (hok : ∀ p ∈ placed, ∀ k, k < p.2.length → p.2[k]? = mem[(p.1 + k) % 65536]?) :
    ∀ (m : Mem) (P : Nat → Prop), (∀ x, P x → some (m x) = mem[x]?) →
    ∀ x, (P x ∨ ∃ p ∈ placed, ∃ k, k < p.2.length ∧ x = (p.1 + k) % 65536) →
      some (pokeAll m placed x) = mem[x]? := by
  induction placed with
  | nil =>
    intro m P hP x hx
    simp only [pokeAll]
    rcases hx with h | ⟨p, hp, _⟩
    · exact hP x h
    · simp at hp
  | cons p r ih =>
    intro m P hP x hx
    obtain ⟨a, d⟩ := p
    simp only [pokeAll]
    apply ih (fun q hq => hok q (List.mem_cons_of_mem _ hq)) (poke m a d)
      (fun y => P y ∨ ∃ k, k < d.length ∧ y = (a + k) % 65536)
    · intro y hy
      exact poke_good mem d m a P hP (hok (a, d) (by simp)) y hy
    · rcases hx with h | ⟨q, hq, k, hk, hxk⟩
      · exact Or.inl (Or.inl h)
      · rcases List.mem_cons.1 hq with h1 | h1
        · subst h1; exact Or.inl (Or.inr ⟨k, hk, hxk⟩)
        · exact Or.inr ⟨q, h1, k, hk, hxk⟩

end BinW

/-! ### the `i-block-gap` witness: `b 0 / i 1 / b 2` over the bytes 1 2 3 -/
namespace C01Spec
open CtlTiling Stmts

def gapSubs : List Sub := [⟨'b', 0, 1, [(0, "n")]⟩, ⟨'i', 1, 2, [(0, "n")]⟩, ⟨'b', 2, 3, [(0, "n")]⟩]
def gapStmts : List Stmt := [⟨0, .defb false [[1]], [1]⟩, ⟨1, .blank, []⟩, ⟨2, .defb false [[3]], [3]⟩]
def gapDec : Dec := { len := fun _ => 1 }

end C01Spec
