import SkoolVerif.Proofs.ScanListLemmas
import SkoolVerif.Spec.ZxPixel
/-! Bit packing of one scanline (`packLine`) against the PNG pixel layout (C15). -/
set_option linter.unusedSimpArgs false
namespace PngScan

/-- The chunk that holds element `x` of a list whose length is a multiple of `d`. -/
theorem packed_group (d : Nat) (hd : 0 < d) (q : List Nat) (k : Nat) (hq : q.length = k * d)
    (x : Nat) (hx : x < q.length) :
    ((chunksOf d q.length q).getD (x / d) []).length = d ∧
      ((chunksOf d q.length q).getD (x / d) []).getD (x % d) 0 = q.getD x 0 ∧
      (∀ v ∈ (chunksOf d q.length q).getD (x / d) [], v ∈ q) ∧
      x / d < (chunksOf d q.length q).length := by
  have hlt : x / d < k := by
    rw [Nat.div_lt_iff_lt_mul hd]; omega
  have h1 : x / d * d ≤ x := Nat.div_mul_le_self x d
  have h2 : x / d * d + d ≤ k * d := by
    have : (x / d + 1) * d ≤ k * d := Nat.mul_le_mul_right d hlt
    rw [Nat.add_mul] at this; omega
  rw [chunksOf_getD d hd _ q (Nat.le_refl _) (x / d) (by omega)]
  refine ⟨?_, ?_, ?_, ?_⟩
  · simp only [List.length_take, List.length_drop]; omega
  · rw [getD_take _ _ _ _ (Nat.mod_lt _ hd), getD_drop]
    congr 1
    have := Nat.div_add_mod x d
    rw [Nat.mul_comm] at this; omega
  · intro v hv
    exact List.mem_of_mem_drop (List.mem_of_mem_take hv)
  · rw [chunksOf_length d hd _ q (Nat.le_refl _) k hq]; exact hlt

theorem getD_map_of_lt {α β : Type} (f : α → β) (l : List α) (i : Nat) (d : β) (a0 : α) (h : i < l.length) :
    (l.map f).getD i d = f (l.getD i a0) := by
  simp [List.getD_eq_getElem?_getD, List.getElem?_eq_getElem h]

theorem pad_multiple (w d : Nat) (hd : 0 < d) : ∃ k, w + (d - w % d) % d = k * d := by
  refine ⟨(w + d - 1) / d, ?_⟩
  have hm := Nat.mod_lt w hd
  by_cases h0 : w % d = 0
  · have e1 : (d - w % d) % d = 0 := by rw [h0]; simp
    have e2 : (w + d - 1) / d = w / d := by
      have : w = d * (w / d) := by have := Nat.div_add_mod w d; omega
      have h3 : w + d - 1 = (d - 1) + d * (w / d) := by omega
      rw [h3, Nat.add_mul_div_left _ _ hd, Nat.div_eq_of_lt (by omega)]; omega
    rw [e1, e2]
    have := Nat.div_add_mod w d
    rw [Nat.mul_comm] at this; omega
  · have e1 : (d - w % d) % d = d - w % d := Nat.mod_eq_of_lt (by omega)
    have e2 : (w + d - 1) / d = w / d + 1 := by
      have hw : w = d * (w / d) + w % d := (Nat.div_add_mod w d).symm
      have h3 : w + d - 1 = (w % d - 1) + d * (w / d + 1) := by
        rw [Nat.mul_add]; omega
      rw [h3, Nat.add_mul_div_left _ _ hd, Nat.div_eq_of_lt (by omega)]; omega
    rw [e1, e2, Nat.add_mul]
    have := Nat.div_add_mod w d
    rw [Nat.mul_comm] at this; omega

/-- The cropped pixels `[p0:p1]` of a row. -/
def cropRow (c : Ctx) (p : List Nat) : List Nat := (p.drop (c.x0 % (8 * c.scale))).take c.width

theorem cropRow_length (c : Ctx) (p : List Nat) (hlen : c.x0 % (8 * c.scale) + c.width ≤ p.length) :
    (cropRow c p).length = c.width := by
  simp only [cropRow, List.length_take, List.length_drop]; omega

theorem cropRow_getD (c : Ctx) (p : List Nat) (x : Nat) (hx : x < c.width) :
    (cropRow c p).getD x 0 = p.getD (c.x0 % (8 * c.scale) + x) 0 := by
  simp only [cropRow]; rw [getD_take _ _ _ _ hx, getD_drop]

theorem cropRow_mem (c : Ctx) (p : List Nat) : ∀ v ∈ cropRow c p, v ∈ p := by
  intro v hv
  exact List.mem_of_mem_drop (List.mem_of_mem_take hv)

theorem mem_pad {q : List Nat} {n v B : Nat} (hB : 0 < B) (hq : ∀ u ∈ q, u < B)
    (hv : v ∈ q ++ List.replicate n 0) : v < B := by
  simp only [List.mem_append, List.mem_replicate] at hv
  rcases hv with hv | ⟨_, rfl⟩
  · exact hq v hv
  · exact hB

/-- Pixel `x` of a packed line is pixel `x` of the cropped row (bit depths 1 and 2). -/
theorem packLine_pixel_lo (c : Ctx) (p : List Nat) (hbd : c.bitDepth = 1 ∨ c.bitDepth = 2)
    (hlen : c.x0 % (8 * c.scale) + c.width ≤ p.length) (hv : ∀ v ∈ p, v < 2 ^ c.bitDepth)
    (x : Nat) (hx : x < c.width) :
    ZxSpec.unpackPixel c.bitDepth (packLine c p) x = (cropRow c p).getD x 0 := by
  have hne : c.bitDepth ≠ 4 := by omega
  have hcl := cropRow_length c p hlen
  have hcv : ∀ v ∈ cropRow c p, v < 2 ^ c.bitDepth := fun v hv' => hv v (cropRow_mem c p v hv')
  unfold packLine ZxSpec.unpackPixel
  simp only [hne, if_false]
  change ((List.map (fromBase (2 ^ c.bitDepth))
      (chunksOf (8 / c.bitDepth)
        (cropRow c p ++ List.replicate ((8 / c.bitDepth - c.width % (8 / c.bitDepth)) % (8 / c.bitDepth)) 0).length
        (cropRow c p ++ List.replicate ((8 / c.bitDepth - c.width % (8 / c.bitDepth)) % (8 / c.bitDepth)) 0))).getD
        (x / (8 / c.bitDepth)) 0 / 2 ^ (c.bitDepth * (8 / c.bitDepth - 1 - x % (8 / c.bitDepth)))) % 2 ^ c.bitDepth = _
  generalize hq : cropRow c p ++ List.replicate ((8 / c.bitDepth - c.width % (8 / c.bitDepth)) % (8 / c.bitDepth)) 0 = q
  have hd : 0 < 8 / c.bitDepth := by rcases hbd with h | h <;> simp [h]
  obtain ⟨k, hk⟩ := pad_multiple c.width (8 / c.bitDepth) hd
  have hql : q.length = k * (8 / c.bitDepth) := by
    rw [← hq, List.length_append, List.length_replicate, hcl, hk]
  have hxq : x < q.length := by rw [← hq, List.length_append, hcl]; omega
  obtain ⟨g1, g2, g3, g4⟩ := packed_group (8 / c.bitDepth) hd q k hql x hxq
  rw [getD_map_of_lt _ _ _ 0 [] g4]
  have hqv : ∀ v ∈ q, v < 2 ^ c.bitDepth := by
    intro v hv'; rw [← hq] at hv'
    exact mem_pad (Nat.pow_pos (by decide)) hcv hv'
  have hqx : q.getD x 0 = (cropRow c p).getD x 0 := by
    rw [← hq, getD_append_left _ _ _ _ (by omega)]
  rw [← hqx, ← g2]
  generalize (chunksOf (8 / c.bitDepth) q.length q).getD (x / (8 / c.bitDepth)) [] = g at g1 g2 g3
  have hgv : ∀ v ∈ g, v < 2 ^ c.bitDepth := fun v hv' => hqv v (g3 v hv')
  rcases hbd with h | h
  · rw [h] at g1 hgv ⊢
    have hj : x % (8 / 1) < 8 := Nat.mod_lt _ (by decide)
    have := digit_bd1 g (by simpa using g1) (by simpa using hgv) (x % (8 / 1)) hj
    simpa using this
  · rw [h] at g1 hgv ⊢
    have hj : x % (8 / 2) < 4 := Nat.mod_lt _ (by decide)
    have := digit_bd2 g (by simpa using g1) (by simpa using hgv) (x % (8 / 2)) hj
    simpa using this

/-- Pixel `x` of a packed line at bit depth 4. -/
theorem packLine_pixel_4 (c : Ctx) (p : List Nat) (hbd : c.bitDepth = 4)
    (hlen : c.x0 % (8 * c.scale) + c.width ≤ p.length) (hv : ∀ v ∈ p, v < 2 ^ c.bitDepth)
    (x : Nat) (hx : x < c.width) :
    ZxSpec.unpackPixel c.bitDepth (packLine c p) x = (cropRow c p).getD x 0 := by
  have hcl := cropRow_length c p hlen
  have hcv : ∀ v ∈ cropRow c p, v < 16 := fun v hv' => by
    have := hv v (cropRow_mem c p v hv'); rw [hbd] at this; simpa using this
  unfold packLine ZxSpec.unpackPixel
  simp only [hbd, if_true]
  change ((List.map (fun g => g.getD 0 0 * 16 + g.getD 1 0)
      (chunksOf 2 (cropRow c p ++ List.replicate (c.width &&& 1) 0).length
        (cropRow c p ++ List.replicate (c.width &&& 1) 0))).getD (x / (8 / 4)) 0
        / 2 ^ (4 * (8 / 4 - 1 - x % (8 / 4)))) % 2 ^ 4 = _
  have hpad : c.width &&& 1 = (2 - c.width % 2) % 2 := by rw [Nat.and_one_is_mod]; omega
  rw [hpad]
  generalize hq : cropRow c p ++ List.replicate ((2 - c.width % 2) % 2) 0 = q
  obtain ⟨k, hk⟩ := pad_multiple c.width 2 (by decide)
  have hql : q.length = k * 2 := by
    rw [← hq, List.length_append, List.length_replicate, hcl, hk]
  have hxq : x < q.length := by rw [← hq, List.length_append, hcl]; omega
  obtain ⟨g1, g2, g3, g4⟩ := packed_group 2 (by decide) q k hql x hxq
  have e84 : 8 / 4 = 2 := by decide
  rw [e84, getD_map_of_lt _ _ _ 0 [] g4]
  have hqv : ∀ v ∈ q, v < 16 := by
    intro v hv'; rw [← hq] at hv'
    exact mem_pad (by decide) hcv hv'
  have hqx : q.getD x 0 = (cropRow c p).getD x 0 := by
    rw [← hq, getD_append_left _ _ _ _ (by omega)]
  rw [← hqx, ← g2]
  generalize (chunksOf 2 q.length q).getD (x / 2) [] = g at g1 g2 g3
  have hgv : ∀ v ∈ g, v < 16 := fun v hv' => hqv v (g3 v hv')
  have hj : x % 2 < 2 := Nat.mod_lt _ (by decide)
  have := digit_bd4 g g1 hgv (x % 2) hj
  simpa using this

/-- Pixel `x` of a packed line, all PNG palette bit depths skoolkit uses. -/
theorem packLine_pixel (c : Ctx) (p : List Nat) (hbd : c.bitDepth = 1 ∨ c.bitDepth = 2 ∨ c.bitDepth = 4)
    (hlen : c.x0 % (8 * c.scale) + c.width ≤ p.length) (hv : ∀ v ∈ p, v < 2 ^ c.bitDepth)
    (x : Nat) (hx : x < c.width) :
    ZxSpec.unpackPixel c.bitDepth (packLine c p) x = (cropRow c p).getD x 0 := by
  rcases hbd with h | h | h
  · exact packLine_pixel_lo c p (Or.inl h) hlen hv x hx
  · exact packLine_pixel_lo c p (Or.inr h) hlen hv x hx
  · exact packLine_pixel_4 c p h hlen hv x hx

/-- Number of bytes of a packed line: `ceil(width * bit_depth / 8)`. -/
theorem packLine_length (c : Ctx) (p : List Nat) (hbd : c.bitDepth = 1 ∨ c.bitDepth = 2 ∨ c.bitDepth = 4)
    (hlen : c.x0 % (8 * c.scale) + c.width ≤ p.length) :
    (packLine c p).length = (c.width * c.bitDepth + 7) / 8 := by
  have hcl := cropRow_length c p hlen
  unfold packLine
  rcases hbd with h | h | h
  · simp only [h, show (1 : Nat) ≠ 4 by decide, if_false, List.length_map]
    change (chunksOf (8 / 1) (cropRow c p ++ List.replicate ((8 / 1 - c.width % (8 / 1)) % (8 / 1)) 0).length
      (cropRow c p ++ List.replicate ((8 / 1 - c.width % (8 / 1)) % (8 / 1)) 0)).length = _
    obtain ⟨k, hk⟩ := pad_multiple c.width (8 / 1) (by decide)
    rw [chunksOf_length (8 / 1) (by decide) _ _ (Nat.le_refl _) k (by
      rw [List.length_append, List.length_replicate, hcl, hk])]
    simp at hk; omega
  · simp only [h, show (2 : Nat) ≠ 4 by decide, if_false, List.length_map]
    change (chunksOf (8 / 2) (cropRow c p ++ List.replicate ((8 / 2 - c.width % (8 / 2)) % (8 / 2)) 0).length
      (cropRow c p ++ List.replicate ((8 / 2 - c.width % (8 / 2)) % (8 / 2)) 0)).length = _
    obtain ⟨k, hk⟩ := pad_multiple c.width (8 / 2) (by decide)
    rw [chunksOf_length (8 / 2) (by decide) _ _ (Nat.le_refl _) k (by
      rw [List.length_append, List.length_replicate, hcl, hk])]
    simp at hk; omega
  · simp only [h, if_true, List.length_map]
    change (chunksOf 2 (cropRow c p ++ List.replicate (c.width &&& 1) 0).length
      (cropRow c p ++ List.replicate (c.width &&& 1) 0)).length = _
    have hpad : c.width &&& 1 = (2 - c.width % 2) % 2 := by rw [Nat.and_one_is_mod]; omega
    rw [hpad]
    obtain ⟨k, hk⟩ := pad_multiple c.width 2 (by decide)
    rw [chunksOf_length 2 (by decide) _ _ (Nat.le_refl _) k (by
      rw [List.length_append, List.length_replicate, hcl, hk])]
    omega

end PngScan
