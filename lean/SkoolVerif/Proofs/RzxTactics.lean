import SkoolVerif.Proofs.MachineLemmas
import SkoolVerif.Prelude.Attrs
/-!
Definitions and generic tactics behind the per-closure theorem families that
`translate/gen_c20.py` emits (`Gen/RzxSimThms.lean`, `Gen/RzxCmioThms.lean`) for C20:
R-register update, locality of port input, and independence of what a snapshot does not preserve.
-/
namespace Z80
variable {μ : Type} [MemLike μ]

/-- Replace the tracer's stream of port readings. -/
def St.withIns (s : St μ) (l : List Int) : St μ := { s with ins := l }

@[simp] theorem St.withIns_ins (s : St μ) (l : List Int) : (s.withIns l).ins = l := rfl

/-- Port input of a state transformer is *local*:
 (a) it either reads nothing, or logs exactly one port and drops the head of the reading stream;
 (b) whether it reads does not depend on the stream;
 (c) provided the stream is non-empty or nothing is read, the unread tail is carried along unchanged
     and influences nothing else. -/
def InLocal (f : St μ → St μ) (s : St μ) : Prop :=
  (((f s).inLog.length = s.inLog.length ∧ (f s).ins = s.ins) ∨
   ((f s).inLog.length = s.inLog.length + 1 ∧ (f s).ins = s.ins.drop 1)) ∧
  (∀ l, (f (s.withIns l)).inLog.length = (f s).inLog.length) ∧
  (∀ e, (s.ins ≠ [] ∨ (f s).inLog.length = s.inLog.length) →
    f (s.withIns (s.ins ++ e)) = (f s).withIns ((f s).ins ++ e))

theorem InLocal.id (s : St μ) : InLocal (fun s => s) s := by
  refine ⟨Or.inl ⟨rfl, rfl⟩, fun l => rfl, fun e _ => ?_⟩
  simp [St.withIns]

theorem readPort_snd (l : List Int) : (readPort l).2 = l.drop 1 := by cases l <;> rfl
theorem readPort_append (l e : List Int) (h : l ≠ []) :
    readPort (l ++ e) = ((readPort l).1, (readPort l).2 ++ e) := by
  cases l with
  | nil => exact absurd rfl h
  | cons v r => rfl

/-- Agreement on everything that survives "stop, write the embedded snapshot, read it back, attach
a new RZX tracer" whichever format the snapshot has: registers 0..23, memory (incl. paging state),
PC, IFF, IM and the pending port readings - but not HALT (kept by SZX in chFlags, absent from
.z80), MEMPTR (absent from .z80), the T-state clock (the resumed block starts at the T-states written
in its header, 0, while the uninterrupted run continues from the 13/19 T-states of the interrupt just
accepted; either way T is reset at the next end of frame) or the port logs (ghost state of the model). -/
def SnapEq (s s' : St μ) : Prop :=
  s.reg = s'.reg ∧ s.mem = s'.mem ∧ s.pc = s'.pc ∧ s.iff = s'.iff ∧ s.im = s'.im ∧ s.ins = s'.ins

theorem SnapEq.refl (s : St μ) : SnapEq s s := ⟨rfl, rfl, rfl, rfl, rfl, rfl⟩
theorem SnapEq.symm {s s' : St μ} (h : SnapEq s s') : SnapEq s' s := by
  obtain ⟨a, b, c, e, f, g⟩ := h; exact ⟨a.symm, b.symm, c.symm, e.symm, f.symm, g.symm⟩
theorem SnapEq.trans {a b c : St μ} (h : SnapEq a b) (h' : SnapEq b c) : SnapEq a c := by
  obtain ⟨a1, a2, a3, a5, a6, a7⟩ := h
  obtain ⟨b1, b2, b3, b5, b6, b7⟩ := h'
  exact ⟨a1.trans b1, a2.trans b2, a3.trans b3, a5.trans b5, a6.trans b6, a7.trans b7⟩

/-- Agreement on everything but the T-state clock (and the ghost port logs): what an embedded SZX
snapshot preserves (it stores MEMPTR and, in chFlags, the HALT state) when the resumed block starts
at the T-states of its header. -/
def ClockEq (s s' : St μ) : Prop :=
  s.reg = s'.reg ∧ s.mem = s'.mem ∧ s.pc = s'.pc ∧ s.iff = s'.iff ∧ s.im = s'.im ∧ s.ins = s'.ins ∧
    s.halt = s'.halt ∧ s.memptr = s'.memptr

theorem ClockEq.toSnapEq {s s' : St μ} (h : ClockEq s s') : SnapEq s s' :=
  ⟨h.1, h.2.1, h.2.2.1, h.2.2.2.1, h.2.2.2.2.1, h.2.2.2.2.2.1⟩

theorem ClockEq.refl (s : St μ) : ClockEq s s := ⟨rfl, rfl, rfl, rfl, rfl, rfl, rfl, rfl⟩

/-- with `int_active = 0` (the configuration `rzxplay` always uses) the test
`T % frame_duration < int_active` of HALT and LD A,I/R never succeeds -/
theorem emod_not_neg (t fd : Int) (h : 0 < fd) : ¬ (t % fd < 0) := by
  have := Int.emod_nonneg t (Int.ne_of_gt h); omega

theorem emod_lt_zero_false (t fd : Int) (h : 0 < fd) : (t % fd < 0) = False := by
  simp only [eq_iff_iff, iff_false]; exact emod_not_neg t fd h

theorem readPort_cons (v : Int) (l : List Int) : readPort (v :: l) = (v, l) := rfl
theorem readPort_nil : readPort [] = (255, []) := rfl

end Z80

open Z80 in
/-- R update of one closure -/
macro "rzx_rupd_tac" : tactic => `(tactic|
  (simp only [sim_handler, Id.run, pure]
   first
   | (simp (config := {decide := true}) [rget_rset, rset_size, *]; done)
   | (simp (config := {decide := true}) [rget_rset, rset_size, *]; grind [rget_rset, rset_size])
   | grind [rget_rset, rset_size]))

open Z80 in
/-- input locality of one closure -/
macro "rzx_inloc_tac" : tactic => `(tactic|
  (unfold InLocal St.withIns
   simp only [sim_handler, Id.run, pure]
   refine ⟨?_, ?_, ?_⟩
   · grind [readPort_snd]
   · grind
   · intro e he
     grind [readPort_append]))

open Z80 in
/-- snapshot-equivalence congruence of one closure -/
macro "rzx_eqv_tac" h:ident hia:ident hfd:ident : tactic => `(tactic|
  (obtain ⟨h1, h2, h3, h5, h6, h7⟩ := $h
   unfold SnapEq
   simp only [sim_handler, Id.run, pure, h1, h2, h3, h5, h6, h7, $hia:ident, emod_lt_zero_false _ _ $hfd, PyInt.p2i,
     if_false, ite_self]
   grind))

open Z80 in
/-- clock-independence of one closure of the contended simulator -/
macro "rzx_ceq_tac" h:ident hia:ident hfd:ident : tactic => `(tactic|
  (obtain ⟨h1, h2, h3, h5, h6, h7, h8, h9⟩ := $h
   unfold ClockEq
   simp only [sim_handler, Id.run, pure, h1, h2, h3, h5, h6, h7, h8, h9, $hia:ident, emod_lt_zero_false _ _ $hfd, PyInt.p2i,
     if_false, ite_self]
   grind))
