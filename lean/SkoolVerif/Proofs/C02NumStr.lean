import SkoolVerif.Proofs.C02Eval
/-!
`eval_int` / `_parse_expr` on every text `OperandFormatter._num_str` emits.
-/
namespace C02L
open OpText AsmEval

theorem hexch_ae (c : Nat) (h : 48 ≤ c ∧ c ≤ 57) : isAeChar c = true := by
  simp [isAeChar, isDigit]; omega

theorem decStr_ae (n : Nat) : ∀ c ∈ decStr n, isAeChar c = true := by
  intro c hc
  rw [decStr_eq_digs] at hc
  exact hexch_ae c (digs_dec_mem true 0 n c hc)

theorem decStr_no_quote (n : Nat) : 34 ∉ decStr n := by
  intro h
  rw [decStr_eq_digs] at h
  have := digs_dec_mem true 0 n 34 h
  omega

theorem digs_no_quote (b : Nat) (hb : 2 ≤ b) (hb16 : b ≤ 16) (up : Bool) (w n : Nat) : 34 ∉ digs b up w n := by
  intro h
  have := digs_hexch b hb hb16 up w n 34 h
  unfold HexCh at this; omega

/-- `-$HH`: not readable by `get_int_param`, evaluated as an expression. -/
theorem evalInt_neg_hex (up : Bool) (w n : Nat) : evalInt (45 :: 36 :: digs 16 up w n) = .ok (-(n : Int)) := by
  have hq : 34 ∉ (45 :: 36 :: digs 16 up w n) := by
    simp only [List.mem_cons, not_or]
    exact ⟨by decide, by decide, digs_no_quote 16 (by omega) (by omega) up w n⟩
  have hsp : ∀ c ∈ (45 :: 36 :: digs 16 up w n), isSpace c = false := by
    intro c hc
    simp only [List.mem_cons] at hc
    rcases hc with rfl | rfl | hc
    · decide
    · decide
    · exact (hexch_not_space c (digs_hexch 16 (by omega) (by omega) up w n c hc)).2
  have hcn : convertNums (45 :: 36 :: digs 16 up w n) = 45 :: decStr n := by
    rw [convertNums, filter_nospace _ hsp]
    have : (45 :: 36 :: digs 16 up w n).length + 1 = (digs 16 up w n).length + 1 + 1 + 1 := by simp
    have h : ∀ f, convNumsAux (f + 1) true (some 45) (36 :: digs 16 up w n) = decStr n := by
      intro f
      have h := cna_hex f true (some 45) up w n [] (by simp)
      simp only [List.append_nil] at h
      rw [h, cna_nil]; simp
    rw [this, cna_minus, h]
  have hae : (45 :: decStr n).all isAeChar = true := by
    simp only [List.all_cons, Bool.and_eq_true]
    exact ⟨by decide, List.all_eq_true.mpr (decStr_ae n)⟩
  simp only [evalInt, gip_neg_hex, convertChars_noquote _ hq, hcn, hae, if_true, evalArith_neg]

/-- Suffix of the `+128` character form: `128` or `$80`. -/
def IsSuffix (sfx : Txt) (m : Nat) : Prop :=
  sfx = decStr m ∨ ∃ up w, sfx = 36 :: digs 16 up w m

theorem suffix_props (sfx : Txt) (m : Nat) (h : IsSuffix sfx m) :
    34 ∉ sfx ∧ (∀ c ∈ sfx, isSpace c = false ∧ isSpaceInt c = false) ∧ sfx ≠ [] := by
  rcases h with rfl | ⟨up, w, rfl⟩
  · refine ⟨decStr_no_quote m, ?_, decStr_ne_nil m⟩
    intro c hc
    rw [decStr_eq_digs] at hc
    have := hexch_not_space c (digs_hexch 10 (by omega) (by omega) true 0 m c hc)
    exact ⟨this.2, this.1⟩
  · refine ⟨?_, ?_, by simp⟩
    · simp only [List.mem_cons, not_or]
      exact ⟨by decide, digs_no_quote 16 (by omega) (by omega) up w m⟩
    · intro c hc
      simp only [List.mem_cons] at hc
      rcases hc with rfl | hc
      · exact ⟨by decide, by decide⟩
      · have := hexch_not_space c (digs_hexch 16 (by omega) (by omega) up w m c hc)
        exact ⟨this.2, this.1⟩

/-- `_convert_nums` turns the suffix into decimal. -/
theorem cna_suffix (f : Nat) (first : Bool) (prev : Option Nat) (sfx : Txt) (m : Nat) (h : IsSuffix sfx m) :
    convNumsAux (f + 1) first prev sfx = decStr m := by
  rcases h with rfl | ⟨up, w, rfl⟩
  · have := cna_dec f first prev m [] (by simp)
    simp only [List.append_nil] at this
    rw [this, cna_nil]; simp
  · have := cna_hex f first prev up w m [] (by simp)
    simp only [List.append_nil] at this
    rw [this, cna_nil]; simp

/-- Expression path for `<q>+<suffix>` where `<q>` converts to `decStr ch`. -/
theorem eval_char_plus (q : Txt) (ch : Nat) (sfx : Txt) (m : Nat) (hs : IsSuffix sfx m)
    (hgip : getIntParam (q ++ 43 :: sfx) = none)
    (hcc : convertChars (q ++ 43 :: sfx) = some (decStr ch ++ 43 :: sfx)) :
    evalInt (q ++ 43 :: sfx) = .ok ((ch : Int) + m) := by
  obtain ⟨hsq, hssp, hsne⟩ := suffix_props sfx m hs
  have hsp : ∀ c ∈ decStr ch ++ 43 :: sfx, isSpace c = false := by
    intro c hc
    simp only [List.mem_append, List.mem_cons] at hc
    rcases hc with hc | rfl | hc
    · rw [decStr_eq_digs] at hc
      exact (hexch_not_space c (digs_hexch 10 (by omega) (by omega) true 0 ch c hc)).2
    · decide
    · exact (hssp c hc).1
  have hcn : convertNums (decStr ch ++ 43 :: sfx) = decStr ch ++ 43 :: decStr m := by
    rw [convertNums, filter_nospace _ hsp]
    have hlen : ∃ k, (decStr ch ++ 43 :: sfx).length + 1 = k + 1 + 1 + 1 := by
      cases hd : decStr ch with
      | nil => exact absurd hd (decStr_ne_nil ch)
      | cons x xs =>
        cases hd2 : sfx with
        | nil => exact absurd hd2 hsne
        | cons y ys => exact ⟨xs.length + ys.length + 1, by simp; omega⟩
    obtain ⟨k, hk⟩ := hlen
    rw [hk, cna_dec _ _ _ ch (43 :: sfx) (by simp [isDigit]), cna_plus, cna_suffix k false (some 43) sfx m hs]
  have hae : (decStr ch ++ 43 :: decStr m).all isAeChar = true := by
    simp only [List.all_append, List.all_cons, Bool.and_eq_true]
    exact ⟨List.all_eq_true.mpr (decStr_ae ch), by decide, List.all_eq_true.mpr (decStr_ae m)⟩
  simp only [evalInt, hgip, hcc, hcn, hae, if_true, evalArith_add]

theorem suffix_last (pre sfx : Txt) (m : Nat) (hs : IsSuffix sfx m) :
    ∀ c, (pre ++ sfx).getLast? = some c → isSpaceInt c = false ∧ c ≠ 34 := by
  intro c hc
  obtain ⟨hsq, hssp, hsne⟩ := suffix_props sfx m hs
  rw [List.getLast?_append] at hc
  cases hd : sfx.getLast? with
  | none => simp [List.getLast?_eq_none_iff] at hd; exact absurd hd hsne
  | some x =>
    rw [hd] at hc; simp at hc; subst hc
    have hx := getLast?_mem _ x hd
    exact ⟨(hssp x hx).2, fun e => hsq (e ▸ hx)⟩

/-- `"c"+128` / `"c"+$80`. -/
theorem evalInt_char_plus (ch : Nat) (h34 : ch ≠ 34) (h92 : ch ≠ 92) (sfx : Txt) (m : Nat)
    (hs : IsSuffix sfx m) : evalInt ([34, ch, 34] ++ 43 :: sfx) = .ok ((ch : Int) + m) := by
  obtain ⟨hsq, hssp, hsne⟩ := suffix_props sfx m hs
  have hlast := suffix_last [34, ch, 34, 43] sfx m hs
  apply eval_char_plus [34, ch, 34] ch sfx m hs
  · have h := pyInt_bad 10 34 ([ch, 34] ++ 43 :: sfx) (by decide) (by decide) (by decide) (by decide)
      (by decide) (fun c hc => (hlast c (by simpa using hc)).1)
    have he : endsWith 34 ([34, ch, 34] ++ 43 :: sfx) = false := by
      simp only [endsWith]
      cases hd : ([34, ch, 34] ++ 43 :: sfx).getLast? with
      | none => simp
      | some x => have := (hlast x (by simpa using hd)).2; simp [this]
    simp only [List.cons_append, List.nil_append] at h he ⊢
    simp [getIntParam, h, startsWith, he]
  · exact convertChars_char ch (43 :: sfx) h34 h92 (by simp [hsq]) (by simp)

/-- `"\""+128` / `"\\"+$80`. -/
theorem evalInt_esc_plus (ch : Nat) (hch : ch ≠ 10) (sfx : Txt) (m : Nat)
    (hs : IsSuffix sfx m) : evalInt ([34, 92, ch, 34] ++ 43 :: sfx) = .ok ((ch : Int) + m) := by
  obtain ⟨hsq, hssp, hsne⟩ := suffix_props sfx m hs
  have hlast := suffix_last [34, 92, ch, 34, 43] sfx m hs
  apply eval_char_plus [34, 92, ch, 34] ch sfx m hs
  · have h := pyInt_bad 10 34 ([92, ch, 34] ++ 43 :: sfx) (by decide) (by decide) (by decide) (by decide)
      (by decide) (fun c hc => (hlast c (by simpa using hc)).1)
    have he : endsWith 34 ([34, 92, ch, 34] ++ 43 :: sfx) = false := by
      simp only [endsWith]
      cases hd : ([34, 92, ch, 34] ++ 43 :: sfx).getLast? with
      | none => simp
      | some x => have := (hlast x (by simpa using hd)).2; simp [this]
    simp only [List.cons_append, List.nil_append] at h he ⊢
    simp [getIntParam, h, startsWith, he]
  · exact convertChars_esc ch (43 :: sfx) hch (by simp [hsq]) (by simp)

/-! ### `fmtNum` and `numStr` -/

/-- Every numeric form reads back (negated for the `m` base). -/
theorem evalInt_fmtNum (cfg : Cfg) (base : Base) (word : Bool) (N : Nat) :
    evalInt (fmtNum cfg base word (N : Int)) = .ok (if base = .m then -(N : Int) else N) := by
  have hg : ∀ t v, getIntParam t = some v → evalInt t = .ok v := by
    intro t v h; simp [evalInt, h]
  have e1 : ∀ up w n, evalInt (37 :: digs 2 up w n) = .ok (n : Int) := fun up w n => hg _ _ (gip_bin up w n)
  have e2 : ∀ up w n, evalInt (digs 10 up w n) = .ok (n : Int) := fun up w n => hg _ _ (gip_dec up w n)
  have e3 : ∀ up w n, evalInt (36 :: digs 16 up w n) = .ok (n : Int) := fun up w n => hg _ _ (gip_hex up w n)
  have e4 : ∀ up w n, evalInt (45 :: digs 10 up w n) = .ok (-(n : Int)) := fun up w n => hg _ _ (gip_neg_dec up w n)
  cases base <;> cases hh : cfg.hex <;> simp only [fmtNum, hexFmt, fmtInt_ofNat, hh] <;>
    simp only [reduceCtorEq, if_false, if_true] <;>
    first | rw [e1] | rw [e2] | rw [e3] | rw [e4] | rw [evalInt_neg_hex]

theorem fmtNum_head (cfg : Cfg) (base : Base) (word : Bool) (N : Nat) :
    (fmtNum cfg base word (N : Int)).head? ≠ some 40 := by
  have hd : ∀ b up w n, (digs b up w n).head? ≠ some 40 → True := fun _ _ _ _ _ => trivial
  have hdec : ∀ up w n, (digs 10 up w n).head? ≠ some 40 := by
    intro up w n h
    have := digs_dec_mem up w n 40 (head?_mem _ _ h); omega
  cases base <;> cases hh : cfg.hex <;> simp [fmtNum, hexFmt, fmtInt_ofNat, hh, hdec]

theorem suffix128 (cfg : Cfg) : IsSuffix (numStrNC cfg 128 1 .n) 128 := by
  cases hh : cfg.hex
  · left
    have := fmtInt_ofNat 10 0 true 128
    simp [numStrNC, fmtNum, hh, decStr_eq_digs] at this ⊢
    exact this
  · right
    have := fmtInt_ofNat 16 2 (!cfg.lower) 128
    refine ⟨!cfg.lower, 2, ?_⟩
    simp [numStrNC, fmtNum, hh, hexFmt] at this ⊢
    exact this

theorem parseExpr_of_eval (t : Txt) (limit : Nat) (x : Int) (hhead : t.head? ≠ some 40)
    (he : evalInt t = .ok x) (habs : x.natAbs < limit) :
    parseExpr t limit false false = .ok (x % (limit : Int)).toNat := by
  have hs : startsWith [40] t = false := by
    cases t with
    | nil => simp [startsWith]
    | cons a as =>
      have : a ≠ 40 := by intro e; subst e; simp at hhead
      simp [startsWith, List.isPrefixOf, Ne.symm this]
  have : ¬ (limit ≤ x.natAbs) := by omega
  simp [parseExpr, hs, he, R.bind, this]

theorem isChar_range (c : Nat) (h : isChar c = true) : 32 ≤ c ∧ c < 127 := by
  simp [isChar] at h; omega

/-- The non-character tail of `_num_str` reads back to the value, for every base. -/
theorem parseExpr_numStrNC (cfg : Cfg) (nbytes : Nat) (hn : nbytes = 1 ∨ nbytes = 2) (v : Nat)
    (hv : v < 256 ^ nbytes) (base : Base) :
    parseExpr (numStrNC cfg v nbytes base) (256 ^ nbytes) false false = .ok v := by
  by_cases hm : base = .m ∧ v ≠ 0
  · obtain ⟨hb, hv0⟩ := hm
    subst hb
    rcases hn with rfl | rfl
    · have hc : ((256 : Int) - (v : Int)) = ((256 - v : Nat) : Int) := by omega
      have he := evalInt_fmtNum cfg .m (decide (((256 - v : Nat) : Int) > 255) || decide (1 > 1)) (256 - v)
      have hh := fmtNum_head cfg .m (decide (((256 - v : Nat) : Int) > 255) || decide (1 > 1)) (256 - v)
      simp only [numStrNC, hv0, ne_eq, not_false_eq_true, and_self, if_true, hc]
      rw [parseExpr_of_eval _ _ _ hh he (by simp at hv ⊢; omega)]
      simp at hv ⊢; omega
    · have hc : ((65536 : Int) - (v : Int)) = ((65536 - v : Nat) : Int) := by omega
      have he := evalInt_fmtNum cfg .m (decide (((65536 - v : Nat) : Int) > 255) || decide (2 > 1)) (65536 - v)
      have hh := fmtNum_head cfg .m (decide (((65536 - v : Nat) : Int) > 255) || decide (2 > 1)) (65536 - v)
      simp only [numStrNC, hv0, ne_eq, not_false_eq_true, and_self, if_true,
        show ((2 : Nat) = 1) = False by simp, if_false, hc]
      rw [parseExpr_of_eval _ _ _ hh he (by simp at hv ⊢; omega)]
      simp at hv ⊢; omega
  · have he := evalInt_fmtNum cfg base (decide ((v : Int) > 255) || decide (nbytes > 1)) v
    have hh := fmtNum_head cfg base (decide ((v : Int) > 255) || decide (nbytes > 1)) v
    simp only [numStrNC, hm, if_false]
    by_cases hb : base = .m
    · have hv0 : v = 0 := by
        by_cases h : v = 0
        · exact h
        · exact absurd ⟨hb, h⟩ hm
      subst hv0
      simp only [hb, if_true] at he
      rw [hb] at hh
      rw [hb, parseExpr_of_eval _ _ _ hh he (by rcases hn with rfl | rfl <;> simp)]
      simp
    · simp only [hb, if_false] at he
      rw [parseExpr_of_eval _ _ _ hh he (by simpa using hv)]
      rcases hn with rfl | rfl <;> simp at hv ⊢ <;> omega

/-- The character forms `"c"`, `"\c"`, `"c"+128`, `"c"+$80` evaluate to the value. -/
theorem numStr_char_eval (cfg : Cfg) (v nbytes : Nat) (hv256 : v < 256) (hic : isChar (v % 128) = true) :
    evalInt (numStr cfg v nbytes .c) = .ok (v : Int) ∧ (numStr cfg v nbytes .c).head? = some 34 := by
  have hg : ∀ t x, getIntParam t = some x → evalInt t = .ok x := by
    intro t x h; simp [evalInt, h]
  have hr := isChar_range _ hic
  simp only [numStr, hv256, hic, and_self, if_true]
  by_cases hq : v % 128 = 34 ∨ v % 128 = 92
  · simp only [hq, if_true]
    by_cases h128 : v ≥ 128
    · simp only [h128, if_true]
      refine ⟨?_, by simp⟩
      have := evalInt_esc_plus (v % 128) (by omega) _ 128 (suffix128 cfg)
      simp only [List.cons_append, List.nil_append] at this ⊢
      rw [this]; congr 1; omega
    · simp only [h128, if_false, List.append_nil]
      refine ⟨?_, by simp⟩
      rw [hg _ _ (gip_esc_char (v % 128))]; congr 1; omega
  · simp only [hq, if_false]
    have h34 : v % 128 ≠ 34 := fun e => hq (Or.inl e)
    have h92 : v % 128 ≠ 92 := fun e => hq (Or.inr e)
    by_cases h128 : v ≥ 128
    · simp only [h128, if_true]
      refine ⟨?_, by simp⟩
      have := evalInt_char_plus (v % 128) h34 h92 _ 128 (suffix128 cfg)
      simp only [List.cons_append, List.nil_append] at this ⊢
      rw [this]; congr 1; omega
    · simp only [h128, if_false, List.append_nil]
      refine ⟨?_, by simp⟩
      rw [hg _ _ (gip_char (v % 128) h34 h92)]; congr 1; omega

/-- Outside the character branch `_num_str` is its numeric tail. -/
theorem numStr_nonchar (cfg : Cfg) (v nbytes : Nat) (base : Base)
    (h : ¬ (base = .c ∧ v < 256 ∧ isChar (v % 128) = true)) :
    numStr cfg v nbytes base = numStrNC cfg v nbytes (if base = .c then .n else base) := by
  by_cases hc : base = .c
  · subst hc
    have : ¬ (v < 256 ∧ isChar (v % 128) = true) := fun h' => h ⟨rfl, h'⟩
    simp [numStr, this]
  · simp [numStr, hc]

/-- A non-negative rendering (any base but `m`) of ANY natural number reads back. -/
theorem numStrNC_eval_nonm (cfg : Cfg) (v nbytes : Nat) (base : Base) (hb : base ≠ .m) :
    evalInt (numStrNC cfg v nbytes base) = .ok (v : Int) ∧ (numStrNC cfg v nbytes base).head? ≠ some 40 := by
  have he := evalInt_fmtNum cfg base (decide ((v : Int) > 255) || decide (nbytes > 1)) v
  have hh := fmtNum_head cfg base (decide ((v : Int) > 255) || decide (nbytes > 1)) v
  simp only [numStrNC, hb, false_and, if_false]
  simp only [hb, if_false] at he
  exact ⟨he, hh⟩

/-- **Operand text round trip**: whatever `_num_str` emits for a value below
`256^num_bytes` — in any base, either case, decimal or hex default — is read
back by `_parse_expr` as that value. -/
theorem parseExpr_numStr (cfg : Cfg) (nbytes : Nat) (hn : nbytes = 1 ∨ nbytes = 2) (v : Nat)
    (hv : v < 256 ^ nbytes) (base : Base) :
    parseExpr (numStr cfg v nbytes base) (256 ^ nbytes) false false = .ok v := by
  by_cases hch : base = .c ∧ v < 256 ∧ isChar (v % 128) = true
  · obtain ⟨rfl, hv256, hic⟩ := hch
    obtain ⟨he, hh⟩ := numStr_char_eval cfg v nbytes hv256 hic
    rw [parseExpr_of_eval _ _ _ (by rw [hh]; decide) he (by simpa using hv)]
    have : (v : Int) % ((256 ^ nbytes : Nat) : Int) = v := Int.emod_eq_of_lt (by omega) (by exact_mod_cast hv)
    rw [this]; simp
  · rw [numStr_nonchar cfg v nbytes base hch]
    exact parseExpr_numStrNC cfg nbytes hn v hv _

/-- The same for any limit when the base is not `m` (used for the DEFS size,
which `format_byte` renders even when it exceeds 255). -/
theorem parseExpr_numStr_wide (cfg : Cfg) (nbytes v limit : Nat) (hv : v < limit) (base : Base)
    (hb : base ≠ .m) : parseExpr (numStr cfg v nbytes base) limit false false = .ok v := by
  have hmod : (v : Int) % (limit : Int) = v := Int.emod_eq_of_lt (by omega) (by exact_mod_cast hv)
  by_cases hch : base = .c ∧ v < 256 ∧ isChar (v % 128) = true
  · obtain ⟨rfl, hv256, hic⟩ := hch
    obtain ⟨he, hh⟩ := numStr_char_eval cfg v nbytes hv256 hic
    rw [parseExpr_of_eval _ _ _ (by rw [hh]; decide) he (by simpa using hv), hmod]; simp
  · rw [numStr_nonchar cfg v nbytes base hch]
    have hb' : (if base = .c then Base.n else base) ≠ .m := by
      split
      · decide
      · exact hb
    obtain ⟨he, hh⟩ := numStrNC_eval_nonm cfg v nbytes _ hb'
    rw [parseExpr_of_eval _ _ _ hh he (by simpa using hv), hmod]; simp

end C02L
