import SkoolVerif.Proofs.SemBitLemmas
/-!
Mask lemmas: the `&`-mask / `%` / comparison idioms with which the closures with inline flag
arithmetic (LD A,I/R, RLD/RRD, 16-bit ADD/ADC/SBC, block instructions) assemble F, restated as
sums of single flag bits (`Z80Spec.fl (Z80Spec.bit v k) mask`), which is how `Z80Spec.mkF` is built.
Each is a kernel enumeration over one byte (or a 9/10-bit range).
-/
namespace C05
open Z80 Z80Spec AluCheck

def iOf (k : Nat) : Int := (k : Int)

theorem byte_masks_all : allLt 256 (fun v =>
    PyInt.land (v : Int) 168 == ((fl (bit v 7) 128 + fl (bit v 5) 32 + fl (bit v 3) 8 : Nat) : Int) &&
    PyInt.land (v : Int) 128 == ((fl (bit v 7) 128 : Nat) : Int) &&
    PyInt.land (v : Int) 193 == ((fl (bit v 7) 128 + fl (bit v 6) 64 + fl (bit v 0) 1 : Nat) : Int) &&
    PyInt.land (v : Int) 196 == ((fl (bit v 7) 128 + fl (bit v 6) 64 + fl (bit v 2) 4 : Nat) : Int) &&
    (v : Int) % 2 == ((fl (bit v 0) 1 : Nat) : Int) &&
    PyInt.land (v : Int) 240 == ((v / 16 * 16 : Nat) : Int) &&
    PyInt.land (v : Int) 16 == ((fl (bit v 4) 16 : Nat) : Int)) = true := by decide +kernel

theorem byte_masks (v : Int) (hv : Byte v) :
    PyInt.land v 168 = ((fl (bit v.toNat 7) 128 + fl (bit v.toNat 5) 32 + fl (bit v.toNat 3) 8 : Nat) : Int) ∧
    PyInt.land v 128 = ((fl (bit v.toNat 7) 128 : Nat) : Int) ∧
    PyInt.land v 193 = ((fl (bit v.toNat 7) 128 + fl (bit v.toNat 6) 64 + fl (bit v.toNat 0) 1 : Nat) : Int) ∧
    PyInt.land v 196 = ((fl (bit v.toNat 7) 128 + fl (bit v.toNat 6) 64 + fl (bit v.toNat 2) 4 : Nat) : Int) ∧
    v % 2 = ((fl (bit v.toNat 0) 1 : Nat) : Int) ∧
    PyInt.land v 240 = ((v.toNat / 16 * 16 : Nat) : Int) ∧
    PyInt.land v 16 = ((fl (bit v.toNat 4) 16 : Nat) : Int) := by
  have := allLt_spec byte_masks_all v.toNat (by unfold Byte at hv; omega)
  have e : ((v.toNat : Nat) : Int) = v := by unfold Byte at hv; omega
  simp only [e, Bool.and_eq_true, beq_iff_eq] at this
  obtain ⟨⟨⟨⟨⟨⟨h1, h2⟩, h3⟩, h4⟩, h5⟩, h6⟩, h7⟩ := this
  exact ⟨h1, h2, h3, h4, h5, h6, h7⟩

/-- `mkF` as a sum -/
theorem mkF_sum (s z f5 h f3 pv n c : Bool) :
    mkF s z f5 h f3 pv n c = fl s 128 + fl z 64 + fl f5 32 + fl h 16 + fl f3 8 + fl pv 4 + fl n 2 + fl c 1 := rfl

theorem fl_false (m : Nat) : fl false m = 0 := rfl
theorem fl_true (m : Nat) : fl true m = m := rfl

theorem p2i_fl (p : Prop) [Decidable p] (m : Nat) : PyInt.p2i p * (m : Int) = ((fl (decide p) m : Nat) : Int) := by
  unfold PyInt.p2i fl
  by_cases h : p <;> simp [h]

end C05
