import SkoolVerif.Model.LoadTape
import SkoolVerif.Gen.Accelerators
import SkoolVerif.Proofs.LoadAccelTsl
/-!
Accelerator selection: the Python (list slice) and C (address wrap-around) signature matchers
agree wherever the signature lies inside the 64K address space, and no two entries of the generated
`ACCELERATORS` table can match the same memory at the same `IN` address — so the order in which the
accelerators are searched (a Python `set`, reordered on every hit; a C array with swaps) cannot
influence the result.
-/
open Z80
namespace LoadTape

theorem sigMatchC_spec (get : Int → Int) (pc : Int) (a : Accel) :
    sigMatchC get pc a = true ↔ ∀ (i : Nat) (x : Int), a.code[i]? = some (some x) → get ((pc - a.c0 + i) % 65536) = x := by
  unfold sigMatchC
  rw [List.all_eq_true]
  constructor
  · intro h i x hi
    have := h (some x, i) (List.mem_zipIdx_iff_getElem?.mpr (by simpa using hi))
    simpa using this
  · intro h p hp
    obtain ⟨b, i⟩ := p
    have hi := List.mem_zipIdx_iff_getElem?.mp hp
    cases b with
    | none => rfl
    | some x => simpa using h i x (by simpa using hi)

theorem sigMatchPy_spec (get : Int → Int) (pc : Int) (a : Accel) :
    sigMatchPy get pc a = true ↔ (0 ≤ pc - a.c0 ∧ pc + a.c1 ≤ 65536) ∧
      ∀ (i : Nat) (x : Int), a.code[i]? = some (some x) → get (pc - a.c0 + i) = x := by
  unfold sigMatchPy
  by_cases hr : pc - a.c0 < 0 ∨ pc + a.c1 > 65536
  · simp only [hr, if_true]
    constructor
    · intro h; cases h
    · intro h; omega
  · simp only [hr, if_false]
    rw [List.all_eq_true]
    constructor
    · intro h
      refine ⟨by omega, ?_⟩
      intro i x hi
      have := h (some x, i) (List.mem_zipIdx_iff_getElem?.mpr (by simpa using hi))
      simpa using this
    · intro h p hp
      obtain ⟨b, i⟩ := p
      have hi := List.mem_zipIdx_iff_getElem?.mp hp
      cases b with
      | none => rfl
      | some x => simpa using h.2 i x (by simpa using hi)

/-- Python's slice comparison and C's wrap-around comparison agree when the signature lies inside
0..65535 (always the case for a loop the tracer looks at: PC ≥ 0x4000 or in the ROM loader). -/
theorem sigMatch_agree (get : Int → Int) (pc : Int) (a : Accel) (hlen : a.c1 = a.code.length - a.c0)
    (h0 : 0 ≤ pc - a.c0) (h1 : pc + a.c1 ≤ 65536) : sigMatchPy get pc a = sigMatchC get pc a := by
  rw [Bool.eq_iff_iff, sigMatchPy_spec, sigMatchC_spec]
  have key : ∀ (i : Nat) (x : Int), a.code[i]? = some (some x) → (pc - a.c0 + i) % 65536 = pc - a.c0 + i := by
    intro i x hi
    have : i < a.code.length := by
      rcases Nat.lt_or_ge i a.code.length with h | h
      · exact h
      · rw [List.getElem?_eq_none h] at hi; cases hi
    omega
  constructor
  · intro h i x hi; rw [key i x hi]; exact h.2 i x hi
  · intro h; exact ⟨⟨h0, h1⟩, fun i x hi => by rw [← key i x hi]; exact h i x hi⟩

/-- the two signatures disagree on a concrete byte at the same distance from the `IN` -/
def conflict (a b : Accel) : Bool :=
  (List.range a.code.length).any fun i =>
    let k := (i : Int) - a.c0 + b.c0
    decide (0 ≤ k) && (match a.code[i]?, b.code[k.toNat]? with
      | some (some x), some (some y) => x != y
      | _, _ => false)

theorem conflict_sound (get : Int → Int) (pc : Int) (a b : Accel) (hc : conflict a b = true)
    (ha : sigMatchC get pc a = true) (hb : sigMatchC get pc b = true) : False := by
  unfold conflict at hc
  rw [List.any_eq_true] at hc
  obtain ⟨i, _, hi⟩ := hc
  simp only [Bool.and_eq_true, decide_eq_true_eq] at hi
  obtain ⟨hk, hm⟩ := hi
  rw [sigMatchC_spec] at ha hb
  split at hm
  · rename_i x y hx hy
    have h1 := ha i x hx
    have h2 := hb _ y hy
    have e : pc - b.c0 + ((((i : Int) - a.c0 + b.c0).toNat : Nat) : Int) = pc - a.c0 + i := by omega
    rw [e, h1] at h2
    simp at hm
    exact hm h2
  · cases hm

def pairwiseConflict (l : List Accel) : Bool := l.all fun a => l.all fun b => a == b || conflict a b

theorem table_pairwise_conflict : pairwiseConflict accelerators = true := by decide +kernel

theorem table_unambiguous (get : Int → Int) (pc : Int) (a b : Accel) (ha : a ∈ accelerators) (hb : b ∈ accelerators)
    (hma : sigMatchC get pc a = true) (hmb : sigMatchC get pc b = true) : a = b := by
  have h := table_pairwise_conflict
  unfold pairwiseConflict at h
  rw [List.all_eq_true] at h
  have h2 := h a ha
  rw [List.all_eq_true] at h2
  have h3 := h2 b hb
  rw [Bool.or_eq_true] at h3
  rcases h3 with h3 | h3
  · exact eq_of_beq h3
  · exact (conflict_sound get pc a b h3 hma hmb).elim

end LoadTape
