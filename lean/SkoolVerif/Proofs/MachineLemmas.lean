import SkoolVerif.Prelude.Machine
/-! Laws of the register array and of lawful memories, used by the generic handler tactics. -/
namespace Z80

theorem rset_size (r : Array Int) (i v : Int) : (rset r i v).size = r.size := by
  unfold rset; split <;> simp

theorem rget_rset (r : Array Int) (i j v : Int) :
    rget (rset r i v) j = if i = j ∧ 0 ≤ i ∧ i < r.size then v else rget r j := by
  unfold rget rset
  by_cases h0 : 0 ≤ i
  · simp only [h0, if_true]
    by_cases hij : i = j
    · subst hij
      by_cases hlt : i < r.size
      · have : i.toNat < r.size := by omega
        simp [hlt, this, h0]
      · have : ¬ i.toNat < r.size := by omega
        simp [hlt, Array.setIfInBounds, this]
    · by_cases hj : 0 ≤ j
      · have : i.toNat ≠ j.toNat := by omega
        simp [hij, hj, Array.getD_eq_getD_getElem?, this]
      · simp [hij, hj]
  · simp [h0]

/-- The part of a memory that models ROM: what "the ROM is never modified" talks about. -/
class RomMem (μ : Type) [MemLike μ] (ρ : outParam Type) where
  romView : μ → ρ
  romView_set : ∀ (m : μ) (a v : Int), 0x3FFF < a → romView (MemLike.set m a v) = romView m
  romView_portOut : ∀ (m : μ) (p v : Int), romView (MemLike.portOut m p v) = romView m

end Z80
