import SkoolVerif.Proofs.C07Trace
import SkoolVerif.Proofs.C07Timing
import SkoolVerif.Proofs.C07Decode
/-!
From per-slot checks to statements about every memory, address and configuration: lengths of the
instruction objects made by the skool disassembler, and what `get_timing` is asked about them.
All tables are parameters here; `Props/C07` instantiates them with the dumped tables and discharges the
check hypotheses by kernel evaluation.
-/
namespace InstrDec
set_option linter.unusedSimpArgs false

/-- the per-slot length check: the disassembler's result is well formed and has the slot's length `L` -/
def disLenP (L : Slot → Nat) (s : Slot) (r : Except DErr SOut) : Bool :=
  match r with
  | .ok so => wfOp so && so.nominal == L s && decide (L s ≤ 4)
  | .error _ => false

theorem disSym_ok {T : DTables} {L : Slot → Nat} (hs : disShape T = true) (hl : allDis T (disLenP L) = true) (c : DCfg)
    (mem : Mem) (hm : ∀ x, mem x < 256) (a : Nat) :
    ∃ so, disSym T c (mem a) (mem ((a + 1) % 65536)) (mem ((a + 3) % 65536)) = .ok so ∧ wfOp so = true ∧
      so.nominal = L (slotOf (mem a) (mem ((a + 1) % 65536)) (mem ((a + 3) % 65536))) ∧ so.nominal ≤ 4 := by
  have h := allDis_spec hs hl c (hm a) (hm ((a + 1) % 65536)) (hm ((a + 3) % 65536))
  cases hd : disSym T c (mem a) (mem ((a + 1) % 65536)) (mem ((a + 3) % 65536)) with
  | error e => simp [hd, disLenP] at h
  | ok so =>
    simp only [hd, disLenP, Bool.and_eq_true, beq_iff_eq, decide_eq_true_eq] at h
    exact ⟨so, rfl, h.1.1, h.1.2, by omega⟩

/-- the skool disassembler never fails a lookup, whatever the configuration, memory and address -/
theorem disasm_ok {T : DTables} {L : Slot → Nat} (hs : disShape T = true) (hl : allDis T (disLenP L) = true) (c : DCfg)
    (mem : Mem) (hm : ∀ x, mem x < 256) (a : Nat) :
    ∃ so, disasm T c mem a = .ok (finish T c mem a so) ∧ wfOp so = true ∧
      so.nominal = L (slotOf (mem a) (mem ((a + 1) % 65536)) (mem ((a + 3) % 65536))) ∧ so.nominal ≤ 4 := by
  obtain ⟨so, h1, h2, h3, h4⟩ := disSym_ok hs hl c mem hm a
  exact ⟨so, by simp [disasm, h1], h2, h3, h4⟩

/-! ### what `get_timing` sees -/

def startsDef : List Nat → Bool
  | d :: e :: f :: _ => (d = 68 ∨ d = 100) ∧ (e = 69 ∨ e = 101) ∧ (f = 70 ∨ f = 102)
  | _ => false

theorem startsWithDef_lit (cs : List Nat) (r : List Piece) : startsWithDef (.lit cs :: r) = startsDef cs := by
  match cs with
  | [] => rfl
  | [_] => rfl
  | [_, _] => rfl
  | _ :: _ :: _ :: _ => rfl

/-- is the (un-truncated) operation a DEF* statement, judged from the decoder's result alone? -/
def symIsDef (directive : List Nat) (mem : Mem) (a : Nat) (so : SOut) : Bool :=
  match so.op with
  | .tmpl (.lit cs :: _) _ => startsDef cs
  | .tmpl _ _ => false
  | .defb _ _ => startsDef directive
  | .jr pre _ _ off =>
    let o := mem ((a + off + 1) % 65536)
    if (o < 128 ∧ a + off + 2 + o < 65536) ∨ (128 ≤ o ∧ 254 ≤ a + off + o ∧ a + off + o - 254 < 65536) then startsDef pre
    else startsDef directive

theorem defbPieces_isDef (d data : List Nat) : startsWithDef (defbPieces d data) = startsDef d := by
  cases data <;> simp [defbPieces, startsWithDef_lit]

theorem evalOp_isDef (d : List Nat) (mem : Mem) (a : Nat) (so : SOut) :
    startsWithDef (evalOp d mem a so.op).1 = symIsDef d mem a so := by
  obtain ⟨op, add, fixed, flags⟩ := so
  cases op with
  | tmpl ps len =>
    cases ps with
    | nil => rfl
    | cons p r =>
      cases p <;> simp only [evalOp, evalPieces, List.flatMap_cons, evalPiece, symIsDef]
      · exact startsWithDef_lit _ _
      · rfl
      · rfl
      · split <;> rfl
      · rfl
      · rfl
      · rfl
  | defb off n => simp only [evalOp, symIsDef]; exact defbPieces_isDef _ _
  | jr pre post hole off =>
    simp only [evalOp, symIsDef]
    split
    · split <;> exact startsWithDef_lit _ _
    · exact defbPieces_isDef _ _

/-- per-slot timing check for a decoder result `so` at slot `s`: unless the result is a DEFB statement, the
timing table has an entry at the slot, `get_timing` looks only at bytes the instruction has, and the
entry's members are exactly `ts` (the simulator's T-state increments for the slot) -/
def timingP (Z : ZTables) (L : Slot → Nat) (s : Slot) (ts : List Int) (r : Except DErr SOut) : Bool :=
  match r with
  | .error _ => false
  | .ok so =>
    match so.op with
    | .defb _ _ => true
    | .tmpl (.lit cs :: _) _ =>
      !startsDef cs && (match tmAt Z s with
        | .timing t => t.toList.all (· ∈ ts) && ts.all (· ∈ t.toList) && decide (needLen s.tbl ≤ L s)
        | _ => false)
    | .tmpl _ _ => false
    | .jr pre _ _ _ =>
      !startsDef pre && (match tmAt Z s with
        | .timing t => t.toList.all (· ∈ ts) && ts.all (· ∈ t.toList) && decide (needLen s.tbl ≤ L s)
        | _ => false)

/-- the bytes of the instruction object when the operation is an instruction (not a DEFB) and either fits
below 65536 or `wrap` is on -/
theorem finish_bytes (T : DTables) (c : DCfg) (mem : Mem) (a : Nat) (so : SOut) (hwf : wfOp so = true) (ha : a < 65536)
    (hn : so.nominal ≤ 65536) (hnd : isDefbAt mem a so = false) (hfit : a + so.nominal ≤ 65536 ∨ c.wrap = true) :
    (finish T c mem a so).bytes = bytesAt mem a so.nominal ∧
    (finish T c mem a so).op = (evalOp (directiveOf T c) mem a so.op).1 := by
  obtain ⟨op, add, fixed, flags⟩ := so
  cases op with
  | defb off n => simp [isDefbAt] at hnd
  | tmpl ps len =>
    simp only [SOut.nominal] at hn hfit ⊢
    simp only [finish, evalOp]
    cases fixed with
    | none =>
      simp only at hn hfit ⊢
      by_cases h1 : a + (len + add) ≤ 65536
      · simp only [h1, if_true]
        exact ⟨slice_eq_bytesAt mem a _ h1, trivial⟩
      · have hw : c.wrap = true := by rcases hfit with h | h; exact absurd h h1; exact h
        simp only [h1, if_false, hw, if_true]
        exact ⟨slice_wrap_eq_bytesAt mem a _ ha (by omega) hn, trivial⟩
    | some k =>
      simp only at hn hfit ⊢
      by_cases h1 : a + k ≤ 65536
      · simp only [h1, if_true]
        exact ⟨slice_eq_bytesAt mem a _ h1, trivial⟩
      · have hw : c.wrap = true := by rcases hfit with h | h; exact absurd h h1; exact h
        simp only [h1, if_false, hw, if_true]
        exact ⟨slice_wrap_eq_bytesAt mem a _ ha (by omega) hn, trivial⟩
  | jr pre post hole off =>
    simp only [wfOp, Bool.and_eq_true, beq_iff_eq, Option.isNone_iff_eq_none] at hwf
    obtain ⟨⟨rfl, rfl⟩, rfl⟩ := hwf
    simp only [isDefbAt, Bool.not_eq_false', jrInRange] at hnd
    have hnd := of_decide_eq_true hnd
    simp only [SOut.nominal, Nat.add_zero] at hn hfit ⊢
    simp only [finish, evalOp, Nat.add_zero, if_pos hnd]
    by_cases h1 : a + 2 ≤ 65536
    · simp only [h1, if_true]
      exact ⟨slice_eq_bytesAt mem a _ h1, trivial⟩
    · have hw : c.wrap = true := by rcases hfit with h | h; exact absurd h h1; exact h
      simp only [h1, if_false, hw, if_true]
      exact ⟨slice_wrap_eq_bytesAt mem a _ ha (by omega) hn, trivial⟩

/-- the instruction object is a DEFB statement when the decoder said so, and when the instruction does not
fit below 65536 and `wrap` is off -/
theorem finish_isDef (T : DTables) (c : DCfg) (mem : Mem) (a : Nat) (so : SOut) (hwf : wfOp so = true) (ha : a < 65536)
    (hd : startsDef (directiveOf T c) = true)
    (h : isDefbAt mem a so = true ∨ (c.wrap = false ∧ 65536 < a + so.nominal)) :
    startsWithDef (finish T c mem a so).op = true := by
  obtain ⟨op, add, fixed, flags⟩ := so
  cases op with
  | tmpl ps len =>
    simp only [isDefbAt, Bool.false_eq_true, false_or, SOut.nominal] at h
    simp only [finish, evalOp, h.1]
    cases fixed with
    | none =>
      simp only at h ⊢
      have : ¬ a + (len + add) ≤ 65536 := by omega
      simp [this, defbPieces_isDef, hd]
    | some k =>
      simp only at h ⊢
      have : ¬ a + k ≤ 65536 := by omega
      simp [this, defbPieces_isDef, hd]
  | defb off n =>
    simp only [wfOp, Bool.and_eq_true, beq_iff_eq, Option.isNone_iff_eq_none] at hwf
    obtain ⟨⟨rfl, rfl⟩, rfl⟩ := hwf
    simp only [finish, evalOp, Nat.add_zero, slice_length]
    have : a + (min (a + n) 65536 - a) ≤ 65536 := by omega
    simp [this, defbPieces_isDef, hd]
  | jr pre post hole off =>
    simp only [wfOp, Bool.and_eq_true, beq_iff_eq, Option.isNone_iff_eq_none] at hwf
    obtain ⟨⟨rfl, rfl⟩, rfl⟩ := hwf
    simp only [finish, evalOp, Nat.add_zero]
    by_cases hr : (mem ((a + 1) % 65536) < 128 ∧ a + 2 + mem ((a + 1) % 65536) < 65536) ∨
        (128 ≤ mem ((a + 1) % 65536) ∧ 254 ≤ a + mem ((a + 1) % 65536) ∧ a + mem ((a + 1) % 65536) - 254 < 65536)
    · have hj : jrInRange mem a := hr
      simp only [isDefbAt, hj, decide_true, Bool.not_true, Bool.false_eq_true, false_or, SOut.nominal, Nat.add_zero] at h
      have : ¬ a + 2 ≤ 65536 := by omega
      simp [hr, this, h.1, defbPieces_isDef, hd]
    · simp only [hr, if_false, slice_length]
      have : a + (min (a + 2) 65536 - a) ≤ 65536 := by omega
      simp [this, defbPieces_isDef, hd]

theorem getTiming_def (Z : ZTables) (bytes : List Nat) : getTiming Z true bytes = .none_ := by
  simp [getTiming]

theorem mem_of_all {α : Type} [DecidableEq α] {l m : List α} (h : l.all (· ∈ m) = true) (x : α) (hx : x ∈ l) : x ∈ m := by
  rw [List.all_eq_true] at h
  simpa using h x hx

/-- what `get_timing` returns for an instruction object of the skool disassembler, in any configuration, for
any memory and address: if it is a timing, its members are exactly `TS` of the slot -/
theorem timing_lift {T : DTables} {Z : ZTables} {L : Slot → Nat} {TS : Slot → List Int}
    (hs : disShape T = true) (hl : allDis T (disLenP L) = true)
    (ht : ForallDis T (fun s r => timingP Z L s (TS s) r))
    (hdef : startsDef T.defb = true ∧ startsDef (lowerCs T.defb) = true)
    (c : DCfg) (mem : Mem) (hm : ∀ x, mem x < 256) (a : Nat) (ha : a < 65536) (r : DOut)
    (hr : disasm T c mem a = .ok r) :
    getTiming Z (startsWithDef r.op) r.bytes = .none_ ∨
    ∃ t, getTiming Z (startsWithDef r.op) r.bytes = .timing t ∧
      tmAt Z (slotOf (mem a) (mem ((a + 1) % 65536)) (mem ((a + 3) % 65536))) = .timing t ∧
      ∀ x, x ∈ t.toList ↔ x ∈ TS (slotOf (mem a) (mem ((a + 1) % 65536)) (mem ((a + 3) % 65536))) := by
  obtain ⟨so, hsym, hwf, hnom, hn4⟩ := disSym_ok hs hl c mem hm a
  have hrr : r = finish T c mem a so := by
    simp only [disasm, hsym] at hr
    exact (Except.ok.inj hr).symm
  subst hrr
  have hchk := disSym_forall hs ht c (hm a) (hm ((a + 1) % 65536)) (hm ((a + 3) % 65536))
  simp only [hsym] at hchk
  have hd : startsDef (directiveOf T c) = true := by
    unfold directiveOf; split
    · exact hdef.2
    · exact hdef.1
  by_cases hdefb : isDefbAt mem a so = true
  · left
    rw [finish_isDef T c mem a so hwf ha hd (Or.inl hdefb)]
    exact getTiming_def Z _
  by_cases hfit : a + so.nominal ≤ 65536 ∨ c.wrap = true
  · have hnd : isDefbAt mem a so = false := by simpa using hdefb
    obtain ⟨hb, hop⟩ := finish_bytes T c mem a so hwf ha (by omega) hnd hfit
    rw [hb, hop, evalOp_isDef]
    obtain ⟨op, add, fixed, flags⟩ := so
    cases op with
    | defb off n => simp [isDefbAt] at hnd
    | tmpl ps len =>
      cases ps with
      | nil => simp [timingP] at hchk
      | cons p rest =>
        cases p <;> simp only [timingP, Bool.false_eq_true] at hchk
        rename_i cs
        simp only [Bool.and_eq_true, Bool.not_eq_true'] at hchk
        simp only [symIsDef, hchk.1]
        cases hz : tmAt Z (slotOf (mem a) (mem ((a + 1) % 65536)) (mem ((a + 3) % 65536))) with
        | timing t =>
          simp only [hz, Bool.and_eq_true, decide_eq_true_eq] at hchk
          right
          refine ⟨t, ?_, rfl, fun x => ⟨mem_of_all hchk.2.1.1 x, mem_of_all hchk.2.1.2 x⟩⟩
          rw [getTiming_bytesAt Z mem a _ ha (by rw [hnom]; exact hchk.2.2), hz]
        | none_ => simp [hz] at hchk
        | keyError => simp [hz] at hchk
        | indexError => simp [hz] at hchk
    | jr pre post hole off =>
      simp only [wfOp, Bool.and_eq_true, beq_iff_eq, Option.isNone_iff_eq_none] at hwf
      obtain ⟨⟨rfl, rfl⟩, rfl⟩ := hwf
      simp only [isDefbAt, Bool.not_eq_false', jrInRange] at hnd
      have hnd := of_decide_eq_true hnd
      simp only [timingP, Bool.and_eq_true, Bool.not_eq_true'] at hchk
      simp only [symIsDef, Nat.add_zero, if_pos hnd, hchk.1]
      cases hz : tmAt Z (slotOf (mem a) (mem ((a + 1) % 65536)) (mem ((a + 3) % 65536))) with
      | timing t =>
        simp only [hz, Bool.and_eq_true, decide_eq_true_eq] at hchk
        right
        refine ⟨t, ?_, rfl, fun x => ⟨mem_of_all hchk.2.1.1 x, mem_of_all hchk.2.1.2 x⟩⟩
        rw [getTiming_bytesAt Z mem a _ ha (by rw [hnom]; exact hchk.2.2), hz]
      | none_ => simp [hz] at hchk
      | keyError => simp [hz] at hchk
      | indexError => simp [hz] at hchk
  · left
    have : c.wrap = false ∧ 65536 < a + so.nominal := by
      constructor
      · cases hw : c.wrap with
        | false => rfl
        | true => exact absurd (Or.inr hw) hfit
      · have : ¬ a + so.nominal ≤ 65536 := fun h => hfit (Or.inl h)
        omega
    rw [finish_isDef T c mem a so hwf ha hd (Or.inr this)]
    exact getTiming_def Z _

end InstrDec
