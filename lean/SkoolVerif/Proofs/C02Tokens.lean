import SkoolVerif.Proofs.C02Case
/-!
Tokenising an instruction: `split_operation(operation, tidy=True)` on a
mnemonic, one space and comma-joined operands built from plain template text
and rendered numbers gives the upper-cased mnemonic and the operands in their
upper-case rendering — quoted characters (even `","`, `" "`, `"\""`) intact.
-/
namespace C02L
open OpText AsmEval OperandSpec

/-- A piece of operand text: template/number characters, or a quoted character. -/
inductive Seg
  | plain (t : Txt)
  | chr (ch : Nat)      -- `"c"`
  | esc (ch : Nat)      -- `"\c"`

def Seg.render : Seg → Txt
  | .plain t => t
  | .chr ch => [34, ch, 34]
  | .esc ch => [34, 92, ch, 34]

/-- What `convert_case(…, lower=False)` makes of the piece. -/
def Seg.upper : Seg → Txt
  | .plain t => t.map upperC
  | s => s.render

/-- Well-formedness: plain text has no quote, comma, backslash or white space
and is not empty; an unescaped quoted character is not `"` or `\`. -/
def Seg.ok : Seg → Prop
  | .plain t => t ≠ [] ∧ ∀ c ∈ t, c ≠ 34 ∧ c ≠ 44 ∧ c ≠ 92 ∧ isSpace c = false
  | .chr ch => ch ≠ 34 ∧ ch ≠ 92
  | .esc _ => True

def renderSegs (segs : List Seg) : Txt := (segs.map Seg.render).flatten
def upperSegs (segs : List Seg) : Txt := (segs.map Seg.upper).flatten

theorem upperC_plain (c : Nat) (h : c ≠ 34 ∧ c ≠ 44 ∧ c ≠ 92 ∧ isSpace c = false) :
    upperC c ≠ 34 ∧ upperC c ≠ 44 ∧ upperC c ≠ 92 ∧ isSpace (upperC c) = false := by
  obtain ⟨h1, h2, h3, h4⟩ := h
  unfold upperC
  split
  · rename_i hc
    simp [isSpace] at h4 ⊢
    omega
  · exact ⟨h1, h2, h3, h4⟩

/-- `convert_case` over a run of segments (outside quotes at both ends). -/
theorem cc_segs : ∀ (segs : List Seg), (∀ s ∈ segs, s.ok) → ∀ (rest : Txt) (leave : Bool) (f : Nat),
    (renderSegs segs ++ rest).length < f →
    ∃ f', rest.length < f' ∧
      convertCaseAux false true f true leave (renderSegs segs ++ rest) =
        upperSegs segs ++ convertCaseAux false true f' true leave rest := by
  intro segs
  induction segs with
  | nil => intro _ rest leave f hf; exact ⟨f, by simpa [renderSegs] using hf, by simp [renderSegs, upperSegs]⟩
  | cons s segs ih =>
    intro hok rest leave f hf
    have hs := hok s (by simp)
    have ih' := ih (fun x hx => hok x (by simp [hx]))
    simp only [renderSegs, upperSegs, List.map_cons, List.flatten_cons, List.append_assoc] at hf ⊢
    cases s with
    | plain t =>
      simp only [Seg.ok] at hs
      simp only [Seg.render, Seg.upper] at hf ⊢
      obtain ⟨k, rfl⟩ : ∃ k, f = k + t.length := ⟨f - t.length, by simp at hf; omega⟩
      rw [ccAux_plain t _ leave k (fun c hc => ⟨(hs.2 c hc).1, (hs.2 c hc).2.2.2⟩)]
      obtain ⟨f', hf', e⟩ := ih' rest leave k (by simp [renderSegs] at hf ⊢; omega)
      exact ⟨f', hf', by rw [← renderSegs, e]; simp [upperSegs]⟩
    | chr ch =>
      simp only [Seg.ok] at hs
      simp only [Seg.render, Seg.upper, List.cons_append, List.nil_append] at hf ⊢
      obtain ⟨k, rfl⟩ : ∃ k, f = k + 1 + 1 + 1 := ⟨f - 3, by simp at hf; omega⟩
      obtain ⟨f', hf', e⟩ := ih' rest leave k (by simp [renderSegs] at hf ⊢; omega)
      refine ⟨f', hf', ?_⟩
      conv => lhs; unfold convertCaseAux
      simp only [show ((34 : Nat) = 92) = False by simp, false_and, if_false, if_true, Bool.not_true,
        Bool.false_eq_true]
      conv => lhs; arg 2; unfold convertCaseAux
      simp only [hs.1, hs.2, false_and, if_false, Bool.false_eq_true]
      conv => lhs; arg 2; arg 2; unfold convertCaseAux
      simp only [show ((34 : Nat) = 92) = False by simp, false_and, if_false, if_true, Bool.not_false]
      rw [← renderSegs, e]
      simp [isSpace, upperC, upperSegs]
    | esc ch =>
      simp only [Seg.render, Seg.upper, List.cons_append, List.nil_append] at hf ⊢
      obtain ⟨k, rfl⟩ : ∃ k, f = k + 1 + 1 + 1 := ⟨f - 3, by simp at hf; omega⟩
      obtain ⟨f', hf', e⟩ := ih' rest leave k (by simp [renderSegs] at hf ⊢; omega)
      refine ⟨f', hf', ?_⟩
      conv => lhs; unfold convertCaseAux
      simp only [show ((34 : Nat) = 92) = False by simp, false_and, if_false, if_true, Bool.not_true,
        Bool.false_eq_true]
      conv => lhs; arg 2; unfold convertCaseAux
      simp only [true_and, if_true]
      conv => lhs; arg 2; arg 2; arg 2; unfold convertCaseAux
      simp only [show ((34 : Nat) = 92) = False by simp, false_and, if_false, if_true, Bool.not_false]
      rw [← renderSegs, e]
      simp [isSpace, upperC, upperSegs]

/-- … and over comma-joined operands. -/
theorem cc_ops : ∀ (ops : List (List Seg)), (∀ o ∈ ops, ∀ s ∈ o, s.ok) → ∀ (rest : Txt) (leave : Bool) (f : Nat),
    (joinSep 44 (ops.map renderSegs) ++ rest).length < f →
    ∃ f', rest.length < f' ∧
      convertCaseAux false true f true leave (joinSep 44 (ops.map renderSegs) ++ rest) =
        joinSep 44 (ops.map upperSegs) ++ convertCaseAux false true f' true leave rest := by
  intro ops
  induction ops with
  | nil => intro _ rest leave f hf; exact ⟨f, by simpa [joinSep] using hf, by simp [joinSep]⟩
  | cons x r ih =>
    intro hok rest leave f hf
    have hx := hok x (by simp)
    cases r with
    | nil =>
      simp only [List.map_cons, List.map_nil, joinSep] at hf ⊢
      exact cc_segs x hx rest leave f hf
    | cons y ys =>
      simp only [List.map_cons, joinSep_cons_cons, List.append_assoc, List.cons_append] at hf ⊢
      obtain ⟨f1, hf1, e1⟩ := cc_segs x hx (44 :: (joinSep 44 (renderSegs y :: ys.map renderSegs) ++ rest)) leave f hf
      rw [e1]
      obtain ⟨k, rfl⟩ : ∃ k, f1 = k + 1 := ⟨f1 - 1, by simp at hf1; omega⟩
      have hc := ccAux_plain [44] (joinSep 44 (renderSegs y :: ys.map renderSegs) ++ rest) leave k
        (by intro c hc; simp at hc; subst hc; exact ⟨by decide, by decide⟩)
      simp only [List.length_singleton, List.cons_append, List.nil_append, List.map_cons, List.map_nil] at hc
      rw [hc]
      have ih' := ih (fun o ho => hok o (by simp [ho])) rest leave k (by
        simp only [List.map_cons] ; simp at hf1 ⊢; omega)
      obtain ⟨f', hf', e⟩ := ih'
      simp only [List.map_cons] at e
      exact ⟨f', hf', by rw [e]; simp [upperC]⟩

/-- Letters of a mnemonic (or any template text without quotes/space). -/
def PlainTxt (t : Txt) : Prop := t ≠ [] ∧ ∀ c ∈ t, c ≠ 34 ∧ c ≠ 44 ∧ c ≠ 92 ∧ isSpace c = false

/-- `convert_case(operation, lower=False, trim=True)` on `MN op1,op2,…`. -/
theorem cc_operation (mn : Txt) (hmn : PlainTxt mn) (ops : List (List Seg)) (hok : ∀ o ∈ ops, ∀ s ∈ o, s.ok) :
    convertCase false true (mn ++ 32 :: joinSep 44 (ops.map renderSegs)) =
      mn.map upperC ++ 32 :: joinSep 44 (ops.map upperSegs) := by
  unfold convertCase
  have e : (mn ++ 32 :: joinSep 44 (ops.map renderSegs)).length + 1 =
      ((joinSep 44 (ops.map renderSegs)).length + 1 + 1) + mn.length := by simp; omega
  rw [e, ccAux_plain mn _ true _ (fun c hc => ⟨(hmn.2 c hc).1, (hmn.2 c hc).2.2.2⟩)]
  conv => lhs; arg 2; unfold convertCaseAux
  simp only [show ((32 : Nat) = 92) = False by simp, false_and, if_false, show ((32 : Nat) = 34) = False by simp,
    show isSpace 32 = true by decide, if_true, Bool.not_true, Bool.false_or]
  obtain ⟨f', _, e2⟩ := cc_ops ops hok [] false ((joinSep 44 (ops.map renderSegs)).length + 1) (by simp)
  simp only [List.append_nil, ccAux_nil] at e2
  rw [e2]

theorem splitFirst_two (m y : Txt) (hm : m ≠ []) (hms : ∀ c ∈ m, isSpace c = false)
    (hy : y ≠ []) (hyh : ∀ c, y.head? = some c → isSpace c = false) :
    splitFirst (m ++ 32 :: y) = [m, y] := by
  have h1 : (m ++ 32 :: y).dropWhile isSpace = m ++ 32 :: y := by
    apply dropWhile_id
    intro c hc
    cases m with
    | nil => exact absurd rfl hm
    | cons a as => simp at hc; subst hc; exact hms _ (by simp)
  have hsp := spanP_append (fun c => !isSpace c) m (32 :: y) (by intro c hc; simp [hms c hc]) (by simp [isSpace])
  simp only [spanP, Prod.mk.injEq] at hsp
  have h2 : (32 :: y).dropWhile isSpace = y := by
    rw [List.dropWhile_cons_of_pos (by decide)]
    exact dropWhile_id _ _ hyh
  unfold splitFirst
  simp only [h1, hsp.1, hsp.2, h2]
  have : ¬ (m ++ 32 :: y = []) := by simp
  simp [this, hy]

/-- `itemEnd` across an upper-cased segment run. -/
theorem itemEnd_upperSegs : ∀ (segs : List Seg), (∀ s ∈ segs, s.ok) → ∀ rest : Txt,
    itemEnd 44 false false (upperSegs segs ++ rest) = itemEnd 44 false false rest := by
  intro segs
  induction segs with
  | nil => intro _ rest; simp [upperSegs]
  | cons s segs ih =>
    intro hok rest
    have hs := hok s (by simp)
    have ih' := ih (fun x hx => hok x (by simp [hx])) rest
    simp only [upperSegs, List.map_cons, List.flatten_cons, List.append_assoc] at ih' ⊢
    cases s with
    | plain t =>
      simp only [Seg.ok] at hs
      simp only [Seg.upper]
      rw [itemEnd_plain_append (t.map upperC) _ false (by
        intro c hc
        simp only [List.mem_map] at hc
        obtain ⟨c0, hc0, rfl⟩ := hc
        have := upperC_plain c0 (hs.2 c0 hc0)
        exact ⟨this.2.1, this.1, this.2.2.1⟩)]
      exact ih'
    | chr ch =>
      simp only [Seg.ok] at hs
      simp only [Seg.upper, Seg.render, List.cons_append, List.nil_append]
      by_cases h44 : ch = 44
      · simp [itemEnd, h44]; exact ih'
      · simp [itemEnd, h44, hs.1, hs.2]; exact ih'
    | esc ch =>
      simp only [Seg.upper, Seg.render, List.cons_append, List.nil_append]
      by_cases h44 : ch = 44
      · simp [itemEnd, h44]; exact ih'
      · simp [itemEnd, h44]; exact ih'

theorem tidy_append (a b : Txt) (ha : Tidy a) (hb : b = [] ∨ Tidy b) : Tidy (a ++ b) := by
  rcases hb with rfl | hb
  · simpa using ha
  · refine ⟨by simp [ha.1], ?_, ?_⟩
    · intro c hc
      cases a with
      | nil => exact absurd rfl ha.1
      | cons x xs => simp at hc; subst hc; exact ha.2.1 _ (by simp)
    · intro c hc
      rw [List.getLast?_append] at hc
      cases hg : b.getLast? with
      | none => simp [List.getLast?_eq_none_iff] at hg; exact absurd hg hb.1
      | some z => rw [hg] at hc; simp at hc; subst hc; exact hb.2.2 _ hg

theorem seg_upper_tidy (s : Seg) (hs : s.ok) : Tidy s.upper := by
  cases s with
  | plain t =>
    simp only [Seg.ok] at hs
    have hall : ∀ c ∈ t.map upperC, isSpace c = false := by
      intro c hc
      simp only [List.mem_map] at hc
      obtain ⟨c0, hc0, rfl⟩ := hc
      exact (upperC_plain c0 (hs.2 c0 hc0)).2.2.2
    exact ⟨by simp [Seg.upper, hs.1], fun c hc => hall c (head?_mem _ c hc), fun c hc => hall c (getLast?_mem _ c hc)⟩
  | chr ch => exact ⟨by simp [Seg.upper, Seg.render], by simp [Seg.upper, Seg.render, isSpace],
      by simp [Seg.upper, Seg.render, isSpace]⟩
  | esc ch => exact ⟨by simp [Seg.upper, Seg.render], by simp [Seg.upper, Seg.render, isSpace],
      by simp [Seg.upper, Seg.render, isSpace]⟩

theorem upperSegs_tidy : ∀ (segs : List Seg), segs ≠ [] → (∀ s ∈ segs, s.ok) → Tidy (upperSegs segs) := by
  intro segs
  induction segs with
  | nil => intro h; exact absurd rfl h
  | cons s segs ih =>
    intro _ hok
    simp only [upperSegs, List.map_cons, List.flatten_cons]
    apply tidy_append _ _ (seg_upper_tidy s (hok s (by simp)))
    cases segs with
    | nil => left; simp
    | cons y ys => right; exact ih (by simp) (fun x hx => hok x (by simp [hx]))

/-- **Tokenising a rendered instruction.**  For a mnemonic `mn` (template text
without quotes, commas or spaces) and operands made of template text and
quoted characters, `split_operation(mn + ' ' + ','.join(operands), tidy=True)`
is the upper-cased mnemonic followed by the operands with everything outside
quotes upper-cased and everything inside quotes untouched. -/
theorem splitOperation_render (mn : Txt) (hmn : PlainTxt mn) (ops : List (List Seg)) (hne : ops ≠ [])
    (hops : ∀ o ∈ ops, o ≠ [] ∧ ∀ s ∈ o, s.ok) :
    splitOperation (mn ++ 32 :: joinSep 44 (ops.map renderSegs)) = mn.map upperC :: ops.map upperSegs := by
  have hok : ∀ o ∈ ops, ∀ s ∈ o, s.ok := fun o ho => (hops o ho).2
  have hitems : ∀ it ∈ ops.map upperSegs, SafeItem 44 it ∧ Tidy it := by
    intro it hit
    simp only [List.mem_map] at hit
    obtain ⟨o, ho, rfl⟩ := hit
    refine ⟨?_, upperSegs_tidy o (hops o ho).1 (hok o ho)⟩
    have := itemEnd_upperSegs o (hok o ho) []
    simpa [SafeItem, itemEnd] using this
  have hne' : ops.map upperSegs ≠ [] := by simpa using hne
  have hJ := joinSep_last 44 (ops.map upperSegs) hne' (fun it hi => (hitems it hi).2)
  have hhead : ∀ c, (joinSep 44 (ops.map upperSegs)).head? = some c → isSpace c = false := by
    cases hm : ops.map upperSegs with
    | nil => exact absurd hm hne'
    | cons x r =>
      have hx := (hitems x (by simp [hm])).2
      rw [joinSep_head 44 x r hx.1]
      exact hx.2.1
  have hmu : ∀ c ∈ mn.map upperC, isSpace c = false := by
    intro c hc
    simp only [List.mem_map] at hc
    obtain ⟨c0, hc0, rfl⟩ := hc
    exact (upperC_plain c0 (hmn.2 c0 hc0)).2.2.2
  unfold splitOperation
  rw [cc_operation mn hmn ops hok, splitFirst_two _ _ (by simp [hmn.1]) hmu hJ.1 hhead]
  simp only [splitOperands_joinSep _ hne' hitems]

theorem numCh_ne92 {c : Nat} (h : NumCh c) : c ≠ 92 := by
  unfold NumCh HexCh at h; omega

theorem numStrNC_seg (cfg : Cfg) (v nbytes : Nat) (base : Base) (pre : Txt)
    (hpre : ∀ c ∈ pre, c = 43) :
    (Seg.plain (pre ++ numStrNC cfg v nbytes base)).ok ∧
    (Seg.plain (pre ++ numStrNC cfg v nbytes base)).upper = pre ++ numStrNC { cfg with lower := false } v nbytes base := by
  have hp := numStrNC_plain cfg v nbytes base
  have hch := numStrNC_numch cfg v nbytes base
  constructor
  · refine ⟨by simp [hp.1], ?_⟩
    intro c hc
    simp only [List.mem_append] at hc
    rcases hc with hc | hc
    · rw [hpre c hc]; decide
    · have := (hch c hc).plain
      exact ⟨this.2.1, this.1, numCh_ne92 (hch c hc), this.2.2⟩
  · have hu : pre.map upperC = pre := by
      conv => rhs; rw [← List.map_id pre]
      apply List.map_congr_left
      intro c hc; rw [hpre c hc]; decide
    have := cc_numStrNC cfg v nbytes base
    rw [cc_plain _ hp] at this
    simp [Seg.upper, hu, this]

/-- Every rendered number is a run of segments: its tidied form is the upper-case rendering. -/
theorem numStr_segs (cfg : Cfg) (v nbytes : Nat) (base : Base) :
    ∃ segs : List Seg, segs ≠ [] ∧ (∀ s ∈ segs, s.ok) ∧ renderSegs segs = numStr cfg v nbytes base ∧
      upperSegs segs = numStr { cfg with lower := false } v nbytes base := by
  by_cases hch : base = .c ∧ v < 256 ∧ isChar (v % 128) = true
  · obtain ⟨rfl, hv256, hic⟩ := hch
    obtain ⟨hok, hup⟩ := numStrNC_seg cfg 128 1 .n [43] (by simp)
    by_cases hq : v % 128 = 34 ∨ v % 128 = 92
    · by_cases h128 : v ≥ 128
      · refine ⟨[.esc (v % 128), .plain ([43] ++ numStrNC cfg 128 1 .n)], by simp, ?_, ?_, ?_⟩
        · intro s hs; simp at hs; rcases hs with rfl | rfl
          · trivial
          · exact hok
        · simp [renderSegs, Seg.render, numStr, hv256, hic, hq, h128]
        · simp only [upperSegs, List.map_cons, List.map_nil, List.flatten_cons, List.flatten_nil, hup]
          simp [Seg.upper, Seg.render, numStr, hv256, hic, hq, h128]
      · refine ⟨[.esc (v % 128)], by simp, by intro s hs; simp at hs; subst hs; trivial, ?_, ?_⟩
        · simp [renderSegs, Seg.render, numStr, hv256, hic, hq, h128]
        · simp [upperSegs, Seg.upper, Seg.render, numStr, hv256, hic, hq, h128]
    · have h34 : v % 128 ≠ 34 := fun e => hq (Or.inl e)
      have h92 : v % 128 ≠ 92 := fun e => hq (Or.inr e)
      by_cases h128 : v ≥ 128
      · refine ⟨[.chr (v % 128), .plain ([43] ++ numStrNC cfg 128 1 .n)], by simp, ?_, ?_, ?_⟩
        · intro s hs; simp at hs; rcases hs with rfl | rfl
          · exact ⟨h34, h92⟩
          · exact hok
        · simp [renderSegs, Seg.render, numStr, hv256, hic, hq, h128]
        · simp only [upperSegs, List.map_cons, List.map_nil, List.flatten_cons, List.flatten_nil, hup]
          simp [Seg.upper, Seg.render, numStr, hv256, hic, hq, h128]
      · refine ⟨[.chr (v % 128)], by simp, by intro s hs; simp at hs; subst hs; exact ⟨h34, h92⟩, ?_, ?_⟩
        · simp [renderSegs, Seg.render, numStr, hv256, hic, hq, h128]
        · simp [upperSegs, Seg.upper, Seg.render, numStr, hv256, hic, hq, h128]
  · obtain ⟨hok, hup⟩ := numStrNC_seg cfg v nbytes (if base = .c then .n else base) [] (by simp)
    refine ⟨[.plain (numStrNC cfg v nbytes (if base = .c then .n else base))], by simp, ?_, ?_, ?_⟩
    · intro s hs; simp at hs; subst hs; simpa using hok
    · simp [renderSegs, Seg.render, numStr_nonchar cfg v nbytes base hch]
    · rw [numStr_nonchar _ v nbytes base hch]
      simpa [upperSegs] using hup

end C02L
