import SkoolVerif.Gen.RzxSimThms
import SkoolVerif.Proofs.SimStep
import SkoolVerif.Model.RzxPlay
import SkoolVerif.Spec.RzxM1
/-!
C20, fetch counting (plain simulator): what `process_block` / `exec_frame` subtract from the fetch
counter per executed instruction equals the number of M1 cycles of the instruction (independent
spec `Spec.m1`, from the opcode bytes) and equals the R increment of the closure the dispatch
tables select.  Finite parts are kernel-decided over all 7 × 256 slots of the *generated* tables.
-/
namespace Rzx
open Z80 Sim

/-- the R table that adds `n` -/
def rTbl (n : Int) : TblI1 := if n = 1 then .R1 else .R2

/-! ### Parity of the R tables (kernel enumeration) -/

theorem range_all {p : Nat → Bool} {n : Nat} (h : (List.range n).all p = true) (k : Nat) (hk : k < n) :
    p k = true := by
  rw [List.all_eq_true] at h
  exact h k (List.mem_range.mpr hk)

def ckParity : Bool := (List.range 256).all fun r =>
  (PyInt.xor (Tbl.R1 r) r) % 2 == 1 && (PyInt.xor (Tbl.R2 r) r) % 2 == 0 &&
  PyInt.land (PyInt.xor (Tbl.R1 r) r) 1 == 1 && PyInt.land (PyInt.xor (Tbl.R2 r) r) 1 == 0

theorem ckParity_ok : ckParity = true := by decide +kernel

theorem R_parity (r : Int) (h0 : 0 ≤ r) (h1 : r < 256) :
    (PyInt.xor (Tbl.R1 r) r) % 2 = 1 ∧ (PyInt.xor (Tbl.R2 r) r) % 2 = 0 ∧
    PyInt.land (PyInt.xor (Tbl.R1 r) r) 1 = 1 ∧ PyInt.land (PyInt.xor (Tbl.R2 r) r) 1 = 0 := by
  have h := range_all ckParity_ok r.toNat (by omega)
  have e : ((r.toNat : Nat) : Int) = r := Int.toNat_of_nonneg h0
  simp only [e, Bool.and_eq_true, beq_iff_eq] at h
  exact ⟨h.1.1.1, h.1.1.2, h.1.2, h.2⟩

/-- `accept_interrupt`'s `R1[…]` in the hand model is the generated table -/
theorem r1_eq (r : Int) : Rzx.r1 r = Tbl.R1 r := rfl

/-! ### The dispatch tables (kernel-checked over all slots) -/

def dflt : Instr := .prefix_ .MAIN

/-- MAIN: the four prefix bytes dispatch to the prefix tables; every other slot is a closure that
adds 1 to R and does not write R otherwise. -/
def ckMAIN : Bool := (List.range 256).all fun b =>
  let i := tbl_MAIN.getD b dflt
  if b = 0xCB then i == .prefix_ .CB else if b = 0xED then i == .prefix_ .ED
  else if b = 0xDD then i == .prefix_ .DD else if b = 0xFD then i == .prefix_ .FD
  else rIncOf i == some .R1 && !writesR i

/-- CB, ED: every slot is a closure that adds 2 to R (ED 4F, LD R,A, then overwrites R). -/
def ckCBED : Bool := (List.range 256).all fun b =>
  rIncOf (tbl_CB.getD b dflt) == some .R2 && !writesR (tbl_CB.getD b dflt) &&
  rIncOf (tbl_ED.getD b dflt) == some .R2 && (writesR (tbl_ED.getD b dflt) == decide (b = 0x4F))

/-- DD, FD: CB dispatches to the DDCB/FDCB table; a slot whose opcode the prefix modifies adds 2 to
R; every other slot is the 1-byte "prefix on its own" closure and adds 1. -/
def ckXY (t : Array Instr) (t2 : OpTbl) : Bool := (List.range 256).all fun b =>
  let i := t.getD b dflt
  if b = 0xCB then i == .prefix2_ t2
  else rIncOf i == some (if b ∈ Spec.indexable then .R2 else .R1) && !writesR i

/-- DDCB, FDCB: every slot adds 2 to R. -/
def ckXYCB : Bool := (List.range 256).all fun b =>
  rIncOf (tbl_DDCB.getD b dflt) == some .R2 && !writesR (tbl_DDCB.getD b dflt) &&
  rIncOf (tbl_FDCB.getD b dflt) == some .R2 && !writesR (tbl_FDCB.getD b dflt)

theorem ckMAIN_ok : ckMAIN = true := by decide +kernel
theorem ckCBED_ok : ckCBED = true := by decide +kernel
theorem ckDD_ok : ckXY tbl_DD .DDCB = true := by decide +kernel
theorem ckFD_ok : ckXY tbl_FD .FDCB = true := by decide +kernel
theorem ckXYCB_ok : ckXYCB = true := by decide +kernel

theorem get_eq (t : OpTbl) (b : Int) : t.get b = t.arr.getD b.toNat dflt := rfl

variable {μ : Type} [MemLike μ]

theorem leafOf2_of_leaf (s : St μ) (i : Instr) (t : TblI1) (h : rIncOf i = some t) : leafOf2 s i = i := by
  cases i <;> first | rfl | simp [rIncOf] at h

theorem leafOf1_of_leaf (s : St μ) (i : Instr) (t : TblI1) (h : rIncOf i = some t) : leafOf1 s i = i := by
  cases i <;> first | rfl | simp [rIncOf] at h

theorem main_CB : OpTbl.get .MAIN 0xCB = .prefix_ .CB := by decide +kernel
theorem main_ED : OpTbl.get .MAIN 0xED = .prefix_ .ED := by decide +kernel
theorem main_DD : OpTbl.get .MAIN 0xDD = .prefix_ .DD := by decide +kernel
theorem main_FD : OpTbl.get .MAIN 0xFD = .prefix_ .FD := by decide +kernel

/-- a byte read from memory -/
def IsByte (v : Int) : Prop := 0 ≤ v ∧ v < 256

theorem main_slot (b : Int) (hb : IsByte b) :
    (b = 0xCB → OpTbl.get .MAIN b = .prefix_ .CB) ∧ (b = 0xED → OpTbl.get .MAIN b = .prefix_ .ED) ∧
    (b = 0xDD → OpTbl.get .MAIN b = .prefix_ .DD) ∧ (b = 0xFD → OpTbl.get .MAIN b = .prefix_ .FD) ∧
    (b ≠ 0xCB → b ≠ 0xED → b ≠ 0xDD → b ≠ 0xFD →
      rIncOf (OpTbl.get .MAIN b) = some .R1 ∧ writesR (OpTbl.get .MAIN b) = false) := by
  have h := range_all ckMAIN_ok b.toNat (by have := hb.2; have := hb.1; omega)
  refine ⟨?_, ?_, ?_, ?_, ?_⟩
  · intro e; subst e; exact main_CB
  · intro e; subst e; exact main_ED
  · intro e; subst e; exact main_DD
  · intro e; subst e; exact main_FD
  · intro h1 h2 h3 h4
    have n1 : b.toNat ≠ 0xCB := by have := hb.1; omega
    have n2 : b.toNat ≠ 0xED := by have := hb.1; omega
    have n3 : b.toNat ≠ 0xDD := by have := hb.1; omega
    have n4 : b.toNat ≠ 0xFD := by have := hb.1; omega
    simp only [n1, n2, n3, n4, if_false, Bool.and_eq_true, beq_iff_eq, Bool.not_eq_true'] at h
    exact h

theorem cbed_slot (b : Int) (hb : IsByte b) :
    rIncOf (OpTbl.get .CB b) = some .R2 ∧ writesR (OpTbl.get .CB b) = false ∧ rIncOf (OpTbl.get .ED b) = some .R2 := by
  have h := range_all ckCBED_ok b.toNat (by have := hb.2; have := hb.1; omega)
  simp only [Bool.and_eq_true, beq_iff_eq, Bool.not_eq_true'] at h
  exact ⟨h.1.1.1, h.1.1.2, h.1.2⟩

theorem xy_slot (t : OpTbl) (t2 : OpTbl)     (hck : ckXY t.arr t2 = true) (b : Int) (hb : IsByte b) :
    (b = 0xCB → t.get b = .prefix2_ t2) ∧
    (b ≠ 0xCB → rIncOf (t.get b) = some (if b.toNat ∈ Spec.indexable then .R2 else .R1) ∧ writesR (t.get b) = false) := by
  have h := range_all hck b.toNat (by have := hb.2; have := hb.1; omega)
  constructor
  · intro e
    have : b.toNat = 0xCB := by omega
    simp only [this, if_true, beq_iff_eq] at h
    rw [get_eq, this]; exact h
  · intro n
    have n1 : b.toNat ≠ 0xCB := by have := hb.1; omega
    simp only [n1, if_false, Bool.and_eq_true, beq_iff_eq, Bool.not_eq_true'] at h
    exact h

theorem xycb_slot (b : Int) (hb : IsByte b) :
    rIncOf (OpTbl.get .DDCB b) = some .R2 ∧ writesR (OpTbl.get .DDCB b) = false ∧
    rIncOf (OpTbl.get .FDCB b) = some .R2 ∧ writesR (OpTbl.get .FDCB b) = false := by
  have h := range_all ckXYCB_ok b.toNat (by have := hb.2; have := hb.1; omega)
  simp only [Bool.and_eq_true, beq_iff_eq, Bool.not_eq_true'] at h
  exact ⟨h.1.1.1, h.1.1.2, h.1.2, h.2⟩

/-- The closure selected for the instruction at PC applies the R table that adds `Spec.m1`, and -
unless the instruction is ED-prefixed - does not write R in any other way. -/
theorem leaf_m1 (s : St μ) (hb0 : IsByte (mget s.mem s.pc)) (hb1 : IsByte (mget s.mem ((s.pc + 1) % 65536)))
    (hb3 : IsByte (mget s.mem ((s.pc + 3) % 65536))) :
    rIncOf (leafOf s) = some (rTbl (Spec.m1 (mget s.mem s.pc) (mget s.mem ((s.pc + 1) % 65536)))) ∧
    (mget s.mem s.pc ≠ 0xED → writesR (leafOf s) = false) := by
  generalize hm0 : mget s.mem s.pc = b0 at *
  generalize hm1 : mget s.mem ((s.pc + 1) % 65536) = b1 at *
  generalize hm3 : mget s.mem ((s.pc + 3) % 65536) = b3 at *
  obtain ⟨mCB, mED, mDD, mFD, mOther⟩ := main_slot b0 hb0
  unfold leafOf
  rw [hm0]
  by_cases hCB : b0 = 0xCB
  · rw [mCB hCB]; simp only [leafOf1, hm1]
    have h := cbed_slot b1 hb1
    have hl : leafOf2 s (OpTbl.get .CB b1) = OpTbl.get .CB b1 := leafOf2_of_leaf s _ _ h.1
    rw [hl]; subst hCB
    exact ⟨by simp [Spec.m1, rTbl, h.1], fun _ => h.2.1⟩
  by_cases hED : b0 = 0xED
  · rw [mED hED]; simp only [leafOf1, hm1]
    have h := cbed_slot b1 hb1
    have hl : leafOf2 s (OpTbl.get .ED b1) = OpTbl.get .ED b1 := leafOf2_of_leaf s _ _ h.2.2
    rw [hl]; subst hED
    exact ⟨by simp [Spec.m1, rTbl, h.2.2], fun h => absurd rfl h⟩
  by_cases hDD : b0 = 0xDD
  · rw [mDD hDD]; simp only [leafOf1, hm1]
    obtain ⟨x1, x2⟩ := xy_slot .DD .DDCB ckDD_ok b1 hb1
    subst hDD
    by_cases hcb : b1 = 0xCB
    · rw [x1 hcb]; simp only [leafOf2, hm3]
      have h := xycb_slot b3 hb3
      subst hcb
      exact ⟨by simp [Spec.m1, rTbl, h.1, Spec.indexable], fun _ => h.2.1⟩
    · obtain ⟨y1, y2⟩ := x2 hcb
      have hl : leafOf2 s (OpTbl.get .DD b1) = OpTbl.get .DD b1 := leafOf2_of_leaf s _ _ y1
      rw [hl]
      refine ⟨?_, fun _ => y2⟩
      rw [y1]; simp only [Spec.m1, rTbl]
      by_cases hi : b1.toNat ∈ Spec.indexable <;> simp [hi]
  by_cases hFD : b0 = 0xFD
  · rw [mFD hFD]; simp only [leafOf1, hm1]
    obtain ⟨x1, x2⟩ := xy_slot .FD .FDCB ckFD_ok b1 hb1
    subst hFD
    by_cases hcb : b1 = 0xCB
    · rw [x1 hcb]; simp only [leafOf2, hm3]
      have h := xycb_slot b3 hb3
      subst hcb
      exact ⟨by simp [Spec.m1, rTbl, h.2.2.1, Spec.indexable], fun _ => h.2.2.2⟩
    · obtain ⟨y1, y2⟩ := x2 hcb
      have hl : leafOf2 s (OpTbl.get .FD b1) = OpTbl.get .FD b1 := leafOf2_of_leaf s _ _ y1
      rw [hl]
      refine ⟨?_, fun _ => y2⟩
      rw [y1]; simp only [Spec.m1, rTbl]
      by_cases hi : b1.toNat ∈ Spec.indexable <;> simp [hi]
  · obtain ⟨y1, y2⟩ := mOther hCB hED hDD hFD
    have hl : leafOf1 s (OpTbl.get .MAIN b0) = OpTbl.get .MAIN b0 := leafOf1_of_leaf s _ _ y1
    rw [hl]
    exact ⟨by simp [Spec.m1, rTbl, hCB, hED, hDD, hFD, y1], fun _ => y2⟩

/-- **Fetch counting (Python loop).**  For every state whose register file has its 24 slots, whose R
is a byte and whose opcode bytes are bytes: the amount `process_block` subtracts from the fetch
counter for the instruction at PC is the number of M1 cycles of that instruction. -/
theorem fetchDec_eq_m1 (cfg : Cfg) (s : St μ) (hs : 15 < s.reg.size)
    (hR : IsByte (rget s.reg 15)) (hb0 : IsByte (mget s.mem s.pc))
    (hb1 : IsByte (mget s.mem ((s.pc + 1) % 65536))) (hb3 : IsByte (mget s.mem ((s.pc + 3) % 65536))) :
    fetchDec (mget s.mem s.pc) (rget s.reg 15) (rget (step cfg s).reg 15) =
      Spec.m1 (mget s.mem s.pc) (mget s.mem ((s.pc + 1) % 65536)) := by
  obtain ⟨hl, hw⟩ := leaf_m1 s hb0 hb1 hb3
  by_cases hx : mget s.mem s.pc = 0xDD ∨ mget s.mem s.pc = 0xFD
  · have hne : mget s.mem s.pc ≠ 0xED := by rcases hx with h | h <;> rw [h] <;> decide
    have hupd := rupd_execLeaf cfg (leafOf s) _ hl (hw hne) s hs
    rw [← step_eq] at hupd
    obtain ⟨p1, p2, _, _⟩ := R_parity (rget s.reg 15) hR.1 hR.2
    unfold fetchDec; simp only [hx, if_true]
    rw [hupd]
    have hm : Spec.m1 (mget s.mem s.pc) (mget s.mem ((s.pc + 1) % 65536)) =
        if (mget s.mem ((s.pc + 1) % 65536)).toNat ∈ Spec.indexable then 2 else 1 := by
      unfold Spec.m1
      rcases hx with h | h <;> rw [h] <;> simp
    rw [hm]
    by_cases hi : (mget s.mem ((s.pc + 1) % 65536)).toNat ∈ Spec.indexable
    · simp [hi, rTbl, TblI1.get, p2]
    · simp [hi, rTbl, TblI1.get, p1]
  · unfold fetchDec Spec.m1
    simp only [hx, if_false]

/-- Only LD R,A (ED 4F) selects a closure that is told to write register 15. -/
theorem leaf_noWriteR (s : St μ) (hb0 : IsByte (mget s.mem s.pc))
    (hb1 : IsByte (mget s.mem ((s.pc + 1) % 65536))) (hb3 : IsByte (mget s.mem ((s.pc + 3) % 65536)))
    (hne : ¬ (mget s.mem s.pc = 0xED ∧ mget s.mem ((s.pc + 1) % 65536) = 0x4F)) :
    writesR (leafOf s) = false := by
  obtain ⟨_, hw⟩ := leaf_m1 s hb0 hb1 hb3
  by_cases hed : mget s.mem s.pc = 0xED
  · -- ED table: only slot 4F writes R
    have h := range_all ckCBED_ok (mget s.mem ((s.pc + 1) % 65536)).toNat (by have := hb1.2; have := hb1.1; omega)
    simp only [Bool.and_eq_true, beq_iff_eq] at h
    have hw' := h.2
    have hn : (mget s.mem ((s.pc + 1) % 65536)).toNat ≠ 0x4F := by
      intro e; apply hne; refine ⟨hed, ?_⟩; have := hb1.1; omega
    simp only [hn, decide_false] at hw'
    have hr : rIncOf (OpTbl.get .ED (mget s.mem ((s.pc + 1) % 65536))) = some .R2 := h.1.2
    unfold leafOf
    rw [hed, main_ED]
    simp only [leafOf1]
    rw [leafOf2_of_leaf s _ _ hr]
    exact hw'
  · exact hw hed

/-- **R increments.**  The same amount is what the executed closure adds to R (as `R1`/`R2` do:
7-bit counter, bit 7 kept) - except for LD R,A (ED 4F), the one instruction that loads R. -/
theorem step_R_eq_m1 (cfg : Cfg) (s : St μ) (hs : 15 < s.reg.size) (hb0 : IsByte (mget s.mem s.pc))
    (hb1 : IsByte (mget s.mem ((s.pc + 1) % 65536))) (hb3 : IsByte (mget s.mem ((s.pc + 3) % 65536)))
    (hne : ¬ (mget s.mem s.pc = 0xED ∧ mget s.mem ((s.pc + 1) % 65536) = 0x4F)) :
    rget (step cfg s).reg 15 =
      TblI1.get (rTbl (Spec.m1 (mget s.mem s.pc) (mget s.mem ((s.pc + 1) % 65536)))) (rget s.reg 15) := by
  obtain ⟨hl, _⟩ := leaf_m1 s hb0 hb1 hb3
  rw [step_eq]
  exact rupd_execLeaf cfg (leafOf s) _ hl (leaf_noWriteR s hb0 hb1 hb3 hne) s hs

/-- **C loop = Python loop.**  `exec_frame` subtracts what `process_block` subtracts. -/
theorem fetchDecC_eq (cfg : Cfg) (s : St μ) (hs : 15 < s.reg.size)
    (hR : IsByte (rget s.reg 15)) (hb0 : IsByte (mget s.mem s.pc))
    (hb1 : IsByte (mget s.mem ((s.pc + 1) % 65536))) (hb3 : IsByte (mget s.mem ((s.pc + 3) % 65536))) :
    fetchDecC (mget s.mem s.pc) (mget s.mem ((s.pc + 1) % 65536)) (rget s.reg 15) (rget (step cfg s).reg 15) =
      fetchDec (mget s.mem s.pc) (rget s.reg 15) (rget (step cfg s).reg 15) := by
  rw [fetchDec_eq_m1 cfg s hs hR hb0 hb1 hb3]
  obtain ⟨hl, hw⟩ := leaf_m1 s hb0 hb1 hb3
  by_cases hx : mget s.mem s.pc = 0xDD ∨ mget s.mem s.pc = 0xFD
  · have hne : mget s.mem s.pc ≠ 0xED := by rcases hx with h | h <;> rw [h] <;> decide
    have hupd := rupd_execLeaf cfg (leafOf s) _ hl (hw hne) s hs
    rw [← step_eq] at hupd
    obtain ⟨_, _, p1, p2⟩ := R_parity (rget s.reg 15) hR.1 hR.2
    have hn1 : ¬ (mget s.mem s.pc = 0xCB ∨ mget s.mem s.pc = 0xED) := by
      rcases hx with h | h <;> rw [h] <;> decide
    unfold fetchDecC; simp only [hn1, hx, if_true, if_false]
    rw [hupd]
    have hm : Spec.m1 (mget s.mem s.pc) (mget s.mem ((s.pc + 1) % 65536)) =
        if (mget s.mem ((s.pc + 1) % 65536)).toNat ∈ Spec.indexable then 2 else 1 := by
      unfold Spec.m1
      rcases hx with h | h <;> rw [h] <;> simp
    rw [hm]
    by_cases hcb : mget s.mem ((s.pc + 1) % 65536) = 0xCB
    · simp [hcb, Spec.indexable]
    · simp only [hcb, if_false]
      by_cases hi : (mget s.mem ((s.pc + 1) % 65536)).toNat ∈ Spec.indexable
      · simp [hi, rTbl, TblI1.get, p2]
      · simp [hi, rTbl, TblI1.get, p1]
  · unfold fetchDecC Spec.m1
    have h1 : ¬ mget s.mem s.pc = 0xDD := fun h => hx (Or.inl h)
    have h2 : ¬ mget s.mem s.pc = 0xFD := fun h => hx (Or.inr h)
    simp [h1, h2]

end Rzx
