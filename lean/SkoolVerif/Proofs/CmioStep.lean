import SkoolVerif.Proofs.CmioFrame
import SkoolVerif.Proofs.CmioWf
import SkoolVerif.Gen.CmioRangeThms
/-!
Lifting the per-closure theorems of the contention-aware simulator model to `step` (one `opcodes[memory[pc]]()`
call, through the prefix tables) and to runs of any length.
-/
open Z80
namespace Cmio

variable {μ ρ : Type} [MemLike μ]

/-- The closure that `step` ends up running (after following CB/ED/DD/FD and DDCB/FDCB prefixes). -/
def leafOf (s : St μ) : Instr :=
  match OpTbl.get .MAIN (mget s.mem s.pc) with
  | .prefix_ tbl =>
    (match tbl.get (mget s.mem ((s.pc + 1) % 65536)) with
     | .prefix2_ tbl2 => tbl2.get (mget s.mem ((s.pc + 3) % 65536))
     | i => i)
  | .prefix2_ tbl2 => tbl2.get (mget s.mem ((s.pc + 3) % 65536))
  | i => i

theorem step_eq (cfg : Cfg) (s : St μ) : step cfg s = execLeaf cfg (leafOf s) s := by
  unfold step exec leafOf
  split
  · rename_i tbl h; simp only [h]
    unfold exec2
    split
    · rename_i tbl2 h2; simp only [h2]
    · rename_i i hi; split <;> simp_all
  · rename_i i hi
    unfold exec2
    split
    · rename_i tbl2 h2; simp only [h2]
    · rename_i j hj; split <;> simp_all

theorem leafOf_wf (s : St μ) : instrWf (leafOf s) = true := by
  unfold leafOf
  generalize hm : OpTbl.get .MAIN (mget s.mem s.pc) = m
  have hmw : instrWf m = true := hm ▸ get_wf _ _
  cases m <;> simp only [] <;> first | exact hmw | exact get_wf _ _ | skip
  rename_i tbl
  generalize hm2 : tbl.get (mget s.mem ((s.pc + 1) % 65536)) = m2
  have hm2w : instrWf m2 = true := hm2 ▸ get_wf _ _
  cases m2 <;> simp only [] <;> first | exact hm2w | exact get_wf _ _

theorem tmono_step (cfg : Cfg) (s : St μ) : s.t ≤ (step cfg s).t := by
  rw [step_eq]; exact tmono_execLeaf cfg _ (leafOf_wf s) s

theorem rinv_step_partial [CellMem μ] (cfg : Cfg) (s : St μ) (hp : rangePending (leafOf s) = false)
    (h : RInv s) : RInv (step cfg s) := by
  rw [step_eq]; exact rinv_execLeaf_partial cfg _ (leafOf_wf s) hp s h

/-- `n` consecutive steps -/
def runN (cfg : Cfg) : Nat → St μ → St μ
  | 0, s => s
  | n + 1, s => runN cfg n (step cfg s)

theorem rom_runN [RomMem μ ρ] (cfg : Cfg) (n : Nat) (s : St μ) :
    RomMem.romView (runN cfg n s).mem = RomMem.romView s.mem := by
  induction n generalizing s with
  | zero => rfl
  | succ n ih => simp only [runN]; rw [ih, rom_step]

theorem tmono_runN (cfg : Cfg) (n : Nat) (s : St μ) : s.t ≤ (runN cfg n s).t := by
  induction n generalizing s with
  | zero => exact Int.le_refl _
  | succ n ih => simp only [runN]; exact Int.le_trans (tmono_step cfg s) (ih _)

end Cmio
