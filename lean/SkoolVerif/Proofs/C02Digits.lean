import SkoolVerif.Model.AsmEval
/-!
Digit-level lemmas for C02: rendering a number in base 2/10/16 (with zero
padding, either case) and reading it back with Python's `int(s, b)` model.
-/
namespace C02L
open OpText AsmEval

/-- Little-endian value. -/
def leVal (b : Nat) : List Nat → Nat
  | [] => 0
  | d :: ds => d + b * leVal b ds

theorem ofDigits_foldl (b : Nat) (ds : List Nat) (acc : Nat) :
    ds.foldl (fun a d => a * b + d) acc = acc * b ^ ds.length + ofDigits b ds := by
  induction ds generalizing acc with
  | nil => simp [ofDigits]
  | cons d ds ih =>
    simp only [List.foldl_cons, List.length_cons, ofDigits]
    rw [ih, ih (0 * b + d)]
    simp [Nat.pow_succ, Nat.add_mul, Nat.mul_assoc, Nat.add_assoc, Nat.mul_comm b]

theorem ofDigits_append (b : Nat) (xs ys : List Nat) :
    ofDigits b (xs ++ ys) = ofDigits b xs * b ^ ys.length + ofDigits b ys := by
  simp only [ofDigits, List.foldl_append]
  rw [ofDigits_foldl]
  simp [ofDigits]

theorem ofDigits_reverse (b : Nat) (l : List Nat) : ofDigits b l.reverse = leVal b l := by
  induction l with
  | nil => simp [ofDigits, leVal]
  | cons d ds ih =>
    simp only [List.reverse_cons, ofDigits_append, ih, leVal]
    simp [ofDigits, Nat.mul_comm, Nat.add_comm]

theorem leVal_digitsLE (b : Nat) (hb : 2 ≤ b) : ∀ fuel n, n < fuel → leVal b (digitsLE b fuel n) = n := by
  intro fuel
  induction fuel with
  | zero => intro n h; omega
  | succ f ih =>
    intro n h
    simp only [digitsLE]
    split
    · simp [leVal]
    · rename_i hnb
      simp only [leVal]
      have hlt : n / b < n := Nat.div_lt_self (by omega) (by omega)
      rw [ih (n / b) (by omega)]
      have := Nat.mod_add_div n b
      omega

/-- The classic: reading back the base-`b` digits of `n` gives `n`. -/
theorem ofDigits_toDigits (b : Nat) (hb : 2 ≤ b) (n : Nat) : ofDigits b (toDigits b n) = n := by
  simp only [toDigits, ofDigits_reverse]
  exact leVal_digitsLE b hb (n + 1) n (by omega)

theorem digitsLE_lt (b : Nat) (hb : 2 ≤ b) : ∀ fuel n, ∀ d ∈ digitsLE b fuel n, d < b := by
  intro fuel
  induction fuel with
  | zero => intro n d h; simp [digitsLE] at h
  | succ f ih =>
    intro n d h
    simp only [digitsLE] at h
    split at h
    · simp at h; omega
    · simp only [List.mem_cons] at h
      rcases h with h | h
      · subst h; exact Nat.mod_lt _ (by omega)
      · exact ih _ _ h

theorem toDigits_lt (b : Nat) (hb : 2 ≤ b) (n : Nat) : ∀ d ∈ toDigits b n, d < b := by
  intro d h
  simp only [toDigits, List.mem_reverse] at h
  exact digitsLE_lt b hb _ _ d h

theorem digitsLE_ne_nil (b fuel n : Nat) (h : 0 < fuel) : digitsLE b fuel n ≠ [] := by
  cases fuel with
  | zero => omega
  | succ f => simp only [digitsLE]; split <;> simp

theorem toDigits_ne_nil (b n : Nat) : toDigits b n ≠ [] := by
  simp only [toDigits, ne_eq, List.reverse_eq_nil_iff]
  exact digitsLE_ne_nil b (n + 1) n (by omega)

/-- The most significant digit is non-zero for a positive number. -/
theorem digitsLE_getLast (b : Nat) (hb : 2 ≤ b) : ∀ fuel n, n < fuel → 0 < n →
    ∀ h : digitsLE b fuel n ≠ [], (digitsLE b fuel n).getLast h ≠ 0 := by
  intro fuel
  induction fuel with
  | zero => intro n h; omega
  | succ f ih =>
    intro n hn hpos hne
    have hlt : n / b < n := Nat.div_lt_self (by omega) (by omega)
    by_cases hnb : n < b
    · have : digitsLE b (f + 1) n = [n] := by simp [digitsLE, hnb]
      simp only [this, List.getLast_singleton]; omega
    · have hq : 0 < n / b := Nat.div_pos (by omega) (by omega)
      have hf : 0 < f := by omega
      have e : digitsLE b (f + 1) n = (n % b) :: digitsLE b f (n / b) := by simp [digitsLE, hnb]
      have hne' := digitsLE_ne_nil b f (n / b) hf
      have : (digitsLE b (f + 1) n).getLast hne = (digitsLE b f (n / b)).getLast hne' := by
        simp only [e]; exact List.getLast_cons hne'
      rw [this]
      exact ih (n / b) (by omega) hq hne'

theorem toDigits_head_ne_zero (b : Nat) (hb : 2 ≤ b) (n : Nat) (hn : 0 < n) :
    (toDigits b n).head? ≠ some 0 := by
  have hne := digitsLE_ne_nil b (n + 1) n (by omega)
  have := digitsLE_getLast b hb (n + 1) n (by omega) hn hne
  simp only [toDigits, List.head?_reverse]
  rw [List.getLast?_eq_some_getLast hne]
  simpa using this

theorem toDigits_zero (b : Nat) (_hb : 2 ≤ b) : toDigits b 0 = [0] := by
  simp [toDigits, digitsLE]

/-- Number of digits is bounded: `n < b ^ k → length ≤ k` (for `k ≥ 1`). -/
theorem digitsLE_length (b : Nat) (hb : 2 ≤ b) : ∀ fuel n k, n < b ^ (k + 1) →
    (digitsLE b fuel n).length ≤ k + 1 := by
  intro fuel
  induction fuel with
  | zero => intro n k _; simp [digitsLE]
  | succ f ih =>
    intro n k h
    simp only [digitsLE]
    split
    · simp
    · rename_i hnb
      cases k with
      | zero => simp at h; omega
      | succ k =>
        simp only [List.length_cons]
        have : n / b < b ^ (k + 1) := by
          rw [Nat.div_lt_iff_lt_mul (by omega)]
          simpa [Nat.pow_succ] using h
        have := ih (n / b) k this
        omega

theorem toDigits_length (b : Nat) (hb : 2 ≤ b) (n k : Nat) (h : n < b ^ (k + 1)) :
    (toDigits b n).length ≤ k + 1 := by
  simp only [toDigits, List.length_reverse]
  exact digitsLE_length b hb _ n k h

theorem ofDigits_replicate_zero (b k : Nat) (ds : List Nat) :
    ofDigits b (List.replicate k 0 ++ ds) = ofDigits b ds := by
  induction k with
  | zero => simp
  | succ k ih =>
    simp only [List.replicate_succ, List.cons_append]
    simp only [ofDigits, List.foldl_cons] at ih ⊢
    simpa using ih

theorem ofDigits_padLeft (b w n : Nat) (hb : 2 ≤ b) : ofDigits b (padLeft w (toDigits b n)) = n := by
  simp only [padLeft, ofDigits_replicate_zero, ofDigits_toDigits b hb]

theorem padLeft_lt (b w n : Nat) (hb : 2 ≤ b) : ∀ d ∈ padLeft w (toDigits b n), d < b := by
  intro d h
  simp only [padLeft, List.mem_append, List.mem_replicate] at h
  rcases h with ⟨_, h⟩ | h
  · omega
  · exact toDigits_lt b hb n d h

theorem padLeft_ne_nil (w : Nat) (l : List Nat) (h : l ≠ []) : padLeft w l ≠ [] := by
  simp [padLeft, h]

/-! ### digit characters -/

theorem digitVal_digitChar (up : Bool) (d : Nat) (h : d < 16) : digitVal (digitChar up d) = some d := by
  have : d = 0 ∨ d = 1 ∨ d = 2 ∨ d = 3 ∨ d = 4 ∨ d = 5 ∨ d = 6 ∨ d = 7 ∨ d = 8 ∨ d = 9 ∨ d = 10 ∨
      d = 11 ∨ d = 12 ∨ d = 13 ∨ d = 14 ∨ d = 15 := by omega
  rcases this with h | h | h | h | h | h | h | h | h | h | h | h | h | h | h | h <;> subst h <;>
    cases up <;> decide

/-- The code point of a digit character: `0-9`, `A-F` or `a-f`. -/
theorem digitChar_range (up : Bool) (d : Nat) (h : d < 16) :
    (48 ≤ digitChar up d ∧ digitChar up d ≤ 57) ∨ (65 ≤ digitChar up d ∧ digitChar up d ≤ 70) ∨
    (97 ≤ digitChar up d ∧ digitChar up d ≤ 102) := by
  simp only [digitChar]
  cases up <;> simp <;> split <;> omega

theorem digitChar_dec (up : Bool) (d : Nat) (h : d < 10) : digitChar up d = 48 + d := by
  simp [digitChar, h]

/-- `pyDigits` reads a run of digit characters. -/
theorem pyDigits_map (b : Nat) (hb : b ≤ 16) (up : Bool) :
    ∀ (ds : List Nat) (acc : Nat) (need : Bool), (∀ d ∈ ds, d < b) → (ds ≠ [] ∨ need = false) →
      pyDigits b acc need (ds.map (digitChar up)) = some (ds.foldl (fun a d => a * b + d) acc) := by
  intro ds
  induction ds with
  | nil => intro acc need _ h; simp at h; simp [pyDigits, h]
  | cons d ds ih =>
    intro acc need hlt _
    have hd : d < b := hlt d (by simp)
    have h16 : d < 16 := by omega
    have hne : digitChar up d ≠ 95 := by have := digitChar_range up d h16; omega
    simp only [List.map_cons, pyDigits, hne, if_false, digitVal_digitChar up d h16, hd, if_true,
      List.foldl_cons]
    exact ih _ false (fun x hx => hlt x (by simp [hx])) (Or.inr rfl)

theorem digitsVal_map (b : Nat) (up : Bool) (ds : List Nat) (h : ∀ d ∈ ds, d < 16) :
    digitsVal b (ds.map (digitChar up)) = ofDigits b ds := by
  simp only [digitsVal, List.map_map]
  congr 1
  have : ∀ d ∈ ds, ((fun c => (digitVal c).getD 0) ∘ digitChar up) d = d := by
    intro d hd; simp [digitVal_digitChar up d (h d hd)]
  conv => rhs; rw [← List.map_id ds]
  exact List.map_congr_left this

end C02L
