import SkoolVerif.Gen.RzxCmioClockThms
import SkoolVerif.Proofs.CmioStep
import SkoolVerif.Proofs.RzxPlayLemmas
/-!
Instantiation of the generic playback lemmas with the *generated* contended simulator step
(`Cmio.step`, translated from `cmiosimulator.py` on every run): with `int_active = 0` the T-state
clock influences nothing but itself, so playback transports `ClockEq`.
-/
namespace Rzx
open Z80 Cmio
variable {μ : Type} [MemLike μ]

theorem cmio_leafOf_clockEq (s s' : St μ) (h : ClockEq s s') : Cmio.leafOf s' = Cmio.leafOf s := by
  unfold Cmio.leafOf Cmio.leafOf1 Cmio.leafOf2
  rw [h.2.1, h.2.2.1]

theorem stepCong_cmio (cfg : Cfg) (hia : cfg.int_active = 0) (hfd : 0 < cfg.frame_duration) :
    StepCongE ClockEq (Cmio.step (μ := μ) cfg) := by
  intro s s' h
  rw [Cmio.step_eq, Cmio.step_eq, cmio_leafOf_clockEq s s' h]
  exact ceq_execLeaf cfg hia hfd (Cmio.leafOf s) s s' h

end Rzx
