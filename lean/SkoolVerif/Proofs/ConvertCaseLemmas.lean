import SkoolVerif.Model.ConvertCase
/-! Lemmas for `Assembler.convert_case` (C04: skool2asm -l / -u). -/
namespace ConvertCase

theorem toNat_ofNat_lt (n : Nat) (h : n < 0xD800) : (Char.ofNat n).toNat = n := by
  have hv : n.isValidChar := Or.inl h
  simp [Char.ofNat, hv, Char.ofNatAux, Char.toNat]

theorem le_iff (a b : Char) : (a ≤ b) ↔ a.toNat ≤ b.toNat := by
  rw [Char.le_def]
  exact UInt32.le_iff_toNat_le

theorem eq_iff (a b : Char) : (a = b) ↔ a.toNat = b.toNat := Char.toNat_inj.symm

/-- `conv1` on code points. -/
def conv1N (l : Bool) (n : Nat) : Nat :=
  if n = 32 ∨ n = 9 ∨ n = 10 ∨ n = 13 ∨ n = 11 ∨ n = 12 then 32
  else if l then (if 65 ≤ n ∧ n ≤ 90 then n + 32 else n)
  else (if 97 ≤ n ∧ n ≤ 122 then n - 32 else n)

theorem conv1_toNat (l : Bool) (c : Char) : (conv1 l c).toNat = conv1N l c.toNat := by
  unfold conv1 conv1N isSpace lowerC upperC
  simp only [Bool.or_eq_true, beq_iff_eq, eq_iff, Bool.and_eq_true, decide_eq_true_eq, le_iff]
  have e1 : ' '.toNat = 32 := rfl
  have e2 : '\t'.toNat = 9 := rfl
  have e3 : '\n'.toNat = 10 := rfl
  have e4 : '\r'.toNat = 13 := rfl
  have e5 : '\x0b'.toNat = 11 := rfl
  have e6 : '\x0c'.toNat = 12 := rfl
  have e7 : 'A'.toNat = 65 := rfl
  have e8 : 'Z'.toNat = 90 := rfl
  have e9 : 'a'.toNat = 97 := rfl
  have e10 : 'z'.toNat = 122 := rfl
  simp only [e1, e2, e3, e4, e5, e6, e7, e8, e9, e10]
  by_cases hs : c.toNat = 32 ∨ c.toNat = 9 ∨ c.toNat = 10 ∨ c.toNat = 13 ∨ c.toNat = 11 ∨ c.toNat = 12
  · have hs' : ((((c.toNat = 32 ∨ c.toNat = 9) ∨ c.toNat = 10) ∨ c.toNat = 13) ∨ c.toNat = 11) ∨ c.toNat = 12 := by omega
    simp [hs, hs']
  · have hs' : ¬ (((((c.toNat = 32 ∨ c.toNat = 9) ∨ c.toNat = 10) ∨ c.toNat = 13) ∨ c.toNat = 11) ∨ c.toNat = 12) := by omega
    simp only [hs, hs', if_false]
    cases l
    · simp only [Bool.false_eq_true, if_false]
      split
      · rw [toNat_ofNat_lt _ (by omega)]
      · rfl
    · simp only [if_true]
      split
      · rw [toNat_ofNat_lt _ (by omega)]
      · rfl

/-- A character becomes a double quote only if it is one. -/
theorem conv1_quote (l : Bool) (c : Char) : (conv1 l c == '"') = (c == '"') := by
  have h := conv1_toNat l c
  have q : '"'.toNat = 34 := rfl
  have : (conv1 l c = '"') ↔ (c = '"') := by
    rw [eq_iff, eq_iff, h, q]
    unfold conv1N
    cases l <;> simp only [Bool.false_eq_true, if_false, if_true] <;> (repeat' split) <;> omega
  rw [Bool.eq_iff_iff]
  simp only [beq_iff_eq]
  exact this

theorem conv1_conv1 (l1 l2 : Bool) (c : Char) (h : l1 = l2 ∨ l1 = true ∨ True) :
    conv1 l1 (conv1 l2 c) = conv1 l1 c := by
  rw [eq_iff, conv1_toNat, conv1_toNat, conv1_toNat]
  unfold conv1N
  cases l1 <;> cases l2 <;> simp only [Bool.false_eq_true, if_false, if_true] <;> (repeat' split) <;> omega

/-! ### the automaton -/

theorem conv1_dq (l : Bool) : conv1 l '"' = '"' := by
  have := conv1_quote l '"'
  simpa using this

theorem go_length (l : Bool) (b : Q) (cs : List Char) : (go l b cs).length = cs.length := by
  fun_induction go l b cs <;> simp_all

/-- The quoting structure is unchanged. -/
theorem mask_go (l : Bool) (b : Q) (cs : List Char) : mask b (go l b cs) = mask b cs := by
  fun_induction go l b cs <;>
    simp_all [mask, conv1_quote, conv1_dq]

/-- The characters inside strings, in order. -/
def inString (b : Q) (cs : List Char) : List Char :=
  (cs.zip (mask b cs)).filterMap (fun p => if p.2 then some p.1 else none)

theorem inString_go (l : Bool) (b : Q) (cs : List Char) : inString b (go l b cs) = inString b cs := by
  unfold inString
  rw [mask_go]
  fun_induction go l b cs <;>
    simp_all [mask, conv1_dq]

/-- Composition of two conversions: the last one wins. -/
theorem go_go (l1 l2 : Bool) (b : Q) (cs : List Char) : go l1 b (go l2 b cs) = go l1 b cs := by
  fun_induction go l2 b cs <;>
    simp_all [go, conv1_quote, conv1_dq, conv1_conv1]

/-- Only letter case and the kind of white space change: after folding both (lower-casing, white
space to a blank) the text is the same. -/
theorem go_fold (l : Bool) (b : Q) (cs : List Char) : (go l b cs).map (conv1 true) = cs.map (conv1 true) := by
  fun_induction go l b cs <;> simp_all [conv1_conv1, conv1_dq]

end ConvertCase
