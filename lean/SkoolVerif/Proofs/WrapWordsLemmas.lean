import SkoolVerif.Spec.WrapSpec
/-! Lemmas about the textbook greedy wrap `Wrap.wrapWords` and `WrapSpec.IsGreedyWrap`. -/
namespace Wrap
open WrapSpec

/-- Columns added by appending the words `l` to a non-empty line. -/
def extra (l : List Word) : Nat := (l.map fun x => 1 + x.length).sum

theorem extra_nil : extra [] = 0 := rfl
theorem extra_cons (x : Word) (l : List Word) : extra (x :: l) = 1 + x.length + extra l := by
  simp [extra]

theorem lineLen_cons (x : Word) (t : List Word) : lineLen (x :: t) = x.length + extra t := by
  induction t with
  | nil => simp [lineLen, extra]
  | cons y t ih =>
    simp only [lineLen, extra, List.map_cons, List.sum_cons, List.length_cons] at ih ⊢
    omega

theorem lineLen_append_cons (b : List Word) (y : Word) (c : List Word) (hb : b ≠ []) :
    lineLen b + 1 + y.length ≤ lineLen (b ++ y :: c) := by
  have : 0 < b.length := List.length_pos_iff.mpr hb
  simp only [lineLen, List.map_append, List.sum_append, List.map_cons, List.sum_cons,
    List.length_append, List.length_cons]
  omega

theorem takeMore_append (w : Nat) (xs : List Word) (cur : Nat) :
    (takeMore w cur xs).1 ++ (takeMore w cur xs).2 = xs := by
  induction xs generalizing cur with
  | nil => simp [takeMore]
  | cons x xs ih =>
    simp only [takeMore]; split
    · simp [ih]
    · simp

theorem takeMore_len (w : Nat) (xs : List Word) (cur : Nat)
    (h : (takeMore w cur xs).1 ≠ []) : cur + extra (takeMore w cur xs).1 ≤ w := by
  induction xs generalizing cur with
  | nil => simp [takeMore] at h
  | cons x xs ih =>
    simp only [takeMore] at h ⊢; split
    · rename_i hc
      simp only [extra_cons]
      by_cases hn : (takeMore w (cur + 1 + x.length) xs).1 = []
      · rw [hn, extra_nil]; omega
      · have := ih (cur + 1 + x.length) hn; omega
    · rename_i hc; rw [if_neg hc] at h; simp at h

theorem takeMore_max (w : Nat) (xs : List Word) (cur : Nat) (y : Word) (r : List Word)
    (h : (takeMore w cur xs).2 = y :: r) :
    cur + extra (takeMore w cur xs).1 + 1 + y.length > w := by
  induction xs generalizing cur with
  | nil => simp [takeMore] at h
  | cons x xs ih =>
    simp only [takeMore] at h ⊢; split
    · rename_i hc
      rw [if_pos hc] at h
      have := ih (cur + 1 + x.length) h
      simp only [extra_cons]; omega
    · rename_i hc
      rw [if_neg hc] at h
      simp only [List.cons.injEq] at h
      obtain ⟨rfl, _⟩ := h
      simp only [extra_nil]; omega

theorem takeMore_snd_length (w : Nat) (xs : List Word) (cur : Nat) :
    (takeMore w cur xs).2.length ≤ xs.length := by
  have := congrArg List.length (takeMore_append w xs cur)
  simp only [List.length_append] at this; omega

theorem maximal_tail {w : Nat} {l : List Word} {ls : List (List Word)}
    (h : Maximal w (l :: ls)) : Maximal w ls := by
  cases ls with
  | nil => trivial
  | cons l2 rest => exact h.2

theorem isGreedy_tail {w : Nat} {a : List Word} {ws : List Word} {ls : List (List Word)}
    (h : IsGreedyWrap w (a ++ ws) (a :: ls)) : IsGreedyWrap w ws ls := by
  obtain ⟨h1, h2, h3, h4⟩ := h
  refine ⟨?_, fun l hl => h2 l (List.mem_cons_of_mem _ hl),
    fun l hl => h3 l (List.mem_cons_of_mem _ hl), maximal_tail h4⟩
  simpa using h1

theorem wrapWordsAux_nil (w fuel : Nat) : wrapWordsAux w fuel [] = [] := by
  cases fuel <;> simp [wrapWordsAux]

/-- `wrapWordsAux` meets the specification (any sufficient fuel). -/
theorem wrapWordsAux_spec (w : Nat) : ∀ (fuel : Nat) (ws : List Word), ws.length ≤ fuel →
    IsGreedyWrap w ws (wrapWordsAux w fuel ws) ∧
    (∀ x xs, ws = x :: xs → ∃ t rest, wrapWordsAux w fuel ws = (x :: t) :: rest) := by
  intro fuel
  induction fuel with
  | zero =>
    intro ws h
    have : ws = [] := List.length_eq_zero_iff.mp (by omega)
    subst this
    exact ⟨⟨by simp [wrapWordsAux], by simp [wrapWordsAux], by simp [wrapWordsAux],
      by simp [wrapWordsAux, Maximal]⟩, by simp⟩
  | succ fuel ih =>
    intro ws h
    cases ws with
    | nil =>
      exact ⟨⟨by simp [wrapWordsAux], by simp [wrapWordsAux], by simp [wrapWordsAux],
        by simp [wrapWordsAux, Maximal]⟩, by simp⟩
    | cons x xs =>
      simp only [wrapWordsAux]
      have happ := takeMore_append w xs x.length
      have hlen := takeMore_snd_length w xs x.length
      simp only [List.length_cons] at h
      obtain ⟨⟨r1, r2, r3, r4⟩, rhead⟩ := ih (takeMore w x.length xs).2 (by omega)
      refine ⟨⟨?_, ?_, ?_, ?_⟩, ?_⟩
      · simp only [List.flatten_cons, r1, List.cons_append, happ]
      · intro l hl
        simp only [List.mem_cons] at hl
        rcases hl with rfl | hl
        · simp
        · exact r2 l hl
      · intro l hl
        simp only [List.mem_cons] at hl
        rcases hl with rfl | hl
        · by_cases hn : (takeMore w x.length xs).1 = []
          · right; simp [hn]
          · left; rw [lineLen_cons]; exact takeMore_len w xs x.length hn
        · exact r3 l hl
      · cases h2 : (takeMore w x.length xs).2 with
        | nil => rw [wrapWordsAux_nil]; simp [Maximal]
        | cons y ys =>
          obtain ⟨t, rest, hrec⟩ := rhead y ys h2
          rw [h2] at hrec r4
          rw [hrec] at r4 ⊢
          refine ⟨?_, r4⟩
          simp only [NextFits, lineLen_cons]
          have := takeMore_max w xs x.length y ys h2
          omega
      · intro x' xs' he
        simp only [List.cons.injEq] at he
        obtain ⟨rfl, _⟩ := he
        exact ⟨_, _, rfl⟩

theorem flatten_nil_of_nonempty (ls : List (List Word)) (h : ∀ l ∈ ls, l ≠ [])
    (hf : ls.flatten = []) : ls = [] := by
  cases ls with
  | nil => rfl
  | cons a r =>
    exfalso
    simp only [List.flatten_cons, List.append_eq_nil_iff] at hf
    exact h a (List.mem_cons_self) hf.1

/-- In a greedy wrap the first line cannot be a strict prefix of the first
line of another greedy wrap of the same words. -/
theorem first_line_not_longer {w : Nat} {a c : List Word} {y : Word} {A : List Word}
    {l1' l2' : List (List Word)} {b : List Word}
    (ha : a = b ++ y :: c)
    (h1 : IsGreedyWrap w (a ++ A) (a :: l1')) (h2 : IsGreedyWrap w (a ++ A) (b :: l2')) : False := by
  obtain ⟨f2, n2, w2, m2⟩ := h2
  have hb : b ≠ [] := n2 b List.mem_cons_self
  -- the rest of the second wrap starts with `y`
  have hB : l2'.flatten = y :: c ++ A := by
    simp only [List.flatten_cons, ha, List.append_assoc, List.append_cancel_left_eq] at f2
    simpa using f2
  cases l2' with
  | nil => simp at hB
  | cons m rest =>
    have hm : m ≠ [] := n2 m (by simp)
    cases m with
    | nil => exact hm rfl
    | cons y' m' =>
      simp only [List.flatten_cons, List.cons_append, List.cons.injEq] at hB
      obtain ⟨rfl, _⟩ := hB
      have hnf : ¬ NextFits w b (y' :: m') := m2.1
      simp only [NextFits] at hnf
      obtain ⟨_, _, w1, _⟩ := h1
      have := w1 a List.mem_cons_self
      have hl := lineLen_append_cons b y' c hb
      rw [← ha] at hl
      have hlen : a.length ≠ 1 := by
        have : 0 < b.length := List.length_pos_iff.mpr hb
        rw [ha]; simp only [List.length_append, List.length_cons]; omega
      rcases this with h | h
      · omega
      · exact hlen h

theorem greedy_unique_aux (w : Nat) : ∀ (l1 l2 : List (List Word)) (ws : List Word),
    IsGreedyWrap w ws l1 → IsGreedyWrap w ws l2 → l1 = l2 := by
  intro l1
  induction l1 with
  | nil =>
    intro l2 ws h1 h2
    have : ws = [] := by simpa using h1.1.symm
    subst this
    exact (flatten_nil_of_nonempty l2 h2.2.1 h2.1).symm
  | cons a l1' ih =>
    intro l2 ws h1 h2
    cases l2 with
    | nil =>
      have : ws = [] := by simpa using h2.1.symm
      subst this
      have := flatten_nil_of_nonempty (a :: l1') h1.2.1 h1.1
      simp at this
    | cons b l2' =>
      have f1 : a ++ l1'.flatten = ws := by simpa using h1.1
      have f2 : b ++ l2'.flatten = ws := by simpa using h2.1
      have hab : a = b := by
        have he : a ++ l1'.flatten = b ++ l2'.flatten := by rw [f1, f2]
        rcases List.append_eq_append_iff.mp he with ⟨c, hc1, hc2⟩ | ⟨c, hc1, hc2⟩
        · -- b = a ++ c
          cases c with
          | nil => simpa using hc1.symm
          | cons y c =>
            exfalso
            subst f2
            have h1' : IsGreedyWrap w (b ++ l2'.flatten) (a :: l1') := h1
            exact first_line_not_longer hc1 h2 h1'
        · -- a = b ++ c
          cases c with
          | nil => simpa using hc1
          | cons y c =>
            exfalso
            subst f1
            exact first_line_not_longer hc1 h1 h2
      subst hab
      have hA : l1'.flatten = l2'.flatten := by
        have : a ++ l1'.flatten = a ++ l2'.flatten := by rw [f1, f2]
        simpa using this
      subst f1
      have t1 := isGreedy_tail h1
      have t2 : IsGreedyWrap w l1'.flatten l2' := by
        rw [hA]; rw [hA] at h2; exact isGreedy_tail h2
      rw [ih l2' _ t1 t2]

end Wrap
