import SkoolVerif.Model.Braces
import SkoolVerif.Spec.BraceSpec
/-! Lemmas on the brace-delimited comment span. -/
namespace BraceSpec

theorem allPos_mono {a b : Int} (hab : a ≤ b) : ∀ {ds : List Int}, AllPos a ds → AllPos b ds := by
  intro ds
  induction ds generalizing a b with
  | nil => intro _; trivial
  | cons d r ih => intro h; exact ⟨by have := h.1; omega, ih (by omega) h.2⟩

theorem worstFrom_le (ds : List Int) : ∀ cur w, worstFrom cur w ds ≤ w := by
  induction ds with
  | nil => intro cur w; simp [worstFrom]
  | cons d r ih =>
    intro cur w
    simp only [worstFrom]
    have := ih (cur + d) (min w (cur + d))
    have h2 : min w (cur + d) ≤ w := Int.min_le_left _ _
    omega

theorem allPos_of_worst (ds : List Int) : ∀ (k cur w : Int), k + worstFrom cur w ds ≥ 1 →
    AllPos (k + cur) ds := by
  induction ds with
  | nil => intro _ _ _ _; trivial
  | cons d r ih =>
    intro k cur w h
    simp only [worstFrom] at h
    have h1 := worstFrom_le r (cur + d) (min w (cur + d))
    have h2 : min w (cur + d) ≤ cur + d := Int.min_le_right _ _
    refine ⟨by omega, ?_⟩
    have := ih k (cur + d) (min w (cur + d)) h
    rw [Int.add_assoc]; exact this

theorem docOpen_pos (init : List Int) : 1 ≤ docOpen init := Int.le_max_left _ _

theorem docOpen_allPos (init : List Int) : AllPos (docOpen init) init := by
  have h : docOpen init + worstFrom 0 0 init ≥ 1 := by
    have : 1 - worstFrom 0 0 init ≤ docOpen init := Int.le_max_right _ _
    omega
  have := allPos_of_worst init (docOpen init) 0 0 h
  simpa using this

/-- If the balance stays positive over `init` and is `≤ 0` after the last
instruction, exactly `init.length + 1` instructions are spanned, whatever follows. -/
theorem spanLen_exact : ∀ (init : List Int) (acc : Int) (lastd : Int) (extra : List Int),
    acc > 0 → AllPos acc init → acc + init.sum + lastd ≤ 0 →
    spanLen acc (init ++ [lastd] ++ extra) = init.length + 1 := by
  intro init
  induction init with
  | nil =>
    intro acc lastd extra hacc _ hfin
    simp only [List.nil_append, List.cons_append, spanLen, hacc, if_true, List.length_nil]
    simp only [List.sum_nil, Int.add_zero] at hfin
    cases extra with
    | nil => simp [spanLen]
    | cons e r => simp only [spanLen]; rw [if_neg (by omega)]
  | cons d r ih =>
    intro acc lastd extra hacc hpos hfin
    simp only [List.cons_append, spanLen, hacc, if_true, List.length_cons]
    simp only [List.sum_cons] at hfin
    have := ih (acc + d) lastd extra hpos.1 hpos.2 (by omega)
    simp only [List.append_assoc] at this ⊢
    omega

/-- If the running balance drops to `≤ 0` at some instruction before the last,
the comment terminates there. -/
theorem spanLen_early (pre : List Int) : ∀ (acc : Int) (d : Int) (rest : List Int),
    acc > 0 → AllPos acc pre → acc + pre.sum + d ≤ 0 →
    spanLen acc (pre ++ d :: rest) = pre.length + 1 := by
  intro acc d rest hacc hpos hfin
  have := spanLen_exact pre acc d rest hacc hpos hfin
  simpa [List.append_assoc] using this

end BraceSpec

namespace Braces
open BraceSpec Wrap

/-- The string-level loop of `parse_address_comments` is the arithmetic one. -/
theorem spanGo_length (cs : List (List Str)) : ∀ (nesting : Int),
    (spanGo nesting (cs.map some)).length = spanLen nesting (cs.map fun ls => bal (joinSp ls)) := by
  induction cs with
  | nil => intro n; simp [spanGo, spanLen]
  | cons c r ih =>
    intro n
    simp only [List.map_cons, spanGo, spanLen]
    split
    · simp only [List.length_cons, ih]; omega
    · rfl

/-- A comment that belongs to no instruction ends the group. -/
theorem spanGo_stops_at_none (nesting : Int) (rest : List (Option (List Str))) :
    spanGo nesting (none :: rest) = [] := by
  simp [spanGo]

theorem dropWhile_replicate_append (c : Nat) (k : Nat) (l : Str) :
    (List.replicate k c ++ l).dropWhile (· == c) = l.dropWhile (· == c) := by
  induction k with
  | zero => rfl
  | succ k ih => simp [List.replicate_succ, ih]

theorem dropWhile_head_ne (c : Nat) (l : Str) (h : l.head? ≠ some c) :
    l.dropWhile (· == c) = l := by
  cases l with
  | nil => rfl
  | cons x r =>
    have : x ≠ c := by intro hx; apply h; simp [hx]
    simp [this]

theorem matchOpen_id (t : Str) : t.head? ≠ some 32 →
    (match t with
      | 32 :: 123 :: r => 123 :: r
      | _ => t) = t := by
  intro h
  split
  · exact absurd rfl h
  · rfl

theorem matchClose_id (t u : Str) : t.head? ≠ some 32 →
    (match t with
      | 32 :: 125 :: r => (125 :: r).reverse
      | _ => u) = u := by
  intro h
  split
  · exact absurd rfl h
  · rfl

/-- The reader removes exactly the opening braces (and the separating space)
that the documented encoding puts in front of a line `T`. -/
theorem stripOpen_encoded (k : Nat) (T : Str) (hT : T.head? ≠ some 32) :
    stripOpen (List.replicate k 123 ++ (if T.head? = some 123 then [32] else []) ++ T) = T := by
  unfold stripOpen lstripC
  by_cases hb : T.head? = some 123
  · obtain ⟨r, rfl⟩ : ∃ r, T = 123 :: r := by
      cases T with
      | nil => simp at hb
      | cons x r => simp at hb; exact ⟨r, by rw [hb]⟩
    simp only [hb, if_true, List.append_assoc]
    rw [dropWhile_replicate_append]
    simp
  · simp only [hb, if_false, List.append_nil]
    rw [dropWhile_replicate_append, dropWhile_head_ne 123 T hb]
    exact matchOpen_id T hT

/-- …and exactly the closing braces (and the separating space) after it. -/
theorem stripClose_encoded (m : Nat) (T : Str) (hT : T.getLast? ≠ some 32) :
    stripClose (T ++ (if T.getLast? = some 125 then [32] else []) ++ List.replicate m 125) = T := by
  unfold stripClose rstripC
  have hrev : T.reverse.head? = T.getLast? := by simp [List.head?_reverse]
  by_cases hb : T.getLast? = some 125
  · obtain ⟨r, hr⟩ : ∃ r, T.reverse = 125 :: r := by
      cases h : T.reverse with
      | nil => rw [h] at hrev; rw [hb] at hrev; simp at hrev
      | cons x r =>
        rw [h] at hrev; rw [hb] at hrev
        simp only [List.head?_cons, Option.some.injEq] at hrev
        exact ⟨r, by rw [hrev]⟩
    have hT2 : T = r.reverse ++ [125] := by
      have := congrArg List.reverse hr
      simpa using this
    simp only [hb, if_true, List.reverse_append, List.reverse_replicate, List.append_assoc]
    rw [dropWhile_replicate_append, hr]
    have h32 : ((32 : Nat) == 125) = false := by decide
    simp only [List.reverse_cons, List.reverse_nil, List.nil_append, List.cons_append,
      List.dropWhile_cons, h32, Bool.false_eq_true, if_false, List.reverse_append,
      List.reverse_reverse]
    exact hT2.symm
  · simp only [hb, if_false, List.append_nil, List.reverse_append, List.reverse_replicate]
    rw [dropWhile_replicate_append, dropWhile_head_ne 125 T.reverse (by rw [hrev]; exact hb)]
    simp only [List.reverse_reverse]
    exact matchClose_id T.reverse T (by rw [hrev]; exact hT)

end Braces
