import SkoolVerif.Model.Edges
import SkoolVerif.Spec.EdgeDecode
/-!
Helper lemmas for C11 (edge generator).  Core Lean only.
-/
namespace Edges
open EdgeSpec

/-! ### `cumsum`, `emit`, `diffs` -/

def sumN (ds : List Nat) : Int := (ds.foldr (· + ·) 0 : Nat)

theorem sumN_nil : sumN [] = 0 := rfl
theorem sumN_cons (d : Nat) (ds : List Nat) : sumN (d :: ds) = d + sumN ds := by
  simp [sumN]
theorem sumN_nonneg (ds : List Nat) : 0 ≤ sumN ds := by simp [sumN]
theorem sumN_append (a b : List Nat) : sumN (a ++ b) = sumN a + sumN b := by
  induction a with
  | nil => simp [sumN_nil]
  | cons d ds ih => simp [sumN_cons, ih]; omega

theorem cumsum_append (t : Int) (a b : List Nat) :
    cumsum t (a ++ b) = cumsum t a ++ cumsum (t + sumN a) b := by
  induction a generalizing t with
  | nil => simp [cumsum, sumN_nil]
  | cons d ds ih => simp [cumsum, sumN_cons, ih, Int.add_assoc]

theorem cumsum_length (t : Int) (ds : List Nat) : (cumsum t ds).length = ds.length := by
  induction ds generalizing t with
  | nil => rfl
  | cons d ds ih => simp [cumsum, ih]

theorem emit_eq (ds : List Nat) (e : List Int) (t : Int) :
    emit ds (e, t) = (e ++ cumsum t ds, t + sumN ds) := by
  induction ds generalizing e t with
  | nil => simp [emit, cumsum, sumN_nil]
  | cons d ds ih => simp [emit, ih, cumsum, sumN_cons]; omega

theorem cumsum_ge (t : Int) (ds : List Nat) : ∀ x ∈ cumsum t ds, t ≤ x := by
  induction ds generalizing t with
  | nil => simp [cumsum]
  | cons d ds ih =>
    intro x hx
    simp only [cumsum, List.mem_cons] at hx
    rcases hx with rfl | hx
    · omega
    · have := ih _ x hx; omega

theorem cumsum_le (t : Int) (ds : List Nat) : ∀ x ∈ cumsum t ds, x ≤ t + sumN ds := by
  induction ds generalizing t with
  | nil => simp [cumsum]
  | cons d ds ih =>
    intro x hx
    simp only [cumsum, List.mem_cons] at hx
    rw [sumN_cons]
    rcases hx with rfl | hx
    · have := sumN_nonneg ds; omega
    · have := ih _ x hx; omega

theorem cumsum_sorted (t : Int) (ds : List Nat) : (cumsum t ds).Pairwise (· ≤ ·) := by
  induction ds generalizing t with
  | nil => simp [cumsum]
  | cons d ds ih =>
    simp only [cumsum, List.pairwise_cons]
    exact ⟨fun x hx => cumsum_ge _ _ x hx, ih _⟩

theorem diffs_cumsum (t : Int) (ds : List Nat) :
    diffs (t :: cumsum t ds) = ds.map (fun d : Nat => (d : Int)) := by
  induction ds generalizing t with
  | nil => simp [cumsum, diffs]
  | cons d ds ih => simp [cumsum, diffs, ih]; omega

/-! ### The sortedness invariant -/

/-- `e` is non-empty, non-decreasing, and bounded by the clock `t`. -/
def Inv (e : List Int) (t : Int) : Prop :=
  e ≠ [] ∧ e.Pairwise (· ≤ ·) ∧ ∀ x ∈ e, x ≤ t

theorem Inv.mono {e : List Int} {t t' : Int} (h : Inv e t) (ht : t ≤ t') : Inv e t' :=
  ⟨h.1, h.2.1, fun x hx => by have := h.2.2 x hx; omega⟩

theorem Inv.snoc {e : List Int} {t t' : Int} (h : Inv e t) (ht : t ≤ t') : Inv (e ++ [t']) t' := by
  refine ⟨by simp, ?_, ?_⟩
  · rw [List.pairwise_append]
    refine ⟨h.2.1, by simp, ?_⟩
    intro a ha b hb
    simp at hb; subst hb
    have := h.2.2 a ha; omega
  · intro x hx
    simp at hx
    rcases hx with hx | rfl
    · have := h.2.2 x hx; omega
    · omega

theorem Inv.cumsum {e : List Int} {t : Int} (h : Inv e t) (ds : List Nat) :
    Inv (e ++ cumsum t ds) (t + sumN ds) := by
  induction ds generalizing e t with
  | nil => simpa [EdgeSpec.cumsum, sumN_nil] using h
  | cons d ds ih =>
    have h1 : Inv (e ++ [t + (d : Int)]) (t + d) := h.snoc (by omega)
    have := ih h1
    simpa [EdgeSpec.cumsum, sumN_cons, Int.add_assoc] using this

theorem Inv.checkPolarity {e : List Int} {t : Int} (h : Inv e t) (tp : Option Nat) (pol : Int) :
    Inv (checkPolarity tp pol e t) t := by
  unfold Edges.checkPolarity
  split
  · exact h
  · split
    · exact h.snoc (Int.le_refl _)
    · exact h

theorem bumpLast_length (d : Int) (e : List Int) : (bumpLast d e).length = e.length := by
  induction e with
  | nil => rfl
  | cons x xs ih =>
    cases xs with
    | nil => rfl
    | cons y ys => simp [bumpLast] at ih ⊢; exact ih

theorem bumpLast_ne_nil (d : Int) {e : List Int} (h : e ≠ []) : bumpLast d e ≠ [] := by
  intro h'
  have := bumpLast_length d e
  rw [h'] at this
  cases e with
  | nil => exact h rfl
  | cons x xs => simp at this

theorem bumpLast_mem {d : Int} {e : List Int} {x : Int} (hx : x ∈ bumpLast d e) :
    x ∈ e ∨ ∃ y ∈ e, x = y + d := by
  induction e with
  | nil => simp [bumpLast] at hx
  | cons a xs ih =>
    cases xs with
    | nil =>
      simp [bumpLast] at hx
      exact Or.inr ⟨a, by simp, hx⟩
    | cons b ys =>
      simp only [bumpLast, List.mem_cons] at hx
      rcases hx with rfl | hx
      · left; simp
      · rcases ih (by simpa [bumpLast] using hx) with h | ⟨y, hy, rfl⟩
        · left; exact List.mem_cons_of_mem _ h
        · right; exact ⟨y, List.mem_cons_of_mem _ hy, rfl⟩

theorem Inv.bumpLast {e : List Int} {t : Int} (h : Inv e t) {d : Int} (hd : 0 ≤ d) :
    Inv (bumpLast d e) (t + d) := by
  refine ⟨bumpLast_ne_nil d h.1, ?_, ?_⟩
  · have hp := h.2.1
    clear h
    induction e with
    | nil => simp [Edges.bumpLast]
    | cons a xs ih =>
      cases xs with
      | nil => simp [Edges.bumpLast]
      | cons b ys =>
        rw [List.pairwise_cons] at hp
        simp only [Edges.bumpLast]
        rw [List.pairwise_cons]
        refine ⟨?_, ih hp.2⟩
        intro x hx
        rcases bumpLast_mem hx with hx | ⟨y, hy, rfl⟩
        · exact hp.1 x hx
        · have := hp.1 y hy; omega
  · intro x hx
    rcases bumpLast_mem hx with hx | ⟨y, hy, rfl⟩
    · have := h.2.2 x hx; omega
    · have := h.2.2 y hy; omega

theorem Inv.mergeStep {s : MSt} (h : Inv s.edges s.t) (d : Nat) :
    Inv (mergeStep s d).edges (mergeStep s d).t := by
  unfold Edges.mergeStep
  by_cases hd : d = 0
  · simp [hd]; exact h
  · by_cases hpq : s.p = s.q
    · simp [hd, hpq]; exact h.snoc (by omega)
    · simp [hd, hpq]; exact h.bumpLast (by omega)

theorem Inv.mergeFold (ds : List Nat) {s : MSt} (h : Inv s.edges s.t) :
    Inv (ds.foldl Edges.mergeStep s).edges (ds.foldl Edges.mergeStep s).t := by
  induction ds generalizing s with
  | nil => exact h
  | cons d ds ih => exact ih (h.mergeStep d)

theorem Inv.dataEdges {e : List Int} {t : Int} (h : Inv e t) (tm : Timings) (data : List Nat) :
    Inv (dataEdges tm data (e, t)).1 (dataEdges tm data (e, t)).2 := by
  unfold Edges.dataEdges
  split
  · exact Inv.mergeFold _ (s := ⟨e, t, 0, 0⟩) h
  · rw [emit_eq]; exact h.cumsum _

end Edges
