import SkoolVerif.Proofs.MachineLemmas
import SkoolVerif.Gen.CmioHandlers
import SkoolVerif.Proofs.ContendLemmas
/-!
Frame theorems for the generated contention-aware simulator model (`Gen/CmioHandlers.lean`):
ROM preservation, T-state monotonicity, for *every* `Instr` value (any closure, any
well-formed argument tuple), any state and any lawful memory.  No proof mentions the
internals of a handler: `sim_handler` is the simp set the translator attaches to whatever
closures the source has now, so a harmless rewrite of a closure normally re-proves unchanged.
-/
open Z80
namespace Cmio

grind_pattern Contend.contend_nonneg => Contend.contend cfg m t l

variable {μ ρ : Type} [MemLike μ] [RomMem μ ρ]

theorem romView_mset (m : μ) (a v : Int) (h : 0x3FFF < a) :
    RomMem.romView (mset m a v) = RomMem.romView m := RomMem.romView_set m a v h
theorem romView_portOut (m : μ) (p v : Int) :
    RomMem.romView (MemLike.portOut m p v) = RomMem.romView m := RomMem.romView_portOut m p v

set_option maxHeartbeats 400000 in
theorem rom_execLeaf (cfg : Cfg) (i : Instr) (s : St μ) :
    RomMem.romView (execLeaf cfg i s).mem = RomMem.romView s.mem := by
  cases i <;> simp only [execLeaf, sim_handler, Id.run, pure] <;>
    grind [romView_mset, romView_portOut]

theorem rom_exec2 (cfg : Cfg) (i : Instr) (s : St μ) :
    RomMem.romView (exec2 cfg i s).mem = RomMem.romView s.mem := by
  unfold exec2; split <;> exact rom_execLeaf ..

theorem rom_exec (cfg : Cfg) (i : Instr) (s : St μ) :
    RomMem.romView (exec cfg i s).mem = RomMem.romView s.mem := by
  unfold exec; split <;> exact rom_exec2 ..

theorem rom_step (cfg : Cfg) (s : St μ) :
    RomMem.romView (step cfg s).mem = RomMem.romView s.mem := rom_exec ..

set_option maxHeartbeats 400000 in
theorem tmono_execLeaf {μ : Type} [MemLike μ] (cfg : Cfg) (i : Instr) (hwf : instrWf i = true) (s : St μ) :
    s.t ≤ (execLeaf cfg i s).t := by
  cases i <;> simp only [instrWf, Bool.and_eq_true, decide_eq_true_eq] at hwf <;>
    simp only [execLeaf, sim_handler, Id.run, pure] <;> grind

end Cmio
