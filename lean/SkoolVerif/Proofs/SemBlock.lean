import SkoolVerif.Proofs.SemBlockLemmas
/-!
Per-closure refinement, family 7: block instructions `ldi` (LDI LDD LDIR LDDR) and `cpi`
(CPI CPD CPIR CPDR), one iteration per step.
-/
namespace C05
open Z80 Sim Spec Z80Isa Z80Spec TableRanges AluCheck
variable {μ : Type} [MemLike μ] [CellMem μ]

theorem dirOf_inv (inc : Int) (dec : Bool) (h : dirOf inc = some dec) :
    (inc = 1 ∧ dec = false) ∨ (inc = -1 ∧ dec = true) := by
  unfold dirOf at h
  split at h
  · rename_i h1; simp at h; left; exact ⟨h1, h⟩
  · split at h
    · rename_i h1; simp at h; right; exact ⟨h1, h⟩
    · simp at h

theorem repOf_inv (r : Int) (rep : Bool) (h : repOf r = some rep) :
    (r = 0 ∧ rep = false) ∨ (r = 1 ∧ rep = true) := by
  unfold repOf at h
  split at h
  · rename_i h1; simp at h; left; exact ⟨h1, h⟩
  · split at h
    · rename_i h1; simp at h; right; exact ⟨h1, h⟩
    · simp at h

theorem bc_nz (bc : Int) : PyInt.p2i ((bc - 1) % 65536 > 0) * 4 = if decide ((bc - 1) % 65536 ≠ 0) = true then 4 else 0 := by
  rw [p2i4]
  by_cases h : (bc - 1) % 65536 > 0
  · have : (bc - 1) % 65536 ≠ 0 := by omega
    simp [h, this]
  · have : (bc - 1) % 65536 = 0 := by omega
    simp [this]

theorem sem_ldi (cfg : Cfg) (inc repeat_ : Int) (d : Decoded)
    (hz : zinstrOf (.ldi inc repeat_) = some d) (s : St μ) (hi : RInv s) :
    Sim.ldi cfg inc repeat_ s = Spec.exec cfg d s := by
  zinv hz
  obtain ⟨dec, hdec, rep, hrep, rfl⟩ := hz
  rinv_setup hi
  have hF := hr.byte 1 (by omega) (by omega) (by omega)
  have hA := hr.byte 0 (by omega) (by omega) (by omega)
  have hV := hmem.byte (rget s.reg 7 + 256 * rget s.reg 6)
  have fl1 := ldi_flags (rget s.reg 1) (rget s.reg 0) (mget s.mem (rget s.reg 7 + 256 * rget s.reg 6)) _ hF hA hV
    (decide ((rget s.reg 3 + 256 * rget s.reg 2 - 1) % 65536 ≠ 0)) (bc_nz _)
  have fl2 := ldir_flags (rget s.reg 1) s.pc hF hpc
  simp only [sim_handler, Id.run, pure]
  rcases dirOf_inv _ _ hdec with ⟨rfl, rfl⟩ | ⟨rfl, rfl⟩ <;> rcases repOf_inv _ _ hrep with ⟨rfl, rfl⟩ | ⟨rfl, rfl⟩ <;>
    (spec_simp []; idx_simp; rsimp hs
     simp only [ne_eq, not_true_eq_false, if_false, Int.reduceEq, not_false_eq_true, if_true, Bool.false_eq_true,
       false_and, true_and]
     repeat' split
     all_goals (rsimp hs; rw [hR2]; first | rw [fl1] | rw [fl2] | skip)
     all_goals st_regs hs)

theorem cpi_cond (a v bc : Int) :
    (¬ (if ¬ (a - v = 0) then bc else a - v) = 0) = (¬ bc = 0 ∧ ¬ a = v) := by
  apply propext
  by_cases h : a - v = 0
  · have : a = v := by omega
    simp [h, this]
  · have : ¬ a = v := by omega
    simp [h, this]

theorem sem_cpi (cfg : Cfg) (inc repeat_ : Int) (d : Decoded)
    (hz : zinstrOf (.cpi inc repeat_) = some d) (s : St μ) (hi : RInv s) :
    Sim.cpi cfg inc repeat_ s = Spec.exec cfg d s := by
  zinv hz
  obtain ⟨dec, hdec, rep, hrep, rfl⟩ := hz
  rinv_setup hi
  have hF := hr.byte 1 (by omega) (by omega) (by omega)
  have hA := hr.byte 0 (by omega) (by omega) (by omega)
  have hV := hmem.byte (rget s.reg 7 + 256 * rget s.reg 6)
  have fl1 := cpi_flags (rget s.reg 1) (rget s.reg 0) (mget s.mem (rget s.reg 7 + 256 * rget s.reg 6)) _ hF hA hV
    (decide ((rget s.reg 3 + 256 * rget s.reg 2 - 1) % 65536 ≠ 0)) (bc_nz _)
  have fl2 := cpir_flags (rget s.reg 1) (rget s.reg 0) (mget s.mem (rget s.reg 7 + 256 * rget s.reg 6)) s.pc hF hA hV hpc
  have hne : (rget s.reg 0 - mget s.mem (rget s.reg 7 + 256 * rget s.reg 6) ≠ 0) =
      (rget s.reg 0 ≠ mget s.mem (rget s.reg 7 + 256 * rget s.reg 6)) := propext (by omega)
  simp only [sim_handler, Id.run, pure]
  rcases dirOf_inv _ _ hdec with ⟨rfl, rfl⟩ | ⟨rfl, rfl⟩ <;> rcases repOf_inv _ _ hrep with ⟨rfl, rfl⟩ | ⟨rfl, rfl⟩ <;>
    (spec_simp []; idx_simp; rsimp hs
     simp only [ne_eq, not_true_eq_false, if_false, Int.reduceEq, not_false_eq_true, if_true, Bool.false_eq_true,
       false_and, true_and]
     try simp only [cpi_cond]
     repeat' split
     all_goals (rsimp hs; rw [hR2]; first | rw [fl1] | rw [fl2] | skip)
     all_goals ((try simp only [ne_eq]); st_regs hs))

end C05
