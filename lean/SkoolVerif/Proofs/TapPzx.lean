import SkoolVerif.Proofs.EdgesSeg
import SkoolVerif.Proofs.EdgesPolarity
/-!
One block written by `write_tap` and by `write_pzx`: the parsed block lists differ (PZX has a
`PULS` and a `DATA` block with declared levels and a 945 T-state tail pulse) but `get_edges`
returns the same edges and the same data-block range.
-/
namespace Edges
open EdgeSpec

def romPulses (flag : Nat) : List (Nat × Nat) := [(if flag = 0 then 8063 else 3223, 2168), (1, 667), (1, 735)]

/-- What `parse_tap` hands to `get_edges` for a block. -/
def tapB (flag : Nat) (d : List Nat) : Block :=
  ⟨{ pulses := romPulses flag, zero := [855, 855], one := [1710, 1710], pause := 3500000 }, d, none⟩

/-- What `parse_pzx` hands to `get_edges` for the same block written by `write_pzx`. -/
def pzxP (flag : Nat) : Block := ⟨{ pulses := romPulses flag, polarity := some 0 }, [], none⟩
def pzxD (d : List Nat) : Block :=
  ⟨{ zero := [855, 855], one := [1710, 1710], usedBits := 8, tail := 945, polarity := some 1 }, d, none⟩

theorem expand_rom_length (flag : Nat) : (expand (romPulses flag)).length = (if flag = 0 then 8063 else 3223) + 2 := by
  simp [expand, romPulses]

/-- State after the pilot and sync pulses, for both forms. -/
def afterPilot (fe : Int) (flag : Nat) : St :=
  { edges := [fe] ++ cumsum fe (expand (romPulses flag)), t := fe + sumN (expand (romPulses flag)),
    tail := fe - 1, keys := none, dbs := [] }

theorem afterPilot_len (fe : Int) (flag : Nat) :
    (afterPilot fe flag).edges.length = (if flag = 0 then 8063 else 3223) + 3 := by
  simp only [afterPilot, List.length_append, cumsum_length, expand_rom_length]
  simp; omega

theorem tap_pilot (fe : Int) (flag : Nat) (d : List Nat) :
    pulsePhase 0 (tapB flag d) (setKeys (tapB flag d) (initSt fe 0)) = afterPilot fe flag := by
  simp [pulsePhase, tapB, romPulses, setKeys, initSt, checkPolarity, emit_eq, afterPilot]

theorem pzx_pilot (fe : Int) (flag : Nat) :
    stepBlock 0 false (pzxP flag) (initSt fe 0) = afterPilot fe flag := by
  have hcp : checkPolarity (some 0) 0 [fe] fe = [fe] := by simp [checkPolarity]
  simp [stepBlock, pausePhase, dataPhase, pulsePhase, pzxP, romPulses, setKeys, initSt, hcp, emit_eq, afterPilot]

theorem pzx_data_cp (fe : Int) (flag : Nat) :
    checkPolarity (some 1) 0 (afterPilot fe flag).edges (afterPilot fe flag).t = (afterPilot fe flag).edges := by
  unfold checkPolarity
  have hl := afterPilot_len fe flag
  have h1 : (1 : Nat) ^^^ ((0 : Int) % 2).toNat = 1 := by decide
  simp only [h1]
  have : ((afterPilot fe flag).edges.length - 1) % 2 = 1 := by
    rw [hl]; by_cases h : flag = 0 <;> simp [h]
  simp [this]

end Edges

namespace Edges
open EdgeSpec

/-- `dataPhase` on the table path, fully explicit. -/
theorem dataPhase_fast_explicit (pol : Int) (l : Bool) (b : Block) (s : St) (hd : b.data ≠ [])
    (hz : hasZero b.timings = false) :
    dataPhase pol l b s =
      { edges := checkPolarity b.timings.polarity pol s.edges s.t ++ cumsum s.t (dataPulses b),
        t := s.t + sumN (dataPulses b),
        tail := if b.timings.tail ≠ 0 then s.t + sumN (dataPulses b) else s.tail,
        keys := none,
        dbs := s.dbs ++ [⟨b.data, (checkPolarity b.timings.polarity pol s.edges s.t).length - 1,
          (checkPolarity b.timings.polarity pol s.edges s.t).length + (dataPulses b).length - 1, s.keys, true⟩] } := by
  have hdb := dataPhase_dbs pol l b s hd
  rw [newDb_fast pol b s hz] at hdb
  have he := dataPhase_edges pol l b s hd
  rw [dataCore_fast _ _ _ _ _ hz] at he
  have hk : (dataPhase pol l b s).keys = none ∧
      (dataPhase pol l b s).tail = if b.timings.tail ≠ 0 then s.t + sumN (dataPulses b) else s.tail := by
    unfold dataPhase dataEdges
    by_cases ht : b.timings.tail = 0
    · simp [hd, ht]
    · simp only [ne_eq, hd, not_false_eq_true, ↓reduceIte, hz, Bool.false_eq_true, ht, emit_eq, dataPulses,
        tailL, sumN_append, sumN_cons, sumN_nil]
      simp only [Int.add_zero, Int.add_assoc, true_and]
  cases hs : dataPhase pol l b s with
  | mk e t tl k dbs =>
    rw [hs] at hdb he hk
    simp only at hdb he hk
    rw [he.1, he.2, hk.1, hk.2, hdb]
    rfl

def romData (d : List Nat) : List Nat := fastSeq [855, 855] [1710, 1710] 8 d

/-- Final state of the TAP form. -/
theorem tap_final (fe : Int) (flag : Nat) (d : List Nat) (hd : d ≠ []) :
    runBlocks 0 [tapB flag d] (initSt fe 0) =
      { edges := (afterPilot fe flag).edges ++ cumsum (afterPilot fe flag).t (romData d),
        t := (afterPilot fe flag).t + sumN (romData d), tail := fe - 1, keys := none,
        dbs := [⟨d, (afterPilot fe flag).edges.length - 1,
                 (afterPilot fe flag).edges.length + (romData d).length - 1, none, true⟩] } := by
  show stepBlock 0 true (tapB flag d) (initSt fe 0) = _
  unfold stepBlock
  rw [tap_pilot]
  have hz : hasZero (tapB flag d).timings = false := rfl
  rw [dataPhase_fast_explicit 0 true (tapB flag d) _ hd hz]
  simp [pausePhase, tapB, checkPolarity, dataPulses, tailL, romData, afterPilot]

/-- State of the PZX form before the code after the loop. -/
theorem pzx_final (fe : Int) (flag : Nat) (d : List Nat) (hd : d ≠ []) :
    runBlocks 0 [pzxP flag, pzxD d] (initSt fe 0) =
      { edges := (afterPilot fe flag).edges ++ cumsum (afterPilot fe flag).t (romData d ++ [945]),
        t := (afterPilot fe flag).t + sumN (romData d ++ [945]),
        tail := (afterPilot fe flag).t + sumN (romData d ++ [945]), keys := none,
        dbs := [⟨d, (afterPilot fe flag).edges.length - 1,
                 (afterPilot fe flag).edges.length + ((romData d).length + 1) - 1, none, true⟩] } := by
  show stepBlock 0 true (pzxD d) (stepBlock 0 false (pzxP flag) (initSt fe 0)) = _
  rw [pzx_pilot]
  unfold stepBlock
  have h1 : pulsePhase 0 (pzxD d) (setKeys (pzxD d) (afterPilot fe flag)) = afterPilot fe flag := by
    simp [pulsePhase, pzxD, setKeys, afterPilot]
  rw [h1]
  have hz : hasZero (pzxD d).timings = false := rfl
  rw [dataPhase_fast_explicit 0 true (pzxD d) _ hd hz]
  have hcp := pzx_data_cp fe flag
  have hpol : (pzxD d).timings.polarity = some 1 := rfl
  rw [hpol, hcp]
  simp [pausePhase, pzxD, dataPulses, tailL, romData, afterPilot]

end Edges

namespace Edges
open EdgeSpec

theorem tap_pzx_single_block (fe : Int) (flag : Nat) (d : List Nat) (hd : d ≠ []) :
    getEdges [pzxP flag, pzxD d] fe 0 = getEdges [tapB flag d] fe 0 := by
  have hA := afterPilot_len fe flag
  have hApos : 1 ≤ (afterPilot fe flag).edges.length := by rw [hA]; omega
  -- TAP side: nothing happens after the loop
  have htap : getEdges [tapB flag d] fe 0 =
      ((afterPilot fe flag).edges ++ cumsum (afterPilot fe flag).t (romData d),
       [⟨d, (afterPilot fe flag).edges.length - 1,
         (afterPilot fe flag).edges.length + (romData d).length - 1, none, true⟩]) := by
    unfold getEdges
    rw [tap_final fe flag d hd]
    rcases finish_cases
      ({ edges := (afterPilot fe flag).edges ++ cumsum (afterPilot fe flag).t (romData d),
         t := (afterPilot fe flag).t + sumN (romData d), tail := fe - 1, keys := none,
         dbs := [⟨d, (afterPilot fe flag).edges.length - 1,
                  (afterPilot fe flag).edges.length + (romData d).length - 1, none, true⟩] } : St)
      with ⟨hl, _⟩ | ⟨_, hf⟩
    · exfalso
      have hmem := List.mem_of_getLast? hl
      simp only [afterPilot, List.mem_append, List.mem_singleton] at hmem
      have hge : ∀ x ∈ cumsum fe (expand (romPulses flag)), fe ≤ x := cumsum_ge _ _
      have hge2 : ∀ x ∈ cumsum (fe + sumN (expand (romPulses flag))) (romData d), fe ≤ x := by
        intro x hx
        have := cumsum_ge _ _ x hx
        have := sumN_nonneg (expand (romPulses flag))
        omega
      rcases hmem with (h | h) | h
      · omega
      · have := hge _ h; omega
      · have := hge2 _ h; omega
    · exact hf
  -- PZX side: the tail edge is dropped and the range clamped
  have hpzx : getEdges [pzxP flag, pzxD d] fe 0 =
      ((afterPilot fe flag).edges ++ cumsum (afterPilot fe flag).t (romData d),
       [⟨d, (afterPilot fe flag).edges.length - 1,
         (afterPilot fe flag).edges.length + (romData d).length - 1, none, true⟩]) := by
    unfold getEdges
    rw [pzx_final fe flag d hd]
    have hsplit : (afterPilot fe flag).edges ++ cumsum (afterPilot fe flag).t (romData d ++ [945]) =
        ((afterPilot fe flag).edges ++ cumsum (afterPilot fe flag).t (romData d)) ++
          [(afterPilot fe flag).t + sumN (romData d ++ [945])] := by
      rw [cumsum_append]
      simp [cumsum, sumN_append, sumN_cons, sumN_nil, Int.add_assoc]
    unfold finish
    simp only [hsplit, List.getLast?_concat, ↓reduceIte, List.dropLast_concat, adjustLast,
      List.length_append, cumsum_length]
    congr 2
    congr 1 <;> omega
  rw [htap, hpzx]

end Edges
