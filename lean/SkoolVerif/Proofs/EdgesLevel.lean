import SkoolVerif.Proofs.EdgesLemmas
/-!
Semantics of the zero-pulse merge loop: the merged edge list describes the same
signal (level as a function of time) as naive toggling at every pulse end.
-/
namespace Edges
open EdgeSpec

/-- Number of edges at or before `τ`. -/
def cnt (E : List Int) (τ : Int) : Nat := E.countP (fun x => decide (x ≤ τ))

theorem level_eq (E : List Int) (τ : Int) : level E τ = cnt E τ % 2 := rfl

theorem cnt_append (A B : List Int) (τ : Int) : cnt (A ++ B) τ = cnt A τ + cnt B τ := by
  simp [cnt, List.countP_append]

theorem cnt_single (x τ : Int) : cnt [x] τ = if x ≤ τ then 1 else 0 := by
  by_cases h : x ≤ τ <;> simp [cnt, h]

theorem bumpLast_snoc (d : Int) (init : List Int) (x : Int) :
    bumpLast d (init ++ [x]) = init ++ [x + d] := by
  induction init with
  | nil => rfl
  | cons a r ih =>
    cases r with
    | nil => rfl
    | cons b r' =>
      simp only [List.cons_append] at ih ⊢
      rw [bumpLast, ih]
      simp

theorem eq_snoc_of_getLast {E : List Int} {t : Int} (h : E.getLast? = some t) :
    E = E.dropLast ++ [t] := by
  have hne : E ≠ [] := by intro hc; rw [hc] at h; simp at h
  have h1 := List.dropLast_concat_getLast hne
  have h2 : E.getLast hne = t := by
    rw [List.getLast?_eq_some_getLast hne] at h
    exact Option.some.inj h
  rw [h2] at h1
  exact h1.symm

theorem mergeStep_zero (s : MSt) : mergeStep s 0 = ⟨s.edges, s.t, 1 - s.p, s.q⟩ := by
  simp [mergeStep]

theorem mergeStep_eq (s : MSt) (d : Nat) (hd : d ≠ 0) (hpq : s.p = s.q) :
    mergeStep s d = ⟨s.edges ++ [s.t + d], s.t + d, 1 - s.p, 1 - s.q⟩ := by
  simp [mergeStep, hd, hpq]

theorem mergeStep_ne (s : MSt) (d : Nat) (hd : d ≠ 0) (hpq : s.p ≠ s.q) :
    mergeStep s d = ⟨bumpLast d s.edges, s.t + d, 1 - s.p, s.q⟩ := by
  simp [mergeStep, hd, hpq]

/-- The invariant relating the merge loop state to the naive edge list `N`. -/
def LInv (E : List Int) (t : Int) (p q : Nat) (N : List Int) : Prop :=
  E.getLast? = some t ∧ p ≤ 1 ∧ q ≤ 1 ∧
  (∀ τ, τ < t → cnt E τ % 2 = cnt N τ % 2) ∧
  (∀ τ, t ≤ τ → (cnt E τ + p + q) % 2 = cnt N τ % 2)

theorem LInv.step {s : MSt} {N : List Int} (h : LInv s.edges s.t s.p s.q N) (d : Nat) :
    LInv (mergeStep s d).edges (mergeStep s d).t (mergeStep s d).p (mergeStep s d).q (N ++ [s.t + d]) := by
  obtain ⟨hl, hp, hq, hb, ha⟩ := h
  by_cases hd : d = 0
  · subst hd
    rw [mergeStep_zero]
    show LInv s.edges s.t (1 - s.p) s.q (N ++ [s.t + ((0 : Nat) : Int)])
    simp only [Int.natCast_zero, Int.add_zero]
    refine ⟨hl, by omega, hq, ?_, ?_⟩
    · intro τ hτ
      rw [cnt_append, cnt_single]
      have := hb τ hτ
      have h2 : ¬ s.t ≤ τ := by omega
      simp only [h2, ↓reduceIte]
      omega
    · intro τ hτ
      rw [cnt_append, cnt_single]
      have := ha τ hτ
      simp only [hτ, ↓reduceIte]
      omega
  · have hdpos : (0 : Int) < d := by omega
    by_cases hpq : s.p = s.q
    · rw [mergeStep_eq s d hd hpq]
      show LInv (s.edges ++ [s.t + d]) (s.t + d) (1 - s.p) (1 - s.q) (N ++ [s.t + d])
      refine ⟨by simp, by omega, by omega, ?_, ?_⟩
      · intro τ hτ
        rw [cnt_append, cnt_append, cnt_single]
        have h2 : ¬ s.t + (d : Int) ≤ τ := by omega
        simp only [h2, ↓reduceIte, Nat.add_zero]
        by_cases h3 : τ < s.t
        · exact hb τ h3
        · have := ha τ (by omega)
          omega
      · intro τ hτ
        rw [cnt_append, cnt_append, cnt_single]
        simp only [hτ, ↓reduceIte]
        have := ha τ (by omega)
        omega
    · rw [mergeStep_ne s d hd hpq]
      show LInv (bumpLast d s.edges) (s.t + d) (1 - s.p) s.q (N ++ [s.t + d])
      have hE := eq_snoc_of_getLast hl
      have hb' : ∀ τ, cnt s.edges τ = cnt s.edges.dropLast τ + (if s.t ≤ τ then 1 else 0) := by
        intro τ
        rw [← cnt_single, ← cnt_append, ← hE]
      rw [hE, bumpLast_snoc]
      refine ⟨by simp, by omega, hq, ?_, ?_⟩
      · intro τ hτ
        rw [cnt_append, cnt_append, cnt_single]
        have h2 : ¬ s.t + (d : Int) ≤ τ := by omega
        simp only [h2, ↓reduceIte, Nat.add_zero]
        by_cases h3 : τ < s.t
        · have := hb τ h3
          rw [hb' τ] at this
          have h4 : ¬ s.t ≤ τ := by omega
          simp only [h4, ↓reduceIte, Nat.add_zero] at this
          exact this
        · have := ha τ (by omega)
          rw [hb' τ] at this
          have h4 : s.t ≤ τ := by omega
          simp only [h4, ↓reduceIte] at this
          omega
      · intro τ hτ
        rw [cnt_append, cnt_append, cnt_single]
        simp only [hτ, ↓reduceIte]
        have := ha τ (by omega)
        rw [hb' τ] at this
        have h4 : s.t ≤ τ := by omega
        simp only [h4, ↓reduceIte] at this
        omega

theorem mergeStep_t (s : MSt) (d : Nat) : (mergeStep s d).t = s.t + d := by
  by_cases hd : d = 0
  · subst hd; rw [mergeStep_zero]; simp
  · by_cases hpq : s.p = s.q
    · rw [mergeStep_eq s d hd hpq]
    · rw [mergeStep_ne s d hd hpq]

theorem LInv.fold (ds : List Nat) {s : MSt} {N : List Int} (h : LInv s.edges s.t s.p s.q N) :
    let r := ds.foldl mergeStep s
    LInv r.edges r.t r.p r.q (N ++ cumsum s.t ds) ∧ r.t = s.t + sumN ds := by
  induction ds generalizing s N with
  | nil => simp [cumsum, sumN_nil]; exact h
  | cons d ds ih =>
    have hstep := h.step d
    have := ih hstep
    rw [mergeStep_t] at this
    simp only [List.foldl_cons, cumsum, sumN_cons]
    rw [← Int.add_assoc]
    refine ⟨?_, this.2⟩
    have h1 := this.1
    rw [List.append_assoc] at h1
    exact h1

theorem LInv.init (e : List Int) (t : Int) (h : e.getLast? = some t) : LInv e t 0 0 e :=
  ⟨h, by simp, by simp, fun _ _ => rfl, fun _ _ => by simp⟩

end Edges
