import SkoolVerif.Proofs.SpecialListLemmas
/-! The specialised scanline builders agree with the generic one on full-size frames (C15). -/
set_option linter.unusedSimpArgs false
set_option linter.unusedVariables false
namespace PngScan
open ZxTile ZxSpec

/-- `_scan_frame` with per-tile lines equal to the generic builder's per-tile blocks gives the
generic builder's output. -/
theorem special_eq_generic (c : Ctx) (udgs : List (List Udg)) (W : Nat) (hs : 0 < c.scale)
    (hf : FullSize c udgs W) (hbd : c.bitDepth = 1 ∨ c.bitDepth = 2 ∨ c.bitDepth = 4)
    (hwf : ∀ row ∈ udgs, ∀ u ∈ row, WfUdg u)
    (hattr : ∀ row ∈ udgs, ∀ u ∈ row, (c.attrs u.attr).isSome)
    (udgLine : Udg → Nat → List Nat)
    (h : ∀ row ∈ udgs, ∀ u ∈ row, ∀ k, k < 8 → udgBlock c u k = udgLine u k) :
    buildAny c udgs = .ok (scanFrame c.scale udgs udgLine) := by
  rw [buildAny_full c udgs W hs hf hattr]
  congr 1
  unfold scanFrame
  apply flatMap_congr'
  intro row hrow
  apply flatMap_congr'
  intro k hk
  simp only [List.mem_range] at hk
  rw [lineOf_full c udgs W hs hf hbd row hrow (hwf row hrow) k]
  congr 2
  apply flatMap_congr'
  intro u hu
  exact h row hrow u hu k hk

/-! ### Depth 1 -/

theorem getBytes1_eq (s v : Nat) :
    getBytes 1 s v = (chunksOf 8 (expand s (bits8 v)).length (expand s (bits8 v))).map (fromBase 2) := rfl

def bd1ntCheck : Bool :=
  (List.range 256).all (fun d => (List.range 2).all (fun p => (List.range 2).all (fun i =>
    noMaskLoop i 8 d (List.replicate 8 p) == bits8 (if i = p then p * 255 else d ^^^ (p * 255)))))

theorem bd1ntCheck_ok : bd1ntCheck = true := by decide +kernel

theorem noMask_bits (d p i : Nat) (hd : d < 256) (hp : p < 2) (hi : i < 2) :
    noMaskLoop i 8 d (List.replicate 8 p) = bits8 (if i = p then p * 255 else d ^^^ (p * 255)) := by
  have h := bd1ntCheck_ok
  simp only [bd1ntCheck, List.all_eq_true, List.mem_range, beq_iff_eq] at h
  exact h d hd p hp i hi

/-- `_scan_udg_bd1_nt` emits the generic builder's block. -/
theorem udgBlock_bd1nt (c : Ctx) (u : Udg) (k : Nat) (hbd : c.bitDepth = 1) (hm : c.mask = .noMask)
    (hu : WfUdg u) (p i : Nat) (ha : c.attrs u.attr = some (p, i)) (hp : p < 2) (hi : i < 2) :
    udgBlock c u k = udgLineBd1Nt c.scale c.attrs u k := by
  unfold udgBlock udgLineBd1Nt udgPixels
  simp only [hbd, show (1 : Nat) ≠ 4 by decide, if_false, ha, Option.getD_some, hm]
  have e0 : applyMask MaskKind.noMask u k p i 0 = noMaskLoop i 8 (u.data.getD k 0) (List.replicate 8 p) := rfl
  rw [e0, noMask_bits _ p i (data_byte_lt hu k) hp hi]
  by_cases hip : i = p
  · simp only [hip, if_true]; rfl
  · simp only [hip, if_false]; rfl

theorem bits8_fromBase (px : List Nat) (hl : px.length = 8) (hv : ∀ v ∈ px, v < 2) :
    bits8 (fromBase 2 px) = px := by
  obtain ⟨a0, a1, a2, a3, a4, a5, a6, a7, rfl⟩ := list8' px hl
  have h0 := hv a0 (by simp); have h1 := hv a1 (by simp); have h2 := hv a2 (by simp)
  have h3 := hv a3 (by simp); have h4 := hv a4 (by simp); have h5 := hv a5 (by simp)
  have h6 := hv a6 (by simp); have h7 := hv a7 (by simp)
  simp only [fromBase, List.foldl_cons, List.foldl_nil, bits8, List.cons.injEq, and_true]
  refine ⟨?_, ?_, ?_, ?_, ?_, ?_, ?_, ?_⟩ <;> omega

theorem applyMask_lt (k : MaskKind) (u : Udg) (row p i B : Nat) (hu : WfUdg u) (hp : p < B) (hi : i < B)
    (hB : 0 < B) : ∀ v ∈ applyMask k u row p i 0, v < B := by
  intro v hv
  rw [applyMask_eq_rule _ _ _ _ _ _ (data_byte_lt hu row) (mask_byte_lt hu row)] at hv
  simp only [List.mem_map] at hv
  obtain ⟨cc, -, rfl⟩ := hv
  generalize rule k.toNat _ _ = r
  cases r <;> simp [Pix.pick, hp, hi, hB]

/-- `_scan_udg_bd1_at` emits the generic builder's block. -/
theorem udgBlock_bd1at (c : Ctx) (u : Udg) (k : Nat) (hbd : c.bitDepth = 1)
    (hu : WfUdg u) (p i : Nat) (ha : c.attrs u.attr = some (p, i)) (hp : p < 2) (hi : i < 2) :
    udgBlock c u k = udgLineBd1At c.scale c.mask c.attrs u k := by
  unfold udgBlock udgLineBd1At udgPixels
  simp only [hbd, show (1 : Nat) ≠ 4 by decide, if_false, ha, Option.getD_some]
  rw [getBytes1_eq, bits8_fromBase _ (applyMask_length _ _ _ _ _ _ (data_byte_lt hu k) (mask_byte_lt hu k))
    (applyMask_lt _ _ _ _ _ 2 hu hp hi (by decide))]

/-! ### Depth 2 and 4: `_get_bytes` works on bit strings, the generic builder on pixels -/

def bitsOf2 (q : Nat) : List Nat := [q / 2, q % 2]
def bitsOf4 (q : Nat) : List Nat := [q / 8 % 2, q / 4 % 2, q / 2 % 2, q % 2]
def pix2 (v : Nat) : List Nat := [v / 64 % 4, v / 16 % 4, v / 4 % 4, v % 4]
def pix4 (v : Nat) : List Nat := [v / 16 % 16, v % 16]

theorem flatten_replicate_flatMap {α β : Type} (s : Nat) (q : α) (f : α → List β) :
    (List.replicate s (f q)).flatten = (List.replicate s q).flatMap f := by
  induction s with
  | zero => rfl
  | succ s ih => simp only [List.replicate_succ, List.flatten_cons, List.flatMap_cons, ih]

theorem list_ge4 {α : Type} (P : List α) (h : 4 ≤ P.length) : ∃ a b c d rest, P = a :: b :: c :: d :: rest := by
  match P, h with
  | a :: b :: c :: d :: rest, _ => exact ⟨a, b, c, d, rest, rfl⟩

theorem list_ge2 {α : Type} (P : List α) (h : 2 ≤ P.length) : ∃ a b rest, P = a :: b :: rest := by
  match P, h with
  | a :: b :: rest, _ => exact ⟨a, b, rest, rfl⟩

/-- Bit-level chunking (8 bits) equals pixel-level chunking (4 two-bit pixels). -/
theorem chunks_bits2 (m : Nat) (P : List Nat) (hP : P.length = m * 4) (hv : ∀ q ∈ P, q < 4) :
    (chunksOf 8 (P.flatMap bitsOf2).length (P.flatMap bitsOf2)).map (fromBase 2)
      = (chunksOf 4 P.length P).map (fromBase 4) := by
  induction m generalizing P with
  | zero =>
    have : P = [] := by simpa using hP
    subst this; simp [chunksOf_nil]
  | succ m ih =>
    obtain ⟨a, b, cc, d, rest, rfl⟩ := list_ge4 P (by rw [hP, Nat.add_mul]; omega)
    · have hrest : rest.length = m * 4 := by simp only [List.length_cons] at hP; omega
      have e1 : (a :: b :: cc :: d :: rest).flatMap bitsOf2
          = (bitsOf2 a ++ bitsOf2 b ++ bitsOf2 cc ++ bitsOf2 d) ++ rest.flatMap bitsOf2 := by
        simp [List.flatMap_cons, List.append_assoc]
      have e2 : a :: b :: cc :: d :: rest = [a, b, cc, d] ++ rest := rfl
      rw [e1, chunksOf_append 8 (by decide) 1 _ _ (by simp [bitsOf2]), List.map_append,
        ih rest hrest (fun q hq => hv q (by simp [hq]))]
      conv => rhs; rw [e2, chunksOf_append 4 (by decide) 1 _ _ (by simp), List.map_append]
      congr 1
      have ha := hv a (by simp); have hb := hv b (by simp); have hc := hv cc (by simp); have hd := hv d (by simp)
      simp [chunksOf, bitsOf2, fromBase]
      omega

/-- Bit-level chunking (8 bits) equals pixel-level chunking (2 four-bit pixels). -/
theorem chunks_bits4 (m : Nat) (P : List Nat) (hP : P.length = m * 2) (hv : ∀ q ∈ P, q < 16) :
    (chunksOf 8 (P.flatMap bitsOf4).length (P.flatMap bitsOf4)).map (fromBase 2)
      = (chunksOf 2 P.length P).map (fun g => g.getD 0 0 * 16 + g.getD 1 0) := by
  induction m generalizing P with
  | zero =>
    have : P = [] := by simpa using hP
    subst this; simp [chunksOf_nil]
  | succ m ih =>
    obtain ⟨a, b, rest, rfl⟩ := list_ge2 P (by rw [hP, Nat.add_mul]; omega)
    · have hrest : rest.length = m * 2 := by simp only [List.length_cons] at hP; omega
      have e1 : (a :: b :: rest).flatMap bitsOf4 = (bitsOf4 a ++ bitsOf4 b) ++ rest.flatMap bitsOf4 := by
        simp [List.flatMap_cons, List.append_assoc]
      have e2 : a :: b :: rest = [a, b] ++ rest := rfl
      rw [e1, chunksOf_append 8 (by decide) 1 _ _ (by simp [bitsOf4]), List.map_append,
        ih rest hrest (fun q hq => hv q (by simp [hq]))]
      conv => rhs; rw [e2, chunksOf_append 2 (by decide) 1 _ _ (by simp), List.map_append]
      congr 1
      have ha := hv a (by simp); have hb := hv b (by simp)
      simp [chunksOf, bitsOf4, fromBase]
      omega

theorem expand_cons {α : Type} (s : Nat) (a : α) (l : List α) :
    expand s (a :: l) = List.replicate s a ++ expand s l := by simp [expand]

theorem expand_nil {α : Type} (s : Nat) : expand s ([] : List α) = [] := rfl

theorem expand_append {α : Type} (s : Nat) (a b : List α) : expand s (a ++ b) = expand s a ++ expand s b := by
  simp [expand]

/-- `_get_bytes(2, scale)[v]` packs the four 2-bit pixels of `v`, each `scale` times. -/
theorem getBytes2_eq (s v : Nat) (hv : v < 256) :
    getBytes 2 s v = (chunksOf 4 (expand s (pix2 v)).length (expand s (pix2 v))).map (fromBase 4) := by
  have hb : (List.replicate s ((bits8 v).take 2)).flatten ++ (List.replicate s (((bits8 v).drop 2).take 2)).flatten
        ++ (List.replicate s (((bits8 v).drop 4).take 2)).flatten ++ (List.replicate s ((bits8 v).drop 6)).flatten
      = (expand s (pix2 v)).flatMap bitsOf2 := by
    have q0 : (bits8 v).take 2 = bitsOf2 (v / 64 % 4) := by simp [bits8, bitsOf2]; omega
    have q1 : ((bits8 v).drop 2).take 2 = bitsOf2 (v / 16 % 4) := by simp [bits8, bitsOf2]; omega
    have q2 : ((bits8 v).drop 4).take 2 = bitsOf2 (v / 4 % 4) := by simp [bits8, bitsOf2]; omega
    have q3 : (bits8 v).drop 6 = bitsOf2 (v % 4) := by simp [bits8, bitsOf2]; omega
    rw [q0, q1, q2, q3]
    simp only [flatten_replicate_flatMap, pix2, expand_cons, expand_nil, List.flatMap_append, List.append_nil,
      List.append_assoc]
  unfold getBytes
  simp only [show (2 : Nat) ≠ 1 by decide, if_false, if_true]
  rw [hb]
  apply chunks_bits2 s
  · rw [expand_length]; simp [pix2, Nat.mul_comm]
  · intro q hq
    simp only [expand, pix2, List.mem_flatMap, List.mem_replicate] at hq
    obtain ⟨a, ha, -, rfl⟩ := hq
    simp only [List.mem_cons, List.not_mem_nil, or_false] at ha
    rcases ha with rfl | rfl | rfl | rfl <;> omega

/-- `_get_bytes(4, scale)[v]` packs the two 4-bit pixels of `v`, each `scale` times. -/
theorem getBytes4_eq (s v : Nat) (hv : v < 256) :
    getBytes 4 s v = (chunksOf 2 (expand s (pix4 v)).length (expand s (pix4 v))).map
      (fun g => g.getD 0 0 * 16 + g.getD 1 0) := by
  have hb : (List.replicate s ((bits8 v).take 4)).flatten ++ (List.replicate s ((bits8 v).drop 4)).flatten
      = (expand s (pix4 v)).flatMap bitsOf4 := by
    have q0 : (bits8 v).take 4 = bitsOf4 (v / 16 % 16) := by simp [bits8, bitsOf4]; omega
    have q1 : (bits8 v).drop 4 = bitsOf4 (v % 16) := by simp [bits8, bitsOf4]; omega
    rw [q0, q1]
    simp only [flatten_replicate_flatMap, pix4, expand_cons, expand_nil, List.flatMap_append, List.append_nil]
  unfold getBytes
  simp only [show (4 : Nat) ≠ 1 by decide, show (4 : Nat) ≠ 2 by decide, if_false]
  rw [hb]
  apply chunks_bits4 s
  · rw [expand_length]; simp [pix4, Nat.mul_comm]
  · intro q hq
    simp only [expand, pix4, List.mem_flatMap, List.mem_replicate] at hq
    obtain ⟨a, ha, -, rfl⟩ := hq
    simp only [List.mem_cons, List.not_mem_nil, or_false] at ha
    rcases ha with rfl | rfl <;> omega

/-! ### Splitting a tile's eight pixels into table-lookup groups -/

theorem pack2_split (s : Nat) (A B : List Nat) (hA : A.length = 4) :
    (chunksOf 4 (expand s (A ++ B)).length (expand s (A ++ B))).map (fromBase 4)
      = (chunksOf 4 (expand s A).length (expand s A)).map (fromBase 4)
        ++ (chunksOf 4 (expand s B).length (expand s B)).map (fromBase 4) := by
  rw [expand_append, chunksOf_append 4 (by decide) s _ _ (by rw [expand_length, hA, Nat.mul_comm]),
    List.map_append]

theorem pack4_split (s : Nat) (A B : List Nat) (hA : A.length = 2) :
    (chunksOf 2 (expand s (A ++ B)).length (expand s (A ++ B))).map (fun g => g.getD 0 0 * 16 + g.getD 1 0)
      = (chunksOf 2 (expand s A).length (expand s A)).map (fun g => g.getD 0 0 * 16 + g.getD 1 0)
        ++ (chunksOf 2 (expand s B).length (expand s B)).map (fun g => g.getD 0 0 * 16 + g.getD 1 0) := by
  rw [expand_append, chunksOf_append 2 (by decide) s _ _ (by rw [expand_length, hA, Nat.mul_comm]),
    List.map_append]

def nibbleCheck : Bool :=
  (List.range 256).all (fun d =>
    (List.range 8).map (fun c => if colBit d c then 1 else 0) == bits4 (d / 16) ++ bits4 (d &&& 15))

theorem nibbleCheck_ok : nibbleCheck = true := by decide +kernel

/-- Unmasked pixels of a graphic byte, via the two nibbles the lookup tables are indexed by. -/
theorem noMask_pixels (u : Udg) (k p i : Nat) (hu : WfUdg u) :
    applyMask .noMask u k p i 0 =
      (bits4 (u.data.getD k 0 / 16) ++ bits4 (u.data.getD k 0 &&& 15)).map (fun bit => if bit = 0 then p else i) := by
  rw [applyMask_eq_rule _ _ _ _ _ _ (data_byte_lt hu k) (mask_byte_lt hu k)]
  have h := nibbleCheck_ok
  simp only [nibbleCheck, List.all_eq_true, List.mem_range, beq_iff_eq] at h
  have hd := data_byte_lt hu k
  generalize u.data.getD k 0 = d at hd ⊢
  rw [← h _ hd, List.map_map]
  apply List.map_congr_left
  intro cc _
  simp only [Function.comp, MaskKind.toNat, rule]
  by_cases hb : colBit d cc = true <;> simp [hb, Pix.pick]

/-- `_scan_udg_bd2_nt` emits the generic builder's block. -/
theorem udgBlock_bd2nt (c : Ctx) (u : Udg) (k : Nat) (hbd : c.bitDepth = 2) (hm : c.mask = .noMask)
    (hu : WfUdg u) (p i : Nat) (ha : c.attrs u.attr = some (p, i)) (hp : p < 4) (hi : i < 4) :
    udgBlock c u k = udgLineBd2Nt c.scale c.attrs u k := by
  unfold udgBlock udgLineBd2Nt udgPixels
  simp only [hbd, show (2 : Nat) ≠ 4 by decide, if_false, ha, Option.getD_some, hm]
  rw [noMask_pixels u k p i hu, List.map_append,
    pack2_split c.scale _ _ (by simp [bits4])]
  have key (nib : Nat) :
      (chunksOf 4 (expand c.scale ((bits4 nib).map (fun bit => if bit = 0 then p else i))).length
          (expand c.scale ((bits4 nib).map (fun bit => if bit = 0 then p else i)))).map (fromBase 4)
        = getBytes 2 c.scale
            ((if nib / 8 % 2 = 0 then p else i) * 64 + (if nib / 4 % 2 = 0 then p else i) * 16
              + (if nib / 2 % 2 = 0 then p else i) * 4 + (if nib % 2 = 0 then p else i)) := by
    have t0 : (if nib / 8 % 2 = 0 then p else i) < 4 := by split <;> assumption
    have t1 : (if nib / 4 % 2 = 0 then p else i) < 4 := by split <;> assumption
    have t2 : (if nib / 2 % 2 = 0 then p else i) < 4 := by split <;> assumption
    have t3 : (if nib % 2 = 0 then p else i) < 4 := by split <;> assumption
    rw [getBytes2_eq _ _ (by omega)]
    have : pix2 ((if nib / 8 % 2 = 0 then p else i) * 64 + (if nib / 4 % 2 = 0 then p else i) * 16
          + (if nib / 2 % 2 = 0 then p else i) * 4 + (if nib % 2 = 0 then p else i))
        = (bits4 nib).map (fun bit => if bit = 0 then p else i) := by
      simp only [pix2, bits4, List.map_cons, List.map_nil, List.cons.injEq, and_true]
      refine ⟨?_, ?_, ?_, ?_⟩ <;> omega
    rw [this]
  rw [key, key]
  simp only [bits4]

/-- `_scan_udg_bd4_nt` emits the generic builder's block. -/
theorem udgBlock_bd4nt (c : Ctx) (u : Udg) (k : Nat) (hbd : c.bitDepth = 4) (hm : c.mask = .noMask)
    (hu : WfUdg u) (p i : Nat) (ha : c.attrs u.attr = some (p, i)) (hp : p < 16) (hi : i < 16) :
    udgBlock c u k = udgLineBd4Nt c.scale c.attrs u k := by
  unfold udgBlock udgLineBd4Nt udgPixels
  simp only [hbd, if_true, ha, Option.getD_some, hm]
  rw [noMask_pixels u k p i hu]
  have key (x y : Nat) (hx : x < 16) (hy : y < 16) :
      (chunksOf 2 (expand c.scale [x, y]).length (expand c.scale [x, y])).map (fun g => g.getD 0 0 * 16 + g.getD 1 0)
        = getBytes 4 c.scale (x * 16 + y) := by
    rw [getBytes4_eq _ _ (by omega)]
    have : pix4 (x * 16 + y) = [x, y] := by
      simp only [pix4, List.cons.injEq, and_true]; constructor <;> omega
    rw [this]
  have t (b : Nat) : (if b = 0 then p else i) < 16 := by split <;> assumption
  simp only [bits4, List.map_cons, List.map_nil, List.cons_append, List.nil_append]
  have e : ∀ (a0 a1 a2 a3 a4 a5 a6 a7 : Nat),
      [a0, a1, a2, a3, a4, a5, a6, a7] = [a0, a1] ++ ([a2, a3] ++ ([a4, a5] ++ [a6, a7])) := fun _ _ _ _ _ _ _ _ => rfl
  rw [e, pack4_split _ _ _ rfl, pack4_split _ _ _ rfl, pack4_split _ _ _ rfl,
    key _ _ (t _) (t _), key _ _ (t _) (t _), key _ _ (t _) (t _), key _ _ (t _) (t _)]
  simp only [List.append_assoc]

end PngScan
