import SkoolVerif.Proofs.WrapLemmas
import SkoolVerif.Proofs.WrapWordsLemmas
/-! Refinement: on single-spaced word lists the `textwrap` model coincides with
the textbook greedy wrap (`wrapChunks w (spaced ws) = (wrapWords w ws).map spaced`). -/
namespace Wrap

/-- The chunks following a word: `' ', w1, ' ', w2, …`. -/
def cont : List Word → List Chunk
  | [] => []
  | y :: ys => [32] :: y :: cont ys

theorem spaced_cons (x : Word) (xs : List Word) : spaced (x :: xs) = x :: cont xs := by
  induction xs generalizing x with
  | nil => rfl
  | cons y ys ih => simp only [spaced, cont]; rw [ih y]

theorem spaced_length (ws : List Word) : (spaced ws).length ≤ 2 * ws.length := by
  cases ws with
  | nil => simp [spaced]
  | cons x xs =>
    rw [spaced_cons]
    have : ∀ t : List Word, (cont t).length = 2 * t.length := by
      intro t; induction t with
      | nil => rfl
      | cons y ys ih => simp only [cont, List.length_cons, ih]; omega
    simp only [List.length_cons, this]; omega

theorem clen_cont (t : List Word) : clen (cont t) = extra t := by
  induction t with
  | nil => rfl
  | cons y ys ih => simp only [cont, clen_cons, extra_cons, ih, List.length_cons, List.length_nil]; omega

theorem blank_space : blank [32] = true := by decide

/-- `fill` on the continuation chunks, in terms of `takeMore`. -/
theorem fill_cont (w : Nat) : ∀ (xs : List Word) (cur : Nat),
    fill w cur (cont xs) =
      match (takeMore w cur xs).2 with
      | [] => (cont (takeMore w cur xs).1, [])
      | y :: ys =>
        if cur + extra (takeMore w cur xs).1 + 1 ≤ w then
          (cont (takeMore w cur xs).1 ++ [[32]], y :: cont ys)
        else (cont (takeMore w cur xs).1, cont (y :: ys)) := by
  intro xs
  induction xs with
  | nil => intro cur; simp [cont, fill, takeMore]
  | cons x xs ih =>
    intro cur
    by_cases hA : cur + 1 + x.length ≤ w
    · have h1 : cur + 1 ≤ w := by omega
      have hf : fill w cur (cont (x :: xs)) =
          ([32] :: x :: (fill w (cur + 1 + x.length) (cont xs)).1,
            (fill w (cur + 1 + x.length) (cont xs)).2) := by
        simp only [cont, fill, List.length_cons, List.length_nil, Nat.zero_add]
        rw [if_pos h1, if_pos (by omega)]
      have ht : takeMore w cur (x :: xs) =
          (x :: (takeMore w (cur + 1 + x.length) xs).1, (takeMore w (cur + 1 + x.length) xs).2) := by
        simp only [takeMore]; rw [if_pos hA]
      rw [hf, ht, ih (cur + 1 + x.length)]
      simp only
      cases (takeMore w (cur + 1 + x.length) xs).2 with
      | nil => simp [cont]
      | cons y ys =>
        simp only [extra_cons]
        have he : cur + (1 + x.length + extra (takeMore w (cur + 1 + x.length) xs).1) + 1
            = cur + 1 + x.length + extra (takeMore w (cur + 1 + x.length) xs).1 + 1 := by omega
        rw [he]
        split <;> simp [cont]
    · have ht : takeMore w cur (x :: xs) = ([], x :: xs) := by
        simp only [takeMore]; rw [if_neg hA]
      rw [ht]
      by_cases h1 : cur + 1 ≤ w
      · have h1' : cur + extra ([] : List Word) + 1 ≤ w := by simp only [extra_nil]; omega
        simp only
        rw [if_pos h1']
        simp [cont, fill, h1, hA]
      · have h1' : ¬ cur + extra ([] : List Word) + 1 ≤ w := by simp only [extra_nil]; omega
        simp only
        rw [if_neg h1']
        simp [cont, fill, h1]

/-- The last chunk of `x :: cont t` is a word. -/
theorem cons_cont_last (t : List Word) : ∀ (x : Word), blank x = false →
    (∀ y ∈ t, blank y = false) → ∃ l c, x :: cont t = l ++ [c] ∧ blank c = false := by
  induction t with
  | nil => intro x hx _; exact ⟨[], x, rfl, hx⟩
  | cons y ys ih =>
    intro x _ ht
    obtain ⟨l, c, hl, hc⟩ := ih y (ht y List.mem_cons_self)
      (fun z hz => ht z (List.mem_cons_of_mem _ hz))
    exact ⟨x :: [32] :: l, c, by simp only [cont, List.cons_append, hl], hc⟩

theorem dropTrail_append_singleton (l : List Chunk) (c : Chunk) :
    dropTrail (l ++ [c]) = if blank c then l else l ++ [c] := by
  simp [dropTrail]

theorem takeMore_nonblank (w : Nat) (xs : List Word) (cur : Nat) (h : ∀ y ∈ xs, blank y = false) :
    (∀ y ∈ (takeMore w cur xs).1, blank y = false) ∧ (∀ y ∈ (takeMore w cur xs).2, blank y = false) := by
  have := takeMore_append w xs cur
  constructor
  · intro y hy; apply h; rw [← this]; simp [hy]
  · intro y hy; apply h; rw [← this]; simp [hy]

/-- One outer iteration on `w0 ' ' w1 ' ' …`. -/
theorem step_spaced (w : Nat) (s : Bool) (x : Word) (xs : List Word) (hx : blank x = false)
    (hxs : ∀ y ∈ xs, blank y = false) :
    step w s (x :: cont xs) =
      (x :: cont (takeMore w x.length xs).1,
        match (takeMore w x.length xs).2 with
        | [] => []
        | y :: ys => if x.length + extra (takeMore w x.length xs).1 + 1 ≤ w then y :: cont ys
                     else [32] :: y :: cont ys) := by
  have hdl : dropLead s (x :: cont xs) = x :: cont xs := by simp [dropLead, hx]
  -- takeLine
  have htl : takeLine w (x :: cont xs) =
      (x :: (fill w x.length (cont xs)).1, (fill w x.length (cont xs)).2) := by
    by_cases hfit : x.length ≤ w
    · have hf : fill w 0 (x :: cont xs) = (x :: (fill w x.length (cont xs)).1, (fill w x.length (cont xs)).2) := by
        simp only [fill, Nat.zero_add]; rw [if_pos hfit]
      unfold takeLine
      rw [hf]
      simp only
      split
      · rename_i c cs _
        rw [if_neg (by simp)]
      · rfl
    · have hf : fill w 0 (x :: cont xs) = ([], x :: cont xs) := by
        simp only [fill, Nat.zero_add]; rw [if_neg hfit]
      unfold takeLine
      rw [hf]
      simp only
      rw [if_pos ⟨by omega, trivial⟩]
      -- fill with cur = len x > w takes nothing
      have : fill w x.length (cont xs) = ([], cont xs) := by
        cases xs with
        | nil => simp [cont, fill]
        | cons y ys => simp only [cont, fill]; rw [if_neg (by omega)]
      rw [this]
  obtain ⟨hn1, hn2⟩ := takeMore_nonblank w xs x.length hxs
  obtain ⟨l, c, hl, hc⟩ := cons_cont_last (takeMore w x.length xs).1 x hx hn1
  unfold step
  simp only [hdl, htl]
  rw [fill_cont w xs x.length]
  cases h2 : (takeMore w x.length xs).2 with
  | nil =>
    simp only
    rw [hl, dropTrail_append_singleton, hc]; simp
  | cons y ys =>
    simp only
    split
    · simp only
      have : x :: (cont (takeMore w x.length xs).1 ++ [[32]]) = (x :: cont (takeMore w x.length xs).1) ++ [[32]] := by simp
      rw [this, dropTrail_append_singleton, blank_space]; simp
    · simp only [cont]
      rw [hl, dropTrail_append_singleton, hc]; simp

theorem wrapWordsAux_fuel_succ (w : Nat) : ∀ (fuel : Nat) (ws : List Word), ws.length ≤ fuel →
    wrapWordsAux w (fuel + 1) ws = wrapWordsAux w fuel ws := by
  intro fuel
  induction fuel with
  | zero =>
    intro ws h
    have : ws = [] := List.length_eq_zero_iff.mp (by omega)
    subst this; simp [wrapWordsAux]
  | succ fuel ih =>
    intro ws h
    cases ws with
    | nil => simp [wrapWordsAux]
    | cons x xs =>
      simp only [wrapWordsAux]
      have := takeMore_snd_length w xs x.length
      simp only [List.length_cons] at h
      rw [ih _ (by omega)]

theorem wrapWordsAux_fuel (w : Nat) (ws : List Word) (fuel : Nat) (h : ws.length ≤ fuel) :
    wrapWordsAux w fuel ws = wrapWordsAux w ws.length ws := by
  induction fuel with
  | zero => have : ws.length = 0 := by omega
            rw [this]
  | succ fuel ih =>
    by_cases hf : ws.length ≤ fuel
    · rw [wrapWordsAux_fuel_succ w fuel ws hf]; exact ih hf
    · have : ws.length = fuel + 1 := by omega
      rw [this]

theorem loop_spaced (w : Nat) : ∀ (n : Nat) (ws : List Word), ws.length ≤ n →
    (∀ y ∈ ws, blank y = false) →
    (∀ (s : Bool) (fuel : Nat), (spaced ws).length ≤ fuel →
      loop w fuel s (spaced ws) = (wrapWords w ws).map spaced) ∧
    (ws ≠ [] → ∀ (fuel : Nat), (spaced ws).length + 1 ≤ fuel →
      loop w fuel true ([32] :: spaced ws) = (wrapWords w ws).map spaced) := by
  intro n
  induction n with
  | zero =>
    intro ws h _
    have : ws = [] := List.length_eq_zero_iff.mp (by omega)
    subst this
    refine ⟨?_, by simp⟩
    intro s fuel _
    cases fuel <;> simp [loop, spaced, wrapWords, wrapWordsAux]
  | succ n ih =>
    intro ws h hnb
    cases ws with
    | nil =>
      refine ⟨?_, by simp⟩
      intro s fuel _
      cases fuel <;> simp [loop, spaced, wrapWords, wrapWordsAux]
    | cons x xs =>
      have hx : blank x = false := hnb x List.mem_cons_self
      have hxs : ∀ y ∈ xs, blank y = false := fun y hy => hnb y (List.mem_cons_of_mem _ hy)
      simp only [List.length_cons] at h
      have hrl := takeMore_snd_length w xs x.length
      obtain ⟨_, hn2⟩ := takeMore_nonblank w xs x.length hxs
      have ihr := ih (takeMore w x.length xs).2 (by omega) hn2
      -- the first part, for any `s`
      have part1 : ∀ (s : Bool) (fuel : Nat), (spaced (x :: xs)).length ≤ fuel →
          loop w fuel s (spaced (x :: xs)) = (wrapWords w (x :: xs)).map spaced := by
        intro s fuel hfuel
        rw [spaced_cons] at hfuel ⊢
        obtain ⟨f, rfl⟩ : ∃ f, fuel = f + 1 := ⟨fuel - 1, by simp only [List.length_cons] at hfuel; omega⟩
        have hshort := step_shorter w s (x :: cont xs) (by simp)
        rw [loop]
        rw [if_neg (by simp)]
        simp only
        rw [step_spaced w s x xs hx hxs] at hshort ⊢
        simp only at hshort ⊢
        rw [if_neg (by simp)]
        -- right-hand side
        have hrhs : wrapWords w (x :: xs) =
            (x :: (takeMore w x.length xs).1) :: wrapWords w (takeMore w x.length xs).2 := by
          simp only [wrapWords, List.length_cons, wrapWordsAux]
          rw [wrapWordsAux_fuel w _ xs.length hrl]
        rw [hrhs, List.map_cons, spaced_cons]
        congr 1
        cases h2 : (takeMore w x.length xs).2 with
        | nil =>
          simp only [wrapWords, List.length_nil, wrapWordsAux, List.map_nil]
          cases f <;> simp [loop]
        | cons y ys =>
          rw [h2] at ihr hshort
          simp only at hshort ⊢
          split
          · rename_i hfit
            rw [if_pos hfit] at hshort
            rw [← spaced_cons]
            rw [← spaced_cons] at hshort
            exact ihr.1 true f (by simp only [List.length_cons] at hshort hfuel; omega)
          · rename_i hfit
            rw [if_neg hfit] at hshort
            rw [← spaced_cons]
            rw [← spaced_cons] at hshort
            exact ihr.2 (by simp) f (by simp only [List.length_cons] at hshort hfuel; omega)
      refine ⟨part1, ?_⟩
      intro _ fuel hfuel
      obtain ⟨f, rfl⟩ : ∃ f, fuel = f + 1 := ⟨fuel - 1, by omega⟩
      have hstep : step w true ([32] :: spaced (x :: xs)) = step w true (spaced (x :: xs)) := by
        rw [spaced_cons]
        simp [step, dropLead, blank_space, hx]
      have := part1 true (f + 1) (by omega)
      rw [loop] at this ⊢
      rw [if_neg (by simp)]
      rw [if_neg (by rw [spaced_cons]; simp)] at this
      simp only at this ⊢
      rw [hstep]
      exact this

theorem wrapChunks_spaced (w : Nat) (ws : List Word) (hw : ∀ x ∈ ws, blank x = false) :
    wrapChunks w (spaced ws) = (wrapWords w ws).map spaced :=
  (loop_spaced w ws.length ws (Nat.le_refl _) hw).1 false _ (Nat.le_succ _)

end Wrap
