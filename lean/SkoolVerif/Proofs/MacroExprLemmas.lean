import SkoolVerif.Model.MacroExpr
/-! Helper lemmas for C17: the precedence-climbing parser of `MacroExpr`
re-reads the fully parenthesised rendering of every well-formed AST. -/
namespace MacroExprLemmas
open MacroExpr

/-- Fully parenthesised token rendering. The flag says whether the
expression stands in the tail position of a comparison chain (where a `link`
continues the chain and anything else is a parenthesised operand). -/
def render : Bool → Expr → List Tok
  | false, .num n => [.num n]
  | false, .name => [.name]
  | false, .neg e => .op .sub :: .lp :: render false e ++ [.rp]
  | false, .pos e => .op .add :: .lp :: render false e ++ [.rp]
  | false, .bin o a b => .lp :: render false a ++ [.rp, .op o, .lp] ++ render false b ++ [.rp]
  | false, .cmp a c t => .lp :: render false a ++ [.rp, .cmp c] ++ render true t
  | false, .link _ _ _ => []
  | true, .link b c t => .lp :: render false b ++ [.rp, .cmp c] ++ render true t
  | true, .num n => [.lp, .num n, .rp]
  | true, .name => [.lp, .name, .rp]
  | true, .neg e => .lp :: .op .sub :: .lp :: render false e ++ [.rp, .rp]
  | true, .pos e => .lp :: .op .add :: .lp :: render false e ++ [.rp, .rp]
  | true, .bin o a b => .lp :: .lp :: render false a ++ [.rp, .op o, .lp] ++ render false b ++ [.rp, .rp]
  | true, .cmp a c t => .lp :: .lp :: render false a ++ [.rp, .cmp c] ++ render true t ++ [.rp]

/-- `link` occurs only as the tail of a comparison. -/
def wf : Bool → Expr → Bool
  | _, .num _ => true
  | _, .name => true
  | _, .neg e => wf false e
  | _, .pos e => wf false e
  | _, .bin _ a b => wf false a && wf false b
  | _, .cmp a _ t => wf false a && wf true t
  | true, .link b _ t => wf false b && wf true t
  | false, .link _ _ _ => false

def isLink : Expr → Bool
  | .link _ _ _ => true
  | _ => false

theorem render_true_nonlink (e : Expr) (h : isLink e = false) :
    render true e = .lp :: render false e ++ [.rp] := by
  cases e <;> simp_all [render, isLink]

theorem wf_true_nonlink (e : Expr) (h : isLink e = false) : wf true e = wf false e := by
  cases e <;> simp_all [wf, isLink]

/-- The token after an operand does not continue an operator loop. -/
def stops : List Tok → Bool
  | .op _ :: _ => false
  | .cmp _ :: _ => false
  | _ => true

theorem opLoop_stops (sub : Nat → List Tok → PRes) (k p : Nat) (lhs : Expr) (rest : List Tok)
    (h : stops rest = true) : opLoop sub (k + 1) p lhs rest = some (lhs, rest) := by
  cases rest with
  | nil => rw [opLoop] <;> simp
  | cons t r => cases t <;> simp_all [stops, opLoop]

theorem opLoop_op (sub : Nat → List Tok → PRes) (k p : Nat) (lhs b : Expr) (o : BinOp) (r r' : List Tok)
    (h1 : prec o ≥ p) (h2 : sub (rhsPrec o) r = some (b, r')) :
    opLoop sub (k + 1) p lhs (.op o :: r) = opLoop sub k p (.bin o lhs b) r' := by
  rw [opLoop]; simp [h1, h2]

theorem opLoop_cmp_skip (sub : Nat → List Tok → PRes) (k p : Nat) (lhs : Expr) (c : CmpOp) (r : List Tok)
    (h : ¬ cmpPrec ≥ p) : opLoop sub (k + 1) p lhs (.cmp c :: r) = some (lhs, .cmp c :: r) := by
  rw [opLoop]; simp [h]

theorem opLoop_cmp (sub : Nat → List Tok → PRes) (k p : Nat) (lhs t : Expr) (c : CmpOp) (r r' : List Tok)
    (h : cmpPrec ≥ p) (h2 : chainTail (sub (cmpPrec + 1)) (k + 1) r = some (t, r')) :
    opLoop sub (k + 1) p lhs (.cmp c :: r) = opLoop sub k p (.cmp lhs c t) r' := by
  rw [opLoop]; simp [h, h2]

theorem parseE_num (n p k : Nat) (rest : List Tok) :
    parseE (n + 1) p (.num k :: rest) = opLoop (parseE n) n p (.num k) rest := by
  rw [parseE]

theorem parseE_name (n p : Nat) (rest : List Tok) :
    parseE (n + 1) p (.name :: rest) = opLoop (parseE n) n p .name rest := by
  rw [parseE]

theorem parseE_lp (n p : Nat) (e : Expr) (ts rest : List Tok) (h : parseE n 0 ts = some (e, .rp :: rest)) :
    parseE (n + 1) p (.lp :: ts) = opLoop (parseE n) n p e rest := by
  rw [parseE]; simp [h]

theorem parseE_neg (n p : Nat) (e : Expr) (ts rest : List Tok) (h : parseE n unaryPrec ts = some (e, rest)) :
    parseE (n + 1) p (.op .sub :: ts) = opLoop (parseE n) n p (.neg e) rest := by
  rw [parseE]; simp [h]

theorem parseE_pos (n p : Nat) (e : Expr) (ts rest : List Tok) (h : parseE n unaryPrec ts = some (e, rest)) :
    parseE (n + 1) p (.op .add :: ts) = opLoop (parseE n) n p (.pos e) rest := by
  rw [parseE]; simp [h]

/-- A parenthesised operand followed by a stopping token, at any level. -/
theorem parseE_paren_stops (m p : Nat) (e : Expr) (ts rest : List Tok)
    (h : parseE (m + 1) 0 ts = some (e, .rp :: rest)) (hs : stops rest = true) :
    parseE (m + 2) p (.lp :: ts) = some (e, rest) := by
  rw [parseE_lp (m + 1) p e ts rest h, opLoop_stops _ _ _ _ _ hs]

theorem chainTail_last (operand : List Tok → PRes) (j : Nat) (ts rest : List Tok) (e : Expr)
    (h : operand ts = some (e, rest)) (hs : stops rest = true) :
    chainTail operand (j + 1) ts = some (e, rest) := by
  rw [chainTail, h]
  cases rest with
  | nil => rfl
  | cons t r => cases t <;> simp_all [stops]

theorem chainTail_link (operand : List Tok → PRes) (j : Nat) (ts r r' : List Tok) (b t : Expr) (c : CmpOp)
    (h : operand ts = some (b, .cmp c :: r)) (h2 : chainTail operand j r = some (t, r')) :
    chainTail operand (j + 1) ts = some (.link b c t, r') := by
  rw [chainTail, h]; simp [h2]

theorem stops_rp (r : List Tok) : stops (.rp :: r) = true := rfl

/-- Main lemma, both positions at once. -/
theorem parse_render : ∀ e : Expr,
    (wf false e = true → ∀ n rest, 2 * (render false e).length ≤ n → stops rest = true →
      parseE n 0 (render false e ++ rest) = some (e, rest)) ∧
    (wf true e = true → ∀ n j rest, 2 * (render true e).length ≤ n → (render true e).length ≤ j →
      stops rest = true →
      chainTail (parseE n (cmpPrec + 1)) j (render true e ++ rest) = some (e, rest)) := by
  intro e
  -- tail position of a non-link expression, from its plain statement
  have tailOf : ∀ e : Expr, isLink e = false →
      (wf false e = true → ∀ n rest, 2 * (render false e).length ≤ n → stops rest = true →
        parseE n 0 (render false e ++ rest) = some (e, rest)) →
      (wf true e = true → ∀ n j rest, 2 * (render true e).length ≤ n → (render true e).length ≤ j →
        stops rest = true →
        chainTail (parseE n (cmpPrec + 1)) j (render true e ++ rest) = some (e, rest)) := by
    intro e hl h1 hw n j rest hn hj hs
    rw [wf_true_nonlink e hl] at hw
    rw [render_true_nonlink e hl] at hn hj ⊢
    simp only [List.length_cons, List.length_append, List.length_nil] at hn hj
    obtain ⟨m, rfl⟩ : ∃ m, n = m + 2 := ⟨n - 2, by omega⟩
    obtain ⟨j', rfl⟩ : ∃ j', j = j' + 1 := ⟨j - 1, by omega⟩
    have hin := h1 hw (m + 1) (.rp :: rest) (by omega) (stops_rp rest)
    apply chainTail_last _ _ _ _ _ _ hs
    simp only [List.cons_append, List.append_assoc, List.nil_append]
    exact parseE_paren_stops m _ e _ rest hin hs
  induction e with
  | num k =>
    refine ⟨?_, ?_⟩
    · intro _ n rest hn hs
      simp only [render, List.length_cons, List.length_nil] at hn
      obtain ⟨m, rfl⟩ : ∃ m, n = m + 2 := ⟨n - 2, by omega⟩
      simp only [render, List.cons_append, List.nil_append]
      rw [parseE_num, opLoop_stops _ _ _ _ _ hs]
    · apply tailOf _ rfl
      intro _ n rest hn hs
      simp only [render, List.length_cons, List.length_nil] at hn
      obtain ⟨m, rfl⟩ : ∃ m, n = m + 2 := ⟨n - 2, by omega⟩
      simp only [render, List.cons_append, List.nil_append]
      rw [parseE_num, opLoop_stops _ _ _ _ _ hs]
  | name =>
    have h1 : wf false Expr.name = true → ∀ n rest, 2 * (render false Expr.name).length ≤ n → stops rest = true →
        parseE n 0 (render false Expr.name ++ rest) = some (Expr.name, rest) := by
      intro _ n rest hn hs
      simp only [render, List.length_cons, List.length_nil] at hn
      obtain ⟨m, rfl⟩ : ∃ m, n = m + 2 := ⟨n - 2, by omega⟩
      simp only [render, List.cons_append, List.nil_append]
      rw [parseE_name, opLoop_stops _ _ _ _ _ hs]
    exact ⟨h1, tailOf _ rfl h1⟩
  | neg e ih =>
    have h1 : wf false (Expr.neg e) = true → ∀ n rest, 2 * (render false (Expr.neg e)).length ≤ n → stops rest = true →
        parseE n 0 (render false (Expr.neg e) ++ rest) = some (Expr.neg e, rest) := by
      intro hw n rest hn hs
      simp only [wf] at hw
      simp only [render, List.length_cons, List.length_append, List.length_nil] at hn
      obtain ⟨m, rfl⟩ : ∃ m, n = m + 4 := ⟨n - 4, by omega⟩
      have hin := ih.1 hw (m + 1) (.rp :: rest) (by omega) (stops_rp rest)
      simp only [render, List.cons_append, List.append_assoc, List.nil_append]
      rw [parseE_neg (m + 3) 0 e _ rest (parseE_paren_stops (m + 1) _ e _ rest (by
            have := ih.1 hw (m + 2) (.rp :: rest) (by omega) (stops_rp rest); exact this) hs),
        opLoop_stops _ _ _ _ _ hs]
    exact ⟨h1, tailOf _ rfl h1⟩
  | pos e ih =>
    have h1 : wf false (Expr.pos e) = true → ∀ n rest, 2 * (render false (Expr.pos e)).length ≤ n → stops rest = true →
        parseE n 0 (render false (Expr.pos e) ++ rest) = some (Expr.pos e, rest) := by
      intro hw n rest hn hs
      simp only [wf] at hw
      simp only [render, List.length_cons, List.length_append, List.length_nil] at hn
      obtain ⟨m, rfl⟩ : ∃ m, n = m + 4 := ⟨n - 4, by omega⟩
      simp only [render, List.cons_append, List.append_assoc, List.nil_append]
      rw [parseE_pos (m + 3) 0 e _ rest (parseE_paren_stops (m + 1) _ e _ rest
            (ih.1 hw (m + 2) (.rp :: rest) (by omega) (stops_rp rest)) hs),
        opLoop_stops _ _ _ _ _ hs]
    exact ⟨h1, tailOf _ rfl h1⟩
  | bin o a b iha ihb =>
    have h1 : wf false (Expr.bin o a b) = true → ∀ n rest, 2 * (render false (Expr.bin o a b)).length ≤ n →
        stops rest = true → parseE n 0 (render false (Expr.bin o a b) ++ rest) = some (Expr.bin o a b, rest) := by
      intro hw n rest hn hs
      simp only [wf, Bool.and_eq_true] at hw
      simp only [render, List.length_cons, List.length_append, List.length_nil] at hn
      obtain ⟨m, rfl⟩ : ∃ m, n = m + 6 := ⟨n - 6, by omega⟩
      simp only [render, List.cons_append, List.append_assoc, List.nil_append]
      -- `( a )`
      have ha := iha.1 hw.1 (m + 5) (.rp :: .op o :: .lp :: (render false b ++ .rp :: rest)) (by omega) (stops_rp _)
      rw [parseE_lp (m + 5) 0 a _ _ ha]
      -- `o ( b )`
      have hb := ihb.1 hw.2 (m + 4) (.rp :: rest) (by omega) (stops_rp rest)
      have hrhs : parseE (m + 5) (rhsPrec o) (.lp :: (render false b ++ .rp :: rest)) = some (b, rest) :=
        parseE_paren_stops (m + 3) _ b _ rest hb hs
      rw [opLoop_op (parseE (m + 5)) (m + 4) 0 a b o _ rest (Nat.zero_le _) hrhs, opLoop_stops _ _ _ _ _ hs]
    exact ⟨h1, tailOf _ rfl h1⟩
  | cmp a c t iha iht =>
    have h1 : wf false (Expr.cmp a c t) = true → ∀ n rest, 2 * (render false (Expr.cmp a c t)).length ≤ n →
        stops rest = true → parseE n 0 (render false (Expr.cmp a c t) ++ rest) = some (Expr.cmp a c t, rest) := by
      intro hw n rest hn hs
      simp only [wf, Bool.and_eq_true] at hw
      simp only [render, List.length_cons, List.length_append, List.length_nil] at hn
      obtain ⟨m, rfl⟩ : ∃ m, n = m + 4 := ⟨n - 4, by omega⟩
      simp only [render, List.cons_append, List.append_assoc, List.nil_append]
      have ha := iha.1 hw.1 (m + 3) (.rp :: .cmp c :: (render true t ++ rest)) (by omega) (stops_rp _)
      rw [parseE_lp (m + 3) 0 a _ _ ha]
      have ht := iht.2 hw.2 (m + 3) (m + 3) rest (by omega) (by omega) hs
      rw [opLoop_cmp (parseE (m + 3)) (m + 2) 0 a t c _ rest (Nat.zero_le _) ht, opLoop_stops _ _ _ _ _ hs]
    exact ⟨h1, tailOf _ rfl h1⟩
  | link b c t ihb iht =>
    refine ⟨by intro hw; simp [wf] at hw, ?_⟩
    intro hw n j rest hn hj hs
    simp only [wf, Bool.and_eq_true] at hw
    simp only [render, List.length_cons, List.length_append, List.length_nil] at hn hj
    obtain ⟨m, rfl⟩ : ∃ m, n = m + 4 := ⟨n - 4, by omega⟩
    obtain ⟨j', rfl⟩ : ∃ j', j = j' + 1 := ⟨j - 1, by omega⟩
    simp only [render, List.cons_append, List.append_assoc, List.nil_append]
    have hb := ihb.1 hw.1 (m + 3) (.rp :: .cmp c :: (render true t ++ rest)) (by omega) (stops_rp _)
    have hop : parseE (m + 4) (cmpPrec + 1) (.lp :: (render false b ++ .rp :: .cmp c :: (render true t ++ rest)))
        = some (b, .cmp c :: (render true t ++ rest)) := by
      rw [parseE_lp (m + 3) _ b _ _ hb, opLoop_cmp_skip _ _ _ _ _ _ (by decide)]
    have ht := iht.2 hw.2 (m + 4) j' rest (by omega) (by omega) hs
    exact chainTail_link _ _ _ _ _ _ _ _ hop ht

/-- Parsing the rendering of a well-formed AST gives the AST back. -/
theorem parseTokens_render (e : Expr) (h : wf false e = true) : parseTokens (render false e) = some e := by
  have := (parse_render e).1 h (2 * (render false e).length + 2) [] (by omega) rfl
  simp only [List.append_nil] at this
  simp [parseTokens, this]

end MacroExprLemmas
