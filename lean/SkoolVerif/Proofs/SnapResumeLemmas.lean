import SkoolVerif.Model.SnapResume
import SkoolVerif.Proofs.TraceLoopLemmas
import SkoolVerif.Proofs.RangeLemmas
/-!
`restore ∘ save` for the two snapshot formats `trace.py` writes (C10): on a state whose components are
in range (`Saveable`: what C08's range invariant gives, plus the tracer fields and an intact ROM), the
state the next run starts in is the saved one with the clock reduced modulo the frame — exactly for
SZX; for Z80 additionally with MEMPTR, the HALT flag and the last OUT to 0xFE cleared.
-/
namespace SnapResume
open Z80 TraceLoop Tshift

/-! ### field codecs -/

theorem szxWord_word (v : Int) (h : Word v) : szxWord v = v := by
  unfold Word at h; unfold szxWord; omega

theorem z80Word_word (v : Int) (h : Word v) : z80Word v = v := by
  unfold Word at h; unfold z80Word; omega

theorem szxT_eq (fd t : Int) (h0 : 0 < fd) (h1 : fd ≤ 16777216) : szxT fd t = t % fd := by
  unfold szxT
  have := Int.emod_nonneg t (Int.ne_of_gt h0)
  have := Int.emod_lt_of_pos t h0
  simp only
  omega

theorem z80T_eq48 (t : Int) : z80T 69888 t = t % 69888 := by
  unfold z80T; simp only; omega

theorem z80T_eq128 (t : Int) : z80T 70908 t = t % 70908 := by
  unfold z80T; simp only; omega

theorem z80R_eq (r b : Int) (hr : Byte r) (hb : 0 ≤ b ∧ b < 8) : z80R r b = r := by
  unfold Byte at hr; unfold z80R; simp only; split <;> omega

theorem z80Border_eq (r b : Int) (hr : Byte r) (hb : 0 ≤ b ∧ b < 8) : z80Border r b = b := by
  unfold Byte at hr; unfold z80Border; simp only; split <;> omega

theorem pair_hi (lo hi : Int) (hl : Byte lo) (hh : Byte hi) : (lo + 256 * hi) / 256 = hi := by
  unfold Byte at *; omega
theorem pair_lo (lo hi : Int) (hl : Byte lo) (hh : Byte hi) : (lo + 256 * hi) % 256 = lo := by
  unfold Byte at *; omega
theorem pair_word (lo hi : Int) (hl : Byte lo) (hh : Byte hi) : Word (lo + 256 * hi) := by
  unfold Byte Word at *; omega

theorem z80Word_hi (lo hi : Int) (hl : 0 ≤ lo ∧ lo < 256) (hh : 0 ≤ hi ∧ hi < 256) : z80Word (lo + 256 * hi) / 256 = hi := by
  simp only [z80Word]; omega
theorem z80Word_lo (lo hi : Int) (hl : 0 ≤ lo ∧ lo < 256) (hh : 0 ≤ hi ∧ hi < 256) : z80Word (lo + 256 * hi) % 256 = lo := by
  simp only [z80Word]; omega
theorem byte_mod (v : Int) (h : 0 ≤ v ∧ v < 256) : v % 256 = v := by omega

/-- a register file of 24 slots is the literal of its entries -/
theorem regs_eta (r : Array Int) (h : r.size = 24) :
    r = #[rget r 0, rget r 1, rget r 2, rget r 3, rget r 4, rget r 5, rget r 6, rget r 7, rget r 8, rget r 9,
          rget r 10, rget r 11, rget r 12, rget r 13, rget r 14, rget r 15, rget r 16, rget r 17, rget r 18,
          rget r 19, rget r 20, rget r 21, rget r 22, rget r 23] := by
  obtain ⟨l⟩ := r
  simp only [List.size_toArray] at h
  match l, h with
  | [a0, a1, a2, a3, a4, a5, a6, a7, a8, a9, a10, a11, a12, a13, a14, a15, a16, a17, a18, a19, a20, a21, a22, a23], _ =>
    simp [rget, Array.getD]

theorem map_mod_bytes (a : Array Int) (h : ∀ x ∈ a, Byte x) : a.map (· % 256) = a := by
  apply Array.ext
  · simp
  · intro i h1 h2
    simp only [Array.getElem_map]
    have := h a[i] (Array.getElem_mem _)
    unfold Byte at this
    omega

theorem all_zero_replicate (a : Array Int) (hs : a.size = 16) (h : a.any (· ≠ 0) = false) :
    a = Array.replicate 16 0 := by
  apply Array.ext
  · simp [hs]
  · intro i h1 h2
    simp only [Array.getElem_replicate]
    rw [Array.any_eq_false] at h
    have := h i h1
    simpa using this

/-! ### saveable states -/

/-- The state at the end of a run whose components are in the ranges the simulators keep them in
(C08), with the tracer fields in range, the per-step port logs empty, and a memory that
`from_snapshot` rebuilds unchanged (ROM = the ROM files; see `rebuild_mem48`, `rebuild_mem128`). -/
structure Saveable {μ : Type} [MemLike μ] [SnapMem μ] (cfg : Cfg) (roms : Array (Array Int)) (ts : TS μ) : Prop where
  regs : RegsOk ts.s.reg
  pc : Word ts.s.pc
  memptr : Word ts.s.memptr
  iff : Byte ts.s.iff
  im : 0 ≤ ts.s.im ∧ ts.s.im < 4
  halt : ts.s.halt = 0 ∨ ts.s.halt = 1
  logs : ts.s.ins = [] ∧ ts.s.outs = [] ∧ ts.s.inLog = []
  border : 0 ≤ ts.tr.border ∧ ts.tr.border < 8
  outfe : Byte ts.tr.outfe
  outfffd : Byte ts.tr.outfffd
  ay : ts.tr.ay.size = 16 ∧ ∀ x ∈ ts.tr.ay, Byte x
  frame : cfg.frame_duration = frameOf (MemLike.is128 ts.s.mem)
  mem : SnapMem.rebuild roms ts.s.mem (if MemLike.is128 ts.s.mem then MemLike.o7ffd ts.s.mem % 256 else 0) = ts.s.mem

/-- the tracer fields are in the ranges the port handlers keep them in -/
structure TrOk (tr : Tr) : Prop where
  border : 0 ≤ tr.border ∧ tr.border < 8
  outfe : Byte tr.outfe
  outfffd : Byte tr.outfffd
  ay : tr.ay.size = 16 ∧ ∀ x ∈ tr.ay, Byte x

theorem rset_bytes (a : Array Int) (i v : Int) (h : ∀ x ∈ a, Byte x) (hv : Byte v) : ∀ x ∈ rset a i v, Byte x := by
  unfold rset; split
  · exact setIfInBounds_byte a h _ v hv
  · exact h

/-- `write_port` with a byte value keeps them there -/
theorem trWrite_ok (tr : Tr) (p v : Int) (h : TrOk tr) (hv : Byte v) : TrOk (trWrite tr p v) := by
  obtain ⟨hb, hfe, hff, hay⟩ := h
  have hv' := hv
  unfold Byte at hv'
  unfold trWrite
  simp only
  split <;> split <;> (try split) <;>
    exact ⟨by first | exact hb | (show 0 ≤ v % 8 ∧ v % 8 < 8; omega), by first | exact hfe | exact hv,
           by first | exact hff | exact hv,
           by first | exact hay | exact ⟨by rw [rset_size]; exact hay.1, rset_bytes _ _ _ hay.2 hv⟩⟩

variable {μ : Type} [MemLike μ] [SnapMem μ]

theorem ayOf_eq (is128 : Bool) (tr : Tr) (hf : Byte tr.outfffd) (ha : tr.ay.size = 16 ∧ ∀ x ∈ tr.ay, Byte x) :
    ayOf is128 tr = (tr.outfffd, tr.ay) := by
  unfold ayOf
  split
  · rw [map_mod_bytes _ ha.2]
    unfold Byte at hf
    have : tr.outfffd % 256 = tr.outfffd := by omega
    rw [this]
  · rename_i h
    have h1 : tr.outfffd = 0 := by
      apply Classical.byContradiction; intro hc; exact h (Or.inr (Or.inl hc))
    have h2 : tr.ay.any (· ≠ 0) = false := by
      cases hb : tr.ay.any (· ≠ 0)
      · rfl
      · exact absurd (Or.inr (Or.inr hb)) h
    rw [h1, all_zero_replicate _ ha.1 h2]

theorem frame_pos (is128 : Bool) : 0 < frameOf is128 ∧ frameOf is128 ≤ 16777216 := by
  unfold frameOf; cases is128 <;> simp

theorem emod_as_shift (t fd : Int) : t % fd = t + -(t / fd) * fd := by
  have := Int.emod_add_mul_ediv t fd
  have h2 : -(t / fd) * fd = -(fd * (t / fd)) := by rw [Int.neg_mul, Int.mul_comm]
  omega

theorem regsOf_szx (reg : Array Int) (h : RegsOk reg) :
    #[rget reg 0 % 256, rget reg 1 % 256, szxWord (pair reg 2 3) / 256, szxWord (pair reg 2 3) % 256,
      szxWord (pair reg 4 5) / 256, szxWord (pair reg 4 5) % 256, szxWord (pair reg 6 7) / 256, szxWord (pair reg 6 7) % 256,
      szxWord (pair reg 8 9) / 256, szxWord (pair reg 8 9) % 256, szxWord (pair reg 10 11) / 256, szxWord (pair reg 10 11) % 256,
      szxWord (rget reg 12), 0, rget reg 14 % 256, rget reg 15 % 256, rget reg 16 % 256, rget reg 17 % 256,
      szxWord (pair reg 18 19) / 256, szxWord (pair reg 18 19) % 256, szxWord (pair reg 20 21) / 256, szxWord (pair reg 20 21) % 256,
      szxWord (pair reg 22 23) / 256, szxWord (pair reg 22 23) % 256] = reg := by
  conv => rhs; rw [regs_eta reg h.1]
  have b : ∀ i, 0 ≤ i → i < 24 → i ≠ 12 → 0 ≤ rget reg i ∧ rget reg i < 256 := fun i h0 h1 h2 => h.byte i h0 h1 h2
  have w := h.word; unfold Word at w
  have z := h.sp2
  have b0 := b 0 (by omega) (by omega) (by omega); have b1 := b 1 (by omega) (by omega) (by omega)
  have b2 := b 2 (by omega) (by omega) (by omega); have b3 := b 3 (by omega) (by omega) (by omega)
  have b4 := b 4 (by omega) (by omega) (by omega); have b5 := b 5 (by omega) (by omega) (by omega)
  have b6 := b 6 (by omega) (by omega) (by omega); have b7 := b 7 (by omega) (by omega) (by omega)
  have b8 := b 8 (by omega) (by omega) (by omega); have b9 := b 9 (by omega) (by omega) (by omega)
  have b10 := b 10 (by omega) (by omega) (by omega); have b11 := b 11 (by omega) (by omega) (by omega)
  have b14 := b 14 (by omega) (by omega) (by omega); have b15 := b 15 (by omega) (by omega) (by omega)
  have b16 := b 16 (by omega) (by omega) (by omega); have b17 := b 17 (by omega) (by omega) (by omega)
  have b18 := b 18 (by omega) (by omega) (by omega); have b19 := b 19 (by omega) (by omega) (by omega)
  have b20 := b 20 (by omega) (by omega) (by omega); have b21 := b 21 (by omega) (by omega) (by omega)
  have b22 := b 22 (by omega) (by omega) (by omega); have b23 := b 23 (by omega) (by omega) (by omega)
  simp only [szxWord, pair]
  congr 1
  simp only [List.cons.injEq, and_true]
  omega

theorem regsOf_z80 (reg : Array Int) (border : Int) (h : RegsOk reg) (hb : 0 ≤ border ∧ border < 8) :
    #[rget reg 0 % 256, rget reg 1 % 256, z80Word (pair reg 2 3) / 256, z80Word (pair reg 2 3) % 256,
      z80Word (pair reg 4 5) / 256, z80Word (pair reg 4 5) % 256, z80Word (pair reg 6 7) / 256, z80Word (pair reg 6 7) % 256,
      z80Word (pair reg 8 9) / 256, z80Word (pair reg 8 9) % 256, z80Word (pair reg 10 11) / 256, z80Word (pair reg 10 11) % 256,
      z80Word (rget reg 12), 0, rget reg 14 % 256, z80R (rget reg 15) border, rget reg 16 % 256, rget reg 17 % 256,
      z80Word (pair reg 18 19) / 256, z80Word (pair reg 18 19) % 256, z80Word (pair reg 20 21) / 256, z80Word (pair reg 20 21) % 256,
      z80Word (pair reg 22 23) / 256, z80Word (pair reg 22 23) % 256] = reg := by
  conv => rhs; rw [regs_eta reg h.1]
  have b : ∀ i, 0 ≤ i → i < 24 → i ≠ 12 → 0 ≤ rget reg i ∧ rget reg i < 256 := fun i h0 h1 h2 => h.byte i h0 h1 h2
  have w := h.word; unfold Word at w
  have z := h.sp2
  have b0 := b 0 (by omega) (by omega) (by omega); have b1 := b 1 (by omega) (by omega) (by omega)
  have b2 := b 2 (by omega) (by omega) (by omega); have b3 := b 3 (by omega) (by omega) (by omega)
  have b4 := b 4 (by omega) (by omega) (by omega); have b5 := b 5 (by omega) (by omega) (by omega)
  have b6 := b 6 (by omega) (by omega) (by omega); have b7 := b 7 (by omega) (by omega) (by omega)
  have b8 := b 8 (by omega) (by omega) (by omega); have b9 := b 9 (by omega) (by omega) (by omega)
  have b10 := b 10 (by omega) (by omega) (by omega); have b11 := b 11 (by omega) (by omega) (by omega)
  have b14 := b 14 (by omega) (by omega) (by omega); have b15 := b 15 (by omega) (by omega) (by omega)
  have b16 := b 16 (by omega) (by omega) (by omega); have b17 := b 17 (by omega) (by omega) (by omega)
  have b18 := b 18 (by omega) (by omega) (by omega); have b19 := b 19 (by omega) (by omega) (by omega)
  have b20 := b 20 (by omega) (by omega) (by omega); have b21 := b 21 (by omega) (by omega) (by omega)
  have b22 := b 22 (by omega) (by omega) (by omega); have b23 := b 23 (by omega) (by omega) (by omega)
  rw [z80R_eq _ _ b15 hb, z80Word_word _ w]
  simp only [pair, z80Word_hi _ _ b3 b2, z80Word_lo _ _ b3 b2, z80Word_hi _ _ b5 b4, z80Word_lo _ _ b5 b4,
    z80Word_hi _ _ b7 b6, z80Word_lo _ _ b7 b6, z80Word_hi _ _ b9 b8, z80Word_lo _ _ b9 b8,
    z80Word_hi _ _ b11 b10, z80Word_lo _ _ b11 b10, z80Word_hi _ _ b19 b18, z80Word_lo _ _ b19 b18,
    z80Word_hi _ _ b21 b20, z80Word_lo _ _ b21 b20, z80Word_hi _ _ b23 b22, z80Word_lo _ _ b23 b22,
    byte_mod _ b0, byte_mod _ b1, byte_mod _ b14, byte_mod _ b16, byte_mod _ b17, z]

/-- **SZX**: the next run starts in the saved state with the clock reduced modulo the frame. -/
theorem resume_szx (cfg : Cfg) (roms : Array (Array Int)) (ts : TS μ) (h : Saveable cfg roms ts) :
    resume roms .szx ts = tsShift cfg ts (-(ts.s.t / cfg.frame_duration)) := by
  obtain ⟨hr, hpc, hmp, hiff, him, hhalt, ⟨hl1, hl2, hl3⟩, hbd, hfe, hff, hay, hfr, hmem⟩ := h
  obtain ⟨s, tr⟩ := ts
  obtain ⟨reg, mem, pc, t, iff, im, halt, memptr, ins, outs, inLog⟩ := s
  simp only at hr hpc hmp hiff him hhalt hl1 hl2 hl3 hbd hfe hff hay hfr hmem
  subst hl1 hl2 hl3
  unfold resume startOf snapOf regsOf
  simp only [ayOf_eq _ tr hff hay, tsShift, addFrames]
  have hfp := frame_pos (MemLike.is128 mem)
  rw [regsOf_szx reg hr, szxWord_word _ hpc, szxWord_word _ hmp, szxT_eq _ _ hfp.1 hfp.2, hmem, ← hfr,
    emod_as_shift]
  unfold Byte at hiff hfe
  have e1 : iff % 256 = iff := by omega
  have e2 : im % 4 = im := by omega
  have e3 : tr.border % 8 % 8 = tr.border := by omega
  have e4 : tr.outfe % 256 = tr.outfe := by omega
  have e5 : (if halt ≠ 0 then 1 else 0) = halt := by rcases hhalt with h | h <;> simp [h]
  rw [e1, e2, e3, e4, e5]

/-- **Z80**: the same, except that MEMPTR, the HALT flag and the last OUT to port 0xFE are lost. -/
theorem resume_z80 (cfg : Cfg) (roms : Array (Array Int)) (ts : TS μ) (h : Saveable cfg roms ts) :
    resume roms .z80 ts = tsShift cfg (nzT true ts) (-(ts.s.t / cfg.frame_duration)) := by
  obtain ⟨hr, hpc, hmp, hiff, him, hhalt, ⟨hl1, hl2, hl3⟩, hbd, hfe, hff, hay, hfr, hmem⟩ := h
  obtain ⟨s, tr⟩ := ts
  obtain ⟨reg, mem, pc, t, iff, im, halt, memptr, ins, outs, inLog⟩ := s
  simp only at hr hpc hmp hiff him hhalt hl1 hl2 hl3 hbd hfe hff hay hfr hmem
  subst hl1 hl2 hl3
  unfold resume startOf snapOf regsOf
  simp only [ayOf_eq _ tr hff hay, tsShift, addFrames, nzT, nzB, nzTr]
  have b15 := hr.byte 15 (by omega) (by omega) (by omega)
  rw [regsOf_z80 reg _ hr hbd, z80Word_word _ hpc, z80Border_eq _ _ b15 hbd, hmem]
  have ht : z80T (frameOf (MemLike.is128 mem)) t = t + -(t / cfg.frame_duration) * cfg.frame_duration := by
    rw [← emod_as_shift, hfr]
    unfold frameOf
    cases MemLike.is128 mem
    · exact z80T_eq48 t
    · exact z80T_eq128 t
  rw [ht]
  unfold Byte at hiff
  have e1 : iff % 256 = iff := by omega
  have e2 : im % 4 % 4 = im := by omega
  rw [e1, e2]
  rfl

/-- Z80 when the CPU is not halted at the save point: only MEMPTR and the last OUT to 0xFE are lost. -/
theorem resume_z80_not_halted (cfg : Cfg) (roms : Array (Array Int)) (ts : TS μ) (h : Saveable cfg roms ts)
    (hh : ts.s.halt = 0) :
    resume roms .z80 ts = tsShift cfg (nzT false ts) (-(ts.s.t / cfg.frame_duration)) := by
  rw [resume_z80 cfg roms ts h]
  simp only [nzT, nzB, hh]
  rfl

/-! ### the two concrete memories are rebuilt unchanged -/

/-- 48K: the 16K below 0x4000 are the ROM file, the list has 65536 entries -/
theorem rebuild_mem48 (roms : Array (Array Int)) (m : Mem48) (o : Int) (rom : Array Int)
    (hrom : roms.getD 0 #[] = rom) (hsz : rom.size = 16384) (hm : m.cells.size = 65536)
    (hlow : m.cells.toList.take 16384 = rom.toList) :
    SnapMem.rebuild roms m o = m := by
  simp only [SnapMem.rebuild, hrom]
  have hl : rom.toList.length = 16384 := by simpa using hsz
  have h1 : (List.replicate 16384 (0 : Int) ++ m.cells.toList.drop 16384).drop rom.toList.length =
      m.cells.toList.drop 16384 := by
    rw [hl, List.drop_append_of_le_length (by rw [List.length_replicate]; omega)]
    rw [List.drop_of_length_le (by rw [List.length_replicate]; omega), List.nil_append]
  rw [h1, ← hlow, List.take_append_drop]

/-- 128K: the ROMs are the ROM files, the tracer's copy of the last OUT to 0x7FFD is the memory's, a byte -/
theorem rebuild_mem128 (roms : Array (Array Int)) (m : Mem128) (hr : m.roms = roms)
    (hc : m.trOut7ffd = m.o7ffd) (hb : Byte m.o7ffd) :
    SnapMem.rebuild roms m (m.o7ffd % 256) = m := by
  unfold Byte at hb
  have : m.o7ffd % 256 = m.o7ffd := by omega
  simp only [SnapMem.rebuild, this, ← hr, ← hc]
  cases m; simp_all

end SnapResume
