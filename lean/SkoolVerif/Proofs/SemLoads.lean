import SkoolVerif.Proofs.SemBasics
/-!
Per-closure refinement, family 1: loads, stack, exchanges (no flags involved).
`Sim.<closure> cfg args s = Spec.exec cfg d s` whenever `zinstrOf (.<closure> args) = some d`
and `s` satisfies the range invariant.
-/
namespace C05
open Z80 Sim Spec Z80Isa TableRanges AluCheck
variable {μ : Type} [MemLike μ] [CellMem μ]

theorem sem_nop (cfg : Cfg) (r_inc : TblI1) (timing size : Int) (d : Decoded)
    (hz : zinstrOf (.nop r_inc timing size) = some d) (s : St μ) (hi : RInv s) :
    Sim.nop cfg r_inc timing size s = Spec.exec cfg d s := by
  zinv hz
  obtain ⟨m, hm, rfl⟩ := hz
  rinv_setup hi
  have hR := rinc_spec r_inc m _ hm hb15
  simp only [sim_handler, Id.run, pure]
  spec_simp []
  idx_simp
  rw [hR]

theorem sem_ld_r_r (cfg : Cfg) (r_inc : TblI1) (timing size r1 r2 : Int) (d : Decoded)
    (hz : zinstrOf (.ld_r_r r_inc timing size r1 r2) = some d) (s : St μ) (hi : RInv s) :
    Sim.ld_r_r cfg r_inc timing size r1 r2 s = Spec.exec cfg d s := by
  zinv hz
  obtain ⟨m, hm, a, ha, b, hb, rfl⟩ := hz
  rinv_setup hi
  have hR := rinc_spec r_inc m _ hm hb15
  obtain ⟨rfl, -⟩ := reg8Of_inv r1 a ha
  obtain ⟨rfl, -⟩ := reg8Of_inv r2 b hb
  simp only [sim_handler, Id.run, pure]
  spec_simp []
  idx_simp
  rw [hR]

theorem sem_ld_r_n (cfg : Cfg) (r_inc : TblI1) (timing size r : Int) (d : Decoded)
    (hz : zinstrOf (.ld_r_n r_inc timing size r) = some d) (s : St μ) (hi : RInv s) :
    Sim.ld_r_n cfg r_inc timing size r s = Spec.exec cfg d s := by
  zinv hz
  obtain ⟨m, hm, g, hg, rfl⟩ := hz
  rinv_setup hi
  have hR := rinc_spec r_inc m _ hm hb15
  obtain ⟨rfl, g2, g3, g4⟩ := gpr_inv r g hg
  simp only [sim_handler, Id.run, pure]
  spec_simp []
  idx_simp
  rsimp hs
  rw [hR]
  st_regs hs

theorem sem_ld_r_rr (cfg : Cfg) (r rh rl : Int) (d : Decoded)
    (hz : zinstrOf (.ld_r_rr r rh rl) = some d) (s : St μ) (hi : RInv s) :
    Sim.ld_r_rr cfg r rh rl s = Spec.exec cfg d s := by
  zinv hz
  obtain ⟨g, hg, rp, hrp, hz⟩ := hz
  zif hz
  rename_i hok
  subst hz
  rinv_setup hi
  obtain ⟨rfl, g2, g3, g4⟩ := gpr_inv r g hg
  simp only [sim_handler, Id.run, pure]
  pair_cases hrp <;> first
    | (exfalso; simp only [reduceCtorEq, or_self] at hok; done)
    | (spec_simp []; idx_simp; rsimp hs; rw [hR1]; st_regs hs)

theorem sem_ld_rr_r (cfg : Cfg) (rh rl r : Int) (d : Decoded)
    (hz : zinstrOf (.ld_rr_r rh rl r) = some d) (s : St μ) (hi : RInv s) :
    Sim.ld_rr_r cfg rh rl r s = Spec.exec cfg d s := by
  zinv hz
  obtain ⟨g, hg, rp, hrp, hz⟩ := hz
  zif hz
  rename_i hok
  subst hz
  rinv_setup hi
  obtain ⟨rfl, g2, g3, g4⟩ := gpr_inv r g hg
  simp only [sim_handler, Id.run, pure]
  pair_cases hrp <;> first
    | (exfalso; simp only [reduceCtorEq, or_self] at hok; done)
    | (spec_simp []; idx_simp; rsimp hs; rw [hR1]; split_guard <;> rfl)

theorem sem_ld_r_xy (cfg : Cfg) (r xyh xyl : Int) (d : Decoded)
    (hz : zinstrOf (.ld_r_xy r xyh xyl) = some d) (s : St μ) (hi : RInv s) :
    Sim.ld_r_xy cfg r xyh xyl s = Spec.exec cfg d s := by
  zinv hz
  obtain ⟨g, hg, i, hx, rfl⟩ := hz
  rinv_setup hi
  obtain ⟨rfl, g2, g3, g4⟩ := gpr_inv r g hg
  simp only [sim_handler, Id.run, pure]
  idx_cases hx <;>
    (spec_simp [sgn8_OFFSETS]; idx_simp; rsimp hs; rw [hR2]
     have e : s.pc + 3 - 1 = s.pc + 2 := by omega
     simp only [e]
     st_regs hs)

theorem sem_ld_xy_n (cfg : Cfg) (xyh xyl : Int) (d : Decoded)
    (hz : zinstrOf (.ld_xy_n xyh xyl) = some d) (s : St μ) (hi : RInv s) :
    Sim.ld_xy_n cfg xyh xyl s = Spec.exec cfg d s := by
  zinv hz
  obtain ⟨i, hx, rfl⟩ := hz
  rinv_setup hi
  simp only [sim_handler, Id.run, pure]
  idx_cases hx <;>
    (spec_simp [sgn8_OFFSETS]; idx_simp; rsimp hs; rw [hR2]
     have e1 : s.pc + 4 - 2 = s.pc + 2 := by omega
     have e2 : s.pc + 4 - 1 = s.pc + 3 := by omega
     simp only [e1, e2]
     split_guard <;> rfl)

theorem sem_ld_xy_r (cfg : Cfg) (xyh xyl r : Int) (d : Decoded)
    (hz : zinstrOf (.ld_xy_r xyh xyl r) = some d) (s : St μ) (hi : RInv s) :
    Sim.ld_xy_r cfg xyh xyl r s = Spec.exec cfg d s := by
  zinv hz
  obtain ⟨g, hg, i, hx, rfl⟩ := hz
  rinv_setup hi
  obtain ⟨rfl, g2, g3, g4⟩ := gpr_inv r g hg
  simp only [sim_handler, Id.run, pure]
  idx_cases hx <;>
    (spec_simp [sgn8_OFFSETS]; idx_simp; rsimp hs; rw [hR2]
     have e : s.pc + 3 - 1 = s.pc + 2 := by omega
     simp only [e]
     split_guard <;> rfl)

theorem sem_ld_hl_n (cfg : Cfg) (d : Decoded)
    (hz : zinstrOf .ld_hl_n = some d) (s : St μ) (hi : RInv s) :
    Sim.ld_hl_n cfg s = Spec.exec cfg d s := by
  zinv hz
  subst hz
  rinv_setup hi
  simp only [sim_handler, Id.run, pure]
  spec_simp []; idx_simp; rsimp hs; rw [hR1]
  have e1 : s.pc + 2 - 1 = s.pc + 1 := by omega
  have e2 : s.pc + 1 + 1 = s.pc + 2 := by omega
  simp only [e1, e2]
  split_guard <;> rfl

theorem sem_ld_a_m (cfg : Cfg) (d : Decoded)
    (hz : zinstrOf .ld_a_m = some d) (s : St μ) (hi : RInv s) :
    Sim.ld_a_m cfg s = Spec.exec cfg d s := by
  zinv hz
  subst hz
  rinv_setup hi
  simp only [sim_handler, Id.run, pure]
  spec_simp []; idx_simp; rsimp hs; rw [hR1]
  have e1 : s.pc + 3 - 2 = s.pc + 1 := by omega
  have e2 : s.pc + 3 - 1 = s.pc + 1 + 1 := by omega
  have e3 : s.pc + 1 + 2 = s.pc + 3 := by omega
  simp only [e1, e2, e3]
  st_regs hs

theorem sem_ld_m_a (cfg : Cfg) (d : Decoded)
    (hz : zinstrOf .ld_m_a = some d) (s : St μ) (hi : RInv s) :
    Sim.ld_m_a cfg s = Spec.exec cfg d s := by
  zinv hz
  subst hz
  rinv_setup hi
  simp only [sim_handler, Id.run, pure]
  spec_simp []; idx_simp; rsimp hs; rw [hR1]
  have e1 : s.pc + 3 - 2 = s.pc + 1 := by omega
  have e2 : s.pc + 3 - 1 = s.pc + 1 + 1 := by omega
  have e3 : s.pc + 1 + 2 = s.pc + 3 := by omega
  simp only [e1, e2, e3]
  split_guard <;> rfl

theorem sem_ld_rr_nn (cfg : Cfg) (r_inc : TblI1) (timing size rh rl : Int) (d : Decoded)
    (hz : zinstrOf (.ld_rr_nn r_inc timing size rh rl) = some d) (s : St μ) (hi : RInv s) :
    Sim.ld_rr_nn cfg r_inc timing size rh rl s = Spec.exec cfg d s := by
  zinv hz
  obtain ⟨m, hm, rp, hrp, hz⟩ := hz
  zif hz
  rename_i hne
  subst hz
  rinv_setup hi
  have hR := rinc_spec r_inc m _ hm hb15
  simp only [sim_handler, Id.run, pure]
  pair_cases hrp <;> first
    | (exfalso; exact hne rfl)
    | (simp only [Int.reduceEq, if_false, if_true]; spec_simp []; idx_simp; rsimp hs; rw [hR]
       st_regs hs)

theorem sem_ld_rr_mm (cfg : Cfg) (r_inc : TblI1) (timing size rh rl : Int) (d : Decoded)
    (hz : zinstrOf (.ld_rr_mm r_inc timing size rh rl) = some d) (s : St μ) (hi : RInv s) :
    Sim.ld_rr_mm cfg r_inc timing size rh rl s = Spec.exec cfg d s := by
  zinv hz
  obtain ⟨m, hm, rp, hrp, hz⟩ := hz
  zif hz
  rename_i hne
  subst hz
  rinv_setup hi
  have hR := rinc_spec r_inc m _ hm hb15
  simp only [sim_handler, Id.run, pure]
  pair_cases hrp <;> first
    | (exfalso; exact hne rfl)
    | (simp only [Int.reduceEq, if_false, if_true]; spec_simp []; idx_simp; rsimp hs; rw [hR]
       st_regs hs)

theorem sem_ld_mm_rr (cfg : Cfg) (r_inc : TblI1) (timing size rh rl : Int) (d : Decoded)
    (hz : zinstrOf (.ld_mm_rr r_inc timing size rh rl) = some d) (s : St μ) (hi : RInv s) :
    Sim.ld_mm_rr cfg r_inc timing size rh rl s = Spec.exec cfg d s := by
  zinv hz
  obtain ⟨m, hm, rp, hrp, hz⟩ := hz
  zif hz
  rename_i hne
  subst hz
  rinv_setup hi
  have hR := rinc_spec r_inc m _ hm hb15
  simp only [sim_handler, Id.run, pure]
  pair_cases hrp <;> first
    | (exfalso; exact hne rfl)
    | (simp only [Int.reduceEq, if_false, if_true]; spec_simp []; idx_simp; rsimp hs; rw [hR]
       split_guard <;> split_guard <;> rfl)

theorem sem_ld_sp_rr (cfg : Cfg) (r_inc : TblI1) (timing size rh rl : Int) (d : Decoded)
    (hz : zinstrOf (.ld_sp_rr r_inc timing size rh rl) = some d) (s : St μ) (hi : RInv s) :
    Sim.ld_sp_rr cfg r_inc timing size rh rl s = Spec.exec cfg d s := by
  zinv hz
  obtain ⟨m, hm, rp, hrp, hz⟩ := hz
  zif hz
  rename_i hok
  subst hz
  rinv_setup hi
  have hR := rinc_spec r_inc m _ hm hb15
  simp only [sim_handler, Id.run, pure]
  pair_cases hrp <;> first
    | (exfalso; simp only [reduceCtorEq, or_self] at hok; done)
    | (spec_simp []; idx_simp; rsimp hs; rw [hR]; st_regs hs)

theorem sem_push (cfg : Cfg) (r_inc : TblI1) (timing size rh rl : Int) (d : Decoded)
    (hz : zinstrOf (.push r_inc timing size rh rl) = some d) (s : St μ) (hi : RInv s) :
    Sim.push cfg r_inc timing size rh rl s = Spec.exec cfg d s := by
  zinv hz
  obtain ⟨m, hm, rp, hrp, hz⟩ := hz
  zif hz
  rename_i hne
  subst hz
  rinv_setup hi
  have hR := rinc_spec r_inc m _ hm hb15
  simp only [sim_handler, Id.run, pure]
  pair_cases hrp <;> first
    | (exfalso; exact hne rfl)
    | (spec_simp []; idx_simp; rsimp hs; rw [hR]
       split_guard <;> split_guard <;> (st_regs hs))

theorem sem_pop (cfg : Cfg) (r_inc : TblI1) (timing size rh rl : Int) (d : Decoded)
    (hz : zinstrOf (.pop r_inc timing size rh rl) = some d) (s : St μ) (hi : RInv s) :
    Sim.pop cfg r_inc timing size rh rl s = Spec.exec cfg d s := by
  zinv hz
  obtain ⟨m, hm, rp, hrp, hz⟩ := hz
  zif hz
  rename_i hne
  subst hz
  rinv_setup hi
  have hR := rinc_spec r_inc m _ hm hb15
  simp only [sim_handler, Id.run, pure]
  pair_cases hrp <;> first
    | (exfalso; exact hne rfl)
    | (spec_simp []; idx_simp; rsimp hs; rw [hR]; st_regs hs)

theorem sem_ex_af (cfg : Cfg) (d : Decoded)
    (hz : zinstrOf .ex_af = some d) (s : St μ) (hi : RInv s) :
    Sim.ex_af cfg s = Spec.exec cfg d s := by
  zinv hz
  subst hz
  rinv_setup hi
  simp only [sim_handler, Id.run, pure]
  spec_simp []; idx_simp; rsimp hs; rw [hR1]
  st_regs hs

theorem sem_ex_de_hl (cfg : Cfg) (d : Decoded)
    (hz : zinstrOf .ex_de_hl = some d) (s : St μ) (hi : RInv s) :
    Sim.ex_de_hl cfg s = Spec.exec cfg d s := by
  zinv hz
  subst hz
  rinv_setup hi
  simp only [sim_handler, Id.run, pure]
  spec_simp []; idx_simp; rsimp hs; rw [hR1]
  st_regs hs

theorem sem_exx (cfg : Cfg) (d : Decoded)
    (hz : zinstrOf .exx = some d) (s : St μ) (hi : RInv s) :
    Sim.exx cfg s = Spec.exec cfg d s := by
  zinv hz
  subst hz
  rinv_setup hi
  simp only [sim_handler, Id.run, pure]
  spec_simp []; idx_simp; rsimp hs; rw [hR1]
  simp only [St.mk.injEq, and_true, true_and]
  apply regs_ext
  · simp only [rset_size]
  · intro i; simp only [rget_rset, rset_size, hs]; grind (splits := 40)

end C05
