import SkoolVerif.Proofs.EdgesSeg
/-!
Whole-tape exactness: for tapes without declared block levels and without zero-length bit
pulses, the edge list is the play-out of the tape's events (pulses and gaps).
-/
namespace Edges
open EdgeSpec

/-- The events one block specifies (`isLast`: the pause of the last block is not played). -/
def blockEvents (isLast : Bool) (b : Block) : List Ev :=
  (tonePulses b.timings.pulses).map Ev.pulse ++
  (if b.data ≠ [] then
    (bitPulses b.timings.zero b.timings.one (dataBits b.timings.usedBits b.data) ++ tailL b.timings.tail).map Ev.pulse
   else []) ++
  (if !isLast && b.timings.pause ≠ 0 then [Ev.gap b.timings.pause] else [])

def tapeEvents : List Block → List Ev
  | [] => []
  | [b] => blockEvents true b
  | b :: rest => blockEvents false b ++ tapeEvents rest

theorem playEvents_append (t : Int) (a b : List Ev) :
    playEvents t (a ++ b) = playEvents t a ++ playEvents (t + evTotal a) b := by
  induction a generalizing t with
  | nil => simp [playEvents, evTotal]
  | cons e r ih =>
    cases e with
    | pulse d => simp [playEvents, evTotal, ih, Int.add_assoc]
    | gap d => simp [playEvents, evTotal, ih, Int.add_assoc]

theorem evTotal_append (a b : List Ev) : evTotal (a ++ b) = evTotal a + evTotal b := by
  induction a with
  | nil => simp [evTotal]
  | cons e r ih => cases e <;> simp [evTotal, ih, Int.add_assoc]

theorem playEvents_pulses (t : Int) (ds : List Nat) : playEvents t (ds.map Ev.pulse) = cumsum t ds := by
  induction ds generalizing t with
  | nil => rfl
  | cons d r ih => simp [playEvents, cumsum, ih]

theorem evTotal_pulses (ds : List Nat) : evTotal (ds.map Ev.pulse) = sumN ds := by
  induction ds with
  | nil => rfl
  | cons d r ih => simp [evTotal, sumN_cons, ih]

/-- A block of a "plain" tape: no declared level, never enters the merge loop. -/
def PlainBlock (b : Block) : Prop :=
  b.timings.polarity = none ∧ ByteBlock b

theorem stepBlock_plain (pol : Int) (l : Bool) (b : Block) (s : St) (hb : PlainBlock b) :
    (stepBlock pol l b s).edges = s.edges ++ playEvents s.t (blockEvents l b) ∧
    (stepBlock pol l b s).t = s.t + evTotal (blockEvents l b) := by
  obtain ⟨hpol, hbyte⟩ := hb
  unfold stepBlock
  have h0 : (setKeys b s).edges = s.edges ∧ (setKeys b s).t = s.t := ⟨rfl, rfl⟩
  generalize setKeys b s = s0 at h0
  -- pulses
  have h1 : (pulsePhase pol b s0).edges = s.edges ++ playEvents s.t ((tonePulses b.timings.pulses).map Ev.pulse) ∧
      (pulsePhase pol b s0).t = s.t + evTotal ((tonePulses b.timings.pulses).map Ev.pulse) := by
    unfold pulsePhase
    by_cases hp : b.timings.pulses = []
    · simp [hp, tonePulses, playEvents, evTotal, h0.1, h0.2]
    · refine ⟨?_, ?_⟩ <;>
        simp only [ne_eq, hp, not_false_eq_true, ↓reduceIte, emit_eq, hpol, checkPolarity, h0.1, h0.2,
          playEvents_pulses, evTotal_pulses] <;> rfl
  generalize pulsePhase pol b s0 = s1 at h1
  -- data
  have h2 : (dataPhase pol l b s1).edges = s1.edges ++ playEvents s1.t
        (if b.data ≠ [] then
          (bitPulses b.timings.zero b.timings.one (dataBits b.timings.usedBits b.data) ++ tailL b.timings.tail).map Ev.pulse
         else []) ∧
      (dataPhase pol l b s1).t = s1.t + evTotal
        (if b.data ≠ [] then
          (bitPulses b.timings.zero b.timings.one (dataBits b.timings.usedBits b.data) ++ tailL b.timings.tail).map Ev.pulse
         else []) := by
    by_cases hd : b.data = []
    · have := dataPhase_edges_nil pol l b s1 hd
      simp [hd, this.1, this.2.1, playEvents, evTotal]
    · have hz : hasZero b.timings = false := by
        rcases hbyte with hz | hb
        · exact hz
        · exact absurd hb hd
      have he := dataPhase_edges pol l b s1 hd
      rw [he.1, he.2, dataCore_fast _ _ _ _ _ hz, fastSeq_eq_spec _ _ _ _ hd]
      refine ⟨?_, ?_⟩ <;>
        simp only [ne_eq, hd, not_false_eq_true, ↓reduceIte, hpol, checkPolarity, playEvents_pulses, evTotal_pulses]
  generalize dataPhase pol l b s1 = s2 at h2
  -- pause
  have h3 : (pausePhase pol l b s2).edges = s2.edges ++ playEvents s2.t
        (if !l && b.timings.pause ≠ 0 then [Ev.gap b.timings.pause] else []) ∧
      (pausePhase pol l b s2).t = s2.t + evTotal
        (if !l && b.timings.pause ≠ 0 then [Ev.gap b.timings.pause] else []) := by
    unfold pausePhase
    by_cases hc : (!l && decide (b.timings.pause ≠ 0)) = true
    · refine ⟨?_, ?_⟩ <;>
        simp only [hc, ↓reduceIte, hpol, checkPolarity, playEvents, evTotal, List.append_nil] <;> omega
    · refine ⟨?_, ?_⟩ <;>
        simp only [hc, Bool.false_eq_true, ↓reduceIte, playEvents, evTotal, List.append_nil] <;> omega
  unfold blockEvents
  rw [h3.1, h3.2, h2.1, h2.2, h1.1, h1.2]
  refine ⟨?_, ?_⟩
  · simp only [playEvents_append, List.append_assoc]
  · simp only [evTotal_append]; omega

theorem runBlocks_plain (pol : Int) (blocks : List Block) (s : St) (hb : ∀ b ∈ blocks, PlainBlock b) :
    (runBlocks pol blocks s).edges = s.edges ++ playEvents s.t (tapeEvents blocks) ∧
    (runBlocks pol blocks s).t = s.t + evTotal (tapeEvents blocks) := by
  induction blocks generalizing s with
  | nil => simp [runBlocks, tapeEvents, playEvents, evTotal]
  | cons b rest ih =>
    cases rest with
    | nil => exact stepBlock_plain pol true b s (hb b (by simp))
    | cons b' rest' =>
      have h1 := stepBlock_plain pol false b s (hb b (by simp))
      have h2 := ih (stepBlock pol false b s) (fun x hx => hb x (List.mem_cons_of_mem _ hx))
      simp only [runBlocks, tapeEvents]
      rw [h2.1, h2.2, h1.1, h1.2, playEvents_append, evTotal_append]
      refine ⟨?_, ?_⟩
      · simp only [List.append_assoc]
      · omega

end Edges
