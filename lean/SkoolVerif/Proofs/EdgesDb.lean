import SkoolVerif.Proofs.EdgesInv
/-!
`DataBlock` index invariants of the `get_edges` loop, and the code after the loop.
-/
namespace Edges
open EdgeSpec

/-- Every recorded range is well-formed, inside the edge list, and the ranges
are in tape order. -/
def DbInv (s : St) : Prop :=
  (∀ db ∈ s.dbs, db.start ≤ db.stop ∧ db.stop + 1 ≤ s.edges.length) ∧
  s.dbs.Pairwise (fun a b => a.stop ≤ b.start)

/-- The `DataBlock` appended for truthy data. -/
def newDb (pol : Int) (b : Block) (s : St) : DataBlock :=
  let n := (dataCore pol b.timings b.data s.edges s.t).1.length
  if hasZero b.timings then ⟨b.data, n - 1, n - 1, s.keys, false⟩
  else ⟨b.data, (checkPolarity b.timings.polarity pol s.edges s.t).length - 1, n - 1, s.keys, true⟩

theorem dataPhase_dbs (pol : Int) (l : Bool) (b : Block) (s : St) (hd : b.data ≠ []) :
    (dataPhase pol l b s).dbs = s.dbs ++ [newDb pol b s] := by
  unfold dataPhase newDb dataCore
  by_cases ht : b.timings.tail = 0 <;> by_cases hz : hasZero b.timings = true <;> simp [hd, ht, hz]

theorem dataCore_len (pol : Int) (tm : Timings) (data : List Nat) (e : List Int) (t : Int) :
    (checkPolarity tm.polarity pol e t).length ≤ (dataCore pol tm data e t).1.length := by
  unfold dataCore
  have h1 := (Ext.dataEdges tm data (checkPolarity tm.polarity pol e t) t).2.1
  by_cases ht : tm.tail = 0
  · simpa [ht] using h1
  · simp [ht]; omega

theorem DbInv.grow {s s' : St} (h : DbInv s) (hd : s'.dbs = s.dbs) (hl : s.edges.length ≤ s'.edges.length) :
    DbInv s' := by
  refine ⟨?_, by rw [hd]; exact h.2⟩
  intro db hdb
  rw [hd] at hdb
  have := h.1 db hdb
  omega

theorem DbInv.push {s s' : St} (h : DbInv s) (db : DataBlock) (hd : s'.dbs = s.dbs ++ [db])
    (hl : s.edges.length ≤ s'.edges.length) (h1 : s.edges.length ≤ db.start + 1)
    (h2 : db.start ≤ db.stop) (h3 : db.stop + 1 ≤ s'.edges.length) : DbInv s' := by
  refine ⟨?_, ?_⟩
  · intro d hdm
    rw [hd] at hdm
    simp at hdm
    rcases hdm with hdm | rfl
    · have := h.1 d hdm; omega
    · exact ⟨h2, h3⟩
  · rw [hd, List.pairwise_append]
    refine ⟨h.2, by simp, ?_⟩
    intro a ha c hc
    simp at hc; subst hc
    have := h.1 a ha; omega

theorem dataPhase_dbInv (pol : Int) (l : Bool) (b : Block) (s : St) (hne : s.edges ≠ [])
    (h : DbInv s) : DbInv (dataPhase pol l b s) := by
  have hlen := (dataPhase_ext pol l b s).2.1
  have h0 : 1 ≤ s.edges.length := by
    cases hs : s.edges with
    | nil => exact absurd hs hne
    | cons x xs => simp
  by_cases hd : b.data = []
  · unfold dataPhase
    simp only [hd, ne_eq, not_true_eq_false, ↓reduceIte]
    split
    · refine h.push ⟨[], s.edges.length - 1, s.edges.length - 1, s.keys, false⟩ rfl (Nat.le_refl _) ?_ ?_ ?_
        <;> simp <;> omega
    · exact h
  · have he := (dataPhase_edges pol l b s hd).1
    have hcp := (Ext.checkPolarity b.timings.polarity pol s.edges s.t).2.1
    have hcl := dataCore_len pol b.timings b.data s.edges s.t
    refine h.push (newDb pol b s) (dataPhase_dbs pol l b s hd) hlen ?_ ?_ ?_
    · unfold newDb; split <;> simp <;> omega
    · unfold newDb; split <;> simp <;> omega
    · rw [he]; unfold newDb; split <;> simp <;> omega

theorem stepBlock_dbInv (pol : Int) (l : Bool) (b : Block) (s : St) (hne : s.edges ≠ [])
    (h : DbInv s) : DbInv (stepBlock pol l b s) := by
  unfold stepBlock
  have h0 : DbInv (setKeys b s) := h
  have hne0 : (setKeys b s).edges ≠ [] := hne
  generalize setKeys b s = s0 at h0 hne0
  have e1 := pulsePhase_ext pol b s0
  have h1 : DbInv (pulsePhase pol b s0) := h0.grow (pulsePhase_other pol b s0).2.2 e1.2.1
  have h2 := dataPhase_dbInv pol l b _ (ext_ne_nil e1 hne0) h1
  exact h2.grow (pausePhase_other pol l b _).2.2 (pausePhase_ext pol l b _).2.1

theorem runBlocks_dbInv (pol : Int) (blocks : List Block) (s : St) (hne : s.edges ≠ [])
    (h : DbInv s) : DbInv (runBlocks pol blocks s) := by
  induction blocks generalizing s with
  | nil => exact h
  | cons b rest ih =>
    cases rest with
    | nil => exact stepBlock_dbInv pol true b s hne h
    | cons b' rest' =>
      simp only [runBlocks]
      exact ih _ (ext_ne_nil (stepBlock_ext pol false b s) hne) (stepBlock_dbInv pol false b s hne h)

/-! ### After the loop -/

theorem adjustLast_mem {m : Nat} {dbs : List DataBlock} {d : DataBlock} (h : d ∈ adjustLast m dbs) :
    d ∈ dbs ∨ ∃ d0 ∈ dbs, d = { d0 with start := min d0.start m, stop := min d0.stop m } := by
  induction dbs with
  | nil => simp [adjustLast] at h
  | cons a rest ih =>
    cases rest with
    | nil =>
      simp [adjustLast] at h
      exact Or.inr ⟨a, by simp, h⟩
    | cons c rest' =>
      simp only [adjustLast, List.mem_cons] at h
      rcases h with rfl | h
      · left; simp
      · rcases ih (by simpa [adjustLast] using h) with h | ⟨d0, hd0, rfl⟩
        · left; exact List.mem_cons_of_mem _ h
        · right; exact ⟨d0, List.mem_cons_of_mem _ hd0, rfl⟩

theorem adjustLast_length (m : Nat) (dbs : List DataBlock) : (adjustLast m dbs).length = dbs.length := by
  induction dbs with
  | nil => rfl
  | cons a rest ih =>
    cases rest with
    | nil => rfl
    | cons c rest' => simp [adjustLast] at ih ⊢; exact ih

theorem adjustLast_getLast {m : Nat} {dbs : List DataBlock} {d : DataBlock}
    (h : (adjustLast m dbs).getLast? = some d) : d.start ≤ m ∧ d.stop ≤ m := by
  induction dbs with
  | nil => simp [adjustLast] at h
  | cons a rest ih =>
    cases rest with
    | nil =>
      simp [adjustLast] at h
      subst h
      simp
      exact ⟨Nat.min_le_right _ _, Nat.min_le_right _ _⟩
    | cons c rest' =>
      simp only [adjustLast] at h
      cases hadj : adjustLast m (c :: rest') with
      | nil =>
        have := adjustLast_length m (c :: rest')
        rw [hadj] at this; simp at this
      | cons x xs =>
        rw [hadj, List.getLast?_cons_cons] at h
        exact ih (by rw [hadj]; exact h)

end Edges

namespace Edges

theorem finish_cases (s : St) :
    (s.edges.getLast? = some s.tail ∧
      finish s = (s.edges.dropLast, adjustLast (s.edges.dropLast.length - 1) s.dbs)) ∨
    (s.edges.getLast? ≠ some s.tail ∧ finish s = (s.edges, s.dbs)) := by
  unfold finish
  by_cases h : s.edges.getLast? = some s.tail
  · left; simp [h]
  · right; simp [h]

/-- Every edge is at or after `first_edge`, and the tail sentinel is below it or
there are two edges: together these make the final `pop()` safe. -/
theorem tail_not_first (fe pol : Int) (blocks : List Block) :
    let s := runBlocks pol blocks (initSt fe pol)
    s.edges.getLast? = some s.tail → 2 ≤ s.edges.length := by
  intro s hl
  have hext := runBlocks_ext pol blocks (initSt fe pol)
  have hlo := hext.2.2.2 fe (initSt_lo fe pol) (Int.le_refl _)
  have htail := runBlocks_tailOk fe pol blocks (initSt fe pol) (initSt_inv fe pol).1 (Or.inl rfl)
  have hmem : s.tail ∈ s.edges := List.mem_of_getLast? hl
  have := hlo _ hmem
  rcases htail with h | h
  · have h' : s.tail = fe - 1 := h
    omega
  · exact h

end Edges

namespace Edges

theorem dataPhase_tail_eq (pol : Int) (l : Bool) (b : Block) (s : St) (h : b.timings.tail = 0) :
    (dataPhase pol l b s).tail = s.tail := by
  by_cases hd : b.data = []
  · exact (dataPhase_edges_nil pol l b s hd).2.2
  · unfold dataPhase; simp [hd, h]

theorem stepBlock_tail_eq (pol : Int) (l : Bool) (b : Block) (s : St) (h : b.timings.tail = 0) :
    (stepBlock pol l b s).tail = s.tail := by
  unfold stepBlock
  rw [(pausePhase_other pol l b _).1, dataPhase_tail_eq pol l b _ h, (pulsePhase_other pol b _).1]
  rfl

theorem runBlocks_tail_eq (pol : Int) (blocks : List Block) (s : St)
    (h : ∀ b ∈ blocks, b.timings.tail = 0) : (runBlocks pol blocks s).tail = s.tail := by
  induction blocks generalizing s with
  | nil => rfl
  | cons b rest ih =>
    have hb := h b (by simp)
    cases rest with
    | nil => exact stepBlock_tail_eq pol true b s hb
    | cons b' rest' =>
      simp only [runBlocks]
      rw [ih _ (fun x hx => h x (List.mem_cons_of_mem _ hx)), stepBlock_tail_eq pol false b s hb]

end Edges
