import SkoolVerif.Proofs.SnaCtlDict
/-!
Invariants of `_generate_ctls_without_code_map` (model: `SnaCtl.genRaw`, `markZero`, `joinBS`,
`textNoMap`) for an arbitrary decode stream.
-/
namespace SnaCtl

/-- every decoded instruction occupies at least one byte -/
def SizesPos (dec : Dec) : Prop := ∀ a, 1 ≤ (dec a).size

/-! ### the single pass -/

theorem catchData_cases (ctls : List (Nat × Ctl)) (ca count mc addr b0 : Nat) :
    (catchData ctls ca count mc addr b0 = (ctls, ca)) ∨
    (0 < mc ∧ (catchData ctls ca count mc addr b0 = (ctls, addr) ∧ (∃ k r, ctls = (k, .b) :: r) ∨
               catchData ctls ca count mc addr b0 = ((ca, .b) :: ctls, addr))) := by
  unfold catchData
  split
  · split
    · right
      refine ⟨by omega, ?_⟩
      split
      · left; exact ⟨rfl, _, _, rfl⟩
      · right; rfl
    · left; rfl
  · left; rfl

/-- Loop invariant of the `for ... in decode(...)` loop at the moment the instruction at `addr`
is about to be decoded. -/
structure GInv (start end_ addr : Nat) (st : GState) : Prop where
  desc : (st.ctlAddr :: keys st.ctls).Pairwise (· > ·)
  lt_end : ∀ k ∈ keys st.ctls, k < end_
  ge_start : ∀ k ∈ keys st.ctls, start ≤ k
  ca_ge : start ≤ st.ctlAddr
  ca_le : st.ctlAddr ≤ addr
  ca_lt : 0 < st.prevMax → st.ctlAddr < addr
  bottom : (keys st.ctls).getLastD st.ctlAddr = start

theorem ginv_init (start end_ : Nat) : GInv start end_ start (GState.init start) := by
  constructor <;> simp [GState.init]

theorem getLast?_cons_some (x : Nat) (r : List Nat) : ∃ y, (x :: r).getLast? = some y :=
  ⟨(x :: r).getLast (by simp), List.getLast?_eq_some_getLast (by simp)⟩

theorem getLastD_irrel (x : Nat) (r : List Nat) (a b : Nat) : (x :: r).getLastD a = (x :: r).getLastD b := by
  obtain ⟨y, hy⟩ := getLast?_cons_some x r
  simp [List.getLastD_eq_getLast?, hy]

theorem getLastD_cons_of_bottom {ks : List Nat} {a b start : Nat}
    (h : ks.getLastD a = start) (hb : ks = [] → b = start) : (b :: ks).getLastD a = start := by
  cases ks with
  | nil => simp at *; exact hb
  | cons x r => simpa [List.getLastD_cons] using h

/-- the state after `_catch_data` still satisfies what the invariant says about the list. -/
theorem catch_inv {start end_ addr : Nat} {st : GState} (h : GInv start end_ addr st) (ha : addr < end_)
    (b0 : Nat) :
    let r := catchData st.ctls st.ctlAddr st.count st.prevMax addr b0
    (r.2 :: keys r.1).Pairwise (· > ·) ∧ (∀ k ∈ keys r.1, k < end_) ∧ (∀ k ∈ keys r.1, start ≤ k) ∧
      start ≤ r.2 ∧ r.2 ≤ addr ∧ (keys r.1).getLastD r.2 = start := by
  intro r
  have hd := h.desc
  rw [List.pairwise_cons] at hd
  rcases catchData_cases st.ctls st.ctlAddr st.count st.prevMax addr b0 with hc | ⟨hm, ⟨hc, _⟩ | hc⟩
  · simp only [r, hc]
    exact ⟨h.desc, h.lt_end, h.ge_start, h.ca_ge, h.ca_le, h.bottom⟩
  · simp only [r, hc]
    have hlt := h.ca_lt hm
    refine ⟨?_, h.lt_end, h.ge_start, by have := h.ca_ge; omega, Nat.le_refl _, ?_⟩
    · rw [List.pairwise_cons]
      exact ⟨fun k hk => by have := hd.1 k hk; omega, hd.2⟩
    · rename_i hex
      obtain ⟨k, r', hr⟩ := hex
      have := h.bottom
      rw [hr] at this ⊢
      rw [keys_cons] at this ⊢
      rw [getLastD_irrel _ _ addr st.ctlAddr]; exact this
  · simp only [r, hc]
    have hlt := h.ca_lt hm
    refine ⟨?_, ?_, ?_, by have := h.ca_ge; omega, Nat.le_refl _, ?_⟩
    · rw [keys_cons, List.pairwise_cons]
      refine ⟨?_, h.desc⟩
      intro k hk
      simp at hk
      rcases hk with rfl | hk
      · omega
      · have := hd.1 k hk; omega
    · intro k hk
      simp at hk
      rcases hk with rfl | hk
      · omega
      · exact h.lt_end k hk
    · intro k hk
      simp at hk
      rcases hk with rfl | hk
      · exact h.ca_ge
      · exact h.ge_start k hk
    · rw [keys_cons]
      have hb := h.bottom
      cases hks : keys st.ctls with
      | nil => simp [hks] at hb ⊢; exact hb
      | cons x r' => simp [hks] at hb ⊢; exact hb

theorem gstep_inv {start end_ addr : Nat} {st : GState} (mem : Mem) (op : Op)
    (h : GInv start end_ addr st) (ha : addr < end_) (hs : 1 ≤ op.size) :
    GInv start end_ (addr + op.size) (gstep mem st addr op) := by
  have hc := catch_inv h ha st.prevB0
  simp only at hc
  obtain ⟨c1, c2, c3, c4, c5, c6⟩ := hc
  unfold gstep
  split
  · -- END
    constructor
    · simp only [keys_cons]
      rw [List.pairwise_cons]
      refine ⟨?_, c1⟩
      intro k hk
      rw [List.pairwise_cons] at c1
      simp at hk
      rcases hk with rfl | hk
      · omega
      · have := c1.1 k hk; omega
    · intro k hk
      simp at hk
      rcases hk with rfl | hk
      · omega
      · exact c2 k hk
    · intro k hk
      simp at hk
      rcases hk with rfl | hk
      · exact c4
      · exact c3 k hk
    · simp only; omega
    · simp
    · simp
    · simp only [keys_cons]
      have hp := c1
      rw [List.pairwise_cons] at hp
      cases hks : keys (catchData st.ctls st.ctlAddr st.count st.prevMax addr st.prevB0).1 with
      | nil => simp [hks] at c6 ⊢; exact c6
      | cons x r' => simp [hks] at c6 ⊢; exact c6
  · split
    · -- same op as before
      exact ⟨h.desc, h.lt_end, h.ge_start, h.ca_ge, by have := h.ca_le; simp only; omega,
        fun _ => by have := h.ca_le; simp only; omega, h.bottom⟩
    · split
      · -- different op, previous op exists: catch data
        exact ⟨c1, c2, c3, c4, by simp only; omega, fun _ => by simp only; omega, c6⟩
      · exact ⟨h.desc, h.lt_end, h.ge_start, h.ca_ge, by have := h.ca_le; simp only; omega,
          fun _ => by have := h.ca_le; simp only; omega, h.bottom⟩

theorem gloop_inv {dec : Dec} (hs : SizesPos dec) (mem : Mem) {start end_ : Nat} (fuel : Nat) :
    ∀ (addr : Nat) (st : GState), GInv start end_ addr st →
      ∃ addr', GInv start end_ addr' (gloop dec mem end_ fuel addr st) := by
  induction fuel with
  | zero => intro addr st h; exact ⟨addr, h⟩
  | succ n ih =>
    intro addr st h
    unfold gloop
    split
    · exact ih _ _ (gstep_inv mem (dec addr) h (by assumption) (hs addr))
    · exact ⟨addr, h⟩

/-- What the list handed to `dict()` looks like. -/
structure RawOK (start end_ : Nat) (l : List (Nat × Ctl)) : Prop where
  sorted : Sorted l
  first : (keys l).head? = some start
  last : l.getLast? = some (end_, .i)
  inner : ∀ kv ∈ l.dropLast, start ≤ kv.1 ∧ kv.1 < end_ ∧ kv.2 ≠ .i

theorem keys_reverse (l : List (Nat × Ctl)) : keys l.reverse = (keys l).reverse := by
  simp [keys]

theorem head?_reverse_getLastD (l : List Nat) (a : Nat) (h : l ≠ []) :
    l.reverse.head? = some (l.getLastD a) := by
  rw [List.head?_reverse]
  cases l with
  | nil => exact absurd rfl h
  | cons x r =>
    obtain ⟨y, hy⟩ := getLast?_cons_some x r
    simp [List.getLastD_eq_getLast?, hy]

/-- values appended by the single pass are never `i` -/
theorem catch_vals {ctls : List (Nat × Ctl)} (h : ∀ kv ∈ ctls, kv.2 ≠ Ctl.i) (ca count mc addr b0 : Nat) :
    ∀ kv ∈ (catchData ctls ca count mc addr b0).1, kv.2 ≠ Ctl.i := by
  rcases catchData_cases ctls ca count mc addr b0 with hc | ⟨_, ⟨hc, _⟩ | hc⟩ <;> rw [hc]
  · exact h
  · exact h
  · intro kv hkv
    simp at hkv
    rcases hkv with rfl | hkv
    · simp
    · exact h kv hkv

theorem gstep_vals {st : GState} (mem : Mem) (addr : Nat) (op : Op) (h : ∀ kv ∈ st.ctls, kv.2 ≠ Ctl.i) :
    ∀ kv ∈ (gstep mem st addr op).ctls, kv.2 ≠ Ctl.i := by
  have hc := catch_vals h st.ctlAddr st.count st.prevMax addr st.prevB0
  unfold gstep
  split
  · intro kv hkv
    simp at hkv
    rcases hkv with rfl | hkv
    · simp
    · exact hc kv hkv
  · split
    · exact h
    · split
      · exact hc
      · exact h

theorem gloop_vals (dec : Dec) (mem : Mem) (end_ : Nat) (fuel : Nat) :
    ∀ (addr : Nat) (st : GState), (∀ kv ∈ st.ctls, kv.2 ≠ Ctl.i) →
      ∀ kv ∈ (gloop dec mem end_ fuel addr st).ctls, kv.2 ≠ Ctl.i := by
  induction fuel with
  | zero => intro addr st h; exact h
  | succ n ih =>
    intro addr st h
    unfold gloop
    split
    · exact ih _ _ (gstep_vals mem addr (dec addr) h)
    · exact h

theorem genRaw_ok {dec : Dec} (hs : SizesPos dec) (mem : Mem) {start end_ : Nat} (hse : start ≤ end_) :
    RawOK start end_ (genRaw dec mem start end_) := by
  obtain ⟨addr', hinv⟩ := gloop_inv hs mem (end_ - start) start _ (ginv_init start end_)
  have hvals := gloop_vals dec mem end_ (end_ - start) start (GState.init start) (by simp [GState.init])
  unfold genRaw
  generalize gloop dec mem end_ (end_ - start) start (GState.init start) = st at hinv hvals
  simp only
  have hd := hinv.desc
  rw [List.pairwise_cons] at hd
  -- the list before the terminator, newest first
  generalize hL : (if st.ctlAddr < end_ ∧ lastKeyNe st.ctls st.ctlAddr = true then (st.ctlAddr, Ctl.b) :: st.ctls
      else st.ctls) = L
  have hL1 : (keys L).Pairwise (· > ·) := by
    subst hL; split
    · exact hinv.desc
    · exact hd.2
  have hL2 : ∀ k ∈ keys L, start ≤ k ∧ k < end_ := by
    subst hL; split
    · intro k hk
      simp at hk
      rcases hk with rfl | hk
      · rename_i hc; exact ⟨hinv.ca_ge, hc.1⟩
      · exact ⟨hinv.ge_start k hk, hinv.lt_end k hk⟩
    · intro k hk; exact ⟨hinv.ge_start k hk, hinv.lt_end k hk⟩
  have hL3 : (keys L).getLastD end_ = start := by
    subst hL; split
    · have hb := hinv.bottom
      cases hks : keys st.ctls with
      | nil => simp [hks] at hb ⊢; exact hb
      | cons x r' => simp [hks] at hb ⊢; exact hb
    · rename_i hc
      have hb := hinv.bottom
      cases hks : st.ctls with
      | nil =>
        simp [hks] at hb hc ⊢
        simp [lastKeyNe] at hc
        omega
      | cons x r' => simp [hks] at hb ⊢; exact hb
  have hL4 : ∀ kv ∈ L, kv.2 ≠ Ctl.i := by
    subst hL; split
    · intro kv hkv
      simp at hkv
      rcases hkv with rfl | hkv
      · simp
      · exact hvals kv hkv
    · exact hvals
  constructor
  · -- sorted
    show (keys ((end_, Ctl.i) :: L).reverse).Pairwise (· < ·)
    rw [keys_reverse, List.pairwise_reverse, keys_cons, List.pairwise_cons]
    exact ⟨fun k hk => (hL2 k hk).2, hL1.imp (fun h => h)⟩
  · rw [keys_reverse, keys_cons]
    rw [head?_reverse_getLastD _ end_ (by simp)]
    congr 1
    cases hk : keys L with
    | nil => simp [hk] at hL3 ⊢; exact hL3
    | cons x r => simp [hk] at hL3 ⊢; exact hL3
  · simp
  · intro kv hkv
    simp at hkv
    have := hL2 kv.1 (by simp [keys]; exact ⟨kv.2, hkv⟩)
    exact ⟨this.1, this.2, hL4 kv hkv⟩

end SnaCtl
