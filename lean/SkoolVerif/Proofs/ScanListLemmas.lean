import SkoolVerif.Model.PngScan
/-! Generic list lemmas used by the scanline proofs of C15 (blocks of equal length,
chunking, digit extraction). -/
set_option linter.unusedSimpArgs false
namespace PngScan

theorem getD_drop {α : Type} (l : List α) (a i : Nat) (d : α) : (l.drop a).getD i d = l.getD (a + i) d := by
  simp [List.getD_eq_getElem?_getD, List.getElem?_drop]

theorem getD_take {α : Type} (l : List α) (n i : Nat) (d : α) (h : i < n) : (l.take n).getD i d = l.getD i d := by
  simp [List.getD_eq_getElem?_getD, List.getElem?_take, h]

theorem getD_append_left {α : Type} (l r : List α) (i : Nat) (d : α) (h : i < l.length) :
    (l ++ r).getD i d = l.getD i d := by
  simp [List.getD_eq_getElem?_getD, List.getElem?_append_left h]

section blocks
variable {α β : Type} (f : α → List β) (L : Nat)

theorem flatMap_length_const (l : List α) (h : ∀ u ∈ l, (f u).length = L) :
    (l.flatMap f).length = l.length * L := by
  induction l with
  | nil => simp
  | cons a t ih =>
    simp only [List.flatMap_cons, List.length_append, List.length_cons, h a (by simp),
      ih (fun u hu => h u (by simp [hu]))]
    rw [Nat.add_mul]; omega

theorem flatMap_drop_const (l : List α) (m : Nat) (h : ∀ u ∈ l, (f u).length = L) :
    (l.drop m).flatMap f = (l.flatMap f).drop (m * L) := by
  induction l generalizing m with
  | nil => simp
  | cons a t ih =>
    cases m with
    | zero => simp
    | succ m =>
      simp only [List.drop_succ_cons, List.flatMap_cons]
      rw [ih m (fun u hu => h u (by simp [hu]))]
      have : (m + 1) * L = (f a).length + m * L := by rw [h a (by simp), Nat.add_mul]; omega
      rw [this, ← List.drop_drop, List.drop_left]

theorem flatMap_take_const (l : List α) (m : Nat) (h : ∀ u ∈ l, (f u).length = L) :
    (l.take m).flatMap f = (l.flatMap f).take (m * L) := by
  induction l generalizing m with
  | nil => simp
  | cons a t ih =>
    cases m with
    | zero => simp
    | succ m =>
      simp only [List.take_succ_cons, List.flatMap_cons]
      rw [ih m (fun u hu => h u (by simp [hu]))]
      have : (m + 1) * L = (f a).length + m * L := by rw [h a (by simp), Nat.add_mul]; omega
      rw [this, List.take_length_add_append]

theorem flatMap_getD_const (l : List α) (idx : Nat) (d : β) (u0 : α) (hL : 0 < L)
    (h : ∀ u ∈ l, (f u).length = L) (hi : idx < l.length * L) :
    (l.flatMap f).getD idx d = (f (l.getD (idx / L) u0)).getD (idx % L) d := by
  induction l generalizing idx with
  | nil => simp at hi
  | cons a t ih =>
    have ha := h a (by simp)
    simp only [List.flatMap_cons]
    by_cases hlt : idx < L
    · rw [getD_append_left _ _ _ _ (by omega)]
      have : idx / L = 0 := Nat.div_eq_of_lt hlt
      simp [this, Nat.mod_eq_of_lt hlt]
    · have hge : L ≤ idx := by omega
      have e : (f a ++ t.flatMap f).getD idx d = (t.flatMap f).getD (idx - L) d := by
        simp only [List.getD_eq_getElem?_getD]
        rw [List.getElem?_append_right (by omega), ha]
      rw [e, ih (idx - L) (fun u hu => h u (by simp [hu])) (by
        simp only [List.length_cons, Nat.add_mul] at hi; omega)]
      have d1 : idx / L = (idx - L) / L + 1 := by
        have := Nat.sub_add_cancel hge
        conv => lhs; rw [← this]
        rw [Nat.add_div_right _ hL]
      have d2 : idx % L = (idx - L) % L := by
        have := Nat.sub_add_cancel hge
        conv => lhs; rw [← this]
        rw [Nat.add_mod_right]
      rw [d1, d2, List.getD_cons_succ]

end blocks

theorem expand_length {α : Type} (scale : Nat) (l : List α) : (expand scale l).length = l.length * scale := by
  unfold expand
  exact flatMap_length_const _ scale l (by simp)

theorem expand_getD {α : Type} (scale : Nat) (l : List α) (j : Nat) (d : α) (hs : 0 < scale)
    (hj : j < l.length * scale) : (expand scale l).getD j d = l.getD (j / scale) d := by
  unfold expand
  rw [flatMap_getD_const _ scale l j d d hs (by simp) hj]
  simp [List.getD_eq_getElem?_getD, List.getElem?_replicate, Nat.mod_lt _ hs]

/-! ### Chunking -/

theorem chunksOf_nil {α : Type} (n fuel : Nat) : chunksOf n fuel ([] : List α) = [] := by
  cases fuel <;> simp [chunksOf]

/-- Chunk `i` of a list whose length is a multiple of `n`. -/
theorem chunksOf_getD {α : Type} (n : Nat) (hn : 0 < n) (fuel : Nat) (l : List α) (hf : l.length ≤ fuel)
    (i : Nat) (hi : i * n < l.length) :
    (chunksOf n fuel l).getD i [] = (l.drop (i * n)).take n := by
  induction fuel generalizing l i with
  | zero => simp at hf; simp [hf] at hi
  | succ fuel ih =>
    cases l with
    | nil => simp at hi
    | cons a t =>
      simp only [chunksOf, List.isEmpty_cons, Bool.false_eq_true, if_false]
      cases i with
      | zero => simp
      | succ i =>
        rw [List.getD_cons_succ]
        have hlen : ((a :: t).drop n).length ≤ fuel := by
          simp only [List.length_drop, List.length_cons] at hf ⊢; omega
        have hi' : i * n < ((a :: t).drop n).length := by
          simp only [List.length_drop]
          rw [Nat.add_mul] at hi; omega
        rw [ih _ hlen i hi', List.drop_drop]
        congr 2
        rw [Nat.add_mul]; omega

theorem chunksOf_length {α : Type} (n : Nat) (hn : 0 < n) (fuel : Nat) (l : List α) (hf : l.length ≤ fuel)
    (k : Nat) (hk : l.length = k * n) : (chunksOf n fuel l).length = k := by
  induction fuel generalizing l k with
  | zero =>
    have : l = [] := by simpa using hf
    subst this
    simp only [List.length_nil] at hk
    have : k = 0 := by
      cases k with
      | zero => rfl
      | succ k => rw [Nat.add_mul] at hk; omega
    simp [chunksOf, this]
  | succ fuel ih =>
    cases l with
    | nil =>
      simp only [List.length_nil] at hk
      have : k = 0 := by
        cases k with
        | zero => rfl
        | succ k => rw [Nat.add_mul] at hk; omega
      simp [chunksOf, this]
    | cons a t =>
      simp only [chunksOf, List.isEmpty_cons, Bool.false_eq_true, if_false, List.length_cons]
      cases k with
      | zero => simp at hk
      | succ k =>
        have hlen : ((a :: t).drop n).length ≤ fuel := by
          simp only [List.length_drop, List.length_cons] at hf ⊢; omega
        have hk' : ((a :: t).drop n).length = k * n := by
          simp only [List.length_drop]; rw [hk, Nat.add_mul]; omega
        rw [ih _ hlen k hk']

/-! ### Digits of a packed byte -/

theorem list4 {α : Type} (t : List α) (h : t.length = 4) : ∃ a0 a1 a2 a3, t = [a0, a1, a2, a3] := by
  match t, h with
  | [a0, a1, a2, a3], _ => exact ⟨a0, a1, a2, a3, rfl⟩

theorem list2 {α : Type} (t : List α) (h : t.length = 2) : ∃ a0 a1, t = [a0, a1] := by
  match t, h with
  | [a0, a1], _ => exact ⟨a0, a1, rfl⟩

theorem list8' {α : Type} (t : List α) (h : t.length = 8) :
    ∃ a0 a1 a2 a3 a4 a5 a6 a7, t = [a0, a1, a2, a3, a4, a5, a6, a7] := by
  match t, h with
  | [a0, a1, a2, a3, a4, a5, a6, a7], _ => exact ⟨a0, a1, a2, a3, a4, a5, a6, a7, rfl⟩

/-- Eight 1-bit pixels in a byte, leftmost in the high-order bit. -/
theorem digit_bd1 (g : List Nat) (hg : g.length = 8) (hv : ∀ v ∈ g, v < 2) (j : Nat) (hj : j < 8) :
    fromBase 2 g / 2 ^ (1 * (7 - j)) % 2 = g.getD j 0 := by
  obtain ⟨a0, a1, a2, a3, a4, a5, a6, a7, rfl⟩ := list8' g hg
  have h0 := hv a0 (by simp); have h1 := hv a1 (by simp); have h2 := hv a2 (by simp)
  have h3 := hv a3 (by simp); have h4 := hv a4 (by simp); have h5 := hv a5 (by simp)
  have h6 := hv a6 (by simp); have h7 := hv a7 (by simp)
  simp only [fromBase, List.foldl_cons, List.foldl_nil]
  match j, hj with
  | 0, _ => simp; omega
  | 1, _ => simp; omega
  | 2, _ => simp; omega
  | 3, _ => simp; omega
  | 4, _ => simp; omega
  | 5, _ => simp; omega
  | 6, _ => simp; omega
  | 7, _ => simp; omega

/-- Four 2-bit pixels in a byte. -/
theorem digit_bd2 (g : List Nat) (hg : g.length = 4) (hv : ∀ v ∈ g, v < 4) (j : Nat) (hj : j < 4) :
    fromBase 4 g / 2 ^ (2 * (3 - j)) % 4 = g.getD j 0 := by
  obtain ⟨a0, a1, a2, a3, rfl⟩ := list4 g hg
  have h0 := hv a0 (by simp); have h1 := hv a1 (by simp); have h2 := hv a2 (by simp)
  have h3 := hv a3 (by simp)
  simp only [fromBase, List.foldl_cons, List.foldl_nil]
  match j, hj with
  | 0, _ => simp; omega
  | 1, _ => simp; omega
  | 2, _ => simp; omega
  | 3, _ => simp; omega

/-- Two 4-bit pixels in a byte. -/
theorem digit_bd4 (g : List Nat) (hg : g.length = 2) (hv : ∀ v ∈ g, v < 16) (j : Nat) (hj : j < 2) :
    (g.getD 0 0 * 16 + g.getD 1 0) / 2 ^ (4 * (1 - j)) % 16 = g.getD j 0 := by
  obtain ⟨a0, a1, rfl⟩ := list2 g hg
  have h0 := hv a0 (by simp); have h1 := hv a1 (by simp)
  match j, hj with
  | 0, _ => simp; omega
  | 1, _ => simp; omega

end PngScan
