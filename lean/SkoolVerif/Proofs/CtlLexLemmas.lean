import SkoolVerif.Model.CtlLex
import SkoolVerif.Proofs.CtlTilingLemmas
/-! The lexical layer feeds `parse_ctls` with entries inside `[min_address, max_address)` (C01). -/
namespace CtlLex
open CtlTiling C01Spec

theorem mapM_ok_mem {α β ε : Type} (f : α → Except ε β) :
    ∀ (l : List α) (r : List β), l.mapM f = .ok r → ∀ y ∈ r, ∃ x ∈ l, f x = .ok y := by
  intro l
  induction l with
  | nil => intro r h y hy; simp [pure, Except.pure] at h; subst h; simp at hy
  | cons a t ih =>
    intro r h y hy
    rw [List.mapM_cons] at h
    cases ha : f a with
    | error e => rw [ha] at h; simp [bind, Except.bind] at h
    | ok b =>
      cases ht : t.mapM f with
      | error e => rw [ha, ht] at h; simp [bind, Except.bind] at h
      | ok bs =>
        rw [ha, ht] at h
        simp only [bind, Except.bind, pure, Except.pure, Except.ok.injEq] at h
        subst h
        rcases List.mem_cons.1 hy with h1 | h1
        · subst h1; exact ⟨a, by simp, ha⟩
        · obtain ⟨x, hx, hfx⟩ := ih bs ht y h1
          exact ⟨x, List.mem_cons_of_mem _ hx, hfx⟩

/-- the pre-pass only registers entries inside `[min_address, max_address)` -/
theorem prePassLine_bounds (minA maxA : Nat) (line : List Char) (a : Nat) (c : Char)
    (h : prePassLine minA maxA line = .ok (some (a, c))) : minA ≤ a ∧ a < maxA := by
  unfold prePassLine at h
  split at h
  · simp at h
  · split at h
    · split at h
      · simp only [Except.ok.injEq] at h
        split at h
        · rename_i hb
          simp only [Option.some.injEq, Prod.mk.injEq] at h
          rw [← h.1]; exact hb
        · simp at h
      · simp at h
      · simp at h
    · simp at h

theorem exists_min (l : List (Nat × Char)) (h : l ≠ []) :
    ∃ m ∈ l.map (·.1), ∀ x ∈ l.map (·.1), m ≤ x := by
  induction l with
  | nil => exact absurd rfl h
  | cons p r ih =>
    by_cases hr : r = []
    · subst hr; exact ⟨p.1, by simp, by simp⟩
    · obtain ⟨m, hm, hmin⟩ := ih hr
      by_cases hpm : p.1 ≤ m
      · refine ⟨p.1, by simp, ?_⟩
        intro x hx
        simp only [List.map_cons, List.mem_cons] at hx
        rcases hx with h1 | h1
        · omega
        · have := hmin x h1; omega
      · refine ⟨m, by simp only [List.map_cons, List.mem_cons]; exact Or.inr hm, ?_⟩
        intro x hx
        simp only [List.map_cons, List.mem_cons] at hx
        rcases hx with h1 | h1
        · omega
        · exact hmin x h1

end CtlLex

namespace CtlLex
open CtlTiling C01Spec

/-- what `parseFile` hands to the bookkeeping: entries inside the range -/
theorem parseFile_spec (minA maxA : Nat) (lines : List (List Char)) (st : PState) (errs : List (Nat × Err))
    (h : parseFile minA maxA lines = .ok (st, errs)) :
    ∃ pre ds, st = parseCtls minA maxA pre ds ∧ ∀ p ∈ pre, minA ≤ p.1 ∧ p.1 < maxA := by
  unfold parseFile at h
  split at h
  · simp at h
  · rename_i pre hpre
    dsimp only at h
    split at h
    · simp at h
    · simp only [Except.ok.injEq, Prod.mk.injEq] at h
      refine ⟨pre.filterMap id, _, h.1.symm, ?_⟩
      intro p hp
      simp only [List.mem_filterMap, id_eq] at hp
      obtain ⟨o, ho, hoe⟩ := hp
      subst hoe
      obtain ⟨line, _, hl⟩ := mapM_ok_mem _ lines pre hpre _ ho
      obtain ⟨a, c⟩ := p
      exact prePassLine_bounds minA maxA line a c hl

theorem addSub_nil_fold (items : List (Nat × Option Char)) :
    items.foldl (fun bs p => addSub bs p.2 p.1) [] = [] := by
  induction items with
  | nil => rfl
  | cons p r ih => simpa [addSub] using ih

/-- For any control file text in the lexical domain and any `[min_address, max_address)`: either no
entry line falls in the range (no blocks at all), or the sub-blocks produced by `parse_ctls` +
`get_blocks` tile `[lo, max_address)` where `lo` is the lowest entry address. -/
theorem parseFile_tile (minA maxA : Nat) (lines : List (List Char)) (st : PState) (errs : List (Nat × Err))
    (h : parseFile minA maxA lines = .ok (st, errs)) :
    getBlocks st = [] ∨ ∃ lo, minA ≤ lo ∧ lo < maxA ∧ Tiles (flatSubs (getBlocks st)) lo maxA := by
  obtain ⟨pre, ds, hst, hb⟩ := parseFile_spec minA maxA lines st errs h
  subst hst
  by_cases hne : pre = []
  · left
    subst hne
    have hk := parseCtls_keys_empty minA maxA ds
    simp only [getBlocks, hk, mkBlocks, addSub_nil_fold, List.map_nil]
  · right
    obtain ⟨lo, hlo, hmin⟩ := exists_min pre hne
    obtain ⟨p, hp, hpe⟩ := List.mem_map.1 hlo
    refine ⟨lo, by rw [← hpe]; exact (hb p hp).1, by rw [← hpe]; exact (hb p hp).2, ?_⟩
    have hk := parseCtls_keys minA maxA lo pre ds (fun q hq => ⟨hmin q.1 (List.mem_map_of_mem hq), (hb q hq).2⟩) hlo
    have ht := getBlocks_tile _ lo maxA hk.1 hk.2
    exact flatSubs_tiles _ lo maxA ht.1 ht.2

end CtlLex
