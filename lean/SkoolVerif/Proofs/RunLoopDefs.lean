import SkoolVerif.Model.TraceLoop
import SkoolVerif.Proofs.RzxSimRange
import SkoolVerif.Proofs.CmioStep
/-!
The run loop `Simulator.run(start, stop, interrupts)` / `CSimulator_run` on the machine state alone: what both
translated loops (`Gen/PyLoops.lean`, `Gen/CLoops/run.lean`, `Gen/CCmioLoops/run.lean`) are proved to compute
(`Proofs/RunLoopPy.lean`, `Proofs/RunLoopC.lean`).  Nothing here is tied to the sources by itself: these are
the *common values* of two translated definitions, not a model.
-/
open Z80

namespace RunLoop
variable {μ : Type} [MemLike μ]

/-- what a simulator class contributes to its run loop: one instruction, and the MEMPTR update of
`accept_interrupt` (`cmio`) -/
structure Machine (μ : Type) where
  step : Cfg → St μ → St μ
  cmio : Bool

/-- `Simulator` / `CSimulator` -/
def simM : Machine μ := ⟨fun cfg s => Sim.step cfg s, false⟩
/-- `CMIOSimulator` / `CCMIOSimulator` -/
def cmioM : Machine μ := ⟨fun cfg s => Cmio.step cfg s, true⟩

theorem simM_step (cfg : Cfg) (s : St μ) : (simM : Machine μ).step cfg s = Sim.step cfg s := by simp only [simM]
theorem cmioM_step (cfg : Cfg) (s : St μ) : (cmioM : Machine μ).step cfg s = Cmio.step cfg s := by simp only [cmioM]

/-- one pass: one instruction, then (if asked, enabled, and the clock is inside the INT pulse) the interrupt -/
def iter (m : Machine μ) (ints : Bool) (cfg : Cfg) (s : St μ) : St μ :=
  let s1 := m.step cfg s
  if ints = true ∧ s1.iff ≠ 0 ∧ s1.t % cfg.frame_duration < cfg.int_active then (TraceLoop.acceptInterrupt m.cmio s1 s.pc).1
  else s1

/-- at most `fuel` passes, stopping after the first pass that ends with PC = `stop`: (state, stopped) -/
def loop (m : Machine μ) (ints : Bool) (cfg : Cfg) (stop : Int) : Nat → St μ → St μ × Bool
  | 0, s => (s, false)
  | fuel + 1, s =>
    let s' := iter m ints cfg s
    if s'.pc = stop then (s', true) else loop m ints cfg stop fuel s'

theorem loop_stop (m : Machine μ) (ints : Bool) (cfg : Cfg) (stop : Int) (n : Nat) (s : St μ)
    (h : (iter m ints cfg s).pc = stop) : loop m ints cfg stop (n + 1) s = (iter m ints cfg s, true) := by
  simp only [loop, h, if_true]

theorem loop_go (m : Machine μ) (ints : Bool) (cfg : Cfg) (stop : Int) (n : Nat) (s : St μ)
    (h : (iter m ints cfg s).pc ≠ stop) : loop m ints cfg stop (n + 1) s = loop m ints cfg stop n (iter m ints cfg s) := by
  simp only [loop, h, if_false]

/-- from the start state: without `stop`, one instruction (no interrupt test); with `stop`, the loop -/
def runFrom (m : Machine μ) (cfg : Cfg) (fuel : Nat) (stop : Option Int) (ints : Bool) (s0 : St μ) : St μ × Bool :=
  match stop with
  | none => (m.step cfg s0, true)
  | some v => loop m ints cfg v fuel s0

/-- the whole call: `start` (if given) is loaded into PC first -/
def run (m : Machine μ) (cfg : Cfg) (fuel : Nat) (start stop : Option Int) (ints : Bool) (s : St μ) : St μ × Bool :=
  match start with
  | some v => runFrom m cfg fuel stop ints { s with pc := v }
  | none => runFrom m cfg fuel stop ints s

/-- `CSimulator_run` without `stop` (0x10000) leaves its loop after ONE PASS: unlike `Simulator.run`, which then executes one
instruction and returns, the interrupt test is made -/
def runFromC (m : Machine μ) (cfg : Cfg) (fuel : Nat) (stop : Option Int) (ints : Bool) (s0 : St μ) : St μ × Bool :=
  match stop with
  | none => (match fuel with
    | 0 => (s0, false)
    | _ + 1 => (iter m ints cfg s0, true))
  | some v => loop m ints cfg v fuel s0

def runC (m : Machine μ) (cfg : Cfg) (fuel : Nat) (start stop : Option Int) (ints : Bool) (s : St μ) : St μ × Bool :=
  match start with
  | some v => runFromC m cfg fuel stop ints { s with pc := v }
  | none => runFromC m cfg fuel stop ints s

theorem iter_no_ints (m : Machine μ) (cfg : Cfg) (s : St μ) : iter m false cfg s = m.step cfg s := by
  unfold iter; simp only [Bool.false_eq_true, false_and, if_false]

/-- where the two agree: a stop address is given, or no interrupts are asked for (and there is fuel for the one pass) -/
theorem runC_eq_run (m : Machine μ) (cfg : Cfg) (fuel : Nat) (start stop : Option Int) (ints : Bool) (s : St μ)
    (h : stop = none → ints = false ∧ 0 < fuel) : runC m cfg fuel start stop ints s = run m cfg fuel start stop ints s := by
  unfold runC run runFromC runFrom
  cases stop with
  | some v => rfl
  | none =>
    obtain ⟨hi, hf⟩ := h rfl
    subst hi
    cases fuel with
    | zero => omega
    | succ n => cases start <;> simp only [iter_no_ints]

theorem run_start_none (m : Machine μ) (cfg : Cfg) (fuel : Nat) (stop : Option Int) (ints : Bool) (s : St μ) :
    run m cfg fuel none stop ints s = runFrom m cfg fuel stop ints s := rfl

theorem run_start_some (m : Machine μ) (cfg : Cfg) (fuel : Nat) (v : Int) (stop : Option Int) (ints : Bool) (s : St μ) :
    run m cfg fuel (some v) stop ints s = runFrom m cfg fuel stop ints { s with pc := v } := rfl

theorem runFrom_none (m : Machine μ) (cfg : Cfg) (fuel : Nat) (ints : Bool) (s : St μ) :
    runFrom m cfg fuel none ints s = (m.step cfg s, true) := rfl

theorem runFrom_some (m : Machine μ) (cfg : Cfg) (fuel : Nat) (v : Int) (ints : Bool) (s : St μ) :
    runFrom m cfg fuel (some v) ints s = loop m ints cfg v fuel s := rfl

/-! ### the trace loop (`CSimulator_trace`, `Tracer.run`) on the machine state -/

/-- `n` passes -/
def passN (m : Machine μ) (ints : Bool) (cfg : Cfg) : Nat → St μ → St μ
  | 0, s => s
  | n + 1, s => passN m ints cfg n (iter m ints cfg s)

/-- at most `fuel` passes, counting operations, until one of the three stop conditions holds after a pass (in the order of the
source: 1 = `max_operations`, 2 = `max_time`, 3 = `stop`; `stop = none`: no stop address): ((state, operations), stop condition) -/
def traceLoop (m : Machine μ) (ints : Bool) (cfg : Cfg) (maxOps maxTime : Int) (stop : Option Int) : Nat → Int → St μ → (St μ × Int) × Option Int
  | 0, ops, s => ((s, ops), none)
  | fuel + 1, ops, s =>
    let s' := iter m ints cfg s
    if maxOps > 0 ∧ ops + 1 ≥ maxOps then ((s', ops + 1), some 1)
    else if maxTime > 0 ∧ s'.t ≥ maxTime then ((s', ops + 1), some 2)
    else if some s'.pc = stop then ((s', ops + 1), some 3)
    else traceLoop m ints cfg maxOps maxTime stop fuel (ops + 1) s'

theorem traceLoop_exit1 (m : Machine μ) (ints : Bool) (cfg : Cfg) (maxOps maxTime : Int) (stop : Option Int) (n : Nat) (ops : Int) (s : St μ)
    (c1 : maxOps > 0 ∧ ops + 1 ≥ maxOps) :
    traceLoop m ints cfg maxOps maxTime stop (n + 1) ops s = ((iter m ints cfg s, ops + 1), some 1) := by
  simp only [traceLoop, c1, and_self, if_true]

theorem traceLoop_exit2 (m : Machine μ) (ints : Bool) (cfg : Cfg) (maxOps maxTime : Int) (stop : Option Int) (n : Nat) (ops : Int) (s : St μ)
    (c1 : ¬ (maxOps > 0 ∧ ops + 1 ≥ maxOps)) (c2 : maxTime > 0 ∧ (iter m ints cfg s).t ≥ maxTime) :
    traceLoop m ints cfg maxOps maxTime stop (n + 1) ops s = ((iter m ints cfg s, ops + 1), some 2) := by
  simp only [traceLoop, if_neg c1, if_pos c2]

theorem traceLoop_exit3 (m : Machine μ) (ints : Bool) (cfg : Cfg) (maxOps maxTime : Int) (stop : Option Int) (n : Nat) (ops : Int) (s : St μ)
    (c1 : ¬ (maxOps > 0 ∧ ops + 1 ≥ maxOps)) (c2 : ¬ (maxTime > 0 ∧ (iter m ints cfg s).t ≥ maxTime)) (c3 : some (iter m ints cfg s).pc = stop) :
    traceLoop m ints cfg maxOps maxTime stop (n + 1) ops s = ((iter m ints cfg s, ops + 1), some 3) := by
  simp only [traceLoop, if_neg c1, if_neg c2, if_pos c3]

theorem traceLoop_go (m : Machine μ) (ints : Bool) (cfg : Cfg) (maxOps maxTime : Int) (stop : Option Int) (n : Nat) (ops : Int) (s : St μ)
    (c1 : ¬ (maxOps > 0 ∧ ops + 1 ≥ maxOps)) (c2 : ¬ (maxTime > 0 ∧ (iter m ints cfg s).t ≥ maxTime)) (c3 : ¬ some (iter m ints cfg s).pc = stop) :
    traceLoop m ints cfg maxOps maxTime stop (n + 1) ops s = traceLoop m ints cfg maxOps maxTime stop n (ops + 1) (iter m ints cfg s) := by
  simp only [traceLoop, if_neg c1, if_neg c2, if_neg c3]

/-- `-m n` alone (no time limit, no stop address): exactly `n` passes -/
theorem traceLoop_max_operations (m : Machine μ) (ints : Bool) (cfg : Cfg) (n fuel : Nat) (s : St μ) (hn : 0 < n) (hf : n ≤ fuel) :
    traceLoop m ints cfg n 0 none fuel 0 s = ((passN m ints cfg n s, (n : Int)), some 1) := by
  have gen : ∀ (j : Nat) (fuel : Nat) (ops : Nat) (s : St μ), 0 < j → j ≤ fuel → ops + j = n →
      traceLoop m ints cfg n 0 none fuel ops s = ((passN m ints cfg j s, (n : Int)), some 1) := by
    intro j
    induction j with
    | zero => intro _ _ _ h; omega
    | succ j ih =>
      intro fuel ops s _ hf ho
      obtain ⟨f, rfl⟩ : ∃ f, fuel = f + 1 := ⟨fuel - 1, by omega⟩
      simp only [traceLoop, passN]
      by_cases hj : j = 0
      · subst hj
        have hc : (n : Int) > 0 ∧ (ops : Int) + 1 ≥ n := ⟨by omega, by omega⟩
        rw [if_pos hc]
        simp only [passN]
        have : (ops : Int) + 1 = n := by omega
        rw [this]
      · have hc : ¬ ((n : Int) > 0 ∧ (ops : Int) + 1 ≥ n) := by omega
        have hc2 : ¬ ((0 : Int) > 0 ∧ (iter m ints cfg s).t ≥ 0) := by omega
        have hc3 : ¬ (some (iter m ints cfg s).pc = (none : Option Int)) := fun e => nomatch e
        rw [if_neg hc, if_neg hc2, if_neg hc3]
        have := ih f (ops + 1) (iter m ints cfg s) (by omega) (by omega) (by omega)
        simpa using this
  simpa using gen n fuel 0 s hn hf (by omega)

/-! ### the loop against runs of instructions -/

/-- `k` consecutive instructions of the machine -/
def stepN (m : Machine μ) (cfg : Cfg) : Nat → St μ → St μ
  | 0, s => s
  | k + 1, s => stepN m cfg k (m.step cfg s)

theorem stepN_sim (cfg : Cfg) (k : Nat) (s : St μ) : stepN simM cfg k s = Sim.runN cfg k s := by
  induction k generalizing s with
  | zero => rfl
  | succ k ih => simp only [stepN, Sim.runN, simM_step]; exact ih _

theorem stepN_cmio (cfg : Cfg) (k : Nat) (s : St μ) : stepN cmioM cfg k s = Cmio.runN cfg k s := by
  induction k generalizing s with
  | zero => rfl
  | succ k ih => simp only [stepN, Cmio.runN, cmioM_step]; exact ih _

theorem stepN_succ' (m : Machine μ) (cfg : Cfg) (k : Nat) (s : St μ) :
    stepN m cfg (k + 1) s = m.step cfg (stepN m cfg k s) := by
  induction k generalizing s with
  | zero => rfl
  | succ k ih => simp only [stepN] at ih ⊢; exact ih _

/-- no interrupt is accepted after the next instruction: not asked for, or disabled, or the clock is outside the INT pulse -/
def Quiet (m : Machine μ) (ints : Bool) (cfg : Cfg) (s : St μ) : Prop :=
  ¬ (ints = true ∧ (m.step cfg s).iff ≠ 0 ∧ (m.step cfg s).t % cfg.frame_duration < cfg.int_active)

theorem iter_quiet (m : Machine μ) (ints : Bool) (cfg : Cfg) (s : St μ) (h : Quiet m ints cfg s) :
    iter m ints cfg s = m.step cfg s := by
  unfold iter; unfold Quiet at h; simp only [h, if_false]

/-- **the loop is a run of instructions**: if the first `k ≥ 1` passes accept no interrupt, PC differs from `stop` after each
of the first `k - 1` instructions and equals it after the `k`-th, the loop (with fuel for `k` passes) ends in exactly the
state of `k` consecutive instructions -/
theorem loop_eq_stepN (m : Machine μ) (ints : Bool) (cfg : Cfg) (stop : Int) (k : Nat) (fuel : Nat) (s : St μ) (hk : k < fuel)
    (hq : ∀ j, j ≤ k → Quiet m ints cfg (stepN m cfg j s))
    (hne : ∀ j, 0 < j → j ≤ k → (stepN m cfg j s).pc ≠ stop)
    (hstop : (stepN m cfg (k + 1) s).pc = stop) :
    loop m ints cfg stop fuel s = (stepN m cfg (k + 1) s, true) := by
  induction k generalizing fuel s with
  | zero =>
    obtain ⟨n, rfl⟩ : ∃ n, fuel = n + 1 := ⟨fuel - 1, by omega⟩
    have e := iter_quiet m ints cfg s (hq 0 (Nat.le_refl 0))
    simp only [stepN] at hstop ⊢
    rw [loop_stop _ _ _ _ _ _ (by rw [e]; exact hstop), e]
  | succ k ih =>
    obtain ⟨n, rfl⟩ : ∃ n, fuel = n + 1 := ⟨fuel - 1, by omega⟩
    have e := iter_quiet m ints cfg s (hq 0 (Nat.zero_le _))
    have h1 : (iter m ints cfg s).pc ≠ stop := by rw [e]; exact hne 1 (by omega) (by omega)
    rw [loop_go _ _ _ _ _ _ h1, e]
    exact ih n (m.step cfg s) (by omega) (fun j hj => hq (j + 1) (by omega)) (fun j h0 hj => hne (j + 1) (by omega) (by omega)) hstop

/-- … and if the stop address is not reached within the fuel, the loop (not finished) is at the state of `fuel` instructions -/
theorem loop_eq_stepN_fuel (m : Machine μ) (ints : Bool) (cfg : Cfg) (stop : Int) (fuel : Nat) (s : St μ)
    (hq : ∀ j, j < fuel → Quiet m ints cfg (stepN m cfg j s))
    (hne : ∀ j, 0 < j → j ≤ fuel → (stepN m cfg j s).pc ≠ stop) :
    loop m ints cfg stop fuel s = (stepN m cfg fuel s, false) := by
  induction fuel generalizing s with
  | zero => rfl
  | succ n ih =>
    have e := iter_quiet m ints cfg s (hq 0 (by omega))
    have h1 : (iter m ints cfg s).pc ≠ stop := by rw [e]; exact hne 1 (by omega) (by omega)
    rw [loop_go _ _ _ _ _ _ h1, e]
    exact ih (m.step cfg s) (fun j hj => hq (j + 1) (by omega)) (fun j h0 hj => hne (j + 1) (by omega) (by omega))

theorem quiet_of_no_ints (m : Machine μ) (cfg : Cfg) (s : St μ) : Quiet m false cfg s := by
  unfold Quiet; simp

/-- the hand model of `accept_interrupt` used by C10 (`TraceLoop`) and the one used by C20 (`Rzx`) are the same function -/
theorem traceLoop_accept_eq_rzx (cmio : Bool) (s : St μ) (p : Int) :
    (TraceLoop.acceptInterrupt cmio s p).1 = Rzx.acceptInterrupt cmio p s := by
  unfold TraceLoop.acceptInterrupt TraceLoop.intBlocked TraceLoop.intAccepted Rzx.acceptInterrupt
  simp only [Rzx.r1_eq]
  by_cases hb : mget s.mem p = 251 ∨ (mget s.mem p = 221 ∨ mget s.mem p = 253) ∧ p = (s.pc - 1) % 65536
  · simp only [hb, if_true]
  · simp only [hb, if_false]
    by_cases him : s.im = 2 <;> simp only [him, if_true, if_false]

theorem rinv_accept [CellMem μ] (cmio : Bool) (s : St μ) (p : Int) (h : RInv s) :
    RInv (TraceLoop.acceptInterrupt cmio s p).1 := by
  rw [traceLoop_accept_eq_rzx]; exact Rzx.rinv_acceptInterrupt cmio p s h

theorem accept_t (cmio : Bool) (s : St μ) (p : Int) :
    s.t ≤ (TraceLoop.acceptInterrupt cmio s p).1.t ∧ (TraceLoop.acceptInterrupt cmio s p).1.t ≤ s.t + 19 := by
  unfold TraceLoop.acceptInterrupt
  split
  · simp only; omega
  · simp only [TraceLoop.intAccepted]
    split <;> omega

end RunLoop
