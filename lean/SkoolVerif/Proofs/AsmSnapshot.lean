import SkoolVerif.Proofs.AsmLayoutAsm
/-! The macro-visible snapshot of the parser (`parPokes`) on fixed-layout files (C04). -/
namespace AsmLayout
open Spec

variable {Op : Type} (size : Op → Nat)

theorem specItemFixed_spec (s s' : St Op) (i : Item Op) (h : specItemFixed size s i = some s') :
    specItem size s i = some s' := by
  cases i with
  | org v => exact h
  | remove lo hi => exact h
  | line l =>
    simp only [specItemFixed] at h
    split at h
    · exact h
    · simp at h

theorem specItemsFixed_spec (is : List (Item Op)) : ∀ (s s' : St Op),
    specItemsFixed size s is = some s' → specItems size s is = some s' := by
  induction is with
  | nil => intro s s' h; exact h
  | cons i is ih =>
    intro s s' h
    simp only [specItemsFixed] at h
    split at h
    · simp at h
    · rename_i s1 h1
      simp only [specItems, specItemFixed_spec size s s1 i h1]
      exact ih s1 s' h

theorem specBlocksFixed_spec (bs : List (Block Op)) : ∀ (s s' : St Op),
    specBlocksFixed size s bs = some s' → specBlocks size s bs = some s' := by
  induction bs with
  | nil => intro s s' h; exact h
  | cons b bs ih =>
    intro s s' h
    simp only [specBlocksFixed] at h
    split at h
    · simp at h
    · rename_i s1 h1
      simp only [specBlocks, specItemsFixed_spec size b _ s1 h1]
      exact ih s1 s' h

/-- The single-element chain of a plain line. -/
theorem specChain_single (pc : Nat) (cur : Option Nat) (first : Bool) (removed : List Nat) (out : List (Nat × Op))
    (ow : Bool) (o : Op) (pc' : Nat) (removed' : List Nat) (out' : List (Nat × Op))
    (h : specChain size pc cur first removed out [(ow, o)] = some (pc', removed', out')) :
    out' = out ++ [(pc, o)] := by
  simp only [specChain] at h
  by_cases hz : size o = 0
  · simp [hz] at h
  · simp only [hz, if_false] at h
    cases ow with
    | false => simp only [Bool.false_eq_true, if_false, Option.some.injEq, Prod.mk.injEq] at h; exact h.2.2.symm
    | true =>
      simp only [if_true] at h
      cases cur with
      | none => simp at h
      | some c =>
        simp only at h
        split at h
        · simp at h
        · simp only [Option.some.injEq, Prod.mk.injEq] at h; exact h.2.2.symm

/-- A plain line placed at its own address: the reference places exactly what the parser pokes. -/
theorem pokeLine_spec (removedP : List Nat) (s : St Op) (l : Line Op) (hrem : removedP = s.removed)
    (hg : isRemoved s.removed l.sa = false) (hp : plainLine l = true) (a : Nat) (hsa : l.sa = some a)
    (pc' : Nat) (removed' : List Nat) (out' : List (Nat × Op)) (a1 : Nat)
    (hl : specLine size a s.removed s.out l = some (pc', removed', out', a1)) :
    out' = s.out ++ pokeOf removedP l := by
  subst hrem
  simp only [plainLine, Bool.and_eq_true, decide_eq_true_eq, List.all_eq_true, Bool.not_eq_true'] at hp
  obtain ⟨⟨_, hlen⟩, hall⟩ := hp
  have hpoke1 : ∀ o : Op, pokeAt s.removed l.sa (some o) = [(a, o)] := by
    intro o; rw [hsa] at hg ⊢; simp [pokeAt, hg]
  have hpoke0 : pokeAt s.removed l.sa (none : Option Op) = [] := by
    cases l.sa <;> rfl
  unfold specLine at hl
  cases hsubs : l.subs with
  | nil =>
    simp only [hsubs, List.filter_nil, List.filterMap_nil, List.map_nil, specChain, curOf, restOf] at hl
    have hc : compose ([] : List (SubDir Op)) true = [] := rfl
    simp only [pokeOf, hsubs, List.filter_nil, hc, List.head?_nil, Option.bind_none, Option.none_or]
    cases hop : l.op with
    | none =>
      simp only [hop, Option.some.injEq, Prod.mk.injEq] at hl
      simp [← hl.2.2.1, hpoke0]
    | some o =>
      simp only [hop] at hl
      rw [hpoke1]
      split at hl
      · simp at hl
      · rename_i pc2 removed2 out2 hr2
        simp only [Option.some.injEq, Prod.mk.injEq] at hl
        obtain ⟨_, _, rfl, _⟩ := hl
        exact specChain_single size _ _ _ _ _ _ _ _ _ _ hr2
  | cons s0 r0 =>
    have hr0 : r0 = [] := by
      rw [hsubs] at hlen
      simp only [List.length_cons] at hlen
      exact List.length_eq_zero_iff.mp (by omega)
    subst hr0
    have h0 := hall s0 (by simp [hsubs])
    obtain ⟨hpre, happ⟩ := h0
    have hf1 : [s0].filter (fun s => s.flags.prepend) = [] := by simp [hpre]
    have hf2 : [s0].filter (fun s => !s.flags.prepend) = [s0] := by simp [hpre]
    simp only [hsubs, hf1, hf2, List.filterMap_nil, List.map_nil, specChain] at hl
    have hrest : restOf [s0] = [] := by simp [restOf, happ]
    obtain ⟨hd, hcomp, _, hd2⟩ := compose_after_shape l.op s0 []
    simp only [pokeOf, hsubs, hf2, hcomp, List.head?_cons, Option.bind_some, hd2]
    rw [hrest] at hl
    cases hc2 : (curOf l.op [s0]).2 with
    | none =>
      simp only [hc2, specChain, Option.some.injEq, Prod.mk.injEq] at hl
      simp [← hl.2.2.1, hpoke0]
    | some o =>
      simp only [hc2] at hl
      rw [hpoke1]
      split at hl
      · simp at hl
      · rename_i pc2 removed2 out2 hr2
        simp only [Option.some.injEq, Prod.mk.injEq] at hl
        obtain ⟨_, _, rfl, _⟩ := hl
        exact specChain_single size _ _ _ _ _ _ _ _ _ _ hr2

theorem pokeAt_removed (removed : List Nat) (sa : Option Nat) (o : Option Op) (h : isRemoved removed sa = true) :
    pokeAt removed sa o = [] := by
  cases sa with
  | none => rfl
  | some a => cases o <;> simp [pokeAt, h]

theorem pokeOf_removed (removed : List Nat) (l : Line Op) (h : isRemoved removed l.sa = true) :
    pokeOf removed l = [] := pokeAt_removed _ _ _ h

theorem pokeItems_spec (pc0 : Option Nat) (out0 : List (Nat × Op)) (is : List (Item Op)) :
    ∀ (p : ParSt Op) (s s' : St Op), ParRel size pc0 out0 p s → specItemsFixed size s is = some s' →
    ∃ p', pokeItems size p s.out is = .ok (p', s'.out) ∧ ParRel size pc0 out0 p' s' := by
  induction is with
  | nil =>
    intro p s s' hr h
    simp only [specItemsFixed, Option.some.injEq] at h
    subst h
    exact ⟨p, rfl, hr⟩
  | cons i is ih =>
    intro p s s' hr h
    simp only [specItemsFixed] at h
    split at h
    · simp at h
    · rename_i s1 h1
      have h1' := specItemFixed_spec size s s1 i h1
      obtain ⟨p1, hp1, hr1⟩ := parItem_spec size pc0 out0 p s s1 i hr h1'
      obtain ⟨p', hp', hr'⟩ := ih p1 s1 s' hr1 h
      refine ⟨p', ?_, hr'⟩
      simp only [pokeItems, hp1]
      have hacc : accPoke s.out p.removed i = s1.out := by
        cases i with
        | org v =>
          simp only [specItem] at h1'
          split at h1'
          · simp at h1'
          · simp only [Option.some.injEq] at h1'; subst h1'; rfl
        | remove lo hi =>
          simp only [specItem, Option.some.injEq] at h1'; subst h1'; rfl
        | line l =>
          simp only [accPoke]
          cases hg : isRemoved s.removed l.sa with
          | true =>
            simp only [specItem, hg, if_true] at h1'
            split at h1'
            · simp only [Option.some.injEq] at h1'
              subst h1'
              rw [pokeOf_removed p.removed l (by rw [hr.removed]; exact hg)]
              simp
            · simp at h1'
          | false =>
            simp only [specItemFixed, hg, Bool.false_or] at h1
            split at h1
            · rename_i hguard
              simp only [Bool.and_eq_true, beq_iff_eq] at hguard
              obtain ⟨hplain, hstart⟩ := hguard
              simp only [specItem, hg, Bool.false_eq_true, if_false] at h1'
              split at h1'
              · simp at h1'
              · rename_i a ha
                split at h1'
                · simp at h1'
                · rename_i pc' removed' out' a1 hl
                  simp only [Option.some.injEq] at h1'
                  subst h1'
                  simp only
                  exact (pokeLine_spec size p.removed s l hr.removed hg hplain a (by rw [← hstart, ha])
                    pc' removed' out' a1 hl).symm
            · simp at h1
      rw [hacc]
      exact hp'

theorem pokeBlocks_spec (bs : List (Block Op)) : ∀ (s s' : St Op),
    specBlocksFixed size s bs = some s' → pokeBlocks size s.porg s.out bs = .ok s'.out := by
  induction bs with
  | nil =>
    intro s s' h
    simp only [specBlocksFixed, Option.some.injEq] at h
    subst h
    rfl
  | cons b bs ih =>
    intro s s' h
    simp only [specBlocksFixed] at h
    split at h
    · simp at h
    · rename_i s1 h1
      have hr0 : ParRel size s.pc s.out { removed := [], entry := [], org := s.porg }
          { s with removed := [], started := false } := ⟨rfl, rfl, rfl, by simp, rfl⟩
      obtain ⟨p1, hp1, hr1⟩ := pokeItems_spec size s.pc s.out b _ _ s1 hr0 h1
      have := ih s1 s' h
      rw [← hr1.org] at this
      simp only [pokeBlocks]
      simp only at hp1
      rw [hp1]
      exact this

end AsmLayout
