import SkoolVerif.Proofs.ScanPackLemmas
import SkoolVerif.Proofs.ZxTileLemmas
/-! One pixel row of a tile row: `rowPixels`, slicing `[c0:c1]` and `[p0:p1]` (C15). -/
set_option linter.unusedSimpArgs false
namespace PngScan
open ZxTile ZxSpec

/-- A tile whose graphic and mask data are eight bytes each. -/
def WfUdg (u : Udg) : Prop := WfTile u.data ∧ ∀ m, u.mask = some m → WfTile m

def udg0 : Udg := { attr := 0, data := [] }

theorem getD_lt_of_all {l : List Nat} {B : Nat} (hB : 0 < B) (h : ∀ b ∈ l, b < B) (i : Nat) : l.getD i 0 < B := by
  rw [List.getD_eq_getElem?_getD]
  cases hh : l[i]? with
  | none => simpa using hB
  | some v => simpa using h v (List.mem_of_getElem? hh)

theorem data_byte_lt {u : Udg} (hu : WfUdg u) (k : Nat) : u.data.getD k 0 < 256 :=
  getD_lt_of_all (by decide) hu.1.2 k

theorem mask_byte_lt {u : Udg} (hu : WfUdg u) (k : Nat) : maskByteOf u k < 256 := by
  unfold maskByteOf Udg.maskRows
  cases hm : u.mask with
  | none => simpa using data_byte_lt hu k
  | some m =>
    cases m with
    | nil => simpa using data_byte_lt hu k
    | cons b t => simpa using getD_lt_of_all (by decide) (hu.2 _ hm).2 k

/-- The palette index the generic builder emits for source pixel column `X`
(unscaled) of pixel row `k` of a tile row. -/
def rowSrc (c : Ctx) (row : List Udg) (k X : Nat) : Nat :=
  let u := row.getD (X / 8) udg0
  let pi := (c.attrs u.attr).getD (0, 0)
  (rule c.mask.toNat (colBit (u.data.getD k 0) (X % 8)) (colBit (maskByteOf u k) (X % 8))).pick pi.1 pi.2 0

theorem udgPixels_length (c : Ctx) (k : Nat) (u : Udg) (hu : WfUdg u) :
    (expand c.scale (applyMask c.mask u k ((c.attrs u.attr).getD (0, 0)).1 ((c.attrs u.attr).getD (0, 0)).2 0)).length
      = 8 * c.scale := by
  rw [expand_length, applyMask_length _ _ _ _ _ _ (data_byte_lt hu k) (mask_byte_lt hu k)]

theorem rowPixels_length (c : Ctx) (row : List Udg) (k : Nat) (hrow : ∀ u ∈ row, WfUdg u) :
    (rowPixels c row k).length = row.length * (8 * c.scale) := by
  unfold rowPixels
  exact flatMap_length_const _ _ row (fun u hu => udgPixels_length c k u (hrow u hu))

theorem getD_mem_or_default {α : Type} (l : List α) (i : Nat) (d : α) (h : i < l.length) : l.getD i d ∈ l := by
  rw [List.getD_eq_getElem?_getD, List.getElem?_eq_getElem h]; simp

/-- Pixel `X'` (scaled coordinates within the tile row) of `pixel_rows[k]`. -/
theorem rowPixels_getD (c : Ctx) (row : List Udg) (k : Nat) (hs : 0 < c.scale) (hrow : ∀ u ∈ row, WfUdg u)
    (X' : Nat) (hX : X' < row.length * (8 * c.scale)) :
    (rowPixels c row k).getD X' 0 = rowSrc c row k (X' / c.scale) := by
  unfold rowPixels
  rw [flatMap_getD_const _ (8 * c.scale) row X' 0 udg0 (by omega)
    (fun u hu => udgPixels_length c k u (hrow u hu)) hX]
  have hidx : X' / (8 * c.scale) < row.length := by
    rw [Nat.div_lt_iff_lt_mul (by omega)]; exact hX
  have hu : WfUdg (row.getD (X' / (8 * c.scale)) udg0) := hrow _ (getD_mem_or_default _ _ _ hidx)
  have hmod : X' % (8 * c.scale) < 8 * c.scale := Nat.mod_lt _ (by omega)
  rw [expand_getD _ _ _ _ hs (by
    rw [applyMask_length _ _ _ _ _ _ (data_byte_lt hu k) (mask_byte_lt hu k)]; exact hmod)]
  rw [applyMask_eq_rule _ _ _ _ _ _ (data_byte_lt hu k) (mask_byte_lt hu k)]
  have hcol : X' % (8 * c.scale) / c.scale < 8 := by
    rw [Nat.div_lt_iff_lt_mul hs]; exact hmod
  rw [getD_map_of_lt _ _ _ 0 0 (by simpa using hcol)]
  have e1 : X' / c.scale / 8 = X' / (8 * c.scale) := by
    rw [Nat.div_div_eq_div_mul, Nat.mul_comm]
  have e2 : X' / c.scale % 8 = X' % (8 * c.scale) / c.scale := by
    rw [Nat.mul_comm 8 c.scale, Nat.mod_mul_right_div_self]
  simp only [rowSrc, e1, e2]
  congr 2 <;> simp [List.getD_eq_getElem?_getD, List.getElem?_range hcol]

theorem rowPixels_lt (c : Ctx) (row : List Udg) (k : Nat) (hrow : ∀ u ∈ row, WfUdg u)
    (hattr : ∀ u ∈ row, ∃ p i, c.attrs u.attr = some (p, i) ∧ p < 2 ^ c.bitDepth ∧ i < 2 ^ c.bitDepth) :
    ∀ v ∈ rowPixels c row k, v < 2 ^ c.bitDepth := by
  intro v hv
  unfold rowPixels expand at hv
  simp only [List.mem_flatMap, List.mem_replicate] at hv
  obtain ⟨u, hu, w, hw, -, rfl⟩ := hv
  obtain ⟨p, i, ha, hp, hi⟩ := hattr u hu
  rw [applyMask_eq_rule _ _ _ _ _ _ (data_byte_lt (hrow u hu) k) (mask_byte_lt (hrow u hu) k)] at hw
  simp only [List.mem_map, ha, Option.getD_some] at hw
  obtain ⟨cc, -, rfl⟩ := hw
  generalize rule c.mask.toNat _ _ = r
  cases r <;> simp [Pix.pick, hp, hi, Nat.pow_pos]

theorem div_mod_facts (a n : Nat) (hn : 0 < n) : a / n * n ≤ a ∧ a < a / n * n + n ∧ a / n * n + a % n = a := by
  have h1 := Nat.div_add_mod a n
  have h2 := Nat.mod_lt a hn
  rw [Nat.mul_comm] at h1
  omega

/-- `row[c0:c1]` followed by `[p0:p1]` selects scaled pixels `x0 .. x0+width-1` of the tile row. -/
theorem crop_sliced (c : Ctx) (row : List Udg) (k : Nat) (hs : 0 < c.scale) (hrow : ∀ u ∈ row, WfUdg u)
    (hfit : c.x0 + c.width ≤ row.length * (8 * c.scale)) :
    let sliced := (row.drop (c.x0 / (8 * c.scale))).take ((c.x0 + c.width) / (8 * c.scale) + 1 - c.x0 / (8 * c.scale))
    c.x0 % (8 * c.scale) + c.width ≤ (rowPixels c sliced k).length ∧
      ∀ x, x < c.width → (cropRow c (rowPixels c sliced k)).getD x 0 = rowSrc c row k ((c.x0 + x) / c.scale) := by
  intro sliced
  have hinc : 0 < 8 * c.scale := by omega
  generalize hI : 8 * c.scale = inc at *
  obtain ⟨a1, a2, a3⟩ := div_mod_facts c.x0 inc hinc
  obtain ⟨b1, b2, -⟩ := div_mod_facts (c.x0 + c.width) inc hinc
  have hle : c.x0 / inc ≤ (c.x0 + c.width) / inc := Nat.div_le_div_right (by omega)
  have hm : ((c.x0 + c.width) / inc + 1 - c.x0 / inc) * inc
      = (c.x0 + c.width) / inc * inc + inc - c.x0 / inc * inc := by
    rw [Nat.sub_mul, Nat.add_mul]; omega
  have hle' : c.x0 / inc * inc ≤ (c.x0 + c.width) / inc * inc := Nat.mul_le_mul_right _ hle
  have hP : rowPixels c sliced k =
      ((rowPixels c row k).drop (c.x0 / inc * inc)).take (((c.x0 + c.width) / inc + 1 - c.x0 / inc) * inc) := by
    have hw : ∀ u ∈ row, (expand c.scale (applyMask c.mask u k ((c.attrs u.attr).getD (0, 0)).1
        ((c.attrs u.attr).getD (0, 0)).2 0)).length = inc := fun u hu => by
      rw [← hI]; exact udgPixels_length c k u (hrow u hu)
    unfold rowPixels
    rw [flatMap_take_const _ inc _ _ (fun u hu => hw u (List.mem_of_mem_drop hu)),
      flatMap_drop_const _ inc _ _ hw]
    rw [← hI]
  have hlen := rowPixels_length c row k hrow
  rw [hI] at hlen
  refine ⟨?_, ?_⟩
  · rw [hP, List.length_take, List.length_drop, hlen, hm]; omega
  · intro x hx
    rw [cropRow_getD c _ x hx, hI, hP, getD_take _ _ _ _ (by rw [hm]; omega), getD_drop]
    have e : c.x0 / inc * inc + (c.x0 % inc + x) = c.x0 + x := by omega
    rw [e, rowPixels_getD c row k hs hrow (c.x0 + x) (by rw [hI]; omega)]

end PngScan
