import SkoolVerif.Proofs.AccelWalkSound
/-! Concrete states used by the `example`s of `Props/C13.lean` (hypotheses are satisfiable). -/
open Z80 Sim LoadTape AccelWalk LoadAccel
namespace C13

/-- a memory given by a function (keeps the kernel evaluation of the examples cheap) -/
structure FnMem where
  f : Int → Int

instance : MemLike FnMem where
  get m a := m.f a
  set m a v := ⟨fun b => if b = a then v else m.f b⟩
  portOut m _ _ := m
  o7ffd _ := 0
  is128 _ := false

/-- `DEC A: JR NZ,$-1` at 0x8000, A = 3, carry set, R = 0xFE -/
def exState : St FnMem :=
  { reg := #[3, 0x45, 0, 0, 0, 0, 0, 0, 0, 0, 0, 0, 0xFF00, 0, 0, 0xFE, 0, 0, 0, 0, 0, 0, 0, 0],
    mem := ⟨fun a => if a = 0x8000 then 0x3D else if a = 0x8001 then 0x20 else if a = 0x8002 then 0xFD else 0⟩,
    pc := 0x8000, t := 1000, iff := 0, im := 1, halt := 0, memptr := 0, ins := [], outs := [], inLog := [] }

/-- the ROM-style loop (signature of 'rom' with `LD A,$7F`) at 0x8000, at its `IN`, B = 100, no edge
(C bit 5 = EAR level read), tracer input 0xFF -/
def romSig : Array (Option Int) :=
  #[some 0x04, some 0xC8, some 0x3E, none, some 0xDB, some 0xFE, some 0x1F, some 0xD0, some 0xA9, some 0xE6, some 0x20, some 0x28, some 0xF3]
def romBytes : List Int := [0x04, 0xC8, 0x3E, 0x7F, 0xDB, 0xFE, 0x1F, 0xD0, 0xA9, 0xE6, 0x20, 0x28, 0xF3]
def exLoop : St FnMem :=
  { reg := #[0, 0, 100, 0x20, 0, 0, 0, 0, 0, 0, 0, 0, 0xFF00, 0, 0, 5, 0, 0, 0, 0, 0, 0, 0, 0],
    mem := ⟨fun a => if 0x8000 ≤ a ∧ a < 0x800D then romBytes.getD (a - 0x8000).toNat 0 else 0⟩,
    pc := 0x8004, t := 1000, iff := 0, im := 1, halt := 0, memptr := 0, ins := [0xFF, 0xFF], outs := [], inLog := [] }

/-- a placeholder entry (only used as the default of `getD` in an example) -/
def exAccel : Accel :=
  { name := "", code := [], c0 := 0, c1 := 0, counter := 2, inc := 1, loopTime := 1, loopRInc := 0, ear := 3, earMask := 0, polarity := 0 }

end C13
