import SkoolVerif.Proofs.SimStep
/-!
Single-instruction lemmas for symbolic execution in the generated plain-simulator model
(`Gen/SimHandlers.lean`): for each opcode the loaders of bin2tap (and the ROM's SA/LD-RET
epilogue) use, `Sim.step` on a state whose memory holds that opcode at PC is an explicit state.
Every lemma is proved by unfolding `step` through the *generated* dispatch tables and handlers
(`sim_handler` simp set), so a change of the closure in simulator.py or of a table slot breaks it.
-/
open Z80 Sim

namespace LoaderSteps

/-! ### dispatch-table slots (kernel-evaluated on the generated arrays) -/
theorem m01 : OpTbl.get .MAIN 0x01 = .ld_rr_nn .R1 10 3 2 3 := by decide +kernel
theorem m11 : OpTbl.get .MAIN 0x11 = .ld_rr_nn .R1 10 3 4 5 := by decide +kernel
theorem m21 : OpTbl.get .MAIN 0x21 = .ld_rr_nn .R1 10 3 6 7 := by decide +kernel
theorem m31 : OpTbl.get .MAIN 0x31 = .ld_rr_nn .R1 10 3 13 12 := by decide +kernel
theorem m37 : OpTbl.get .MAIN 0x37 = .cf .SCF := by decide +kernel
theorem m9F : OpTbl.get .MAIN 0x9F = .fc_r .R1 4 1 .SBC_A_A 0 := by decide +kernel
theorem mC5 : OpTbl.get .MAIN 0xC5 = .push .R1 11 1 2 3 := by decide +kernel
theorem mE5 : OpTbl.get .MAIN 0xE5 = .push .R1 11 1 6 7 := by decide +kernel
theorem mF5 : OpTbl.get .MAIN 0xF5 = .push .R1 11 1 0 1 := by decide +kernel
theorem mE1 : OpTbl.get .MAIN 0xE1 = .pop .R1 10 1 6 7 := by decide +kernel
theorem mF1 : OpTbl.get .MAIN 0xF1 = .pop .R1 10 1 0 1 := by decide +kernel
theorem mC3 : OpTbl.get .MAIN 0xC3 = .jp 0 0 := by decide +kernel
theorem mC2 : OpTbl.get .MAIN 0xC2 = .jp 64 0 := by decide +kernel
theorem mC9 : OpTbl.get .MAIN 0xC9 = .ret 0 0 := by decide +kernel
theorem mCD : OpTbl.get .MAIN 0xCD = .call 0 0 := by decide +kernel
theorem m18 : OpTbl.get .MAIN 0x18 = .jr 0 0 := by decide +kernel
theorem m38 : OpTbl.get .MAIN 0x38 = .jr 1 1 := by decide +kernel
theorem m23 : OpTbl.get .MAIN 0x23 = .inc_dec_rr .R1 6 1 1 6 7 := by decide +kernel
theorem m7E : OpTbl.get .MAIN 0x7E = .ld_r_rr 0 6 7 := by decide +kernel
theorem mE6 : OpTbl.get .MAIN 0xE6 = .af_n .AND := by decide +kernel
theorem mF3 : OpTbl.get .MAIN 0xF3 = .di_ei 0 := by decide +kernel
theorem mFB : OpTbl.get .MAIN 0xFB = .di_ei 1 := by decide +kernel
theorem m32 : OpTbl.get .MAIN 0x32 = .ld_m_a := by decide +kernel
theorem m3A : OpTbl.get .MAIN 0x3A = .ld_a_m := by decide +kernel
theorem m3E : OpTbl.get .MAIN 0x3E = .ld_r_n .R1 7 2 0 := by decide +kernel
theorem m0F : OpTbl.get .MAIN 0x0F = .af_r .R1 4 1 .RRCA 1 := by decide +kernel
theorem m1F : OpTbl.get .MAIN 0x1F = .af_r .R1 4 1 .RRA 1 := by decide +kernel
theorem mD3 : OpTbl.get .MAIN 0xD3 = .out_a := by decide +kernel
theorem mDB : OpTbl.get .MAIN 0xDB = .in_a := by decide +kernel
theorem mDD : OpTbl.get .MAIN 0xDD = .prefix_ .DD := by decide +kernel
theorem mED : OpTbl.get .MAIN 0xED = .prefix_ .ED := by decide +kernel
theorem mCB : OpTbl.get .MAIN 0xCB = .prefix_ .CB := by decide +kernel
theorem dd21 : OpTbl.get .DD 0x21 = .ld_rr_nn .R2 14 4 8 9 := by decide +kernel
theorem ed79 : OpTbl.get .ED 0x79 = .out_c 0 := by decide +kernel
theorem cb7E : OpTbl.get .CB 0x7E = .bit_hl .BIT 7 := by decide +kernel

variable {μ : Type} [MemLike μ]

theorem a32 (x : Int) : x + 3 - 2 = x + 1 := by omega
theorem a31 (x : Int) : x + 3 - 1 = x + 2 := by omega
theorem a42 (x : Int) : x + 4 - 2 = x + 2 := by omega
theorem a41 (x : Int) : x + 4 - 1 = x + 3 := by omega
theorem a21 (x : Int) : x + 2 - 1 = x + 1 := by omega
theorem a111 (x : Int) : x + 1 + 1 = x + 2 := by omega
theorem a112 (x : Int) : x + 1 + 2 = x + 3 := by omega

theorem land_zero (x : Int) : PyInt.land x 0 = 0 := by
  cases x <;> simp [PyInt.land]

theorem emod_small (x : Int) (h0 : 0 ≤ x) (h1 : x < 65536) : x % 65536 = x := Int.emod_eq_of_lt h0 h1

theorem rget_rset_ne (r : Array Int) (i j v : Int) (h : i ≠ j) : rget (rset r i v) j = rget r j := by
  rw [rget_rset]; simp [h]

theorem rget_rset_eq (r : Array Int) (i v : Int) (h0 : 0 ≤ i) (h1 : i < r.size) : rget (rset r i v) i = v := by
  rw [rget_rset]; simp [h0, h1]

/-- the register file after an M1 cycle (`R` incremented, bit 7 kept) -/
abbrev r1 (r : Array Int) : Array Int := rset r 15 (Tbl.R1 (rget r 15))
/-- … after two M1 cycles (prefixed opcodes) -/
abbrev r2 (r : Array Int) : Array Int := rset r 15 (Tbl.R2 (rget r 15))

open Lean.Parser.Tactic in
syntax "step_tac" "[" (simpStar <|> simpErase <|> simpLemma),* "]" : tactic
macro_rules
  | `(tactic| step_tac [$ts,*]) =>
    `(tactic| (simp only [step, $ts,*, exec, exec2, execLeaf, sim_handler, Id.run, pure];
               try simp [TblI1.get, TblI2.get, TblI3.get, TblP2.get, a32, a31, a42, a41, a21, a111, a112, land_zero]))

/-! ### 16-bit loads -/

theorem step_ld_bc_nn (cfg : Cfg) (s : St μ) (h : mget s.mem s.pc = 0x01) :
    step cfg s = { s with
      reg := r1 (rset (rset s.reg 3 (mget s.mem ((s.pc + 1) % 65536))) 2 (mget s.mem ((s.pc + 2) % 65536))),
      pc := (s.pc + 3) % 65536, t := s.t + 10 } := by
  step_tac [h, m01]

theorem step_ld_de_nn (cfg : Cfg) (s : St μ) (h : mget s.mem s.pc = 0x11) :
    step cfg s = { s with
      reg := r1 (rset (rset s.reg 5 (mget s.mem ((s.pc + 1) % 65536))) 4 (mget s.mem ((s.pc + 2) % 65536))),
      pc := (s.pc + 3) % 65536, t := s.t + 10 } := by
  step_tac [h, m11]

theorem step_ld_hl_nn (cfg : Cfg) (s : St μ) (h : mget s.mem s.pc = 0x21) :
    step cfg s = { s with
      reg := r1 (rset (rset s.reg 7 (mget s.mem ((s.pc + 1) % 65536))) 6 (mget s.mem ((s.pc + 2) % 65536))),
      pc := (s.pc + 3) % 65536, t := s.t + 10 } := by
  step_tac [h, m21]

theorem step_ld_sp_nn (cfg : Cfg) (s : St μ) (h : mget s.mem s.pc = 0x31) :
    step cfg s = { s with
      reg := r1 (rset s.reg 12 (mget s.mem ((s.pc + 1) % 65536) + 256 * mget s.mem ((s.pc + 2) % 65536))),
      pc := (s.pc + 3) % 65536, t := s.t + 10 } := by
  step_tac [h, m31]

theorem step_ld_ix_nn (cfg : Cfg) (s : St μ) (h : mget s.mem s.pc = 0xDD)
    (h1 : mget s.mem ((s.pc + 1) % 65536) = 0x21) :
    step cfg s = { s with
      reg := r2 (rset (rset s.reg 9 (mget s.mem ((s.pc + 2) % 65536))) 8 (mget s.mem ((s.pc + 3) % 65536))),
      pc := (s.pc + 4) % 65536, t := s.t + 14 } := by
  step_tac [h, h1, mDD, dd21]

/-! ### flags and accumulator -/

theorem step_scf (cfg : Cfg) (s : St μ) (h : mget s.mem s.pc = 0x37) :
    step cfg s = { s with
      reg := r1 (rset s.reg 1 (Tbl.SCF (rget s.reg 1) (rget s.reg 0))),
      pc := (s.pc + 1) % 65536, t := s.t + 4 } := by
  step_tac [h, m37]

theorem step_sbc_a_a (cfg : Cfg) (s : St μ) (h : mget s.mem s.pc = 0x9F) :
    step cfg s = { s with
      reg := r1 (rset (rset s.reg 0 (Tbl.SBC_A_A (rget s.reg 1 % 2) (rget s.reg 0)).1) 1
                  (Tbl.SBC_A_A (rget s.reg 1 % 2) (rget s.reg 0)).2),
      pc := (s.pc + 1) % 65536, t := s.t + 4 } := by
  step_tac [h, m9F]

theorem step_and_n (cfg : Cfg) (s : St μ) (h : mget s.mem s.pc = 0xE6) :
    step cfg s = { s with
      reg := r1 (rset (rset s.reg 0 (Tbl.AND (rget s.reg 0) (mget s.mem ((s.pc + 1) % 65536))).1) 1
                  (Tbl.AND (rget s.reg 0) (mget s.mem ((s.pc + 1) % 65536))).2),
      pc := (s.pc + 2) % 65536, t := s.t + 7 } := by
  step_tac [h, mE6]

theorem step_rrca (cfg : Cfg) (s : St μ) (h : mget s.mem s.pc = 0x0F) :
    step cfg s = { s with
      reg := r1 (rset (rset s.reg 0 (Tbl.RRCA (rget s.reg 0) (rget s.reg 1)).1) 1
                  (Tbl.RRCA (rget s.reg 0) (rget s.reg 1)).2),
      pc := (s.pc + 1) % 65536, t := s.t + 4 } := by
  step_tac [h, m0F]

theorem step_rra (cfg : Cfg) (s : St μ) (h : mget s.mem s.pc = 0x1F) :
    step cfg s = { s with
      reg := r1 (rset (rset s.reg 0 (Tbl.RRA (rget s.reg 0) (rget s.reg 1)).1) 1
                  (Tbl.RRA (rget s.reg 0) (rget s.reg 1)).2),
      pc := (s.pc + 1) % 65536, t := s.t + 4 } := by
  step_tac [h, m1F]

theorem step_ld_a_n (cfg : Cfg) (s : St μ) (h : mget s.mem s.pc = 0x3E) :
    step cfg s = { s with
      reg := r1 (rset s.reg 0 (mget s.mem ((s.pc + 1) % 65536))),
      pc := (s.pc + 2) % 65536, t := s.t + 7 } := by
  step_tac [h, m3E]

theorem step_ld_a_hl (cfg : Cfg) (s : St μ) (h : mget s.mem s.pc = 0x7E) :
    step cfg s = { s with
      reg := r1 (rset s.reg 0 (mget s.mem (rget s.reg 7 + 256 * rget s.reg 6))),
      pc := (s.pc + 1) % 65536, t := s.t + 7 } := by
  step_tac [h, m7E]

theorem step_ld_a_mm (cfg : Cfg) (s : St μ) (h : mget s.mem s.pc = 0x3A) :
    step cfg s = { s with
      reg := r1 (rset s.reg 0 (mget s.mem (mget s.mem ((s.pc + 1) % 65536) + 256 * mget s.mem ((s.pc + 2) % 65536)))),
      pc := (s.pc + 3) % 65536, t := s.t + 13 } := by
  step_tac [h, m3A]

theorem step_bit7_hl (cfg : Cfg) (s : St μ) (h : mget s.mem s.pc = 0xCB)
    (h1 : mget s.mem ((s.pc + 1) % 65536) = 0x7E) :
    step cfg s = { s with
      reg := r2 (rset s.reg 1 (Tbl.BIT (rget s.reg 1 % 2) 7 (mget s.mem (rget s.reg 7 + 256 * rget s.reg 6)))),
      pc := (s.pc + 2) % 65536, t := s.t + 12 } := by
  step_tac [h, h1, mCB, cb7E]

theorem step_inc_hl (cfg : Cfg) (s : St μ) (h : mget s.mem s.pc = 0x23) :
    step cfg s = { s with
      reg := r1 (rset (rset s.reg 6 (((rget s.reg 7 + 256 * rget s.reg 6 + 1) % 65536) / 256)) 7
                  (((rget s.reg 7 + 256 * rget s.reg 6 + 1) % 65536) % 256)),
      pc := (s.pc + 1) % 65536, t := s.t + 6 } := by
  step_tac [h, m23]

/-! ### interrupts and ports -/

theorem step_di (cfg : Cfg) (s : St μ) (h : mget s.mem s.pc = 0xF3) :
    step cfg s = { s with reg := r1 s.reg, iff := 0, pc := (s.pc + 1) % 65536, t := s.t + 4 } := by
  step_tac [h, mF3]

theorem step_ei (cfg : Cfg) (s : St μ) (h : mget s.mem s.pc = 0xFB) :
    step cfg s = { s with reg := r1 s.reg, iff := 1, pc := (s.pc + 1) % 65536, t := s.t + 4 } := by
  step_tac [h, mFB]

/-- `OUT (C),A` with the tracer's `write_port` attached (tap2sna always attaches it) -/
theorem step_out_c_a (cfg : Cfg) (s : St μ) (hcfg : cfg.out_tracer = true) (h : mget s.mem s.pc = 0xED)
    (h1 : mget s.mem ((s.pc + 1) % 65536) = 0x79) :
    step cfg s = { s with
      reg := r2 s.reg,
      mem := MemLike.portOut s.mem (rget s.reg 3 + 256 * rget s.reg 2) (rget s.reg 0),
      outs := (rget s.reg 3 + 256 * rget s.reg 2, rget s.reg 0) :: s.outs,
      pc := (s.pc + 2) % 65536, t := s.t + 12 } := by
  step_tac [h, h1, mED, ed79, hcfg]

/-- `OUT (n),A` with the tracer's `write_port` attached -/
theorem step_out_n_a (cfg : Cfg) (s : St μ) (hcfg : cfg.out_tracer = true) (h : mget s.mem s.pc = 0xD3) :
    step cfg s = { s with
      reg := r1 s.reg,
      mem := MemLike.portOut s.mem (mget s.mem ((s.pc + 1) % 65536) + 256 * rget s.reg 0) (rget s.reg 0),
      outs := (mget s.mem ((s.pc + 1) % 65536) + 256 * rget s.reg 0, rget s.reg 0) :: s.outs,
      pc := (s.pc + 2) % 65536, t := s.t + 11 } := by
  step_tac [h, mD3, hcfg]

/-- `IN A,(n)` with the tracer's `read_port` attached: the value comes from the input stream -/
theorem step_in_a_n (cfg : Cfg) (s : St μ) (hcfg : cfg.in_a_n_tracer = true) (h : mget s.mem s.pc = 0xDB) :
    step cfg s = { s with
      reg := r1 (rset s.reg 0 (readPort s.ins).1),
      ins := (readPort s.ins).2,
      inLog := (mget s.mem ((s.pc + 1) % 65536) + 256 * rget s.reg 0) :: s.inLog,
      pc := (s.pc + 2) % 65536, t := s.t + 11 } := by
  step_tac [h, mDB, hcfg]

/-! ### stores, stack, jumps (RAM addresses) -/

theorem step_ld_mm_a (cfg : Cfg) (s : St μ) (h : mget s.mem s.pc = 0x32)
    (haddr : 16383 < mget s.mem ((s.pc + 1) % 65536) + 256 * mget s.mem ((s.pc + 2) % 65536)) :
    step cfg s = { s with
      reg := r1 s.reg,
      mem := mset s.mem (mget s.mem ((s.pc + 1) % 65536) + 256 * mget s.mem ((s.pc + 2) % 65536)) (rget s.reg 0),
      pc := (s.pc + 3) % 65536, t := s.t + 13 } := by
  simp only [step, h, m32, exec, exec2, execLeaf, sim_handler, Id.run, pure]
  simp [a111, a112, haddr]

/-- `PUSH rr` (BC, HL, AF) with the two bytes landing in RAM -/
theorem step_push (cfg : Cfg) (s : St μ) (op rh rl : Int) (htbl : OpTbl.get .MAIN op = .push .R1 11 1 rh rl)
    (h : mget s.mem s.pc = op) (hrh : rh ≠ 12) (hrl : rl ≠ 12)
    (hsp : 16386 ≤ rget s.reg 12) (hsp' : rget s.reg 12 < 65536) :
    step cfg s = { s with
      reg := r1 (rset s.reg 12 (rget s.reg 12 - 2)),
      mem := mset (mset s.mem (rget s.reg 12 - 2) (rget s.reg rl)) (rget s.reg 12 - 1) (rget s.reg rh),
      pc := (s.pc + 1) % 65536, t := s.t + 11 } := by
  have e1 : (rget s.reg 12 - 2) % 65536 = rget s.reg 12 - 2 := emod_small _ (by omega) (by omega)
  have e2 : (rget s.reg 12 - 2 + 1) % 65536 = rget s.reg 12 - 1 := by
    rw [emod_small _ (by omega) (by omega)]; omega
  have c1 : 16383 < rget s.reg 12 - 2 := by omega
  have c2 : 16383 < rget s.reg 12 - 1 := by omega
  have n1 : (12 : Int) ≠ rl := fun h => hrl h.symm
  have n2 : (12 : Int) ≠ rh := fun h => hrh h.symm
  simp only [step, h, htbl, exec, exec2, execLeaf, sim_handler, Id.run, pure]
  simp [TblI1.get, e1, e2, c1, c2, rget_rset_ne, n1, n2, r1]

/-- `POP rr` (HL, AF) -/
theorem step_pop (cfg : Cfg) (s : St μ) (op rh rl : Int) (htbl : OpTbl.get .MAIN op = .pop .R1 10 1 rh rl)
    (h : mget s.mem s.pc = op) :
    step cfg s = { s with
      reg := r1 (rset (rset (rset s.reg 12 ((rget s.reg 12 + 2) % 65536)) rl (mget s.mem (rget s.reg 12)))
                  rh (mget s.mem ((rget s.reg 12 + 1) % 65536))),
      pc := (s.pc + 1) % 65536, t := s.t + 10 } := by
  simp only [step, h, htbl, exec, exec2, execLeaf, sim_handler, Id.run, pure]
  simp [TblI1.get, r1]

theorem step_jp (cfg : Cfg) (s : St μ) (h : mget s.mem s.pc = 0xC3) :
    step cfg s = { s with
      reg := r1 s.reg,
      pc := mget s.mem ((s.pc + 1) % 65536) + 256 * mget s.mem ((s.pc + 2) % 65536), t := s.t + 10 } := by
  step_tac [h, mC3]

/-- `JP NZ,nn` -/
theorem step_jp_nz (cfg : Cfg) (s : St μ) (h : mget s.mem s.pc = 0xC2) :
    step cfg s = { s with
      reg := r1 s.reg,
      pc := if PyInt.land (rget s.reg 1) 64 = 0
            then mget s.mem ((s.pc + 1) % 65536) + 256 * mget s.mem ((s.pc + 2) % 65536)
            else (s.pc + 3) % 65536,
      t := s.t + 10 } := by
  simp only [step, h, mC2, exec, exec2, execLeaf, sim_handler, Id.run, pure]
  split <;> simp [r1]

/-- `JR e` (unconditional) -/
theorem step_jr (cfg : Cfg) (s : St μ) (h : mget s.mem s.pc = 0x18) :
    step cfg s = { s with
      reg := r1 s.reg,
      pc := (s.pc + Tbl.JR_OFFSETS (mget s.mem ((s.pc + 1) % 65536))) % 65536, t := s.t + 12 } := by
  step_tac [h, m18]

/-- `JR C,e` -/
theorem step_jr_c (cfg : Cfg) (s : St μ) (h : mget s.mem s.pc = 0x38) :
    step cfg s = { s with
      reg := r1 s.reg,
      pc := if PyInt.land (rget s.reg 1) 1 = 1
            then (s.pc + Tbl.JR_OFFSETS (mget s.mem ((s.pc + 1) % 65536))) % 65536
            else (s.pc + 2) % 65536,
      t := if PyInt.land (rget s.reg 1) 1 = 1 then s.t + 12 else s.t + 7 } := by
  simp only [step, h, m38, exec, exec2, execLeaf, sim_handler, Id.run, pure]
  split <;> simp [r1, *]

/-- `CALL nn` with the return address landing in RAM -/
theorem step_call (cfg : Cfg) (s : St μ) (h : mget s.mem s.pc = 0xCD)
    (hsp : 16386 ≤ rget s.reg 12) (hsp' : rget s.reg 12 < 65536) :
    step cfg s = { s with
      reg := r1 (rset s.reg 12 (rget s.reg 12 - 2)),
      mem := mset (mset s.mem (rget s.reg 12 - 2) (((s.pc + 3) % 65536) % 256)) (rget s.reg 12 - 1)
               (((s.pc + 3) % 65536) / 256),
      pc := mget s.mem ((s.pc + 1) % 65536) + 256 * mget s.mem ((s.pc + 2) % 65536), t := s.t + 17 } := by
  have e1 : (rget s.reg 12 - 2) % 65536 = rget s.reg 12 - 2 := emod_small _ (by omega) (by omega)
  have e2 : (rget s.reg 12 - 2 + 1) % 65536 = rget s.reg 12 - 1 := by
    rw [emod_small _ (by omega) (by omega)]; omega
  have c1 : 16383 < rget s.reg 12 - 2 := by omega
  have c2 : 16383 < rget s.reg 12 - 1 := by omega
  simp only [step, h, mCD, exec, exec2, execLeaf, sim_handler, Id.run, pure]
  simp [e1, e2, c1, c2, r1]

/-- `RET` -/
theorem step_ret (cfg : Cfg) (s : St μ) (h : mget s.mem s.pc = 0xC9) :
    step cfg s = { s with
      reg := r1 (rset s.reg 12 ((rget s.reg 12 + 2) % 65536)),
      pc := mget s.mem (rget s.reg 12) + 256 * mget s.mem ((rget s.reg 12 + 1) % 65536), t := s.t + 10 } := by
  step_tac [h, mC9]

/-! ### memory laws and code placement -/

/-- Lawful RAM: what a Python list of 65536 cells gives (`ok` = the size invariant). -/
class RamMem (μ : Type) [MemLike μ] where
  ok : μ → Prop
  ok_set : ∀ (m : μ) (a v : Int), ok m → ok (mset m a v)
  ok_portOut : ∀ (m : μ) (p v : Int), ok m → ok (MemLike.portOut m p v)
  get_set : ∀ (m : μ) (a v b : Int), ok m → 0 ≤ a → a < 65536 → 0 ≤ b → b < 65536 →
    mget (mset m a v) b = if b = a then v else mget m b
  get_portOut : ∀ (m : μ) (p v b : Int), mget (MemLike.portOut m p v) b = mget m b

/-- the 48K memory of the simulator model (`Prelude/Machine.lean`) with all 65536 cells present -/
instance : RamMem Mem48 where
  ok m := m.cells.size = 65536
  ok_set := by
    intro m a v h
    simp only [mset, MemLike.set]; split <;> simp [h]
  ok_portOut := by intro m p v h; exact h
  get_set := by
    intro m a v b h a0 a1 b0 b1
    simp only [mset, mget, MemLike.set, MemLike.get, a0, if_true]
    by_cases hab : b = a
    · subst hab
      have : b.toNat < m.cells.size := by omega
      simp [Array.getD_eq_getD_getElem?, this]
    · have : a.toNat ≠ b.toNat := by omega
      simp [hab, Array.getD_eq_getD_getElem?, this]
  get_portOut := by intro m p v b; rfl

theorem mget_mset2 [RamMem μ] (m : μ) (hok : RamMem.ok m) (a1 a2 v1 v2 b : Int)
    (h1 : 0 ≤ a1 ∧ a1 < 65536) (h2 : 0 ≤ a2 ∧ a2 < 65536) (hb : 0 ≤ b ∧ b < 65536) :
    mget (mset (mset m a1 v1) a2 v2) b = if b = a2 then v2 else if b = a1 then v1 else mget m b := by
  rw [RamMem.get_set _ _ _ _ (RamMem.ok_set _ _ _ hok) h2.1 h2.2 hb.1 hb.2,
      RamMem.get_set _ _ _ _ hok h1.1 h1.2 hb.1 hb.2]

/-- the bytes `code` are in memory from address `e` on (no wrap-around) -/
def CodeAt (m : μ) (e : Int) (code : List Nat) : Prop :=
  ∀ k : Nat, k < code.length → mget m (e + k) = ((code.getD k 0 : Nat) : Int)

/-! ### flag facts -/

theorem nat_and_even (a b : Nat) (hb : b % 2 = 0) : (a &&& b) % 2 = 0 := by
  have := @Nat.and_mod_two_pow a b 1
  simp only [Nat.pow_one] at this
  rw [this, hb]; simp

theorem land_even (x : Int) (m : Nat) (hm : m % 2 = 0) : PyInt.land x (m : Int) % 2 = 0 := by
  cases x with
  | ofNat a =>
    show ((a &&& m : Nat) : Int) % 2 = 0
    have := nat_and_even a m hm; omega
  | negSucc a =>
    show ((m - (m &&& a) : Nat) : Int) % 2 = 0
    have h1 : (m &&& a) % 2 = 0 := by rw [Nat.and_comm]; exact nat_and_even a m hm
    have h2 : m &&& a ≤ m := Nat.and_le_left
    omega

/-- SCF sets the carry flag, whatever F and A were -/
theorem scf_carry (f a : Int) : Tbl.SCF f a % 2 = 1 := by
  have h1 := land_even f 196 (by decide)
  have h2 := land_even a 40 (by decide)
  simp only [Tbl.SCF]
  have e1 : ((196 : Nat) : Int) = 196 := rfl
  have e2 : ((40 : Nat) : Int) = 40 := rfl
  rw [e1] at h1; rw [e2] at h2
  omega

/-- SBC A,A with carry set: A = 0xFF, F = S,5,H,3,N,C -/
theorem sbc_a_a_carry (a : Int) : Tbl.SBC_A_A 1 a = (255, 187) := by
  simp [Tbl.SBC_A_A]

end LoaderSteps
