import SkoolVerif.Proofs.EdgesLemmas
/-!
State invariants of the `get_edges` loop (all inputs, both data paths).
-/
namespace Edges
open EdgeSpec

/-- `(e', t')` is reachable from `(e, t)` by the primitive operations of the
loop (append an edge at or after the clock, advance the clock, `edges[-1] += d`). -/
def Ext (e : List Int) (t : Int) (e' : List Int) (t' : Int) : Prop :=
  t ≤ t' ∧ e.length ≤ e'.length ∧ (Inv e t → Inv e' t') ∧
    (∀ lo, (∀ x ∈ e, lo ≤ x) → lo ≤ t → ∀ x ∈ e', lo ≤ x)

theorem Ext.refl (e : List Int) (t : Int) : Ext e t e t :=
  ⟨Int.le_refl _, Nat.le_refl _, id, fun _ h _ => h⟩

theorem Ext.trans {e₁ e₂ e₃ : List Int} {t₁ t₂ t₃ : Int}
    (h₁ : Ext e₁ t₁ e₂ t₂) (h₂ : Ext e₂ t₂ e₃ t₃) : Ext e₁ t₁ e₃ t₃ :=
  ⟨Int.le_trans h₁.1 h₂.1, Nat.le_trans h₁.2.1 h₂.2.1, fun h => h₂.2.2.1 (h₁.2.2.1 h),
   fun lo h hl => h₂.2.2.2 lo (h₁.2.2.2 lo h hl) (Int.le_trans hl h₁.1)⟩

theorem Ext.time {e : List Int} {t t' : Int} (h : t ≤ t') : Ext e t e t' :=
  ⟨h, Nat.le_refl _, fun hi => hi.mono h, fun _ h _ => h⟩

theorem Ext.snoc {e : List Int} {t t' : Int} (h : t ≤ t') : Ext e t (e ++ [t']) t' := by
  refine ⟨h, by simp, fun hi => hi.snoc h, ?_⟩
  intro lo hlo hl x hx
  simp at hx
  rcases hx with hx | rfl
  · exact hlo x hx
  · omega

theorem Ext.bump {e : List Int} {t : Int} {d : Int} (hd : 0 ≤ d) : Ext e t (bumpLast d e) (t + d) := by
  refine ⟨by omega, by simp [bumpLast_length], fun hi => hi.bumpLast hd, ?_⟩
  intro lo hlo _ x hx
  rcases bumpLast_mem hx with hx | ⟨y, hy, rfl⟩
  · exact hlo x hx
  · have := hlo y hy; omega

theorem Ext.cumsum (e : List Int) (t : Int) (ds : List Nat) :
    Ext e t (e ++ cumsum t ds) (t + sumN ds) := by
  refine ⟨by have := sumN_nonneg ds; omega, by simp, fun hi => hi.cumsum ds, ?_⟩
  intro lo hlo hl x hx
  simp at hx
  rcases hx with hx | hx
  · exact hlo x hx
  · have := cumsum_ge t ds x hx; omega

theorem Ext.checkPolarity (tp : Option Nat) (pol : Int) (e : List Int) (t : Int) :
    Ext e t (checkPolarity tp pol e t) t := by
  unfold Edges.checkPolarity
  split
  · exact Ext.refl _ _
  · split
    · exact Ext.snoc (Int.le_refl _)
    · exact Ext.refl _ _

theorem Ext.mergeStep (s : MSt) (d : Nat) : Ext s.edges s.t (mergeStep s d).edges (mergeStep s d).t := by
  unfold Edges.mergeStep
  by_cases hd : d = 0
  · simp [hd]; exact Ext.refl _ _
  · by_cases hpq : s.p = s.q
    · simp [hd, hpq]; exact Ext.snoc (by omega)
    · simp [hd, hpq]; exact Ext.bump (by omega)

theorem Ext.mergeFold (ds : List Nat) (s : MSt) :
    Ext s.edges s.t (ds.foldl Edges.mergeStep s).edges (ds.foldl Edges.mergeStep s).t := by
  induction ds generalizing s with
  | nil => exact Ext.refl _ _
  | cons d ds ih => exact (Ext.mergeStep s d).trans (ih _)

theorem Ext.dataEdges (tm : Timings) (data : List Nat) (e : List Int) (t : Int) :
    Ext e t (dataEdges tm data (e, t)).1 (dataEdges tm data (e, t)).2 := by
  unfold Edges.dataEdges
  split
  · exact Ext.mergeFold _ ⟨e, t, 0, 0⟩
  · rw [emit_eq]; exact Ext.cumsum _ _ _

/-! ### Phases -/

theorem pulsePhase_ext (pol : Int) (b : Block) (s : St) :
    Ext s.edges s.t (pulsePhase pol b s).edges (pulsePhase pol b s).t := by
  unfold pulsePhase
  split
  · simp only [emit_eq]
    exact (Ext.checkPolarity _ _ _ _).trans (Ext.cumsum _ _ _)
  · exact Ext.refl _ _

theorem pulsePhase_other (pol : Int) (b : Block) (s : St) :
    (pulsePhase pol b s).tail = s.tail ∧ (pulsePhase pol b s).keys = s.keys ∧
    (pulsePhase pol b s).dbs = s.dbs := by
  unfold pulsePhase; split <;> simp

theorem pausePhase_ext (pol : Int) (l : Bool) (b : Block) (s : St) :
    Ext s.edges s.t (pausePhase pol l b s).edges (pausePhase pol l b s).t := by
  unfold pausePhase
  split
  · show Ext s.edges s.t (Edges.checkPolarity b.timings.polarity pol s.edges s.t) (s.t + ↑b.timings.pause)
    exact (Ext.checkPolarity _ _ _ _).trans (Ext.time (by omega))
  · exact Ext.refl _ _

theorem pausePhase_other (pol : Int) (l : Bool) (b : Block) (s : St) :
    (pausePhase pol l b s).tail = s.tail ∧ (pausePhase pol l b s).keys = s.keys ∧
    (pausePhase pol l b s).dbs = s.dbs := by
  unfold pausePhase; split <;> simp

/-- The part of `dataPhase` that touches `edges`/`tstates`, for truthy data. -/
def dataCore (pol : Int) (tm : Timings) (data : List Nat) (e : List Int) (t : Int) : List Int × Int :=
  let r := dataEdges tm data (Edges.checkPolarity tm.polarity pol e t, t)
  if tm.tail ≠ 0 then (r.1 ++ [r.2 + tm.tail], r.2 + tm.tail) else r

theorem dataCore_ext (pol : Int) (tm : Timings) (data : List Nat) (e : List Int) (t : Int) :
    Ext e t (dataCore pol tm data e t).1 (dataCore pol tm data e t).2 := by
  unfold dataCore
  have h1 := (Ext.checkPolarity tm.polarity pol e t).trans (Ext.dataEdges tm data _ t)
  by_cases ht : tm.tail = 0
  · simpa [ht] using h1
  · simp only [ne_eq, ht, not_false_eq_true, ↓reduceIte]
    exact h1.trans (Ext.snoc (by omega))

theorem dataPhase_edges (pol : Int) (l : Bool) (b : Block) (s : St) (hd : b.data ≠ []) :
    (dataPhase pol l b s).edges = (dataCore pol b.timings b.data s.edges s.t).1 ∧
    (dataPhase pol l b s).t = (dataCore pol b.timings b.data s.edges s.t).2 := by
  unfold dataPhase dataCore
  by_cases ht : b.timings.tail = 0 <;> simp [hd, ht]

theorem dataPhase_edges_nil (pol : Int) (l : Bool) (b : Block) (s : St) (hd : b.data = []) :
    (dataPhase pol l b s).edges = s.edges ∧ (dataPhase pol l b s).t = s.t ∧
    (dataPhase pol l b s).tail = s.tail := by
  unfold dataPhase
  simp only [hd, ne_eq, not_true_eq_false, ↓reduceIte]
  split <;> simp

theorem dataPhase_ext (pol : Int) (l : Bool) (b : Block) (s : St) :
    Ext s.edges s.t (dataPhase pol l b s).edges (dataPhase pol l b s).t := by
  by_cases hd : b.data = []
  · have := dataPhase_edges_nil pol l b s hd
    rw [this.1, this.2.1]; exact Ext.refl _ _
  · have := dataPhase_edges pol l b s hd
    rw [this.1, this.2]; exact dataCore_ext _ _ _ _ _

theorem stepBlock_ext (pol : Int) (l : Bool) (b : Block) (s : St) :
    Ext s.edges s.t (stepBlock pol l b s).edges (stepBlock pol l b s).t := by
  unfold stepBlock
  have h0 : Ext s.edges s.t (setKeys b s).edges (setKeys b s).t := Ext.refl _ _
  exact ((h0.trans (pulsePhase_ext pol b _)).trans (dataPhase_ext pol l b _)).trans (pausePhase_ext pol l b _)

theorem runBlocks_ext (pol : Int) (blocks : List Block) (s : St) :
    Ext s.edges s.t (runBlocks pol blocks s).edges (runBlocks pol blocks s).t := by
  induction blocks generalizing s with
  | nil => exact Ext.refl _ _
  | cons b rest ih =>
    cases rest with
    | nil => exact stepBlock_ext _ _ _ _
    | cons b' rest' =>
      simp only [runBlocks]
      exact (stepBlock_ext pol false b s).trans (ih _)

theorem initSt_inv (fe pol : Int) : Inv (initSt fe pol).edges (initSt fe pol).t := by
  unfold initSt
  by_cases h : pol % 2 = 0
  · simp [h, Inv]
  · simp [h, Inv]

theorem initSt_lo (fe pol : Int) : ∀ x ∈ (initSt fe pol).edges, fe ≤ x := by
  unfold initSt
  by_cases h : pol % 2 = 0 <;> simp [h]

/-! ### The tail sentinel -/

/-- Either no tail pulse has been produced yet (`tail` still holds its initial
value `first_edge - 1`) or at least two edges exist. -/
def TailOk (fe : Int) (s : St) : Prop := s.tail = fe - 1 ∨ 2 ≤ s.edges.length

theorem dataPhase_tailOk (fe pol : Int) (l : Bool) (b : Block) (s : St)
    (hne : s.edges ≠ []) (h : TailOk fe s) : TailOk fe (dataPhase pol l b s) := by
  by_cases hd : b.data = []
  · have := dataPhase_edges_nil pol l b s hd
    unfold TailOk; rw [this.1, this.2.2]; exact h
  · have hlen := (dataPhase_ext pol l b s).2.1
    rcases h with h | h
    · by_cases ht : b.timings.tail = 0
      · left
        unfold dataPhase; simp [hd, ht, h]
      · right
        have h1 := ((Ext.checkPolarity b.timings.polarity pol s.edges s.t).trans
          (Ext.dataEdges b.timings b.data _ s.t)).2.1
        have h0 : 1 ≤ s.edges.length := by
          cases hs : s.edges with
          | nil => exact absurd hs hne
          | cons x xs => simp
        unfold dataPhase; simp [hd, ht]
        omega
    · right; omega

theorem stepBlock_tailOk (fe pol : Int) (l : Bool) (b : Block) (s : St)
    (hne : s.edges ≠ []) (h : TailOk fe s) : TailOk fe (stepBlock pol l b s) := by
  unfold stepBlock
  have hs0 : (setKeys b s).edges = s.edges ∧ (setKeys b s).tail = s.tail := ⟨rfl, rfl⟩
  generalize setKeys b s = s0 at hs0
  have e1 := pulsePhase_ext pol b s0
  have o1 := pulsePhase_other pol b s0
  have t1 : TailOk fe (pulsePhase pol b s0) := by
    unfold TailOk at h ⊢
    rw [o1.1]
    rcases h with h | h
    · left; rw [hs0.2]; exact h
    · right; have := e1.2.1; rw [hs0.1] at this; omega
  have ne1 : (pulsePhase pol b s0).edges ≠ [] := by
    intro hc
    have := e1.2.1
    rw [hc, hs0.1] at this
    simp at this
    exact hne this
  have t2 := dataPhase_tailOk fe pol l b _ ne1 t1
  have e3 := pausePhase_ext pol l b (dataPhase pol l b (pulsePhase pol b s0))
  have o3 := pausePhase_other pol l b (dataPhase pol l b (pulsePhase pol b s0))
  unfold TailOk at t2 ⊢
  rw [o3.1]
  rcases t2 with h | h
  · left; exact h
  · right; have := e3.2.1; omega

theorem ext_ne_nil {e e' : List Int} {t t' : Int} (h : Ext e t e' t') (hne : e ≠ []) : e' ≠ [] := by
  intro hc
  have := h.2.1
  rw [hc] at this
  simp at this
  exact hne this

theorem runBlocks_tailOk (fe pol : Int) (blocks : List Block) (s : St)
    (hne : s.edges ≠ []) (h : TailOk fe s) : TailOk fe (runBlocks pol blocks s) := by
  induction blocks generalizing s with
  | nil => exact h
  | cons b rest ih =>
    cases rest with
    | nil => exact stepBlock_tailOk fe pol true b s hne h
    | cons b' rest' =>
      simp only [runBlocks]
      exact ih _ (ext_ne_nil (stepBlock_ext pol false b s) hne) (stepBlock_tailOk fe pol false b s hne h)

end Edges
