import SkoolVerif.Proofs.SemLoads
import SkoolVerif.Proofs.SemControl
import SkoolVerif.Proofs.SemAlu
import SkoolVerif.Proofs.SemRot
import SkoolVerif.Proofs.SemMisc
import SkoolVerif.Proofs.Sem16
import SkoolVerif.Proofs.SemBlockIO
import SkoolVerif.Proofs.C05Dispatch
import SkoolVerif.Proofs.SimStep
/-!
From the per-closure refinements to one `step`: whatever closure the dispatch tables select
for the bytes at PC (`Sim.leafOf`), running it is running the executable specification on the
instruction the independent decoder finds there (`Spec.step`).
-/
namespace C05
open Z80 Sim Spec Z80Isa Z80Decode TableRanges AluCheck
variable {μ : Type} [MemLike μ] [CellMem μ]

/-- every closure, for every argument tuple that denotes an instruction -/
theorem sem_execLeaf [AdjMem μ] (cfg : Cfg) (i : Sim.Instr) (d : Decoded) (hz : zinstrOf i = some d)
    (hwf : instrWf i = true) (s : St μ) (hi : RInv s) :
    execLeaf cfg i s = Spec.exec cfg d s := by
  cases i <;> simp only [execLeaf]
  case ex_sp => exact sem_ex_sp _ _ _ _ _ _ _ hz _ hi
  case adc_hl => exact sem_adc_hl _ _ _ _ hz _ hi
  case sbc_hl => exact sem_sbc_hl _ _ _ _ hz _ hi
  case add_rr => exact sem_add_rr _ _ _ _ _ _ _ _ _ hz _ hi
  case cpi => exact sem_cpi _ _ _ _ hz _ hi
  case ldi => exact sem_ldi _ _ _ _ hz _ hi
  case ini => exact sem_ini _ _ _ _ _ hz hwf _ hi
  case outi => exact sem_outi _ _ _ _ _ hz hwf _ hi
  case rld => exact sem_rld _ _ _ hz hwf _ hi
  case rrd => exact sem_rrd _ _ _ hz hwf _ hi
  case ld_a_ir => exact sem_ld_a_ir _ _ _ hz _ hi
  case af_hl => exact sem_af_hl _ _ _ hz _ hi
  case af_n => exact sem_af_n _ _ _ hz _ hi
  case af_r => exact sem_af_r _ _ _ _ _ _ _ hz _ hi
  case af_xy => exact sem_af_xy _ _ _ _ _ hz _ hi
  case afc_hl => exact sem_afc_hl _ _ _ hz _ hi
  case afc_n => exact sem_afc_n _ _ _ hz _ hi
  case afc_r => exact sem_afc_r _ _ _ _ _ _ _ hz _ hi
  case afc_xy => exact sem_afc_xy _ _ _ _ _ hz _ hi
  case f_hl => exact sem_f_hl _ _ _ hz _ hi
  case f_r => exact sem_f_r _ _ _ _ hz _ hi
  case f_xy => exact sem_f_xy _ _ _ _ _ _ hz _ hi
  case fc_hl => exact sem_fc_hl _ _ _ _ _ _ hz _ hi
  case fc_r => exact sem_fc_r _ _ _ _ _ _ _ hz _ hi
  case fc_xy => exact sem_fc_xy _ _ _ _ _ _ _ hz _ hi
  case bit_hl => exact sem_bit_hl _ _ _ _ hz _ hi
  case bit_r => exact sem_bit_r _ _ _ _ _ hz _ hi
  case bit_xy => exact sem_bit_xy _ _ _ _ _ _ hz _ hi
  case call => exact sem_call _ _ _ _ hz _ hi
  case cf => exact sem_cf _ _ _ hz _ hi
  case di_ei => exact sem_di_ei _ _ _ hz _ hi
  case djnz => exact sem_djnz _ _ hz _ hi
  case ex_af => exact sem_ex_af _ _ hz _ hi
  case ex_de_hl => exact sem_ex_de_hl _ _ hz _ hi
  case exx => exact sem_exx _ _ hz _ hi
  case halt => exact sem_halt _ _ hz _ hi
  case im => exact sem_im _ _ _ hz _ hi
  case in_a => exact sem_in_a _ _ hz _ hi
  case in_c => exact sem_in_c _ _ _ _ hz hwf _ hi
  case inc_dec_rr => exact sem_inc_dec_rr _ _ _ _ _ _ _ _ hz _ hi
  case jp => exact sem_jp _ _ _ _ hz _ hi
  case jp_rr => exact sem_jp_rr _ _ _ _ _ _ hz _ hi
  case jr => exact sem_jr _ _ _ _ hz _ hi
  case ld_hl_n => exact sem_ld_hl_n _ _ hz _ hi
  case ld_r_n => exact sem_ld_r_n _ _ _ _ _ _ hz _ hi
  case ld_r_r => exact sem_ld_r_r _ _ _ _ _ _ _ hz _ hi
  case ld_r_rr => exact sem_ld_r_rr _ _ _ _ _ hz _ hi
  case ld_rr_r => exact sem_ld_rr_r _ _ _ _ _ hz _ hi
  case ld_r_xy => exact sem_ld_r_xy _ _ _ _ _ hz _ hi
  case ld_xy_n => exact sem_ld_xy_n _ _ _ _ hz _ hi
  case ld_xy_r => exact sem_ld_xy_r _ _ _ _ _ hz _ hi
  case ld_rr_nn => exact sem_ld_rr_nn _ _ _ _ _ _ _ hz _ hi
  case ld_a_m => exact sem_ld_a_m _ _ hz _ hi
  case ld_m_a => exact sem_ld_m_a _ _ hz _ hi
  case ld_rr_mm => exact sem_ld_rr_mm _ _ _ _ _ _ _ hz _ hi
  case ld_mm_rr => exact sem_ld_mm_rr _ _ _ _ _ _ _ hz _ hi
  case ld_sp_rr => exact sem_ld_sp_rr _ _ _ _ _ _ _ hz _ hi
  case neg => exact sem_neg _ _ _ hz hwf _ hi
  case nop => exact sem_nop _ _ _ _ _ hz _ hi
  case out_a => exact sem_out_a _ _ hz _ hi
  case out_c => exact sem_out_c _ _ _ hz _ hi
  case pop => exact sem_pop _ _ _ _ _ _ _ hz _ hi
  case push => exact sem_push _ _ _ _ _ _ _ hz _ hi
  case res_hl => exact sem_res_hl _ _ _ hz _ hi
  case res_r => exact sem_res_r _ _ _ _ hz _ hi
  case res_xy => exact sem_res_xy _ _ _ _ _ _ hz _ hi
  case ret => exact sem_ret _ _ _ _ hz _ hi
  case reti => exact sem_reti _ _ hz _ hi
  case rst => exact sem_rst _ _ _ hz _ hi
  case set_hl => exact sem_set_hl _ _ _ hz _ hi
  case set_r => exact sem_set_r _ _ _ _ hz _ hi
  case set_xy => exact sem_set_xy _ _ _ _ _ _ hz _ hi
  case prefix_ => simp [zinstrOf] at hz
  case prefix2_ => simp [zinstrOf] at hz

/-! ### equivalent encodings execute identically -/

theorem setR8_r8_self (s : St μ) (r : Reg8) : setR8 s r (r8 s r) = s := by
  simp only [setR8, r8, rset_rget_self]

theorem exec_canon (cfg : Cfg) (d : Decoded) (s : St μ) : Spec.exec cfg (canonD d) s = Spec.exec cfg d s := by
  obtain ⟨i, sz, t, ta, m⟩ := d
  cases i <;> simp only [canonD, canon] <;> try rfl
  case ld8 dst src =>
    cases dst <;> cases src <;> simp only [canon] <;> try rfl
    split
    · subst_vars
      simp only [Spec.exec, Spec.wrLoc, Spec.rdLoc, setR8_r8_self]
    · rfl

/-! ### the closure `step` runs is the decoded instruction -/

theorem slot_regular (t : Sim.OpTbl) (op : Nat) (h : op < 256)
    (hnp : ∀ t', t.arr.getD op (.prefix_ .MAIN) ≠ .prefix_ t') (hnp2 : ∀ t', t.arr.getD op (.prefix_ .MAIN) ≠ .prefix2_ t') :
    (zinstrOf (t.arr.getD op (.prefix_ .MAIN))).map canonD = some (canonD (Decoded.of (decode (pfxOf t) op))) ∧
    ¬ (t = .MAIN ∧ (op = 0xCB ∨ op = 0xED ∨ op = 0xDD ∨ op = 0xFD)) ∧ ¬ ((t = .DD ∨ t = .FD) ∧ op = 0xCB) := by
  have := slot_ok t op h
  unfold slotOk at this
  split at this
  · rename_i t' heq; exact absurd heq (hnp t')
  · rename_i t' heq; exact absurd heq (hnp2 t')
  · simp only [Bool.and_eq_true, Bool.not_eq_true', Bool.and_eq_false_iff, Bool.or_eq_false_iff, beq_iff_eq,
      decide_eq_false_iff_not, decide_eq_true_eq, Bool.or_eq_true, beq_eq_false_iff_ne, ne_eq] at this
    refine ⟨this.2, ?_, ?_⟩
    · intro ⟨h1, h2⟩; rcases this.1.1 with h3 | h3
      · exact h3 h1
      · omega
    · intro ⟨h1, h2⟩; rcases this.1.2 with h3 | h3
      · rcases h1 with h1 | h1
        · exact h3.1 h1
        · exact h3.2 h1
      · exact h3 h2

theorem slot_prefix (t : Sim.OpTbl) (op : Nat) (h : op < 256) (t' : Sim.OpTbl)
    (he : t.arr.getD op (.prefix_ .MAIN) = .prefix_ t') :
    t = .MAIN ∧ ((op = 0xCB ∧ t' = .CB) ∨ (op = 0xED ∧ t' = .ED) ∨ (op = 0xDD ∧ t' = .DD) ∨ (op = 0xFD ∧ t' = .FD)) := by
  have := slot_ok t op h
  unfold slotOk at this
  rw [he] at this
  simp at this
  exact ⟨this.1, by rcases this.2 with ((h | h) | h) | h <;> simp [h]⟩

theorem slot_prefix2 (t : Sim.OpTbl) (op : Nat) (h : op < 256) (t' : Sim.OpTbl)
    (he : t.arr.getD op (.prefix_ .MAIN) = .prefix2_ t') :
    op = 0xCB ∧ ((t = .DD ∧ t' = .DDCB) ∨ (t = .FD ∧ t' = .FDCB)) := by
  have := slot_ok t op h
  unfold slotOk at this
  rw [he] at this
  simpa using this

/-- an entry that is neither `prefix_` nor `prefix2_` -/
def isLeaf : Sim.Instr → Bool
  | .prefix_ _ | .prefix2_ _ => false
  | _ => true

theorem leafOf2_leaf (s : St μ) (i : Sim.Instr) (h : isLeaf i = true) : leafOf2 s i = i := by
  cases i <;> first | rfl | simp [isLeaf] at h

theorem leafOf1_leaf (s : St μ) (i : Sim.Instr) (h : isLeaf i = true) : leafOf1 s i = i := by
  cases i <;> first | rfl | simp [isLeaf] at h

theorem isLeaf_iff (i : Sim.Instr) : isLeaf i = true ↔ (∀ t, i ≠ .prefix_ t) ∧ (∀ t, i ≠ .prefix2_ t) := by
  cases i <;> simp [isLeaf]

theorem get_eq (t : Sim.OpTbl) (b : Int) (hb : Byte b) : t.get b = t.arr.getD b.toNat (.prefix_ .MAIN) := rfl

/-- second-level tables (CB, ED, DDCB, FDCB) contain only leaves -/
theorem leaf_in_plain (t : Sim.OpTbl) (ht : t = .CB ∨ t = .ED ∨ t = .DDCB ∨ t = .FDCB) (op : Nat) (h : op < 256) :
    isLeaf (t.arr.getD op (.prefix_ .MAIN)) = true := by
  rw [isLeaf_iff]
  constructor
  · intro t' he
    have := (slot_prefix t op h t' he).1
    rcases ht with rfl | rfl | rfl | rfl <;> simp at this
  · intro t' he
    have := (slot_prefix2 t op h t' he).2
    rcases ht with rfl | rfl | rfl | rfl <;> simp at this

theorem regular_of_leaf (t : Sim.OpTbl) (op : Nat) (h : op < 256) (hl : isLeaf (t.arr.getD op (.prefix_ .MAIN)) = true) :
    ∃ d, zinstrOf (t.arr.getD op (.prefix_ .MAIN)) = some d ∧ canonD d = canonD (Decoded.of (decode (pfxOf t) op)) := by
  rw [isLeaf_iff] at hl
  have := (slot_regular t op h hl.1 hl.2).1
  rw [Option.map_eq_some_iff] at this
  obtain ⟨d, h1, h2⟩ := this
  exact ⟨d, h1, h2⟩

/-- The closure that `Sim.step` ends up running denotes (up to equivalent encodings) the instruction
that the independent fetch + decode finds at PC. -/
theorem leaf_spec (s : St μ) (hi : RInv s) :
    ∃ d, zinstrOf (leafOf s) = some d ∧
      canonD d = canonD (Decoded.of (decode (Spec.fetch s).1 (Spec.fetch s).2.toNat)) := by
  have hb0 := hi.mem.byte s.pc
  have hb1 := hi.mem.byte ((s.pc + 1) % 65536)
  have hb3 := hi.mem.byte ((s.pc + 3) % 65536)
  have n0 : (mget s.mem s.pc).toNat < 256 := by unfold Byte at hb0; omega
  have n1 : (mget s.mem ((s.pc + 1) % 65536)).toNat < 256 := by unfold Byte at hb1; omega
  have n3 : (mget s.mem ((s.pc + 3) % 65536)).toNat < 256 := by unfold Byte at hb3; omega
  have e0 : ((mget s.mem s.pc).toNat : Int) = mget s.mem s.pc := by unfold Byte at hb0; omega
  have e1 : ((mget s.mem ((s.pc + 1) % 65536)).toNat : Int) = mget s.mem ((s.pc + 1) % 65536) := by
    unfold Byte at hb1; omega
  unfold leafOf
  rw [get_eq _ _ hb0]
  by_cases hl0 : isLeaf (OpTbl.MAIN.arr.getD (mget s.mem s.pc).toNat (.prefix_ .MAIN)) = true
  · -- unprefixed
    rw [leafOf1_leaf _ _ hl0]
    obtain ⟨d, hd1, hd2⟩ := regular_of_leaf .MAIN _ n0 hl0
    refine ⟨d, hd1, ?_⟩
    rw [isLeaf_iff] at hl0
    have hnp := (slot_regular .MAIN _ n0 hl0.1 hl0.2).2.1
    have h1 : mget s.mem s.pc ≠ 0xCB := by intro h; apply hnp; exact ⟨rfl, by omega⟩
    have h2 : mget s.mem s.pc ≠ 0xED := by intro h; apply hnp; exact ⟨rfl, by omega⟩
    have h3 : mget s.mem s.pc ≠ 0xDD := by intro h; apply hnp; exact ⟨rfl, by omega⟩
    have h4 : mget s.mem s.pc ≠ 0xFD := by intro h; apply hnp; exact ⟨rfl, by omega⟩
    simp only [Spec.fetch, Spec.rd, h1, h2, h3, h4, if_false]
    exact hd2
  · -- a prefix byte
    have hnl : ¬ ((∀ t, OpTbl.MAIN.arr.getD (mget s.mem s.pc).toNat (.prefix_ .MAIN) ≠ .prefix_ t) ∧
        (∀ t, OpTbl.MAIN.arr.getD (mget s.mem s.pc).toNat (.prefix_ .MAIN) ≠ .prefix2_ t)) := by
      rw [← isLeaf_iff]; exact hl0
    have hex : ∃ t', OpTbl.MAIN.arr.getD (mget s.mem s.pc).toNat (.prefix_ .MAIN) = .prefix_ t' := by
      apply Classical.byContradiction; intro hne
      apply hnl
      refine ⟨fun t h => hne ⟨t, h⟩, fun t h => ?_⟩
      have := (slot_prefix2 .MAIN _ n0 t h).2
      simp at this
    obtain ⟨t', ht'⟩ := hex
    rw [ht']
    simp only [leafOf1]
    rw [get_eq _ _ hb1]
    have hp := (slot_prefix .MAIN _ n0 t' ht').2
    rcases hp with ⟨hop, rfl⟩ | ⟨hop, rfl⟩ | ⟨hop, rfl⟩ | ⟨hop, rfl⟩
    · -- CB
      have hb : mget s.mem s.pc = 0xCB := by omega
      have hl1 := leaf_in_plain .CB (by simp) _ n1
      rw [leafOf2_leaf _ _ hl1]
      obtain ⟨d, hd1, hd2⟩ := regular_of_leaf .CB _ n1 hl1
      refine ⟨d, hd1, ?_⟩
      simp only [Spec.fetch, Spec.rd, hb, if_true]
      exact hd2
    · -- ED
      have hb : mget s.mem s.pc = 0xED := by omega
      have hl1 := leaf_in_plain .ED (by simp) _ n1
      rw [leafOf2_leaf _ _ hl1]
      obtain ⟨d, hd1, hd2⟩ := regular_of_leaf .ED _ n1 hl1
      refine ⟨d, hd1, ?_⟩
      simp only [Spec.fetch, Spec.rd, hb, Int.reduceEq, if_false, if_true]
      exact hd2
    · -- DD
      have hb : mget s.mem s.pc = 0xDD := by omega
      by_cases hl1 : isLeaf (OpTbl.DD.arr.getD (mget s.mem ((s.pc + 1) % 65536)).toNat (.prefix_ .MAIN)) = true
      · rw [leafOf2_leaf _ _ hl1]
        obtain ⟨d, hd1, hd2⟩ := regular_of_leaf .DD _ n1 hl1
        refine ⟨d, hd1, ?_⟩
        rw [isLeaf_iff] at hl1
        have hncb := (slot_regular .DD _ n1 hl1.1 hl1.2).2.2
        have h1 : mget s.mem ((s.pc + 1) % 65536) ≠ 0xCB := by intro h; apply hncb; exact ⟨Or.inl rfl, by omega⟩
        simp only [Spec.fetch, Spec.rd, hb, Int.reduceEq, if_false, if_true, h1]
        exact hd2
      · have hnl1 : ¬ ((∀ t, OpTbl.DD.arr.getD (mget s.mem ((s.pc + 1) % 65536)).toNat (.prefix_ .MAIN) ≠ .prefix_ t) ∧
            (∀ t, OpTbl.DD.arr.getD (mget s.mem ((s.pc + 1) % 65536)).toNat (.prefix_ .MAIN) ≠ .prefix2_ t)) := by
          rw [← isLeaf_iff]; exact hl1
        have hex : ∃ t', OpTbl.DD.arr.getD (mget s.mem ((s.pc + 1) % 65536)).toNat (.prefix_ .MAIN) = .prefix2_ t' := by
          apply Classical.byContradiction; intro hne
          apply hnl1
          refine ⟨fun t h => ?_, fun t h => hne ⟨t, h⟩⟩
          have := (slot_prefix .DD _ n1 t h).1
          simp at this
        obtain ⟨t2, ht2⟩ := hex
        rw [ht2]
        simp only [leafOf2]
        have hp2 := slot_prefix2 .DD _ n1 t2 ht2
        have ht2' : t2 = .DDCB := by rcases hp2.2 with ⟨-, h⟩ | ⟨h, -⟩ <;> simp_all
        subst ht2'
        have hb1' : mget s.mem ((s.pc + 1) % 65536) = 0xCB := by have := hp2.1; omega
        rw [get_eq _ _ hb3]
        have hl3 := leaf_in_plain .DDCB (by simp) _ n3
        obtain ⟨d, hd1, hd2⟩ := regular_of_leaf .DDCB _ n3 hl3
        refine ⟨d, hd1, ?_⟩
        simp only [Spec.fetch, Spec.rd, hb, Int.reduceEq, if_false, if_true, hb1']
        exact hd2
    · -- FD
      have hb : mget s.mem s.pc = 0xFD := by omega
      by_cases hl1 : isLeaf (OpTbl.FD.arr.getD (mget s.mem ((s.pc + 1) % 65536)).toNat (.prefix_ .MAIN)) = true
      · rw [leafOf2_leaf _ _ hl1]
        obtain ⟨d, hd1, hd2⟩ := regular_of_leaf .FD _ n1 hl1
        refine ⟨d, hd1, ?_⟩
        rw [isLeaf_iff] at hl1
        have hncb := (slot_regular .FD _ n1 hl1.1 hl1.2).2.2
        have h1 : mget s.mem ((s.pc + 1) % 65536) ≠ 0xCB := by intro h; apply hncb; exact ⟨Or.inr rfl, by omega⟩
        simp only [Spec.fetch, Spec.rd, hb, Int.reduceEq, if_false, if_true, h1]
        exact hd2
      · have hnl1 : ¬ ((∀ t, OpTbl.FD.arr.getD (mget s.mem ((s.pc + 1) % 65536)).toNat (.prefix_ .MAIN) ≠ .prefix_ t) ∧
            (∀ t, OpTbl.FD.arr.getD (mget s.mem ((s.pc + 1) % 65536)).toNat (.prefix_ .MAIN) ≠ .prefix2_ t)) := by
          rw [← isLeaf_iff]; exact hl1
        have hex : ∃ t', OpTbl.FD.arr.getD (mget s.mem ((s.pc + 1) % 65536)).toNat (.prefix_ .MAIN) = .prefix2_ t' := by
          apply Classical.byContradiction; intro hne
          apply hnl1
          refine ⟨fun t h => ?_, fun t h => hne ⟨t, h⟩⟩
          have := (slot_prefix .FD _ n1 t h).1
          simp at this
        obtain ⟨t2, ht2⟩ := hex
        rw [ht2]
        simp only [leafOf2]
        have hp2 := slot_prefix2 .FD _ n1 t2 ht2
        have ht2' : t2 = .FDCB := by rcases hp2.2 with ⟨h, -⟩ | ⟨-, h⟩ <;> simp_all
        subst ht2'
        have hb1' : mget s.mem ((s.pc + 1) % 65536) = 0xCB := by have := hp2.1; omega
        rw [get_eq _ _ hb3]
        have hl3 := leaf_in_plain .FDCB (by simp) _ n3
        obtain ⟨d, hd1, hd2⟩ := regular_of_leaf .FDCB _ n3 hl3
        refine ⟨d, hd1, ?_⟩
        simp only [Spec.fetch, Spec.rd, hb, Int.reduceEq, if_false, if_true, hb1']
        exact hd2

/-- **Refinement of one step.**  From every state satisfying the range invariant, one
`opcodes[memory[pc]]()` of the (translated) Python simulator produces exactly the state the
executable Z80 specification produces — registers, flags, memory, PC, SP, IFF, IM, HALT, T-states,
R, port traffic. -/
theorem step_refines [AdjMem μ] (cfg : Cfg) (s : St μ) (hi : RInv s) :
    Sim.step cfg s = Spec.step cfg s := by
  obtain ⟨d, hz, hc⟩ := leaf_spec s hi
  rw [step_eq, sem_execLeaf cfg _ d hz (leafOf_wf s) s hi]
  unfold Spec.step
  rw [← exec_canon cfg d, hc, exec_canon]

end C05
