import SkoolVerif.Proofs.CVsPyStep
/-!
Concrete states for the C-vs-Python theorems: the hypotheses are satisfiable, and the one genuine difference
between the C and the Python simulators (`OUT` to port 0x7FFD on 128K memory when no tracer is attached) has a
witness.
-/
namespace CVsPyEx
open Z80

/-- a 128K memory with empty (all-zero) banks, bank 1 paged in at 0xC000 -/
def mem128 : Mem128 := { roms := #[#[], #[]], banks := #[#[], #[], #[], #[], #[], #[], #[], #[]], o7ffd := 1, trOut7ffd := 1 }

/-- all registers 0, PC 0: the byte at PC+1 is 0, so `OUT (n),A` writes 0 to port 0x0000 (A15 = A1 = 0: decoded as 0x7FFD) -/
def st128 : St Mem128 :=
  { reg := #[0, 0, 0, 0, 0, 0, 0, 0, 0, 0, 0, 0, 0, 0, 0, 0, 0, 0, 0, 0, 0, 0, 0, 0],
    mem := mem128, pc := 0, t := 0, iff := 0, im := 0, halt := 0, memptr := 0, ins := [], outs := [], inLog := [] }

theorem st128_inv : RInv st128 := by
  refine ⟨⟨rfl, by unfold Word; decide +kernel, by decide +kernel, ?_⟩, ?_, by unfold Word; decide +kernel, by decide,
    by decide, by decide, by decide, by unfold Word; decide +kernel, by simp [st128]⟩
  · intro i h0 h1 h2
    have : i = 0 ∨ i = 1 ∨ i = 2 ∨ i = 3 ∨ i = 4 ∨ i = 5 ∨ i = 6 ∨ i = 7 ∨ i = 8 ∨ i = 9 ∨ i = 10 ∨ i = 11 ∨
        i = 13 ∨ i = 14 ∨ i = 15 ∨ i = 16 ∨ i = 17 ∨ i = 18 ∨ i = 19 ∨ i = 20 ∨ i = 21 ∨ i = 22 ∨ i = 23 := by omega
    rcases this with h | h | h | h | h | h | h | h | h | h | h | h | h | h | h | h | h | h | h | h | h | h | h <;>
      subst h <;> unfold Byte <;> decide +kernel
  · constructor
    · intro b hb x hx
      simp [st128, mem128] at hb
      subst hb; simp at hx
    · intro r hr x hx
      simp [st128, mem128] at hr
      subst hr; simp at hx

/-- the default configuration (48K frame, no tracers) is representable in the C structure -/
theorem cfg0_rep : CSimH.CfgRep {} := ⟨by decide, by decide, by decide, by decide, by decide⟩

theorem st128_rep : CRep {} st128 := cfg0_rep.crep st128 (by decide)

/-- no tracer attached: the plain C handler of `OUT (n),A` pages (0x7FFD value becomes 0), the Python closure does not -/
theorem out_a_pages_in_c : (CSimH.out_a {} st128).mem.o7ffd = 0 ∧ (Sim.out_a {} st128).mem.o7ffd = 1 := by
  constructor <;> decide +kernel

end CVsPyEx
