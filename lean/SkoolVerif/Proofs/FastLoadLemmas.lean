import SkoolVerif.Proofs.LoaderSteps
import SkoolVerif.Model.FastLoad
/-! Lemmas about the model of `LoadTracer.fast_load` (`Model/FastLoad.lean`) over lawful RAM. -/
open Z80 LoaderSteps FastLoad

namespace FastLoadLemmas
variable {μ : Type} [MemLike μ] [RamMem μ]

theorem copyLoop_ok (bs : List Nat) (addr : Int) (p : Nat) (m : μ) (hok : RamMem.ok m) :
    RamMem.ok (copyLoop bs addr p m).1 := by
  induction bs generalizing addr p m with
  | nil => exact hok
  | cons b bs ih =>
    simp only [copyLoop]
    apply ih
    split
    · exact RamMem.ok_set _ _ _ hok
    · exact hok

omit [RamMem μ] in
theorem copyLoop_parity (bs : List Nat) (addr : Int) (p : Nat) (m : μ) :
    (copyLoop bs addr p m).2 = bs.foldl (· ^^^ ·) p := by
  induction bs generalizing addr p m with
  | nil => rfl
  | cons b bs ih => simp only [copyLoop, List.foldl_cons]; exact ih _ _ _

theorem copyLoop_get (bs : List Nat) (addr : Int) (p : Nat) (m : μ) (hok : RamMem.ok m)
    (ha : 0 ≤ addr ∧ addr < 65536) (hlen : bs.length ≤ 65536) (x : Int) (hx : 0 ≤ x ∧ x < 65536) :
    mget (copyLoop bs addr p m).1 x =
      if (x - addr) % 65536 < bs.length ∧ 16383 < x
      then ((bs.getD ((x - addr) % 65536).toNat 0 : Nat) : Int) else mget m x := by
  induction bs generalizing addr p m with
  | nil => simp [copyLoop]; omega
  | cons b bs ih =>
    simp only [copyLoop]
    have hl : bs.length ≤ 65536 := by simp at hlen; omega
    have hl' : (bs.length : Int) ≤ 65535 := by simp at hlen; omega
    have hok' : RamMem.ok (if addr > 16383 then mset m addr (b : Int) else m) := by
      split
      · exact RamMem.ok_set _ _ _ hok
      · exact hok
    rw [ih _ _ _ hok' (by omega) hl]
    have hcons : ((b :: bs).length : Int) = bs.length + 1 := by simp
    by_cases hxa : x = addr
    · subst hxa
      have e0 : (x - x) % 65536 = 0 := by omega
      have c1 : ¬ ((x - (x + 1) % 65536) % 65536 < (bs.length : Int) ∧ 16383 < x) := by omega
      rw [if_neg c1, e0]
      by_cases hr : 16383 < x
      · have c2 : (0 : Int) < ((b :: bs).length : Int) ∧ 16383 < x := ⟨by omega, hr⟩
        rw [if_pos c2, if_pos (by omega : x > 16383), RamMem.get_set _ _ _ _ hok hx.1 hx.2 hx.1 hx.2]
        simp
      · have c2 : ¬ ((0 : Int) < ((b :: bs).length : Int) ∧ 16383 < x) := by omega
        rw [if_neg c2, if_neg (by omega : ¬ x > 16383)]
    · have hk : 1 ≤ (x - addr) % 65536 := by omega
      have e1 : (x - (addr + 1) % 65536) % 65536 = (x - addr) % 65536 - 1 := by omega
      have hm : mget (if addr > 16383 then mset m addr (b : Int) else m) x = mget m x := by
        split
        · rw [RamMem.get_set _ _ _ _ hok ha.1 ha.2 hx.1 hx.2, if_neg hxa]
        · rfl
      rw [e1, hm]
      by_cases hc : (x - addr) % 65536 < ((b :: bs).length : Int) ∧ 16383 < x
      · have c1 : (x - addr) % 65536 - 1 < (bs.length : Int) ∧ 16383 < x := ⟨by omega, hc.2⟩
        rw [if_pos hc, if_pos c1]
        have e2 : ((x - addr) % 65536).toNat = ((x - addr) % 65536 - 1).toNat + 1 := by omega
        rw [e2]; simp
      · have c1 : ¬ ((x - addr) % 65536 - 1 < (bs.length : Int) ∧ 16383 < x) := by omega
        rw [if_neg hc, if_neg c1]


def xorFrom (p : Nat) (l : List Nat) : Nat := l.foldl (· ^^^ ·) p

/-- What `fast_load` does for a block `flag :: data ++ [par]` when A holds the flag and DE the
length of `data` (the case bin2tap's loaders set up). -/
theorem fastLoad_match (data : List Nat) (f par : Nat) (s : St μ)
    (hs : s.reg.size = 24) (hok : RamMem.ok s.mem)
    (hA : rget s.reg 0 = (f : Int))
    (hDE : rget s.reg 5 + 256 * rget s.reg 4 = (data.length : Int))
    (hIX : 0 ≤ rget s.reg 9 + 256 * rget s.reg 8 ∧ rget s.reg 9 + 256 * rget s.reg 8 < 65536)
    (hsp : 16386 ≤ rget s.reg 12 ∧ rget s.reg 12 < 65536)
    (hlen : data.length < 65536) :
    let s' := fastLoad (f :: (data ++ [par])) s
    let ix := rget s.reg 9 + 256 * rget s.reg 8
    let a' : Nat := xorFrom f data ^^^ par
    s'.pc = 0x05E2 ∧ s'.iff = 0 ∧ s'.reg.size = 24 ∧
    rget s'.reg 12 = rget s.reg 12 - 2 ∧
    rget s'.reg 0 = (a' : Int) ∧
    rget s'.reg 1 = (if a' = 1 then 0x40 else 0) + (if a' = 0 then 1 else 0) ∧
    rget s'.reg 8 = ((ix + data.length) / 256) % 256 ∧ rget s'.reg 9 = (ix + data.length) % 256 ∧
    rget s'.reg 4 = 0 ∧ rget s'.reg 5 = 0 ∧
    rget s'.reg 16 = rget s.reg 0 ∧ rget s'.reg 17 = rget s.reg 1 ∧
    RamMem.ok s'.mem ∧
    (∀ x : Int, 0 ≤ x ∧ x < 65536 → mget s'.mem x =
      if (x - ix) % 65536 < data.length ∧ 16383 < x then ((data.getD ((x - ix) % 65536).toNat 0 : Nat) : Int)
      else if x = rget s.reg 12 - 1 then 0x05 else if x = rget s.reg 12 - 2 then 0x3F else mget s.mem x) := by
  intro s' ix a'
  have hdl : ((f :: (data ++ [par])).length : Int) - 2 = data.length := by simp; omega
  have hbytes : (data ++ [par]).take (data.length) = data := by simp
  have hpar : (f :: (data ++ [par])).getD (1 + data.length) 0 = par := by
    rw [Nat.add_comm]; simp [List.getD_cons_succ, List.getD_eq_getElem?_getD]
  have hde : (rget s.reg 5 + 256 * rget s.reg 4).toNat = data.length := by omega
  have e1 : (rget s.reg 12 - 2) % 65536 = rget s.reg 12 - 2 := emod_small _ (by omega) (by omega)
  have e2 : (rget s.reg 12 - 2 + 1) % 65536 = rget s.reg 12 - 1 := by
    rw [emod_small _ (by omega) (by omega)]; omega
  have c1 : 16383 < rget s.reg 12 - 2 := by omega
  have c2 : 16383 < rget s.reg 12 - 1 := by omega
  have hsw : rget (rset (rset (rset (rset s.reg 0 (rget s.reg 16)) 1 (rget s.reg 17)) 16 (rget s.reg 0)) 17 (rget s.reg 1)) 12 = rget s.reg 12 := by
    simp [rget_rset_ne]
  have key : s' = { s with
      reg := rset (rset (rset (rset (rset (rset (rset
               (rset (rset (rset (rset s.reg 0 (rget s.reg 16)) 1 (rget s.reg 17)) 16 (rget s.reg 0)) 17 (rget s.reg 1))
               12 (rget s.reg 12 - 2)) 0 (a' : Int)) 1 ((if a' = 1 then 0x40 else 0) + (if a' = 0 then 1 else 0)))
               8 (((ix + data.length) / 256) % 256)) 9 ((ix + data.length) % 256)) 4 0) 5 0,
      mem := (copyLoop data ix f (mset (mset s.mem (rget s.reg 12 - 2) 0x3F) (rget s.reg 12 - 1) 0x05)).1,
      iff := 0, pc := 0x05E2 } := by
    show fastLoad (f :: (data ++ [par])) s = _
    have h_ne : ¬ (rget s.reg 0 ≠ ((f : Nat) : Int)) := by simp [hA]
    unfold fastLoad
    simp only [List.headD_cons, if_neg h_ne, hDE, hdl, Int.le_refl, if_true, hsw, e1, e2, c1, c2, gt_iff_lt,
      List.drop_one, List.tail_cons, Int.toNat_natCast, hbytes, hpar, copyLoop_parity]
    rfl
  have hokm : RamMem.ok (mset (mset s.mem (rget s.reg 12 - 2) 0x3F) (rget s.reg 12 - 1) 0x05) :=
    RamMem.ok_set _ _ _ (RamMem.ok_set _ _ _ hok)
  rw [key]
  refine ⟨rfl, rfl, by simp [rset_size, hs], ?_, ?_, ?_, ?_, ?_, ?_, ?_, ?_, ?_, ?_, ?_⟩
  · simp [rget_rset_ne, rget_rset_eq, rset_size, hs]
  · simp [rget_rset_ne, rget_rset_eq, rset_size, hs]
  · simp [rget_rset_ne, rget_rset_eq, rset_size, hs]
  · simp [rget_rset_ne, rget_rset_eq, rset_size, hs]
  · simp [rget_rset_ne, rget_rset_eq, rset_size, hs]
  · simp [rget_rset_ne, rget_rset_eq, rset_size, hs]
  · simp [rget_rset_ne, rget_rset_eq, rset_size, hs]
  · simp [rget_rset_ne, rget_rset_eq, rset_size, hs]
  · simp [rget_rset_ne, rget_rset_eq, rset_size, hs]
  · exact copyLoop_ok _ _ _ _ hokm
  · intro x hx
    show mget (copyLoop data ix f _).1 x = _
    rw [copyLoop_get data ix f _ hokm hIX (by omega) x hx,
      mget_mset2 _ hok _ _ _ _ _ (by omega) (by omega) hx]

/-- Flag byte mismatch (A ≠ first byte of the block): nothing is loaded; carry and zero are reset
(LD-BYTES reports failure); only the two stack bytes change. -/
theorem fastLoad_flag_mismatch (block : List Nat) (s : St μ) (hok : RamMem.ok s.mem) (hs : s.reg.size = 24)
    (hA : rget s.reg 0 ≠ ((block.headD 0 : Nat) : Int))
    (hsp : 16386 ≤ rget s.reg 12 ∧ rget s.reg 12 < 65536) :
    let s' := fastLoad block s
    s'.pc = 0x05E2 ∧ rget s'.reg 1 = 0 ∧ rget s'.reg 6 = 0 ∧
    (∀ x : Int, 0 ≤ x ∧ x < 65536 → mget s'.mem x =
      if x = rget s.reg 12 - 1 then 0x05 else if x = rget s.reg 12 - 2 then 0x3F else mget s.mem x) := by
  intro s'
  have e1 : (rget s.reg 12 - 2) % 65536 = rget s.reg 12 - 2 := emod_small _ (by omega) (by omega)
  have e2 : (rget s.reg 12 - 2 + 1) % 65536 = rget s.reg 12 - 1 := by
    rw [emod_small _ (by omega) (by omega)]; omega
  have c1 : 16383 < rget s.reg 12 - 2 := by omega
  have c2 : 16383 < rget s.reg 12 - 1 := by omega
  have hsw : rget (rset (rset (rset (rset s.reg 0 (rget s.reg 16)) 1 (rget s.reg 17)) 16 (rget s.reg 0)) 17 (rget s.reg 1)) 12 = rget s.reg 12 := by
    simp [rget_rset_ne]
  have key : s' = { s with
      reg := rset (rset (rset
               (rset (rset (rset (rset s.reg 0 (rget s.reg 16)) 1 (rget s.reg 17)) 16 (rget s.reg 0)) 17 (rget s.reg 1))
               12 (rget s.reg 12 - 2)) 1 0) 6 0,
      mem := mset (mset s.mem (rget s.reg 12 - 2) 0x3F) (rget s.reg 12 - 1) 0x05,
      iff := 0, pc := 0x05E2 } := by
    show fastLoad block s = _
    unfold fastLoad
    simp only [if_pos hA, hsw, e1, e2, c1, c2, gt_iff_lt, if_true]
  rw [key]
  refine ⟨rfl, ?_, ?_, ?_⟩
  · simp [rget_rset_ne, rget_rset_eq, rset_size, hs]
  · simp [rget_rset_ne, rget_rset_eq, rset_size, hs]
  · intro x hx
    exact mget_mset2 _ hok _ _ _ _ _ (by omega) (by omega) hx

/-- The block holds fewer data bytes than DE asks for: everything on the tape (parity byte
included) is stored, then LD-BYTES runs out of edges: zero set, carry reset (failure), and DE keeps
the number of bytes still missing. -/
theorem fastLoad_short_block (block : List Nat) (s : St μ) (hs : s.reg.size = 24)
    (hA : rget s.reg 0 = ((block.headD 0 : Nat) : Int))
    (hDE : (block.length : Int) - 2 < rget s.reg 5 + 256 * rget s.reg 4)
    (hDE' : rget s.reg 5 + 256 * rget s.reg 4 < 65536) (hne : block ≠ []) :
    (fastLoad block s).pc = 0x05E2 ∧ rget (fastLoad block s).reg 1 = 0x40 ∧
    rget (fastLoad block s).reg 5 + 256 * rget (fastLoad block s).reg 4 =
      rget s.reg 5 + 256 * rget s.reg 4 - ((block.length : Int) - 1) := by
  have h_ne : ¬ (rget s.reg 0 ≠ ((block.headD 0 : Nat) : Int)) := by simp [hA]
  have h_de : ¬ (rget s.reg 5 + 256 * rget s.reg 4 ≤ (block.length : Int) - 2) := by omega
  have hl : 1 ≤ block.length := by
    cases block with
    | nil => exact absurd rfl hne
    | cons a l => simp
  unfold fastLoad
  simp only [if_neg h_ne, if_neg h_de]
  refine ⟨trivial, ?_, ?_⟩
  · simp [rget_rset_ne, rget_rset_eq, rset_size, hs]
  · simp [rget_rset_ne, rget_rset_eq, rset_size, hs]
    omega

end FastLoadLemmas
