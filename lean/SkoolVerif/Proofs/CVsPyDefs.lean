import SkoolVerif.Proofs.CIntLemmas
import SkoolVerif.Prelude.CAttrs
import SkoolVerif.Prelude.Attrs
import Lean
/-!
Hypotheses and the generic tactic of the C-vs-Python handler equalities (`Gen/CVsPyThms.lean`,
`Gen/CCmioVsPyThms.lean`).

`CRep cfg s`: the state and configuration are representable in the C simulator's data types.  This is
where C and Python genuinely differ and the theorems say so: `reg[T]` is an `unsigned long long` (C wraps
at 2^64, Python integers do not), and `frame_duration`, `int_active`, `t0`, `t1` are `unsigned` fields
(`TIME % self->frame_duration` needs a positive 32-bit divisor to be Python's `%`; the frame duration is
required to be below 2^31 so that the `unsigned t` of the contention code, which starts below the frame duration
and is advanced by one instruction's T-states, cannot wrap).  The bound on T is
kept well below 2^64 so that one instruction (at most a few hundred T-states, or `timing < 2^31` for an
arbitrary well-formed argument tuple) cannot wrap.  The C run loops do not reduce T themselves;
`CSimulator_exec_frame`/`trace` callers pass stop conditions far below 2^63 T-states
(2^63 T-states at 3.5 MHz are about 83 000 years of emulated time).
-/
namespace Z80

/-- two register arrays are equal when they have the same size and the same cells -/
@[ext, grind ext] theorem regs_ext {a b : Array Int} (hs : a.size = b.size) (h : ∀ i : Int, rget a i = rget b i) : a = b := by
  apply Array.ext hs
  intro i h1 h2
  have := h (i : Int)
  simp only [rget, Int.natCast_nonneg, if_true, Int.toNat_natCast] at this
  simpa [Array.getD, h1, h2] using this

theorem rget_rset_ne (r : Array Int) (i j v : Int) (h : i ≠ j) : rget (rset r i v) j = rget r j := by
  rw [rget_rset]; simp [h]

/-- a table selected by name is the table: by computation -/
theorem tblget : (∀ x, TblI1.get .R1 x = Tbl.R1 x) ∧ (∀ x, TblI1.get .R2 x = Tbl.R2 x) :=
  ⟨fun _ => rfl, fun _ => rfl⟩

/-- `r_inc[R]` for the two tables the C dispatch rows can denote, in terms of the C `int` (no case split needed) -/
theorem tblget_rinc (r : TblI1) (h : r = .R1 ∨ r = .R2) (x : Int) :
    TblI1.get r x = PyInt.land x 128 + (x + CInt.rInc r) % 128 := by
  rcases h with rfl | rfl <;> rfl
theorem rInc_range' (r : TblI1) (h : r = .R1 ∨ r = .R2) : 1 ≤ CInt.rInc r ∧ CInt.rInc r ≤ 2 := by
  rcases h with rfl | rfl <;> decide

/-- state equality field by field, the register array cell by cell -/
theorem St_ext' {μ : Type} {a b : St μ} (h1 : a.reg.size = b.reg.size) (h2 : ∀ i : Int, rget a.reg i = rget b.reg i)
    (h3 : a.mem = b.mem) (h4 : a.pc = b.pc) (h5 : a.t = b.t) (h6 : a.iff = b.iff) (h7 : a.im = b.im)
    (h8 : a.halt = b.halt) (h9 : a.memptr = b.memptr) (h10 : a.ins = b.ins) (h11 : a.outs = b.outs)
    (h12 : a.inLog = b.inLog) : a = b := by
  cases a; cases b; simp only at *
  have := regs_ext h1 h2
  simp_all

/-- Writing a memory cell changes neither the kind of the memory nor the paging state: what the contention model
reads from the memory (`Contend.contend`, `Contend.io_contention`) is the same before and after a `POKE`.  (The C
handlers of PUSH/CALL/RST/LDI… evaluate their contention pattern after the writes, the Python closures before.) -/
class PageStable (μ : Type) [MemLike μ] : Prop where
  is128_set : ∀ (m : μ) (a v : Int), MemLike.is128 (MemLike.set m a v) = MemLike.is128 m
  o7ffd_set : ∀ (m : μ) (a v : Int), MemLike.o7ffd (MemLike.set m a v) = MemLike.o7ffd m

instance : PageStable Mem48 where
  is128_set _ _ _ := rfl
  o7ffd_set _ _ _ := rfl

instance : PageStable Mem128 where
  is128_set _ _ _ := rfl
  o7ffd_set := by
    intro m a v
    simp only [MemLike.set, MemLike.o7ffd, Mem128.set]
    split <;> rfl

theorem contend_mset {μ : Type} [MemLike μ] [PageStable μ] (cfg : Cfg) (m : μ) (a v t : Int) (l : List (Int × Int)) :
    Contend.contend cfg (mset m a v) t l = Contend.contend cfg m t l := by
  unfold Contend.contend mset
  rw [PageStable.is128_set, PageStable.o7ffd_set]

theorem io_contention_mset {μ : Type} [MemLike μ] [PageStable μ] (cfg : Cfg) (m : μ) (a v p : Int) :
    Contend.io_contention cfg (mset m a v) p = Contend.io_contention cfg m p := by
  unfold Contend.io_contention Contend.ioContended mset
  simp only [PageStable.is128_set, PageStable.o7ffd_set]

structure CRep (cfg : Cfg) {μ : Type} (s : St μ) : Prop where
  t_lt : s.t < 9223372036854775808
  fd_pos : 0 < cfg.frame_duration
  fd_lt : cfg.frame_duration < 2147483648
  ia : 0 ≤ cfg.int_active ∧ cfg.int_active < 4294967296
  t0 : 0 ≤ cfg.t0 ∧ cfg.t0 < 4294967296
  t1 : 0 ≤ cfg.t1 ∧ cfg.t1 < 4294967296

open CInt

theorem emod_bounds' (a b : Int) (h : 0 < b) : 0 ≤ a % b ∧ a % b < b :=
  ⟨Int.emod_nonneg a (by omega), Int.emod_lt_of_pos a h⟩
theorem u8_range' (x : Int) : 0 ≤ CInt.u8 x ∧ CInt.u8 x < 256 := CInt.u8_range x
theorem u32_range' (x : Int) : 0 ≤ CInt.u32 x ∧ CInt.u32 x < 4294967296 := CInt.u32_range x
theorem u64_range' (x : Int) : 0 ≤ CInt.u64 x ∧ CInt.u64 x < 18446744073709551616 := CInt.u64_range x
theorem i32_range' (x : Int) : -2147483648 ≤ CInt.i32 x ∧ CInt.i32 x < 2147483648 := CInt.i32_range x

namespace CFacts
open Lean Meta Elab Tactic RangeManual

/-- the elements of a list expression after weak-head normalisation (`TblI3.dims .BIT` ↦ `[2, 8, 256]`) -/
partial def listElems (e : Expr) : MetaM (Option (Array Expr)) := do
  let e ← withTransparency .all (whnf e)
  if e.isAppOfArity ``List.nil 1 then return some #[]
  if e.isAppOfArity ``List.cons 3 then
    match ← listElems (e.getArg! 2) with
    | some r => return some (#[e.getArg! 1] ++ r)
    | none => return none
  return none

end CFacts

open Lean Meta Elab Tactic RangeManual CFacts in
/-- `range_facts` of `Proofs/RangeManual.lean` (range lemmas for every register / memory / table subterm of the goal,
children before parents), extended for the terms the C translation contains: tables selected by name
(`TblI3.get .BIT …`: the dimensions are computed, not looked up in the context) and the wraps themselves
(`0 ≤ CInt.u32 x < 2^32` whatever `x`). -/
elab "cfacts" : tactic => withMainContext do
  let tgt ← instantiateMVars (← (← getMainGoal).getType)
  let ((), (_, subs)) := (collect tgt).run ({}, #[])
  for e in subs do
    let fn := e.getAppFn
    let some c := fn.constName? | continue
    let args := e.getAppArgs
    let stx (x : Expr) : TacticM Term := Term.exprToSyntax x
    let a (i : Nat) : TacticM Term := stx args[i]!
    -- dimensions of a table argument: from a hypothesis `t.dims = […]` if `t` is a variable, by computation otherwise
    let dims (dimsFn : Name) (t : Expr) : TacticM (Option (Array Term)) := do
      if t.isFVar then return none
      match ← listElems (mkApp (mkConst dimsFn) t) with
      | some es => return some (← es.mapM stx)
      | none => return none
    withMainContext do
      match c, args.size with
      | ``CInt.rInc, 1 => tryTac do `(tactic| have := rInc_range' $(← a 0) (by assumption))
      | ``CInt.u8, 1 => tryTac do `(tactic| have := u8_range' $(← a 0))
      | ``CInt.u32, 1 => tryTac do `(tactic| have := u32_range' $(← a 0))
      | ``CInt.u64, 1 => tryTac do `(tactic| have := u64_range' $(← a 0))
      | ``CInt.i32, 1 => tryTac do `(tactic| have := i32_range' $(← a 0))
      | ``PyInt.land, 2 =>
        tryTac do `(tactic| have := land_bounds $(← a 0) $(← a 1) (by omega))
        tryTac do `(tactic| have := land_bounds $(← a 1) $(← a 0) (by omega))
      | ``PyInt.lor, 2 =>
        tryTac do `(tactic| have := lor_byte' $(← a 0) $(← a 1) (by omega) (by omega))
      | ``PyInt.xor, 2 =>
        tryTac do `(tactic| have := xor_byte' $(← a 0) $(← a 1) (by omega) (by omega))
      | ``PyInt.p2i, 2 =>
        tryTac do `(tactic| have : $(← stx e) = 0 ∨ $(← stx e) = 1 := p2i_cases _)
      | ``Z80.rget, 2 =>
        match ← getIntValue? args[1]! with
        | some 12 =>
          tryTac do `(tactic| have := rget_word' (r := $(← a 0)) (by with_reducible assumption))
        | some 13 =>
          tryTac do `(tactic| have := RegsOk.sp2 (r := $(← a 0)) (by with_reducible assumption))
        | _ =>
          tryTac do `(tactic| have := rget_byte' (r := $(← a 0)) (by with_reducible assumption) $(← a 1)
            (by omega) (by omega) (by omega))
      | ``Z80.rset, 3 =>
        match ← getIntValue? args[1]! with
        | some 12 =>
          tryTac do `(tactic| have := RegsOk_rset_sp'' (r := $(← a 0)) (by with_reducible assumption) $(← a 2) (by omega))
        | some 13 =>
          tryTac do `(tactic| have := RegsOk_rset_sp2'' (r := $(← a 0)) (by with_reducible assumption) $(← a 2) (by omega))
        | _ =>
          tryTac do `(tactic| have := RegsOk_rset_byte'' (r := $(← a 0)) (by with_reducible assumption) $(← a 1) $(← a 2)
            (by omega) (by omega) (by omega) (by omega) (by omega))
      | ``Z80.mget, 4 =>
        tryTac do `(tactic| have := mget_byte' (m := $(← a 2)) (by with_reducible assumption) $(← a 3))
      | ``Z80.mset, 5 =>
        tryTac do `(tactic| have := MemOk_mset'' (m := $(← a 2)) (by with_reducible assumption) $(← a 3) $(← a 4) (by omega))
      | ``Z80.MemLike.portOut, 5 =>
        tryTac do `(tactic| have := MemOk_portOut (m := $(← a 2)) (by with_reducible assumption) $(← a 3) $(← a 4))
      | ``Z80.readPort, 1 =>
        tryTac do `(tactic| have := readPort_fst' $(← a 0) (by with_reducible assumption))
        tryTac do `(tactic| have := readPort_snd' $(← a 0) (by with_reducible assumption))
      | ``Tbl.R1, 1 => tryTac do `(tactic| have := R1_byte' $(← a 0) (by omega))
      | ``Tbl.R2, 1 => tryTac do `(tactic| have := R2_byte' $(← a 0) (by omega))
      | ``Tbl.SZ53P, 1 => tryTac do `(tactic| have := SZ53P_even' $(← a 0) (by omega))
      | ``Tbl.PARITY, 1 => tryTac do `(tactic| have := PARITY_le' $(← a 0) (by omega))
      | ``Tbl.BIT, 3 => tryTac do `(tactic| have := BIT_byte' $(← a 0) $(← a 1) $(← a 2) (by omega) (by omega) (by omega))
      | ``TblI1.get, 2 =>
        match args[0]!.constName? with
        | some ``TblI1.SZ53P =>
          tryTac do `(tactic| with_unfolding_all (have : 0 ≤ $(← stx e) ∧ $(← stx e) ≤ 254 := SZ53P_even' $(← a 1) (by omega)))
        | some ``TblI1.PARITY =>
          tryTac do `(tactic| with_unfolding_all (have : $(← stx e) = 0 ∨ $(← stx e) = 4 := PARITY_le' $(← a 1) (by omega)))
        | _ =>
          match ← dims ``TblI1.dims args[0]! with
          | some #[d0] => tryTac do `(tactic| have := TblI1_range' $(← a 0) $(← a 1) $d0 (by with_unfolding_all rfl) (by omega))
          | _ => tryTac do `(tactic| have := TblI1_range' $(← a 0) $(← a 1) _ (by dims_tac) (by omega))
      | ``TblI2.get, 3 =>
        match ← dims ``TblI2.dims args[0]! with
        | some #[d0, d1] =>
          tryTac do `(tactic| have := TblI2_range' $(← a 0) $(← a 1) $(← a 2) $d0 $d1 (by with_unfolding_all rfl) (by omega) (by omega))
        | _ => tryTac do `(tactic| have := TblI2_range' $(← a 0) $(← a 1) $(← a 2) _ _ (by dims_tac) (by omega) (by omega))
      | ``TblI3.get, 4 =>
        match ← dims ``TblI3.dims args[0]! with
        | some #[d0, d1, d2] =>
          tryTac do `(tactic| have := TblI3_range' $(← a 0) $(← a 1) $(← a 2) $(← a 3) $d0 $d1 $d2 (by with_unfolding_all rfl)
              (by omega) (by omega) (by omega))
        | _ => tryTac do `(tactic| have := TblI3_range' $(← a 0) $(← a 1) $(← a 2) $(← a 3) _ _ _ (by dims_tac)
              (by omega) (by omega) (by omega))
      | ``TblP1.get, 2 =>
        match ← dims ``TblP1.dims args[0]! with
        | some #[d0] => tryTac do `(tactic| have := TblP1_range' $(← a 0) $(← a 1) $d0 (by with_unfolding_all rfl) (by omega))
        | _ => tryTac do `(tactic| have := TblP1_range' $(← a 0) $(← a 1) _ (by dims_tac) (by omega))
      | ``TblP2.get, 3 =>
        match ← dims ``TblP2.dims args[0]! with
        | some #[d0, d1] =>
          tryTac do `(tactic| have := TblP2_range' $(← a 0) $(← a 1) $(← a 2) $d0 $d1 (by with_unfolding_all rfl) (by omega) (by omega))
        | _ => tryTac do `(tactic| have := TblP2_range' $(← a 0) $(← a 1) $(← a 2) _ _ (by dims_tac) (by omega) (by omega))
      | ``TblP3.get, 4 =>
        match ← dims ``TblP3.dims args[0]! with
        | some #[d0, d1, d2] =>
          tryTac do `(tactic| have := TblP3_range' $(← a 0) $(← a 1) $(← a 2) $(← a 3) $d0 $d1 $d2 (by with_unfolding_all rfl)
              (by omega) (by omega) (by omega))
        | _ => tryTac do `(tactic| have := TblP3_range' $(← a 0) $(← a 1) $(← a 2) $(← a 3) _ _ _ (by dims_tac)
              (by omega) (by omega) (by omega))
      | ``HMod.hMod, 6 =>
        -- `T % frame_duration`: a variable modulus (literal moduli are `omega`'s business)
        if (← getIntValue? args[5]!).isNone then
          tryTac do `(tactic| have := emod_bounds' $(← a 4) $(← a 5) (by omega))
      | ``Contend.io_contention, 5 =>
        tryTac do `(tactic| have := CInt.patLen_io $(← a 2) $(← a 3) $(← a 4))
      | ``Contend.contend, 6 =>
        tryTac do `(tactic| have : 0 ≤ $(← stx e) := Contend.contend_nonneg _ _ _ _)
        tryTac do `(tactic| (have hcb := CInt.contend_le $(← a 2) $(← a 3) $(← a 4) $(← a 5)
                             simp only [CInt.patLen_cons, CInt.patLen_append, CInt.patLen_nil] at hcb))
      | _, _ => pure ()

/-- side goals `0 ≤ x`, `x < 2^32` of the wrap-removal rewrites -/
macro "cint_disch" : tactic => `(tactic| (first | assumption | omega | (cfacts; omega)))

/-- wrap removal and normalisation; `extra`: rewrite rules from the context (e.g. `tblget_rinc r_inc hri`) -/
syntax "ceq_simp" ("[" ident,* "]")? : tactic
macro_rules
  | `(tactic| ceq_simp) => `(tactic| ceq_simp [])
  | `(tactic| ceq_simp [$hs,*]) => `(tactic|
  simp (maxSteps := 4000000) (disch := cint_disch) only [u32_of_range', u64_of_range', i32_of_range', u8_of_range', i64_of_range,
    tmod_of_nonneg, tdiv_of_nonneg,
    ↓ land_1, ↓ land_3, ↓ land_7, ↓ land_15, ↓ land_127, ↓ land_255, ↓ land_4095, ↓ land_65535, shr_8,
    ↓ u32_mod_65536, ↓ u32_mod_256, ↓ u32_mod_128, ↓ u32_mod_16, ↓ u32_mod_8, ↓ u32_mod_2, ↓ u32_mod_4096,
    ↓ i32_mod_65536, ↓ i32_mod_256, ↓ u64_mod_65536, ↓ i32_u32, ↓ u32_i32, ↓ u32_u32, ↓ u8_u32, ↓ u8_i32,
    u32_add_u32_l, u32_add_u32_r, u32_sub_u32_l, u32_sub_u32_r,
    ↓ add_u32_mod_65536, ↓ u32_add_mod_65536, ↓ sub_u32_mod_65536, ↓ u32_sub_mod_65536, ↓ add_u32_mod_256, ↓ u32_add_mod_256,
    ↓ add_ite_u32_mod_65536, ↓ add_u32_ite_mod_65536,
    rget_rset_ne, Tbl.R1, Tbl.R2, Tbl.JR_OFFSETS, Tbl.OFFSETS, tblget, contend_mset, io_contention_mset,
    patT_cons, patT_append, patT_nil, patT_io, $[$hs:ident],*])

/-- the generic proof of `C handler = Python closure` (see `Proofs/CIntLemmas.lean`); `[h, …]`: extra rewrite rules
from the context -/
syntax "ceq_tac" ("[" ident,* "]")? : tactic
macro_rules
  | `(tactic| ceq_tac) => `(tactic| ceq_tac [])
  | `(tactic| ceq_tac [$hs,*]) => `(tactic|
  ((simp only [csim_handler, sim_handler, Id.run, pure, if_true, if_false, $[$hs:ident],*]) <;>
   (try ceq_simp [$hs,*]) <;>
   (try simp only [CInt.u32, CInt.u64, CInt.i32, CInt.u8, PyInt.p2i]) <;>
   (first
    | with_reducible rfl
    | (apply St_ext' <;> (try intro i) <;>
        (first | grind [rget_rset, rset_size] | grind [rget_rset, rset_size, RegsOk.byte, Byte])))))

/-- variant for the pure register shuffles (EX/EXX: a dozen `rset`s in different orders on the two sides): the cells
are compared after rewriting every `rget (rset …)` -/
macro "ceq_tac_regs" : tactic => `(tactic|
  ((simp only [csim_handler, sim_handler, Id.run, pure]) <;>
   (try ceq_simp) <;>
   (try simp only [CInt.u32, CInt.u64, CInt.i32, CInt.u8, PyInt.p2i]) <;>
   (first
    | with_reducible rfl
    | (apply St_ext' <;> (try intro i) <;> (try simp only [rget_rset, rset_size]) <;>
        (first | with_reducible rfl | grind | grind [rget_rset, rset_size])))))

end Z80
