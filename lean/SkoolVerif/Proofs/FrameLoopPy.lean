import SkoolVerif.Gen.PyLoopCores
import SkoolVerif.Proofs.RunLoopPy
import SkoolVerif.Model.RzxPlay
/-!
The Python frame loop of `rzxplay.process_block` (`while fetch_counter > 0:`, translated by `translate/pyloop2lean.py` as a loop core:
`Gen/PyLoopCores.lean`) against the hand model `Rzx.runFrame` / `Rzx.fetchDec` of C20.
-/
open Z80

namespace RunLoop
variable {μ : Type} [MemLike μ]

/-- the callbacks of one pass of the frame loop of `process_block` -/
def pyFrameLog (em tf : Bool) (pc t0 fc' : Int) (log : List (List Int)) : List (List Int) :=
  let log1 := if em = true then [2, pc] :: log else log
  if tf = true then [1, fc', pc, t0] :: log1 else log1

/-! ### over `Simulator` -/

theorem py_frame_body (cfg : Cfg) (em tf : Bool) (s : St μ) (l : PyLoop.Sim.Frame_loopLocals) (hfc : l.fetch_counter > 0) :
    PyLoop.Sim.frame_loop_loop1_body cfg em tf s l =
      ((Sim.step cfg s,
        ⟨l.fetch_counter - Rzx.fetchDec (mget s.mem s.pc) (rget s.reg 15) (rget (Sim.step cfg s).reg 15), s.pc, s.t, mget s.mem s.pc,
          if mget s.mem s.pc = 221 ∨ mget s.mem s.pc = 253 then rget s.reg 15 else l.r0,
          pyFrameLog em tf s.pc s.t (l.fetch_counter - Rzx.fetchDec (mget s.mem s.pc) (rget s.reg 15) (rget (Sim.step cfg s).reg 15)) l.cblog⟩),
        .continue_) := by
  have hstep : Sim.exec cfg (Sim.OpTbl.get .MAIN (mget s.mem s.pc)) s = Sim.step cfg s := by unfold Sim.step; rfl
  have hc : ¬ ¬ l.fetch_counter > 0 := fun h => h hfc
  unfold pyFrameLog Rzx.fetchDec
  simp (maxSteps := 4000000) only [PyLoop.Sim.frame_loop_loop1_body, Id.run, pure, hstep, hc, if_false]
  clear hstep
  grind

theorem py_frame_body_done (cfg : Cfg) (em tf : Bool) (s : St μ) (l : PyLoop.Sim.Frame_loopLocals) (hfc : ¬ l.fetch_counter > 0) :
    PyLoop.Sim.frame_loop_loop1_body cfg em tf s l = ((s, l), .break_) := by
  simp only [PyLoop.Sim.frame_loop_loop1_body, Id.run, pure, hfc, not_false_eq_true, if_true]

omit [MemLike μ] in
theorem fetchDec_range (o r0 r1 : Int) : 1 ≤ Rzx.fetchDec o r0 r1 ∧ Rzx.fetchDec o r0 r1 ≤ 2 := by
  unfold Rzx.fetchDec
  split
  · omega
  · split <;> omega

/-- the translated Python frame loop against the hand model `Rzx.runFrame` (C20): whenever the model's frame ends without the
"port readings exhausted" error, the translated loop (one more pass of fuel: the failing `while` test) ends in the same state with `pc`
the address of the last instruction executed (the incoming `pc` if none was) -/
theorem py_frame_loop (cfg : Cfg) (em tf : Bool) (n : Nat) (s : St μ) (l : PyLoop.Sim.Frame_loopLocals) (hfu : l.fetch_counter ≤ n)
    (r : St μ × Int) (hok : Rzx.runFrame (fun s => Sim.step cfg s) n l.fetch_counter s l.pc = .ok r) :
    ∃ l', PyLoop.Sim.frame_loop_loop1 cfg em tf (n + 1) s l = ((r.1, l'), .break_) ∧ l'.pc = r.2 := by
  unfold PyLoop.Sim.frame_loop_loop1
  induction n generalizing s l with
  | zero =>
    have hfc : ¬ l.fetch_counter > 0 := by omega
    simp only [Rzx.runFrame] at hok
    obtain rfl : (s, l.pc) = r := Except.ok.inj hok
    refine ⟨l, ?_, rfl⟩
    rw [iterate_exit _ 0 (s, l) (by simp only [py_frame_body_done cfg em tf s l hfc]; exact fun e => nomatch e)]
    exact py_frame_body_done cfg em tf s l hfc
  | succ n ih =>
    simp only [Rzx.runFrame] at hok
    by_cases hfc : l.fetch_counter > 0
    · rw [if_pos hfc] at hok
      simp only [Rzx.pyIter] at hok
      by_cases hex : (Sim.step cfg s).inLog.length > s.inLog.length ∧ s.ins = []
      · rw [if_pos hex] at hok; exact nomatch hok
      · rw [if_neg hex] at hok
        simp only [Rzx.andThen] at hok
        have hb := py_frame_body cfg em tf s l hfc
        have hdec := fetchDec_range (mget s.mem s.pc) (rget s.reg 15) (rget (Sim.step cfg s).reg 15)
        have hn1 : ((n + 1 : Nat) : Int) = n + 1 := by omega
        obtain ⟨l', ih1, ih2⟩ := ih (Sim.step cfg s) (PyLoop.Sim.frame_loop_loop1_body cfg em tf s l).1.2
          (by simp only [hb]; omega) (by simp only [hb]; exact hok)
        simp only [hb] at ih1
        refine ⟨l', ?_, ih2⟩
        rw [iterate_continue _ (n + 1) (s, l) (by simp only [hb])]
        simp only [hb]
        exact ih1
    · rw [if_neg hfc] at hok
      obtain rfl : (s, l.pc) = r := Except.ok.inj hok
      refine ⟨l, ?_, rfl⟩
      rw [iterate_exit _ (n + 1) (s, l) (by simp only [py_frame_body_done cfg em tf s l hfc]; exact fun e => nomatch e)]
      exact py_frame_body_done cfg em tf s l hfc

/-- **the Python frame loop of `process_block`, translated, is the hand model `Rzx.runFrame`** (what `innerLoop .py` runs) -/
theorem py_frame (cfg : Cfg) (em tf : Bool) (fc pc0 : Int) (log0 : List (List Int)) (s : St μ) (n : Nat) (hn : fc ≤ n) (r : St μ × Int)
    (hok : Rzx.runFrame (fun s => Sim.step cfg s) n fc s pc0 = .ok r) :
    (PyLoop.Sim.frame_loop cfg (n + 1) em tf fc pc0 log0 s).1.1 = r.1 ∧ (PyLoop.Sim.frame_loop cfg (n + 1) em tf fc pc0 log0 s).1.2.pc = r.2 ∧
      (PyLoop.Sim.frame_loop cfg (n + 1) em tf fc pc0 log0 s).2 = true := by
  obtain ⟨l', h1, h2⟩ := py_frame_loop cfg em tf n s ⟨fc, pc0, 0, 0, 0, log0⟩ hn r hok
  simp only [PyLoop.Sim.frame_loop, Id.run, pure]
  rw [h1]
  simp [h2]

/-! ### over `CMIOSimulator` -/

theorem py_cmio_frame_body (cfg : Cfg) (em tf : Bool) (s : St μ) (l : PyLoop.Cmio.Frame_loopLocals) (hfc : l.fetch_counter > 0) :
    PyLoop.Cmio.frame_loop_loop1_body cfg em tf s l =
      ((Cmio.step cfg s,
        ⟨l.fetch_counter - Rzx.fetchDec (mget s.mem s.pc) (rget s.reg 15) (rget (Cmio.step cfg s).reg 15), s.pc, s.t, mget s.mem s.pc,
          if mget s.mem s.pc = 221 ∨ mget s.mem s.pc = 253 then rget s.reg 15 else l.r0,
          pyFrameLog em tf s.pc s.t (l.fetch_counter - Rzx.fetchDec (mget s.mem s.pc) (rget s.reg 15) (rget (Cmio.step cfg s).reg 15)) l.cblog⟩),
        .continue_) := by
  have hstep : Cmio.exec cfg (Cmio.OpTbl.get .MAIN (mget s.mem s.pc)) s = Cmio.step cfg s := by unfold Cmio.step; rfl
  have hc : ¬ ¬ l.fetch_counter > 0 := fun h => h hfc
  unfold pyFrameLog Rzx.fetchDec
  simp (maxSteps := 4000000) only [PyLoop.Cmio.frame_loop_loop1_body, Id.run, pure, hstep, hc, if_false]
  clear hstep
  grind

theorem py_cmio_frame_body_done (cfg : Cfg) (em tf : Bool) (s : St μ) (l : PyLoop.Cmio.Frame_loopLocals) (hfc : ¬ l.fetch_counter > 0) :
    PyLoop.Cmio.frame_loop_loop1_body cfg em tf s l = ((s, l), .break_) := by
  simp only [PyLoop.Cmio.frame_loop_loop1_body, Id.run, pure, hfc, not_false_eq_true, if_true]

/-- the translated Python frame loop against the hand model `Rzx.runFrame` (C20): whenever the model's frame ends without the
"port readings exhausted" error, the translated loop (one more pass of fuel: the failing `while` test) ends in the same state with `pc`
the address of the last instruction executed (the incoming `pc` if none was) -/
theorem py_cmio_frame_loop (cfg : Cfg) (em tf : Bool) (n : Nat) (s : St μ) (l : PyLoop.Cmio.Frame_loopLocals) (hfu : l.fetch_counter ≤ n)
    (r : St μ × Int) (hok : Rzx.runFrame (fun s => Cmio.step cfg s) n l.fetch_counter s l.pc = .ok r) :
    ∃ l', PyLoop.Cmio.frame_loop_loop1 cfg em tf (n + 1) s l = ((r.1, l'), .break_) ∧ l'.pc = r.2 := by
  unfold PyLoop.Cmio.frame_loop_loop1
  induction n generalizing s l with
  | zero =>
    have hfc : ¬ l.fetch_counter > 0 := by omega
    simp only [Rzx.runFrame] at hok
    obtain rfl : (s, l.pc) = r := Except.ok.inj hok
    refine ⟨l, ?_, rfl⟩
    rw [iterate_exit _ 0 (s, l) (by simp only [py_cmio_frame_body_done cfg em tf s l hfc]; exact fun e => nomatch e)]
    exact py_cmio_frame_body_done cfg em tf s l hfc
  | succ n ih =>
    simp only [Rzx.runFrame] at hok
    by_cases hfc : l.fetch_counter > 0
    · rw [if_pos hfc] at hok
      simp only [Rzx.pyIter] at hok
      by_cases hex : (Cmio.step cfg s).inLog.length > s.inLog.length ∧ s.ins = []
      · rw [if_pos hex] at hok; exact nomatch hok
      · rw [if_neg hex] at hok
        simp only [Rzx.andThen] at hok
        have hb := py_cmio_frame_body cfg em tf s l hfc
        have hdec := fetchDec_range (mget s.mem s.pc) (rget s.reg 15) (rget (Cmio.step cfg s).reg 15)
        have hn1 : ((n + 1 : Nat) : Int) = n + 1 := by omega
        obtain ⟨l', ih1, ih2⟩ := ih (Cmio.step cfg s) (PyLoop.Cmio.frame_loop_loop1_body cfg em tf s l).1.2
          (by simp only [hb]; omega) (by simp only [hb]; exact hok)
        simp only [hb] at ih1
        refine ⟨l', ?_, ih2⟩
        rw [iterate_continue _ (n + 1) (s, l) (by simp only [hb])]
        simp only [hb]
        exact ih1
    · rw [if_neg hfc] at hok
      obtain rfl : (s, l.pc) = r := Except.ok.inj hok
      refine ⟨l, ?_, rfl⟩
      rw [iterate_exit _ (n + 1) (s, l) (by simp only [py_cmio_frame_body_done cfg em tf s l hfc]; exact fun e => nomatch e)]
      exact py_cmio_frame_body_done cfg em tf s l hfc

/-- **the Python frame loop of `process_block`, translated, is the hand model `Rzx.runFrame`** (what `innerLoop .py` runs) -/
theorem py_cmio_frame (cfg : Cfg) (em tf : Bool) (fc pc0 : Int) (log0 : List (List Int)) (s : St μ) (n : Nat) (hn : fc ≤ n) (r : St μ × Int)
    (hok : Rzx.runFrame (fun s => Cmio.step cfg s) n fc s pc0 = .ok r) :
    (PyLoop.Cmio.frame_loop cfg (n + 1) em tf fc pc0 log0 s).1.1 = r.1 ∧ (PyLoop.Cmio.frame_loop cfg (n + 1) em tf fc pc0 log0 s).1.2.pc = r.2 ∧
      (PyLoop.Cmio.frame_loop cfg (n + 1) em tf fc pc0 log0 s).2 = true := by
  obtain ⟨l', h1, h2⟩ := py_cmio_frame_loop cfg em tf n s ⟨fc, pc0, 0, 0, 0, log0⟩ hn r hok
  simp only [PyLoop.Cmio.frame_loop, Id.run, pure]
  rw [h1]
  simp [h2]

/-! ### the end-of-frame code of `process_block` (`registers[25] = 0; fetch_counter = tracer.next_frame(); if registers[26]: …`) -/

/-- **the end-of-frame interrupt rules, translated, are the hand model `Rzx.boundary`** (C20): for the playback flags `flags`
(`flags_ldair = flags & 1`, `flags_ei = flags & 2`), the address `pc` of the last instruction and the next frame's fetch counter -/
theorem py_boundary (cfg : Cfg) (flags pc nextFc : Int) (s : St μ) :
    (PyLoop.Sim.frame_boundary cfg (PyInt.land flags 1) (PyInt.land flags 2) pc nextFc s).1 = Rzx.boundary false flags pc nextFc s ∧
    (PyLoop.Sim.frame_boundary cfg (PyInt.land flags 1) (PyInt.land flags 2) pc nextFc s).2.fetch_counter = nextFc := by
  simp only [PyLoop.Sim.frame_boundary, Id.run, pure, py_accept_eq, traceLoop_accept_eq_rzx]
  unfold Rzx.boundary Rzx.boundaryK Rzx.classify
  simp only []
  constructor <;> grind

theorem py_cmio_boundary (cfg : Cfg) (flags pc nextFc : Int) (s : St μ) :
    (PyLoop.Cmio.frame_boundary cfg (PyInt.land flags 1) (PyInt.land flags 2) pc nextFc s).1 = Rzx.boundary true flags pc nextFc s ∧
    (PyLoop.Cmio.frame_boundary cfg (PyInt.land flags 1) (PyInt.land flags 2) pc nextFc s).2.fetch_counter = nextFc := by
  simp only [PyLoop.Cmio.frame_boundary, Id.run, pure, py_cmio_accept_eq, traceLoop_accept_eq_rzx]
  unfold Rzx.boundary Rzx.boundaryK Rzx.classify
  simp only []
  constructor <;> grind

/-- what a frame that ended normally reports, as numbers: (address of the last instruction, PC); `none`: the model raised -/
def frameObs (r : Except Rzx.Err (St μ × Int)) : Option (Int × Int) := match r with
  | .ok r => some (r.2, r.1.pc)
  | .error _ => none

end RunLoop
