import SkoolVerif.Proofs.CVsPyDefs
/-! Scripts for the C-vs-Python handler equalities that the generic `ceq_tac` does not close. -/
