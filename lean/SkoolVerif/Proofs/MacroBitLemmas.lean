import Mathlib.Data.Int.Bitwise
import SkoolVerif.Model.MacroExpr
/-! The model's `&`, `|`, `^` on integers are Mathlib's two's-complement
`Int.land`, `Int.lor`, `Int.xor`. -/
namespace MacroBitLemmas
open MacroExpr

theorem ldiff_eq (a b : Nat) : MacroExpr.ldiff a b = Nat.ldiff a b := by
  apply Nat.eq_of_testBit_eq
  intro i
  simp only [MacroExpr.ldiff, Nat.testBit_xor, Nat.testBit_and, Nat.testBit_ldiff]
  cases a.testBit i <;> cases b.testBit i <;> rfl

theorem pyAnd_eq_land (a b : Int) : pyAnd a b = Int.land a b := by
  cases a <;> cases b <;> simp [pyAnd, Int.land, ldiff_eq]

theorem pyOr_eq_lor (a b : Int) : pyOr a b = Int.lor a b := by
  cases a <;> cases b <;> simp [pyOr, Int.lor, ldiff_eq]

theorem pyXor_eq_xor (a b : Int) : pyXor a b = Int.xor a b := by
  cases a <;> cases b <;> simp [pyXor, Int.xor]

end MacroBitLemmas
