import SkoolVerif.Proofs.AsmInstrRules
import SkoolVerif.Proofs.C02Tokens
import SkoolVerif.Proofs.C02Data
import SkoolVerif.Proofs.C07Finish
import SkoolVerif.Model.DisText
/-!
The slot-level check of part 1 of C02 and its lifting lemma.

`outOk s so` is a decidable condition on what the disassembler's tables select for the opcode sequences
of slot `s` (`so`, the table-dependent part `InstrDec.disSym` of one `Disassembler.disassemble` step):

* a template without `{}` field: the model of the assembler, run by the kernel on the very text, gives the
  opcode bytes of the slot (and the mnemonic is not address-dependent);
* a template with `{}` fields: the text tokenises (checked by re-joining the tokens) into a mnemonic and
  operands that are template text or one of the operand shapes of `AsmInstrRules`, the rule table `symAsm`
  maps them to a byte pattern, and the pattern is the slot's: opcode bytes where the slot has them, "the byte
  at offset `i`" at every other position `i`;
* a DEFB fallback: nothing to check beyond its shape;
* a VARIANT entry: exempt (the round trip is through the flagged byte list).

`out_roundtrip`: `outOk s so` implies, for every memory, address, base pair, number format and `wrap`, that
assembling the text of the instruction object gives its bytes.
-/
namespace AsmInstrL
open OpText AsmEval AsmInstr InstrDec C02L DisText
set_option linter.unusedSimpArgs false
set_option linter.unusedVariables false

/-! ### symbolic characters of a rendered operation -/

inductive SC where
  | ch (c : Nat)
  | hole (k : Nat) (p : SPiece)
  deriving DecidableEq, Repr

/-- number the `{}` fields of a filled template -/
def toSC : Nat → List SPiece → List SC
  | _, [] => []
  | k, .lit cs :: r => cs.map .ch ++ toSC k r
  | k, p :: r => .hole k p :: toSC (k + 1) r

/-- the fields a template decoder of the disassembler can produce (`relAt` stands for the `jr_arg` target) -/
def okPiece : SPiece → Bool
  | .lit _ | .byteAt _ | .wordAt _ | .idxAt _ | .const _ => true
  | _ => false

def scText (e : Env) : SC → Txt
  | .ch c => [c]
  | .hole k p =>
    match p with
    | .byteAt off => formatByte e.cfg (e.rd off) (e.base k)
    | .wordAt off => formatWord e.cfg (e.rdw off) (e.base k)
    | .idxAt off => indexOffset e.cfg (e.rd off) (e.base k)
    | .const v => formatByte e.cfg v (e.base k)
    | .relAt _ => formatWord e.cfg e.target (e.base k)
    | _ => []

def scsText (e : Env) (l : List SC) : Txt := l.flatMap (scText e)

def SC.isCh : SC → Bool
  | .ch _ => true
  | _ => false

def SC.chr : SC → Nat
  | .ch c => c
  | _ => 0

def upSC : SC → SC
  | .ch c => .ch (upperC c)
  | s => s

/-- a template character that survives `convert_case` / `split_operands` as itself -/
def plainCh (c : Nat) : Bool := c != 34 && c != 44 && c != 92 && !isSpace c

def SC.plain : SC → Bool
  | .ch c => plainCh c
  | .hole _ p => match p with
    | .byteAt _ | .wordAt _ | .idxAt _ | .const _ | .relAt _ => true
    | _ => false

theorem scsText_append (e : Env) (l1 l2 : List SC) : scsText e (l1 ++ l2) = scsText e l1 ++ scsText e l2 := by
  simp [scsText]

theorem scsText_chs (e : Env) (cs : Txt) : scsText e (cs.map .ch) = cs := by
  induction cs with
  | nil => rfl
  | cons c r ih => simp only [List.map_cons, scsText, List.flatMap_cons, scText] at ih ⊢; rw [ih]; rfl

theorem rd_add (e : Env) (off : Nat) : e.mem ((e.a + off + 1) % 65536) = e.rd (off + 1) := by
  simp [Env.rd, Nat.add_assoc]

/-- the model's text of a filled template is the text of its numbered characters -/
theorem piecesText_toSC (e : Env) : ∀ (ps : List SPiece) (k : Nat), ps.all okPiece = true →
    piecesText e.cfg (e.base k) e.b2 e.mem e.a ps = scsText e (toSC k ps)
  | [], _, _ => rfl
  | p :: r, k, h => by
    simp only [List.all_cons, Bool.and_eq_true] at h
    have hb : e.base (k + 1) = e.b2 := by simp [Env.base]
    have ih1 := piecesText_toSC e r k h.2
    have ih2 := piecesText_toSC e r (k + 1) h.2
    rw [hb] at ih2
    cases p <;> simp only [okPiece, Bool.false_eq_true] at h <;>
      first
        | exact absurd h.1 id
        | (simp only [piecesText, toSC, scsText_append, scsText_chs, ih1, ih2, holeText]; done)
        | (simp only [piecesText, toSC, scsText_append, scsText_chs, ih1, ih2, holeText]
           simp [scsText, scText, Env.rd, Env.rdw, Nat.add_assoc])

/-! ### splitting into mnemonic and operands -/

def joinL {α : Type} (sep : α) : List (List α) → List α
  | [] => []
  | [x] => x
  | x :: y :: rest => x ++ sep :: joinL sep (y :: rest)

def splitL {α : Type} [DecidableEq α] (sep : α) : List α → List (List α)
  | [] => [[]]
  | c :: rest =>
    if c = sep then [] :: splitL sep rest
    else match splitL sep rest with
      | p :: ps => (c :: p) :: ps
      | [] => [[c]]

theorem scsText_joinL (e : Env) : ∀ (ops : List (List SC)),
    scsText e (joinL (.ch 44) ops) = joinSep 44 (ops.map (scsText e))
  | [] => rfl
  | [x] => rfl
  | x :: y :: rest => by
    have ih := scsText_joinL e (y :: rest)
    simp only [joinL, List.map_cons, joinSep, scsText_append] at ih ⊢
    rw [show scsText e (SC.ch 44 :: joinL (SC.ch 44) (y :: rest)) = 44 :: scsText e (joinL (SC.ch 44) (y :: rest)) from rfl, ih]

/-! ### operands -/

def SOpnd.sc : SOpnd → List SC
  | .lit t => t.map .ch
  | .hole c k x =>
    match c with
    | .numB => [.hole k (.byteAt x)]
    | .numW => [.hole k (.wordAt x)]
    | .numC => [.hole k (.const x)]
    | .numR => [.hole k (.relAt 0)]
    | .parB => [.ch 40, .hole k (.byteAt x), .ch 41]
    | .parW => [.ch 40, .hole k (.wordAt x), .ch 41]
    | .idxX => [.ch 40, .ch 73, .ch 88, .hole k (.idxAt x), .ch 41]
    | .idxY => [.ch 40, .ch 73, .ch 89, .hole k (.idxAt x), .ch 41]

theorem SOpnd.sc_text (e : Env) (o : SOpnd) : scsText e o.sc = o.txt e := by
  cases o with
  | lit t => exact scsText_chs e t
  | hole c k x => cases c <;> simp [SOpnd.sc, scsText, scText, SOpnd.txt, holeTxt]

/-- the candidate operand for an upper-cased run of characters (validated by `SOpnd.sc`) -/
def mkOpnd (u : List SC) : SOpnd :=
  if u.all SC.isCh then .lit (u.map SC.chr)
  else
    let pre := u.takeWhile SC.isCh
    match u.dropWhile SC.isCh with
    | .hole k p :: _ =>
      let par := pre == [.ch 40]
      match p with
      | .byteAt x => .hole (if par then .parB else .numB) k x
      | .wordAt x => .hole (if par then .parW else .numW) k x
      | .const x => .hole .numC k x
      | .relAt _ => .hole .numR k 0
      | .idxAt x => .hole (if pre == [.ch 40, .ch 73, .ch 89] then .idxY else .idxX) k x
      | _ => .lit []
    | _ => .lit []

/-! ### segments: what `split_operation` makes of the text -/

def upEnv (e : Env) : Env := { e with cfg := { e.cfg with lower := false } }

theorem upEnv_ok (e : Env) (h : e.Ok) : (upEnv e).Ok := ⟨h.mem, h.a⟩

theorem indexOffset_segs (cfg : Cfg) (d : Nat) (base : Base) :
    ∃ segs : List Seg, segs ≠ [] ∧ (∀ s ∈ segs, s.ok) ∧ renderSegs segs = indexOffset cfg d base ∧
      upperSegs segs = indexOffset { cfg with lower := false } d base := by
  unfold indexOffset formatByte
  split
  · obtain ⟨segs, hne, hok, hr, hu⟩ := numStr_segs cfg d 1 base
    refine ⟨.plain [43] :: segs, by simp, ?_, ?_, ?_⟩
    · intro s hs
      simp only [List.mem_cons] at hs
      rcases hs with rfl | hs
      · exact ⟨by simp, by intro c hc; simp at hc; subst hc; decide⟩
      · exact hok s hs
    · simp only [renderSegs, List.map_cons, List.flatten_cons, Seg.render] at hr ⊢; rw [hr]; rfl
    · simp only [upperSegs, List.map_cons, List.flatten_cons, Seg.upper] at hu ⊢; rw [hu]; rfl
  · obtain ⟨segs, hne, hok, hr, hu⟩ := numStr_segs cfg (256 - d) 1 base
    refine ⟨.plain [45] :: segs, by simp, ?_, ?_, ?_⟩
    · intro s hs
      simp only [List.mem_cons] at hs
      rcases hs with rfl | hs
      · exact ⟨by simp, by intro c hc; simp at hc; subst hc; decide⟩
      · exact hok s hs
    · simp only [renderSegs, List.map_cons, List.flatten_cons, Seg.render] at hr ⊢; rw [hr]; rfl
    · simp only [upperSegs, List.map_cons, List.flatten_cons, Seg.upper] at hu ⊢; rw [hu]; rfl

/-- one symbolic character as a run of segments -/
theorem sc_segs (e : Env) (s : SC) (hp : s.plain = true) :
    ∃ segs : List Seg, segs ≠ [] ∧ (∀ x ∈ segs, x.ok) ∧ renderSegs segs = scText e s ∧
      upperSegs segs = scText (upEnv e) (upSC s) := by
  cases s with
  | ch c =>
    simp only [SC.plain, plainCh, Bool.and_eq_true, bne_iff_ne, ne_eq, Bool.not_eq_true'] at hp
    refine ⟨[.plain [c]], by simp, ?_, rfl, rfl⟩
    intro x hx; simp at hx; subst hx
    exact ⟨by simp, by intro d hd; simp at hd; subst hd; exact ⟨hp.1.1.1, hp.1.1.2, hp.1.2, hp.2⟩⟩
  | hole k p =>
    cases p <;> simp only [SC.plain, Bool.false_eq_true] at hp <;>
      simp only [scText, upSC, upEnv, Env.base, Env.rd, Env.rdw, Env.target]
    · exact numStr_segs _ _ _ _
    · exact numStr_segs _ _ _ _
    · exact indexOffset_segs _ _ _
    · exact numStr_segs _ _ _ _
    · exact numStr_segs _ _ _ _

theorem scs_segs (e : Env) : ∀ (l : List SC), l.all SC.plain = true → l ≠ [] →
    ∃ segs : List Seg, segs ≠ [] ∧ (∀ x ∈ segs, x.ok) ∧ renderSegs segs = scsText e l ∧
      upperSegs segs = scsText (upEnv e) (l.map upSC)
  | [], _, h => absurd rfl h
  | [s], hp, _ => by
    simp only [List.all_cons, List.all_nil, Bool.and_true] at hp
    obtain ⟨segs, h1, h2, h3, h4⟩ := sc_segs e s hp
    exact ⟨segs, h1, h2, by simpa [scsText] using h3, by simpa [scsText] using h4⟩
  | s :: t :: r, hp, _ => by
    simp only [List.all_cons, Bool.and_eq_true] at hp
    obtain ⟨segs, h1, h2, h3, h4⟩ := sc_segs e s hp.1
    obtain ⟨segs', h1', h2', h3', h4'⟩ := scs_segs e (t :: r) (by simp [hp.2]) (by simp)
    refine ⟨segs ++ segs', by simp [h1], ?_, ?_, ?_⟩
    · intro x hx
      simp only [List.mem_append] at hx
      rcases hx with hx | hx
      · exact h2 x hx
      · exact h2' x hx
    · simp only [renderSegs, List.map_append, List.flatten_append] at h3 h3' ⊢
      rw [h3, h3']; simp [scsText]
    · simp only [upperSegs, List.map_append, List.flatten_append] at h4 h4' ⊢
      rw [h4, h4']; simp [scsText]

/-! ### the byte pattern of a slot -/

/-- the opcode bytes of the opcode sequences of a slot (`none` = an operand position) -/
def slotPat (s : Slot) : List (Option Nat) :=
  match s.tbl with
  | 0 => [some s.idx]
  | 1 => [some 203, some s.idx]
  | 2 => [some 237, some s.idx]
  | 3 => [some 221, some s.idx]
  | 4 => [some 253, some s.idx]
  | 5 => [some 221, some 203, none, some s.idx]
  | 6 => [some 253, some 203, none, some s.idx]
  | _ => []

/-- memory at `a` starts with the opcode bytes of the pattern -/
def patOk (pat : List (Option Nat)) (mem : Mem) (a : Nat) : Prop :=
  ∀ i n, pat[i]? = some (some n) → mem ((a + i) % 65536) = n

theorem patOk_slotOf (mem : Mem) (a : Nat) (ha : a < 65536) :
    patOk (slotPat (slotOf (mem a) (mem ((a + 1) % 65536)) (mem ((a + 3) % 65536)))) mem a := by
  have h0 : (a + 0) % 65536 = a := by simp; omega
  intro i n h
  unfold slotOf at h
  split at h
  · rename_i hc
    match i, h with
    | 0, h => simp [slotPat] at h; rw [h0, hc, h]
    | 1, h => simp [slotPat] at h; rw [h]
  split at h
  · rename_i hc
    match i, h with
    | 0, h => simp [slotPat] at h; rw [h0, hc, h]
    | 1, h => simp [slotPat] at h; rw [h]
  split at h
  · rename_i hc
    split at h
    · rename_i hc2
      match i, h with
      | 0, h => simp [slotPat] at h; rw [h0, hc, h]
      | 1, h => simp [slotPat] at h; rw [hc2, h]
      | 2, h => simp [slotPat] at h
      | 3, h => simp [slotPat] at h; rw [h]
    · match i, h with
      | 0, h => simp [slotPat] at h; rw [h0, hc, h]
      | 1, h => simp [slotPat] at h; rw [h]
  split at h
  · rename_i hc
    split at h
    · rename_i hc2
      match i, h with
      | 0, h => simp [slotPat] at h; rw [h0, hc, h]
      | 1, h => simp [slotPat] at h; rw [hc2, h]
      | 2, h => simp [slotPat] at h
      | 3, h => simp [slotPat] at h; rw [h]
    · match i, h with
      | 0, h => simp [slotPat] at h; rw [h0, hc, h]
      | 1, h => simp [slotPat] at h; rw [h]
  · match i, h with
    | 0, h => simp [slotPat] at h; rw [h0, h]

/-- the assembled bytes are the slot's: a constant where the pattern has that constant, "the byte at offset
`i`" at position `i` otherwise -/
def sbsOk (pat : List (Option Nat)) : Nat → List SB → Bool
  | _, [] => true
  | i, sb :: r =>
    (match sb with
     | .at off => off == i
     | .const n => pat[i]? == some (some n)) && sbsOk pat (i + 1) r

theorem sbsOk_inst (pat : List (Option Nat)) (e : Env) (hp : patOk pat e.mem e.a) :
    ∀ (sbs : List SB) (i : Nat), sbsOk pat i sbs = true →
      sbs.map (SB.inst e) = (List.range sbs.length).map (fun j => e.mem ((e.a + (i + j)) % 65536))
  | [], _, _ => rfl
  | sb :: r, i, h => by
    simp only [sbsOk, Bool.and_eq_true] at h
    have ih := sbsOk_inst pat e hp r (i + 1) h.2
    have hd : SB.inst e sb = e.mem ((e.a + i) % 65536) := by
      cases sb with
      | «at» off =>
        have : off = i := by simpa using h.1
        subst this; rfl
      | const n =>
        have : pat[i]? = some (some n) := by simpa using h.1
        exact (hp i n this).symm
    simp only [List.map_cons, hd, ih, List.length_cons, List.range_succ_eq_map, List.map_map]
    congr 1
    apply List.map_congr_left
    intro j _
    simp only [Function.comp]
    congr 2; omega

theorem sbsOk_bytesAt (pat : List (Option Nat)) (e : Env) (hp : patOk pat e.mem e.a) (sbs : List SB)
    (h : sbsOk pat 0 sbs = true) : sbs.map (SB.inst e) = bytesAt e.mem e.a sbs.length := by
  rw [sbsOk_inst pat e hp sbs 0 h]
  simp [bytesAt]

/-! ### the check -/

/-- the numbered characters of a template operation -/
def opSC : SOp → Option (List SC)
  | .tmpl ps _ => if ps.all okPiece then some (toSC 0 ps) else none
  | .jr pre post hole off => if hole ∧ off = 0 then some (pre.map .ch ++ .hole 0 (.relAt 0) :: post.map .ch) else none
  | .defb _ _ => none

/-- mnemonic (raw), operands (raw) of the characters of an operation: split at the first space, then at commas -/
def tokenise (l : List SC) : List SC × List (List SC) :=
  (l.takeWhile (fun s => decide (s ≠ .ch 32)), splitL (.ch 44) ((l.dropWhile (fun s => decide (s ≠ .ch 32))).drop 1))

/-- `operation.upper().startswith(('DEFB ', …))` is false for this mnemonic -/
def notDirective (mnU : Txt) : Bool := !(mnU.length == 4 && mnU.take 3 == [68, 69, 70])

/-- a template with `{}` fields (or a relative jump): tokens, rule, byte pattern -/
def holeOk (pat : List (Option Nat)) (isJr : Bool) (len : Nat) (l : List SC) : Bool :=
  let (mn, ops) := tokenise l
  let opnds := ops.map (fun op => mkOpnd (op.map upSC))
  let mnU := mn.map (fun s => upperC s.chr)
  (l == mn ++ .ch 32 :: joinL (.ch 44) ops) && mn.all SC.isCh && mn.all SC.plain && !mn.isEmpty &&
  !ops.isEmpty && ops.all (fun op => !op.isEmpty && op.all SC.plain) &&
  (opnds.map SOpnd.sc == ops.map (fun op => op.map upSC)) && notDirective mnU &&
  (isJr || !(mnU == t%"JR" || mnU == t%"DJNZ")) &&
  match symAsm mnU opnds with
  | some sbs => sbs.length == len && sbsOk pat 0 sbs
  | none => false

/-- the mnemonic's encoder does not look at the address -/
def addrFree (parts : List Txt) : Bool :=
  match parts with
  | [] => true
  | name :: _ =>
    match lookupMnemonic mnemonicTable name with
    | some (.fnA _) => false
    | _ => true

/-- a template without `{}` field: run the assembler model on the text -/
def litOk (pat : List (Option Nat)) (len : Nat) (text : Txt) : Bool :=
  match asmInstr text 0 with
  | .ok bs => bs.length == len && pat == bs.map some && (assembleData text).isNone && addrFree (splitOperation text)
  | _ => false

/-- the slot check -/
def outOk (s : Slot) (so : SOut) : Bool :=
  so.flags % 2 == 1 ||
  match so.op with
  | .defb off n => off == 0 && decide (1 ≤ n) && so.add == 0 && so.fixedLen.isNone
  | .jr _ _ _ off =>
    off == 0 && so.add == 0 && so.fixedLen.isNone &&
    (match opSC so.op with
     | some l => holeOk (slotPat s) true 2 l
     | none => false)
  | .tmpl ps len =>
    decide (1 ≤ so.nominal) && decide (so.nominal ≤ 4) &&
    (match opSC so.op with
     | some l => if l.all SC.isCh then litOk (slotPat s) so.nominal (l.map SC.chr) else holeOk (slotPat s) false so.nominal l
     | none => false)

/-! ### soundness of the check -/

theorem scsText_allCh (e : Env) : ∀ (l : List SC), l.all SC.isCh = true → scsText e l = l.map SC.chr
  | [], _ => rfl
  | s :: r, h => by
    simp only [List.all_cons, Bool.and_eq_true] at h
    have ih := scsText_allCh e r h.2
    cases s with
    | ch c => simp only [scsText, List.flatMap_cons, scText, List.map_cons, SC.chr] at ih ⊢; rw [ih]; rfl
    | hole k p => simp [SC.isCh] at h

/-- segments for every operand -/
theorem ops_segs (e : Env) : ∀ (ops : List (List SC)),
    ops.all (fun op => !op.isEmpty && op.all SC.plain) = true →
    ∃ segss : List (List Seg), segss.length = ops.length ∧ (∀ o ∈ segss, o ≠ [] ∧ ∀ s ∈ o, s.ok) ∧
      segss.map renderSegs = ops.map (scsText e) ∧
      segss.map upperSegs = ops.map (fun op => scsText (upEnv e) (op.map upSC))
  | [], _ => ⟨[], rfl, by simp, rfl, rfl⟩
  | op :: r, h => by
    simp only [List.all_cons, Bool.and_eq_true, Bool.not_eq_true', List.isEmpty_eq_false_iff] at h
    obtain ⟨segss, h1, h2, h3, h4⟩ := ops_segs e r (by simpa using h.2)
    obtain ⟨segs, g1, g2, g3, g4⟩ := scs_segs e op h.1.2 h.1.1
    refine ⟨segs :: segss, by simp [h1], ?_, by simp [g3, h3], by simp [g4, h4]⟩
    intro o ho
    simp only [List.mem_cons] at ho
    rcases ho with rfl | ho
    · exact ⟨g1, g2⟩
    · exact h2 o ho

theorem directiveOf_none (mn rest : Txt) (hsp : ∀ c ∈ mn, isSpace c = false) (hnd : notDirective (mn.map upperC) = true) :
    AsmEval.directiveOf (mn ++ 32 :: rest) = none := by
  have hu : ∀ c, isSpace c = false → upperC c ≠ 32 := by
    intro c hc
    unfold upperC
    split
    · rename_i h; omega
    · intro e; subst e; simp [isSpace] at hc
  have h32 : upperC 32 = 32 := by decide
  match mn, hsp, hnd with
  | [], _, _ =>
    simp only [AsmEval.directiveOf, List.nil_append, List.take, List.map_cons, h32]
  | [a], _, _ =>
    simp only [AsmEval.directiveOf, List.cons_append, List.nil_append, List.take, List.map_cons, h32]
    split
    · rename_i x heq; simp at heq
    · rfl
  | [a, b], _, _ =>
    simp only [AsmEval.directiveOf, List.cons_append, List.nil_append, List.take, List.map_cons, h32]
    split
    · rename_i x heq; simp at heq
    · rfl
  | [a, b, c], _, _ =>
    simp only [AsmEval.directiveOf, List.cons_append, List.nil_append, List.take, List.map_cons, h32]
    split
    · rename_i x heq
      simp at heq
      obtain ⟨_, _, _, hx, _⟩ := heq
      subst hx; simp
    · rfl
  | [a, b, c, d], _, hnd =>
    simp only [notDirective, List.map_cons, List.map_nil, List.length_cons, List.length_nil, List.take] at hnd
    simp only [AsmEval.directiveOf, List.cons_append, List.nil_append, List.take, List.map_cons, List.map_nil, h32]
    split
    · rename_i x heq
      simp only [List.cons.injEq, and_true] at heq
      obtain ⟨h1, h2, h3, _⟩ := heq
      simp [h1, h2, h3] at hnd
    · rfl
  | a :: b :: c :: d :: f :: r, hsp, _ =>
    have := hu f (hsp f (by simp))
    simp only [AsmEval.directiveOf, List.cons_append, List.take, List.map_cons, List.map_nil]
    split
    · rename_i x heq
      simp only [List.cons.injEq, and_true] at heq
      exact absurd heq.2.2.2.2 this
    · rfl

theorem inst_upEnv (e : Env) (sb : SB) : SB.inst (upEnv e) sb = SB.inst e sb := by cases sb <;> rfl

theorem holeOk_sound (pat : List (Option Nat)) (isJr : Bool) (len : Nat) (l : List SC)
    (h : holeOk pat isJr len l = true) (e : Env) (he : e.Ok) (hp : patOk pat e.mem e.a)
    (hjr : isJr = true → ∃ t, jrTarget e.a (e.rd 1) = some t)
    (hadm : e.b1 = .m → nonNegMnemonic (scsText e l) = false) :
    asmInstr (scsText e l) e.a = .ok (bytesAt e.mem e.a len) := by
  unfold holeOk at h
  generalize hmo : tokenise l = mo at h
  obtain ⟨mn, ops⟩ := mo
  simp only [Bool.and_eq_true, beq_iff_eq, Bool.not_eq_true', List.isEmpty_eq_false_iff] at h
  obtain ⟨⟨⟨⟨⟨⟨⟨⟨⟨hl, hmch⟩, hmpl⟩, hmne⟩, hone⟩, hopl⟩, hsc⟩, hnd⟩, hjrc⟩, hsym⟩ := h
  split at hsym
  · rename_i sbs hs
    simp only [Bool.and_eq_true, beq_iff_eq] at hsym
    obtain ⟨hlen, hsb⟩ := hsym
    -- the text
    have hmn : scsText e mn = mn.map SC.chr := scsText_allCh e mn hmch
    have htext : scsText e l = mn.map SC.chr ++ 32 :: joinSep 44 (ops.map (scsText e)) := by
      rw [hl, scsText_append, hmn]
      show _ ++ (32 :: scsText e (joinL (SC.ch 44) ops)) = _
      rw [scsText_joinL]
    have hplain : ∀ c ∈ mn.map SC.chr, c ≠ 34 ∧ c ≠ 44 ∧ c ≠ 92 ∧ isSpace c = false := by
      intro c hc
      simp only [List.mem_map] at hc
      obtain ⟨s, hs, rfl⟩ := hc
      have h1 := List.all_eq_true.mp hmch s hs
      have h2 := List.all_eq_true.mp hmpl s hs
      cases s with
      | ch c =>
        simp [SC.plain, plainCh, SC.chr] at h2 ⊢
        exact ⟨h2.1.1.1, h2.1.1.2, h2.1.2, h2.2⟩
      | hole k p => simp [SC.isCh] at h1
    have hmnp : PlainTxt (mn.map SC.chr) := ⟨by simpa using hmne, hplain⟩
    obtain ⟨segss, g1, g2, g3, g4⟩ := ops_segs e ops hopl
    have hsne : segss ≠ [] := by
      intro e0; rw [e0] at g1; simp at g1; exact hone (List.length_eq_zero_iff.mp g1.symm)
    have hsplit := splitOperation_render (mn.map SC.chr) hmnp segss hsne g2
    rw [g3, ← htext, g4] at hsplit
    have hmnU : (mn.map SC.chr).map upperC = mn.map (fun s => upperC s.chr) := by simp
    have hops : ops.map (fun op => scsText (upEnv e) (op.map upSC)) =
        (ops.map (fun op => mkOpnd (op.map upSC))).map (SOpnd.txt (upEnv e)) := by
      have : ∀ (os : List SOpnd) (us : List (List SC)), os.map SOpnd.sc = us →
          us.map (scsText (upEnv e)) = os.map (SOpnd.txt (upEnv e)) := by
        intro os us h; subst h
        simp only [List.map_map]
        apply List.map_congr_left
        intro o _
        exact SOpnd.sc_text (upEnv e) o
      have := this _ _ hsc
      simpa [List.map_map] using this
    rw [hmnU, hops] at hsplit
    -- not a DEFx statement
    have hdir : assembleData (scsText e l) = none := by
      rw [htext]
      unfold assembleData
      rw [directiveOf_none _ _ (fun c hc => (hplain c hc).2.2.2) (by rw [hmnU]; exact hnd)]
    -- the rule table
    have hnn : mn.map (fun s => upperC s.chr) = t%"IN" ∨ mn.map (fun s => upperC s.chr) = t%"OUT" ∨
        mn.map (fun s => upperC s.chr) = t%"RST" → (upEnv e).b1 ≠ .m := by
      intro hm hb
      have := hadm hb
      simp only [nonNegMnemonic, hsplit] at this
      rcases hm with hm | hm | hm <;> simp [hm] at this
    have hjr' : mn.map (fun s => upperC s.chr) = t%"JR" ∨ mn.map (fun s => upperC s.chr) = t%"DJNZ" →
        ∃ t, jrTarget (upEnv e).a ((upEnv e).rd 1) = some t := by
      intro hm
      apply hjr
      cases isJr with
      | true => rfl
      | false => rcases hm with hm | hm <;> simp [hm] at hjrc
    have hsound := symAsm_sound (upEnv e) (upEnv_ok e he) _ _ sbs hs hnn hjr'
    unfold asmInstr
    rw [hdir, hsplit]
    show asmTokens _ (upEnv e).a = _
    rw [hsound]
    have : sbs.map (SB.inst (upEnv e)) = sbs.map (SB.inst e) := List.map_congr_left (fun sb _ => inst_upEnv e sb)
    rw [this, sbsOk_bytesAt pat e hp sbs hsb, hlen]
  · simp at hsym

theorem addrFree_eq (parts : List Txt) (h : addrFree parts = true) (a : Nat) : asmTokens parts a = asmTokens parts 0 := by
  unfold addrFree at h
  unfold asmTokens
  cases parts with
  | nil => rfl
  | cons name ops =>
    simp only at h ⊢
    cases hq : lookupMnemonic mnemonicTable name with
    | none => rfl
    | some enc =>
      cases enc with
      | fixed bs => rfl
      | fn f => rfl
      | fnA f => simp [hq] at h

theorem bytesAt_of_pat (bs : List Nat) (mem : Mem) (a : Nat) (hp : patOk (bs.map some) mem a) :
    bytesAt mem a bs.length = bs := by
  apply List.ext_getElem
  · simp [bytesAt]
  · intro i h1 h2
    simp only [bytesAt, List.getElem_map, List.getElem_range]
    exact hp i bs[i] (by simp [h2])

theorem litOk_sound (pat : List (Option Nat)) (len : Nat) (text : Txt) (h : litOk pat len text = true)
    (mem : Mem) (a : Nat) (hp : patOk pat mem a) : asmInstr text a = .ok (bytesAt mem a len) := by
  unfold litOk at h
  split at h
  · rename_i bs hbs
    simp only [Bool.and_eq_true, beq_iff_eq, Option.isNone_iff_eq_none] at h
    obtain ⟨⟨⟨hlen, hpat⟩, hdir⟩, haf⟩ := h
    unfold asmInstr at hbs ⊢
    rw [hdir] at hbs ⊢
    simp only at hbs ⊢
    rw [addrFree_eq _ haf a, hbs, ← hlen, bytesAt_of_pat bs mem a (hpat ▸ hp)]
  · simp at h

theorem asm_defb (cfg : Cfg) (data : List Nat) (hd : ∀ b ∈ data, b < 256) (hne : data ≠ []) (a : Nat) :
    asmInstr (defbDir cfg false data [(0, .n)]) a = .ok data := by
  have := defb_roundtrip_covered cfg false data [(0, .n)] hd (by rw [covered_single]; exact hne)
  rw [covered_single] at this
  unfold asmInstr
  rw [this]

theorem slice_lt (mem : Mem) (hm : ∀ i, mem i < 256) (lo hi : Nat) : ∀ b ∈ slice mem lo hi, b < 256 := by
  intro b hb
  simp only [slice, List.mem_map] at hb
  obtain ⟨i, _, rfl⟩ := hb
  exact hm _

theorem slice_ne_nil (mem : Mem) (lo hi : Nat) (h1 : lo < hi) (h2 : lo < 65536) : slice mem lo hi ≠ [] := by
  intro e
  have := congrArg List.length e
  simp [slice_length] at this
  omega

theorem slice_self (mem : Mem) (a hi : Nat) (ha : a < 65536) :
    slice mem a (a + (slice mem a hi).length) = slice mem a hi := by
  simp only [slice, List.length_map, List.length_range]
  congr 2
  omega

/-- the three outcomes of `finishText`: the decoder's text with the bytes read with wrap-around, or (no
`wrap`, instruction cut at 65536) a DEFB statement of the bytes up to 65536 -/
theorem finishText_cases (cfg : Cfg) (wrap : Bool) (b1 b2 : Base) (mem : Mem) (a : Nat) (so : SOut) (ha : a < 65536)
    (L : Nat) (hL : L = opLength so (opText cfg b1 b2 mem a so.op).2)
    (hL4 : L ≤ 65536) :
    let d := finishText cfg wrap b1 b2 mem a so
    (d.text = (opText cfg b1 b2 mem a so.op).1 ∧ d.bytes = bytesAt mem a L) ∨
    (d.text = (defbText cfg mem a 65536).1 ∧ d.bytes = slice mem a 65536) := by
  have hfin : finishText cfg wrap b1 b2 mem a so =
      if a + L ≤ 65536 then
        { text := (opText cfg b1 b2 mem a so.op).1, bytes := slice mem a (a + L), variant := so.flags % 2 }
      else if wrap then
        { text := (opText cfg b1 b2 mem a so.op).1, bytes := slice mem a 65536 ++ slice mem 0 ((a + L) % 65536),
          variant := so.flags % 2 }
      else { text := (defbText cfg mem a 65536).1, bytes := slice mem a 65536, variant := so.flags % 2 } := by
    rw [hL]; rfl
  intro d
  have hd : d = _ := hfin
  by_cases h : a + L ≤ 65536
  · rw [hd, if_pos h]
    exact Or.inl ⟨rfl, slice_eq_bytesAt mem a L h⟩
  · rw [hd, if_neg h]
    cases wrap
    · exact Or.inr ⟨rfl, rfl⟩
    · exact Or.inl ⟨rfl, slice_wrap_eq_bytesAt mem a L ha (by omega) hL4⟩

theorem asm_defbText (cfg : Cfg) (mem : Mem) (hm : ∀ i, mem i < 256) (lo hi : Nat) (h1 : lo < hi) (h2 : lo < 65536)
    (a : Nat) : asmInstr (defbText cfg mem lo hi).1 a = .ok (slice mem lo hi) :=
  asm_defb cfg _ (slice_lt mem hm lo hi) (slice_ne_nil mem lo hi h1 h2) a

theorem nominal_tmpl (cfg : Cfg) (b1 b2 : Base) (mem : Mem) (a : Nat) (so : SOut) (ps : List SPiece) (len : Nat)
    (h : so.op = .tmpl ps len) :
    so.nominal = opLength so (opText cfg b1 b2 mem a so.op).2 := by
  unfold SOut.nominal opLength
  rw [h]
  cases so.fixedLen <;> rfl

/-- **The lifting lemma**: a slot that passes the check round-trips for every memory that holds its opcode
bytes at `a`, every address, base pair, number format and `wrap` setting. -/
theorem out_roundtrip (s : Slot) (so : SOut) (hok : outOk s so = true) (hv : so.flags % 2 = 0)
    (e : Env) (he : e.Ok) (hpat : patOk (slotPat s) e.mem e.a) (wrap : Bool)
    (hadm : e.b1 = .m → nonNegMnemonic (finishText e.cfg wrap e.b1 e.b2 e.mem e.a so).text = false) :
    asmInstr (finishText e.cfg wrap e.b1 e.b2 e.mem e.a so).text e.a =
      .ok (finishText e.cfg wrap e.b1 e.b2 e.mem e.a so).bytes := by
  have hv' : (so.flags % 2 == 1) = false := by simp [hv]
  simp only [outOk, hv', Bool.false_or] at hok
  obtain ⟨op, add, fixed, flags⟩ := so
  cases op with
  | defb off n =>
    simp only [Bool.and_eq_true, beq_iff_eq, decide_eq_true_eq, Option.isNone_iff_eq_none] at hok
    obtain ⟨⟨⟨rfl, hn⟩, rfl⟩, rfl⟩ := hok
    have hle : e.a + (slice e.mem e.a (e.a + n)).length ≤ 65536 := by have := he.a; rw [slice_length]; omega
    simp only [finishText, opText, defbText, opLength, Nat.add_zero, hle, if_true, slice_self e.mem e.a _ he.a]
    exact asm_defb e.cfg _ (slice_lt e.mem he.mem _ _) (slice_ne_nil e.mem e.a (e.a + n) (by omega) he.a) e.a
  | jr pre post hole off =>
    simp only [Bool.and_eq_true, beq_iff_eq, Option.isNone_iff_eq_none] at hok
    obtain ⟨⟨⟨rfl, rfl⟩, rfl⟩, hok⟩ := hok
    cases hj : jrTarget e.a (e.rd 1) with
    | none =>
      have hj' : jrTarget e.a (e.mem ((e.a + 1) % 65536)) = none := by simpa [Env.rd] using hj
      have hle : e.a + (slice e.mem e.a (e.a + 2)).length ≤ 65536 := by
        have := he.a; rw [slice_length]; omega
      simp only [finishText, opText, Nat.add_zero]
      simp only [hj', defbText, opLength, Nat.add_zero, hle, if_true, slice_self e.mem e.a _ he.a]
      exact asm_defb e.cfg _ (slice_lt e.mem he.mem _ _) (slice_ne_nil e.mem e.a (e.a + 2) (by omega) he.a) e.a
    | some t =>
      have hj' : jrTarget (e.a + 0) (e.mem ((e.a + 0 + 1) % 65536)) = some t := by simpa [Env.rd] using hj
      simp only [opSC] at hok
      split at hok
      · rename_i l hl
        split at hl
        · rename_i hh
          obtain ⟨rfl, _⟩ := hh
          simp only [Option.some.injEq] at hl; subst hl
          have htxt : (opText e.cfg e.b1 e.b2 e.mem e.a (SOp.jr pre post true 0)).1 =
              scsText e (pre.map .ch ++ .hole 0 (.relAt 0) :: post.map .ch) := by
            simp only [opText, hj', if_true, scsText_append, scsText_chs]
            simp [scsText, scText, Env.target, hj, Env.base, scsText_chs e post, List.flatMap_cons]
            exact (scsText_chs e post).symm
          have hcases := finishText_cases e.cfg wrap e.b1 e.b2 e.mem e.a ⟨.jr pre post true 0, 0, none, flags⟩ he.a 2
            (by simp only [opLength, opText, hj']) (by omega)
          rcases hcases with ⟨h1, h2⟩ | ⟨h1, h2⟩
          · rw [h1, h2, htxt]
            rw [h1, htxt] at hadm
            exact holeOk_sound _ true 2 _ hok e he hpat (fun _ => ⟨t, hj⟩) hadm
          · rw [h1, h2]
            exact asm_defbText e.cfg e.mem he.mem e.a 65536 he.a he.a e.a
        · simp at hl
      · simp at hok
  | tmpl ps len =>
    simp only [Bool.and_eq_true, decide_eq_true_eq] at hok
    obtain ⟨⟨hn1, hn4⟩, hok⟩ := hok
    have hnom := nominal_tmpl e.cfg e.b1 e.b2 e.mem e.a ⟨.tmpl ps len, add, fixed, flags⟩ ps len rfl
    simp only [opSC] at hok
    split at hok
    · rename_i l hl
      split at hl
      · rename_i hps
        simp only [Option.some.injEq] at hl; subst hl
        have htxt : (opText e.cfg e.b1 e.b2 e.mem e.a (SOp.tmpl ps len)).1 = scsText e (toSC 0 ps) := by
          have := piecesText_toSC e ps 0 hps
          simpa [opText, Env.base] using this
        have hcases := finishText_cases e.cfg wrap e.b1 e.b2 e.mem e.a ⟨.tmpl ps len, add, fixed, flags⟩ he.a
          (SOut.nominal ⟨.tmpl ps len, add, fixed, flags⟩) hnom (by have := hn4; omega)
        rcases hcases with ⟨h1, h2⟩ | ⟨h1, h2⟩
        · rw [h1, h2, htxt]
          rw [h1, htxt] at hadm
          split at hok
          · rename_i hall
            rw [scsText_allCh e _ hall]
            exact litOk_sound _ _ _ hok e.mem e.a hpat
          · exact holeOk_sound _ false _ _ hok e he hpat (by simp) hadm
        · rw [h1, h2]
          exact asm_defbText e.cfg e.mem he.mem e.a 65536 he.a he.a e.a
      · simp at hl
    · simp at hok

end AsmInstrL
