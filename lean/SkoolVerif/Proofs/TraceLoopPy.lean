import SkoolVerif.Gen.PyLoopCores
import SkoolVerif.Proofs.RunLoopPy
/-!
The Python loop of `Tracer.run` (trace.py; the `else` branch of `if hasattr(simulator, 'trace')`, translated by
`translate/pyloop2lean.py` as a loop core: `Gen/PyLoopCores.lean`) computes `RunLoop.traceLoop` — what the translated C loop
`CSimulator_trace` computes (`Proofs/TraceLoopC.lean`).  The `next_int` bookkeeping is handled once, generically (`sched_pass`).
-/
open Z80 TraceLoop

namespace RunLoop
variable {μ : Type} [MemLike μ]

/-- one pass of the Python loops on the state, as written: the `next_int` tests around `accept_interrupt` -/
def pyPass (m : Machine μ) (cfg : Cfg) (N : Int) (ints : Bool) (s : St μ) : St μ :=
  let s1 := m.step cfg s
  if s1.t ≥ N ∧ s1.t < N + cfg.int_active ∧ s1.iff ≠ 0 ∧ ints = true then (acceptInterrupt m.cmio s1 s.pc).1 else s1

/-- the `next_int` update of one pass -/
def pyNext (cfg : Cfg) (N t1 : Int) : Int :=
  if t1 ≥ N then (if t1 < N + cfg.int_active then N else N + cfg.frame_duration) else N

/-- the callbacks of one pass of `Tracer.run` -/
def pyTraceLog (tl em : Bool) (pc t0 : Int) (log : List (List Int)) : List (List Int) :=
  let log1 := if tl = true then [1, pc, t0] :: [0, pc] :: log else log
  if em = true then [2, pc] :: log1 else log1

/-- how a pass ends: (exit, stop_cond) -/
def pyTraceExit (mo mt : Int) (stop : Option Int) (ops : Int) (s' : St μ) (sc : Int) : LoopExit Unit × Int :=
  if mo > 0 ∧ ops ≥ mo then (.break_, 1)
  else if mt > 0 ∧ s'.t ≥ mt then (.break_, 2)
  else if some s'.pc = stop then (.break_, 3)
  else (.continue_, sc)


/-- **`next_int` is a function of the clock** (generic form of `py_body1`): under the invariant `Sched`, the pass as Python writes it
(tests against `next_int`) is the stateless pass `RunLoop.iter` (test `T % frame_duration < int_active`), and the updated `next_int`
satisfies the invariant again -/
theorem sched_pass (m : Machine μ) (cfg : Cfg) {D : Int} (hf : FrameOk cfg D)
    (hd : ∀ s : St μ, s.t ≤ (m.step cfg s).t ∧ (m.step cfg s).t ≤ s.t + D) (N : Int) (ints : Bool) (s : St μ) (hs : Sched cfg N s.t) :
    pyPass m cfg N ints s = iter m ints cfg s ∧ Sched cfg (pyNext cfg N (m.step cfg s).t) (iter m ints cfg s).t := by
  obtain ⟨⟨q, hq⟩, hlo, hhi⟩ := hs
  have hia := hf.ia_pos
  have hfit := hf.fits
  have hD := hf.d_nonneg
  have ht := hd s
  unfold pyPass pyNext iter
  simp only []
  generalize m.step cfg s = s1 at ht ⊢
  have hacc := accept_t m.cmio s1 s.pc
  by_cases h1 : s1.t ≥ N
  · by_cases h2 : s1.t < N + cfg.int_active
    · have hm : s1.t % cfg.frame_duration = s1.t - q * cfg.frame_duration := emod_of_window _ q _ (by omega) (by omega)
      have hlt : s1.t % cfg.frame_duration < cfg.int_active := by omega
      by_cases h3 : s1.iff ≠ 0 ∧ ints = true
      · have c1 : s1.t ≥ N ∧ s1.t < N + cfg.int_active ∧ s1.iff ≠ 0 ∧ ints = true := ⟨h1, h2, h3.1, h3.2⟩
        have c2 : ints = true ∧ s1.iff ≠ 0 ∧ s1.t % cfg.frame_duration < cfg.int_active := ⟨h3.2, h3.1, hlt⟩
        rw [if_pos c1, if_pos c2, if_pos h1, if_pos h2]
        exact ⟨rfl, ⟨q, hq⟩, by omega, by omega⟩
      · have c1 : ¬ (s1.t ≥ N ∧ s1.t < N + cfg.int_active ∧ s1.iff ≠ 0 ∧ ints = true) := fun h => h3 ⟨h.2.2.1, h.2.2.2⟩
        have c2 : ¬ (ints = true ∧ s1.iff ≠ 0 ∧ s1.t % cfg.frame_duration < cfg.int_active) := fun h => h3 ⟨h.2.1, h.1⟩
        rw [if_neg c1, if_neg c2, if_pos h1, if_pos h2]
        exact ⟨rfl, ⟨q, hq⟩, by omega, by omega⟩
    · have hm : s1.t % cfg.frame_duration = s1.t - q * cfg.frame_duration := emod_of_window _ q _ (by omega) (by omega)
      have c1 : ¬ (s1.t ≥ N ∧ s1.t < N + cfg.int_active ∧ s1.iff ≠ 0 ∧ ints = true) := fun h => h2 h.2.1
      have c2 : ¬ (ints = true ∧ s1.iff ≠ 0 ∧ s1.t % cfg.frame_duration < cfg.int_active) := fun h => by have := h.2.2; omega
      rw [if_neg c1, if_neg c2, if_pos h1, if_neg h2]
      exact ⟨rfl, ⟨q + 1, by rw [hq, Int.add_mul]; omega⟩, by omega, by omega⟩
  · have hm : s1.t % cfg.frame_duration = s1.t - (q - 1) * cfg.frame_duration := by
      apply emod_of_window
      · rw [Int.sub_mul]; omega
      · rw [Int.sub_mul]; omega
    have c1 : ¬ (s1.t ≥ N ∧ s1.t < N + cfg.int_active ∧ s1.iff ≠ 0 ∧ ints = true) := fun h => h1 h.1
    have c2 : ¬ (ints = true ∧ s1.iff ≠ 0 ∧ s1.t % cfg.frame_duration < cfg.int_active) :=
      fun h => by have := h.2.2; rw [hm, Int.sub_mul] at this; omega
    rw [if_neg c1, if_neg c2, if_neg h1]
    exact ⟨rfl, ⟨q, hq⟩, by omega, by omega⟩

theorem simM_dur (cfg : Cfg) (s : St μ) : s.t ≤ ((simM : Machine μ).step cfg s).t ∧ ((simM : Machine μ).step cfg s).t ≤ s.t + Tshift.maxDur := by
  rw [simM_step]; exact ⟨Sim.tmono_step cfg s, Sim.dur_step cfg s⟩
theorem cmioM_dur (cfg : Cfg) (s : St μ) : s.t ≤ ((cmioM : Machine μ).step cfg s).t ∧ ((cmioM : Machine μ).step cfg s).t ≤ s.t + Tshift.maxDurCmio := by
  rw [cmioM_step]; exact ⟨Cmio.tmono_step cfg s, Cmio.dur_step cfg s⟩

/-- the final locals of the trace loop as far as the caller reads them -/
structure TraceEnd where
  operations : Int
  stop_cond : Int

/-! ### `Tracer.run` over `Simulator` -/

/-- one pass of the translated `Tracer.run` loop (no `draw`), read off its text -/
theorem py_trace_body (cfg : Cfg) (start : Int) (stop : Option Int) (mo mt : Int) (ints em tl : Bool) (st0 : Int) (k128 : Bool)
    (s : St μ) (l : PyLoop.Sim.Trace_runLocals) (hpc : l.pc = s.pc) (ht : l.tstates = s.t) :
    PyLoop.Sim.trace_run_loop1_body cfg start stop mo mt ints false em tl st0 k128 s l =
      ((pyPass simM cfg l.next_int ints s,
        ⟨l.prev_frame, (pyPass simM cfg l.next_int ints s).pc, l.operations + 1, (pyPass simM cfg l.next_int ints s).t,
          pyNext cfg l.next_int (Sim.step cfg s).t, s.t,
          (pyTraceExit mo mt stop (l.operations + 1) (pyPass simM cfg l.next_int ints s) l.stop_cond).2, l.frame,
          pyTraceLog tl em s.pc s.t l.cblog, l.draws⟩),
        (pyTraceExit mo mt stop (l.operations + 1) (pyPass simM cfg l.next_int ints s) l.stop_cond).1) := by
  have hstep : Sim.exec cfg (Sim.OpTbl.get .MAIN (mget s.mem s.pc)) s = Sim.step cfg s := by unfold Sim.step; rfl
  unfold pyPass pyNext pyTraceLog pyTraceExit
  simp (maxSteps := 4000000) only [PyLoop.Sim.trace_run_loop1_body, Id.run, pure, py_accept_eq, simM, ht, hpc, hstep, Bool.false_eq_true, if_false]
  clear hstep
  grind

theorem trace_locals_eta (l : PyLoop.Sim.Trace_runLocals) : (⟨l.prev_frame, l.pc, l.operations, l.tstates, l.next_int, l.t0, l.stop_cond, l.frame, l.cblog, l.draws⟩ : PyLoop.Sim.Trace_runLocals) = l := rfl

/-- the translated Python trace loop (no `draw`) is `RunLoop.traceLoop`: `operations` and `stop_cond` are its counter and stop condition -/
theorem py_trace_loop (cfg : Cfg) (hf : FrameOk cfg Tshift.maxDur) (start : Int) (stop : Option Int) (mo mt : Int) (ints em tl : Bool) (st0 : Int)
    (k128 : Bool) (fuel : Nat) (s : St μ) (l : PyLoop.Sim.Trace_runLocals) (hpc : l.pc = s.pc) (ht : l.tstates = s.t)
    (hs : Sched cfg l.next_int s.t) :
    ∃ l', PyLoop.Sim.trace_run_loop1 cfg start stop mo mt ints false em tl st0 k128 fuel s l =
        (((traceLoop simM ints cfg mo mt stop fuel l.operations s).1.1, l'),
          if (traceLoop simM ints cfg mo mt stop fuel l.operations s).2.isSome = true then .break_ else .continue_) ∧
      l'.operations = (traceLoop simM ints cfg mo mt stop fuel l.operations s).1.2 ∧
      l'.stop_cond = ((traceLoop simM ints cfg mo mt stop fuel l.operations s).2.getD l.stop_cond) := by
  unfold PyLoop.Sim.trace_run_loop1
  induction fuel generalizing s l with
  | zero => exact ⟨l, by simp only [iterate_zero, traceLoop, Option.isSome_none, Bool.false_eq_true, if_false], rfl, rfl⟩
  | succ n ih =>
    have hb := py_trace_body cfg start stop mo mt ints em tl st0 k128 s l hpc ht
    obtain ⟨hp, hs'⟩ := sched_pass simM cfg hf (simM_dur cfg) l.next_int ints s hs
    rw [simM_step] at hs'
    rw [hp] at hb
    unfold pyTraceExit at hb
    by_cases c1 : mo > 0 ∧ l.operations + 1 ≥ mo
    · rw [if_pos c1] at hb
      rw [traceLoop_exit1 _ _ _ _ _ _ n _ _ c1]
      refine ⟨(PyLoop.Sim.trace_run_loop1_body cfg start stop mo mt ints false em tl st0 k128 s l).1.2, ?_, ?_, ?_⟩
      · rw [iterate_exit _ n (s, l) (by simp only [hb]; exact fun e => nomatch e), hb]; rfl
      · rw [hb]
      · rw [hb]; rfl
    · rw [if_neg c1] at hb
      by_cases c2 : mt > 0 ∧ (iter simM ints cfg s).t ≥ mt
      · rw [if_pos c2] at hb
        rw [traceLoop_exit2 _ _ _ _ _ _ n _ _ c1 c2]
        refine ⟨(PyLoop.Sim.trace_run_loop1_body cfg start stop mo mt ints false em tl st0 k128 s l).1.2, ?_, ?_, ?_⟩
        · rw [iterate_exit _ n (s, l) (by simp only [hb]; exact fun e => nomatch e), hb]; rfl
        · rw [hb]
        · rw [hb]; rfl
      · rw [if_neg c2] at hb
        by_cases c3 : some (iter simM ints cfg s).pc = stop
        · rw [if_pos c3] at hb
          rw [traceLoop_exit3 _ _ _ _ _ _ n _ _ c1 c2 c3]
          refine ⟨(PyLoop.Sim.trace_run_loop1_body cfg start stop mo mt ints false em tl st0 k128 s l).1.2, ?_, ?_, ?_⟩
          · rw [iterate_exit _ n (s, l) (by simp only [hb]; exact fun e => nomatch e), hb]; rfl
          · rw [hb]
          · rw [hb]; rfl
        · rw [if_neg c3] at hb
          rw [traceLoop_go _ _ _ _ _ _ n _ _ c1 c2 c3]
          obtain ⟨l', ih1, ih2, ih3⟩ := ih (iter simM ints cfg s) (PyLoop.Sim.trace_run_loop1_body cfg start stop mo mt ints false em tl st0 k128 s l).1.2 (by simp only [hb]) (by simp only [hb]) (by simp only [hb]; exact hs')
          simp only [hb] at ih1 ih2 ih3
          refine ⟨l', ?_, ih2, ih3⟩
          rw [iterate_continue _ n (s, l) (by simp only [hb])]
          simp only [hb]
          exact ih1

/-- **the Python loop of `Tracer.run`, translated (no `draw` callback), is `RunLoop.traceLoop`** from the start state — the same function
the translated `CSimulator_trace` computes (`c_trace`): final state, `operations`, `stop_cond`, for every fuel; `FrameOk` as for `Simulator.run` -/
theorem py_trace (cfg : Cfg) (hf : FrameOk cfg Tshift.maxDur) (fuel : Nat) (start : Int) (stop : Option Int) (mo mt : Int) (ints em tl : Bool)
    (st0 : Int) (k128 : Bool) (log0 : List (List Int)) (draws0 : List Bool) (s : St μ) :
    (PyLoop.Sim.trace_run cfg fuel start stop mo mt ints false em tl st0 k128 log0 draws0 s).1.1 =
        (traceLoop simM ints cfg mo mt stop fuel 0 { s with pc := start }).1.1 ∧
      (PyLoop.Sim.trace_run cfg fuel start stop mo mt ints false em tl st0 k128 log0 draws0 s).1.2.operations =
        (traceLoop simM ints cfg mo mt stop fuel 0 { s with pc := start }).1.2 ∧
      (PyLoop.Sim.trace_run cfg fuel start stop mo mt ints false em tl st0 k128 log0 draws0 s).1.2.stop_cond =
        (traceLoop simM ints cfg mo mt stop fuel 0 { s with pc := start }).2.getD 0 ∧
      (PyLoop.Sim.trace_run cfg fuel start stop mo mt ints false em tl st0 k128 log0 draws0 s).2 =
        (traceLoop simM ints cfg mo mt stop fuel 0 { s with pc := start }).2.isSome := by
  have hfd : 0 < cfg.frame_duration := by have := hf.fits; have := hf.ia_pos; have := hf.d_nonneg; omega
  obtain ⟨l', h1, h2, h3⟩ := py_trace_loop cfg hf start stop mo mt ints em tl st0 k128 fuel { s with pc := start }
    ⟨st0 / cfg.frame_duration, start, 0, s.t, (s.t + cfg.frame_duration - cfg.int_active) / cfg.frame_duration * cfg.frame_duration, 0, 0, 0, log0, draws0⟩
    rfl rfl (sched_start cfg s.t hfd)
  simp only [PyLoop.Sim.trace_run, Id.run, pure]
  rw [h1]
  rcases hr : traceLoop simM ints cfg mo mt stop fuel 0 { s with pc := start } with ⟨⟨r1, r2⟩, r3⟩
  rw [hr] at h2 h3
  cases r3 <;> simp_all

/-! ### `Tracer.run` over `CMIOSimulator` -/

/-- one pass of the translated `Tracer.run` loop (no `draw`), read off its text -/
theorem py_cmio_trace_body (cfg : Cfg) (start : Int) (stop : Option Int) (mo mt : Int) (ints em tl : Bool) (st0 : Int) (k128 : Bool)
    (s : St μ) (l : PyLoop.Cmio.Trace_runLocals) (hpc : l.pc = s.pc) (ht : l.tstates = s.t) :
    PyLoop.Cmio.trace_run_loop1_body cfg start stop mo mt ints false em tl st0 k128 s l =
      ((pyPass cmioM cfg l.next_int ints s,
        ⟨l.prev_frame, (pyPass cmioM cfg l.next_int ints s).pc, l.operations + 1, (pyPass cmioM cfg l.next_int ints s).t,
          pyNext cfg l.next_int (Cmio.step cfg s).t, s.t,
          (pyTraceExit mo mt stop (l.operations + 1) (pyPass cmioM cfg l.next_int ints s) l.stop_cond).2, l.frame,
          pyTraceLog tl em s.pc s.t l.cblog, l.draws⟩),
        (pyTraceExit mo mt stop (l.operations + 1) (pyPass cmioM cfg l.next_int ints s) l.stop_cond).1) := by
  have hstep : Cmio.exec cfg (Cmio.OpTbl.get .MAIN (mget s.mem s.pc)) s = Cmio.step cfg s := by unfold Cmio.step; rfl
  unfold pyPass pyNext pyTraceLog pyTraceExit
  simp (maxSteps := 4000000) only [PyLoop.Cmio.trace_run_loop1_body, Id.run, pure, py_cmio_accept_eq, cmioM, ht, hpc, hstep, Bool.false_eq_true, if_false]
  clear hstep
  grind

theorem trace_locals_eta_cmio (l : PyLoop.Cmio.Trace_runLocals) : (⟨l.prev_frame, l.pc, l.operations, l.tstates, l.next_int, l.t0, l.stop_cond, l.frame, l.cblog, l.draws⟩ : PyLoop.Cmio.Trace_runLocals) = l := rfl

/-- the translated Python trace loop (no `draw`) is `RunLoop.traceLoop`: `operations` and `stop_cond` are its counter and stop condition -/
theorem py_cmio_trace_loop (cfg : Cfg) (hf : FrameOk cfg Tshift.maxDurCmio) (start : Int) (stop : Option Int) (mo mt : Int) (ints em tl : Bool) (st0 : Int)
    (k128 : Bool) (fuel : Nat) (s : St μ) (l : PyLoop.Cmio.Trace_runLocals) (hpc : l.pc = s.pc) (ht : l.tstates = s.t)
    (hs : Sched cfg l.next_int s.t) :
    ∃ l', PyLoop.Cmio.trace_run_loop1 cfg start stop mo mt ints false em tl st0 k128 fuel s l =
        (((traceLoop cmioM ints cfg mo mt stop fuel l.operations s).1.1, l'),
          if (traceLoop cmioM ints cfg mo mt stop fuel l.operations s).2.isSome = true then .break_ else .continue_) ∧
      l'.operations = (traceLoop cmioM ints cfg mo mt stop fuel l.operations s).1.2 ∧
      l'.stop_cond = ((traceLoop cmioM ints cfg mo mt stop fuel l.operations s).2.getD l.stop_cond) := by
  unfold PyLoop.Cmio.trace_run_loop1
  induction fuel generalizing s l with
  | zero => exact ⟨l, by simp only [iterate_zero, traceLoop, Option.isSome_none, Bool.false_eq_true, if_false], rfl, rfl⟩
  | succ n ih =>
    have hb := py_cmio_trace_body cfg start stop mo mt ints em tl st0 k128 s l hpc ht
    obtain ⟨hp, hs'⟩ := sched_pass cmioM cfg hf (cmioM_dur cfg) l.next_int ints s hs
    rw [cmioM_step] at hs'
    rw [hp] at hb
    unfold pyTraceExit at hb
    by_cases c1 : mo > 0 ∧ l.operations + 1 ≥ mo
    · rw [if_pos c1] at hb
      rw [traceLoop_exit1 _ _ _ _ _ _ n _ _ c1]
      refine ⟨(PyLoop.Cmio.trace_run_loop1_body cfg start stop mo mt ints false em tl st0 k128 s l).1.2, ?_, ?_, ?_⟩
      · rw [iterate_exit _ n (s, l) (by simp only [hb]; exact fun e => nomatch e), hb]; rfl
      · rw [hb]
      · rw [hb]; rfl
    · rw [if_neg c1] at hb
      by_cases c2 : mt > 0 ∧ (iter cmioM ints cfg s).t ≥ mt
      · rw [if_pos c2] at hb
        rw [traceLoop_exit2 _ _ _ _ _ _ n _ _ c1 c2]
        refine ⟨(PyLoop.Cmio.trace_run_loop1_body cfg start stop mo mt ints false em tl st0 k128 s l).1.2, ?_, ?_, ?_⟩
        · rw [iterate_exit _ n (s, l) (by simp only [hb]; exact fun e => nomatch e), hb]; rfl
        · rw [hb]
        · rw [hb]; rfl
      · rw [if_neg c2] at hb
        by_cases c3 : some (iter cmioM ints cfg s).pc = stop
        · rw [if_pos c3] at hb
          rw [traceLoop_exit3 _ _ _ _ _ _ n _ _ c1 c2 c3]
          refine ⟨(PyLoop.Cmio.trace_run_loop1_body cfg start stop mo mt ints false em tl st0 k128 s l).1.2, ?_, ?_, ?_⟩
          · rw [iterate_exit _ n (s, l) (by simp only [hb]; exact fun e => nomatch e), hb]; rfl
          · rw [hb]
          · rw [hb]; rfl
        · rw [if_neg c3] at hb
          rw [traceLoop_go _ _ _ _ _ _ n _ _ c1 c2 c3]
          obtain ⟨l', ih1, ih2, ih3⟩ := ih (iter cmioM ints cfg s) (PyLoop.Cmio.trace_run_loop1_body cfg start stop mo mt ints false em tl st0 k128 s l).1.2 (by simp only [hb]) (by simp only [hb]) (by simp only [hb]; exact hs')
          simp only [hb] at ih1 ih2 ih3
          refine ⟨l', ?_, ih2, ih3⟩
          rw [iterate_continue _ n (s, l) (by simp only [hb])]
          simp only [hb]
          exact ih1

/-- **the Python loop of `Tracer.run`, translated (no `draw` callback), is `RunLoop.traceLoop`** from the start state — the same function
the translated `-DCONTENTION` `CSimulator_trace` computes (`c_cmio_trace`): final state, `operations`, `stop_cond`, for every fuel; `FrameOk` as for `Simulator.run` -/
theorem py_cmio_trace (cfg : Cfg) (hf : FrameOk cfg Tshift.maxDurCmio) (fuel : Nat) (start : Int) (stop : Option Int) (mo mt : Int) (ints em tl : Bool)
    (st0 : Int) (k128 : Bool) (log0 : List (List Int)) (draws0 : List Bool) (s : St μ) :
    (PyLoop.Cmio.trace_run cfg fuel start stop mo mt ints false em tl st0 k128 log0 draws0 s).1.1 =
        (traceLoop cmioM ints cfg mo mt stop fuel 0 { s with pc := start }).1.1 ∧
      (PyLoop.Cmio.trace_run cfg fuel start stop mo mt ints false em tl st0 k128 log0 draws0 s).1.2.operations =
        (traceLoop cmioM ints cfg mo mt stop fuel 0 { s with pc := start }).1.2 ∧
      (PyLoop.Cmio.trace_run cfg fuel start stop mo mt ints false em tl st0 k128 log0 draws0 s).1.2.stop_cond =
        (traceLoop cmioM ints cfg mo mt stop fuel 0 { s with pc := start }).2.getD 0 ∧
      (PyLoop.Cmio.trace_run cfg fuel start stop mo mt ints false em tl st0 k128 log0 draws0 s).2 =
        (traceLoop cmioM ints cfg mo mt stop fuel 0 { s with pc := start }).2.isSome := by
  have hfd : 0 < cfg.frame_duration := by have := hf.fits; have := hf.ia_pos; have := hf.d_nonneg; omega
  obtain ⟨l', h1, h2, h3⟩ := py_cmio_trace_loop cfg hf start stop mo mt ints em tl st0 k128 fuel { s with pc := start }
    ⟨st0 / cfg.frame_duration, start, 0, s.t, (s.t + cfg.frame_duration - cfg.int_active) / cfg.frame_duration * cfg.frame_duration, 0, 0, 0, log0, draws0⟩
    rfl rfl (sched_start cfg s.t hfd)
  simp only [PyLoop.Cmio.trace_run, Id.run, pure]
  rw [h1]
  rcases hr : traceLoop cmioM ints cfg mo mt stop fuel 0 { s with pc := start } with ⟨⟨r1, r2⟩, r3⟩
  rw [hr] at h2 h3
  cases r3 <;> simp_all

end RunLoop
