import SkoolVerif.Proofs.MemLemmas
import SkoolVerif.Proofs.Alu.All
import SkoolVerif.Gen.SimTblEnums
/-!
Range facts: byte/word predicates, their preservation by register and memory updates, and the
byte range of every table the closures receive — derived from the kernel enumerations in
`Proofs/Alu/*` (each checker asserts range as well as equality with the spec).
-/
namespace Z80


/-- registers 0..23: slot 12 (SP) is a word, slot 13 (the constant high byte `ADD HL,SP` reads)
is 0, every other slot a byte -/
def RegsOk (r : Array Int) : Prop :=
  r.size = 24 ∧ Word (rget r 12) ∧ rget r 13 = 0 ∧ ∀ i, 0 ≤ i → i < 24 → i ≠ 12 → Byte (rget r i)

theorem RegsOk.byte {r : Array Int} (h : RegsOk r) (i : Int) (h0 : 0 ≤ i) (h1 : i < 24) (h2 : i ≠ 12) :
    Byte (rget r i) := h.2.2.2 i h0 h1 h2
theorem RegsOk.word {r : Array Int} (h : RegsOk r) : Word (rget r 12) := h.2.1
theorem RegsOk.sp2 {r : Array Int} (h : RegsOk r) : rget r 13 = 0 := h.2.2.1

theorem RegsOk_rset_byte {r : Array Int} (h : RegsOk r) (i v : Int) (h0 : 0 ≤ i) (h1 : i < 24) (h2 : i ≠ 12)
    (h3 : i ≠ 13) (hv : Byte v) : RegsOk (rset r i v) := by
  obtain ⟨hs, hw, h13, hb⟩ := h
  refine ⟨by rw [rset_size]; exact hs, ?_, ?_, ?_⟩
  · rw [rget_rset]; split
    · omega
    · exact hw
  · rw [rget_rset]; split
    · omega
    · exact h13
  · intro j hj0 hj1 hj2
    rw [rget_rset]; split
    · exact hv
    · exact hb j hj0 hj1 hj2

theorem RegsOk_rset_sp {r : Array Int} (h : RegsOk r) (v : Int) (hv : Word v) : RegsOk (rset r 12 v) := by
  obtain ⟨hs, hw, h13, hb⟩ := h
  refine ⟨by rw [rset_size]; exact hs, ?_, ?_, ?_⟩
  · rw [rget_rset]; simp [hs]; exact hv
  · rw [rget_rset]
    have : ¬ ((12 : Int) = 13 ∧ (0 : Int) ≤ 12 ∧ (12 : Int) < r.size) := by omega
    simp only [this, if_false]; exact h13
  · intro j hj0 hj1 hj2
    rw [rget_rset]
    have : ¬ ((12 : Int) = j ∧ (0 : Int) ≤ 12 ∧ (12 : Int) < r.size) := by omega
    simp only [this, if_false]
    exact hb j hj0 hj1 hj2

/-- every physical memory cell is a byte -/
def MemOk {μ} [MemLike μ] [CellMem μ] (m : μ) : Prop := CellMem.ok m

end Z80
