import SkoolVerif.Model.RzxPlay
import SkoolVerif.Proofs.RzxTactics
/-!
Lemmas about the playback model `Model/RzxPlay.lean`, generic in the step function:
list structure of `playG` (zero-fetch frames, look-ahead, append, stop/resume), congruence under
the snapshot equivalence, and the recorder/player agreement.
-/
namespace Rzx
open Z80
variable {μ : Type} [MemLike μ]

/-! ### zero-fetch frames and look-ahead -/

theorem skipZeros_append_of_nonempty (a b : List Frame) (h : (skipZeros a).2 ≠ []) :
    skipZeros (a ++ b) = ((skipZeros a).1, (skipZeros a).2 ++ b) := by
  induction a with
  | nil => simp [skipZeros] at h
  | cons f rest ih =>
    by_cases hf : f.fetch > 0
    · simp [skipZeros, hf]
    · simp only [skipZeros, hf, if_false, List.cons_append] at h ⊢
      rw [ih h]

theorem skipZeros_append_of_empty (a b : List Frame) (h : (skipZeros a).2 = []) :
    skipZeros (a ++ b) = ((skipZeros a).1 + (skipZeros b).1, (skipZeros b).2) := by
  induction a with
  | nil => simp [skipZeros]
  | cons f rest ih =>
    by_cases hf : f.fetch > 0
    · simp [skipZeros, hf] at h
    · simp only [skipZeros, hf, if_false, List.cons_append] at h ⊢
      rw [ih h]; simp; omega

/-- `next_frame()`'s return value over a concatenation: look into `b` only when `a` has no playable frame. -/
theorem peekFetch_append (nxt : Int) (a b : List Frame) :
    peekFetch nxt (a ++ b) = peekFetch (peekFetch nxt b) a := by
  unfold peekFetch
  by_cases h : (skipZeros a).2 = []
  · rw [skipZeros_append_of_empty a b h, h]
  · rw [skipZeros_append_of_nonempty a b h]
    cases hh : (skipZeros a).2 with
    | nil => exact absurd hh h
    | cons f r => rfl

theorem skipZeros_idem (a : List Frame) : skipZeros (skipZeros a).2 = (0, (skipZeros a).2) := by
  induction a with
  | nil => rfl
  | cons f rest ih =>
    by_cases hf : f.fetch > 0
    · simp [skipZeros, hf]
    · simp only [skipZeros, hf, if_false]; exact ih

theorem peekFetch_skip (nxt : Int) (a : List Frame) : peekFetch nxt (skipZeros a).2 = peekFetch nxt a := by
  unfold peekFetch; rw [skipZeros_idem]

/-! ### `playG`: skipping, append, stop/resume -/

variable (impl : Impl) (cmio : Bool) (flags : Int) (step : St μ → St μ)

@[simp] theorem andThen_ok {α β : Type} (a : α) (f : α → Except Err β) : andThen (.ok a) f = f a := rfl
@[simp] theorem andThen_error {α β : Type} (e : Err) (f : α → Except Err β) : andThen (.error e) f = .error e := rfl

/-- Frames with fetch counter 0 are passed over: only the frame count moves. -/
theorem playG_skip (stop : Option Nat) (nxt : Int) (fs : List Frame) (cnt : Nat) (s : St μ) :
    playG impl cmio flags step stop nxt fs cnt s =
      playG impl cmio flags step stop nxt (skipZeros fs).2 (cnt + (skipZeros fs).1) s := by
  induction fs generalizing cnt with
  | nil => rfl
  | cons f rest ih =>
    by_cases hf : f.fetch > 0
    · simp [skipZeros, hf]
    · rw [playG]; simp only [hf, if_false, skipZeros]
      rw [ih]; congr 1; omega

/-- **Playback is a fold over the frame list.**  Without a stop count, playing `fs₁ ++ fs₂` is playing
`fs₁` - with the fetch counter of the first playable frame of `fs₂` as the look-ahead its last
end-of-frame decision sees - and then `fs₂` from the state and frame count reached. -/
theorem playG_append (nxt : Int) (fs₁ fs₂ : List Frame) (cnt : Nat) (s : St μ) :
    playG impl cmio flags step none nxt (fs₁ ++ fs₂) cnt s =
      match playG impl cmio flags step none (peekFetch nxt fs₂) fs₁ cnt s with
      | .ok (.finished s' cnt') => playG impl cmio flags step none nxt fs₂ cnt' s'
      | .ok (.stopped s' cnt' r) => .ok (.stopped s' cnt' r)
      | .error e => .error e := by
  induction fs₁ generalizing cnt s with
  | nil => simp [playG]
  | cons f rest ih =>
    simp only [List.cons_append, playG]
    by_cases hf : f.fetch > 0
    · simp only [hf, if_true]
      cases hp : playFrame impl step f s with
      | error e => simp
      | ok r =>
        simp only [andThen_ok, Bool.false_eq_true, if_false]
        rw [peekFetch_append, ih]
    · simp only [hf, if_false]; exact ih _ _

/-- With a stop count nothing else changes: `playG (some k)` is `playG none` cut at the first
end of frame where the frame count reaches `k`.  What remains to be played from the state at the
stop (`rem`, exactly the frames `write_rzx` writes) continues to the same result. -/
theorem playG_stop_resume (k : Nat) (nxt : Int) (fs : List Frame) (cnt : Nat) (s : St μ) :
    match playG impl cmio flags step (some k) nxt fs cnt s with
    | .ok (.stopped s' cnt' rem) =>
        playG impl cmio flags step none nxt fs cnt s = playG impl cmio flags step none nxt rem cnt' s'
    | .ok (.finished s' cnt') => playG impl cmio flags step none nxt fs cnt s = .ok (.finished s' cnt')
    | .error e => playG impl cmio flags step none nxt fs cnt s = .error e := by
  induction fs generalizing cnt s with
  | nil => simp [playG]
  | cons f rest ih =>
    simp only [playG]
    by_cases hf : f.fetch > 0
    · simp only [hf, if_true]
      cases hp : playFrame impl step f s with
      | error e => simp
      | ok r =>
        simp only [andThen_ok, Bool.false_eq_true, if_false]
        by_cases hk : cnt + 1 + (skipZeros rest).1 ≥ k
        · simp only [hk, decide_true, if_true]
          rw [playG_skip impl cmio flags step none nxt rest]
        · simp only [hk, decide_false, Bool.false_eq_true, if_false]
          exact ih _ _
    · simp only [hf, if_false]; exact ih _ _

theorem skipZeros_suffix (a : List Frame) : ∃ pre, a = pre ++ (skipZeros a).2 := by
  induction a with
  | nil => exact ⟨[], rfl⟩
  | cons f rest ih =>
    by_cases hf : f.fetch > 0
    · exact ⟨[], by simp [skipZeros, hf]⟩
    · obtain ⟨pre, hp⟩ := ih
      refine ⟨f :: pre, ?_⟩
      simp only [skipZeros, hf, if_false, List.cons_append]
      rw [← hp]

/-- what is left at a stop is a suffix of the block's frames (`tracer.frames[tracer.frame_index:]`) -/
theorem playG_stopped_suffix (stop : Option Nat) (nxt : Int) (fs : List Frame) (cnt : Nat) (s : St μ)
    (s' : St μ) (cnt' : Nat) (rem : List Frame)
    (h : playG impl cmio flags step stop nxt fs cnt s = .ok (.stopped s' cnt' rem)) : ∃ pre, fs = pre ++ rem := by
  induction fs generalizing cnt s with
  | nil => simp [playG] at h
  | cons f rest ih =>
    simp only [playG] at h
    by_cases hf : f.fetch > 0
    · simp only [hf, if_true] at h
      cases hp : playFrame impl step f s with
      | error e => rw [hp] at h; simp at h
      | ok r =>
        rw [hp] at h
        simp only [andThen_ok] at h
        cases stop with
        | none =>
          simp only [Bool.false_eq_true, if_false] at h
          obtain ⟨pre, hpre⟩ := ih _ _ h
          exact ⟨f :: pre, by rw [hpre]; rfl⟩
        | some k =>
          by_cases hk : cnt + 1 + (skipZeros rest).1 ≥ k
          · simp only [hk, decide_true, if_true, Except.ok.injEq, Outcome.stopped.injEq] at h
            obtain ⟨pre, hpre⟩ := skipZeros_suffix rest
            exact ⟨f :: pre, by rw [List.cons_append, ← h.2.2, ← hpre]⟩
          · simp only [hk, decide_false, Bool.false_eq_true, if_false] at h
            obtain ⟨pre, hpre⟩ := ih _ _ h
            exact ⟨f :: pre, by rw [hpre]; rfl⟩
    · simp only [hf, if_false] at h
      obtain ⟨pre, hpre⟩ := ih _ _ h
      exact ⟨f :: pre, by rw [hpre]; rfl⟩

/-! ### Congruence under an equivalence of machine states

The lemmas are generic in the relation `E` ("agree on what is carried over"), instantiated with
`SnapEq` (plain simulator: HALT, MEMPTR, clock and logs ignored) and `ClockEq` (contended simulator,
SZX snapshot: only the clock and the logs ignored). -/

/-- results that agree up to a relation on the value (same error otherwise) -/
def RelRes {α : Type} (R : α → α → Prop) : Except Err α → Except Err α → Prop
  | .ok a, .ok b => R a b
  | .error e, .error e' => e = e'
  | _, _ => False

def RelOutE (E : St μ → St μ → Prop) : Outcome μ → Outcome μ → Prop
  | .finished s c, .finished s' c' => E s s' ∧ c = c'
  | .stopped s c r, .stopped s' c' r' => E s s' ∧ c = c' ∧ r = r'
  | _, _ => False

/-- outcomes up to `SnapEq` -/
abbrev RelOut : Outcome μ → Outcome μ → Prop := RelOutE SnapEq

/-- state and last-instruction address of a frame, up to `E` -/
def RelStE (E : St μ → St μ → Prop) (a b : St μ × Int) : Prop := E a.1 b.1 ∧ a.2 = b.2

/-- what the playback lemmas need from the relation -/
structure RelOk (cmio : Bool) (flags : Int) (E : St μ → St μ → Prop) : Prop where
  toSnap : ∀ s s', E s s' → SnapEq s s'
  withIns : ∀ s s' l, E s s' → E { s with ins := l } { s' with ins := l }
  bnd : ∀ k n s s', E s s' → E (boundaryK cmio flags k n s) (boundaryK cmio flags k n s')

/-- what the playback lemmas need from the step function to transport runs along `E` -/
def StepCongE (E : St μ → St μ → Prop) (step : St μ → St μ) : Prop :=
  ∀ s s', E s s' → E (step s) (step s') ∧
    ((step s).inLog.length - s.inLog.length = (step s').inLog.length - s'.inLog.length)

abbrev StepCong (step : St μ → St μ) : Prop := StepCongE SnapEq step

theorem relres_andThen {α β : Type} {R : α → α → Prop} {S : β → β → Prop} (x y : Except Err α)
    (f g : α → Except Err β) (h : RelRes R x y) (hf : ∀ a b, R a b → RelRes S (f a) (g b)) :
    RelRes S (andThen x f) (andThen y g) := by
  cases x <;> cases y <;> simp only [RelRes] at h
  · exact h
  · exact hf _ _ h

theorem acceptInterrupt_cong (prevPc : Int) (s s' : St μ) (h : SnapEq s s') :
    SnapEq (acceptInterrupt cmio prevPc s) (acceptInterrupt cmio prevPc s') := by
  obtain ⟨reg, mem, pc, t, iff, im, halt, memptr, ins, outs, inLog⟩ := s
  obtain ⟨reg', mem', pc', t', iff', im', halt', memptr', ins', outs', inLog'⟩ := s'
  simp only [SnapEq] at h
  obtain ⟨rfl, rfl, rfl, rfl, rfl, rfl⟩ := h
  unfold acceptInterrupt SnapEq
  simp only []
  split <;> simp

theorem boundaryK_cong (k : Last) (nextFc : Int) (s s' : St μ) (h : SnapEq s s') :
    SnapEq (boundaryK cmio flags k nextFc s) (boundaryK cmio flags k nextFc s') := by
  obtain ⟨reg, mem, pc, t, iff, im, halt, memptr, ins, outs, inLog⟩ := s
  obtain ⟨reg', mem', pc', t', iff', im', halt', memptr', ins', outs', inLog'⟩ := s'
  simp only [SnapEq] at h
  obtain ⟨rfl, rfl, rfl, rfl, rfl, rfl⟩ := h
  unfold boundaryK
  simp only []
  repeat' split
  all_goals first
    | exact acceptInterrupt_cong cmio 0 _ _ ⟨rfl, rfl, rfl, rfl, rfl, rfl⟩
    | exact ⟨rfl, rfl, rfl, rfl, rfl, rfl⟩

theorem relOk_snapEq : RelOk cmio flags (SnapEq (μ := μ)) :=
  ⟨fun _ _ h => h, fun s s' l h => ⟨h.1, h.2.1, h.2.2.1, h.2.2.2.1, h.2.2.2.2.1, rfl⟩,
   fun k n s s' h => boundaryK_cong cmio flags k n s s' h⟩

/-- `acceptInterrupt` resets HALT, sets MEMPTR (contended) from equal data and adds a constant to the clock -/
theorem acceptInterrupt_clockEq (prevPc : Int) (s s' : St μ) (h : ClockEq s s') (ht : s.t = s'.t) :
    ClockEq (acceptInterrupt cmio prevPc s) (acceptInterrupt cmio prevPc s') ∧
      (acceptInterrupt cmio prevPc s).t = (acceptInterrupt cmio prevPc s').t := by
  obtain ⟨reg, mem, pc, t, iff, im, halt, memptr, ins, outs, inLog⟩ := s
  obtain ⟨reg', mem', pc', t', iff', im', halt', memptr', ins', outs', inLog'⟩ := s'
  simp only [ClockEq] at h
  obtain ⟨rfl, rfl, rfl, rfl, rfl, rfl, rfl, rfl⟩ := h
  simp only at ht
  subst ht
  unfold acceptInterrupt ClockEq
  simp only []
  split <;> simp

theorem acceptInterrupt_clockEq' (prevPc : Int) (s s' : St μ) (h : ClockEq s s') (ht : s.t = s'.t) :
    ClockEq (acceptInterrupt cmio prevPc s) (acceptInterrupt cmio prevPc s') :=
  (acceptInterrupt_clockEq cmio prevPc s s' h ht).1

theorem boundaryK_clockEq (k : Last) (nextFc : Int) (s s' : St μ) (h : ClockEq s s') :
    ClockEq (boundaryK cmio flags k nextFc s) (boundaryK cmio flags k nextFc s') := by
  obtain ⟨reg, mem, pc, t, iff, im, halt, memptr, ins, outs, inLog⟩ := s
  obtain ⟨reg', mem', pc', t', iff', im', halt', memptr', ins', outs', inLog'⟩ := s'
  simp only [ClockEq] at h
  obtain ⟨rfl, rfl, rfl, rfl, rfl, rfl, rfl, rfl⟩ := h
  unfold boundaryK
  simp only []
  repeat' split
  all_goals first
    | exact acceptInterrupt_clockEq' cmio 0 _ _ ⟨rfl, rfl, rfl, rfl, rfl, rfl, rfl, rfl⟩ rfl
    | exact ⟨rfl, rfl, rfl, rfl, rfl, rfl, rfl, rfl⟩

theorem relOk_clockEq : RelOk cmio flags (ClockEq (μ := μ)) :=
  ⟨fun _ _ h => h.toSnapEq, fun s s' l h => by
      obtain ⟨a, b, c, d, e, _, g, h⟩ := h; exact ⟨a, b, c, d, e, rfl, g, h⟩,
   fun k n s s' h => boundaryK_clockEq cmio flags k n s s' h⟩

variable {E : St μ → St μ → Prop}

theorem pyIter_cong (hE : RelOk cmio flags E) (hc : StepCongE E step) (s s' : St μ) (h : E s s') :
    RelRes (RelStE E) (pyIter step s) (pyIter step s') := by
  obtain ⟨hs, hr⟩ := hc s s' h
  have hs' := hE.toSnap _ _ hs
  obtain ⟨h1, h2, h3, h5, h6, h7⟩ := hE.toSnap _ _ h
  unfold pyIter
  have hex : ((step s).inLog.length > s.inLog.length ∧ s.ins = []) ↔
      ((step s').inLog.length > s'.inLog.length ∧ s'.ins = []) := by
    rw [h7]; constructor <;> (rintro ⟨a, b⟩; exact ⟨by omega, b⟩)
  by_cases hx : (step s).inLog.length > s.inLog.length ∧ s.ins = []
  · rw [if_pos hx, if_pos (hex.mp hx)]; rfl
  · have hx' := fun h => hx (hex.mpr h)
    rw [if_neg hx, if_neg hx']
    exact ⟨hs, by simp only [h1, h2, h3, hs'.1]⟩

theorem cIter_cong (hE : RelOk cmio flags E) (hc : StepCongE E step) (s s' : St μ) (h : E s s') :
    RelRes (RelStE E) (cIter step s) (cIter step s') := by
  obtain ⟨hs, hr⟩ := hc s s' h
  have hs' := hE.toSnap _ _ hs
  obtain ⟨h1, h2, h3, h5, h6, h7⟩ := hE.toSnap _ _ h
  unfold cIter
  have hex : ((step s).inLog.length > s.inLog.length ∧ s.ins = []) ↔
      ((step s').inLog.length > s'.inLog.length ∧ s'.ins = []) := by
    rw [h7]; constructor <;> (rintro ⟨a, b⟩; exact ⟨by omega, b⟩)
  by_cases hx : (step s).inLog.length > s.inLog.length ∧ s.ins = []
  · rw [if_pos hx, if_pos (hex.mp hx)]; rfl
  · have hx' := fun h => hx (hex.mpr h)
    rw [if_neg hx, if_neg hx']
    exact ⟨hs, by simp only [h1, h2, h3, hs'.1]⟩

theorem runFrame_cong (hE : RelOk cmio flags E) (hc : StepCongE E step) (fuel : Nat) (fc : Int) (s s' : St μ)
    (last : Int) (h : E s s') :
    RelRes (RelStE E) (runFrame step fuel fc s last) (runFrame step fuel fc s' last) := by
  induction fuel generalizing fc s s' last with
  | zero => exact ⟨h, rfl⟩
  | succ n ih =>
    simp only [runFrame]
    by_cases hfc : fc > 0
    · simp only [hfc, if_true]
      rw [show s'.pc = s.pc from (hE.toSnap _ _ h).2.2.1.symm]
      exact relres_andThen _ _ _ _ (pyIter_cong cmio flags step hE hc s s' h)
        (fun a b hab => by rw [hab.2]; exact ih _ _ _ _ hab.1)
    · simp only [hfc, if_false]; exact ⟨h, rfl⟩

theorem cFrame_cong (hE : RelOk cmio flags E) (hc : StepCongE E step) (fuel : Nat) (fc : Int) (s s' : St μ)
    (h : E s s') : RelRes (RelStE E) (cFrame step fuel fc s) (cFrame step fuel fc s') := by
  induction fuel generalizing fc s s' with
  | zero => exact ⟨h, (hE.toSnap _ _ h).2.2.1⟩
  | succ n ih =>
    simp only [cFrame]
    rw [show s'.pc = s.pc from (hE.toSnap _ _ h).2.2.1.symm]
    exact relres_andThen _ _ _ _ (cIter_cong cmio flags step hE hc s s' h)
      (fun a b hab => by
        rw [hab.2]
        split
        · exact ⟨hab.1, rfl⟩
        · exact ih _ _ _ hab.1)

theorem innerLoop_cong (hE : RelOk cmio flags E) (hc : StepCongE E step) (fc : Int) (s s' : St μ) (h : E s s') :
    RelRes (RelStE E) (innerLoop impl step fc s) (innerLoop impl step fc s') := by
  unfold innerLoop
  cases impl
  · simp only []
    rw [show s'.pc = s.pc from (hE.toSnap _ _ h).2.2.1.symm]
    exact runFrame_cong cmio flags step hE hc _ _ _ _ _ h
  · exact cFrame_cong cmio flags step hE hc _ _ _ _ h

theorem playFrame_cong (hE : RelOk cmio flags E) (hc : StepCongE E step) (f : Frame) (s s' : St μ) (h : E s s') :
    RelRes (RelStE E) (playFrame impl step f s) (playFrame impl step f s') := by
  unfold playFrame
  exact relres_andThen _ _ _ _ (innerLoop_cong impl cmio flags step hE hc f.fetch _ _ (hE.withIns _ _ f.ins h))
    (fun a b hab => by
      rw [show b.1.ins = a.1.ins from (hE.toSnap _ _ hab.1).2.2.2.2.2.symm]
      split
      · rfl
      · exact hab)

/-- **Playback respects the equivalence**: from states that agree on what is carried over, the same
frames play to such states, with the same errors, frame counts and remaining frames. -/
theorem playG_congE (hE : RelOk cmio flags E) (hc : StepCongE E step) (stop : Option Nat) (nxt : Int)
    (fs : List Frame) (cnt : Nat) (s s' : St μ) (h : E s s') :
    RelRes (RelOutE E) (playG impl cmio flags step stop nxt fs cnt s) (playG impl cmio flags step stop nxt fs cnt s') := by
  induction fs generalizing cnt s s' with
  | nil => exact ⟨h, rfl⟩
  | cons f rest ih =>
    simp only [playG]
    by_cases hf : f.fetch > 0
    · simp only [hf, if_true]
      exact relres_andThen _ _ _ _ (playFrame_cong impl cmio flags step hE hc f s s' h)
        (fun a b hab => by
          rw [hab.2]
          have hb : E (boundary cmio flags b.2 (peekFetch nxt rest) a.1) (boundary cmio flags b.2 (peekFetch nxt rest) b.1) := by
            unfold boundary
            rw [show b.1.mem = a.1.mem from (hE.toSnap _ _ hab.1).2.1.symm]
            exact hE.bnd _ _ _ _ hab.1
          cases stop with
          | none => simp only [Bool.false_eq_true, if_false]; exact ih _ _ _ hb
          | some k =>
            by_cases hk : cnt + 1 + (skipZeros rest).1 ≥ k
            · simp only [hk, decide_true, if_true]; exact ⟨hb, rfl, rfl⟩
            · simp only [hk, decide_false, Bool.false_eq_true, if_false]; exact ih _ _ _ hb)
    · simp only [hf, if_false]; exact ih _ _ _ h

theorem playG_cong (hc : StepCong step) (stop : Option Nat) (nxt : Int) (fs : List Frame) (cnt : Nat)
    (s s' : St μ) (h : SnapEq s s') :
    RelRes RelOut (playG impl cmio flags step stop nxt fs cnt s) (playG impl cmio flags step stop nxt fs cnt s') :=
  playG_congE impl cmio flags step (relOk_snapEq cmio flags) hc stop nxt fs cnt s s' h

end Rzx
