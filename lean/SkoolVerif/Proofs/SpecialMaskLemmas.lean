import SkoolVerif.Proofs.SpecialLemmas
/-! `_build_image_data_bd2_at` (masked, depth 2) agrees with the generic builder (C15). -/
set_option linter.unusedSimpArgs false
set_option linter.unusedVariables false
namespace PngScan
open ZxTile ZxSpec

/-- `2 * udg_bit + mask_bit` of column `c`: the index into `mask.colours(...)`. -/
def pairAt (db mb c : Nat) : Nat := 2 * (colBit db c).toNat + (colBit mb c).toNat

def bitPairsCheck : Bool :=
  (List.range 256).all (fun n =>
    bitPairs n == (List.range 4).map (fun m => 2 * (n.testBit (7 - m)).toNat + (n.testBit (3 - m)).toNat)
      && (n &&& 240 == n / 16 * 16))

theorem bitPairsCheck_ok : bitPairsCheck = true := by decide +kernel

theorem bitPairs_eq (n : Nat) (hn : n < 256) :
    bitPairs n = (List.range 4).map (fun m => 2 * (n.testBit (7 - m)).toNat + (n.testBit (3 - m)).toNat)
      ∧ n &&& 240 = n / 16 * 16 := by
  have h := bitPairsCheck_ok
  simp only [bitPairsCheck, List.all_eq_true, List.mem_range, Bool.and_eq_true, beq_iff_eq] at h
  exact h n hn

theorem testBit_nibbles (a b j : Nat) (hb : b < 16) :
    (a * 16 + b).testBit j = if j < 4 then b.testBit j else a.testBit (j - 4) := by
  have := Nat.testBit_two_pow_mul_add a (i := 4) (by simpa using hb) j
  rw [show (2 : Nat) ^ 4 * a + b = a * 16 + b by omega] at this
  exact this

/-- The table index of the left half of a masked tile row encodes the (graphic, mask) bit pairs of
columns 0..3. -/
theorem hiPairs (db mb : Nat) (hd : db < 256) (hm : mb < 256) :
    bitPairs ((db &&& 240) + mb / 16) = [pairAt db mb 0, pairAt db mb 1, pairAt db mb 2, pairAt db mb 3] := by
  have h240 := (bitPairs_eq db hd).2
  have hn : db / 16 * 16 + mb / 16 < 256 := by omega
  rw [h240, (bitPairs_eq _ hn).1]
  have hb : mb / 16 < 16 := by omega
  simp only [List.range, List.range.loop, List.map_cons, List.map_nil, testBit_nibbles _ _ _ hb, pairAt, colBit]
  have e (x i : Nat) : (x / 16).testBit i = x.testBit (i + 4) := by
    have := Nat.testBit_div_two_pow (n := 4) x i
    simpa using this
  simp [e]

/-- ... and that of the right half those of columns 4..7. -/
theorem loPairs (db mb : Nat) (hd : db < 256) (hm : mb < 256) :
    bitPairs ((db &&& 15) * 16 + (mb &&& 15)) = [pairAt db mb 4, pairAt db mb 5, pairAt db mb 6, pairAt db mb 7] := by
  have e15 (x : Nat) : x &&& 15 = x % 16 := Nat.and_two_pow_sub_one_eq_mod x 4
  rw [e15, e15]
  have hn : db % 16 * 16 + mb % 16 < 256 := by omega
  rw [(bitPairs_eq _ hn).1]
  have hb : mb % 16 < 16 := by omega
  simp only [List.range, List.range.loop, List.map_cons, List.map_nil, testBit_nibbles _ _ _ hb, pairAt, colBit]
  have e (x i : Nat) : (x % 16).testBit i = (decide (i < 4) && x.testBit i) := by
    have := Nat.testBit_mod_two_pow x 4 i
    simpa using this
  simp [e]

/-- `OrAndMask.colours` / `AndOrMask.colours` tabulate the documented truth tables. -/
theorem colours_pick (k : MaskKind) (hk : k ≠ .noMask) (p i : Nat) (ub mb : Bool) :
    (maskColours k p i 0).getD (2 * ub.toNat + mb.toNat) 0 = (rule k.toNat ub mb).pick p i 0 := by
  cases k with
  | noMask => exact absurd rfl hk
  | orAnd => cases ub <;> cases mb <;> simp [maskColours, MaskKind.toNat, rule, Pix.pick]
  | andOr => cases ub <;> cases mb <;> simp [maskColours, MaskKind.toNat, rule, Pix.pick]

theorem colours_lt (k : MaskKind) (p i j : Nat) (hp : p < 4) (hi : i < 4) : (maskColours k p i 0).getD j 0 < 4 := by
  apply getD_lt_of_all (by decide)
  intro b hb
  cases k <;> simp [maskColours] at hb <;> omega

theorem pack2_four (s x0 x1 x2 x3 : Nat) (h0 : x0 < 4) (h1 : x1 < 4) (h2 : x2 < 4) (h3 : x3 < 4) :
    (chunksOf 4 (expand s [x0, x1, x2, x3]).length (expand s [x0, x1, x2, x3])).map (fromBase 4)
      = getBytes 2 s (x0 * 64 + x1 * 16 + x2 * 4 + x3) := by
  rw [getBytes2_eq _ _ (by omega)]
  have : pix2 (x0 * 64 + x1 * 16 + x2 * 4 + x3) = [x0, x1, x2, x3] := by
    simp only [pix2, List.cons.injEq, and_true]
    refine ⟨?_, ?_, ?_, ?_⟩ <;> omega
  rw [this]

/-- `_scan_udg_bd2_at` emits the generic builder's block. -/
theorem udgBlock_bd2at (c : Ctx) (u : Udg) (k : Nat) (hbd : c.bitDepth = 2) (hm : c.mask ≠ .noMask)
    (hu : WfUdg u) (p i : Nat) (ha : c.attrs u.attr = some (p, i)) (hp : p < 4) (hi : i < 4) :
    udgBlock c u k = udgLineBd2At c.scale c.mask c.attrs u k := by
  have hd := data_byte_lt hu k
  have hmb := mask_byte_lt hu k
  have erhs : udgLineBd2At c.scale c.mask c.attrs u k =
      (match bitPairs ((u.data.getD k 0 &&& 240) + maskByteOf u k / 16) with
        | [d, cc, b, a] => getBytes 2 c.scale
            ((maskColours c.mask p i 0).getD d 0 * 64 + (maskColours c.mask p i 0).getD cc 0 * 16
              + (maskColours c.mask p i 0).getD b 0 * 4 + (maskColours c.mask p i 0).getD a 0)
        | _ => []) ++
      (match bitPairs ((u.data.getD k 0 &&& 15) * 16 + (maskByteOf u k &&& 15)) with
        | [d, cc, b, a] => getBytes 2 c.scale
            ((maskColours c.mask p i 0).getD d 0 * 64 + (maskColours c.mask p i 0).getD cc 0 * 16
              + (maskColours c.mask p i 0).getD b 0 * 4 + (maskColours c.mask p i 0).getD a 0)
        | _ => []) := by
    unfold udgLineBd2At
    simp only [ha, Option.getD_some]
    rfl
  rw [erhs, hiPairs _ _ hd hmb, loPairs _ _ hd hmb]
  simp only
  unfold udgBlock udgPixels
  simp only [hbd, show (2 : Nat) ≠ 4 by decide, if_false, ha, Option.getD_some]
  rw [applyMask_eq_rule _ _ _ _ _ _ hd hmb]
  generalize u.data.getD k 0 = db at *
  generalize maskByteOf u k = mb at *
  have hQ : (List.range 8).map (fun col => (rule c.mask.toNat (colBit db col) (colBit mb col)).pick p i 0)
      = [(maskColours c.mask p i 0).getD (pairAt db mb 0) 0, (maskColours c.mask p i 0).getD (pairAt db mb 1) 0,
          (maskColours c.mask p i 0).getD (pairAt db mb 2) 0, (maskColours c.mask p i 0).getD (pairAt db mb 3) 0]
        ++ [(maskColours c.mask p i 0).getD (pairAt db mb 4) 0, (maskColours c.mask p i 0).getD (pairAt db mb 5) 0,
          (maskColours c.mask p i 0).getD (pairAt db mb 6) 0, (maskColours c.mask p i 0).getD (pairAt db mb 7) 0] := by
    simp only [List.range, List.range.loop, List.map_cons, List.map_nil, pairAt, colours_pick c.mask hm,
      List.cons_append, List.nil_append]
  rw [hQ, pack2_split _ _ _ rfl,
    pack2_four _ _ _ _ _ (colours_lt _ _ _ _ hp hi) (colours_lt _ _ _ _ hp hi) (colours_lt _ _ _ _ hp hi)
      (colours_lt _ _ _ _ hp hi),
    pack2_four _ _ _ _ _ (colours_lt _ _ _ _ hp hi) (colours_lt _ _ _ _ hp hi) (colours_lt _ _ _ _ hp hi)
      (colours_lt _ _ _ _ hp hi)]

end PngScan
