import SkoolVerif.Proofs.C07Finish
/-!
`z80.get_timing` by slot: on the bytes of an instruction (read with wrap-around, at least as many as the
slot's prefix structure needs) the lookup is the timing-table entry at the slot of those bytes.
-/
namespace InstrDec
set_option linter.unusedSimpArgs false

def tmAt (T : ZTables) (s : Slot) : ZRes :=
  match s.tbl with
  | 0 => zGet T.main s.idx
  | 1 => zGet T.cb s.idx
  | 2 => zGet T.ed s.idx
  | 3 => zGet T.dd s.idx
  | 4 => zGet T.dd s.idx
  | 5 => zGet T.ddcb s.idx
  | 6 => zGet T.ddcb s.idx
  | _ => .keyError

/-- how many bytes `get_timing` looks at for the slots of a table -/
def needLen (t : Nat) : Nat := if t = 0 then 1 else if t = 5 ∨ t = 6 then 4 else 2

theorem bytesAt_succ (mem : Mem) (a n : Nat) : bytesAt mem a (n + 1) = mem (a % 65536) :: bytesAt mem (a + 1) n := by
  unfold bytesAt
  rw [List.range_succ_eq_map]
  simp only [List.map_cons, List.map_map, Nat.add_zero, List.cons.injEq, true_and]
  apply List.map_congr_left
  intro i _
  simp only [Function.comp]
  congr 2
  omega

theorem getTiming_bytesAt (T : ZTables) (mem : Mem) (a n : Nat) (ha : a < 65536)
    (hn : needLen (slotOf (mem a) (mem ((a + 1) % 65536)) (mem ((a + 3) % 65536))).tbl ≤ n) :
    getTiming T false (bytesAt mem a n) = tmAt T (slotOf (mem a) (mem ((a + 1) % 65536)) (mem ((a + 3) % 65536))) := by
  have ha0 : a % 65536 = a := Nat.mod_eq_of_lt ha
  by_cases c1 : mem a = 0xCB
  · simp only [slotOf, c1, if_true, needLen, if_true, if_false, reduceCtorEq, Nat.reduceEqDiff, or_self, or_true, true_or] at hn ⊢
    obtain ⟨m, rfl⟩ : ∃ m, n = m + 2 := ⟨n - 2, by omega⟩
    simp [bytesAt_succ, getTiming, ha0, c1, tmAt]
  by_cases c2 : mem a = 0xED
  · simp only [slotOf, c2, if_true, needLen, if_true, if_false, reduceCtorEq, Nat.reduceEqDiff, or_self, or_true, true_or] at hn ⊢
    obtain ⟨m, rfl⟩ : ∃ m, n = m + 2 := ⟨n - 2, by omega⟩
    simp [bytesAt_succ, getTiming, ha0, c2, tmAt]
  by_cases c3 : mem a = 0xDD
  · by_cases c4 : mem ((a + 1) % 65536) = 0xCB
    · simp only [slotOf, c3, c4, if_true, needLen, if_true, if_false, reduceCtorEq, Nat.reduceEqDiff, or_self, or_true, true_or] at hn ⊢
      obtain ⟨m, rfl⟩ : ∃ m, n = m + 4 := ⟨n - 4, by omega⟩
      simp [bytesAt_succ, getTiming, ha0, c3, c4, tmAt]
    · simp only [slotOf, c3, c4, if_true, needLen, if_true, if_false, reduceCtorEq, Nat.reduceEqDiff, or_self, or_true, true_or] at hn ⊢
      obtain ⟨m, rfl⟩ : ∃ m, n = m + 2 := ⟨n - 2, by omega⟩
      simp [bytesAt_succ, getTiming, ha0, c3, c4, tmAt]
  by_cases c5 : mem a = 0xFD
  · by_cases c4 : mem ((a + 1) % 65536) = 0xCB
    · simp only [slotOf, c5, c4, if_true, needLen, if_true, if_false, reduceCtorEq, Nat.reduceEqDiff, or_self, or_true, true_or] at hn ⊢
      obtain ⟨m, rfl⟩ : ∃ m, n = m + 4 := ⟨n - 4, by omega⟩
      simp [bytesAt_succ, getTiming, ha0, c5, c4, tmAt]
    · simp only [slotOf, c5, c4, if_true, needLen, if_true, if_false, reduceCtorEq, Nat.reduceEqDiff, or_self, or_true, true_or] at hn ⊢
      obtain ⟨m, rfl⟩ : ∃ m, n = m + 2 := ⟨n - 2, by omega⟩
      simp [bytesAt_succ, getTiming, ha0, c5, c4, tmAt]
  · simp only [slotOf, c1, c2, c3, c5, if_false, needLen, if_true, if_false, reduceCtorEq, Nat.reduceEqDiff, or_self, or_true, true_or] at hn ⊢
    obtain ⟨m, rfl⟩ : ∃ m, n = m + 1 := ⟨n - 1, by omega⟩
    simp [bytesAt_succ, getTiming, ha0, c1, c2, c3, c5, tmAt]

end InstrDec
