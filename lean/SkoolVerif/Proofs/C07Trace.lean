import SkoolVerif.Proofs.C07Slots
/-!
`traceutils.disassemble` by slot: under a kernel-checkable shape condition on the tables (which entries
have `func = None`), the entry it ends up with is the table entry at the slot of the opcode bytes.
-/
namespace InstrDec

def trTbl (T : TTables) : Nat → T256 TEntry
  | 0 => T.main | 1 => T.cb | 2 => T.ed | 3 => T.dd | 4 => T.fd | 5 => T.ddcb | _ => T.fdcb

/-- the table entry at a slot -/
def trAt (T : TTables) (s : Slot) : Option TEntry := (trTbl T s.tbl).at? s.idx

/-- `func is None` exactly at the four prefixes of the main table and at `CB` of the DD/FD tables -/
def trShape (T : TTables) : Bool :=
  allLt 256 (fun b => (T.main.get 8 b).kind.isNone == (b == 0xCB || b == 0xED || b == 0xDD || b == 0xFD)) &&
  allLt 256 (fun b => (T.dd.get 8 b).kind.isNone == (b == 0xCB)) &&
  allLt 256 (fun b => (T.fd.get 8 b).kind.isNone == (b == 0xCB))

theorem traceEntry_eq {T : TTables} (h : trShape T = true) {b0 b1 b3 : Nat} (h0 : b0 < 256) (h1 : b1 < 256) (h3 : b3 < 256) :
    ∃ e, trAt T (slotOf b0 b1 b3) = some e ∧ traceEntry T b0 b1 b3 = .ok e := by
  simp only [trShape, Bool.and_eq_true] at h
  obtain ⟨⟨hm, hdd⟩, hfd⟩ := h
  have hm0 := allLt_spec hm b0 h0
  have hdd1 := allLt_spec hdd b1 h1
  have hfd1 := allLt_spec hfd b1 h1
  unfold traceEntry slotOf trAt
  simp only [T256.at?, h0, h1, h3, if_true, bind, Except.bind, pure, Except.pure]
  by_cases c1 : b0 = 0xCB
  · subst c1; simp_all [trTbl]
  by_cases c2 : b0 = 0xED
  · subst c2; simp_all [trTbl]
  by_cases c3 : b0 = 0xDD
  · subst c3
    by_cases c4 : b1 = 0xCB
    · subst c4; simp_all [trTbl]
    · simp_all [trTbl]
  by_cases c5 : b0 = 0xFD
  · subst c5
    by_cases c4 : b1 = 0xCB
    · subst c4; simp_all [trTbl]
    · simp_all [trTbl]
  · simp_all [trTbl]

/-- the size `func` returns for an entry -/
def trLenE (e : TEntry) : Nat :=
  match e.kind with
  | some .jump_offset => 2
  | some .offset_byte => 4
  | some .rst => 1
  | some .defb => if e.size = 1 then 1 else 2
  | _ => e.size

/-- the architectural length of the opcode sequences of a slot: the size `traceutils.disassemble` returns -/
def trLen (T : TTables) (s : Slot) : Nat :=
  match trAt T s with
  | some e => trLenE e
  | none => 0

/-- the entry has a function and every field of its template is one the function passes to `str.format` -/
def trEntryOk (e : TEntry) : Bool :=
  match e.kind with
  | none => false
  | some .operation => true
  | some .defb => true
  | some k => e.tmpl.all (tSupplies k)

theorem traceCall_ok (e : TEntry) (h : trEntryOk e = true) (mem : Mem) (a : Nat) :
    ∃ ps, traceCall e mem a = .ok (ps, trLenE e) := by
  obtain ⟨kind, tmpl, size⟩ := e
  cases kind with
  | none => simp [trEntryOk] at h
  | some k =>
    cases k <;> simp_all [trEntryOk, traceCall, trLenE] <;> split <;> simp

/-- every slot has a usable entry -/
def trOk (T : TTables) : Bool :=
  allSlots (fun s => match trAt T s with
    | some e => trEntryOk e
    | none => false)

/-- `traceutils.disassemble` never fails and returns the slot's length, whatever the operands and the address -/
theorem traceDis_ok {T : TTables} (hs : trShape T = true) (ho : trOk T = true) (mem : Mem) (hm : ∀ x, mem x < 256) (a : Nat) :
    ∃ ps, traceDis T mem a = .ok (ps, trLen T (slotOf (mem a) (mem ((a + 1) % 65536)) (mem ((a + 3) % 65536)))) := by
  obtain ⟨e, he, hte⟩ := traceEntry_eq hs (hm a) (hm ((a + 1) % 65536)) (hm ((a + 3) % 65536))
  have hok := allSlots_slotOf ho (hm a) (hm ((a + 1) % 65536)) (hm ((a + 3) % 65536))
  simp only [he] at hok
  obtain ⟨ps, hps⟩ := traceCall_ok e hok mem a
  refine ⟨ps, ?_⟩
  simp [traceDis, hte, bind, Except.bind, hps, trLen, he]

end InstrDec
