import SkoolVerif.Spec.RowsSpec
import SkoolVerif.Proofs.WrapLemmas
import SkoolVerif.Proofs.WrapTextLemmas
/-! Lemmas relating the loop `AsmRows.rowLoop` to the declarative `RowsSpec`. -/
namespace AsmRows
open Wrap RowsSpec

theorem bindEv_bindEv (a b : List Ev) (r : Except RowErr (List Ev)) :
    bindEv a (bindEv b r) = bindEv (a ++ b) r := by
  cases r <;> simp [bindEv]

theorem bindEv_nil (r : Except RowErr (List Ev)) : bindEv [] r = r := by
  cases r <;> simp [bindEv]

theorem rowLoop_succ (cfg : Cfg) (instrs : List Instr) (fuel : Nat) (st : St) :
    rowLoop cfg instrs (fuel + 1) st =
      if st.i < instrs.length ∨ st.lines ≠ [] then
        match rowStep cfg instrs st with
        | .error e => .error e
        | .ok r => bindEv r.2 (rowLoop cfg instrs fuel r.1)
      else .ok [] := by
  rfl

/-- Comment lines remaining after the last instruction of a group. -/
theorem run_rest (cfg : Cfg) (instrs : List Instr) (i rs : Nat) (iw : Int) (hiw : 0 ≤ iw) :
    ∀ (ls : List Str) (fuel : Nat),
    rowLoop cfg instrs (fuel + ls.length) ⟨i, 0, ls, rs, iw⟩ =
      bindEv (restLines cfg iw.toNat ls) (rowLoop cfg instrs fuel ⟨i, 0, [], rs, iw⟩) := by
  intro ls
  induction ls with
  | nil => intro fuel; simp [restLines, bindEv_nil]
  | cons l ls ih =>
    intro fuel
    rw [List.length_cons, ← Nat.add_assoc, rowLoop_succ]
    have hneg : ¬ iw < 0 := by omega
    simp only [rowStep, hneg, ne_eq, reduceCtorEq, not_false_eq_true, true_or, or_true, if_true,
      if_false, not_true_eq_false]
    rw [ih fuel, bindEv_bindEv]
    rfl

theorem getElem?_mid (pre : List Instr) (o : Instr) (ops post : List Instr) :
    (pre ++ (o :: ops) ++ post)[pre.length]? = some o := by
  simp

/-- Running the loop through the instruction rows of a group. -/
theorem run_rows (cfg : Cfg) (instrs : List Instr) (rs : Nat) (iw : Int) (hiw : 0 ≤ iw)
    (post : List Instr) :
    ∀ (ops pre : List Instr) (ls : List Str) (fuel : Nat), instrs = pre ++ ops ++ post →
    rowLoop cfg instrs (fuel + max ops.length ls.length) ⟨pre.length, ops.length, ls, rs, iw⟩ =
      bindEv (zipRows cfg iw.toNat rs pre.length (ops.map fun x => x.op) ls)
        (rowLoop cfg instrs fuel ⟨pre.length + ops.length, 0, [], rs, iw⟩) := by
  intro ops
  induction ops with
  | nil =>
    intro pre ls fuel _
    simp only [List.length_nil, Nat.zero_max, List.map_nil, zipRows, Nat.add_zero]
    exact run_rest cfg instrs pre.length rs iw hiw ls fuel
  | cons o ops ih =>
    intro pre ls fuel hi
    have hneg : ¬ iw < 0 := by omega
    have hget : instrs[pre.length]? = some o := by rw [hi]; exact getElem?_mid pre o ops post
    have hlt : pre.length < instrs.length := by
      rw [hi]; simp only [List.length_append, List.length_cons]; omega
    have hi' : instrs = (pre ++ [o]) ++ ops ++ post := by rw [hi]; simp
    have hpl : (pre ++ [o]).length = pre.length + 1 := by simp
    cases ls with
    | nil =>
      have hf : fuel + max (o :: ops).length ([] : List Str).length
          = (fuel + max ops.length ([] : List Str).length) + 1 := by
        simp only [List.length_cons, List.length_nil]; omega
      rw [hf, rowLoop_succ]
      simp only [rowStep, hneg, hget, hlt, List.length_cons, ne_eq, Nat.add_eq_zero_iff,
        Nat.succ_ne_self, and_false, not_false_eq_true, or_true, true_or, if_true, if_false,
        Nat.add_sub_cancel]
      have := ih (pre ++ [o]) [] fuel hi'
      rw [hpl] at this
      rw [this, bindEv_bindEv]
      simp only [zipRows, List.map_cons, List.cons_append, Nat.add_assoc, Nat.add_comm 1]
    | cons l ls =>
      have hf : fuel + max (o :: ops).length (l :: ls).length
          = (fuel + max ops.length ls.length) + 1 := by
        simp only [List.length_cons]; omega
      rw [hf, rowLoop_succ]
      simp only [rowStep, hneg, hget, hlt, List.length_cons, ne_eq, Nat.add_eq_zero_iff,
        Nat.succ_ne_self, and_false, not_false_eq_true, or_true, true_or, if_true, if_false,
        Nat.add_sub_cancel]
      have := ih (pre ++ [o]) ls fuel hi'
      rw [hpl] at this
      rw [this, bindEv_bindEv]
      simp only [zipRows, List.map_cons, List.cons_append, Nat.add_assoc, Nat.add_comm 1]

theorem le_foldl_max (l : List Int) (a : Int) : a ≤ l.foldl max a := by
  induction l generalizing a with
  | nil => simp
  | cons x l ih =>
    simp only [List.foldl_cons]
    exact Int.le_trans (Int.le_max_left a x) (ih (max a x))

theorem mem_le_foldl_max (l : List Int) (a x : Int) (hx : x ∈ l) : x ≤ l.foldl max a := by
  induction l generalizing a with
  | nil => simp at hx
  | cons y l ih =>
    simp only [List.foldl_cons]
    simp only [List.mem_cons] at hx
    rcases hx with rfl | hx
    · exact Int.le_trans (Int.le_max_right a x) (le_foldl_max l (max a x))
    · exact ih (max a y) hx

theorem foldl_max_le (l : List Int) (a b : Int) (ha : a ≤ b) (hl : ∀ x ∈ l, x ≤ b) :
    l.foldl max a ≤ b := by
  induction l generalizing a with
  | nil => simpa using ha
  | cons y l ih =>
    simp only [List.foldl_cons]
    apply ih
    · exact Int.max_le.mpr ⟨ha, hl y List.mem_cons_self⟩
    · intro x hx; exact hl x (List.mem_cons_of_mem _ hx)

theorem Group.iw_nonneg (cfg : Cfg) (g : Group) : 0 ≤ g.iw cfg := by
  have : (g.head.op.length : Int) ≤ g.iw cfg := by
    apply mem_le_foldl_max
    simp [Group.instrs]
  omega

theorem Group.op_le_iw (cfg : Cfg) (g : Group) (x : Instr) (hx : x ∈ g.instrs) :
    (x.op.length : Int) ≤ g.iw cfg := by
  apply mem_le_foldl_max
  exact List.mem_map_of_mem hx

theorem Group.cfg_le_iw (cfg : Cfg) (g : Group) : cfg.instrWidth ≤ g.iw cfg := le_foldl_max _ _

/-- Iterations the loop needs for one group. -/
def groupFuel (cfg : Cfg) (g : Group) : Nat :=
  match fmt g.head.text (g.cw cfg) with
  | .error _ => 1
  | .ok ls => 1 + max g.instrs.length ls.length

def specFuel (cfg : Cfg) : List Group → Nat
  | [] => 1
  | g :: gs => groupFuel cfg g + specFuel cfg gs

theorem groupWidth_eq (cfg : Cfg) (pre post : List Instr) (g : Group) (hg : g.WF) :
    groupWidth cfg (pre ++ g.instrs ++ post) pre.length g.head.rowspan = g.iw cfg := by
  unfold groupWidth Group.iw
  rw [hg]
  have : ((pre ++ g.instrs ++ post).drop pre.length).take (g.tail.length + 1) = g.instrs := by
    simp [Group.instrs, List.append_assoc]
  rw [this]

/-- Running the loop through one whole group (set-up iteration + rows). -/
theorem run_group (cfg : Cfg) (instrs pre post : List Instr) (g : Group) (hg : g.WF)
    (hi : instrs = pre ++ g.instrs ++ post) (rs0 : Nat) (iw0 : Int) (fuel : Nat) :
    rowLoop cfg instrs (fuel + groupFuel cfg g) ⟨pre.length, 0, [], rs0, iw0⟩ =
      match groupEvents cfg pre.length g with
      | .error e => .error e
      | .ok evs => bindEv evs (rowLoop cfg instrs fuel
          ⟨pre.length + g.instrs.length, 0, [], g.head.rowspan, g.iw cfg⟩) := by
  have hget : instrs[pre.length]? = some g.head := by
    rw [hi]; exact getElem?_mid pre g.head g.tail post
  have hlt : pre.length < instrs.length := by
    rw [hi]; simp only [List.length_append, Group.instrs, List.length_cons]; omega
  have hgw : groupWidth cfg instrs pre.length g.head.rowspan = g.iw cfg := by
    rw [hi]; exact groupWidth_eq cfg pre post g hg
  unfold groupFuel groupEvents
  cases hf : fmt g.head.text (g.cw cfg) with
  | error e =>
    simp only
    rw [rowLoop_succ]
    simp only [rowStep, hget, hlt, hgw, ne_eq, not_true_eq_false, or_false, if_true,
      if_false, or_self]
    unfold Group.cw at hf
    rw [hf]
  | ok ls =>
    simp only
    rw [← Nat.add_assoc, Nat.add_right_comm, rowLoop_succ]
    simp only [rowStep, hget, hlt, hgw, ne_eq, not_true_eq_false, or_false, if_true,
      if_false, or_self]
    unfold Group.cw at hf
    rw [hf]
    simp only [bindEv_nil]
    have hr : g.head.rowspan = g.instrs.length := by rw [hg]; simp [Group.instrs]
    have := run_rows cfg instrs g.head.rowspan (g.iw cfg) (Group.iw_nonneg cfg g) post
      g.instrs pre ls fuel hi
    rw [← hr] at this ⊢
    rw [hr] at this
    rw [hr]
    exact this

/-- The loop, started at a group boundary, produces exactly the specified events. -/
theorem run_groups (cfg : Cfg) (instrs : List Instr) :
    ∀ (gs : List Group) (pre : List Instr) (rs0 : Nat) (iw0 : Int) (fuel : Nat),
    (∀ g ∈ gs, g.WF) → instrs = pre ++ flat gs → specFuel cfg gs ≤ fuel →
    rowLoop cfg instrs fuel ⟨pre.length, 0, [], rs0, iw0⟩ = specEvents cfg pre.length gs := by
  intro gs
  induction gs with
  | nil =>
    intro pre rs0 iw0 fuel _ hi hf
    simp only [specFuel] at hf
    obtain ⟨f, rfl⟩ : ∃ f, fuel = f + 1 := ⟨fuel - 1, by omega⟩
    rw [rowLoop_succ]
    simp [hi, flat, specEvents]
  | cons g gs ih =>
    intro pre rs0 iw0 fuel hwf hi hf
    simp only [specFuel] at hf
    have hi1 : instrs = pre ++ g.instrs ++ flat gs := by
      rw [hi]; simp [flat, List.append_assoc]
    obtain ⟨f, rfl⟩ : ∃ f, fuel = f + groupFuel cfg g := ⟨fuel - groupFuel cfg g, by omega⟩
    rw [run_group cfg instrs pre (flat gs) g (hwf g List.mem_cons_self) hi1 rs0 iw0 f]
    simp only [specEvents]
    cases groupEvents cfg pre.length g with
    | error e => rfl
    | ok evs =>
      simp only
      have hi2 : instrs = (pre ++ g.instrs) ++ flat gs := hi1
      have := ih (pre ++ g.instrs) g.head.rowspan (g.iw cfg) f
        (fun g' hg' => hwf g' (List.mem_cons_of_mem _ hg')) hi2 (by omega)
      rw [List.length_append] at this
      rw [this]
      cases specEvents cfg (pre.length + g.instrs.length) gs <;> rfl

/-! ### the iteration bound used by `printInstructions` -/

theorem rstrip_length (s : Str) : (rstrip s).length ≤ s.length := by
  simp only [rstrip, List.length_reverse]
  have := (List.dropWhile_sublist pySpace (l := s.reverse)).length_le
  simpa using this

theorem strip_length (s : Str) : (strip s).length ≤ s.length := by
  have h1 := rstrip_length (s.dropWhile pySpace)
  have h2 := (List.dropWhile_sublist pySpace (l := s)).length_le
  simp only [strip]; omega

theorem fmt_count (text : Str) (w : Int) (ls : List Str) (h : fmt text w = .ok ls) :
    ls.length ≤ 8 * text.length := by
  unfold fmt at h
  simp only at h
  split at h
  · simp only [Except.ok.injEq] at h; subst h; simp
  · split at h
    · rename_i ls' hw
      simp only [Except.ok.injEq] at h; subst h
      have := wrapText_count _ _ _ hw
      have := strip_length text
      omega
    · simp at h

theorem groupFuel_le (cfg : Cfg) (g : Group) :
    groupFuel cfg g ≤ 1 + g.instrs.length + 8 * g.head.text.length := by
  unfold groupFuel
  cases h : fmt g.head.text (g.cw cfg) with
  | error e => simp only; omega
  | ok ls =>
    simp only
    have := fmt_count _ _ _ h
    omega

theorem specFuel_le (cfg : Cfg) (gs : List Group) :
    specFuel cfg gs ≤ 2 * (flat gs).length + 8 * ((flat gs).map fun x => x.text.length).sum + 1 := by
  induction gs with
  | nil => simp [specFuel, flat]
  | cons g gs ih =>
    have hg := groupFuel_le cfg g
    have hl : 1 ≤ g.instrs.length := by simp [Group.instrs]
    have hs : g.head.text.length ≤ (g.instrs.map fun x => x.text.length).sum := by
      simp [Group.instrs]
    simp only [flat, List.flatMap_cons, List.length_append, List.map_append, List.sum_append,
      specFuel] at ih ⊢
    omega

/-! ### widths -/

theorem render_length_le (cfg : Cfg) (op : Str) (iw : Nat) (sep : Bool) (text : Str) :
    (render cfg op iw sep text).length ≤ cfg.indent.length + max op.length iw + 3 + text.length := by
  have := rstrip_length (cfg.indent ++ op ++ List.replicate (iw - op.length) 32 ++ [32] ++
    (if sep then [59] else []) ++ [32] ++ text)
  unfold render
  cases sep <;> simp only [List.length_append, List.length_replicate, List.length_cons,
    List.length_nil, if_true, if_false, Bool.false_eq_true] at this ⊢ <;> omega

theorem rstrip_eq_self (s : Str) (c : Nat) (h : s.getLast? = some c) (hc : pySpace c = false) :
    rstrip s = s := by
  obtain ⟨ys, rfl⟩ := List.getLast?_eq_some_iff.mp h
  simp [rstrip, hc]

theorem render_length_eq (cfg : Cfg) (op : Str) (iw : Nat) (text : Str) (c : Nat)
    (h : text.getLast? = some c) (hc : pySpace c = false) :
    (render cfg op iw true text).length = cfg.indent.length + max op.length iw + 3 + text.length := by
  unfold render
  rw [rstrip_eq_self _ c _ hc]
  · simp only [List.length_append, List.length_replicate, List.length_cons, List.length_nil,
      if_true]; omega
  · obtain ⟨ys, rfl⟩ := List.getLast?_eq_some_iff.mp h
    simp [← List.append_assoc]

/-- An event respects the line width: a row is not over-wide, and there is no warning. -/
def Fits (cfg : Cfg) : Ev → Prop
  | .row _ _ s => (s.length : Int) ≤ cfg.lineWidth
  | .pfx _ => True
  | .warn _ => False

theorem emit_fits (cfg : Cfg) (i : Option Nat) (t s : Str) (h : (s.length : Int) ≤ cfg.lineWidth) :
    ∀ e ∈ emit cfg i t s, Fits cfg e := by
  have : ¬ (s.length : Int) > cfg.lineWidth := by omega
  simp [emit, this, Fits, h]

theorem restLines_fits (cfg : Cfg) (iw : Nat) (ls : List Str)
    (hl : ∀ l ∈ ls, (cfg.indent.length + iw + 3 + l.length : Int) ≤ cfg.lineWidth) :
    ∀ e ∈ restLines cfg iw ls, Fits cfg e := by
  induction ls with
  | nil => simp [restLines]
  | cons l ls ih =>
    intro e he
    simp only [restLines, List.mem_append] at he
    rcases he with he | he
    · refine emit_fits cfg _ _ _ ?_ e he
      have h1 := render_length_le cfg [] iw true l
      have h2 := hl l List.mem_cons_self
      simp only [List.length_nil, Nat.zero_max] at h1
      omega
    · exact ih (fun l' hl' => hl l' (List.mem_cons_of_mem _ hl')) e he

theorem zipRows_fits (cfg : Cfg) (iw rs : Nat) :
    ∀ (ops : List Str) (i : Nat) (ls : List Str), (∀ op ∈ ops, op.length ≤ iw) →
    (∀ l ∈ ls, (cfg.indent.length + iw + 3 + l.length : Int) ≤ cfg.lineWidth) →
    (cfg.indent.length + iw + 3 : Int) ≤ cfg.lineWidth →
    ∀ e ∈ zipRows cfg iw rs i ops ls, Fits cfg e := by
  intro ops
  induction ops with
  | nil => intro i ls _ hl _; simp only [zipRows]; exact restLines_fits cfg iw ls hl
  | cons op ops ih =>
    intro i ls hop hl h0 e he
    have hopl : max op.length iw = iw := Nat.max_eq_right (hop op List.mem_cons_self)
    cases ls with
    | nil =>
      simp only [zipRows, List.mem_cons, List.mem_append] at he
      rcases he with (rfl | he) | he
      · trivial
      · refine emit_fits cfg _ _ _ ?_ e he
        have h1 := render_length_le cfg op iw (rs != 1) []
        rw [hopl] at h1
        simp only [List.length_nil] at h1
        omega
      · exact ih (i + 1) [] (fun o ho => hop o (List.mem_cons_of_mem _ ho)) (by simp) h0 e he
    | cons l ls =>
      simp only [zipRows, List.mem_cons, List.mem_append] at he
      rcases he with (rfl | he) | he
      · trivial
      · refine emit_fits cfg _ _ _ ?_ e he
        have h1 := render_length_le cfg op iw true l
        have h2 := hl l List.mem_cons_self
        rw [hopl] at h1
        omega
      · exact ih (i + 1) ls (fun o ho => hop o (List.mem_cons_of_mem _ ho))
          (fun l' hl' => hl l' (List.mem_cons_of_mem _ hl')) h0 e he

/-- Every over-wide row is accompanied by its warning, and every warning
belongs to an over-wide row. -/
def WarnedExactly (cfg : Cfg) (evs : List Ev) : Prop :=
  (∀ i t s, .row i t s ∈ evs → cfg.lineWidth < (s.length : Int) → .warn s.length ∈ evs) ∧
  (∀ n : Nat, .warn n ∈ evs → ∃ i t s, .row i t s ∈ evs ∧ s.length = n ∧ cfg.lineWidth < (n : Int))

theorem warnedExactly_nil (cfg : Cfg) : WarnedExactly cfg [] := by simp [WarnedExactly]

theorem warnedExactly_emit (cfg : Cfg) (i : Option Nat) (t s : Str) :
    WarnedExactly cfg (emit cfg i t s) := by
  unfold emit WarnedExactly
  split
  · rename_i h
    constructor
    · intro i' t' s' hm _
      simp only [List.mem_cons, Ev.row.injEq, reduceCtorEq, List.not_mem_nil, or_false] at hm
      obtain ⟨_, _, rfl⟩ := hm
      simp
    · intro n hn
      simp only [List.mem_cons, reduceCtorEq, Ev.warn.injEq, List.not_mem_nil, or_false,
        false_or] at hn
      subst hn
      exact ⟨i, t, s, by simp, rfl, by omega⟩
  · rename_i h
    constructor
    · intro i' t' s' hm hl
      simp only [List.mem_cons, Ev.row.injEq, List.not_mem_nil, or_false] at hm
      obtain ⟨_, _, rfl⟩ := hm
      omega
    · intro n hn; simp at hn

theorem warnedExactly_append (cfg : Cfg) (a b : List Ev) (ha : WarnedExactly cfg a)
    (hb : WarnedExactly cfg b) : WarnedExactly cfg (a ++ b) := by
  constructor
  · intro i t s hm hl
    simp only [List.mem_append] at hm ⊢
    rcases hm with hm | hm
    · exact Or.inl (ha.1 i t s hm hl)
    · exact Or.inr (hb.1 i t s hm hl)
  · intro n hn
    simp only [List.mem_append] at hn
    rcases hn with hn | hn
    · obtain ⟨i, t, s, h1, h2, h3⟩ := ha.2 n hn
      exact ⟨i, t, s, by simp [h1], h2, h3⟩
    · obtain ⟨i, t, s, h1, h2, h3⟩ := hb.2 n hn
      exact ⟨i, t, s, by simp [h1], h2, h3⟩

theorem warnedExactly_pfx (cfg : Cfg) (i : Nat) (a : List Ev) (ha : WarnedExactly cfg a) :
    WarnedExactly cfg (.pfx i :: a) := by
  have : WarnedExactly cfg [.pfx i] := by simp [WarnedExactly]
  exact warnedExactly_append cfg [.pfx i] a this ha

theorem restLines_warned (cfg : Cfg) (iw : Nat) (ls : List Str) :
    WarnedExactly cfg (restLines cfg iw ls) := by
  induction ls with
  | nil => exact warnedExactly_nil cfg
  | cons l ls ih => exact warnedExactly_append _ _ _ (warnedExactly_emit ..) ih

theorem zipRows_warned (cfg : Cfg) (iw rs : Nat) : ∀ (ops : List Str) (i : Nat) (ls : List Str),
    WarnedExactly cfg (zipRows cfg iw rs i ops ls) := by
  intro ops
  induction ops with
  | nil => intro i ls; exact restLines_warned cfg iw ls
  | cons op ops ih =>
    intro i ls
    cases ls with
    | nil =>
      simp only [zipRows]
      exact warnedExactly_pfx _ _ _ (warnedExactly_append _ _ _ (warnedExactly_emit ..) (ih _ _))
    | cons l ls =>
      simp only [zipRows]
      exact warnedExactly_pfx _ _ _ (warnedExactly_append _ _ _ (warnedExactly_emit ..) (ih _ _))

theorem specEvents_warned (cfg : Cfg) : ∀ (gs : List Group) (i : Nat) (evs : List Ev),
    specEvents cfg i gs = .ok evs → WarnedExactly cfg evs := by
  intro gs
  induction gs with
  | nil => intro i evs h; simp only [specEvents, Except.ok.injEq] at h; subst h; exact warnedExactly_nil cfg
  | cons g gs ih =>
    intro i evs h
    simp only [specEvents] at h
    cases hg : groupEvents cfg i g with
    | error e => rw [hg] at h; simp at h
    | ok a =>
      rw [hg] at h
      simp only at h
      cases hs : specEvents cfg (i + g.instrs.length) gs with
      | error e => rw [hs] at h; simp at h
      | ok b =>
        rw [hs] at h
        simp only [Except.ok.injEq] at h
        subst h
        refine warnedExactly_append _ _ _ ?_ (ih _ _ hs)
        unfold groupEvents at hg
        split at hg
        · simp at hg
        · simp only [Except.ok.injEq] at hg; subst hg; exact zipRows_warned ..

/-! ### projections: which instruction / which comment line each row shows -/

/-- index of the instruction whose operation a row shows -/
def rowIdx : Ev → Option Nat
  | .row (some i) _ _ => some i
  | _ => none

/-- the comment line a row shows (`[]` = none) -/
def rowText : Ev → Option Str
  | .row _ t _ => some t
  | _ => none

def isRow : Ev → Bool
  | .row _ _ _ => true
  | _ => false

@[simp] theorem rowIdx_pfx (i : Nat) : rowIdx (.pfx i) = none := rfl
@[simp] theorem rowIdx_warn (n : Nat) : rowIdx (.warn n) = none := rfl
@[simp] theorem rowIdx_row (i : Option Nat) (t s : Str) : rowIdx (.row i t s) = i := by
  cases i <;> rfl
@[simp] theorem rowText_pfx (i : Nat) : rowText (.pfx i) = none := rfl
@[simp] theorem rowText_warn (n : Nat) : rowText (.warn n) = none := rfl
@[simp] theorem rowText_row (i : Option Nat) (t s : Str) : rowText (.row i t s) = some t := rfl
@[simp] theorem isRow_pfx (i : Nat) : isRow (.pfx i) = false := rfl
@[simp] theorem isRow_warn (n : Nat) : isRow (.warn n) = false := rfl
@[simp] theorem isRow_row (i : Option Nat) (t s : Str) : isRow (.row i t s) = true := rfl

theorem emit_idx (cfg : Cfg) (i : Option Nat) (t s : Str) :
    (emit cfg i t s).filterMap rowIdx = i.toList := by
  unfold emit; split <;> cases i <;> simp [List.filterMap_cons]

theorem emit_text (cfg : Cfg) (i : Option Nat) (t s : Str) :
    (emit cfg i t s).filterMap rowText = [t] := by
  unfold emit; split <;> simp [List.filterMap_cons]

theorem emit_count (cfg : Cfg) (i : Option Nat) (t s : Str) :
    ((emit cfg i t s).filter isRow).length = 1 := by
  unfold emit; split <;> simp [List.filter_cons]

theorem restLines_idx (cfg : Cfg) (iw : Nat) (ls : List Str) :
    (restLines cfg iw ls).filterMap rowIdx = [] := by
  induction ls with
  | nil => rfl
  | cons l ls ih => simp [restLines, List.filterMap_append, emit_idx, ih]

theorem restLines_text (cfg : Cfg) (iw : Nat) (ls : List Str) :
    (restLines cfg iw ls).filterMap rowText = ls := by
  induction ls with
  | nil => rfl
  | cons l ls ih => simp [restLines, List.filterMap_append, emit_text, ih]

theorem restLines_count (cfg : Cfg) (iw : Nat) (ls : List Str) :
    ((restLines cfg iw ls).filter isRow).length = ls.length := by
  induction ls with
  | nil => rfl
  | cons l ls ih =>
    simp only [restLines, List.filter_append, List.length_append, emit_count, ih, List.length_cons]
    omega

theorem zipRows_cons_nil (cfg : Cfg) (iw rs i : Nat) (op : Str) (ops : List Str) :
    zipRows cfg iw rs i (op :: ops) [] = [.pfx i] ++ emit cfg (some i) [] (render cfg op iw (rs != 1) [])
      ++ zipRows cfg iw rs (i + 1) ops [] := by simp [zipRows]

theorem zipRows_cons_cons (cfg : Cfg) (iw rs i : Nat) (op : Str) (ops : List Str) (l : Str)
    (ls : List Str) :
    zipRows cfg iw rs i (op :: ops) (l :: ls) = [.pfx i] ++ emit cfg (some i) l (render cfg op iw true l)
      ++ zipRows cfg iw rs (i + 1) ops ls := by simp [zipRows]

theorem zipRows_idx (cfg : Cfg) (iw rs : Nat) : ∀ (ops : List Str) (i : Nat) (ls : List Str),
    (zipRows cfg iw rs i ops ls).filterMap rowIdx = List.range' i ops.length := by
  intro ops
  induction ops with
  | nil => intro i ls; simp [zipRows, restLines_idx]
  | cons op ops ih =>
    intro i ls
    cases ls with
    | nil =>
      rw [zipRows_cons_nil]
      simp [List.filterMap_cons, List.filterMap_append, emit_idx, ih, List.range'_succ]
    | cons l ls =>
      rw [zipRows_cons_cons]
      simp [List.filterMap_cons, List.filterMap_append, emit_idx, ih, List.range'_succ]

theorem zipRows_text (cfg : Cfg) (iw rs : Nat) : ∀ (ops : List Str) (i : Nat) (ls : List Str),
    (zipRows cfg iw rs i ops ls).filterMap rowText
      = ls ++ List.replicate (ops.length - ls.length) [] := by
  intro ops
  induction ops with
  | nil => intro i ls; simp [zipRows, restLines_text]
  | cons op ops ih =>
    intro i ls
    cases ls with
    | nil =>
      rw [zipRows_cons_nil]
      simp [List.filterMap_cons, List.filterMap_append, emit_text, ih, List.replicate_succ]
    | cons l ls =>
      rw [zipRows_cons_cons]
      simp [List.filterMap_cons, List.filterMap_append, emit_text, ih]

theorem zipRows_count (cfg : Cfg) (iw rs : Nat) : ∀ (ops : List Str) (i : Nat) (ls : List Str),
    ((zipRows cfg iw rs i ops ls).filter isRow).length = max ops.length ls.length := by
  intro ops
  induction ops with
  | nil => intro i ls; simp [zipRows, restLines_count]
  | cons op ops ih =>
    intro i ls
    cases ls with
    | nil =>
      rw [zipRows_cons_nil]
      simp only [List.filter_append, List.length_append, emit_count, ih, List.length_cons,
        List.length_nil]
      simp; omega
    | cons l ls =>
      rw [zipRows_cons_cons]
      simp only [List.filter_append, List.length_append, emit_count, ih, List.length_cons]
      simp; omega

/-- The comment lines of a group, padded with `[]` for instruction rows
beyond the last comment line. -/
def groupTexts (cfg : Cfg) (g : Group) : List Str :=
  match fmt g.head.text (g.cw cfg) with
  | .ok ls => ls ++ List.replicate (g.instrs.length - ls.length) []
  | .error _ => []

/-- Number of rows a group occupies. -/
def groupRowCount (cfg : Cfg) (g : Group) : Nat :=
  match fmt g.head.text (g.cw cfg) with
  | .ok ls => max g.instrs.length ls.length
  | .error _ => 0

theorem specEvents_proj (cfg : Cfg) : ∀ (gs : List Group) (i : Nat) (evs : List Ev),
    specEvents cfg i gs = .ok evs →
    evs.filterMap rowIdx = List.range' i (flat gs).length ∧
    evs.filterMap rowText = gs.flatMap (groupTexts cfg) ∧
    (evs.filter isRow).length = (gs.map (groupRowCount cfg)).sum := by
  intro gs
  induction gs with
  | nil =>
    intro i evs h
    simp only [specEvents, Except.ok.injEq] at h; subst h
    simp [flat]
  | cons g gs ih =>
    intro i evs h
    simp only [specEvents] at h
    cases hg : groupEvents cfg i g with
    | error e => rw [hg] at h; simp at h
    | ok a =>
      rw [hg] at h
      simp only at h
      cases hs : specEvents cfg (i + g.instrs.length) gs with
      | error e => rw [hs] at h; simp at h
      | ok b =>
        rw [hs] at h
        simp only [Except.ok.injEq] at h
        subst h
        obtain ⟨i1, i2, i3⟩ := ih _ _ hs
        unfold groupEvents at hg
        cases hf : fmt g.head.text (g.cw cfg) with
        | error e => rw [hf] at hg; simp at hg
        | ok ls =>
          rw [hf] at hg
          simp only [Except.ok.injEq] at hg
          subst hg
          refine ⟨?_, ?_, ?_⟩
          · rw [List.filterMap_append, zipRows_idx, i1]
            simp only [List.length_map, flat, List.flatMap_cons, List.length_append]
            rw [List.range'_append_1]
          · rw [List.filterMap_append, zipRows_text, i2]
            simp [groupTexts, hf]
          · rw [List.filter_append, List.length_append, zipRows_count, i3]
            simp [groupRowCount, hf]

/-! ### a comment line that cannot fit is warned about -/

theorem restLines_line_mem (cfg : Cfg) (iw : Nat) (ls : List Str) (l : Str) (hl : l ∈ ls) :
    ∀ e ∈ emit cfg none l (render cfg [] iw true l), e ∈ restLines cfg iw ls := by
  induction ls with
  | nil => simp at hl
  | cons l' ls ih =>
    intro e he
    simp only [restLines, List.mem_append]
    simp only [List.mem_cons] at hl
    rcases hl with rfl | hl
    · exact Or.inl he
    · exact Or.inr (ih hl e he)

theorem zipRows_line_mem (cfg : Cfg) (iw rs : Nat) : ∀ (ops : List Str) (i : Nat) (ls : List Str)
    (l : Str), l ∈ ls → ∃ (j : Option Nat) (op : Str),
      ∀ e ∈ emit cfg j l (render cfg op iw true l), e ∈ zipRows cfg iw rs i ops ls := by
  intro ops
  induction ops with
  | nil =>
    intro i ls l hl
    exact ⟨none, [], by simpa [zipRows] using restLines_line_mem cfg iw ls l hl⟩
  | cons op ops ih =>
    intro i ls l hl
    cases ls with
    | nil => simp at hl
    | cons l' ls =>
      simp only [List.mem_cons] at hl
      rcases hl with rfl | hl
      · refine ⟨some i, op, ?_⟩
        intro e he
        rw [zipRows_cons_cons]; simp [he]
      · obtain ⟨j, op', h⟩ := ih (i + 1) ls l hl
        refine ⟨j, op', ?_⟩
        intro e he
        rw [zipRows_cons_cons]
        simp only [List.mem_append]
        exact Or.inr (h e he)

theorem zipRows_warn_long (cfg : Cfg) (iw rs : Nat) (ops : List Str) (i : Nat) (ls : List Str)
    (l : Str) (hl : l ∈ ls) (c : Nat) (hlast : l.getLast? = some c) (hc : pySpace c = false)
    (hlong : cfg.lineWidth < (cfg.indent.length + iw + 3 + l.length : Int)) :
    ∃ n : Nat, .warn n ∈ zipRows cfg iw rs i ops ls ∧ cfg.lineWidth < (n : Int) := by
  obtain ⟨j, op, h⟩ := zipRows_line_mem cfg iw rs ops i ls l hl
  have hlen := render_length_eq cfg op iw l c hlast hc
  have hgt : (render cfg op iw true l).length > cfg.lineWidth := by
    have : iw ≤ max op.length iw := Nat.le_max_right _ _
    omega
  refine ⟨(render cfg op iw true l).length, h _ ?_, hgt⟩
  simp [emit, hgt]

/-! ### comment lines (`print_comment_lines`) -/

theorem renderComment_length_le (l : Str) : (renderComment l).length ≤ 2 + l.length := by
  have := rstrip_length ([59, 32] ++ l)
  simp only [List.length_append, List.length_cons, List.length_nil] at this
  unfold renderComment; omega

theorem renderComment_length_eq (l : Str) (c : Nat) (h : l.getLast? = some c)
    (hc : pySpace c = false) : (renderComment l).length = 2 + l.length := by
  unfold renderComment
  rw [rstrip_eq_self _ c _ hc]
  · simp; omega
  · obtain ⟨ys, rfl⟩ := List.getLast?_eq_some_iff.mp h
    have : [59, 32] ++ (ys ++ [c]) = ([59, 32] ++ ys) ++ [c] := by simp
    rw [this, List.getLast?_append]; simp

/-- The comment lines a paragraph list is formatted to. -/
def paragraphLines (cfg : Cfg) (ps : List Str) : List Str :=
  ps.flatMap fun p => match fmt p (descWidth cfg) with
    | .ok ls => ls
    | .error _ => []

theorem fmt_nonempty (text : Str) (w : Int) (ls : List Str) (h : fmt text w = .ok ls) :
    ∀ l ∈ ls, l ≠ [] := by
  unfold fmt at h
  simp only at h
  split at h
  · simp only [Except.ok.injEq] at h; subst h; simp
  · split at h
    · rename_i ls' hw
      simp only [Except.ok.injEq] at h; subst h
      exact wrapText_nonempty _ _ _ hw
    · simp at h

theorem printCommentLines_spec (cfg : Cfg) : ∀ (ps : List Str) (started : Bool) (evs : List Ev),
    printCommentLines cfg ps started = .ok evs →
    (∀ n, .warn n ∉ evs) ∧
    (evs.filterMap rowText).filter (· ≠ []) = paragraphLines cfg ps ∧
    (∀ i t s, .row i t s ∈ evs → i = none ∧ s = renderComment t) := by
  intro ps
  induction ps with
  | nil =>
    intro started evs h
    simp only [printCommentLines, Except.ok.injEq] at h; subst h
    simp [paragraphLines]
  | cons p ps ih =>
    intro started evs h
    simp only [printCommentLines] at h
    cases hf : fmt p (descWidth cfg) with
    | error e => rw [hf] at h; simp at h
    | ok ls =>
      rw [hf] at h
      simp only at h
      cases hr : printCommentLines cfg ps (started || !ls.isEmpty) with
      | error e => rw [hr] at h; simp [bindEv] at h
      | ok rest =>
        rw [hr] at h
        simp only [bindEv, Except.ok.injEq] at h
        subst h
        obtain ⟨r1, r2, r3⟩ := ih _ _ hr
        have hne := fmt_nonempty _ _ _ hf
        have hmap : (List.filterMap rowText (ls.map fun l => Ev.row none l (renderComment l))) = ls := by
          simp [List.filterMap_map, Function.comp_def]
        have hfilt : ls.filter (· ≠ []) = ls := by
          simp only [List.filter_eq_self]
          intro l hl; simpa using hne l hl
        refine ⟨?_, ?_, ?_⟩
        · intro n hn
          simp only [List.mem_append, List.mem_map] at hn
          rcases hn with (hn | hn) | hn
          · split at hn <;> simp at hn
          · obtain ⟨_, _, h⟩ := hn; simp at h
          · exact r1 n hn
        · simp only [List.filterMap_append, List.filter_append, hmap, hfilt, r2, paragraphLines,
            List.flatMap_cons, hf]
          split <;> simp
        · intro i t s hm
          simp only [List.mem_append, List.mem_map] at hm
          rcases hm with (hm | hm) | hm
          · split at hm
            · simp only [List.mem_cons, Ev.row.injEq, List.not_mem_nil, or_false] at hm
              obtain ⟨rfl, rfl, rfl⟩ := hm; exact ⟨rfl, rfl⟩
            · simp at hm
          · obtain ⟨l, _, h⟩ := hm
            simp only [Ev.row.injEq] at h
            obtain ⟨rfl, rfl, rfl⟩ := h; exact ⟨rfl, rfl⟩
          · exact r3 i t s hm

/-! ### words of the comment text survive formatting -/

theorem tokens_nil : tokens [] = [] := by decide

theorem fmt_tokens (text : Str) (w : Int) (ls : List Str) (h : fmt text w = .ok ls) :
    ls.flatMap tokens = tokens (strip text) := by
  unfold fmt at h
  simp only at h
  split at h
  · rename_i h0
    simp only [Except.ok.injEq] at h; subst h
    rw [h0, tokens_nil]; rfl
  · split at h
    · rename_i ls' hw
      simp only [Except.ok.injEq] at h; subst h
      exact wrapText_tokens _ _ _ hw
    · simp at h

theorem groupTexts_tokens (cfg : Cfg) (g : Group) (ls : List Str)
    (h : fmt g.head.text (g.cw cfg) = .ok ls) :
    (groupTexts cfg g).flatMap tokens = tokens (strip g.head.text) := by
  have hrep : ∀ n : Nat, (List.replicate n ([] : Str)).flatMap tokens = [] := by
    intro n; induction n with
    | zero => rfl
    | succ n ih => simp [List.replicate_succ, tokens_nil, ih]
  simp only [groupTexts, h, List.flatMap_append, hrep, List.append_nil]
  exact fmt_tokens _ _ _ h

theorem specEvents_tokens (cfg : Cfg) : ∀ (gs : List Group) (i : Nat) (evs : List Ev),
    specEvents cfg i gs = .ok evs →
    (gs.flatMap (groupTexts cfg)).flatMap tokens = gs.flatMap fun g => tokens (strip g.head.text) := by
  intro gs
  induction gs with
  | nil => intro i evs _; rfl
  | cons g gs ih =>
    intro i evs h
    simp only [specEvents] at h
    cases hg : groupEvents cfg i g with
    | error e => rw [hg] at h; simp at h
    | ok a =>
      rw [hg] at h
      simp only at h
      cases hs : specEvents cfg (i + g.instrs.length) gs with
      | error e => rw [hs] at h; simp at h
      | ok b =>
        unfold groupEvents at hg
        cases hf : fmt g.head.text (g.cw cfg) with
        | error e => rw [hf] at hg; simp at hg
        | ok ls =>
          simp only [List.flatMap_cons, List.flatMap_append]
          rw [groupTexts_tokens cfg g ls hf, ih _ _ hs]

theorem paragraphLines_tokens (cfg : Cfg) : ∀ (ps : List Str) (started : Bool) (evs : List Ev),
    printCommentLines cfg ps started = .ok evs →
    (paragraphLines cfg ps).flatMap tokens = ps.flatMap fun p => tokens (strip p) := by
  intro ps
  induction ps with
  | nil => intro _ _ _; rfl
  | cons p ps ih =>
    intro started evs h
    simp only [printCommentLines] at h
    cases hf : fmt p (descWidth cfg) with
    | error e => rw [hf] at h; simp at h
    | ok ls =>
      rw [hf] at h; simp only at h
      cases hr : printCommentLines cfg ps (started || !ls.isEmpty) with
      | error e => rw [hr] at h; simp [bindEv] at h
      | ok rest =>
        have := ih _ _ hr
        simp only [paragraphLines, List.flatMap_cons, hf, List.flatMap_append] at this ⊢
        rw [fmt_tokens _ _ _ hf, this]

end AsmRows
