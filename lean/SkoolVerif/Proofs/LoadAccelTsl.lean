import SkoolVerif.Proofs.LoadAccelDecA
import SkoolVerif.Model.LoadTape
import Mathlib.Tactic.Ring
/-!
Tape-sampling-loop fast-forward (`_read_port`): the closed form the accelerator writes equals the
iteration of the loop body it abstracts, the number of skipped iterations never jumps over a
tape edge or a counter time-out, and skipping calls of the tape-advance code of the `run` loop is
harmless (`advIdx` composes).
-/
open Z80
namespace LoadAccel

theorem ltINC0_fst (i : Int) : (ltINC0 i).1 = (i + 1) % 256 := rfl
theorem ltDEC0_fst (i : Int) : (ltDEC0 i).1 = (i - 1) % 256 := rfl

theorem iterN_succ' {α : Type} (f : α → α) (n : Nat) (x : α) : iterN f (n + 1) x = f (iterN f n x) := by
  induction n generalizing x with
  | zero => rfl
  | succ n ih => simp only [iterN] at ih ⊢; exact ih (f x)

/-- `n + 1` real iterations of an INC-counting loop, in closed form -/
theorem tsl_iter_inc (L ri : Int) (n : Nat) : ∀ (c f r t : Int), Byte r → 0 ≤ c → c + (n + 1) ≤ 255 →
    iterN (tslIter true L ri) (n + 1) (c, f, r, t)
      = (c + (n + 1), (ltINC0 (c + n)).2, rAdd r (ri * (n + 1)), t + L * (n + 1)) := by
  induction n with
  | zero =>
    intro c f r t _ h0 h1
    simp only [iterN, tslIter, if_true, ltINC0_fst]
    simp
    omega
  | succ n ih =>
    intro c f r t hr h0 h1
    rw [iterN]
    have e : tslIter true L ri (c, f, r, t) = (c + 1, (ltINC0 c).2, rAdd r ri, t + L) := by
      simp only [tslIter, if_true, ltINC0_fst]
      have : (c + 1) % 256 = c + 1 := by omega
      rw [this]
    rw [e, ih (c + 1) _ _ _ (rAdd_byte r ri hr) (by omega) (by push_cast at h1 ⊢; omega), rAdd_rAdd _ _ _ hr]
    push_cast
    have e1 : c + 1 + ((n : Int) + 1) = c + ((n : Int) + 1 + 1) := by omega
    have e2 : c + 1 + (n : Int) = c + ((n : Int) + 1) := by omega
    have e3 : ri + ri * ((n : Int) + 1) = ri * ((n : Int) + 1 + 1) := by ring
    have e4 : t + L + L * ((n : Int) + 1) = t + L * ((n : Int) + 1 + 1) := by ring
    rw [e1, e2, e3, e4]

/-- `n + 1` real iterations of a DEC-counting loop, in closed form -/
theorem tsl_iter_dec (L ri : Int) (n : Nat) : ∀ (c f r t : Int), Byte r → c ≤ 256 → 1 ≤ c - (n + 1) →
    iterN (tslIter false L ri) (n + 1) (c, f, r, t)
      = (c - (n + 1), (ltDEC0 (c - n)).2, rAdd r (ri * (n + 1)), t + L * (n + 1)) := by
  induction n with
  | zero =>
    intro c f r t _ h0 h1
    simp only [iterN, tslIter, Bool.false_eq_true, if_false, ltDEC0_fst]
    simp
    omega
  | succ n ih =>
    intro c f r t hr h0 h1
    rw [iterN]
    have e : tslIter false L ri (c, f, r, t) = (c - 1, (ltDEC0 c).2, rAdd r ri, t + L) := by
      simp only [tslIter, Bool.false_eq_true, if_false, ltDEC0_fst]
      have : (c - 1) % 256 = c - 1 := by push_cast at h1; omega
      simp [this]
    rw [e, ih (c - 1) _ _ _ (rAdd_byte r ri hr) (by omega) (by push_cast at h1 ⊢; omega), rAdd_rAdd _ _ _ hr]
    push_cast
    have e1 : c - 1 - ((n : Int) + 1) = c - ((n : Int) + 1 + 1) := by omega
    have e2 : c - 1 - (n : Int) = c - ((n : Int) + 1) := by omega
    have e3 : ri + ri * ((n : Int) + 1) = ri * ((n : Int) + 1 + 1) := by ring
    have e4 : t + L + L * ((n : Int) + 1) = t + L * ((n : Int) + 1 + 1) := by ring
    rw [e1, e2, e3, e4]

theorem pyIndex256_in (i : Int) (h : 0 ≤ i ∧ i < 256) : pyIndex256 i = some i := by
  unfold pyIndex256; rw [if_pos h]

/-- what `_read_port` writes = `loops` iterations of the loop body (INC) -/
theorem tslFfwd_inc_eq_iter (L ri c f r t loops : Int) (hr : Byte r) (hc : 0 ≤ c) (h1 : 1 ≤ loops) (h2 : loops ≤ 255 - c) :
    tslFfwd true L ri c r t loops = some (iterN (tslIter true L ri) loops.toNat (c, f, r, t)) := by
  obtain ⟨n, rfl⟩ : ∃ n : Nat, loops = n + 1 := ⟨(loops - 1).toNat, by omega⟩
  have e : ((n : Int) + 1).toNat = n + 1 := by omega
  rw [e, tsl_iter_inc L ri n c f r t hr hc (by omega)]
  have e1 : c + ((n : Int) + 1) - 1 = c + n := by omega
  have h3 : 0 ≤ c + (n : Int) ∧ c + (n : Int) < 256 := by omega
  have e2 : (c + (n : Int) + 1) % 256 = c + ((n : Int) + 1) := by omega
  unfold tslFfwd
  simp only [if_true, e1]
  rw [pyIndex256_in _ h3]
  simp only [ltINC0_fst, e2]

/-- what `_read_port` writes = `loops` iterations of the loop body (DEC) -/
theorem tslFfwd_dec_eq_iter (L ri c f r t loops : Int) (hr : Byte r) (hc : c ≤ 255) (h1 : 1 ≤ loops) (h2 : loops ≤ c - 1) :
    tslFfwd false L ri c r t loops = some (iterN (tslIter false L ri) loops.toNat (c, f, r, t)) := by
  obtain ⟨n, rfl⟩ : ∃ n : Nat, loops = n + 1 := ⟨(loops - 1).toNat, by omega⟩
  have e : ((n : Int) + 1).toNat = n + 1 := by omega
  rw [e, tsl_iter_dec L ri n c f r t hr (by omega) (by omega)]
  have e1 : c - ((n : Int) + 1) + 1 = c - n := by omega
  have h3 : 0 ≤ c - (n : Int) ∧ c - (n : Int) < 256 := by omega
  have e2 : (c - (n : Int) - 1) % 256 = c - ((n : Int) + 1) := by omega
  unfold tslFfwd
  simp only [Bool.false_eq_true, if_false, e1]
  rw [pyIndex256_in _ h3]
  simp only [ltDEC0_fst, e2]

/-! ### the number of skipped iterations -/

theorem tslLoops_inc_spec (E t L c : Int) (hL : 0 < L) (hE : t < E) (hc : 0 ≤ c ∧ c ≤ 255) :
    let loops := tslLoops true E t L c
    0 ≤ loops ∧ loops ≤ 255 - c ∧ (∀ k : Int, 0 ≤ k → k < loops → t + k * L ≤ E)
      ∧ (loops = 255 - c ∨ E < t + loops * L) := by
  intro loops
  have hq := Int.mul_ediv_add_emod (E - t) L
  have hm0 := Int.emod_nonneg (E - t) (by omega : L ≠ 0)
  have hm1 := Int.emod_lt_of_pos (E - t) hL
  have hq0 : 0 ≤ (E - t) / L := Int.ediv_nonneg (by omega) (by omega)
  have hl : loops = min ((E - t) / L + 1) (255 - c) := by simp [loops, tslLoops]
  refine ⟨by omega, by omega, ?_, ?_⟩
  · intro k hk0 hk
    have hk2 : k ≤ (E - t) / L := by omega
    have : k * L ≤ ((E - t) / L) * L := Int.mul_le_mul_of_nonneg_right hk2 (by omega)
    rw [Int.mul_comm ((E - t) / L) L] at this
    omega
  · by_cases h : (E - t) / L + 1 ≤ 255 - c
    · right
      have : loops = (E - t) / L + 1 := by omega
      rw [this, Int.add_mul, Int.mul_comm ((E - t) / L) L]
      omega
    · left; omega

theorem tslLoops_dec_spec (E t L c : Int) (hL : 0 < L) (hE : t < E) (hc : 0 ≤ c ∧ c ≤ 255) :
    let loops := tslLoops false E t L c
    0 ≤ loops ∧ (1 ≤ c → loops ≤ c - 1) ∧ (c = 0 → loops = 0) ∧ (∀ k : Int, 0 ≤ k → k < loops → t + k * L ≤ E)
      ∧ (loops = max (c - 1) 0 ∨ E < t + loops * L) := by
  intro loops
  have hq := Int.mul_ediv_add_emod (E - t) L
  have hm0 := Int.emod_nonneg (E - t) (by omega : L ≠ 0)
  have hm1 := Int.emod_lt_of_pos (E - t) hL
  have hq0 : 0 ≤ (E - t) / L := Int.ediv_nonneg (by omega) (by omega)
  have hl : loops = min ((E - t) / L + 1) (max (c - 1) 0) := by simp [loops, tslLoops]
  refine ⟨by omega, by omega, by omega, ?_, ?_⟩
  · intro k hk0 hk
    have hk2 : k ≤ (E - t) / L := by omega
    have : k * L ≤ ((E - t) / L) * L := Int.mul_le_mul_of_nonneg_right hk2 (by omega)
    rw [Int.mul_comm ((E - t) / L) L] at this
    omega
  · by_cases h : (E - t) / L + 1 ≤ max (c - 1) 0
    · right
      have : loops = (E - t) / L + 1 := by omega
      rw [this, Int.add_mul, Int.mul_comm ((E - t) / L) L]
      omega
    · left; omega

end LoadAccel

namespace LoadTape

/-! ### the edge index -/

/-- nothing to advance: the next edge is not yet strictly in the past (or there is none) -/
theorem advIdx_stay (edges : Array Int) (maxIndex : Int) (fuel : Nat) (index t e : Int)
    (he : pyGet edges (index + 1) = some e) (hlt : t ≤ e) : advIdx edges maxIndex fuel index t = some index := by
  cases fuel with
  | zero => rfl
  | succ fuel =>
    simp only [advIdx, he]
    split
    · have : ¬ e < t := by omega
      simp [this]
    · rfl

theorem advIdx_at_max (edges : Array Int) (maxIndex : Int) (fuel : Nat) (index t : Int) (h : maxIndex ≤ index) :
    advIdx edges maxIndex fuel index t = some index := by
  cases fuel with
  | zero => rfl
  | succ fuel =>
    have : ¬ index < maxIndex := by omega
    simp [advIdx, this]

/-- one edge has passed and the one after it has not -/
theorem advIdx_one (edges : Array Int) (maxIndex : Int) (fuel : Nat) (index t e : Int) (hi : index < maxIndex)
    (he : pyGet edges (index + 1) = some e) (hlt : e < t)
    (hnext : index + 1 = maxIndex ∨ ∃ e2, pyGet edges (index + 2) = some e2 ∧ t ≤ e2) :
    advIdx edges maxIndex (fuel + 1) index t = some (index + 1) := by
  simp only [advIdx, hi, if_true, he, hlt]
  rcases hnext with h | ⟨e2, h2, h3⟩
  · exact advIdx_at_max _ _ _ _ _ (by omega)
  · exact advIdx_stay _ _ _ _ _ e2 (by rw [← h2]; congr 1; omega) h3

/-- Advancing to `t1` and then to `t2 ≥ t1` is advancing to `t2` at once: calling the tape-advance
code after every instruction or only after an accelerated jump gives the same edge index.
(`fuel` only has to cover the edges that remain.) -/
theorem advIdx_compose (edges : Array Int) (maxIndex : Int) (t1 t2 : Int) (h12 : t1 ≤ t2) :
    ∀ (fuel : Nat) (index j : Int), maxIndex - index ≤ fuel →
      advIdx edges maxIndex fuel index t1 = some j →
      advIdx edges maxIndex fuel index t2 = advIdx edges maxIndex fuel j t2 := by
  intro fuel
  induction fuel with
  | zero =>
    intro index j _ h
    simp only [advIdx] at h
    cases h; rfl
  | succ fuel ih =>
    intro index j hf h
    simp only [advIdx] at h
    split at h
    · rename_i hlt
      split at h
      · cases h
      · rename_i e he
        split at h
        · rename_i het
          have h2 := ih (index + 1) j (by omega) h
          have : e < t2 := by omega
          -- one step of the t2-walk from `index`, then the induction hypothesis
          have step : advIdx edges maxIndex (fuel + 1) index t2 = advIdx edges maxIndex fuel (index + 1) t2 := by
            simp [advIdx, hlt, he, this]
          rw [step, h2]
          -- the walk from `j` needs no more fuel than is left
          exact (advIdx_fuel_irrel edges maxIndex t2 fuel j (by
            have := advIdx_ge edges maxIndex fuel (index + 1) t1 j h
            omega)).symm
        · cases h; rfl
    · cases h; rfl
where
  advIdx_ge (edges : Array Int) (maxIndex : Int) : ∀ (fuel : Nat) (index t j : Int),
      advIdx edges maxIndex fuel index t = some j → index ≤ j := by
    intro fuel
    induction fuel with
    | zero => intro index t j h; simp only [advIdx] at h; cases h; omega
    | succ fuel ih =>
      intro index t j h
      simp only [advIdx] at h
      split at h
      · split at h
        · cases h
        · split at h
          · have := ih _ _ _ h; omega
          · cases h; omega
      · cases h; omega
  advIdx_fuel_irrel (edges : Array Int) (maxIndex t : Int) : ∀ (fuel : Nat) (j : Int), maxIndex - j ≤ fuel →
      advIdx edges maxIndex (fuel + 1) j t = advIdx edges maxIndex fuel j t := by
    intro fuel
    induction fuel with
    | zero =>
      intro j h
      have : ¬ j < maxIndex := by omega
      simp [advIdx, this]
    | succ fuel ih =>
      intro j h
      rw [advIdx]
      conv => rhs; rw [advIdx]
      split
      · split
        · rfl
        · split
          · exact ih _ (by omega)
          · rfl
      · rfl

end LoadTape
