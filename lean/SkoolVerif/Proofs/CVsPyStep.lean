import SkoolVerif.Proofs.CVsPyStepDefs
import SkoolVerif.Gen.CVsPyThms
import SkoolVerif.Gen.CCmioVsPyThms
import SkoolVerif.Proofs.SimResume
import SkoolVerif.Proofs.CmioResume
import SkoolVerif.Proofs.CmioVsSimStep
/-!
One instruction and runs of the C simulators (plain and `-DCONTENTION` build) equal the Python ones
(definitions of `CSimH.step`, `CCmioH.step`: `Proofs/CVsPyStepDefs.lean`).
-/
open Z80 DispatchEq

namespace CSimH
variable {μ : Type} [MemLike μ]

/-! ### one instruction, and runs -/

variable [CellMem μ]

/-- one instruction of the plain C simulator = one instruction of the plain Python simulator -/
theorem step_eq_py (cfg : Cfg) (s : St μ) (h : RInv s) (hrep : CRep cfg s) (hout : OutOk cfg s) :
    step cfg s = Sim.step cfg s := by
  rw [Sim.step_eq, step, leafOf_eq s h.mem]
  exact c_execLeaf_eq cfg _ (Sim.leafOf_wf s) (leafOf_cargs s) s h hrep hout

/-- what `CRep` asks of the configuration alone -/
structure CfgRep (cfg : Cfg) : Prop where
  fd_pos : 0 < cfg.frame_duration
  fd_lt : cfg.frame_duration < 2147483648
  ia : 0 ≤ cfg.int_active ∧ cfg.int_active < 4294967296
  t0 : 0 ≤ cfg.t0 ∧ cfg.t0 < 4294967296
  t1 : 0 ≤ cfg.t1 ∧ cfg.t1 < 4294967296

theorem CfgRep.crep {cfg : Cfg} (hc : CfgRep cfg) (s : St μ) (ht : s.t < 9223372036854775808) : CRep cfg s :=
  ⟨ht, hc.fd_pos, hc.fd_lt, hc.ia, hc.t0, hc.t1⟩

/-- the state-independent form of `OutOk` -/
def OutOkAll (μ : Type) [MemLike μ] (cfg : Cfg) : Prop :=
  cfg.out_tracer = true ∨ ∀ (m : μ) (p v : Int), MemLike.portOut m p v = m

theorem OutOkAll.at {cfg : Cfg} (h : OutOkAll μ cfg) (s : St μ) : OutOk cfg s := by
  rcases h with h | h
  · exact Or.inl h
  · exact Or.inr (h s.mem)

theorem runN_t_le (cfg : Cfg) (n : Nat) (s : St μ) : (Sim.runN cfg n s).t ≤ s.t + n * Tshift.maxDur := by
  induction n generalizing s with
  | zero => simp [Sim.runN]
  | succ n ih =>
    simp only [Sim.runN]
    have h1 := ih (Sim.step cfg s)
    have h2 := Sim.dur_step cfg s
    have : ((n + 1 : Nat) : Int) * Tshift.maxDur = (n : Int) * Tshift.maxDur + Tshift.maxDur := by
      rw [Int.natCast_add, Int.add_mul]; simp
    omega

/-- any number of instructions: the C run (plain build) ends in exactly the state of the Python run, as long as the
clock stays below 2^63 (each instruction adds at most 23 T-states) -/
theorem runN_eq_py (cfg : Cfg) (hcfg : CfgRep cfg) (hout : OutOkAll μ cfg) (n : Nat) (s : St μ) (h : RInv s)
    (ht : s.t + n * Tshift.maxDur < 9223372036854775808) : runN cfg n s = Sim.runN cfg n s := by
  induction n generalizing s with
  | zero => rfl
  | succ n ih =>
    simp only [runN, Sim.runN]
    have hm : (0 : Int) ≤ Tshift.maxDur := by decide
    have e : ((n + 1 : Nat) : Int) * Tshift.maxDur = (n : Int) * Tshift.maxDur + Tshift.maxDur := by
      rw [Int.natCast_add, Int.add_mul]; simp
    have hn : (0 : Int) ≤ (n : Int) * Tshift.maxDur := Int.mul_nonneg (Int.natCast_nonneg n) hm
    rw [step_eq_py cfg s h (hcfg.crep s (by omega)) (hout.at s)]
    have hd := Sim.dur_step cfg s
    exact ih (Sim.step cfg s) (Sim.rinv_step cfg s h) (by omega)

end CSimH

namespace CCmioH
open CmioVsSim
variable {μ : Type} [MemLike μ]

variable [CellMem μ] [PageStable μ]

/-- one instruction of the contended C simulator = one instruction of the contended Python simulator -/
theorem step_eq_py (cfg : Cfg) (s : St μ) (h : RInv s) (hrep : CRep cfg s) (hout : OutOk cfg s) :
    step cfg s = Cmio.step cfg s := by
  rw [Cmio.step_eq, step, CSimH.leafOf_eq s h.mem, ← leafOf_map s]
  exact c_execLeaf_eq cfg _ (Cmio.leafOf_wf s) (leafOf_cargs s) s h hrep hout

theorem runN_eq_py (cfg : Cfg) (hcfg : CSimH.CfgRep cfg) (hout : CSimH.OutOkAll μ cfg) (n : Nat) (s : St μ) (h : RInv s)
    (ht : s.t + n * Tshift.maxDurCmio < 9223372036854775808) : runN cfg n s = Cmio.runN cfg n s := by
  induction n generalizing s with
  | zero => rfl
  | succ n ih =>
    simp only [runN, Cmio.runN]
    have hm : (0 : Int) ≤ Tshift.maxDurCmio := by decide
    have e : ((n + 1 : Nat) : Int) * Tshift.maxDurCmio = (n : Int) * Tshift.maxDurCmio + Tshift.maxDurCmio := by
      rw [Int.natCast_add, Int.add_mul]; simp
    have hn : (0 : Int) ≤ (n : Int) * Tshift.maxDurCmio := Int.mul_nonneg (Int.natCast_nonneg n) hm
    have ho : OutOk cfg s := by
      rcases hout with ho | ho
      · exact Or.inl ho
      · exact Or.inr (ho s.mem)
    rw [step_eq_py cfg s h ⟨by omega, hcfg.fd_pos, hcfg.fd_lt, hcfg.ia, hcfg.t0, hcfg.t1⟩ ho]
    have hd := Cmio.dur_step cfg s
    exact ih (Cmio.step cfg s) (Cmio.rinv_step cfg s h) (by omega)

end CCmioH
